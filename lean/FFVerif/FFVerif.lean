import FFVerif.Model.Cycle
import FFVerif.Model.Proto
import FFVerif.Props.Spec
import FFVerif.Props.C01
import FFVerif.Proofs.C01
import FFVerif.Props.C02
import FFVerif.Proofs.C02
