/-
Executable model of `utils.gramSchmidOrth` (utils/derivatives.py:337-366) up to the matrix `B`, statement
by statement; generic in the scalar, core Lean only.  The matrix is a list of columns.

  alignVec = A[:, 0] unless given
  for i in 1 .. dim-1:  if the rest of column i after removing its component along alignVec is at most
                        1e-12 of the column:  B[:, 1:] = A without column i        (the last such i wins)
  B[:, 0] = alignVec / |alignVec|
  for i in 1 .. dim-1:  curVec = B[:, i];  for j < i: curVec -= <B_j, curVec> / <B_j, B_j> * B_j;  B[:, i] = curVec / |curVec|
-/
import FFVerif.Model.Linalg
namespace FF.Gram
open FF.Linalg
section
variable {α : Type} [Transc α]

def smul (k : α) (v : Vec α) : Vec α := fun i => k * v i

/-- `curVec` is a numerically exact multiple of `alignVec` -/
def coincides (n : Nat) (alignVec curVec : Vec α) : Bool :=
  let unit := smul (one / norm n alignVec) alignVec
  let rest := vsub curVec (smul (dot n curVec unit) unit)
  Transc.leb (norm n rest) (Transc.lit 1 12 * norm n curVec)

/-- the columns handed to the orthogonalisation: `alignVec`, then the columns `1 ..` of `A`, or - when
column `i ≥ 1` coincides with `alignVec` (the last such `i`) - all columns of `A` except `i` -/
def arrange (n : Nat) (cols : List (Vec α)) (alignVec : Vec α) : List (Vec α) :=
  let hits := (List.range cols.length).filter (fun i => 1 ≤ i ∧ coincides n alignVec (cols.getD i (fun _ => zero)))
  match hits.getLast? with
  | some i => alignVec :: (cols.eraseIdx i)
  | none => alignVec :: cols.tail

/-- inner loop: subtract, one after the other, the components along the columns already built -/
def project (n : Nat) (bs : List (Vec α)) (cur : Vec α) : Vec α :=
  bs.foldl (fun c b => vsub c (smul (dot n b c / dot n b b) b)) cur

/-- outer loop: project, then normalise -/
def mgs (n : Nat) (vs : List (Vec α)) : List (Vec α) :=
  vs.foldl (fun bs v =>
    let p := project n bs v
    let pa := mkArr n p
    let pp := ofArr pa p
    let nrm := norm n pp
    let qf : Vec α := fun i => pp i / nrm
    let qa := mkArr n qf
    bs ++ [ofArr qa qf]) []

/-- the matrix `B` (as its list of columns) -/
def orth (n : Nat) (cols : List (Vec α)) (alignVec : Option (Vec α)) : List (Vec α) :=
  let al := match alignVec with
    | some v => v
    | none => cols.headD (fun _ => zero)
  mgs n (arrange n cols al)

end
end FF.Gram
