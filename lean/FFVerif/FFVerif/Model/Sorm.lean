/-
The closing formulas of the three second-order estimates (rrm/secondOrderReliabilityMethod.py:63-95),
generic in the scalar type; `formPf = Φ(-β)`, `pdfB = φ(β)`, `cdfB = Φ(β)` enter as values.
Core Lean only.
-/
import FFVerif.Model.Scalar
namespace FF.Sorm
section
variable {α : Type} [Transc α]

def one : α := Transc.lit 1 0
def negHalf : α := -(Transc.lit 5 1)

/-- `np.prod( np.power( 1 + c * ks, -0.5 ) )` -/
def curvProd (c : α) (ks : List α) : α := ks.foldl (fun acc k => acc * Transc.rpow (one + c * k) negHalf) one

def breitung (beta formPf : α) (ks : List α) : α := formPf * curvProd beta ks

def hrack (formPf pdfB cdfB : α) (ks : List α) : α := formPf * curvProd (pdfB / cdfB) ks

def tvedt (beta formPf pdfB : α) (ks : List α) : α :=
  let a1 := formPf * curvProd beta ks
  let a2 := (beta * formPf - pdfB) * (curvProd beta ks - curvProd (beta + one) ks)
  let a3 := (beta + one) * (beta * formPf - pdfB) * (curvProd beta ks - curvProd (beta + one) ks)
  a1 + a2 + a3

end
end FF.Sorm
