/-
The scalar interface of the generated (translated) definitions.  Core Lean only.
One generated text is used twice: at `Float` the driver evaluates it (translation validation
against the Python function), at the reals (instance in FFVerif/Lemmas/RealScalar.lean) the property
theorems are proved about it.
-/
namespace FF

class Transc (α : Type) extends Add α, Sub α, Mul α, Div α, Neg α where
  /-- the decimal literal `m * 10^-e` -/
  lit : Nat → Nat → α
  npow : α → Nat → α
  rpow : α → α → α
  exp : α → α
  log : α → α
  log10 : α → α
  sqrt : α → α
  sin : α → α
  gamma : α → α
  pi : α
  max2 : α → α → α
  ltb : α → α → Bool
  leb : α → α → Bool
  eqb : α → α → Bool

namespace Transc
variable {α : Type} [Transc α]
def gtb (a b : α) : Bool := ltb b a
def geb (a b : α) : Bool := leb b a
def neb (a b : α) : Bool := !eqb a b
end Transc

/-- Γ for the Float instance: supplied per request by the harness (core `Float` has no Γ) -/
initialize gammaOracle : IO.Ref (Array (Float × Float)) ← IO.mkRef #[]

/-- Lanczos approximation (g = 7, n = 9), relative error ≈ 1e-15 on the positive axis: used only by
the Float instance for translation validation, never in a theorem -/
def lanczosGamma (x : Float) : Float :=
  let g : Float := 7
  let c : Array Float := #[0.99999999999980993, 676.5203681218851, -1259.1392167224028,
    771.32342877765313, -176.61502916214059, 12.507343278686905, -0.13857109526572012,
    9.9843695780195716e-6, 1.5056327351493116e-7]
  let x := x - 1
  let t := x + g + 0.5
  let s := (List.range 8).foldl (fun acc i => acc + c[i + 1]! / (x + (i + 1).toFloat)) c[0]!
  Float.sqrt (2 * 3.141592653589793) * Float.pow t (x + 0.5) * Float.exp (-t) * s

instance : Transc Float where
  lit m e := Float.ofScientific m true e
  npow x n := Float.pow x n.toFloat
  rpow := Float.pow
  exp := Float.exp
  log := Float.log
  log10 := Float.log10
  sqrt := Float.sqrt
  sin := Float.sin
  gamma := lanczosGamma
  pi := 3.141592653589793
  max2 a b := if a < b then b else a
  ltb a b := a < b
  leb a b := a ≤ b
  eqb a b := a == b

end FF
