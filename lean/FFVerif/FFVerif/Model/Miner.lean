/-
Executable model of the Miner damage models (fdm/minerModel.py) and the S-N curve fitter
(utils/fitter.py), generic in the scalar type.  Core Lean only.
-/
import FFVerif.Model.Scalar
namespace FF.Miner
section
variable {α : Type} [Transc α]

def zero : α := Transc.lit 0 0

def sum (l : List α) : α := l.foldl (· + ·) zero

/-- number of points as a scalar -/
def count (l : List α) : α := l.foldl (fun acc _ => acc + Transc.lit 1 0) zero

/-- slope and intercept of the least-squares line y ≈ a*x + b (what `np.polyfit( x, y, 1 )` returns) -/
def lsq (xs ys : List α) : α × α :=
  let n := count xs
  let sx := sum xs
  let sy := sum ys
  let sxx := sum (xs.map (fun x => x * x))
  let sxy := sum ((xs.zip ys).map (fun p => p.1 * p.2))
  let a := (n * sxy - sx * sy) / (n * sxx - sx * sx)
  let b := (sy - a * sx) / n
  (a, b)

/-- `SnCurveFitter( data, fatigueLimit ).getN( S )`; `sn` rows are `(N_i, S_i)`; `none` is the -1 sentinel -/
def getN (sn : List (α × α)) (limit S : α) : Option α :=
  if Transc.leb S limit then none
  else
    let ab := lsq (sn.map (·.2)) (sn.map (fun p => Transc.log10 p.1))
    some (Transc.rpow (Transc.lit 10 0) (ab.1 * S + ab.2))

/-- the accumulation loop of `minerDamageModelClassic`; `rows` are `(range, count)` -/
def classicStep (sn : List (α × α)) (limit : α) (rst : α) (p : α × α) : α :=
  match getN sn limit p.1 with
  | some nf => rst + p.2 / nf
  | none => rst

def classic (rows sn : List (α × α)) (limit : α) : α :=
  rows.foldl (classicStep sn limit) zero

/-- `minerDamageModelNaive`: rows are `(C_i, F_i)` -/
def naive (rows : List (α × α)) : α := sum (rows.map (fun p => p.1 / p.2))

end
end FF.Miner
