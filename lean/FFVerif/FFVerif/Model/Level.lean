/-
Executable models of level-crossing and peak counting (astmCounting.py:14-147).  Core Lean only.
Levels live on the same integer grid as the loads; `unit` is the grid value of 1.0.
-/
import FFVerif.Model.Cycle
namespace FF

/-- `sorted( set( levels ) )` -/
def insertLevel (x : Int) : List Int → List Int
  | [] => [x]
  | y :: t => if x < y then x :: y :: t else if x = y then y :: t else y :: insertLevel x t

def sortLevels (l : List Int) : List Int := l.foldl (fun acc x => insertLevel x acc) []

/-- `np.linspace( floor(min), ceil(max), ceil(max) - floor(min) + 1 )` on the grid: the multiples of
`unit` from `⌊min/unit⌋` to `⌈max/unit⌉` -/
def defaultLevels (unit : Nat) (h : List Int) : List Int :=
  match h with
  | [] => []
  | x :: xs =>
    let mn := xs.foldl min x
    let mx := xs.foldl max x
    let lo := mn.fdiv unit
    let hi := -((-mx).fdiv unit)
    (List.range (hi - lo + 1).toNat).map (fun (i : Nat) => (lo + (i : Int)) * (unit : Int))

/-- the levels counted on one segment `a → b` (lines 69-81): a window over the sorted levels,
open at the lower end except on the very first segment, closed at the upper end; rising segments
count levels at or above the reference, falling ones levels below it -/
def lcSegment (first : Bool) (ref : Int) (levels : List Int) (a b : Int) : List Int :=
  let lo := min a b
  let hi := max a b
  levels.filter (fun lv => (if first then decide (lo ≤ lv) else decide (lo < lv)) && decide (lv ≤ hi) &&
    (if a ≤ b then decide (lv ≥ ref) else decide (lv < ref)))

def lcGo (ref : Int) (levels : List Int) : Bool → List Int → List Int
  | first, a :: b :: rest => lcSegment first ref levels a b ++ lcGo ref levels false (b :: rest)
  | _, _ => []

/-- `astmLevelCrossingCounting( data, refLevel, levels, aggregate=False )`, levels already resolved -/
def levelCrossingSeq (h : List Int) (ref : Int) (levels : List Int) : List Int :=
  lcGo ref (sortLevels levels) true (pv true h)

/-- insert one event at key `k` into a table sorted by (integer) key -/
def itblAdd (k : Int) : List (Int × Nat) → List (Int × Nat)
  | [] => [(k, 1)]
  | (k', u') :: t =>
    if k < k' then (k, 1) :: (k', u') :: t
    else if k = k' then (k', u' + 1) :: t
    else (k', u') :: itblAdd k t

def itable (evs : List Int) : List (Int × Nat) := evs.foldl (fun t k => itblAdd k t) []

/-- `astmPeakCounting( data, refLevel, aggregate=False )`: interior reversals, peaks at or above the
reference and valleys below it -/
def peakGo (ref : Int) : List Int → List Int
  | p :: c :: n :: rest =>
    let tl := peakGo ref (c :: n :: rest)
    if (p < c ∧ c > n ∧ c ≥ ref) ∨ (p > c ∧ c < n ∧ c < ref) then c :: tl else tl
  | _ => []

def peakSeq (h : List Int) (ref : Int) : List Int := peakGo ref (pv true h)

end FF
