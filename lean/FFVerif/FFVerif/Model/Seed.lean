/-
The seeding contract of ffpack's randomised APIs as a state machine over numpy's global generator.
Core Lean only.  The generator is abstract: a seeded stream is identified by its seed, an
entropy-seeded one by a fresh identifier; `pos` counts the draws made since (re)seeding.
-/
namespace FF.Seed

inductive Gen
  | seeded (n : Nat) (pos : Nat)
  | entropy (id : Nat) (pos : Nat)
deriving DecidableEq, Repr

/-- what the implementation is allowed to do to the global generator -/
inductive Event
  | seed (n : Option Nat)      -- `np.random.seed( n )`, `none` = re-seed from OS entropy
  | draw                       -- one draw from the global generator
deriving DecidableEq, Repr

/-- the seed argument of an API call or constructor -/
inductive SeedArg
  | int (n : Nat) | none | other
deriving DecidableEq, Repr

inductive Op
  | setSeed (s : Option Nat)                 -- `globalConfig.setSeed( s )`
  | api (arg : SeedArg) (draws : Nat)        -- a randomised function making `draws` draws
  | construct (arg : SeedArg)                -- building a sampler / transformation object (no draws)
deriving DecidableEq, Repr

/-- the documented contract: an integer seed re-seeds the global generator; anything else leaves it
alone; `setSeed` seeds once -/
def Op.events : Op → List Event
  | .setSeed s => [.seed s]
  | .api (.int n) k => .seed (some n) :: List.replicate k .draw
  | .api _ k => List.replicate k .draw
  | .construct (.int n) => [.seed (some n)]
  | .construct _ => []

structure State where
  gen : Gen
  fresh : Nat        -- next entropy identifier
deriving DecidableEq, Repr

/-- a draw is identified by (stream, position) -/
abbrev Draw := Gen

def stepEvent (s : State) : Event → State × List Draw
  | .seed (some n) => ({ s with gen := .seeded n 0 }, [])
  | .seed none => ({ gen := .entropy s.fresh 0, fresh := s.fresh + 1 }, [])
  | .draw =>
    match s.gen with
    | .seeded n p => ({ s with gen := .seeded n (p + 1) }, [.seeded n p])
    | .entropy i p => ({ s with gen := .entropy i (p + 1) }, [.entropy i p])

def runEvents (s : State) : List Event → State × List Draw
  | [] => (s, [])
  | e :: es =>
    let r := stepEvent s e
    let r' := runEvents r.1 es
    (r'.1, r.2 ++ r'.2)

/-- one operation: new state and the draws it consumed (its output is a function of them) -/
def runOp (s : State) (op : Op) : State × List Draw := runEvents s op.events

def runOps (s : State) : List Op → State × List (List Draw)
  | [] => (s, [])
  | op :: ops =>
    let r := runOp s op
    let r' := runOps r.1 ops
    (r'.1, r.2 :: r'.2)

/-- protocol conformance of an observed event trace with the contract -/
def conforms (ops : List Op) (trace : List (List Event)) : Bool := trace == ops.map Op.events

end FF.Seed
