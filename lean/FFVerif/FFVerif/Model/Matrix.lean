/-
Executable model of the counting-matrix functions (lsm/cycleCountingMatrix.py, utils/countingMatrix.py):
digitise -> count with aggregate=False -> accumulate counts at [from][to].  Core Lean only.
-/
import FFVerif.Model.Signal
import FFVerif.Model.Level
namespace FF

/-- `np.unique` of all end points -/
def matrixKeys (cs : List Cyc) : List Int := sortLevels (cs.flatMap (fun c => [c.a, c.b]))

def indexOf (keys : List Int) (x : Int) : Nat := keys.findIdx (· == x)

/-- `rst[ i ][ j ] += u` -/
def matAdd (i j u : Nat) (M : List (List Nat)) : List (List Nat) :=
  M.modify i (fun row => row.modify j (· + u))

/-- `countingRstToCountingMatrix`: zero matrix over the keys, then one accumulation per cycle -/
def toMatrix (cs : List Cyc) : List (List Nat) × List Int :=
  let keys := matrixKeys cs
  let zero := keys.map (fun _ => keys.map (fun _ => 0))
  (cs.foldl (fun M c => matAdd (indexOf keys c.a) (indexOf keys c.b) c.units M) zero, keys)

end FF
