/-
Small dense linear algebra over the generic scalar, on `Nat → α` vectors and `Nat → Nat → α`
matrices with an explicit dimension `n` (entries beyond `n` are never read), as used by the executable
models of the Nataf transformation (rpm/nataf.py) and of the first-order reliability methods
(rrm/firstOrderReliabilityMethod.py, rrm/firstOrderSecondMoment.py).  Core Lean only.  Sums are left
folds over `List.range n` (compared with numpy at 1e-10 relative; the theorems are about the
real-number instance, where the order of summation is immaterial).
-/
import FFVerif.Model.Scalar
namespace FF.Linalg
section
variable {α : Type} [Transc α]

abbrev Vec (α : Type) := Nat → α
abbrev Mat (α : Type) := Nat → Nat → α

def zero : α := Transc.lit 0 0
def one : α := Transc.lit 1 0

/-- `Σ_{i<n} f i` -/
def fsum (n : Nat) (f : Nat → α) : α := (List.range n).foldl (fun acc i => acc + f i) zero

/-- the first `n` entries of a vector, evaluated -/
def mkArr (n : Nat) (f : Vec α) : Array α := Array.ofFn (n := n) (fun i => f i.val)

/-- read a stored vector back; beyond the stored entries, the original function.
`ofArr (mkArr n f) f = f` (`ofArr_mkArr`): storing is the identity as far as values are concerned.  The
models bind the array with its own `let` (`let a := mkArr n f; … ofArr a f …`): the compiler turns every
function-valued binding into a closure that is re-evaluated at each call, so the closures of an
iteration would otherwise be recomputed exponentially often. -/
def ofArr (a : Array α) (f : Vec α) : Vec α := fun i => if h : i < a.size then a[i] else f i

def mkArr2 (n : Nat) (f : Mat α) : Array (Array α) := Array.ofFn (n := n) (fun i => mkArr n (f i.val))

def ofArr2 (a : Array (Array α)) (f : Mat α) : Mat α :=
  fun i j => if h : i < a.size then (if h' : j < a[i].size then a[i][j] else f i j) else f i j

def dot (n : Nat) (a b : Vec α) : α := fsum n (fun i => a i * b i)

/-- `np.linalg.norm` of a vector -/
def norm (n : Nat) (a : Vec α) : α := Transc.sqrt (dot n a a)

def vsub (a b : Vec α) : Vec α := fun i => a i - b i

/-- `np.dot( M, v )` -/
def mulVec (n : Nat) (M : Mat α) (v : Vec α) : Vec α := fun i => dot n (M i) v

/-- `np.dot( M.T, v )` -/
def tmulVec (n : Nat) (M : Mat α) (v : Vec α) : Vec α := fun j => fsum n (fun i => M i j * v i)

/-- `np.dot( A, B )` -/
def mmul (n : Nat) (A B : Mat α) : Mat α := fun i j => fsum n (fun k => A i k * B k j)

end
end FF.Linalg
