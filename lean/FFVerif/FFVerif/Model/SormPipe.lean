/-
Executable model of `mainCurvaturesAtDesignPoint` (rrm/secondOrderReliabilityMethod.py:38-100) from the design point on, up
to the matrix whose eigenvalues are the main curvatures, for the marginal families of `Model/Nataf.lean`.  Generic in the scalar;
core Lean only.  Inputs, as in the code: the design point `x` (= `xCoord`), the gradient `a` and the Hessian `Hx` of the limit
state there.

  lsfGradAtU = JInvᵀ a,  JInv = diag( φ/f ) L           alignVec = -lsfGradAtU / |lsfGradAtU|
  kMax = argmax |alignVec|;  A = identity with column kMax first;  B = gramSchmidOrth( A, alignVec );  H = rows B_1 … B_{n-1}, B_0
  lsfHmAtU = JInvᵀ Hx JInv + Lᵀ diag( a ⊙ x'' ) L        ( x'' = d²x/dz²: 0 for a normal, s² x for a lognormal marginal )
  HBH = H ( lsfHmAtU / |lsfGradAtU| ) Hᵀ;   main curvatures = eigenvalues of its leading (n-1) × (n-1) block
-/
import FFVerif.Model.Form
import FFVerif.Model.Gram
namespace FF.SormPipe
open FF.Linalg FF.Nataf
section
variable {α : Type} [Transc α]

/-- `d²x/dz²` of the marginal map at `x` -/
def Marg.d2xdz2 : Marg α → α → α
  | .normal _ _, _ => zero
  | .lognormal _ s, x => s * s * x
  | .general _ _ _ d2, x => d2 x

/-- absolute value through the order test of the scalar class -/
def absv (v : α) : α := if Transc.ltb v zero then -v else v

/-- `int( np.argmax( np.abs( v ) ) )`: the first index of maximal modulus -/
def argmaxAbs (n : Nat) (v : Vec α) : Nat :=
  (List.range n).foldl (fun best i => if Transc.ltb (absv (v best)) (absv (v i)) then i else best) 0

/-- `JInv = diag( φ/f ) L`, the Jacobian `∂X/∂U` at the design point -/
def jInv (T : Model α) (x : Vec α) : Mat α := fun i j => (T.marg i).dxdz (x i) * T.L i j

/-- `lsfHmAtU` -/
def hessU (T : Model α) (x a : Vec α) (Hx : Mat α) : Mat α :=
  let n := T.dim
  let J := jInv T x
  fun i j => fsum n (fun k => fsum n (fun l => J k i * Hx k l * J l j))
    + fsum n (fun k => T.L k i * (a k * Marg.d2xdz2 (T.marg k) (x k)) * T.L k j)

structure Result (α : Type) where
  /-- `|lsfGradAtU|` -/
  gradNorm : α
  /-- the rows of `H` -/
  rows : List (Vec α)
  /-- the leading block of `HBH`, row by row -/
  block : List (List α)

def curvatureBlock (T : Model α) (x a : Vec α) (Hx : Mat α) : Result α :=
  let n := T.dim
  let gf := Form.gradU T x a
  let ga := mkArr n gf
  let gu := ofArr ga gf
  let nrm := norm n gu
  let alf : Vec α := fun i => -(one) * gu i / nrm
  let ala := mkArr n alf
  let al := ofArr ala alf
  let kMax := argmaxAbs n al
  let unit : Nat → Vec α := fun c => fun i => if i = c then one else zero
  let cols := unit kMax :: ((List.range n).filter (· ≠ kMax)).map unit
  let B := Gram.orth n cols (some al)
  let rows := B.tail ++ B.take 1
  let huf := hessU T x a Hx
  let hua := mkArr2 n huf
  let hu := ofArr2 hua huf
  let blk := (rows.take (n - 1)).map (fun ri =>
    (rows.take (n - 1)).map (fun rj => fsum n (fun k => fsum n (fun l => ri k * (hu k l / nrm) * rj l))))
  { gradNorm := nrm, rows := rows, block := blk }

end
end FF.SormPipe
