/-
Executable model of the first-order methods for problems whose Nataf map is modelled in
`Model/Nataf.lean`: `mvalFOSM` (rrm/firstOrderSecondMoment.py:59-72) and the HL-RF loop of
`hlrfFORM` (rrm/firstOrderReliabilityMethod.py:103-134), statement by statement.  Generic in the
scalar; core Lean only.  The limit state `g` and its gradient `dg` are parameters, as in the code.
-/
import FFVerif.Model.Nataf
namespace FF.Form
open FF.Linalg FF.Nataf
section
variable {α : Type} [Transc α]

/-- `beta = g( mus ) / sqrt( sum( square( a * sigmas ) ) )`, `a = [ dg_i( mus ) ]` -/
def fosm (n : Nat) (g : Vec α → α) (dg : Vec α → Vec α) (mus sigmas : Vec α) : α :=
  let a := dg mus
  g mus / Transc.sqrt (fsum n (fun i => (a i * sigmas i) * (a i * sigmas i)))

/-- `gPrime = solve( J.T, a )` with `J = L⁻¹ diag( f/φ )` the matrix returned by `getX`:
`gPrime = Lᵀ diag( φ/f ) a` -/
def gradU (T : Model α) (x a : Vec α) : Vec α :=
  tmulVec T.dim T.L (fun i => (T.marg i).dxdz (x i) * a i)

structure Iterate (α : Type) where
  u : Vec α
  beta : α

/-- the body of the loop: from `Us[ idx - 1 ]` to `( Us[ idx ], betas[ idx ] )` -/
def step (T : Model α) (g : Vec α → α) (dg : Vec α → Vec α) (u : Vec α) : Iterate α :=
  let xa := mkArr T.dim (getX T u)
  let x := ofArr xa (getX T u)
  let ga := mkArr T.dim (gradU T x (dg x))
  let gp := ofArr ga (gradU T x (dg x))
  let nrm := norm T.dim gp
  let beta := (g x - dot T.dim u gp) / nrm
  let uf : Vec α := fun i => -beta * (gp i / nrm)
  let ua := mkArr T.dim uf
  { u := ofArr ua uf, beta := beta }

inductive Outcome (α : Type) where
  /-- the loop left through `break` after `steps` iterations -/
  | converged (steps : Nat) (it : Iterate α)
  /-- `iter` iterations without meeting the tolerance -/
  | exhausted (it : Iterate α)

/-- `for idx in range( 1, iter + 1 ): … if norm( Us[ idx ] - Us[ idx - 1 ] ) < tol: break`;
`fuel` = iterations still allowed (≥ 1), `done` = iterations already made -/
def loop (T : Model α) (g : Vec α → α) (dg : Vec α → Vec α) (tol : α) : Nat → Nat → Vec α → Outcome α
  | 0, _, u => .exhausted { u := u, beta := zero }            -- not reachable: `iter ≥ 1`
  | fuel + 1, done, u =>
    let it := step T g dg u
    if Transc.ltb (norm T.dim (vsub it.u u)) tol then .converged (done + 1) it
    else if fuel = 0 then .exhausted it
    else loop T g dg tol fuel (done + 1) it.u

/-- what `hlrfFORM` returns (`beta`, `uCoord`, `xCoord`) or `none` where it raises "does not converge";
start vector `np.ones`; with `iter = 1` no convergence is expected -/
def hlrf (T : Model α) (g : Vec α → α) (dg : Vec α → Vec α) (tol : α) (iter : Nat) :
    Option (α × Vec α × Vec α) :=
  match loop T g dg tol iter 0 (fun _ => one) with
  | .converged _ it => some (it.beta, it.u, getX T it.u)
  | .exhausted it => if iter = 1 then some (it.beta, it.u, getX T it.u) else none

/-- the iterates `Us[ 1 ], Us[ 2 ], …` with their betas, for the trace comparison with the code -/
def trace (T : Model α) (g : Vec α → α) (dg : Vec α → Vec α) (tol : α) : Nat → Vec α → List (Iterate α)
  | 0, _ => []
  | fuel + 1, u =>
    let it := step T g dg u
    if Transc.ltb (norm T.dim (vsub it.u u)) tol then [it]
    else it :: trace T g dg tol fuel it.u

end
end FF.Form
