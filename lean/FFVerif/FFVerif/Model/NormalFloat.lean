/-
Double-precision standard normal cdf, pdf and quantile for the DRIVER only (core `Float` has no erf): used to build the composed
maps of `Nataf.Marg.general` for the families exponential, uniform, Gumbel and Weibull when the executable models are evaluated
against the implementation.  Never used in a theorem (at the reals the composed maps are constrained by `Marg.Valid`).
Accuracy ≈ 1e-15 relative for |z| ≤ 8.5 (checked against scipy by the harness, command `normalfloat`).
-/
namespace FF.NormalFloat

/-- `erf x` for `0 ≤ x < 1`: `2/√π · e^{-x²} Σ 2ⁿ x^{2n+1} / (2n+1)!!` (all terms positive) -/
def erfSmall (x : Float) : Float :=
  let step : Float × Float × Nat → Float × Float × Nat := fun (term, sum, n) =>
    let t := term * 2.0 * x * x / (2.0 * n.toFloat + 3.0)
    (t, sum + t, n + 1)
  let r := (List.range 80).foldl (fun st _ => step st) (x, x, 0)
  2.0 / Float.sqrt 3.141592653589793 * Float.exp (-(x * x)) * r.2.1

/-- `erfc x` for `x ≥ 1` by the continued fraction `e^{-x²}/√π · 1/(x + (1/2)/(x + (2/2)/(x + (3/2)/(x + …))))` -/
def erfcLarge (x : Float) : Float :=
  let t := (List.range 400).foldl (fun t k => x + ((400 - k).toFloat / 2.0) / t) x
  Float.exp (-(x * x)) / Float.sqrt 3.141592653589793 / t

def erfc (x : Float) : Float :=
  if x < 0 then (if -x < 1 then 1.0 + erfSmall (-x) else 2.0 - erfcLarge (-x))
  else if x < 1 then 1.0 - erfSmall x else erfcLarge x

def Phi (z : Float) : Float := 0.5 * erfc (-z / Float.sqrt 2.0)

def phi (z : Float) : Float := Float.exp (-(z * z) / 2.0) / Float.sqrt (2.0 * 3.141592653589793)

/-- quantile: Abramowitz–Stegun 26.2.23 as a start, then Newton steps on `Phi` (in the lower half, by symmetry) -/
def PhiInv (p : Float) : Float :=
  if p ≤ 0 then -1.0 / 0.0 else if p ≥ 1 then 1.0 / 0.0 else
  let q := if p < 0.5 then p else 1.0 - p
  let t := Float.sqrt (-2.0 * Float.log q)
  let z0 := -(t - (2.515517 + 0.802853 * t + 0.010328 * t * t) / (1.0 + 1.432788 * t + 0.189269 * t * t + 0.001308 * t * t * t))
  let z := (List.range 6).foldl (fun z _ => z - (Phi z - q) / phi z) z0
  if p < 0.5 then z else -z

/-- `-ln( 1 - p )` without cancellation for small `p` -/
def negLog1m (p : Float) : Float :=
  if p < 1e-4 then p + p * p / 2.0 + p * p * p / 3.0 + p * p * p * p / 4.0 + p * p * p * p * p / 5.0 else -(Float.log (1.0 - p))

/-- `1 - e^{-t}` without cancellation for small `t` -/
def oneMinusExpNeg (t : Float) : Float :=
  if t < 1e-4 then t - t * t / 2.0 + t * t * t / 6.0 - t * t * t * t / 24.0 else 1.0 - Float.exp (-t)

/-- `-ln( 1 - Φ( z ) )`, accurate in both tails -/
def survNegLog (z : Float) : Float := if z > 0 then -(Float.log (Phi (-z))) else negLog1m (Phi z)

/-- `-ln Φ( z )`, accurate in both tails -/
def cdfNegLog (z : Float) : Float := survNegLog (-z)

/-- `Φ⁻¹( 1 - e^{-t} )`, `t ≥ 0`, accurate in both tails -/
def quantOfOneMinusExpNeg (t : Float) : Float :=
  let e := Float.exp (-t)
  if e < 0.5 then -(PhiInv e) else PhiInv (oneMinusExpNeg t)

/-- `Φ⁻¹( e^{-t} )`, `t ≥ 0` -/
def quantOfExpNeg (t : Float) : Float := -(quantOfOneMinusExpNeg t)

end FF.NormalFloat
