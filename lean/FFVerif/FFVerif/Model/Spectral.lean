/-
Executable model of the spectral-representation synthesiser (lsg/sequenceFromSpectrum.py:98-119),
generic in the scalar type; the random phases `-π + 2π·randn` enter as a parameter.  Core Lean only.
-/
import FFVerif.Model.Scalar
namespace FF.Spectral
section
variable {α : Type} [Transc α]

def zero : α := Transc.lit 0 0
def two : α := Transc.lit 2 0

/-- every `next`-th component, starting with the first: `(freq_i, psd_i, phase_i)` -/
def pick {β : Type} (next : Nat) : List β → Nat → List β
  | [], _ => []
  | x :: xs, 0 => x :: pick next xs (next - 1)
  | _ :: xs, k + 1 => pick next xs k

/-- `amps[ j ]`: the sum over the used components of `sqrt( 2 psd bw ) * sin( 2 π f t_j + phase )` -/
def ampAt (comps : List (α × α × α)) (bw t : α) : α :=
  comps.foldl (fun acc c => acc + Transc.sqrt (two * c.2.1 * bw) * Transc.sin (two * Transc.pi * c.1 * t + c.2.2)) zero

/-- the series at the times `j / fs`, `j < n`; `js` are the sample indices as scalars -/
def synth (fs bw : α) (next : Nat) (comps : List (α × α × α)) (js : List α) : List α :=
  js.map (fun j => ampAt (pick next comps 0) bw (Transc.lit 1 0 / fs * j))

/-! ### the statements of `spectralRepresentation` before the double loop (lsg/sequenceFromSpectrum.py:98-113)

`round` (Python: half to even, to an integer) is a parameter: the driver supplies `pyRound` on binary64, the theorems hold for any
function. -/

/-- "deal with freqBandwidth": `None`, or a request below the grid spacing, becomes the grid spacing -/
def bandwidth (req : Option α) (df : α) : α :=
  match req with
  | none => df
  | some b => if Transc.ltb b df then df else b

/-- `next = round( freqBandwidth / ( freq[ 1 ] - freq[ 0 ] ) )` -/
def stride (rnd : α → Nat) (bw df : α) : Nat := rnd (bw / df)

/-- `phis = -np.pi + 2 * np.pi * np.random.randn( len( freq ) )` -/
def phase (r : α) : α := -Transc.pi + two * Transc.pi * r

def zip3 : List α → List α → List α → List (α × α × α)
  | f :: fs, p :: ps, r :: rs => (f, p, phase r) :: zip3 fs ps rs
  | _, _, _ => []

/-- the whole function after validation: `n = round( fs * time )` samples at `1 / fs * j`, the spacing from the first two
frequencies, bandwidth, stride, phases from the normal draws, then the double loop (`synth`) -/
def synthFull (rnd : α → Nat) (fs time : α) (req : Option α) (freq psd randn : List α) : List α :=
  match freq with
  | f0 :: f1 :: _ =>
    let df := f1 - f0
    let bw := bandwidth req df
    synth fs bw (stride rnd bw df) (zip3 freq psd randn) ((List.range (rnd (fs * time))).map (fun j => Transc.lit j 0))
  | _ => []

end

/-- Python's `round( x )` for a non-negative binary64 `x`: nearest integer, ties to even -/
def pyRound (x : Float) : Nat :=
  let f := x.floor
  let d := x - f
  let fi := f.toUInt64.toNat
  if d < 0.5 then fi else if d > 0.5 then fi + 1 else (if fi % 2 == 0 then fi else fi + 1)

end FF.Spectral
