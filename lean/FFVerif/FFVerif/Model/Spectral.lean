/-
Executable model of the spectral-representation synthesiser (lsg/sequenceFromSpectrum.py:98-119),
generic in the scalar type; the random phases `-π + 2π·randn` enter as a parameter.  Core Lean only.
-/
import FFVerif.Model.Scalar
namespace FF.Spectral
section
variable {α : Type} [Transc α]

def zero : α := Transc.lit 0 0
def two : α := Transc.lit 2 0

/-- every `next`-th component, starting with the first: `(freq_i, psd_i, phase_i)` -/
def pick {β : Type} (next : Nat) : List β → Nat → List β
  | [], _ => []
  | x :: xs, 0 => x :: pick next xs (next - 1)
  | _ :: xs, k + 1 => pick next xs k

/-- `amps[ j ]`: the sum over the used components of `sqrt( 2 psd bw ) * sin( 2 π f t_j + phase )` -/
def ampAt (comps : List (α × α × α)) (bw t : α) : α :=
  comps.foldl (fun acc c => acc + Transc.sqrt (two * c.2.1 * bw) * Transc.sin (two * Transc.pi * c.1 * t + c.2.2)) zero

/-- the series at the times `j / fs`, `j < n`; `js` are the sample indices as scalars -/
def synth (fs bw : α) (next : Nat) (comps : List (α × α × α)) (js : List α) : List α :=
  js.map (fun j => ampAt (pick next comps 0) bw (Transc.lit 1 0 / fs * j))

end
end FF.Spectral
