/-
Line protocol helpers for the model driver (Main.lean).  Core Lean only.
A list argument is a comma-separated sequence of integers, `-` for the empty list.
Cycles are `a:b:u` triples (u = count in half-units), tables are `k:u` pairs.
-/
import FFVerif.Model.Cycle
namespace FF.Proto
open FF

def parseInt? (s : String) : Option Int := s.toInt?

def splitOn (s : String) (sep : String) : List String := s.splitOn sep

def parseList (s : String) : Option (List Int) :=
  if s == "-" then some [] else (splitOn s ",").mapM parseInt?

def parseNatList (s : String) : Option (List Nat) :=
  if s == "-" then some [] else (splitOn s ",").mapM String.toNat?

def parseCyc (s : String) : Option Cyc :=
  match splitOn s ":" with
  | [a, b, u] => do
    let a ← parseInt? a
    let b ← parseInt? b
    match u with
    | "1" => some ⟨a, b, true⟩
    | "2" => some ⟨a, b, false⟩
    | _ => none
  | _ => none

def parseCycs (s : String) : Option (List Cyc) :=
  if s == "-" then some [] else (splitOn s ",").mapM parseCyc

def parseTriple (s : String) : Option (Int × Int × Nat) :=
  match splitOn s ":" with
  | [a, b, u] => do
    let a ← parseInt? a
    let b ← parseInt? b
    let u ← u.toNat?
    some (a, b, u)
  | _ => none

def parseTriples (s : String) : Option (List (Int × Int × Nat)) :=
  if s == "-" then some [] else (splitOn s ",").mapM parseTriple

def parsePair (s : String) : Option (Nat × Nat) :=
  match splitOn s ":" with
  | [a, b] => do
    let a ← a.toNat?
    let b ← b.toNat?
    some (a, b)
  | _ => none

def parseTable (s : String) : Option (List (Nat × Nat)) :=
  if s == "-" then some [] else (splitOn s ",").mapM parsePair

def parseIntPair (s : String) : Option (Int × Nat) :=
  match splitOn s ":" with
  | [a, b] => do
    let a ← a.toInt?
    let b ← b.toNat?
    some (a, b)
  | _ => none

def parseIntTable (s : String) : Option (List (Int × Nat)) :=
  if s == "-" then some [] else (splitOn s ",").mapM parseIntPair

def showList (l : List Int) : String :=
  if l.isEmpty then "-" else ",".intercalate (l.map toString)

def showNatList (l : List Nat) : String :=
  if l.isEmpty then "-" else ",".intercalate (l.map toString)

def showCyc (c : Cyc) : String := s!"{c.a}:{c.b}:{c.units}"

def showCycs (l : List Cyc) : String :=
  if l.isEmpty then "-" else ",".intercalate (l.map showCyc)

def showTable (l : List (Nat × Nat)) : String :=
  if l.isEmpty then "-" else ",".intercalate (l.map fun p => s!"{p.1}:{p.2}")

def showIntTable (l : List (Int × Nat)) : String :=
  if l.isEmpty then "-" else ",".intercalate (l.map fun p => s!"{p.1}:{p.2}")

def parseMatrix (s : String) : Option (List (List Nat)) :=
  if s == "-" then some [] else (splitOn s ";").mapM parseNatList

def showMatrix (m : List (List Nat)) : String :=
  if m.isEmpty then "-" else ";".intercalate (m.map showNatList)

end FF.Proto
