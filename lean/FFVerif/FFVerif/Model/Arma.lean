/-
Executable models of the ARMA-family generators (lsg/autoregressiveMovingAverage.py) and the uniform
random walk (lsg/randomWalk.py), over the integers with the noise / randint stream as a parameter.
Core Lean only.
-/
namespace FF.Arma

def at' (l : List Int) (i : Nat) : Int := l.getD i 0

/-- build `rst[0..N)` one entry at a time; `value i rst` may read the entries already written -/
def build (N : Nat) (value : Nat → List Int → Int) : List Int :=
  (List.range N).foldl (fun rst i => rst ++ [value i rst]) []

/-- `Σ_{j < coef.length, guard i j} coef[j] * term j` -/
def lagSum (coef : List Int) (guard : Nat → Bool) (term : Nat → Int) : Int :=
  ((List.range coef.length).filter guard).foldl (fun acc j => acc + at' coef j * term j) 0

/-- `arNormal`: lines 61-70 -/
def arValue (obs phis eps : List Int) (i : Nat) (rst : List Int) : Int :=
  if i < obs.length then at' obs i
  else at' eps i + lagSum phis (fun _ => true) (fun j => at' rst (i - j - 1))

def ar (N : Nat) (obs phis eps : List Int) : List Int := build N (arValue obs phis eps)

/-- `maNormal`: lines 127-136 -/
def maValue (c : Int) (thetas eps : List Int) (i : Nat) (_rst : List Int) : Int :=
  c + (at' eps i + lagSum thetas (fun j => decide (i > j)) (fun j => at' eps (i - j - 1)))

def ma (N : Nat) (c : Int) (thetas eps : List Int) : List Int := build N (maValue c thetas eps)

/-- `armaNormal`: lines 200-218 -/
def armaValue (obs phis thetas eps : List Int) (i : Nat) (rst : List Int) : Int :=
  if i < obs.length then at' obs i
  else at' eps i + lagSum phis (fun j => decide (i > j)) (fun j => at' rst (i - j - 1))
    + lagSum thetas (fun j => decide (i > j)) (fun j => at' eps (i - j - 1))

def arma (N : Nat) (obs phis thetas eps : List Int) : List Int := build N (armaValue obs phis thetas eps)

/-- `arimaNormal`: lines 285-300 -/
def arimaValue (c : Int) (phis thetas eps : List Int) (i : Nat) (rst : List Int) : Int :=
  c + at' eps i + lagSum phis (fun j => decide (i > j + 1)) (fun j => at' rst (i - j - 1) - at' rst (i - j - 2))
    + lagSum thetas (fun j => decide (i > j)) (fun j => at' eps (i - j - 1))

def arima (N : Nat) (c : Int) (phis thetas eps : List Int) : List Int := build N (arimaValue c phis thetas eps)

/-! ### uniform random walk (randomWalk.py:48-56) -/

/-- one step: `randomInt % dim` is the axis, the direction is +1 iff `randomInt >= dim` -/
def walkStep (dim : Nat) (pos : List Int) (r : Nat) : List Int :=
  pos.modify (r % dim) (· + (if r ≥ dim then 1 else -1))

def walk (dim : Nat) (rs : List Nat) : List (List Int) :=
  rs.foldl (fun path r => path ++ [walkStep dim (path.getLastD (List.replicate dim 0)) r]) [List.replicate dim 0]

end FF.Arma
