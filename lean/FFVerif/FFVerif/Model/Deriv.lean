/-
Executable model of `utils.derivative` for the hard-coded stencils (utils/derivatives.py:118-151): the weights are the
integer numerators of a table of `Gen/DiffTables.lean` (regenerated from the source) over its denominator,

    val = Σ_k weights[ k ] * func( x0 + ( k - ho ) * dx ),   ho = order >> 1,       return val / dx ^ n

Generic in the scalar; core Lean only.
-/
import FFVerif.Model.Scalar
import FFVerif.Props.C20
namespace FF.Deriv
section
variable {α : Type} [Transc α]

def zero : α := Transc.lit 0 0

/-- an integer as a scalar -/
def ofInt (z : Int) : α := if 0 ≤ z then Transc.lit z.toNat 0 else -(Transc.lit (-z).toNat 0)

/-- the stencil sum and the division by `dx ^ n`; `t = ( n, m, numerators, denominator )` -/
def derivative (t : Nat × Nat × List Int × Int) (f : α → α) (x0 dx : α) : α :=
  let val := ((List.range t.2.2.1.length).zip t.2.2.1).foldl
    (fun acc p => acc + (ofInt p.2 / ofInt t.2.2.2) * f (x0 + ofInt (C20.node t.2.1 p.1) * dx)) zero
  val / Transc.npow dx t.1

/-- `gradient( func, nvar, n, dx, order )[ i ]( points )`: the stencil applied to `s ↦ func( points with coordinate i := s )` at
`s = points[ i ]` (utils/derivatives.py:218-233) -/
def partialD (t : Nat × Nat × List Int × Int) (f : (Nat → α) → α) (i : Nat) (x : Nat → α) (dx : α) : α :=
  derivative t (fun s => f (fun k => if k = i then s else x k)) (x i) dx

/-- `hessianMatrix( func, nvar, dx, order )[ i ][ j ]( points )`: the gradient of the `i`-th gradient component (derivatives.py:291-295) -/
def hessD (t : Nat × Nat × List Int × Int) (f : (Nat → α) → α) (i j : Nat) (x : Nat → α) (dx : α) : α :=
  partialD t (fun y => partialD t f i y dx) j x dx

end
end FF.Deriv
