/-
Executable models of the cycle counters of ffpack (src/ffpack/lcc/*.py) and of the
peak-valley filter (src/ffpack/utils/sequenceFilter.py).  Core Lean only.

Loads are integers (the dyadic grid of DESIGN §3): every operation the Python code performs on
such data is exact, so these models and the implementation must agree exactly.
Counts are carried as half-units: `half = true` is a count of 0.5, `half = false` a count of 1.
-/
namespace FF

/-- range between two load values, `abs( a - b )` in the code -/
def rng (a b : Int) : Nat := (a - b).natAbs

structure Cyc where
  a : Int
  b : Int
  half : Bool
deriving Repr, DecidableEq

/-- count of a cycle in half-units -/
def Cyc.units (c : Cyc) : Nat := if c.half then 1 else 2
/-- the range of a cycle -/
def Cyc.range (c : Cyc) : Nat := rng c.a c.b

/-! ### sequencePeakValleyFilter (sequenceFilter.py:40-60) -/

/-- the loop body for indices `1 ..`: `prev` is the last *kept* value (initially `data[0]`) -/
def pvGo (keepEnds : Bool) (prev : Int) : List Int → List Int
  | [] => []
  | [last] => if keepEnds then [last] else []
  | cur :: next :: rest =>
    if (prev < cur ∧ cur > next) ∨ (prev > cur ∧ cur < next) then
      cur :: pvGo keepEnds cur (next :: rest)
    else pvGo keepEnds prev (next :: rest)

/-- `sequencePeakValleyFilter( data, keepEnds )` -/
def pv (keepEnds : Bool) : List Int → List Int
  | [] => []
  | x :: rest => (if keepEnds then [x] else []) ++ pvGo keepEnds x rest

/-! ### aggregation into the sorted `[range, count]` table -/

/-- insert `u` half-units at key `k` into a table sorted by key -/
def tblAdd (k u : Nat) : List (Nat × Nat) → List (Nat × Nat)
  | [] => [(k, u)]
  | (k', u') :: t =>
    if k < k' then (k, u) :: (k', u') :: t
    else if k = k' then (k', u' + u) :: t
    else (k', u') :: tblAdd k u t

/-- the aggregated table of a cycle list: sorted distinct ranges with summed half-units -/
def table (cs : List Cyc) : List (Nat × Nat) :=
  cs.foldl (fun t c => tblAdd c.range c.units t) []

/-! ### simple range counting (astmCounting.py:188-201) -/

def halves : List Int → List Cyc
  | a :: b :: rest => ⟨a, b, true⟩ :: halves (b :: rest)
  | _ => []

def simpleRange (h : List Int) : List Cyc := halves (pv true h)

/-! ### ASTM rainflow, the implementation's deque loop (astmCounting.py:243-289) -/

/-- `A` = dequeA, `B` = dequeB, `flag` = YContainsS (`S is None` ⇔ `A = []` at loop head) -/
def implGo (A B : List Int) (flag : Bool) (out : List Cyc) : List Cyc :=
  match B with
  | a :: b :: c :: rest =>
    if rng b c ≥ rng a b then
      if flag then implGo [] (b :: c :: rest) true (out ++ [⟨a, b, true⟩])
      else implGo [] (A ++ c :: rest) true (out ++ [⟨a, b, false⟩])
    else implGo (A ++ [a]) (b :: c :: rest) false out
  | _ => out ++ halves (A ++ B)
termination_by (A.length + B.length, B.length)
decreasing_by
  all_goals simp_wf
  all_goals simp only [Prod.lex_def]
  all_goals simp
  all_goals omega

def rainflow (h : List Int) : List Cyc := implGo [] (pv true h) true []

/-! ### ASTM E1049-85 §5.4.4 as a stack machine — the *specification* of C01 -/

/-- stack newest first; apply steps 3–5 until `X < Y` or fewer than three points -/
def reduce : List Int → List Cyc → List Int × List Cyc
  | [c, b, a], out =>
    if rng b c < rng a b then ([c, b, a], out)
    else reduce [c, b] (out ++ [⟨a, b, true⟩])               -- Y contains S: half cycle, S moves on
  | c :: b :: a :: r :: rest, out =>
    if rng b c < rng a b then (c :: b :: a :: r :: rest, out)
    else reduce (c :: r :: rest) (out ++ [⟨a, b, false⟩])     -- one cycle, discard both points of Y
  | st, out => (st, out)
termination_by st _ => st.length

def astmGo : List Int → List Int → List Cyc → List Cyc
  | st, [], out => out ++ halves st.reverse                    -- step 6: remaining ranges, half each
  | st, p :: ps, out =>
    let r := reduce (p :: st) out
    astmGo r.1 ps r.2

/-- the three-point procedure on a reversal sequence -/
def astm (R : List Int) : List Cyc := astmGo [] R []

/-! ### range-pair counting (astmCounting.py:344-379) -/

/-- forward pass: stack newest first; count `Y` whenever `Y ≤ X`, all whole cycles -/
def rpReduce : List Int → List Cyc → List Int × List Cyc
  | c :: b :: a :: rest, out =>
    if rng a b ≤ rng b c then rpReduce (c :: rest) (out ++ [⟨a, b, false⟩])
    else (c :: b :: a :: rest, out)
  | st, out => (st, out)
termination_by st _ => st.length

def rpForward : List Int → List Int → List Cyc → List Int × List Cyc
  | st, [], out => (st, out)
  | st, p :: ps, out =>
    let r := rpReduce (p :: st) out
    rpForward r.1 ps r.2

/-- backward pass over the residue (newest first): count `(second, i)` when `right ≤ left`
and continue from `first`, else step to `second` -/
def rpBack : List Int → List Cyc → List Int × List Cyc
  | c :: b :: a :: rest, out =>
    if rng b c ≤ rng a b then
      let r := rpBack (a :: rest) (out ++ [⟨b, c, false⟩])
      r
    else
      let r := rpBack (b :: a :: rest) out
      (c :: r.1, r.2)
  | st, out => (st, out)

def rangePairFull (h : List Int) : List Int × List Cyc :=
  let f := rpForward [] (pv true h) []
  rpBack f.1 f.2

def rangePair (h : List Int) : List Cyc := (rangePairFull h).2

/-! ### rainflow for repeating histories (astmCounting.py:436-473) -/

/-- index of the first maximum (`ndarray.argmax`) -/
def argmaxGo : List Int → Nat → Int → Nat → Nat
  | [], _, _, best => best
  | x :: xs, i, m, best => if x > m then argmaxGo xs (i + 1) x i else argmaxGo xs (i + 1) m best

def argmax : List Int → Nat
  | [] => 0
  | x :: xs => argmaxGo xs 1 x 0

/-- lines 438-445: shift the prefix one to the left, roll by `-index`, filter again -/
def rotateToMax (R : List Int) : List Int :=
  let k := argmax R
  pv true (R.drop k ++ (R.take (k + 1)).drop 1)

def rainflowRepeat (h : List Int) : List Cyc :=
  (rpForward [] (rotateToMax (pv true h)) []).2

/-! ### four-point counting (fourPointCounting.py:52-89) -/

/-- `oneRound`: the first quadruple from the left with `X ≥ Y ∧ Z ≥ Y`; delete its middle two -/
def fpRound : List Int → Option (Cyc × List Int)
  | a :: b :: c :: d :: rest =>
    if rng c d ≥ rng b c ∧ rng a b ≥ rng b c then some (⟨b, c, false⟩, a :: d :: rest)
    else match fpRound (b :: c :: d :: rest) with
      | some (cy, l) => some (cy, a :: l)
      | none => none
  | _ => none

theorem fpRound_length : ∀ (l : List Int) (cy : Cyc) (l' : List Int),
    fpRound l = some (cy, l') → l'.length + 2 = l.length
  | a :: b :: c :: d :: rest, cy, l', h => by
    unfold fpRound at h
    split at h
    · cases h; simp
    · split at h
      · rename_i cy2 l2 heq
        cases h
        have := fpRound_length _ _ _ heq
        simp at this ⊢; omega
      · cases h
  | [], _, _, h => by simp [fpRound] at h
  | [_], _, _, h => by simp [fpRound] at h
  | [_, _], _, _, h => by simp [fpRound] at h
  | [_, _, _], _, _, h => by simp [fpRound] at h

/-- repeat `oneRound` until nothing is found; returns (residue, cycles) -/
def fpGo (l : List Int) (out : List Cyc) : List Int × List Cyc :=
  match h : fpRound l with
  | some (cy, l') => fpGo l' (out ++ [cy])
  | none => (l, out)
termination_by l.length
decreasing_by have := fpRound_length l _ _ h; omega

def fourPointFull (h : List Int) : List Int × List Cyc := fpGo (pv true h) []
def fourPoint (h : List Int) : List Cyc := (fourPointFull h).2

/-! ### Rychlik and Johannesson (rychlikCounting.py:57-88, johannessonCounting.py:55-75) -/

/-- `getMinLeft` / `getMinRight`: `side` is the part of the record on one side of the peak,
nearest neighbour first.  One neighbour only: `min( neighbour, peak )`.  Otherwise start from the
neighbour and continue while the values stay strictly below the peak. -/
def scanMin (peak : Int) : List Int → Int
  | [] => peak
  | [x] => min x peak
  | x :: rest => (rest.takeWhile (· < peak)).foldl min x

/-- `getMinRight` of the Rychlik counter continues through later points *equal* to the peak
(equal-height peaks: the earlier one closes against the deeper valley) -/
def scanMinLe (peak : Int) : List Int → Int
  | [] => peak
  | [x] => min x peak
  | x :: rest => (rest.takeWhile (· ≤ peak)).foldl min x

/-- visit every interior point `cur` with `left` (reversed, nearest first) and `right` -/
def peaksGo (f : List Int → Int → List Int → Option Cyc) : List Int → List Int → List Cyc
  | left, cur :: next :: rest =>
    match left with
    | [] => peaksGo f [cur] (next :: rest)
    | p :: _ =>
      if cur > p ∧ cur > next then
        match f left cur (next :: rest) with
        | some c => c :: peaksGo f (cur :: left) (next :: rest)
        | none => peaksGo f (cur :: left) (next :: rest)
      else peaksGo f (cur :: left) (next :: rest)
  | _, _ => []

def rychlik (h : List Int) : List Cyc :=
  peaksGo (fun l m r => some ⟨max (scanMin m l) (scanMinLe m r), m, false⟩) [] (pv true h)

def johannesson (h : List Int) : List Cyc :=
  peaksGo (fun l m _ => some ⟨scanMin m l, m, false⟩) [] (pv true h)

end FF
