/-
Executable model of `rpm.NatafTransformation` (rpm/nataf.py:176-288) for the marginal families whose
composition `Φ⁻¹ ∘ F` is elementary: normal(μ, σ) and lognormal (`stats.lognorm( s, scale=exp( m ) )`).
Generic in the scalar; core Lean only.

  getU( X ):  Z_d = Φ⁻¹( F_d( X_d ) ),  U = L⁻¹ Z,            returned J = diag( φ(Z_d) / f_d(X_d) ) · L
  getX( U ):  Z = L U,  X_d = F_d⁻¹( Φ( Z_d ) ),              returned J = L⁻¹ · diag( f_d(X_d) / φ(Z_d) )

For the two families `φ(z)/f(x) = dx/dz` is `σ` resp. `s·x` (closed form).  The Cholesky factor `L` and its
inverse are fields of the model (`Model/Chol.lean` computes them; `np.linalg.solve( L, · )` is
multiplication by `L⁻¹`).
-/
import FFVerif.Model.Linalg
import FFVerif.Model.Chol
namespace FF.Nataf
open FF.Linalg
section
variable {α : Type} [Transc α]

inductive Marg (α : Type) where
  | normal (mu sigma : α)
  | lognormal (m s : α)
  /-- any other family, given by its composed maps: `x( z ) = F⁻¹( Φ( z ) )`, `z( x ) = Φ⁻¹( F( x ) )`, the slope
  `φ( z( x ) ) / f( x )` and the curvature `d²x/dz²` as functions of `x` (built by the driver from the family's closed forms
  and a double-precision Φ / Φ⁻¹; at the reals they are constrained by `Marg.Valid`) -/
  | general (ofZ toZ dxdz d2xdz2 : α → α)

/-- `x = F⁻¹( Φ( z ) )` -/
def Marg.ofZ : Marg α → α → α
  | .normal mu sigma, z => mu + sigma * z
  | .lognormal m s, z => Transc.exp (m + s * z)
  | .general f _ _ _, z => f z

/-- `z = Φ⁻¹( F( x ) )` -/
def Marg.toZ : Marg α → α → α
  | .normal mu sigma, x => (x - mu) / sigma
  | .lognormal m s, x => (Transc.log x - m) / s
  | .general _ g _ _, x => g x

/-- `φ( z ) / f( x )` at `z = toZ x`, i.e. `dx/dz` -/
def Marg.dxdz : Marg α → α → α
  | .normal _ sigma, _ => sigma
  | .lognormal _ s, x => s * x
  | .general _ _ d _, x => d x

structure Model (α : Type) where
  dim : Nat
  marg : Nat → Marg α
  L : Mat α
  Linv : Mat α

def zOfX (T : Model α) (x : Vec α) : Vec α := fun d => (T.marg d).toZ (x d)

def getU (T : Model α) (x : Vec α) : Vec α := mulVec T.dim T.Linv (zOfX T x)

/-- the matrix returned by `getU`: `diag( φ/f ) · L` -/
def jacGetU (T : Model α) (x : Vec α) : Mat α :=
  fun i j => (T.marg i).dxdz (x i) * T.L i j

def getX (T : Model α) (u : Vec α) : Vec α := fun d => (T.marg d).ofZ (mulVec T.dim T.L u d)

/-- the matrix returned by `getX`: `L⁻¹ · diag( f/φ )` -/
def jacGetX (T : Model α) (u : Vec α) : Mat α :=
  fun i j => T.Linv i j * (one / (T.marg j).dxdz (getX T u j))

/-- latent correlation for a pair of marginals (closed forms; the implementation solves an integral
equation by Gauss–Legendre quadrature and `fsolve`, compared at 1e-6) -/
def latent : Marg α → Marg α → α → α
  | .normal _ _, .normal _ _, rho => rho
  | .lognormal _ s1, .lognormal _ s2, rho =>
      let d1 := Transc.sqrt (Transc.exp (s1 * s1) - one)
      let d2 := Transc.sqrt (Transc.exp (s2 * s2) - one)
      Transc.log (one + rho * d1 * d2) / (s1 * s2)
  | .normal _ _, .lognormal _ s, rho => rho * Transc.sqrt (Transc.exp (s * s) - one) / s
  | .lognormal _ s, .normal _ _, rho => rho * Transc.sqrt (Transc.exp (s * s) - one) / s
  | _, _, rho => rho          -- no closed form for other families (not compared)

/-- the transformation object as the constructor builds it from the latent correlation matrix:
`L = cholesky( rhoZ )`, and `solve( L, · )` as multiplication by the triangular inverse -/
def build (n : Nat) (margs : Nat → Marg α) (rhoZ : Mat α) : Model α :=
  let Lf := Chol.cholesky n rhoZ
  let La := mkArr2 n Lf
  let L := ofArr2 La Lf
  let If := Chol.triInv n L
  let Ia := mkArr2 n If
  { dim := n, marg := margs, L := L, Linv := ofArr2 Ia If }

end
end FF.Nataf
