/-
Executable model of the level bookkeeping of subset simulation
(rrm/simulationBasedReliabilityMethod.py:125-197).  Core Lean only.
Limit-state values are integers (any order-preserving, sign-preserving image of the real values:
the algorithm only compares them with each other and with 0).  The Markov chains are an oracle:
`oracle[level][chain]` lists the limit-state values of the successive states of that chain.
-/
namespace FF.Subset

/-- insertion into an ascending list, after equal elements (`np.argsort` is only observed through
the sorted values) -/
def insertAsc (x : Int) : List Int → List Int
  | [] => [x]
  | y :: t => if x < y then x :: y :: t else y :: insertAsc x t

def sortAsc (l : List Int) : List Int := l.foldr insertAsc []

/-- stored probability of a level: `p0` (encoded as `none`) or the failure fraction `count/N` -/
abbrev Prob := Option Nat

structure Level where
  values : List Int        -- the level's samples sorted by limit-state value
  threshold : Int          -- value at index numChains-1, floored at 0
  prob : Prob
deriving Repr

/-- one pass of the `while` loop on the current buffer: sort, threshold, stored probability -/
def levelOf (nc : Nat) (buf : List Int) : Level :=
  let s := sortAsc buf
  let l := s.getD (nc - 1) 0
  if l ≤ 0 then ⟨s, 0, some ((s.filter (· ≤ 0)).length)⟩ else ⟨s, l, none⟩

/-- the buffer of the next level: the `nc` seeds, then the states of each chain; positions not
overwritten keep the previous (sorted) content -/
def nextBuffer (nc : Nat) (sorted : List Int) (chains : List (List Int)) : List Int :=
  let fresh := sorted.take nc ++ chains.flatten
  fresh ++ sorted.drop fresh.length

/-- the whole loop: returns the saved levels (in order) -/
def run (nc maxSubsets : Nat) : Nat → List Int → List (List (List Int)) → List Level
  | 0, _, _ => []
  | fuel + 1, buf, oracle =>
    if maxSubsets = 0 then [] else
    let lv := levelOf nc buf
    if lv.threshold ≤ 0 ∧ lv.prob.isSome then [lv]
    else
      match oracle with
      | [] => [lv]
      | chains :: rest => lv :: run nc (maxSubsets - 1) fuel (nextBuffer nc lv.values chains) rest

/-- numerator and denominator of the returned `pf = np.prod( allProbs[ : numSteps ] )`, with the level
probability `p0 = a / b` and `N` samples per level: a level that stored `p0` contributes `a / b`, a level
that stored its failure fraction contributes `count / N` -/
def pf (a b N : Nat) : List Level → Nat × Nat
  | [] => (1, 1)
  | lv :: t =>
    match lv.prob with
    | none => (a * (pf a b N t).1, b * (pf a b N t).2)
    | some k => (k * (pf a b N t).1, N * (pf a b N t).2)

end FF.Subset
