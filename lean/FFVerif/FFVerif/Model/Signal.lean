/-
Executable models of the signal-conditioning utilities: hysteresis filter (sequenceFilter.py:104-145),
digitisation (digitization.py:47-49), cycle-count aggregation (aggregation.py:49-64).
Core Lean only.  Values, gate, resolution and bin size are integers on a common dyadic grid.
-/
import FFVerif.Model.Cycle
namespace FF

/-! ### hysteresis filter -/

/-- inner scan for a rising start (`next > cur`): drop points while they are not below `cur` and
strictly inside the gate; never the last point (`j < n - 1`) -/
def skipUp (cur gate : Int) : List Int → List Int
  | x :: y :: rest =>
    if x < cur then x :: y :: rest
    else if cur + gate > x then skipUp cur gate (y :: rest)
    else x :: y :: rest
  | l => l

def skipDown (cur gate : Int) : List Int → List Int
  | x :: y :: rest =>
    if x > cur then x :: y :: rest
    else if cur - gate < x then skipDown cur gate (y :: rest)
    else x :: y :: rest
  | l => l

theorem skipUp_length (cur gate : Int) : ∀ l : List Int, (skipUp cur gate l).length ≤ l.length
  | [] => by simp [skipUp]
  | [_] => by simp [skipUp]
  | x :: y :: rest => by
    unfold skipUp
    split
    · simp
    · split
      · have := skipUp_length cur gate (y :: rest); simp at this ⊢; omega
      · simp

theorem skipDown_length (cur gate : Int) : ∀ l : List Int, (skipDown cur gate l).length ≤ l.length
  | [] => by simp [skipDown]
  | [_] => by simp [skipDown]
  | x :: y :: rest => by
    unfold skipDown
    split
    · simp
    · split
      · have := skipDown_length cur gate (y :: rest); simp at this ⊢; omega
      · simp

/-- the list starts at `data[i]`, which is kept; returns the kept points from `i` on -/
def hystGo (gate : Int) : List Int → List Int
  | [] => []
  | [x] => [x]
  | cur :: next :: rest =>
    if next = cur then cur :: hystGo gate rest
    else if next > cur then cur :: hystGo gate (skipUp cur gate (next :: rest))
    else cur :: hystGo gate (skipDown cur gate (next :: rest))
termination_by l => l.length
decreasing_by
  · simp; omega
  · have := skipUp_length cur gate (next :: rest); simp at this ⊢; omega
  · have := skipDown_length cur gate (next :: rest); simp at this ⊢; omega

def hysteresis (h : List Int) (gate : Int) : List Int := hystGo gate h

/-! ### digitisation: `np.rint( d / resolution ) * resolution` -/

/-- round `k / r` to the nearest integer, ties to even (`r > 0`) -/
def roundHalfEven (k r : Int) : Int :=
  let q := k / r
  let rem := k - q * r
  if 2 * rem < r then q
  else if 2 * rem > r then q + 1
  else if q % 2 = 0 then q else q + 1

def digitize (r : Int) (d : List Int) : List Int := d.map (fun k => roundHalfEven k r * r)

/-! ### aggregation -/

/-- `getBinKey`: truncate toward zero, then round up when strictly past the middle -/
def binKey (b v : Int) : Int :=
  let key := b * v.tdiv b
  if v - key > key + b - v then key + b else key

def aggAdd (k : Int) (u : Nat) : List (Int × Nat) → List (Int × Nat)
  | [] => [(k, u)]
  | (k', u') :: t =>
    if k < k' then (k, u) :: (k', u') :: t
    else if k = k' then (k', u' + u) :: t
    else (k', u') :: aggAdd k u t

/-- `cycleCountingAggregation( data, binSize )`; counts in half-units -/
def aggregate (b : Int) (rows : List (Int × Nat)) : List (Int × Nat) :=
  rows.foldl (fun t p => aggAdd (binKey b p.1) p.2 t) []

end FF
