/-
Cholesky factorisation and inversion of a lower-triangular matrix, generic in the scalar; core Lean only.
These stand for `np.linalg.cholesky( rhoZ )` (rpm/nataf.py:176) and for the triangular solves
`np.linalg.solve( L, · )` (rpm/nataf.py:233, 288).  The factorisation is the outer-product
(right-looking) form: after step `k` the residual `A⁽ᵏ⁺¹⁾ = A⁽ᵏ⁾ - c cᵀ` with `c = A⁽ᵏ⁾[:, k] / sqrt( A⁽ᵏ⁾[k, k] )`
has vanishing row and column `k`, so `A = L Lᵀ` (theorem `chol_spec` in Proofs/C11Chol.lean).
-/
import FFVerif.Model.Linalg
namespace FF.Chol
open FF.Linalg
section
variable {α : Type} [Transc α]

/-- column `k` of the factor from the current residual -/
def column (A : Mat α) (k : Nat) : Vec α :=
  fun i => if i < k then zero else A i k / Transc.sqrt (A k k)

/-- one elimination step: new residual and the factor with column `k` filled in -/
def step (n : Nat) (st : Mat α × Mat α) (k : Nat) : Mat α × Mat α :=
  let cf := column st.1 k
  let ca := mkArr n cf
  let c := ofArr ca cf
  let rf : Mat α := fun i j => st.1 i j - c i * c j
  let ra := mkArr2 n rf
  let lf : Mat α := fun i j => if j = k then c i else st.2 i j
  let la := mkArr2 n lf
  (ofArr2 ra rf, ofArr2 la lf)

/-- residual and factor after the first `k` steps -/
def run (n : Nat) (A : Mat α) : Nat → Mat α × Mat α
  | 0 => (A, fun _ _ => zero)
  | k + 1 => step n (run n A k) k

def cholesky (n : Nat) (A : Mat α) : Mat α := (run n A n).2

/-- all pivots are positive (what `np.linalg.cholesky` requires; otherwise it raises) -/
def pivotsOK (n : Nat) (A : Mat α) : Bool :=
  (List.range n).all (fun k => Transc.ltb zero ((run n A k).1 k k))

/-- inverse of a lower-triangular matrix by forward substitution:
`X[i][j] = ( δ_ij - Σ_{k<i} L[i][k] X[k][j] ) / L[i][i]`, rows filled in increasing order
(the second component, the number of rows done, keeps the result a data value: a definition
returning a bare function would be re-evaluated at every entry) -/
def invRows (n : Nat) (L : Mat α) : Nat → Mat α × Nat
  | 0 => (fun _ _ => zero, 0)
  | i + 1 =>
    let X := (invRows n L i).1
    let rf : Vec α := fun j => ((if i = j then one else zero) - fsum i (fun k => L i k * X k j)) / L i i
    let ra := mkArr n rf
    let row := ofArr ra rf
    (fun r j => if r = i then row j else X r j, i + 1)

def triInv (n : Nat) (L : Mat α) : Mat α := (invRows n L n).1

end
end FF.Chol
