/-
Executable models of one step of the two Metropolis–Hastings samplers (rpm/metropolisHastings.py).
Core Lean only.  Densities are non-negative rationals given as integer numerators over a common
positive denominator (only ratios matter); the uniform draw is the rational `uNum / uDen`.
-/
namespace FF.Sampler

/-- `u <= fcandi / fcur` for `fcur > 0` -/
def accepts (fcur fcand : Int) (uNum uDen : Nat) : Bool := decide ((uNum : Int) * fcur ≤ fcand * (uDen : Int))

/-- `MetropolisHastingsSampler.getSample` (lines 81-113) over an arbitrary state type:
negative density → error; else `nxt` is the candidate iff the draw is at most the ratio; the move is
kept iff `sampleDomain( cur, nxt )` holds -/
def mhStep {σ : Type} (f : σ → Int) (dom : σ → σ → Bool) (cur cand : σ) (uNum uDen : Nat) : Except String σ :=
  if f cur < 0 ∨ f cand < 0 then .error "negative density"
  else
    let nxt := if accepts (f cur) (f cand) uNum uDen then cand else cur
    .ok (if dom cur nxt then nxt else cur)

/-- `AuModifiedMHSampler.getSample` (lines 204-237): per-coordinate accept / reject, then one
domain test on the assembled candidate.  `cands`, `us` give the i-th coordinate proposal and draw. -/
def auAssemble (fs : List (Int → Int)) : List Int → List Int → List (Nat × Nat) → Except String (List Int)
  | c :: cur, k :: cands, u :: us =>
    match fs with
    | f :: fs' =>
      if f c < 0 ∨ f k < 0 then .error "negative density"
      else do
        let rest ← auAssemble fs' cur cands us
        pure ((if accepts (f c) (f k) u.1 u.2 then k else c) :: rest)
    | [] => .error "dimension"
  | [], [], [] => .ok []
  | _, _, _ => .error "dimension"

def auStep (fs : List (Int → Int)) (dom : List Int → List Int → Bool) (cur cands : List Int)
    (us : List (Nat × Nat)) : Except String (List Int) := do
  let nxt ← auAssemble fs cur cands us
  pure (if dom cur nxt then nxt else cur)

end FF.Sampler
