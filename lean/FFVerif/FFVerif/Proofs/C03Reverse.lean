/-
C03 — time reversal for the four-point, rainflow and Rychlik counters (the conjuncts of
`C03.ReverseStatement`), via the confluence of four-point extraction (Lemmas/Confl.lean).
-/
import FFVerif.Lemmas.RyNormal
namespace FF

theorem fpGo_short (l : List Int) (h : l.length ≤ 3) (out : List Cyc) : fpGo l out = (l, out) := by
  have : fpRound l = none := by
    match l, h with
    | [], _ => simp [fpRound]
    | [_], _ => simp [fpRound]
    | [_, _], _ => simp [fpRound]
    | [_, _, _], _ => simp [fpRound]
  rw [fpGo]; split
  · rename_i heq; rw [this] at heq; cases heq
  · rfl

/-- the four-point count of a history is a maximal extraction sequence on its reversal sequence -/
theorem fourPoint_red (h : List Int) (hc : isConstant h = false) :
    Red (pv true h) (fourPoint h) (fourPointFull h).1 := by
  obtain ⟨cs, r, e⟩ := fpGo_red (pv true h) [] (pv_zig h hc)
  have : fourPoint h = cs := by simpa [fourPoint, fourPointFull] using e
  rw [this]; exact r

/-- C03, time reversal, four-point counting -/
theorem C03_reverse_fourPoint (h : List Int) : table (fourPoint h.reverse) = table (fourPoint h) := by
  by_cases hc : isConstant h = true
  · have h1 := pv_const_length h hc
    have h2 := pv_const_length h.reverse (by rw [isConstant_reverse]; exact hc)
    simp only [fourPoint, fourPointFull]
    rw [fpGo_short _ (by omega), fpGo_short _ (by omega)]
  · have hc' : isConstant h = false := by simpa using hc
    have r := fourPoint_red h hc'
    have r' := fourPoint_red h.reverse (by rw [isConstant_reverse]; exact hc')
    rw [pv_true_reverse] at r'
    exact table_eq_of_unitsAt _ _ (r.reverse_confluent r').2

/-- the four-point residue of the reversed history is the reversed residue -/
theorem C03_reverse_fourPoint_residue (h : List Int) (hc : isConstant h = false) :
    (fourPointFull h.reverse).1 = (fourPointFull h).1.reverse := by
  have r := fourPoint_red h hc
  have r' := fourPoint_red h.reverse (by rw [isConstant_reverse]; exact hc)
  rw [pv_true_reverse] at r'
  exact (r.reverse_confluent r').1

/-! ### rainflow -/

theorem rainflow_eq_astm (h : List Int) : rainflow h = astm (pv true h) := implGo_nil_eq_astm _

theorem implGo_short (B : List Int) (hl : B.length ≤ 2) : implGo [] B true [] = halves B := by
  match B, hl with
  | [], _ => rw [implGo] <;> simp
  | [_], _ => rw [implGo] <;> simp
  | [_, _], _ => rw [implGo] <;> simp

/-- the rainflow histogram of a non-constant history: cycles of any maximal four-point extraction
sequence on the reversal sequence, plus the half cycles of the four-point residue -/
theorem rainflow_red (h : List Int) (hc : isConstant h = false) {cs N} (r : Red (pv true h) cs N) (k : Nat) :
    unitsAt (rainflow h) k = unitsAt cs k + unitsAt (halves N) k := by
  rw [rainflow_eq_astm]; exact astm_red (pv_zig h hc) r k

/-- rainflow = four-point cycles + half cycles of the four-point residue, as tables -/
theorem rainflow_eq_fourPoint_residue (h : List Int) (hc : isConstant h = false) :
    table (rainflow h) = table (fourPoint h ++ halves (fourPointFull h).1) :=
  table_eq_of_unitsAt _ _ (fun k => by rw [rainflow_red h hc (fourPoint_red h hc), unitsAt_app])

/-- C03, time reversal, rainflow counting -/
theorem C03_reverse_rainflow (h : List Int) : table (rainflow h.reverse) = table (rainflow h) := by
  by_cases hc : isConstant h = true
  · have h1 := pv_const_length h hc
    have h2 := pv_const_length h.reverse (by rw [isConstant_reverse]; exact hc)
    unfold rainflow
    rw [implGo_short _ h1, implGo_short _ h2, pv_true_reverse, halves_reverse]
    exact table_eq_of_unitsAt _ _ (unitsAt_swap_reverse _)
  · have hc' : isConstant h = false := by simpa using hc
    refine table_eq_of_unitsAt _ _ (fun k => ?_)
    rw [rainflow_eq_astm, rainflow_eq_astm, pv_true_reverse,
      astm_T _ (by rw [← pv_true_reverse]; exact pv_zig _ (by rw [isConstant_reverse]; exact hc')),
      astm_T _ (pv_zig h hc'), T_reverse]

/-! ### Rychlik -/

theorem peaksGo_short (f : List Int → Int → List Int → Option Cyc) (B : List Int) (hl : B.length ≤ 2) :
    peaksGo f [] B = [] := by
  match B, hl with
  | [], _ => simp [peaksGo]
  | [_], _ => simp [peaksGo]
  | [_, _], _ => simp [peaksGo]

/-- the Rychlik histogram of a non-constant history: cycles of any maximal four-point extraction
sequence on the reversal sequence, plus the Rychlik cycles of the four-point residue -/
theorem rychlik_red (h : List Int) (hc : isConstant h = false) {cs N} (r : Red (pv true h) cs N) (k : Nat) :
    unitsAt (rychlik h) k = unitsAt cs k + unitsAt (peaksGo ryF [] N) k :=
  ry_red r (pv_zig h hc) k

/-- C03, time reversal, Rychlik counting (equal-height peaks included: the pairing of tops and
bottoms may change, the histogram of ranges does not) -/
theorem C03_reverse_rychlik (h : List Int) : table (rychlik h.reverse) = table (rychlik h) := by
  by_cases hc : isConstant h = true
  · have h1 := pv_const_length h hc
    have h2 := pv_const_length h.reverse (by rw [isConstant_reverse]; exact hc)
    unfold rychlik
    rw [peaksGo_short _ _ h1, peaksGo_short _ _ h2]
  · have hc' : isConstant h = false := by simpa using hc
    have hcr : isConstant h.reverse = false := by rw [isConstant_reverse]; exact hc'
    refine table_eq_of_unitsAt _ _ (fun k => ?_)
    obtain ⟨cs, N, r⟩ := Red.exists (pv true h)
    have r' : Red (pv true h.reverse) (cs.map Cyc.swap) N.reverse := by
      rw [pv_true_reverse]; exact r.reverse
    rw [rychlik_red h hc' r, rychlik_red h.reverse hcr r', unitsAt_map_swap,
      ry_normal_reverse N.length N (Nat.le_refl _) r.normal (r.zig (pv_zig h hc'))]

/-- C03, time reversal: the clause left open in Proofs/C03.lean -/
theorem C03_reverse : C03.ReverseStatement :=
  fun h => ⟨C03_reverse_rainflow h, C03_reverse_fourPoint h, C03_reverse_rychlik h⟩

end FF
