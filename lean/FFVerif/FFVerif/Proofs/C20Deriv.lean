/-
C20 — end to end for the hard-coded stencils: the EXECUTABLE model of `derivative` (`Model/Deriv.lean`, evaluated at
Float against the implementation) with ANY table of `Gen/DiffTables.lean` (regenerated from the source on every run)
returns, at the reals, the exact `n`-th derivative of every polynomial of degree below the stencil size, at every point
and for every non-zero step:   `C20d_derivative_exact`.
The chain: table (kernel-evaluated integer moment conditions, `C20_tables`) → real moment conditions
(`moment_real`) → `C20_exact_on_polynomials`.
-/
import Mathlib.Algebra.BigOperators.Fin
import Mathlib.Algebra.BigOperators.Group.List.Basic
import FFVerif.Proofs.C20
import FFVerif.Lemmas.RealScalar
import FFVerif.Model.Deriv
namespace FF.Deriv
open Polynomial C20

theorem ofInt_real (z : Int) : (ofInt z : ℝ) = (z : ℝ) := by
  unfold ofInt
  split
  · next h =>
    rw [lit_real, pow_zero, div_one]
    have h1 : ((z.toNat : Int) : ℝ) = (z : ℝ) := by rw [Int.toNat_of_nonneg h]
    rw [← h1, Int.cast_natCast]
  · next h =>
    have h' : 0 ≤ -z := by omega
    rw [lit_real, pow_zero, div_one]
    have h1 : (((-z).toNat : Int) : ℝ) = ((-z : Int) : ℝ) := by rw [Int.toNat_of_nonneg h']
    rw [Int.cast_natCast] at h1
    rw [h1]; push_cast; ring

/-- a fold over `zip (range len) l` is a sum over `Fin len` -/
theorem foldl_zip_range (l : List Int) (h : Nat → Int → ℝ) :
    ((List.range l.length).zip l).foldl (fun acc p => acc + h p.1 p.2) 0 = ∑ k : Fin l.length, h k (l.get k) := by
  have e : (List.range l.length).zip l = List.ofFn (fun k : Fin l.length => ((k : Nat), l.get k)) := by
    apply List.ext_getElem
    · simp
    · intro i h1 h2
      simp
  rw [e]
  have : ∀ (L : List (Nat × Int)) (a : ℝ), L.foldl (fun acc p => acc + h p.1 p.2) a = a + (L.map (fun p => h p.1 p.2)).sum := by
    intro L
    induction L with
    | nil => intro a; simp
    | cons x t ih => intro a; simp only [List.foldl_cons, List.map_cons, List.sum_cons, ih]; ring
  rw [this, zero_add, List.map_ofFn, List.sum_ofFn]
  rfl

theorem fact_eq (n : Nat) : C20.fact n = n.factorial := by
  induction n with
  | zero => rfl
  | succ k ih => simp [C20.fact, ih, Nat.factorial_succ]

/-- the integer moment as a real sum -/
theorem moment_real (m : Nat) (num : List Int) (j : Nat) :
    ((C20.moment m num j : Int) : ℝ) = ∑ k : Fin num.length, (num.get k : ℝ) * ((C20.node m k : Int) : ℝ) ^ j := by
  unfold C20.moment
  have : ∀ (L : List (Nat × Int)) (a : Int),
      ((L.foldl (fun acc p => acc + p.2 * (C20.node m p.1) ^ j) a : Int) : ℝ)
        = L.foldl (fun acc p => acc + (p.2 : ℝ) * ((C20.node m p.1 : Int) : ℝ) ^ j) (a : ℝ) := by
    intro L
    induction L with
    | nil => intro a; rfl
    | cons x t ih => intro a; simp only [List.foldl_cons]; rw [ih]; push_cast; rfl
  rw [this, Int.cast_zero]
  exact foldl_zip_range num (fun k z => (z : ℝ) * ((C20.node m k : Int) : ℝ) ^ j)

/-- **the executable `derivative` with any regenerated table is exact on polynomials of degree below the stencil size** -/
theorem C20d_derivative_exact (t : Nat × Nat × List Int × Int) (ht : t ∈ Gen.diffTables)
    (p : ℝ[X]) (hp : p.natDegree < t.2.1) (x0 dx : ℝ) (hdx : dx ≠ 0) :
    derivative t (fun x => p.eval x) x0 dx = (Polynomial.derivative^[t.1] p).eval x0 := by
  obtain ⟨n, m, num, den⟩ := t
  have hok := C20_tables _ ht
  simp only [C20.momentOK, Bool.and_eq_true, beq_iff_eq, List.all_eq_true, List.mem_range] at hok
  obtain ⟨hlen, hmom⟩ := hok
  -- the denominator is not zero: the n-th moment is `den * n!` and the table is not all zero … read off from the list
  have hden : (den : ℝ) ≠ 0 := by
    have : den ≠ 0 := by
      simp only [Gen.diffTables, List.mem_cons, Prod.mk.injEq, List.mem_nil_iff, or_false] at ht
      rcases ht with h | h | h | h | h | h | h | h <;> (obtain ⟨_, _, _, h4⟩ := h; rw [h4]; decide)
    exact_mod_cast this
  unfold derivative
  simp only [ofInt_real, npow_real]
  have hfold := foldl_zip_range num (fun k z => ((z : ℝ) / (den : ℝ)) * p.eval (x0 + ((C20.node m k : Int) : ℝ) * dx))
  have hz : (zero : ℝ) = 0 := by simp [zero]
  rw [hz]
  rw [hfold]
  -- real moment conditions for `w k = num[k] / den`, nodes `k - m/2`
  have hreal : ∀ j < num.length, ∑ k : Fin num.length, ((num.get k : ℝ) / den) * ((C20.node m k : Int) : ℝ) ^ j
      = if j = n then (n.factorial : ℝ) else 0 := by
    intro j hj
    have h1 := hmom j (by omega)
    have h2 := moment_real m num j
    rw [h1] at h2
    have : ∑ k : Fin num.length, ((num.get k : ℝ) / den) * ((C20.node m k : Int) : ℝ) ^ j
        = (∑ k : Fin num.length, (num.get k : ℝ) * ((C20.node m k : Int) : ℝ) ^ j) / den := by
      rw [Finset.sum_div]; exact Finset.sum_congr rfl (fun k _ => by ring)
    rw [this, ← h2]
    split
    · push_cast; rw [fact_eq]; field_simp
    · simp
  have hp' : p.natDegree < num.length := by rw [hlen]; exact hp
  have := C20_exact_on_polynomials num.length n (fun k => (num.get k : ℝ) / den) (fun k => ((C20.node m k : Int) : ℝ)) hreal p hp' x0 dx
  rw [this]
  field_simp

/-- **gradient clause on the executable model**: if the restriction of `f` to coordinate `i` through `x` is a polynomial of degree
below the stencil size, `gradient` returns its exact `n`-th derivative at `x i` — any regenerated table, any non-zero step -/
theorem C20d_partial_exact (t : Nat × Nat × List Int × Int) (ht : t ∈ Gen.diffTables) (f : (Nat → ℝ) → ℝ) (i : Nat) (x : Nat → ℝ)
    (p : ℝ[X]) (hp : p.natDegree < t.2.1) (hf : ∀ s, f (fun k => if k = i then s else x k) = p.eval s) (dx : ℝ) (hdx : dx ≠ 0) :
    partialD t f i x dx = (Polynomial.derivative^[t.1] p).eval (x i) := by
  unfold partialD
  have : (fun s => f (fun k => if k = i then s else x k)) = fun s => p.eval s := funext hf
  rw [this]
  exact C20d_derivative_exact t ht p hp (x i) dx hdx

/-- non-vacuity: the three-point first-derivative table on `x^2` at `x0 = 3`, `dx = 1/2`: exactly `6` -/
example : derivative (1, 3, [-1, 0, 1], 2) (fun x => (X ^ 2 : ℝ[X]).eval x) 3 (1 / 2) = 6 := by
  rw [C20d_derivative_exact _ (by decide) _ (by rw [natDegree_X_pow]; norm_num) 3 (1 / 2) (by norm_num)]
  simp
  norm_num

end FF.Deriv
