/-
C10 — in ONE variable the HL-RF iteration of the executable model is Newton's method on `G( u ) = g( T( u ) )`.

With `dim = 1` (so `L = [ 1 ]`) and any marginal, the pulled-back gradient is the number `G'( u ) = ( dx/dz )( x ) · g'( x )` and the
loop body of `hlrfFORM` (`Form.step`) returns

    u_new = u - G( u ) / G'( u ),        beta = -( G'( u ) / |G'( u )| ) · u_new

(`C10m_newton_1d`, `C10m_newton_1d_beta`).  So the convergence behaviour of the one-variable problems of C10 (pf = F(c)) is that of
Newton's iteration for the root of `G`: a fixed point of the step is a root (`C10m_newton_1d_fixed_iff`), and for an affine `G` the
root is reached in one step from anywhere (`C10m_newton_1d_affine`).
-/
import Mathlib.Tactic.FieldSimp
import Mathlib.Tactic.Linarith
import FFVerif.Proofs.C10Loop
namespace FF.Form
open FF.Linalg FF.Nataf Finset

/-- the pulled-back derivative in one variable -/
noncomputable def G' (T : Model ℝ) (dg : Vec ℝ → Vec ℝ) (u : Vec ℝ) : ℝ :=
  (T.marg 0).dxdz (getX T u 0) * dg (getX T u) 0

theorem gradU_1d (T : Model ℝ) (h1 : T.dim = 1) (hL : T.L 0 0 = 1) (dg : Vec ℝ → Vec ℝ) (u : Vec ℝ) :
    gradU T (getX T u) (dg (getX T u)) 0 = G' T dg u := by
  unfold gradU G'
  rw [tmulVec_real, h1]
  simp [hL]

theorem norm_1d (T : Model ℝ) (h1 : T.dim = 1) (w : Vec ℝ) : norm T.dim w = |w 0| := by
  rw [norm_real, h1]
  simp [Real.sqrt_mul_self_eq_abs]

theorem dot_1d (T : Model ℝ) (h1 : T.dim = 1) (a b : Vec ℝ) : dot T.dim a b = a 0 * b 0 := by
  rw [dot_real, h1]; simp

/-- **one variable: the HL-RF step is the Newton step** -/
theorem C10m_newton_1d (T : Model ℝ) (h1 : T.dim = 1) (hL : T.L 0 0 = 1) (g : Vec ℝ → ℝ) (dg : Vec ℝ → Vec ℝ) (u : Vec ℝ)
    (hG : G' T dg u ≠ 0) :
    (step T g dg u).u 0 = u 0 - g (getX T u) / G' T dg u := by
  rw [step_real]
  simp only [norm_1d T h1, dot_1d T h1, gradU_1d T h1 hL]
  have ha : |G' T dg u| ≠ 0 := abs_ne_zero.mpr hG
  have hsq : |G' T dg u| * |G' T dg u| = G' T dg u * G' T dg u := abs_mul_abs_self _
  field_simp
  rw [show |G' T dg u| ^ 2 = G' T dg u ^ 2 from by rw [sq, sq, hsq]]
  ring

/-- … and the index is the signed distance of the new point: `beta = -sign( G' ) · u_new` -/
theorem C10m_newton_1d_beta (T : Model ℝ) (h1 : T.dim = 1) (hL : T.L 0 0 = 1) (g : Vec ℝ → ℝ) (dg : Vec ℝ → Vec ℝ) (u : Vec ℝ)
    (hG : G' T dg u ≠ 0) :
    (step T g dg u).beta = -(G' T dg u / |G' T dg u|) * (step T g dg u).u 0 := by
  rw [C10m_newton_1d T h1 hL g dg u hG, step_real]
  simp only [norm_1d T h1, dot_1d T h1, gradU_1d T h1 hL]
  have ha : |G' T dg u| ≠ 0 := abs_ne_zero.mpr hG
  have hsq : |G' T dg u| * |G' T dg u| = G' T dg u * G' T dg u := abs_mul_abs_self _
  field_simp
  ring

/-- a point is left unchanged by the step exactly when it is a root of `G` -/
theorem C10m_newton_1d_fixed_iff (T : Model ℝ) (h1 : T.dim = 1) (hL : T.L 0 0 = 1) (g : Vec ℝ → ℝ) (dg : Vec ℝ → Vec ℝ) (u : Vec ℝ)
    (hG : G' T dg u ≠ 0) :
    (step T g dg u).u 0 = u 0 ↔ g (getX T u) = 0 := by
  rw [C10m_newton_1d T h1 hL g dg u hG]
  constructor
  · intro h
    have : g (getX T u) / G' T dg u = 0 := by linarith
    rcases div_eq_zero_iff.mp this with h0 | h0
    · exact h0
    · exact absurd h0 hG
  · intro h; rw [h]; simp

/-- affine in the standard variable (`G( u ) = a + b u`, normal marginal): the root `-a / b` in one step from anywhere -/
theorem C10m_newton_1d_affine (T : Model ℝ) (h1 : T.dim = 1) (hL : T.L 0 0 = 1) (mu sigma c d : ℝ)
    (hm : T.marg 0 = .normal mu sigma) (hb : sigma * c ≠ 0) (u : Vec ℝ) :
    (step T (fun x => d + c * x 0) (fun _ _ => c) u).u 0 = -(d + c * mu) / (sigma * c) := by
  have hG' : G' T (fun _ _ => c) u = sigma * c := by unfold G'; rw [hm]; rfl
  rw [C10m_newton_1d T h1 hL _ _ u (by rw [hG']; exact hb), hG']
  have hx : getX T u 0 = mu + sigma * u 0 := by
    unfold getX
    rw [hm, mulVec_real, h1]
    simp [Marg.ofZ, hL]
  simp only [hx]
  have hs : sigma ≠ 0 := left_ne_zero_of_mul hb
  have hc : c ≠ 0 := right_ne_zero_of_mul hb
  field_simp
  ring

/-- non-vacuity: `g( x ) = 2 - x` of `x ~ N( 1, 1/2 )`, from `u = 1`: `G = 1/2`, `G' = -1/2`, Newton step to `u = 2` (`x = 2`) -/
example : (step ({ dim := 1, marg := fun _ => .normal 1 (1 / 2), L := fun _ _ => 1, Linv := fun _ _ => 1 } : Model ℝ)
    (fun x => (2 : ℝ) + (-1) * x 0) (fun _ _ => (-1 : ℝ)) (fun _ => (1 : ℝ))).u 0 = 2 := by
  rw [C10m_newton_1d_affine _ rfl rfl 1 (1 / 2) (-1) 2 rfl (by norm_num)]
  norm_num

end FF.Form
