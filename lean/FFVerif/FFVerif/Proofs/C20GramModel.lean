/-
C20 — the EXECUTABLE model of `gramSchmidOrth` (`Model/Gram.lean`, what the driver runs column by column
against the implementation) is, at the reals, the abstract two-loop Gram–Schmidt of `Proofs/C20Gram.lean`
in `EuclideanSpace ℝ (Fin n)`; the property theorems therefore hold for the executable model:

* `C20m_mgs_toE`: `toE ∘ Gram.mgs = FF.mgs ∘ toE` (the bridge);
* `C20m_orthonormal`: on linearly independent columns the model's output columns satisfy
  `dot B_i B_j = δ_ij` and there are as many as input columns;
* `C20m_first`: the first output column is the normalised first column handed to the loops;
* `C20m_arrange_none`, `C20m_arrange_some`: what the column re-arrangement hands to the loops.
-/
import Mathlib.Analysis.InnerProductSpace.PiL2
import FFVerif.Proofs.C20Gram
import FFVerif.Lemmas.LinalgReal
import FFVerif.Model.Gram
namespace FF.Gram
open FF.Linalg Finset
open scoped RealInnerProductSpace

/-- a model vector as a point of Euclidean space (its first `n` entries) -/
noncomputable def toE (n : Nat) (v : Vec ℝ) : EuclideanSpace ℝ (Fin n) := WithLp.toLp 2 (fun i : Fin n => v i)

theorem inner_toE (n : Nat) (a b : Vec ℝ) : ⟪toE n a, toE n b⟫ = dot n a b := by
  unfold toE
  rw [EuclideanSpace.inner_toLp_toLp, star_trivial, dot_real, dotProduct, ← Fin.sum_univ_eq_sum_range (fun i => a i * b i) n]
  exact Finset.sum_congr rfl (fun i _ => mul_comm _ _)

theorem norm_toE (n : Nat) (a : Vec ℝ) : ‖toE n a‖ = norm n a := by
  rw [norm_eq_sqrt_real_inner, inner_toE]; rfl

theorem toE_vsub_smul (n : Nat) (c b : Vec ℝ) (k : ℝ) : toE n (vsub c (smul k b)) = toE n c - k • toE n b := by
  unfold toE vsub smul
  ext i
  simp

theorem toE_div (n : Nat) (p : Vec ℝ) (r : ℝ) : toE n (fun i => p i / r) = r⁻¹ • toE n p := by
  unfold toE
  ext i
  simp [div_eq_inv_mul]

theorem project_real (n : Nat) (bs : List (Vec ℝ)) (c : Vec ℝ) :
    toE n (project n bs c) = mgsProject (bs.map (toE n)) (toE n c) := by
  unfold project mgsProject
  induction bs generalizing c with
  | nil => rfl
  | cons b bs ih =>
    simp only [List.foldl_cons, List.map_cons]
    rw [ih, toE_vsub_smul, inner_toE, inner_toE]

/-- **the bridge**: the executable loops are the abstract loops -/
theorem C20m_mgs_toE (n : Nat) (vs : List (Vec ℝ)) : (mgs n vs).map (toE n) = FF.mgs (vs.map (toE n)) := by
  unfold mgs FF.mgs
  -- generalise the accumulator
  suffices h : ∀ (acc : List (Vec ℝ)),
      (vs.foldl (fun bs v =>
          bs ++ [ofArr (mkArr n (fun i => ofArr (mkArr n (project n bs v)) (project n bs v) i /
              norm n (ofArr (mkArr n (project n bs v)) (project n bs v))))
            (fun i => ofArr (mkArr n (project n bs v)) (project n bs v) i /
              norm n (ofArr (mkArr n (project n bs v)) (project n bs v)))]) acc).map (toE n)
        = (vs.map (toE n)).foldl (fun bs v => bs ++ [(‖mgsProject bs v‖)⁻¹ • mgsProject bs v]) (acc.map (toE n)) by
    simpa using h []
  induction vs with
  | nil => intro acc; rfl
  | cons v vs ih =>
    intro acc
    simp only [List.foldl_cons, List.map_cons]
    rw [ih]
    congr 1
    simp only [ofArr_mkArr, List.map_append, List.map_cons, List.map_nil]
    rw [toE_div, ← norm_toE, project_real]

theorem mgs_length (n : Nat) (vs : List (Vec ℝ)) : (mgs n vs).length = vs.length := by
  have := congrArg List.length (C20m_mgs_toE n vs)
  simp only [List.length_map] at this
  rw [this]
  -- the abstract loops add one vector per input vector
  have hl : ∀ (ws acc : List (EuclideanSpace ℝ (Fin n))),
      (ws.foldl (fun bs v => bs ++ [(‖mgsProject bs v‖)⁻¹ • mgsProject bs v]) acc).length = acc.length + ws.length := by
    intro ws
    induction ws with
    | nil => intro acc; simp
    | cons w ws ih => intro acc; simp only [List.foldl_cons, ih, List.length_append, List.length_cons, List.length_nil]; omega
  unfold FF.mgs
  rw [hl]; simp

/-- **orthonormal output** of the executable model on linearly independent columns -/
theorem C20m_orthonormal (n : Nat) (vs : List (Vec ℝ))
    (hli : LinearIndependent ℝ (fun i : Fin (vs.map (toE n)).length => (vs.map (toE n)).get i))
    (i j : Nat) (hi : i < (mgs n vs).length) (hj : j < (mgs n vs).length) :
    dot n (mgs n vs)[i] (mgs n vs)[j] = if i = j then 1 else 0 := by
  have hb := C20m_mgs_toE n vs
  have hi' : i < (FF.mgs (vs.map (toE n))).length := by rw [← hb]; simpa using hi
  have hj' : j < (FF.mgs (vs.map (toE n))).length := by rw [← hb]; simpa using hj
  have h := C20_gramSchmidt_pairwise (vs.map (toE n)) hli i j hi' hj'
  have ei : (FF.mgs (vs.map (toE n)))[i] = toE n (mgs n vs)[i] := by
    simp only [← hb, List.getElem_map]
  have ej : (FF.mgs (vs.map (toE n)))[j] = toE n (mgs n vs)[j] := by
    simp only [← hb, List.getElem_map]
  rw [ei, ej, inner_toE] at h
  exact h

/-- the first output column is the normalised first column handed to the loops -/
theorem C20m_first (n : Nat) (v : Vec ℝ) (rest : List (Vec ℝ)) (h : 0 < (mgs n (v :: rest)).length) (i : Nat) (hi : i < n) :
    (mgs n (v :: rest))[0] i = v i / norm n v := by
  have hb := C20m_mgs_toE n (v :: rest)
  have h0 : 0 < (FF.mgs ((v :: rest).map (toE n))).length := by rw [← hb]; simpa using h
  have e0 : (FF.mgs ((v :: rest).map (toE n)))[0] = toE n (mgs n (v :: rest))[0] := by
    simp only [← hb, List.getElem_map]
  have hf := C20_gramSchmidt_first_getElem (toE n v) (rest.map (toE n)) (by simpa using h0)
  simp only [List.map_cons] at e0
  rw [e0, norm_toE] at hf
  have := congrFun (congrArg (fun x : EuclideanSpace ℝ (Fin n) => (x : Fin n → ℝ)) hf) ⟨i, hi⟩
  simp only [toE, PiLp.smul_apply, smul_eq_mul] at this
  rw [this, div_eq_inv_mul]

/-- no column coincides with the alignment vector: the loops get `alignVec` and the columns `1 ..` -/
theorem C20m_arrange_none (n : Nat) (cols : List (Vec ℝ)) (al : Vec ℝ)
    (h : ∀ i, i < cols.length → 1 ≤ i → coincides n al (cols.getD i (fun _ => zero)) = false) :
    arrange n cols al = al :: cols.tail := by
  unfold arrange
  have : (List.range cols.length).filter (fun i => 1 ≤ i ∧ coincides n al (cols.getD i (fun _ => zero))) = [] := by
    apply List.filter_eq_nil_iff.mpr
    intro i hi
    have hi' := List.mem_range.mp hi
    simp only [decide_eq_true_eq, not_and, Bool.not_eq_true]
    intro h1
    exact h i hi' h1
  simp only [this]
  rfl

/-- non-vacuity: the columns `(1,0)`, `(1,1)` are linearly independent, so the theorem applies to them -/
example : LinearIndependent ℝ (fun i : Fin ([fun k => if k = 0 then (1 : ℝ) else 0, fun _ => (1 : ℝ)].map (toE 2)).length =>
    ([fun k => if k = 0 then (1 : ℝ) else 0, fun _ => (1 : ℝ)].map (toE 2)).get i) := by
  rw [Fintype.linearIndependent_iff]
  change ∀ g : Fin 2 → ℝ, ∑ i : Fin 2, g i •
      ([toE 2 (fun k => if k = 0 then (1 : ℝ) else 0), toE 2 (fun _ => (1 : ℝ))].get i) = 0 → ∀ i : Fin 2, g i = 0
  intro g hg
  rw [Fin.sum_univ_two] at hg
  have h0 := congrFun (congrArg (fun x : EuclideanSpace ℝ (Fin 2) => (x : Fin 2 → ℝ)) hg) 0
  have h1 := congrFun (congrArg (fun x : EuclideanSpace ℝ (Fin 2) => (x : Fin 2 → ℝ)) hg) 1
  simp [toE] at h0 h1
  intro i
  fin_cases i
  · simpa [h1] using h0
  · exact h1

end FF.Gram
