/-
C12 — property theorems about the closing formulas of the second-order reliability estimates
(`FF.Sorm.*`, FFVerif/Model/Sorm.lean), at the reals, and the rotation/ordering invariance of the
principal-curvature extraction.
-/
import Mathlib.Tactic.Ring
import Mathlib.Tactic.NormNum
import Mathlib.Tactic.Linarith
import Mathlib.Tactic.Positivity
import Mathlib.Algebra.BigOperators.Group.List.Basic
import Mathlib.Data.List.Perm.Basic
import Mathlib.Data.Matrix.Block
import Mathlib.LinearAlgebra.Matrix.NonsingularInverse
import Mathlib.LinearAlgebra.Matrix.Charpoly.Basic
import Mathlib.Analysis.SpecialFunctions.Pow.Real
import FFVerif.Lemmas.RealScalar
import FFVerif.Model.Sorm
namespace FF
open Sorm

/-! ### the scalar constants and the fold -/

theorem sorm_one_real : (Sorm.one : ℝ) = 1 := by
  unfold Sorm.one; simp only [lit_real, Nat.cast_one, pow_zero, div_one]

theorem sorm_negHalf_real : (Sorm.negHalf : ℝ) = -(1 / 2 : ℝ) := by
  unfold Sorm.negHalf; simp only [lit_real]; norm_num

theorem foldl_mul_eq_prod (f : ℝ → ℝ) (ks : List ℝ) (a : ℝ) :
    ks.foldl (fun acc k => acc * f k) a = a * (ks.map f).prod := by
  induction ks generalizing a with
  | nil => simp
  | cons k ks ih => rw [List.foldl_cons, ih, List.map_cons, List.prod_cons, mul_assoc]

/-- 0. the fold is the product of the per-curvature factors -/
theorem curvProd_eq_prod (c : ℝ) (ks : List ℝ) :
    curvProd c ks = (ks.map (fun k => (1 + c * k) ^ (-(1 / 2 : ℝ)))).prod := by
  unfold curvProd
  simp only [rpow_real, sorm_one_real, sorm_negHalf_real]
  rw [foldl_mul_eq_prod (fun k => (1 + c * k) ^ (-(1 / 2 : ℝ))) ks 1, one_mul]

/-! ### 1. zero curvature -/

theorem curvProd_zero_curv (c : ℝ) (ks : List ℝ) (h : ∀ k ∈ ks, k = 0) : curvProd c ks = 1 := by
  rw [curvProd_eq_prod]
  apply List.prod_eq_one
  intro x hx
  obtain ⟨k, hk, rfl⟩ := List.mem_map.1 hx
  rw [h k hk, mul_zero, add_zero, Real.one_rpow]

/-- zero curvature: all three second-order estimates equal the first-order `Φ(-β)` -/
theorem C12_zero_curvature (beta formPf pdfB cdfB : ℝ) (ks : List ℝ) (h : ∀ k ∈ ks, k = 0) :
    breitung beta formPf ks = formPf ∧ hrack formPf pdfB cdfB ks = formPf ∧
      tvedt beta formPf pdfB ks = formPf := by
  refine ⟨?_, ?_, ?_⟩
  · unfold breitung; rw [curvProd_zero_curv _ _ h, mul_one]
  · unfold hrack; rw [curvProd_zero_curv _ _ h, mul_one]
  · unfold tvedt
    simp only [curvProd_zero_curv _ _ h]
    ring

/-! ### 2. permutation invariance -/

theorem curvProd_perm (c : ℝ) {ks ks' : List ℝ} (h : ks.Perm ks') : curvProd c ks = curvProd c ks' := by
  rw [curvProd_eq_prod, curvProd_eq_prod]
  exact (h.map _).prod_eq

/-- the estimates do not depend on how the principal axes are ordered -/
theorem C12_permutation (beta formPf pdfB cdfB : ℝ) {ks ks' : List ℝ} (h : ks.Perm ks') :
    breitung beta formPf ks = breitung beta formPf ks' ∧
      hrack formPf pdfB cdfB ks = hrack formPf pdfB cdfB ks' ∧
      tvedt beta formPf pdfB ks = tvedt beta formPf pdfB ks' := by
  unfold breitung hrack tvedt
  simp only [curvProd_perm _ h]
  exact ⟨trivial, trivial, trivial⟩

/-! ### 3. closed forms -/

theorem C12_breitung_formula (beta formPf : ℝ) (ks : List ℝ) :
    breitung beta formPf ks = formPf * (ks.map (fun k => (1 + beta * k) ^ (-(1 / 2 : ℝ)))).prod := by
  unfold breitung; rw [curvProd_eq_prod]

theorem C12_hrack_formula (formPf pdfB cdfB : ℝ) (ks : List ℝ) :
    hrack formPf pdfB cdfB ks =
      formPf * (ks.map (fun k => (1 + pdfB / cdfB * k) ^ (-(1 / 2 : ℝ)))).prod := by
  unfold hrack; rw [curvProd_eq_prod]

/-! ### 4. sign clause -/

theorem list_prod_le_one {l : List ℝ} (h : ∀ x ∈ l, 0 ≤ x ∧ x ≤ 1) : l.prod ≤ 1 := by
  induction l with
  | nil => simp
  | cons a l ih =>
    rw [List.prod_cons]
    have ha := h a (List.mem_cons_self)
    have hl : l.prod ≤ 1 := ih (fun x hx => h x (List.mem_cons_of_mem _ hx))
    calc a * l.prod ≤ a * 1 := mul_le_mul_of_nonneg_left hl ha.1
      _ = a := mul_one a
      _ ≤ 1 := ha.2

theorem one_le_list_prod {l : List ℝ} (h : ∀ x ∈ l, 1 ≤ x) : 1 ≤ l.prod := by
  induction l with
  | nil => simp
  | cons a l ih =>
    rw [List.prod_cons]
    have ha := h a (List.mem_cons_self)
    have hl : 1 ≤ l.prod := ih (fun x hx => h x (List.mem_cons_of_mem _ hx))
    calc (1 : ℝ) = 1 * 1 := (mul_one 1).symm
      _ ≤ a * l.prod := mul_le_mul ha hl zero_le_one (le_trans zero_le_one ha)

theorem curvProd_le_one (c : ℝ) (ks : List ℝ) (hc : 0 < c) (hk : ∀ k ∈ ks, 0 ≤ k) :
    curvProd c ks ≤ 1 := by
  rw [curvProd_eq_prod]
  apply list_prod_le_one
  intro x hx
  obtain ⟨k, hkm, rfl⟩ := List.mem_map.1 hx
  have h1 : (1 : ℝ) ≤ 1 + c * k := by
    have := mul_nonneg hc.le (hk k hkm); linarith
  exact ⟨Real.rpow_nonneg (le_trans zero_le_one h1) _,
    Real.rpow_le_one_of_one_le_of_nonpos h1 (by norm_num)⟩

theorem one_le_curvProd (c : ℝ) (ks : List ℝ) (hc : 0 < c) (hk : ∀ k ∈ ks, -1 / c < k ∧ k ≤ 0) :
    1 ≤ curvProd c ks := by
  rw [curvProd_eq_prod]
  apply one_le_list_prod
  intro x hx
  obtain ⟨k, hkm, rfl⟩ := List.mem_map.1 hx
  obtain ⟨hlo, hhi⟩ := hk k hkm
  have hpos : 0 < 1 + c * k := by
    have h := mul_lt_mul_of_pos_left hlo hc
    have e : c * (-1 / c) = -1 := by field_simp
    rw [e] at h; linarith
  have hle : 1 + c * k ≤ 1 := by
    have := mul_nonpos_of_nonneg_of_nonpos hc.le hhi; linarith
  exact Real.one_le_rpow_of_pos_of_le_one_of_nonpos hpos hle (by norm_num)

/-- curvature bending the surface away from the origin lowers the estimate -/
theorem C12_sign_away (c formPf : ℝ) (ks : List ℝ) (hc : 0 < c) (hpf : 0 ≤ formPf)
    (hk : ∀ k ∈ ks, 0 ≤ k) : formPf * curvProd c ks ≤ formPf := by
  calc formPf * curvProd c ks ≤ formPf * 1 :=
        mul_le_mul_of_nonneg_left (curvProd_le_one c ks hc hk) hpf
    _ = formPf := mul_one _

/-- curvature bending the surface towards the origin raises the estimate -/
theorem C12_sign_towards (c formPf : ℝ) (ks : List ℝ) (hc : 0 < c) (hpf : 0 ≤ formPf)
    (hk : ∀ k ∈ ks, -1 / c < k ∧ k ≤ 0) : formPf ≤ formPf * curvProd c ks := by
  calc formPf = formPf * 1 := (mul_one _).symm
    _ ≤ formPf * curvProd c ks := mul_le_mul_of_nonneg_left (one_le_curvProd c ks hc hk) hpf

theorem C12_sign_away_breitung (beta formPf : ℝ) (ks : List ℝ) (hb : 0 < beta) (hpf : 0 ≤ formPf)
    (hk : ∀ k ∈ ks, 0 ≤ k) : breitung beta formPf ks ≤ formPf :=
  C12_sign_away beta formPf ks hb hpf hk

theorem C12_sign_towards_breitung (beta formPf : ℝ) (ks : List ℝ) (hb : 0 < beta) (hpf : 0 ≤ formPf)
    (hk : ∀ k ∈ ks, -1 / beta < k ∧ k ≤ 0) : formPf ≤ breitung beta formPf ks :=
  C12_sign_towards beta formPf ks hb hpf hk

theorem C12_sign_away_hrack (formPf pdfB cdfB : ℝ) (ks : List ℝ) (hp : 0 < pdfB) (hcdf : 0 < cdfB)
    (hpf : 0 ≤ formPf) (hk : ∀ k ∈ ks, 0 ≤ k) : hrack formPf pdfB cdfB ks ≤ formPf :=
  C12_sign_away (pdfB / cdfB) formPf ks (div_pos hp hcdf) hpf hk

theorem C12_sign_towards_hrack (formPf pdfB cdfB : ℝ) (ks : List ℝ) (hp : 0 < pdfB) (hcdf : 0 < cdfB)
    (hpf : 0 ≤ formPf) (hk : ∀ k ∈ ks, -1 / (pdfB / cdfB) < k ∧ k ≤ 0) :
    formPf ≤ hrack formPf pdfB cdfB ks :=
  C12_sign_towards (pdfB / cdfB) formPf ks (div_pos hp hcdf) hpf hk

/-! ### 5. rotation / ordering invariance of the curvature extraction -/

section rotation
open Matrix Polynomial
variable {m : ℕ}

/-- a left inverse of a square real matrix is a right inverse -/
theorem orth_transpose_mul (R : Matrix (Fin m) (Fin m) ℝ) (h : R * Rᵀ = 1) : Rᵀ * R = 1 :=
  _root_.mul_eq_one_comm.1 h

/-- conjugating with an orthogonal matrix does not change the characteristic polynomial -/
theorem C12_similar_charpoly (R : Matrix (Fin m) (Fin m) ℝ) (h : R * Rᵀ = 1) (k : Fin m → ℝ) :
    (R * Matrix.diagonal k * Rᵀ).charpoly = (Matrix.diagonal k).charpoly := by
  rw [Matrix.charpoly_mul_comm, ← Matrix.mul_assoc, orth_transpose_mul R h, Matrix.one_mul]

/-- the leading block of the Hessian `Q diag(k,0) Qᵀ` conjugated with the orthonormal frame `H`
whose last row is the design direction, `H Q = fromBlocks R 0 0 1` -/
theorem C12_leading_block (R : Matrix (Fin m) (Fin m) ℝ) (k : Fin m → ℝ) :
    (Matrix.fromBlocks R 0 0 (1 : Matrix Unit Unit ℝ) *
        Matrix.fromBlocks (Matrix.diagonal k) 0 0 0 *
        (Matrix.fromBlocks R 0 0 (1 : Matrix Unit Unit ℝ))ᵀ).toBlocks₁₁ =
      R * Matrix.diagonal k * Rᵀ := by
  rw [Matrix.fromBlocks_transpose, Matrix.fromBlocks_multiply, Matrix.fromBlocks_multiply,
    Matrix.toBlocks_fromBlocks₁₁]
  simp only [Matrix.mul_zero, add_zero, Matrix.transpose_zero]

/-- the eigenvalues of the leading block are exactly the principal curvatures, whatever the
rotation `R` of the tangent frame -/
theorem C12_leading_block_charpoly (R : Matrix (Fin m) (Fin m) ℝ) (h : R * Rᵀ = 1) (k : Fin m → ℝ) :
    ((Matrix.fromBlocks R 0 0 (1 : Matrix Unit Unit ℝ) *
        Matrix.fromBlocks (Matrix.diagonal k) 0 0 0 *
        (Matrix.fromBlocks R 0 0 (1 : Matrix Unit Unit ℝ))ᵀ).toBlocks₁₁).charpoly =
      ∏ i, (X - C (k i)) := by
  rw [C12_leading_block, C12_similar_charpoly R h, Matrix.charpoly_diagonal]

/-- the whole conjugated Hessian is block diagonal: the design direction decouples with a zero
eigenvalue, so nothing leaks into or out of the leading block -/
theorem C12_conjugated_hessian (R : Matrix (Fin m) (Fin m) ℝ) (k : Fin m → ℝ) :
    Matrix.fromBlocks R 0 0 (1 : Matrix Unit Unit ℝ) *
        Matrix.fromBlocks (Matrix.diagonal k) 0 0 0 *
        (Matrix.fromBlocks R 0 0 (1 : Matrix Unit Unit ℝ))ᵀ =
      Matrix.fromBlocks (R * Matrix.diagonal k * Rᵀ) 0 0 0 := by
  rw [Matrix.fromBlocks_transpose, Matrix.fromBlocks_multiply, Matrix.fromBlocks_multiply]
  simp only [Matrix.mul_zero, Matrix.zero_mul, add_zero, Matrix.transpose_zero]

end rotation

/-! ### non-vacuity -/

example : breitung (2 : ℝ) (1 / 10) [0, 0] = 1 / 10 :=
  (C12_zero_curvature 2 (1 / 10) 0 1 [0, 0] (by simp)).1

example : breitung (2 : ℝ) (1 / 10) [1, 3] = breitung 2 (1 / 10) [3, 1] :=
  (C12_permutation 2 (1 / 10) 0 1 (List.Perm.swap 3 1 [])).1

example : breitung (2 : ℝ) (1 / 10) [1, 3] ≤ 1 / 10 :=
  C12_sign_away_breitung 2 (1 / 10) [1, 3] (by norm_num) (by norm_num) (by
    intro k hk; simp only [List.mem_cons, List.not_mem_nil, or_false] at hk
    rcases hk with rfl | rfl <;> norm_num)

example : (1 / 10 : ℝ) ≤ breitung 2 (1 / 10) [-(1 / 4), -(1 / 3)] :=
  C12_sign_towards_breitung 2 (1 / 10) [-(1 / 4), -(1 / 3)] (by norm_num) (by norm_num) (by
    intro k hk; simp only [List.mem_cons, List.not_mem_nil, or_false] at hk
    rcases hk with rfl | rfl <;> norm_num)

open Matrix in
/-- a concrete rotation (the 3-4-5 one) of the tangent plane: the curvatures `2, 7` are recovered -/
example :
    (!![(3 / 5 : ℝ), -(4 / 5); 4 / 5, 3 / 5] * Matrix.diagonal ![2, 7] *
        (!![(3 / 5 : ℝ), -(4 / 5); 4 / 5, 3 / 5])ᵀ).charpoly =
      ∏ i, (Polynomial.X - Polynomial.C ((![2, 7] : Fin 2 → ℝ) i)) := by
  rw [C12_similar_charpoly _ _ _, Matrix.charpoly_diagonal]
  ext i j
  fin_cases i <;> fin_cases j <;> simp [Matrix.mul_apply, Fin.sum_univ_two] <;> norm_num

end FF
