import FFVerif.Model.Sorm
