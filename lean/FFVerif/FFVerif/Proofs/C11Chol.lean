/-
C11 — the Cholesky factor and the triangular inverse used by the executable Nataf model
(`Model/Chol.lean`), at the reals:

* `chol_spec`: for a symmetric matrix whose pivots are all positive (`Chol.pivotsOK`, the condition under
  which `np.linalg.cholesky` returns), `L = cholesky n A` is lower triangular with positive diagonal and
  `L Lᵀ = A` on the `n × n` block;
* `triInv_spec`: for a lower-triangular `L` with non-zero diagonal, `X = triInv n L` is lower triangular and
  `L X = 1`; `triInv_left`: also `X L = 1`.
-/
import Mathlib.Data.Matrix.Mul
import Mathlib.LinearAlgebra.Matrix.NonsingularInverse
import Mathlib.Tactic.FieldSimp
import Mathlib.Tactic.Positivity
import FFVerif.Lemmas.LinalgReal
import FFVerif.Model.Chol
namespace FF.Chol
open FF.Linalg Finset

theorem column_real (A : Mat ℝ) (k i : Nat) :
    column A k i = if i < k then 0 else A i k / Real.sqrt (A k k) := by
  unfold column; simp

theorem step_real (n : Nat) (st : Mat ℝ × Mat ℝ) (k : Nat) :
    step n st k = (fun i j => st.1 i j - column st.1 k i * column st.1 k j,
                   fun i j => if j = k then column st.1 k i else st.2 i j) := by
  unfold step; simp

/-- the invariant of the elimination after `k` steps, on the `n × n` block -/
structure Inv (n : Nat) (A : Mat ℝ) (k : Nat) (R L : Mat ℝ) : Prop where
  symm : ∀ i j, i < n → j < n → R i j = R j i
  zeroRow : ∀ i j, i < n → j < n → i < k → R i j = 0
  decomp : ∀ i j, i < n → j < n → A i j = (∑ c ∈ range k, L i c * L j c) + R i j
  lower : ∀ i c, i < c → L i c = 0
  unfilled : ∀ i c, k ≤ c → L i c = 0
  diag : ∀ c, c < k → 0 < L c c

/-- all pivots positive, as a proposition -/
def Pivots (n : Nat) (A : Mat ℝ) : Prop := ∀ k, k < n → 0 < (run n A k).1 k k

theorem pivotsOK_iff (n : Nat) (A : Mat ℝ) : pivotsOK n A = true ↔ Pivots n A := by
  unfold pivotsOK Pivots
  simp [List.all_eq_true]

/-- the invariant after `k` steps needs the pivots below `k` only -/
theorem inv_run_upto (n : Nat) (A : Mat ℝ) (hs : ∀ i j, i < n → j < n → A i j = A j i) :
    ∀ k, k ≤ n → (∀ m, m < k → 0 < (run n A m).1 m m) → Inv n A k (run n A k).1 (run n A k).2 := by
  intro k
  induction k with
  | zero =>
    intro _ _
    refine ⟨hs, ?_, ?_, ?_, ?_, ?_⟩
    · intro i j _ _ h; omega
    · intro i j _ _; simp [run]
    · intro i c _; simp [run]
    · intro i c _; simp [run]
    · intro c h; omega
  | succ k ih =>
    intro hk hp
    have hkn : k < n := hk
    have I := ih (Nat.le_of_lt hkn) (fun m hm => hp m (by omega))
    have hpk := hp k (by omega)
    set R := (run n A k).1 with hR
    set L := (run n A k).2 with hL
    have hd : 0 < Real.sqrt (R k k) := Real.sqrt_pos.mpr hpk
    have hdd : Real.sqrt (R k k) * Real.sqrt (R k k) = R k k := Real.mul_self_sqrt hpk.le
    have hrun : run n A (k + 1) = (fun i j => R i j - column R k i * column R k j,
        fun i j => if j = k then column R k i else L i j) := by
      show step n (run n A k) k = _
      rw [step_real]
    rw [hrun]
    -- the column: zero above the pivot, `sqrt` of the pivot on it
    have colk : column R k k = Real.sqrt (R k k) := by
      rw [column_real, if_neg (lt_irrefl k)]
      rw [div_eq_iff hd.ne']
      exact hdd.symm
    have collt : ∀ i, i < k → column R k i = 0 := by
      intro i h; rw [column_real, if_pos h]
    have colge : ∀ i, k ≤ i → column R k i = R i k / Real.sqrt (R k k) := by
      intro i h; rw [column_real, if_neg (by omega)]
    refine ⟨?_, ?_, ?_, ?_, ?_, ?_⟩
    · intro i j hi hj
      show R i j - _ * _ = R j i - _ * _
      rw [I.symm i j hi hj]; ring
    · intro i j hi hj hik
      show R i j - column R k i * column R k j = 0
      rcases Nat.lt_succ_iff_lt_or_eq.mp hik with h | h
      · rw [I.zeroRow i j hi hj h, collt i h]; ring
      · subst h
        by_cases hj' : j < i
        · rw [collt j hj', I.symm i j hi hj, I.zeroRow j i hj hi hj']; ring
        · rw [colk, colge j (by omega), I.symm j i hj hi]
          field_simp
          ring
    · intro i j hi hj
      show A i j = (∑ c ∈ range (k + 1), (if c = k then column R k i else L i c) * (if c = k then column R k j else L j c))
        + (R i j - column R k i * column R k j)
      rw [Finset.sum_range_succ, if_pos rfl, if_pos rfl]
      have : ∑ c ∈ range k, (if c = k then column R k i else L i c) * (if c = k then column R k j else L j c)
          = ∑ c ∈ range k, L i c * L j c := by
        refine Finset.sum_congr rfl (fun c hc => ?_)
        have : c ≠ k := (Finset.mem_range.mp hc).ne
        rw [if_neg this, if_neg this]
      rw [this, I.decomp i j hi hj]; ring
    · intro i c hic
      show (if c = k then column R k i else L i c) = 0
      split
      · next h => subst h; exact collt i hic
      · exact I.lower i c hic
    · intro i c hc
      show (if c = k then column R k i else L i c) = 0
      rw [if_neg (by omega)]
      exact I.unfilled i c (by omega)
    · intro c hc
      show 0 < (if c = k then column R k c else L c c)
      split
      · next h => subst h; rw [colk]; exact hd
      · exact I.diag c (by omega)

theorem inv_run (n : Nat) (A : Mat ℝ) (hs : ∀ i j, i < n → j < n → A i j = A j i) (hp : Pivots n A) :
    ∀ k, k ≤ n → Inv n A k (run n A k).1 (run n A k).2 :=
  fun k hk => inv_run_upto n A hs k hk (fun m hm => hp m (by omega))

/-- **Cholesky specification.**  For a symmetric `A` with positive pivots, `L = cholesky n A` is lower
triangular, has a positive diagonal, and `Σ_c L i c · L j c = A i j` on the `n × n` block. -/
theorem chol_spec (n : Nat) (A : Mat ℝ) (hs : ∀ i j, i < n → j < n → A i j = A j i) (hp : pivotsOK n A = true) :
    (∀ i c, i < c → cholesky n A i c = 0) ∧ (∀ c, c < n → 0 < cholesky n A c c) ∧
    (∀ i j, i < n → j < n → ∑ c ∈ range n, cholesky n A i c * cholesky n A j c = A i j) := by
  have I := inv_run n A hs ((pivotsOK_iff n A).mp hp) n (le_refl n)
  refine ⟨I.lower, I.diag, ?_⟩
  intro i j hi hj
  have := I.decomp i j hi hj
  rw [I.zeroRow i j hi hj hi, add_zero] at this
  exact this.symm

/-- non-vacuity: the 2×2 correlation matrix with ρ = 1/2 has positive pivots (1 and 3/4) -/
example : Pivots 2 (fun i j => if i = j then (1 : ℝ) else 1 / 2) := by
  intro k hk
  have h2 : k = 0 ∨ k = 1 := by omega
  rcases h2 with rfl | rfl
  · simp [run]
  · simp [run, step_real, column_real]
    norm_num

/-! ### inverse of a lower-triangular matrix -/

theorem invRows_succ (n : Nat) (L : Mat ℝ) (i : Nat) :
    (invRows n L (i + 1)).1 = fun r j => if r = i then
      ((if i = j then 1 else 0) - ∑ k ∈ range i, L i k * (invRows n L i).1 k j) / L i i
      else (invRows n L i).1 r j := by
  funext r j
  simp only [invRows, ofArr_mkArr, fsum_real, one_real, zero_real]

/-- row `r` once it has been filled -/
noncomputable def rowOf (n : Nat) (L : Mat ℝ) (r j : Nat) : ℝ := (invRows n L (r + 1)).1 r j

theorem invRows_stable (n : Nat) (L : Mat ℝ) (r j : Nat) :
    ∀ m, r < m → (invRows n L m).1 r j = rowOf n L r j := by
  intro m hm
  induction m with
  | zero => omega
  | succ m ih =>
    rcases Nat.lt_succ_iff_lt_or_eq.mp hm with h | h
    · rw [invRows_succ]
      show (if r = m then _ else (invRows n L m).1 r j) = _
      rw [if_neg (by omega)]
      exact ih h
    · subst h; rfl

theorem rowOf_eq (n : Nat) (L : Mat ℝ) (r j : Nat) :
    rowOf n L r j = ((if r = j then 1 else 0) - ∑ k ∈ range r, L r k * rowOf n L k j) / L r r := by
  unfold rowOf
  rw [invRows_succ]
  show (if r = r then _ else _) = _
  rw [if_pos rfl]
  congr 2
  refine Finset.sum_congr rfl (fun k hk => ?_)
  rw [invRows_stable n L k j r (Finset.mem_range.mp hk)]
  rfl

theorem triInv_eq (n : Nat) (L : Mat ℝ) (r j : Nat) (hr : r < n) : triInv n L r j = rowOf n L r j := by
  unfold triInv
  exact invRows_stable n L r j n hr

/-- the inverse of a lower-triangular matrix is lower triangular -/
theorem rowOf_lower (n : Nat) (L : Mat ℝ) : ∀ r j, r < j → rowOf n L r j = 0 := by
  intro r
  induction r using Nat.strong_induction_on with
  | _ r ih =>
    intro j hj
    rw [rowOf_eq, if_neg (by omega)]
    have : ∑ k ∈ range r, L r k * rowOf n L k j = 0 := by
      refine Finset.sum_eq_zero (fun k hk => ?_)
      have hk' := Finset.mem_range.mp hk
      rw [ih k hk' j (by omega)]; ring
    rw [this]; simp

/-- **`L X = 1`** on the `n × n` block, for lower-triangular `L` with non-zero diagonal -/
theorem triInv_spec (n : Nat) (L : Mat ℝ) (hl : ∀ i c, i < c → L i c = 0) (hd : ∀ c, c < n → L c c ≠ 0) :
    ∀ i j, i < n → j < n → ∑ k ∈ range n, L i k * triInv n L k j = if i = j then 1 else 0 := by
  intro i j hi hj
  have h1 : ∑ k ∈ range n, L i k * triInv n L k j = ∑ k ∈ range n, L i k * rowOf n L k j := by
    refine Finset.sum_congr rfl (fun k hk => ?_)
    rw [triInv_eq n L k j (Finset.mem_range.mp hk)]
  rw [h1]
  -- only k ≤ i contribute
  have h2 : ∑ k ∈ range n, L i k * rowOf n L k j = ∑ k ∈ range (i + 1), L i k * rowOf n L k j := by
    symm
    apply Finset.sum_subset
    · intro k hk; simp only [Finset.mem_range] at *; omega
    · intro k _ hk
      simp only [Finset.mem_range, not_lt] at hk
      rw [hl i k (by omega)]; ring
  rw [h2, Finset.sum_range_succ]
  have h3 := rowOf_eq n L i j
  have hdi := hd i hi
  rw [h3]
  field_simp
  ring

/-- conversion to Mathlib matrices -/
noncomputable def toMatrix (n : Nat) (M : Mat ℝ) : Matrix (Fin n) (Fin n) ℝ := Matrix.of (fun i j => M i.val j.val)

theorem toMatrix_mul_eq_one_iff (n : Nat) (A B : Mat ℝ) :
    toMatrix n A * toMatrix n B = 1 ↔
      ∀ i j, i < n → j < n → ∑ k ∈ range n, A i k * B k j = if i = j then 1 else 0 := by
  constructor
  · intro h i j hi hj
    have := congrFun (congrFun h ⟨i, hi⟩) ⟨j, hj⟩
    simp only [Matrix.mul_apply, toMatrix, Matrix.of_apply, Matrix.one_apply, Fin.mk.injEq] at this
    rw [← this, Finset.sum_range]
  · intro h
    ext i j
    simp only [Matrix.mul_apply, toMatrix, Matrix.of_apply, Matrix.one_apply]
    rw [← Finset.sum_range (fun k => A i k * B k j), h i j i.isLt j.isLt]
    simp [Fin.ext_iff]

/-- **`X L = 1`** as well -/
theorem triInv_left (n : Nat) (L : Mat ℝ) (hl : ∀ i c, i < c → L i c = 0) (hd : ∀ c, c < n → L c c ≠ 0) :
    ∀ i j, i < n → j < n → ∑ k ∈ range n, triInv n L i k * L k j = if i = j then 1 else 0 := by
  have h := (toMatrix_mul_eq_one_iff n L (triInv n L)).mpr (triInv_spec n L hl hd)
  exact (toMatrix_mul_eq_one_iff n (triInv n L) L).mp (_root_.mul_eq_one_comm.mp h)

/-- the two factors the Nataf model is built from: `L Lᵀ = rhoZ`, `L L⁻¹ = L⁻¹ L = 1` -/
theorem chol_triInv (n : Nat) (A : Mat ℝ) (hs : ∀ i j, i < n → j < n → A i j = A j i) (hp : pivotsOK n A = true) :
    (∀ i j, i < n → j < n → ∑ k ∈ range n, cholesky n A i k * triInv n (cholesky n A) k j = if i = j then 1 else 0) ∧
    (∀ i j, i < n → j < n → ∑ k ∈ range n, triInv n (cholesky n A) i k * cholesky n A k j = if i = j then 1 else 0) := by
  obtain ⟨hl, hd, _⟩ := chol_spec n A hs hp
  exact ⟨triInv_spec n _ hl (fun c hc => (hd c hc).ne'), triInv_left n _ hl (fun c hc => (hd c hc).ne')⟩

end FF.Chol
