/-
The definitions REGENERATED from the numpy vector expressions of the source (`Gen/VecFormulas.lean`, written by
harness/translate_vec.py on every run) are the hand-written models the property theorems are about — for EVERY
scalar instance (the equalities are structural: a product over `List.map` is a fold), so also for the `Float`
instance the driver evaluates against the implementation.  A change of an operand, sign, exponent or argument in
the source changes the generated text and breaks one of these equalities.

* `breitungPf_eq`, `tvedtPf_eq`, `hrackPf_eq`  — rrm/secondOrderReliabilityMethod.py (C12);
* `fosmBeta_eq`                                — rrm/firstOrderSecondMoment.py (C10);
* `naiveDamage_eq`                             — fdm/minerModel.py (C08).
-/
import FFVerif.Gen.VecFormulas
import FFVerif.Model.Sorm
import FFVerif.Model.Miner
import FFVerif.Model.Form
namespace FF.Gen
section
variable {α : Type} [Transc α]

theorem prod_map_eq_curvProd (c : α) (ks : List α) :
    Vecs.prod (ks.map (fun x => Transc.rpow (Transc.lit 1 0 + c * x) (-(Transc.lit 5 1)))) = Sorm.curvProd c ks := by
  unfold Vecs.prod Sorm.curvProd Sorm.one Sorm.negHalf
  rw [List.foldl_map]

theorem breitungPf_eq (cdf pdf : α → α) (beta : α) (ks : List α) :
    breitungPf cdf pdf beta ks = Sorm.breitung beta (cdf (-(Transc.lit 1 0) * beta)) ks := by
  unfold breitungPf Sorm.breitung
  simp only [prod_map_eq_curvProd]

theorem hrackPf_eq (cdf pdf : α → α) (beta : α) (ks : List α) :
    hrackPf cdf pdf beta ks = Sorm.hrack (cdf (-(Transc.lit 1 0) * beta)) (pdf beta) (cdf beta) ks := by
  unfold hrackPf Sorm.hrack
  simp only [prod_map_eq_curvProd]

theorem tvedtPf_eq (cdf pdf : α → α) (beta : α) (ks : List α) :
    tvedtPf cdf pdf beta ks = Sorm.tvedt beta (cdf (-(Transc.lit 1 0) * beta)) (pdf beta) ks := by
  unfold tvedtPf Sorm.tvedt
  simp only [prod_map_eq_curvProd]
  rfl

theorem naiveDamage_eq (rows : List (α × α)) : naiveDamage rows = Miner.naive rows := rfl

theorem foldl_zip_sq (a s : Nat → α) : ∀ (l : List Nat) (acc : α),
    ((((l.map a).zip (l.map s)).map (fun p => p.1 * p.2)).map (fun x => x * x)).foldl (· + ·) acc
      = l.foldl (fun acc i => acc + (a i * s i) * (a i * s i)) acc := by
  intro l
  induction l with
  | nil => intro acc; rfl
  | cons i t ih =>
    intro acc
    simp only [List.map_cons, List.zip_cons_cons, List.foldl_cons]
    exact ih _

/-- the generated `beta` of `mvalFOSM`, on the gradient and the standard deviations listed over `0 .. n-1`, is the
model `Form.fosm` -/
theorem fosmBeta_eq (cdf : α → α) (n : Nat) (g : (Nat → α) → α) (dg : (Nat → α) → Nat → α) (mus sigmas : Nat → α) :
    fosmBeta cdf (g mus) ((List.range n).map (dg mus)) ((List.range n).map sigmas) = Form.fosm n g dg mus sigmas := by
  unfold fosmBeta Form.fosm Vecs.sum Linalg.fsum Linalg.zero
  simp only [foldl_zip_sq]

end
end FF.Gen
