/-
C15 — property theorems about the seeding contract (state machine `FF.Seed`), over all operation
sequences and all prior generator states.  The implementation is tied to the machine by protocol
conformance of its observed `np.random.seed` / draw events, and by black-box replay.
-/
import FFVerif.Model.Seed
namespace FF
open Seed

theorem runEvents_draws_seeded (n : Nat) : ∀ (k p : Nat) (s : State), s.gen = .seeded n p →
    (runEvents s (List.replicate k .draw)).2 = (List.range k).map (fun i => Gen.seeded n (p + i)) ∧
    (runEvents s (List.replicate k .draw)).1.gen = .seeded n (p + k) ∧
    (runEvents s (List.replicate k .draw)).1.fresh = s.fresh
  | 0, p, s, h => by simp [runEvents, h]
  | k + 1, p, s, h => by
    have ih := runEvents_draws_seeded n k (p + 1) { s with gen := .seeded n (p + 1) } rfl
    simp only [List.replicate_succ, runEvents, stepEvent, h]
    refine ⟨?_, ?_, ?_⟩
    · rw [ih.1, List.range_succ_eq_map]
      simp [Nat.add_assoc, Nat.add_comm 1]
    · rw [ih.2.1]; congr 1; omega
    · rw [ih.2.2]

/-- (i) a call with an integer seed consumes exactly the first draws of that seed's stream, whatever
the generator state was before -/
theorem C15_seeded_call (n k : Nat) (s : State) :
    (runOp s (.api (.int n) k)).2 = (List.range k).map (fun i => Gen.seeded n i) := by
  unfold runOp
  simp only [Op.events, runEvents, stepEvent, List.nil_append]
  have := (runEvents_draws_seeded n k 0 { s with gen := .seeded n 0 } rfl).1
  simpa using this

/-- … hence two calls with the same integer seed return identical output for any two prior states -/
theorem C15_reproducible (n k : Nat) (s s' : State) :
    (runOp s (.api (.int n) k)).2 = (runOp s' (.api (.int n) k)).2 := by
  rw [C15_seeded_call, C15_seeded_call]

/-- operations that pass no integer seed -/
def unseeded : Op → Bool
  | .api (.int _) _ => false
  | .construct (.int _) => false
  | .setSeed _ => false
  | _ => true

/-- number of draws an un-seeded operation makes -/
def opDraws : Op → Nat
  | .api _ k => k
  | _ => 0

theorem runOp_unseeded_seeded (n : Nat) (op : Op) (hu : unseeded op = true) (p : Nat) (s : State)
    (h : s.gen = .seeded n p) :
    (runOp s op).2 = (List.range (opDraws op)).map (fun i => Gen.seeded n (p + i)) ∧
      (runOp s op).1.gen = .seeded n (p + opDraws op) := by
  cases op with
  | setSeed x => simp [unseeded] at hu
  | api arg k =>
    cases arg with
    | int m => simp [unseeded] at hu
    | none =>
      have := runEvents_draws_seeded n k p s h
      simp only [runOp, Op.events, opDraws]; exact ⟨this.1, this.2.1⟩
    | other =>
      have := runEvents_draws_seeded n k p s h
      simp only [runOp, Op.events, opDraws]; exact ⟨this.1, this.2.1⟩
  | construct arg =>
    cases arg with
    | int m => simp [unseeded] at hu
    | none => simp [runOp, Op.events, runEvents, opDraws, h]
    | other => simp [runOp, Op.events, runEvents, opDraws, h]

/-- the draws of an unseeded sequence started from `seeded n p` depend only on `n`, `p` and the sequence -/
theorem runOps_unseeded_det (n : Nat) : ∀ (ops : List Op), (∀ op ∈ ops, unseeded op = true) →
    ∀ (p : Nat) (s s' : State), s.gen = .seeded n p → s'.gen = .seeded n p →
      (runOps s ops).2 = (runOps s' ops).2
  | [], _, _, _, _, _, _ => rfl
  | op :: ops, hu, p, s, s', h, h' => by
    obtain ⟨e1, g1⟩ := runOp_unseeded_seeded n op (hu op (by simp)) p s h
    obtain ⟨e1', g1'⟩ := runOp_unseeded_seeded n op (hu op (by simp)) p s' h'
    simp only [runOps]
    rw [e1, e1']
    congr 1
    exact runOps_unseeded_det n ops (fun o ho => hu o (List.mem_cons_of_mem _ ho)) (p + opDraws op) _ _ g1 g1'

/-- (ii) after `globalConfig.setSeed( n )`, the outputs of any sequence of calls that pass no integer
seed are a function of `n` and the sequence only — not of the generator state before `setSeed` -/
theorem C15_global_seed_governs (n : Nat) (ops : List Op) (hu : ∀ op ∈ ops, unseeded op = true)
    (s s' : State) :
    (runOps s (.setSeed (some n) :: ops)).2 = (runOps s' (.setSeed (some n) :: ops)).2 := by
  simp only [runOps, runOp, Op.events, runEvents, stepEvent, List.append_nil]
  congr 1
  exact runOps_unseeded_det n ops hu 0 _ _ rfl rfl

/-- (iii) constructing a randomised object without an integer seed never disturbs the generator -/
theorem C15_construct_inert (arg : SeedArg) (h : ∀ n, arg ≠ .int n) (s : State) :
    runOp s (.construct arg) = (s, []) := by
  cases arg with
  | int n => exact absurd rfl (h n)
  | none => rfl
  | other => rfl

-- the defect this check found (every un-seeded call re-seeding from entropy) does NOT satisfy (ii):
-- after `seed none` the stream is a fresh entropy stream, different for different prior states
example : (stepEvent ⟨.seeded 3 0, 0⟩ (.seed none)).1.gen ≠ (stepEvent ⟨.seeded 3 0, 1⟩ (.seed none)).1.gen := by
  decide

end FF
