/-
C06 — property theorems: Rychlik and Johannesson cycles follow their per-peak definition.
`rychlik`, `johannesson` are the code-shaped models (tied to the Python by exact correspondence).
Proved here: one whole cycle per interior local maximum of the history with that maximum as top;
the bottoms are the per-side minima on the reversal sequence, the Rychlik bottom being the higher
of the two sides (= the smaller of the two Johannesson ranges) when the top is unique.
The raw-history form of the Johannesson bottom (lowest value since the history was last at or
above M, on the de-plateaued samples) is `C06_johannesson_bottoms` in Lemmas/JoBottom.lean.
NOT proved (kept as statements, decided by the exhaustive small-scope test in the check):
`C06.RainflowEqStatement` (Rychlik's theorem with ties) and the raw-history form of the Rychlik bottom.
-/
import FFVerif.Lemmas.Census2
import FFVerif.Lemmas.PeakSpec
import FFVerif.Props.C06
import FFVerif.Lemmas.JoBottom
namespace FF
open C05 C06

/-- interior strict local maxima of a list, in order -/
def maximaOf : List Int → List Int
  | a :: b :: c :: rest => (if a < b ∧ b > c then [b] else []) ++ maximaOf (b :: c :: rest)
  | _ => []

theorem peaksGo_tops (f : List Int → Int → List Int → Option Cyc)
    (hf : ∀ l m r, ∃ c, f l m r = some c ∧ c.b = m) :
    ∀ (left right : List Int) (p : Int) (l : List Int), left = p :: l →
      (peaksGo f left right).map (·.b) = maximaOf (p :: right)
  | _, [], p, l, rfl => by simp [peaksGo, maximaOf]
  | _, [_], p, l, rfl => by simp [peaksGo, maximaOf]
  | _, cur :: next :: rest, p, l, rfl => by
    have ih := peaksGo_tops f hf (cur :: p :: l) (next :: rest) cur (p :: l) rfl
    obtain ⟨c, hc, hb⟩ := hf (p :: l) cur (next :: rest)
    simp only [peaksGo, maximaOf]
    by_cases hk : cur > p ∧ cur > next
    · have hk' : p < cur ∧ cur > next := ⟨hk.1, hk.2⟩
      rw [if_pos hk, if_pos hk', hc]
      simp [ih, hb]
    · have hk' : ¬ (p < cur ∧ cur > next) := fun h => hk ⟨h.1, h.2⟩
      rw [if_neg hk, if_neg hk']
      simp [ih]

theorem peaksGo_tops_nil (f : List Int → Int → List Int → Option Cyc)
    (hf : ∀ l m r, ∃ c, f l m r = some c ∧ c.b = m) (R : List Int) :
    (peaksGo f [] R).map (·.b) = maximaOf R := by
  match R with
  | [] => simp [peaksGo, maximaOf]
  | [_] => simp [peaksGo, maximaOf]
  | cur :: next :: rest =>
    rw [peaksGo]
    exact peaksGo_tops f hf [cur] (next :: rest) cur [] rfl

/-- maxima of the reversal sequence = maxima of the de-plateaued history (via the peak-count theorem
with a reference below every value) -/
theorem maximaOf_eq_extrema (ref : Int) : ∀ l : List Int, (∀ x ∈ l, ref ≤ x) → maximaOf l = extremaSpec ref l
  | [], _ => rfl
  | [_], _ => rfl
  | [_, _], _ => rfl
  | a :: b :: c :: rest, h => by
    have hb : ref ≤ b := h b (by simp)
    have ih := maximaOf_eq_extrema ref (b :: c :: rest) (fun x hx => h x (List.mem_cons_of_mem _ hx))
    simp only [maximaOf, extremaSpec, ih]
    congr 1
    by_cases hk : a < b ∧ b > c
    · rw [if_pos hk, if_pos (Or.inl ⟨hk.1, hk.2, hb⟩)]
    · rw [if_neg hk, if_neg (by omega)]

theorem peakGo_eq_maxima (ref : Int) : ∀ l : List Int, (∀ x ∈ l, ref ≤ x) → peakGo ref l = maximaOf l
  | [], _ => rfl
  | [_], _ => rfl
  | [_, _], _ => rfl
  | a :: b :: c :: rest, h => by
    have hb : ref ≤ b := h b (by simp)
    have ih := peakGo_eq_maxima ref (b :: c :: rest) (fun x hx => h x (List.mem_cons_of_mem _ hx))
    simp only [peakGo, maximaOf, ih]
    by_cases hk : a < b ∧ b > c
    · rw [if_pos hk, if_pos (Or.inl ⟨hk.1, hk.2, hb⟩)]; rfl
    · rw [if_neg hk, if_neg (by omega)]; rfl

theorem dedup_sub : ∀ l : List Int, ∀ x ∈ dedup l, x ∈ l
  | [], x, h => by simp [dedup] at h
  | [_], x, h => by simpa [dedup] using h
  | a :: b :: rest, x, h => by
    by_cases e : a = b
    · subst e; rw [dedup_cons_eq] at h
      exact List.mem_cons_of_mem _ (dedup_sub (a :: rest) x h)
    · rw [dedup_cons_ne a b rest e] at h
      rcases List.mem_cons.mp h with rfl | h
      · simp
      · exact List.mem_cons_of_mem _ (dedup_sub (b :: rest) x h)

/-- the tops of the reversal-sequence maxima are the local maxima of the de-plateaued history -/
theorem maxima_pv_eq_maxima_dedup (h : List Int) : maximaOf (pv true h) = maximaOf (dedup h) := by
  have h1 : ∀ x ∈ pv true h, listMin h ≤ x := fun x hx => listMin_le ((pv_sublist true h).subset hx)
  have h2 : ∀ x ∈ dedup h, listMin h ≤ x := fun x hx => listMin_le (dedup_sub h x hx)
  rw [← peakGo_eq_maxima (listMin h) _ h1, maximaOf_eq_extrema (listMin h) _ h2]
  exact peakSeq_eq_extrema h (listMin h)

theorem peaksCtx_tops : ∀ (left right : List Int) (p : Int) (l : List Int), left = p :: l →
    (peaksCtx left right).map (·.2.1) = maximaOf (p :: right)
  | _, [], p, l, rfl => by simp [peaksCtx, maximaOf]
  | _, [_], p, l, rfl => by simp [peaksCtx, maximaOf]
  | _, cur :: next :: rest, p, l, rfl => by
    have ih := peaksCtx_tops (cur :: p :: l) (next :: rest) cur (p :: l) rfl
    simp only [peaksCtx, maximaOf, List.map_append, ih]
    congr 1
    by_cases hk : cur > p ∧ cur > next
    · rw [if_pos hk, if_pos ⟨hk.1, hk.2⟩]; rfl
    · rw [if_neg hk, if_neg (fun h => hk ⟨h.1, h.2⟩)]; rfl

theorem peaksOf_tops (h : List Int) : (peaksOf h).map (·.2.1) = maximaOf (dedup h) := by
  unfold peaksOf
  match dedup h with
  | [] => simp [peaksCtx, maximaOf]
  | [_] => simp [peaksCtx, maximaOf]
  | cur :: next :: rest =>
    rw [peaksCtx]
    exact peaksCtx_tops [cur] (next :: rest) cur [] rfl

/-- each interior local maximum yields exactly one (whole) Rychlik cycle whose top is that maximum -/
theorem C06_rychlik_tops (h : List Int) : topsOK h (rychlik h) = true := by
  simp only [topsOK, Bool.and_eq_true, beq_iff_eq, List.all_eq_true, Bool.not_eq_true']
  refine ⟨?_, ?_⟩
  · rw [peaksOf_tops, ← maxima_pv_eq_maxima_dedup]
    exact peaksGo_tops_nil _ (fun l m r => ⟨_, rfl, rfl⟩) _
  · intro c hc
    exact ((peaksGo_good _ rychlik_fn [] (pv true h)) c hc).2

theorem C06_johannesson_tops (h : List Int) : topsOK h (johannesson h) = true := by
  simp only [topsOK, Bool.and_eq_true, beq_iff_eq, List.all_eq_true, Bool.not_eq_true']
  refine ⟨?_, ?_⟩
  · rw [peaksOf_tops, ← maxima_pv_eq_maxima_dedup]
    exact peaksGo_tops_nil _ (fun l m r => ⟨_, rfl, rfl⟩) _
  · intro c hc
    exact ((peaksGo_good _ johannesson_fn [] (pv true h)) c hc).2

/-- with a unique top the two scans stop at the same place: `≤` and `<` agree on lists without `M` -/
theorem scanMinLe_eq_scanMin (M : Int) (side : List Int) (hu : M ∉ side) : scanMinLe M side = scanMin M side := by
  match side with
  | [] => rfl
  | [x] => rfl
  | x :: y :: rest =>
    simp only [scanMinLe, scanMin]
    congr 1
    have hu' : M ∉ y :: rest := fun hm => hu (List.mem_cons_of_mem _ hm)
    generalize y :: rest = t at hu'
    induction t with
    | nil => rfl
    | cons z t ih =>
      have hz : z ≠ M := fun e => hu' (e ▸ List.mem_cons_self)
      have ht : M ∉ t := fun hm => hu' (List.mem_cons_of_mem _ hm)
      have e : decide (z ≤ M) = decide (z < M) := by simp only [decide_eq_decide]; omega
      simp only [List.takeWhile_cons, e, ih ht]

/-- Rychlik bottom = the higher of the left minimum (the Johannesson bottom) and its mirror image
on the right, on the reversal sequence, whenever no later reversal equals the top.  Hence the
Rychlik range is the smaller of the two one-sided (Johannesson) ranges. -/
theorem C06_rychlik_bottom_partial (l : List Int) (M : Int) (r : List Int) (hu : M ∉ r) :
    (⟨max (scanMin M l) (scanMinLe M r), M, false⟩ : Cyc) = ⟨max (scanMin M l) (scanMin M r), M, false⟩ := by
  rw [scanMinLe_eq_scanMin M r hu]

/-- the statement of the last clause (Rychlik's theorem, ties included) — not proved; decided by the
small-scope exhaustive test and recorded as such in the evidence -/
def C06.RainflowEqStatement : Prop :=
  ∀ h : List Int, closedAtMin h = true → isConstant h = false → table (rychlik h) = table (rainflow h)

-- witnesses: the repaired equal-height case, and what the unrepaired right scan gave
example : rychlik [0, 2, 1, 2, 0] = [⟨0, 2, false⟩, ⟨1, 2, false⟩] := by
  simp [rychlik, pv, pvGo, peaksGo, scanMin, scanMinLe]; decide
example : table (rychlik [0, 2, 1, 2, 0]) = table (rainflow [0, 2, 1, 2, 0]) := by
  simp [rychlik, rainflow, pv, pvGo, peaksGo, scanMin, scanMinLe, implGo, rng, halves, table, tblAdd, Cyc.range, Cyc.units]; decide

end FF
