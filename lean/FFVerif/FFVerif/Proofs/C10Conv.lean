/-
C10 — convergence of the one-variable HL-RF iteration (= Newton's iteration, `C10Newton`) for a convex, increasing
limit state in the standard variable.

Pure real analysis first (`newton_ge_root`, `newton_le_self`, `newton_antitone`, `newton_tendsto_root`): if `G` is convex and
differentiable with `G' > 0` and `G r = 0`, then from ANY start the Newton iterates are `≥ r` after one step, decrease from then on, and
(for continuous `G'`) converge to `r`.  Then the bridge to the executable model: the `u`-coordinates of the iterates of `Form.step` in
one variable are exactly these Newton iterates (`C10c_model_iterates`), hence converge to the root of `G = g ∘ T`
(`C10c_hlrf_1d_converges`) — e.g. `g = x − c` for a lognormal `x = exp( m + s u )` is convex and increasing in `u`.
-/
import Mathlib.Analysis.Convex.Deriv
import Mathlib.Topology.Order.MonotoneConvergence
import Mathlib.Topology.Algebra.Order.Field
import FFVerif.Proofs.C10Newton
namespace FF.Form
open Set Filter Topology

section Abstract
variable (G G' : ℝ → ℝ)

/-- one Newton step -/
noncomputable def newton (u : ℝ) : ℝ := u - G u / G' u

variable {G G'}

/-- tangent lines lie below a convex function: every Newton step lands at or above the root -/
theorem newton_ge_root (hc : ConvexOn ℝ univ G) (hd : ∀ u, HasDerivAt G (G' u) u) (hpos : ∀ u, 0 < G' u)
    {r : ℝ} (hr : G r = 0) (u : ℝ) : r ≤ newton G G' u := by
  unfold newton
  rcases lt_trichotomy u r with h | h | h
  · have := hc.le_slope_of_hasDerivAt (mem_univ u) (mem_univ r) h (hd u)
    rw [slope_def_field, hr, zero_sub, le_div_iff₀ (sub_pos.mpr h)] at this
    have h2 : r - u ≤ -G u / G' u := by rw [le_div_iff₀ (hpos u)]; linarith
    have : -G u / G' u = -(G u / G' u) := neg_div _ _
    linarith
  · subst h; rw [hr]; simp
  · have := hc.slope_le_of_hasDerivAt (mem_univ r) (mem_univ u) h (hd u)
    rw [slope_def_field, hr, sub_zero, div_le_iff₀ (sub_pos.mpr h)] at this
    have h2 : G u / G' u ≤ u - r := by rw [div_le_iff₀ (hpos u)]; linarith
    linarith

/-- `G` is non-negative to the right of its root -/
theorem nonneg_right_of_root (hc : ConvexOn ℝ univ G) (hd : ∀ u, HasDerivAt G (G' u) u) (hpos : ∀ u, 0 < G' u)
    {r : ℝ} (hr : G r = 0) {u : ℝ} (hu : r ≤ u) : 0 ≤ G u := by
  rcases hu.lt_or_eq with h | h
  · have := hc.le_slope_of_hasDerivAt (mem_univ r) (mem_univ u) h (hd r)
    rw [slope_def_field, hr, sub_zero, le_div_iff₀ (sub_pos.mpr h)] at this
    have := mul_pos (hpos r) (sub_pos.mpr h)
    linarith
  · rw [← h, hr]

/-- at or above the root a Newton step does not move to the right -/
theorem newton_le_self (hc : ConvexOn ℝ univ G) (hd : ∀ u, HasDerivAt G (G' u) u) (hpos : ∀ u, 0 < G' u)
    {r : ℝ} (hr : G r = 0) {u : ℝ} (hu : r ≤ u) : newton G G' u ≤ u := by
  unfold newton
  have := div_nonneg (nonneg_right_of_root hc hd hpos hr hu) (hpos u).le
  linarith

/-- the iterates after the first step: all at or above the root, decreasing -/
theorem newton_iter_ge (hc : ConvexOn ℝ univ G) (hd : ∀ u, HasDerivAt G (G' u) u) (hpos : ∀ u, 0 < G' u)
    {r : ℝ} (hr : G r = 0) (u0 : ℝ) (k : ℕ) : r ≤ (newton G G')^[k + 1] u0 := by
  rw [Function.iterate_succ_apply']
  exact newton_ge_root hc hd hpos hr _

theorem newton_antitone (hc : ConvexOn ℝ univ G) (hd : ∀ u, HasDerivAt G (G' u) u) (hpos : ∀ u, 0 < G' u)
    {r : ℝ} (hr : G r = 0) (u0 : ℝ) : Antitone (fun k => (newton G G')^[k + 1] u0) := by
  apply antitone_nat_of_succ_le
  intro k
  show (newton G G')^[k + 1 + 1] u0 ≤ (newton G G')^[k + 1] u0
  rw [Function.iterate_succ_apply' (newton G G') (k + 1)]
  exact newton_le_self hc hd hpos hr (newton_iter_ge hc hd hpos hr u0 k)

/-- **convergence to the root from any start** -/
theorem newton_tendsto_root (hc : ConvexOn ℝ univ G) (hd : ∀ u, HasDerivAt G (G' u) u) (hpos : ∀ u, 0 < G' u)
    (hcont : Continuous G') {r : ℝ} (hr : G r = 0) (u0 : ℝ) :
    Tendsto (fun k => (newton G G')^[k] u0) atTop (𝓝 r) := by
  have hanti := newton_antitone hc hd hpos hr u0
  have hbdd : BddBelow (range (fun k => (newton G G')^[k + 1] u0)) :=
    ⟨r, by rintro _ ⟨k, rfl⟩; exact newton_iter_ge hc hd hpos hr u0 k⟩
  set L := ⨅ k, (newton G G')^[k + 1] u0 with hL
  have hlim : Tendsto (fun k => (newton G G')^[k + 1] u0) atTop (𝓝 L) := tendsto_atTop_ciInf hanti hbdd
  have hLr : r ≤ L := le_ciInf (fun k => newton_iter_ge hc hd hpos hr u0 k)
  -- the Newton map is continuous, so the limit is a fixed point
  have hGc : Continuous G := continuous_iff_continuousAt.mpr (fun u => (hd u).continuousAt)
  have hNc : Continuous (newton G G') := by
    unfold newton
    exact continuous_id.sub (hGc.div hcont (fun u => (hpos u).ne'))
  have hlim2 : Tendsto (fun k => (newton G G')^[k + 1 + 1] u0) atTop (𝓝 (newton G G' L)) := by
    have := (hNc.tendsto L).comp hlim
    refine this.congr (fun k => ?_)
    simp only [Function.comp]
    rw [Function.iterate_succ_apply' (newton G G') (k + 1)]
  have hlim3 : Tendsto (fun k => (newton G G')^[k + 1 + 1] u0) atTop (𝓝 L) :=
    hlim.comp (tendsto_add_atTop_nat 1)
  have hfix : newton G G' L = L := tendsto_nhds_unique hlim2 hlim3
  have hGL : G L = 0 := by
    unfold newton at hfix
    have : G L / G' L = 0 := by linarith
    rcases div_eq_zero_iff.mp this with h | h
    · exact h
    · exact absurd h (hpos L).ne'
  have hLeq : L = r := by
    rcases hLr.lt_or_eq with h | h
    · -- G is positive strictly to the right of the root
      have := hc.le_slope_of_hasDerivAt (mem_univ r) (mem_univ L) h (hd r)
      rw [slope_def_field, hr, sub_zero, le_div_iff₀ (sub_pos.mpr h), hGL] at this
      have := mul_pos (hpos r) (sub_pos.mpr h)
      linarith
    · exact h.symm
  rw [← hLeq]
  exact (tendsto_add_atTop_iff_nat 1).mp hlim

end Abstract

/-! ### bridge to the executable model in one variable -/
open FF.Linalg FF.Nataf Finset

/-- in one variable the map `getX` reads only `u 0` -/
theorem getX_1d (T : Model ℝ) (h1 : T.dim = 1) (u : Vec ℝ) : getX T u = getX T (fun _ => u 0) := by
  funext d
  unfold getX
  rw [mulVec_real, mulVec_real, h1]
  simp

/-- the limit state and its pulled-back derivative as functions of the one standard variable -/
noncomputable def G1 (T : Model ℝ) (g : Vec ℝ → ℝ) (a : ℝ) : ℝ := g (getX T (fun _ => a))
noncomputable def G1' (T : Model ℝ) (dg : Vec ℝ → Vec ℝ) (a : ℝ) : ℝ := G' T dg (fun _ => a)

theorem G'_1d (T : Model ℝ) (h1 : T.dim = 1) (dg : Vec ℝ → Vec ℝ) (u : Vec ℝ) : G' T dg u = G1' T dg (u 0) := by
  unfold G1' G'
  rw [getX_1d T h1 u]

/-- one step of the model moves `u 0` by one Newton step of `( G1, G1' )` -/
theorem step_1d_newton (T : Model ℝ) (h1 : T.dim = 1) (hL : T.L 0 0 = 1) (g : Vec ℝ → ℝ) (dg : Vec ℝ → Vec ℝ)
    (hne : ∀ a, G1' T dg a ≠ 0) (u : Vec ℝ) :
    (step T g dg u).u 0 = newton (G1 T g) (G1' T dg) (u 0) := by
  rw [C10m_newton_1d T h1 hL g dg u (by rw [G'_1d T h1]; exact hne _), G'_1d T h1]
  unfold newton G1
  rw [getX_1d T h1 u]

/-- the `u`-coordinates of the iterates of the loop body ARE the Newton iterates -/
theorem C10c_model_iterates (T : Model ℝ) (h1 : T.dim = 1) (hL : T.L 0 0 = 1) (g : Vec ℝ → ℝ) (dg : Vec ℝ → Vec ℝ)
    (hne : ∀ a, G1' T dg a ≠ 0) (u0 : Vec ℝ) (k : ℕ) :
    ((fun u => (step T g dg u).u)^[k] u0) 0 = (newton (G1 T g) (G1' T dg))^[k] (u0 0) := by
  induction k with
  | zero => rfl
  | succ k ih =>
    rw [Function.iterate_succ_apply', Function.iterate_succ_apply', step_1d_newton T h1 hL g dg hne, ih]

/-- **one variable, convex increasing limit state in the standard variable: the iterates of the model converge to the root** -/
theorem C10c_hlrf_1d_converges (T : Model ℝ) (h1 : T.dim = 1) (hL : T.L 0 0 = 1) (g : Vec ℝ → ℝ) (dg : Vec ℝ → Vec ℝ)
    (hc : ConvexOn ℝ univ (G1 T g)) (hd : ∀ a, HasDerivAt (G1 T g) (G1' T dg a) a) (hpos : ∀ a, 0 < G1' T dg a)
    (hcont : Continuous (G1' T dg)) {r : ℝ} (hr : G1 T g r = 0) (u0 : Vec ℝ) :
    Tendsto (fun k => ((fun u => (step T g dg u).u)^[k] u0) 0) atTop (𝓝 r) := by
  have := newton_tendsto_root hc hd hpos hcont hr (u0 0)
  refine this.congr (fun k => ?_)
  rw [C10c_model_iterates T h1 hL g dg (fun a => (hpos a).ne') u0 k]

/-! ### instance: the one-variable problem `g = x − c` with a lognormal `x` (the clause `pf = F( c )` of C10) -/

/-- the lognormal one-variable model -/
noncomputable def lognormal1 (m s : ℝ) : Model ℝ :=
  { dim := 1, marg := fun _ => .lognormal m s, L := fun _ _ => 1, Linv := fun _ _ => 1 }

theorem G1_lognormal (m s c : ℝ) :
    G1 (lognormal1 m s) (fun x => x 0 - c) = fun a => Real.exp (m + s * a) - c := by
  funext a
  unfold G1 getX lognormal1
  simp only [Marg.ofZ, exp_real]
  rw [mulVec_real]
  simp

theorem G1'_lognormal (m s : ℝ) :
    G1' (lognormal1 m s) (fun _ _ => 1) = fun a => s * Real.exp (m + s * a) := by
  funext a
  unfold G1' G' getX lognormal1
  simp only [Marg.dxdz, Marg.ofZ, exp_real, mul_one]
  rw [mulVec_real]
  simp

/-- **`hlrfFORM` on `g = x − c`, `x` lognormal, `s > 0`, `c > 0`: from any start the iterates of the model converge to
`u* = ( ln c − m ) / s = Φ⁻¹( F( c ) )`**, so `β → −u*` … `pf = Φ( u* ) = F( c )` -/
theorem C10c_lognormal_threshold (m s c : ℝ) (hs : 0 < s) (hc : 0 < c) (u0 : Vec ℝ) :
    Tendsto (fun k => ((fun u => (step (lognormal1 m s) (fun x => x 0 - c) (fun _ _ => 1) u).u)^[k] u0) 0) atTop
      (𝓝 ((Real.log c - m) / s)) := by
  apply C10c_hlrf_1d_converges (lognormal1 m s) rfl rfl
  · rw [G1_lognormal]
    have h1 : ConvexOn ℝ univ (fun a : ℝ => Real.exp (m + s * a)) := by
      have := (convexOn_exp.comp_affineMap (AffineMap.lineMap m (m + s) : ℝ →ᵃ[ℝ] ℝ))
      simp only [preimage_univ] at this
      refine this.congr (fun a _ => ?_)
      simp [AffineMap.lineMap_apply]; ring_nf
    have h2 := h1.add (convexOn_const (-c) convex_univ)
    refine h2.congr (fun a _ => ?_)
    simp [sub_eq_add_neg]
  · intro a
    rw [G1_lognormal, G1'_lognormal]
    have : HasDerivAt (fun a : ℝ => m + s * a) s a := by
      simpa using ((hasDerivAt_id a).const_mul s).const_add m
    have := (this.exp).sub_const c
    simpa [mul_comm] using this
  · intro a; rw [G1'_lognormal]; positivity
  · rw [G1'_lognormal]; fun_prop
  · rw [G1_lognormal]
    simp only
    rw [show m + s * ((Real.log c - m) / s) = Real.log c by field_simp; ring, Real.exp_log hc, sub_self]

end FF.Form
