/-
C09 — property theorems: the translated mean-stress corrections satisfy their defining equations
for every admissible range, strength and safety factor n ≥ 1, and the stated consequences.
`FF.Gen.*` is regenerated from src/ffpack/lcc/meanStressCorrection.py on every run.
-/
import Mathlib.Tactic.FieldSimp
import Mathlib.Tactic.Ring
import Mathlib.Tactic.Linarith
import Mathlib.Tactic.Positivity
import FFVerif.Lemmas.RealScalar
import FFVerif.Gen.MeanStress
import FFVerif.Props.C09
namespace FF
open Gen

/-- closed forms of the translated functions on the admissible domain -/
theorem goodman_closed (lo hi su n : ℝ) :
    goodmanCorrection lo hi su n = (n * ((hi - lo) / 2)) / (1 - n * ((lo + hi) / 2) / su) := by
  unfold goodmanCorrection
  have hlit : (Transc.lit 1 0 : ℝ) = 1 := by simp
  have hlit2 : (Transc.lit 2 0 : ℝ) = 2 := by simp
  rw [hlit, hlit2]
  by_cases h1 : n = 1
  · subst h1
    have : Transc.neb (1 : ℝ) 1 = false := by
      rw [← Bool.not_eq_true, neb_real]; simp
    simp [this]
  · have : Transc.neb n 1 = true := by rw [neb_real]; exact h1
    simp only [this, cond_true, npow_real]
    ring_nf

theorem soderberg_closed (lo hi sy n : ℝ) :
    soderbergCorrection lo hi sy n = (n * ((hi - lo) / 2)) / (1 - n * ((lo + hi) / 2) / sy) := by
  unfold soderbergCorrection
  have hlit : (Transc.lit 1 0 : ℝ) = 1 := by simp
  have hlit2 : (Transc.lit 2 0 : ℝ) = 2 := by simp
  rw [hlit, hlit2]
  by_cases h1 : n = 1
  · subst h1
    have : Transc.neb (1 : ℝ) 1 = false := by
      rw [← Bool.not_eq_true, neb_real]; simp
    simp [this]
  · have : Transc.neb n 1 = true := by rw [neb_real]; exact h1
    simp only [this, cond_true, npow_real]
    ring_nf

theorem gerber_closed (lo hi su n : ℝ) :
    gerberCorrection lo hi su n = (n * ((hi - lo) / 2)) / (1 - (n * ((lo + hi) / 2) / su) ^ 2) := by
  unfold gerberCorrection
  have hlit : (Transc.lit 1 0 : ℝ) = 1 := by simp
  have hlit2 : (Transc.lit 2 0 : ℝ) = 2 := by simp
  rw [hlit, hlit2]
  by_cases h1 : n = 1
  · subst h1
    have : Transc.neb (1 : ℝ) 1 = false := by
      rw [← Bool.not_eq_true, neb_real]; simp
    simp [this]
  · have : Transc.neb n 1 = true := by rw [neb_real]; exact h1
    simp only [this, cond_true, npow_real]
    ring_nf

/-- Goodman: sa/s + sm/su = 1/n -/
theorem C09_goodman (lo hi su n : ℝ) (hn : 1 ≤ n) (hlt : lo < hi) (hsu : 0 < su)
    (hm : n * ((lo + hi) / 2) < su) :
    C09.linearResidual lo hi su n (goodmanCorrection lo hi su n) = 0 := by
  rw [goodman_closed]
  unfold C09.linearResidual C09.two C09.one
  simp only [lit_real]
  have hn0 : n ≠ 0 := by linarith
  have h1 : su - n * ((lo + hi) / 2) ≠ 0 := by linarith
  have h2 : hi - lo ≠ 0 := by linarith
  have h3 : (1 - n * ((lo + hi) / 2) / su) ≠ 0 := by
    have : n * ((lo + hi) / 2) / su < 1 := by rw [div_lt_one hsu]; exact hm
    linarith
  field_simp
  ring

/-- Soderberg: sa/s + sm/sy = 1/n -/
theorem C09_soderberg (lo hi sy n : ℝ) (hn : 1 ≤ n) (hlt : lo < hi) (hsy : 0 < sy)
    (hm : n * ((lo + hi) / 2) < sy) :
    C09.linearResidual lo hi sy n (soderbergCorrection lo hi sy n) = 0 := by
  rw [soderberg_closed]
  unfold C09.linearResidual C09.two C09.one
  simp only [lit_real]
  have hn0 : n ≠ 0 := by linarith
  have h1 : sy - n * ((lo + hi) / 2) ≠ 0 := by linarith
  have h2 : hi - lo ≠ 0 := by linarith
  have h3 : (1 - n * ((lo + hi) / 2) / sy) ≠ 0 := by
    have : n * ((lo + hi) / 2) / sy < 1 := by rw [div_lt_one hsy]; exact hm
    linarith
  field_simp
  ring

/-- Gerber: n*sa/s + (n*sm/su)^2 = 1 -/
theorem C09_gerber (lo hi su n : ℝ) (hn : 1 ≤ n) (hlt : lo < hi) (hsu : 0 < su)
    (hr : -hi ≤ lo) (hm : n * ((lo + hi) / 2) < su) :
    C09.gerberResidual lo hi su n (gerberCorrection lo hi su n) = 0 := by
  rw [gerber_closed]
  unfold C09.gerberResidual C09.two C09.one
  simp only [lit_real, npow_real]
  have hn0 : 0 < n := by linarith
  have h2 : hi - lo ≠ 0 := by linarith
  have hq : n * ((lo + hi) / 2) / su < 1 := by rw [div_lt_one hsu]; exact hm
  have hq0 : 0 ≤ n * ((lo + hi) / 2) / su := by
    apply div_nonneg _ hsu.le
    apply mul_nonneg hn0.le; linarith
  have h3 : (1 - (n * ((lo + hi) / 2) / su) ^ 2) ≠ 0 := by
    have : (n * ((lo + hi) / 2) / su) ^ 2 < 1 := by
      rw [pow_two]; nlinarith
    linarith
  have hne : n * ((hi - lo) / 2) ≠ 0 := by
    have : 0 < n * ((hi - lo) / 2) := by apply mul_pos hn0; linarith
    linarith
  norm_num
  field_simp
  ring

/-! ### consequences -/

/-- zero mean stress and n = 1: the result is the stress amplitude -/
theorem C09_zero_mean (a su : ℝ) (ha : 0 < a) (hsu : 0 < su) :
    goodmanCorrection (-a) a su 1 = a ∧ soderbergCorrection (-a) a su 1 = a ∧ gerberCorrection (-a) a su 1 = a := by
  rw [goodman_closed, soderberg_closed, gerber_closed]
  refine ⟨?_, ?_, ?_⟩ <;> simp <;> ring

/-- degree-one homogeneity in the stresses -/
theorem C09_homogeneous (lo hi su n k : ℝ) (hk : 0 < k) (hsu : 0 < su) :
    goodmanCorrection (k * lo) (k * hi) (k * su) n = k * goodmanCorrection lo hi su n ∧
    soderbergCorrection (k * lo) (k * hi) (k * su) n = k * soderbergCorrection lo hi su n ∧
    gerberCorrection (k * lo) (k * hi) (k * su) n = k * gerberCorrection lo hi su n := by
  rw [goodman_closed, soderberg_closed, gerber_closed, goodman_closed, soderberg_closed, gerber_closed]
  have e : ∀ m : ℝ, n * ((k * lo + k * hi) / 2) / (k * su) = n * ((lo + hi) / 2) / su := by
    intro m; field_simp
  refine ⟨?_, ?_, ?_⟩ <;> rw [e 0] <;> ring

/-- the result grows with the safety factor (non-negative mean stress) -/
theorem C09_monotone_n (lo hi su n n' : ℝ) (hn : 1 ≤ n) (hnn : n ≤ n') (hlt : lo < hi) (hsu : 0 < su)
    (hmean : 0 ≤ lo + hi) (hm : n' * ((lo + hi) / 2) < su) :
    goodmanCorrection lo hi su n ≤ goodmanCorrection lo hi su n' := by
  rw [goodman_closed, goodman_closed]
  have hq' : n' * ((lo + hi) / 2) / su < 1 := by rw [div_lt_one hsu]; exact hm
  have hq : n * ((lo + hi) / 2) / su ≤ n' * ((lo + hi) / 2) / su := by
    apply div_le_div_of_nonneg_right _ hsu.le
    apply mul_le_mul_of_nonneg_right hnn; linarith
  have hd' : 0 < 1 - n' * ((lo + hi) / 2) / su := by linarith
  have hd : 0 < 1 - n * ((lo + hi) / 2) / su := by linarith
  calc n * ((hi - lo) / 2) / (1 - n * ((lo + hi) / 2) / su)
      ≤ n' * ((hi - lo) / 2) / (1 - n * ((lo + hi) / 2) / su) := by
        apply div_le_div_of_nonneg_right _ hd.le
        apply mul_le_mul_of_nonneg_right hnn; linarith
    _ ≤ n' * ((hi - lo) / 2) / (1 - n' * ((lo + hi) / 2) / su) := by
        apply div_le_div_of_nonneg_left _ hd' (by linarith)
        apply mul_nonneg (by linarith); linarith

/-- … and with the mean stress at fixed amplitude -/
theorem C09_monotone_mean (a m m' su n : ℝ) (hn : 1 ≤ n) (ha : 0 < a) (hsu : 0 < su) (hmm : m ≤ m')
    (hm : n * m' < su) :
    goodmanCorrection (m - a) (m + a) su n ≤ goodmanCorrection (m' - a) (m' + a) su n := by
  rw [goodman_closed, goodman_closed]
  have e1 : (m + a - (m - a)) / 2 = a := by ring
  have e2 : (m' + a - (m' - a)) / 2 = a := by ring
  have e3 : (m - a + (m + a)) / 2 = m := by ring
  have e4 : (m' - a + (m' + a)) / 2 = m' := by ring
  rw [e1, e2, e3, e4]
  have hq' : n * m' / su < 1 := by rw [div_lt_one hsu]; exact hm
  have hq : n * m / su ≤ n * m' / su := by
    apply div_le_div_of_nonneg_right _ hsu.le
    apply mul_le_mul_of_nonneg_left hmm; linarith
  apply div_le_div_of_nonneg_left
  · apply mul_nonneg (by linarith) ha.le
  · linarith
  · linarith

/-- Gerber ≤ Goodman ≤ Soderberg for sy ≤ su (non-negative mean stress) -/
theorem C09_ordering (lo hi sy su n : ℝ) (hn : 1 ≤ n) (hlt : lo < hi) (hsy : 0 < sy) (hsu : sy ≤ su)
    (hmean : 0 ≤ lo + hi) (hm : n * ((lo + hi) / 2) < sy) :
    gerberCorrection lo hi su n ≤ goodmanCorrection lo hi su n ∧
    goodmanCorrection lo hi su n ≤ soderbergCorrection lo hi sy n := by
  rw [goodman_closed, soderberg_closed, gerber_closed]
  have hsu0 : 0 < su := by linarith
  have hnum : 0 ≤ n * ((hi - lo) / 2) := by apply mul_nonneg (by linarith); linarith
  have hq0 : 0 ≤ n * ((lo + hi) / 2) := by apply mul_nonneg (by linarith); linarith
  have hqy : n * ((lo + hi) / 2) / sy < 1 := by rw [div_lt_one hsy]; exact hm
  have hqu : n * ((lo + hi) / 2) / su ≤ n * ((lo + hi) / 2) / sy :=
    div_le_div_of_nonneg_left hq0 hsy hsu
  have hqu0 : 0 ≤ n * ((lo + hi) / 2) / su := div_nonneg hq0 hsu0.le
  constructor
  · apply div_le_div_of_nonneg_left hnum
    · linarith
    · have : (n * ((lo + hi) / 2) / su) ^ 2 ≤ n * ((lo + hi) / 2) / su := by
        rw [pow_two]; nlinarith
      linarith
  · apply div_le_div_of_nonneg_left hnum
    · linarith
    · linarith

-- non-vacuity: an admissible point with n = 2 (the case the unrepaired code got wrong)
example : (1 : ℝ) ≤ 2 ∧ (1 : ℝ) < 2 ∧ (0 : ℝ) < 4 ∧ (2 : ℝ) * ((1 + 2) / 2) < 4 := by norm_num
example : goodmanCorrection (1 : ℝ) 2 4 2 = 4 := by rw [goodman_closed]; norm_num

end FF
