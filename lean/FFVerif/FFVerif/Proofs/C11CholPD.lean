/-
C11 — the Cholesky algorithm of `Model/Chol.lean` never meets a non-positive pivot on a positive-definite matrix:
`chol_pivots_of_posdef`.  Together with `chol_spec` / `chol_triInv` (Proofs/C11Chol.lean) this replaces the hypothesis
"all pivots positive" by the property's own precondition, an admissible (symmetric positive-definite) correlation matrix.

Proof: after `k` steps `A = Σ_{c<k} l_c l_cᵀ + R` with `R` vanishing on rows and columns `< k` (`Inv`).  Choose `x` with
`x_k = 1`, `x_j = 0` for `j > k` and `x_0 … x_{k-1}` solving `Σ_i L i c · x_i = 0` for every `c < k` (possible: the leading block
of `L` is lower triangular with positive diagonal, `triInv_left`).  Then `xᵀ A x = R k k`, and `xᵀ A x > 0`.
-/
import FFVerif.Proofs.C11Chol
import FFVerif.Proofs.C11Model
namespace FF.Chol
open FF.Linalg Finset

/-- positive definite on the `n × n` block -/
def PosDef (n : Nat) (A : Mat ℝ) : Prop :=
  ∀ x : Nat → ℝ, (∃ i, i < n ∧ x i ≠ 0) → 0 < ∑ i ∈ range n, ∑ j ∈ range n, x i * A i j * x j

/-- if the invariant holds after `k < n` steps and `A` is positive definite, the next pivot is positive -/
theorem pivot_pos (n : Nat) (A : Mat ℝ) (k : Nat) (hk : k < n) (R L : Mat ℝ) (I : Inv n A k R L) (hpd : PosDef n A) :
    0 < R k k := by
  -- the leading k × k block of L, extended by 1 on the diagonal beyond k (lower triangular, non-zero diagonal)
  let M : Mat ℝ := fun i c => if c < k then L i c else (if i = c then 1 else 0)
  have hMl : ∀ i c, i < c → M i c = 0 := by
    intro i c hic
    show (if c < k then L i c else (if i = c then 1 else 0)) = 0
    split
    · exact I.lower i c hic
    · rw [if_neg (by omega)]
  have hMd : ∀ c, c < k → M c c ≠ 0 := by
    intro c hc
    show (if c < k then L c c else _) ≠ 0
    rw [if_pos hc]; exact (I.diag c hc).ne'
  have hX := triInv_left k M hMl hMd
  set X := triInv k M with hXdef
  -- the vector
  let x : Nat → ℝ := fun i => if i < k then -(∑ d ∈ range k, X d i * L k d) else (if i = k then 1 else 0)
  -- Σ_{i<n} L i c x_i = 0 for c < k
  have hLx : ∀ c, c < k → ∑ i ∈ range n, L i c * x i = 0 := by
    intro c hc
    -- split the range into i < k, i = k, i > k
    have hsplit : ∑ i ∈ range n, L i c * x i = (∑ i ∈ range k, L i c * x i) + L k c := by
      have hsub : range (k + 1) ⊆ range n := by
        intro i hi; simp only [mem_range] at *; omega
      rw [← Finset.sum_subset hsub]
      · rw [Finset.sum_range_succ]
        congr 1
        show L k c * (if k < k then _ else (if k = k then 1 else 0)) = L k c
        rw [if_neg (lt_irrefl k), if_pos rfl, mul_one]
      · intro i _ hi
        simp only [mem_range, not_lt] at hi
        show L i c * (if i < k then _ else (if i = k then 1 else 0)) = 0
        rw [if_neg (by omega), if_neg (by omega), mul_zero]
    rw [hsplit]
    have h1 : ∑ i ∈ range k, L i c * x i = -(∑ d ∈ range k, (∑ i ∈ range k, X d i * M i c) * L k d) := by
      have : ∀ i ∈ range k, L i c * x i = -(∑ d ∈ range k, X d i * M i c * L k d) := by
        intro i hi
        have hi' := Finset.mem_range.mp hi
        show L i c * (if i < k then -(∑ d ∈ range k, X d i * L k d) else _) = _
        rw [if_pos hi']
        have hM : M i c = L i c := by show (if c < k then L i c else _) = _; rw [if_pos hc]
        rw [mul_neg, Finset.mul_sum]
        congr 1
        exact Finset.sum_congr rfl (fun d _ => by rw [hM]; ring)
      rw [Finset.sum_congr rfl this, Finset.sum_neg_distrib, Finset.sum_comm]
      congr 1
      exact Finset.sum_congr rfl (fun d _ => by rw [Finset.sum_mul])
    rw [h1]
    have h2 : ∀ d ∈ range k, (∑ i ∈ range k, X d i * M i c) * L k d = (if d = c then 1 else 0) * L k d := by
      intro d hd
      rw [hX d c (Finset.mem_range.mp hd) hc]
    rw [Finset.sum_congr rfl h2]
    simp [Finset.sum_ite_eq', hc]
  -- xᵀ A x = R k k
  have hquad : ∑ i ∈ range n, ∑ j ∈ range n, x i * A i j * x j = R k k := by
    have hdec : ∀ i ∈ range n, ∀ j ∈ range n, x i * A i j * x j
        = (∑ c ∈ range k, (L i c * x i) * (L j c * x j)) + x i * R i j * x j := by
      intro i hi j hj
      rw [I.decomp i j (Finset.mem_range.mp hi) (Finset.mem_range.mp hj), mul_add, add_mul, Finset.mul_sum, Finset.sum_mul]
      congr 1
      exact Finset.sum_congr rfl (fun c _ => by ring)
    rw [Finset.sum_congr rfl (fun i hi => Finset.sum_congr rfl (fun j hj => hdec i hi j hj))]
    simp only [Finset.sum_add_distrib]
    -- the first part vanishes
    have hfirst : ∑ i ∈ range n, ∑ j ∈ range n, ∑ c ∈ range k, (L i c * x i) * (L j c * x j) = 0 := by
      have : ∑ i ∈ range n, ∑ j ∈ range n, ∑ c ∈ range k, (L i c * x i) * (L j c * x j)
          = ∑ c ∈ range k, (∑ i ∈ range n, L i c * x i) * (∑ j ∈ range n, L j c * x j) := by
        calc ∑ i ∈ range n, ∑ j ∈ range n, ∑ c ∈ range k, (L i c * x i) * (L j c * x j)
            = ∑ i ∈ range n, ∑ c ∈ range k, ∑ j ∈ range n, (L i c * x i) * (L j c * x j) :=
              Finset.sum_congr rfl (fun i _ => Finset.sum_comm)
          _ = ∑ c ∈ range k, ∑ i ∈ range n, ∑ j ∈ range n, (L i c * x i) * (L j c * x j) := Finset.sum_comm
          _ = ∑ c ∈ range k, (∑ i ∈ range n, L i c * x i) * (∑ j ∈ range n, L j c * x j) :=
              Finset.sum_congr rfl (fun c _ => (Finset.sum_mul_sum _ _ _ _).symm)
      rw [this]
      exact Finset.sum_eq_zero (fun c hc => by rw [hLx c (Finset.mem_range.mp hc)]; ring)
    rw [hfirst, zero_add]
    -- the second part: only i = j = k contributes
    have hterm : ∀ i ∈ range n, ∀ j ∈ range n, x i * R i j * x j = if i = k ∧ j = k then R k k else 0 := by
      intro i hi j hj
      have hi' := Finset.mem_range.mp hi
      have hj' := Finset.mem_range.mp hj
      by_cases hik : i < k
      · rw [I.zeroRow i j hi' hj' hik, if_neg (by omega)]; ring
      · by_cases hjk : j < k
        · rw [I.symm i j hi' hj', I.zeroRow j i hj' hi' hjk, if_neg (by omega)]; ring
        · have hxi : x i = if i = k then 1 else 0 := by show (if i < k then _ else _) = _; rw [if_neg hik]
          have hxj : x j = if j = k then 1 else 0 := by show (if j < k then _ else _) = _; rw [if_neg hjk]
          rw [hxi, hxj]
          by_cases h1 : i = k
          · by_cases h2 : j = k
            · subst h1; subst h2; simp
            · simp [h1, h2]
          · simp [h1]
    rw [Finset.sum_congr rfl (fun i hi => Finset.sum_congr rfl (fun j hj => hterm i hi j hj))]
    have : ∀ i ∈ range n, ∑ j ∈ range n, (if i = k ∧ j = k then R k k else 0) = if i = k then R k k else 0 := by
      intro i _
      by_cases h1 : i = k
      · simp [h1, Finset.sum_ite_eq', hk]
      · simp [h1]
    rw [Finset.sum_congr rfl this, Finset.sum_ite_eq' (range n) k]
    simp [hk]
  rw [← hquad]
  apply hpd
  refine ⟨k, hk, ?_⟩
  show (if k < k then _ else (if k = k then (1 : ℝ) else 0)) ≠ 0
  rw [if_neg (lt_irrefl k), if_pos rfl]
  exact one_ne_zero

/-- **positive definite ⇒ all pivots positive** -/
theorem chol_pivots_of_posdef (n : Nat) (A : Mat ℝ) (hs : ∀ i j, i < n → j < n → A i j = A j i) (hpd : PosDef n A) :
    Pivots n A := by
  -- strong induction: the invariant needs the pivots below k only
  have key : ∀ k, k ≤ n → (∀ m, m < k → 0 < (run n A m).1 m m) := by
    intro k
    induction k with
    | zero => intro _ m hm; omega
    | succ k ih =>
      intro hk m hm
      rcases Nat.lt_succ_iff_lt_or_eq.mp hm with h | h
      · exact ih (by omega) m h
      · subst h
        -- the invariant after m steps, from the pivots below m
        have hinv : Inv n A m (run n A m).1 (run n A m).2 := by
          -- a matrix agreeing with A whose pivots below m are those of A: use `inv_run` with pivots known below m
          exact inv_run_upto n A hs m (by omega) (ih (by omega))
        exact pivot_pos n A m (by omega) _ _ hinv hpd
  intro k hk
  exact key (k + 1) (by omega) k (by omega)

/-- the factorisation of a symmetric positive-definite matrix: `L` lower triangular with positive diagonal, `L Lᵀ = A`,
and the triangular inverse is a two-sided inverse -/
theorem chol_of_posdef (n : Nat) (A : Mat ℝ) (hs : ∀ i j, i < n → j < n → A i j = A j i) (hpd : PosDef n A) :
    (∀ i c, i < c → cholesky n A i c = 0) ∧ (∀ c, c < n → 0 < cholesky n A c c) ∧
    (∀ i j, i < n → j < n → ∑ c ∈ range n, cholesky n A i c * cholesky n A j c = A i j) ∧
    (∀ i j, i < n → j < n → ∑ k ∈ range n, cholesky n A i k * triInv n (cholesky n A) k j = if i = j then 1 else 0) ∧
    (∀ i j, i < n → j < n → ∑ k ∈ range n, triInv n (cholesky n A) i k * cholesky n A k j = if i = j then 1 else 0) := by
  have hp : pivotsOK n A = true := (pivotsOK_iff n A).mpr (chol_pivots_of_posdef n A hs hpd)
  obtain ⟨h1, h2, h3⟩ := chol_spec n A hs hp
  obtain ⟨h4, h5⟩ := chol_triInv n A hs hp
  exact ⟨h1, h2, h3, h4, h5⟩

/-- non-vacuity: the correlation matrix with `ρ = 1/2` is positive definite -/
example : PosDef 2 (fun i j => if i = j then (1 : ℝ) else 1 / 2) := by
  intro x hx
  simp only [Finset.sum_range_succ, Finset.sum_range_zero, zero_add]
  norm_num
  obtain ⟨i, hi, hxi⟩ := hx
  have h2 : i = 0 ∨ i = 1 := by omega
  have key : x 0 * x 0 + x 0 * (1 / 2) * x 1 + (x 1 * (1 / 2) * x 0 + x 1 * x 1)
      = (x 0 + x 1 / 2) ^ 2 + 3 / 4 * x 1 ^ 2 := by ring
  have key' : x 0 * x 0 + x 0 * (1 / 2) * x 1 + (x 1 * (1 / 2) * x 0 + x 1 * x 1)
      = (x 1 + x 0 / 2) ^ 2 + 3 / 4 * x 0 ^ 2 := by ring
  rcases h2 with rfl | rfl
  · have : 0 < x 0 ^ 2 := by positivity
    nlinarith [sq_nonneg (x 1 + x 0 / 2)]
  · have : 0 < x 1 ^ 2 := by positivity
    nlinarith [sq_nonneg (x 0 + x 1 / 2)]

end FF.Chol

namespace FF.Nataf
open FF.Linalg

/-- **the transformation built from an admissible (symmetric positive-definite) latent correlation matrix and admissible
marginals is well formed** — round trips, inverse Jacobians and derivative statements of `Proofs/C11Model.lean` all apply -/
theorem C11m_build_wf_of_posdef (n : Nat) (margs : Nat → Marg ℝ) (rhoZ : Mat ℝ)
    (hv : ∀ i, i < n → (margs i).Valid) (hs : ∀ i j, i < n → j < n → rhoZ i j = rhoZ j i)
    (hpd : Chol.PosDef n rhoZ) : WF (build n margs rhoZ) :=
  C11m_build_wf n margs rhoZ hv hs ((Chol.pivotsOK_iff n rhoZ).mpr (Chol.chol_pivots_of_posdef n rhoZ hs hpd))

end FF.Nataf
