/-
C10 — `dg = None`: the numerical gradient inside the executable models of `hlrfFORM` and `mvalFOSM`, for quadratic limit states.

With `dg = None` the implementation differentiates `g` by the central-difference stencil (`gradient`, model `Deriv.partialD`).  For a
quadratic (in particular a linear) limit state `g( y ) = c0 + b·y + yᵀ Q y` the stencil is exact at every point
(`C20h_grad_quadratic`), so at the reals the WHOLE loop of the model run on the numerical gradient — every iterate, the outcome, the
number of steps, the returned triple — is the loop run on the analytic gradient, for every regenerated first-derivative table and every
non-zero step (`C10n_hlrf_numgrad_quadratic`), and likewise the mean-value index (`C10n_fosm_numgrad_quadratic`).  All theorems of
`C10Loop` about linear limit states therefore hold for `dg = None` as well.
-/
import FFVerif.Proofs.C20Hess
import FFVerif.Proofs.C10Loop
namespace FF.Form
open FF.Linalg FF.Nataf FF.Deriv

/-- the numerical gradient of the model IS the analytic gradient of a quadratic, as functions -/
theorem numgrad_quadratic (t : Nat × Nat × List Int × Int) (ht : t ∈ Gen.diffTables) (ht1 : t.1 = 1) (hm : 3 ≤ t.2.1)
    (d : Nat) (c0 : ℝ) (b : Nat → ℝ) (Q : Nat → Nat → ℝ) (dx : ℝ) (hdx : dx ≠ 0) :
    (fun (x : Vec ℝ) (i : Nat) => partialD t (quad d c0 b Q) i x dx) = fun x i => quadGrad d b Q i x := by
  funext x i
  exact C20h_grad_quadratic t ht ht1 hm d c0 b Q i x dx hdx

/-- **`hlrfFORM( dg = None )` on a quadratic limit state = `hlrfFORM` with the analytic gradient** (model, reals) -/
theorem C10n_hlrf_numgrad_quadratic (T : Model ℝ) (t : Nat × Nat × List Int × Int) (ht : t ∈ Gen.diffTables) (ht1 : t.1 = 1)
    (hm : 3 ≤ t.2.1) (d : Nat) (c0 : ℝ) (b : Nat → ℝ) (Q : Nat → Nat → ℝ) (dx : ℝ) (hdx : dx ≠ 0) (tol : ℝ) (iter : Nat) :
    hlrf T (quad d c0 b Q) (fun x i => partialD t (quad d c0 b Q) i x dx) tol iter =
      hlrf T (quad d c0 b Q) (fun x i => quadGrad d b Q i x) tol iter := by
  rw [numgrad_quadratic t ht ht1 hm d c0 b Q dx hdx]

/-- every iterate of the trace as well -/
theorem C10n_trace_numgrad_quadratic (T : Model ℝ) (t : Nat × Nat × List Int × Int) (ht : t ∈ Gen.diffTables) (ht1 : t.1 = 1)
    (hm : 3 ≤ t.2.1) (d : Nat) (c0 : ℝ) (b : Nat → ℝ) (Q : Nat → Nat → ℝ) (dx : ℝ) (hdx : dx ≠ 0) (tol : ℝ) (fuel : Nat) (u : Vec ℝ) :
    trace T (quad d c0 b Q) (fun x i => partialD t (quad d c0 b Q) i x dx) tol fuel u =
      trace T (quad d c0 b Q) (fun x i => quadGrad d b Q i x) tol fuel u := by
  rw [numgrad_quadratic t ht ht1 hm d c0 b Q dx hdx]

/-- `mvalFOSM( dg = None )` likewise -/
theorem C10n_fosm_numgrad_quadratic (n : Nat) (t : Nat × Nat × List Int × Int) (ht : t ∈ Gen.diffTables) (ht1 : t.1 = 1)
    (hm : 3 ≤ t.2.1) (d : Nat) (c0 : ℝ) (b : Nat → ℝ) (Q : Nat → Nat → ℝ) (dx : ℝ) (hdx : dx ≠ 0) (mus sigmas : Vec ℝ) :
    fosm n (quad d c0 b Q) (fun x i => partialD t (quad d c0 b Q) i x dx) mus sigmas =
      fosm n (quad d c0 b Q) (fun x i => quadGrad d b Q i x) mus sigmas := by
  rw [numgrad_quadratic t ht ht1 hm d c0 b Q dx hdx]

/-- for a LINEAR limit state (`Q = 0`) the gradient is the coefficient vector inside the dimension -/
theorem quadGrad_linear (d : Nat) (b : Nat → ℝ) (i : Nat) (hi : i < d) (x : Vec ℝ) :
    quadGrad d b (fun _ _ => 0) i x = b i := by
  rw [quadGrad_closed d b _ i hi x]; simp

/-- non-vacuity: `g = 3 - y0 - 2 y1`, three-point table, step `1e-6`-like `1/1000000`: the numerical gradient at any point is `( -1, -2 )` -/
example (x : Vec ℝ) : partialD (1, 3, [-1, 0, 1], 2) (quad 2 3 (fun k => if k = 0 then -1 else -2) (fun _ _ => 0)) 1 x (1 / 1000000) = -2 := by
  rw [C20h_grad_quadratic _ (by decide) rfl (by decide) 2 3 _ _ 1 x _ (by norm_num), quadGrad_linear 2 _ 1 (by decide) x]
  simp

end FF.Form
