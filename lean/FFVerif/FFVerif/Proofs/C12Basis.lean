/-
C12 (SORM curvature basis) — the list that `mgs` (FFVerif/Proofs/C20Gram.lean) runs on in the
curvature extraction.  The Python code takes the (non-zero) alignment vector `v` of ℝⁿ, picks
`k = argmax_j |v_j|` and hands Gram–Schmidt the list `v :: (e_j for j ≠ k, in increasing j)`,
`e_j` the standard basis of ℝⁿ.

Proved here, over `EuclideanSpace ℝ (Fin n)`:

* `C12_basis_replace_independent` — for `v k ≠ 0` that list is linearly independent (in the sense
  used by `C20_gramSchmidt_orthonormal`) and has length `n`.
* `C12_basis_replace_orthonormal` — `mgs` of it has length `n`, is orthonormal, and its head is
  `‖v‖⁻¹ • v`.
* `C12_argmax_component_ne_zero` — the argmax choice of `k` satisfies `v k ≠ 0` when `v ≠ 0`.
-/
import Mathlib.Analysis.InnerProductSpace.PiL2
import Mathlib.LinearAlgebra.LinearIndependent.Basic
import Mathlib.LinearAlgebra.LinearIndependent.Lemmas
import Mathlib.Data.List.FinRange
import Mathlib.Data.List.Nodup
import FFVerif.Proofs.C20Gram
import FFVerif.Proofs.C20Align
namespace FF

section Basis
variable {n : ℕ}

/-- the standard basis of ℝⁿ with the `k`-th vector replaced by `v` -/
noncomputable def replaceBasis (v : EuclideanSpace ℝ (Fin n)) (k : Fin n) :
    Fin n → EuclideanSpace ℝ (Fin n) :=
  Function.update (fun j => EuclideanSpace.single j (1 : ℝ)) k v

theorem replaceBasis_same (v : EuclideanSpace ℝ (Fin n)) (k : Fin n) :
    replaceBasis v k k = v := by
  simp [replaceBasis]

theorem replaceBasis_of_ne (v : EuclideanSpace ℝ (Fin n)) {k j : Fin n} (h : j ≠ k) :
    replaceBasis v k j = EuclideanSpace.single j (1 : ℝ) := by
  simp [replaceBasis, Function.update_of_ne h]

/-- coordinate `m` of a linear combination of the replaced basis -/
theorem replaceBasis_comb_apply (v : EuclideanSpace ℝ (Fin n)) (k : Fin n) (c : Fin n → ℝ)
    (m : Fin n) :
    (∑ i, c i • replaceBasis v k i) m = c k * v m + (if m = k then 0 else c m) := by
  have h1 : (∑ i, c i • replaceBasis v k i) m = ∑ i, c i * (replaceBasis v k i) m := by
    change (WithLp.ofLp (∑ i, c i • replaceBasis v k i)) m = _
    rw [WithLp.ofLp_sum, Finset.sum_apply]
    rfl
  rw [h1, ← Finset.add_sum_erase Finset.univ _ (Finset.mem_univ k), replaceBasis_same]
  congr 1
  by_cases hm : m = k
  · rw [if_pos hm]
    apply Finset.sum_eq_zero
    intro i hi
    have hik : i ≠ k := (Finset.mem_erase.mp hi).1
    rw [replaceBasis_of_ne v hik, PiLp.single_apply, if_neg (by rw [hm]; exact hik.symm),
      mul_zero]
  · rw [if_neg hm]
    rw [Finset.sum_eq_single_of_mem m (Finset.mem_erase.mpr ⟨hm, Finset.mem_univ m⟩)]
    · rw [replaceBasis_of_ne v hm, PiLp.single_apply, if_pos rfl, mul_one]
    · intro i hi him
      have hik : i ≠ k := (Finset.mem_erase.mp hi).1
      rw [replaceBasis_of_ne v hik, PiLp.single_apply, if_neg (Ne.symm him), mul_zero]

/-- replacing `e_k` by a vector whose `k`-th coordinate is non-zero keeps the family independent -/
theorem replaceBasis_linearIndependent (v : EuclideanSpace ℝ (Fin n)) (k : Fin n)
    (hv : v k ≠ 0) : LinearIndependent ℝ (replaceBasis v k) := by
  rw [Fintype.linearIndependent_iff]
  intro c hc
  have hcoord : ∀ m, c k * v m + (if m = k then 0 else c m) = 0 := by
    intro m
    rw [← replaceBasis_comb_apply, hc]
    rfl
  have hck : c k = 0 := by
    have := hcoord k
    rw [if_pos rfl, add_zero] at this
    exact (mul_eq_zero.mp this).resolve_right hv
  intro m
  by_cases hm : m = k
  · rw [hm]; exact hck
  · have := hcoord m
    rw [if_neg hm, hck, zero_mul, zero_add] at this
    exact this

/-- the list handed to Gram–Schmidt is the replaced basis listed along `alignIdx k` -/
theorem basisList_eq (v : EuclideanSpace ℝ (Fin n)) (k : Fin n) :
    v :: ((List.finRange n).filter (· ≠ k)).map (fun j => EuclideanSpace.single j (1 : ℝ))
      = (alignIdx k).map (replaceBasis v k) := by
  simp only [alignIdx, List.map_cons]
  congr 1
  · exact (replaceBasis_same v k).symm
  · rw [List.map_inj_left]
    intro j hj
    have hjk : j ≠ k := by simpa using (List.mem_filter.mp hj).2
    exact (replaceBasis_of_ne v hjk).symm

/-- **C12, curvature basis list is independent.** With `v k ≠ 0`, the list
`v :: (e_j, j ≠ k, in increasing j)` is linearly independent and has `n` members. -/
theorem C12_basis_replace_independent (v : EuclideanSpace ℝ (Fin n)) (k : Fin n)
    (hv : v k ≠ 0) :
    let l : List (EuclideanSpace ℝ (Fin n)) :=
      v :: ((List.finRange n).filter (· ≠ k)).map (fun j => EuclideanSpace.single j (1 : ℝ))
    LinearIndependent ℝ (fun i : Fin l.length => l.get i) ∧ l.length = n := by
  intro l
  have hl : l = (alignIdx k).map (replaceBasis v k) := basisList_eq v k
  refine ⟨?_, ?_⟩
  · rw [hl]
    exact linearIndependent_list_map _ (replaceBasis_linearIndependent v k hv) _
      (alignIdx_nodup k)
  · rw [hl, List.length_map, alignIdx_length]

/-- **C12, curvature basis.** Gram–Schmidt on `v :: (e_j, j ≠ k, in increasing j)` with `v k ≠ 0`
returns `n` orthonormal vectors, the first of which is the normalised `v`. -/
theorem C12_basis_replace_orthonormal (v : EuclideanSpace ℝ (Fin n)) (k : Fin n)
    (hv : v k ≠ 0) :
    let l : List (EuclideanSpace ℝ (Fin n)) :=
      v :: ((List.finRange n).filter (· ≠ k)).map (fun j => EuclideanSpace.single j (1 : ℝ))
    (mgs l).length = n ∧
      Orthonormal ℝ (fun i : Fin (mgs l).length => (mgs l).get i) ∧
      (mgs l).head? = some ((‖v‖)⁻¹ • v) := by
  intro l
  obtain ⟨hli, hlen⟩ := C12_basis_replace_independent v k hv
  obtain ⟨h1, h2, -⟩ := C20_gramSchmidt_orthonormal l hli
  exact ⟨by rw [h1]; exact hlen, h2, C20_gramSchmidt_first v _⟩

/-- **C12, argmax choice.** A coordinate of largest absolute value of a non-zero vector is
non-zero. -/
theorem C12_argmax_component_ne_zero (v : EuclideanSpace ℝ (Fin n)) (hv : v ≠ 0) (k : Fin n)
    (hk : ∀ j, |v j| ≤ |v k|) : v k ≠ 0 := by
  intro h0
  apply hv
  ext j
  have := hk j
  rw [h0, abs_zero] at this
  exact abs_eq_zero.mp (le_antisymm this (abs_nonneg _))

end Basis

end FF
