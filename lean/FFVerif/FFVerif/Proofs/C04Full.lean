/-
C04 — the clause statements of Proofs/C04.lean turned into theorems (as far as proved).
Core Lean only.
-/
import FFVerif.Proofs.C04
import FFVerif.Proofs.C03
import FFVerif.Lemmas.RfRp
import FFVerif.Lemmas.RfRpClosed
import FFVerif.Proofs.C06Rainflow
import FFVerif.Lemmas.ClosedNormal2
import FFVerif.Lemmas.Rotate
import FFVerif.Lemmas.FourPointSim
import FFVerif.Lemmas.Cut
namespace FF
open C02 C04

theorem rainflow_eq_astmGo (h : List Int) : rainflow h = astmGo [] (pv true h) [] := by
  unfold rainflow; rw [implGo_nil_eq_astm]; rfl

/-- (f) every rainflow whole cycle is also counted by range-pair counting -/
theorem C04_contains : C04.ContainsStatement := by
  intro h k
  have hs := sim_run (pv true h) [] [] [] [] (Or.inl rfl) (fun k => by simp [wholesL, unitsAt]) k
  obtain ⟨extra, he⟩ := rpBack_extends (rpForward [] (pv true h) []).1 (rpForward [] (pv true h) []).2
  have e1 : rangePair h = (rpForward [] (pv true h) []).2 ++ extra := he
  rw [e1, unitsAt_append, rainflow_eq_astmGo]
  have : wholes (astmGo [] (pv true h) []) = wholesL (astmGo [] (pv true h) []) := rfl
  rw [this]
  omega


/-! ### closed histories: rainflow = range-pair -/

theorem pv_true_getLast (x y : Int) (rest : List Int) :
    (pv true (x :: y :: rest)).getLast? = (x :: y :: rest).getLast? := by
  have := pvGo_char (y :: rest) x (by simp)
  simp only [pv, if_true, this, List.singleton_append]
  rw [List.getLast?_cons_cons, lastD_eq_getLast?]
  cases hg : (y :: rest).getLast? with
  | none => simp at hg
  | some v =>
    simp only [Option.getD_some]
    exact List.getLast?_eq_some_iff.mpr ⟨x :: turning (dedup (x :: y :: rest)), rfl⟩

/-- the reversal sequence of a non-constant history closed at an extreme: it starts and ends at
that extreme `M`, alternates, and stays on one side of `M` -/
theorem closed_setup (h : List Int) (hcl : closedAtExtreme h = true) (hc : isConstant h = false) :
    ∃ (up : Bool) (M : Int) (R' : List Int), pv true h = M :: R' ∧ Zig (M :: R') ∧
      (∀ x ∈ M :: R', bd up M x) ∧ (M :: R').getLast? = some M ∧
      (up = true ∨ M = listMin h) := by
  match h, hcl, hc with
  | [x], _, hc => simp [isConstant] at hc
  | x :: y :: rest, hcl, hc =>
    simp only [closedAtExtreme, Bool.and_eq_true, Bool.or_eq_true, beq_iff_eq] at hcl
    obtain ⟨hl, hext⟩ := hcl
    have hz := pv_zig _ hc
    have hlast := pv_true_getLast x y rest
    rw [hl] at hlast
    have hsub := (pv_sublist true (x :: y :: rest)).subset
    have hpv : pv true (x :: y :: rest) = x :: pvGo true x (y :: rest) := by simp [pv]
    rw [hpv] at hz hlast hsub
    rcases hext with he | he
    · refine ⟨true, x, _, hpv, hz, ?_, hlast, Or.inl rfl⟩
      intro v hv
      have := le_listMax (hsub hv)
      simp only [bd, if_true]; omega
    · refine ⟨false, x, _, hpv, hz, ?_, hlast, Or.inr he⟩
      intro v hv
      have := listMin_le (hsub hv)
      simp only [bd]; simp; omega

theorem rpBack_single (m : Int) (o : List Cyc) : rpBack [m] o = ([m], o) := by
  rw [rpBack]; simp

/-- (a), first half: on a non-constant history closed at a global extreme rainflow and range-pair
counting give the same table -/
theorem C04_agree_rangePair (h : List Int) (hcl : closedAtExtreme h = true)
    (hc : isConstant h = false) : table (rainflow h) = table (rangePair h) := by
  obtain ⟨up, M, R', hpv, hz, hb, hlast, _⟩ := closed_setup h hcl hc
  obtain ⟨c1, c2⟩ := closed_units up M R' hz (fun x hx => hb x (List.mem_cons_of_mem _ hx)) hlast
  apply table_eq_of_unitsAt
  intro k
  have e1 : rainflow h = astm (M :: R') := by
    unfold rainflow; rw [implGo_nil_eq_astm, hpv]
  have e2 : rangePair h = (rpForward [] (M :: R') []).2 := by
    unfold rangePair rangePairFull
    simp only [hpv]
    rw [show (rpForward [] (M :: R') []).1 = [M] from c1, rpBack_single]
  rw [e1, e2, c2 k]

theorem argmaxGo_le (xs : List Int) (i : Nat) (m : Int) (best : Nat) (h : ∀ x ∈ xs, x ≤ m) :
    argmaxGo xs i m best = best := by
  induction xs generalizing i with
  | nil => rfl
  | cons x xs ih =>
    have hx : ¬ x > m := by have := h x (by simp); omega
    rw [argmaxGo, if_neg hx]
    exact ih _ (fun y hy => h y (List.mem_cons_of_mem _ hy))

/-- (a), second half, histories closed at the global maximum: the repeating-history count is
literally the range-pair count -/
theorem C04_agree_repeat_max (h : List Int) (hcl : closedAtExtreme h = true)
    (hc : isConstant h = false) (hmax : h.head? = some (listMax h)) :
    rainflowRepeat h = rangePair h := by
  have hne : h ≠ [] := by intro e; subst e; simp at hmax
  obtain ⟨x, t, rfl⟩ : ∃ x t, h = x :: t := by
    cases h with
    | nil => exact absurd rfl hne
    | cons x t => exact ⟨x, t, rfl⟩
  have hx : x = listMax (x :: t) := by simpa using hmax
  have hpv : pv true (x :: t) = x :: pvGo true x t := by simp [pv]
  have hsub := (pv_sublist true (x :: t)).subset
  have h0 : argmax (pv true (x :: t)) = 0 := by
    rw [hpv, argmax]
    apply argmaxGo_le
    intro v hv
    have := le_listMax (hsub (by rw [hpv]; exact List.mem_cons_of_mem _ hv))
    omega
  obtain ⟨up, M, R', hpv', hz, hb, hlast, _⟩ := closed_setup _ hcl hc
  obtain ⟨c1, _⟩ := closed_units up M R' hz (fun x hx => hb x (List.mem_cons_of_mem _ hx)) hlast
  rw [C04_repeat_is_forward _ h0]
  unfold rangePair rangePairFull
  simp only [hpv']
  rw [show (rpForward [] (M :: R') []).1 = [M] from c1, rpBack_single]


/-! ### (d) four-point cycles + half cycles of the residue = rainflow -/

theorem C04_residue : C04.ResidueStatement := by
  intro h
  by_cases hc : isConstant h = true
  · have h1 := pv_const_length h hc
    simp only [fourPoint, fourPointFull]
    rw [fpGo_short _ (by omega)]
    unfold rainflow
    rw [implGo_short _ h1]
    rfl
  · exact (rainflow_eq_fourPoint_residue h (by simpa using hc)).symm


/-! ### (b) four-point = rainflow minus the closing max–min cycle -/

/-- the four-point residue of a non-constant history closed at a global extreme: that extreme, the
opposite extreme, that extreme -/
theorem closed_residue_ext (h : List Int) (hcl : closedAtExtreme h = true) (hc : isConstant h = false)
    {cs N} (r : Red (pv true h) cs N) : ∃ e y, N = [e, y, e] ∧ rng e y = span h := by
  have hlt := nonconst_min_lt_max h hc
  have hne : pv true h ≠ [] := by
    intro e
    have := pv_length_ge h hc
    rw [e] at this; simp at this
  obtain ⟨eM, em⟩ := pv_true_extremes h
  have hMmem : listMax h ∈ pv true h := by rw [← eM]; exact listMax_mem _ hne
  have hmmem : listMin h ∈ pv true h := by rw [← em]; exact listMin_mem _ hne
  have hsub := (pv_sublist true h).subset
  have hub : ∀ y ∈ pv true h, y ≤ listMax h := fun y hy => le_listMax (hsub hy)
  have hlb : ∀ y ∈ pv true h, listMin h ≤ y := fun y hy => listMin_le (hsub hy)
  have st := r.steps
  have hMN := st.keeps_max _ hub hMmem
  have hmN := st.keeps_min _ hlb hmmem
  have hzN := r.zig (pv_zig _ hc)
  have hlen := st.length_ge (pv_length_ge _ hc)
  match h, hcl with
  | x :: t, hcl =>
    simp only [closedAtExtreme, Bool.and_eq_true, Bool.or_eq_true, beq_iff_eq] at hcl
    obtain ⟨hl, hx⟩ := hcl
    have hh : N.head? = some x := by rw [st.head, pv_head?]; rfl
    have ht : N.getLast? = some x := by rw [st.getLast, pv_getLast?, hl]
    rcases hx with hx | hx
    · -- closed at the maximum
      obtain ⟨y, hy, eN⟩ := normal_closed_max N x r.normal hzN hlen hh ht
        (fun y hy => by rw [hx]; exact hub y (st.mem y hy))
      refine ⟨x, y, eN, ?_⟩
      rw [eN] at hmN
      simp only [List.mem_cons, List.not_mem_nil, or_false] at hmN
      have : y = listMin (x :: t) := by omega
      unfold rng span; omega
    · -- closed at the minimum
      obtain ⟨y, hy, eN⟩ := normal_closed N x r.normal hzN hlen hh ht
        (fun y hy => by rw [hx]; exact hlb y (st.mem y hy))
      refine ⟨x, y, eN, ?_⟩
      rw [eN] at hMN
      simp only [List.mem_cons, List.not_mem_nil, or_false] at hMN
      have : y = listMax (x :: t) := by omega
      unfold rng span; omega

theorem unitsAt_halves3 (e y : Int) (k : Nat) :
    unitsAt (halves [e, y, e]) k = if rng e y = k then 2 else 0 := by
  have e2 : halves [e, y, e] = [⟨e, y, true⟩, ⟨y, e, true⟩] := by simp [halves]
  rw [e2, unitsAt_cons, unitsAt_cons, unitsAt_nil]
  simp only [Cyc.range, Cyc.units, rng_comm y e]
  by_cases hk : rng e y = k <;> simp [hk]

theorem C04_fourPoint : C04.FourPointStatement := by
  intro h hcl hc
  have r := fourPoint_red h hc
  obtain ⟨e, y, eN, hr⟩ := closed_residue_ext h hcl hc r
  apply table_ext _ _ (tblAdd_sorted _ _ _ (table_sorted _)) (table_sorted _)
    (tblAdd_pos _ _ (by omega) _ (table_pos _)) (table_pos _)
  intro k
  rw [cnt_tblAdd, cnt_table, cnt_table, rainflow_red h hc r k, eN, unitsAt_halves3, hr]


/-! ### (a) second half: the repeating-history count -/

/-- histories closed at the global minimum: the rotation to the maximum does not change the table -/
theorem C04_agree_repeat_min (h : List Int) (hcl : closedAtExtreme h = true)
    (hc : isConstant h = false) (hmin : h.head? = some (listMin h)) :
    table (rainflow h) = table (rainflowRepeat h) := by
  have hlt := nonconst_min_lt_max h hc
  have hne : pv true h ≠ [] := by
    intro e; have := pv_length_ge h hc; rw [e] at this; simp at this
  obtain ⟨eM, em⟩ := pv_true_extremes h
  have hsub := (pv_sublist true h).subset
  have hzR := pv_zig h hc
  obtain ⟨A, M, Q', eR, eT, eD, hub⟩ := argmax_split (pv true h) hne
  have hMmem : M ∈ pv true h := by rw [eR]; simp
  have hM : M = listMax h := by
    have h1 := le_listMax (hsub hMmem)
    have h2 := hub (listMax h) (by rw [← eM]; exact listMax_mem _ hne)
    omega
  have hlast : (pv true h).getLast? = some (listMin h) := by
    rw [pv_getLast?]
    match h, hcl, hmin with
    | x :: t, hcl, hmin =>
      simp only [closedAtExtreme, Bool.and_eq_true, beq_iff_eq] at hcl
      simp only [List.head?_cons, Option.some.injEq] at hmin
      rw [hcl.1]; exact congrArg some hmin
  have hhead : (pv true h).head? = some (listMin h) := by rw [pv_head?, hmin]
  -- shapes of the two parts
  obtain ⟨A', rfl⟩ : ∃ A', A = listMin h :: A' := by
    cases A with
    | nil => rw [eR] at hhead; simp at hhead; omega
    | cons a A' => rw [eR] at hhead; simp at hhead; exact ⟨A', by rw [hhead]⟩
  obtain ⟨Q'', rfl⟩ : ∃ Q'', Q' = Q'' ++ [listMin h] := by
    rw [eR] at hlast
    rcases List.eq_nil_or_concat Q' with e | ⟨Q'', b, e⟩
    · subst e
      have : (listMin h :: A' ++ [M]).getLast? = some M :=
        List.getLast?_eq_some_iff.mpr ⟨listMin h :: A', rfl⟩
      rw [this] at hlast; simp at hlast; omega
    · have e' : Q' = Q'' ++ [b] := by simpa using e
      subst e'
      have : (listMin h :: A' ++ M :: (Q'' ++ [b])).getLast? = some b :=
        List.getLast?_eq_some_iff.mpr ⟨listMin h :: A' ++ M :: Q'', by simp⟩
      rw [this] at hlast
      simp at hlast
      exact ⟨Q'', by rw [hlast]⟩
  generalize hm : listMin h = m at *
  have eR' : pv true h = m :: (A' ++ M :: (Q'' ++ [m])) := by rw [eR]; simp
  have hb : ∀ y ∈ m :: (A' ++ M :: (Q'' ++ [m])), m ≤ y ∧ y ≤ M := by
    intro y hy
    rw [← eR'] at hy
    exact ⟨by rw [← hm]; exact listMin_le (hsub hy), hub y hy⟩
  -- the rotated record
  have erot : rotated (pv true h) = M :: (Q'' ++ m :: (A' ++ [M])) := by
    unfold rotated; rw [eT, eD]; simp
  have hzrot : Zig (M :: (Q'' ++ m :: (A' ++ [M]))) := by
    have h1 : Zig ((M :: Q'') ++ [m]) := by
      have : pv true h = (m :: A') ++ ((M :: Q'') ++ [m]) := by rw [eR']; simp
      rw [this] at hzR; exact Zig_suffix _ hzR
    have h2 : Zig (m :: (A' ++ [M])) := by
      have : pv true h = (m :: (A' ++ [M])) ++ (Q'' ++ [m]) := by rw [eR']; simp
      rw [this] at hzR; exact Zig_prefix _ _ hzR
    have := Zig_glue_min (M :: Q'') (A' ++ [M]) m (by simp) (by simp) h1 h2 (by
      intro v hv
      exact (hb v (by simp at hv ⊢; grind)).1)
    simpa using this
  have erep : rainflowRepeat h = (rpForward [] (M :: (Q'' ++ m :: (A' ++ [M]))) []).2 := by
    unfold rainflowRepeat
    rw [rotateToMax_eq, erot, pv_of_zig _ hzrot]
  obtain ⟨_, c2⟩ := closed_units true M (Q'' ++ m :: (A' ++ [M])) hzrot
    (by
      intro x hx
      simp only [bd, if_true]
      exact (hb x (by simp at hx ⊢; grind)).2)
    (List.getLast?_eq_some_iff.mpr ⟨M :: (Q'' ++ m :: A'), by simp⟩)
  apply table_eq_of_unitsAt
  intro k
  rw [erep, ← c2 k, astm_T _ hzrot, rainflow_eq_astm, eR', astm_T _ (by rw [← eR']; exact hzR)]
  exact T_rotate m M A' Q'' (by rw [← eR']; exact hzR) hb k

/-- (a) on a non-constant history closed at a global extreme rainflow, range-pair and the
repeating-history count give the same table -/
theorem C04_agree : C04.AgreeStatement := by
  intro h hcl hc
  refine ⟨C04_agree_rangePair h hcl hc, ?_⟩
  cases h with
  | nil => simp [closedAtExtreme] at hcl
  | cons x t =>
    have hx : x = listMax (x :: t) ∨ x = listMin (x :: t) := by
      have hcl' := hcl
      simp only [closedAtExtreme, Bool.and_eq_true, Bool.or_eq_true, beq_iff_eq] at hcl'
      exact hcl'.2
    rcases hx with hx | hx
    · rw [C04_agree_repeat_max _ hcl hc (by simpa using hx)]
      exact C04_agree_rangePair _ hcl hc
    · exact C04_agree_repeat_min _ hcl hc (by simpa using hx)


/-! ### (e) without ties four-point counting extracts exactly the rainflow whole cycles -/

/-- when no comparison of the three-point loop ties, the whole cycles of the rainflow count form a
maximal four-point extraction sequence on the reversal sequence -/
theorem rainflow_wholes_red (h : List Int) (hc : isConstant h = false)
    (ht : rfTie [] (reversals h) true = false) :
    ∃ N, Red (pv true h) (wholes (rainflow h)) N := by
  have hi : IncS ([] ++ ([] ++ pv true h).take 2) := by
    match pv true h with
    | [] => simp [IncS]
    | [_] => simp [IncS]
    | _ :: _ :: _ => simp [IncS]
  obtain ⟨cs, N, e1, e2, e3⟩ := rf_steps [] (pv true h) true [] [] (by simpa using pv_zig h hc)
    (Dec_short _ (by simp; omega)) rfl hi (by rw [pv_true_eq_reversals]; exact ht)
  refine ⟨N, ?_⟩
  have e : wholes (rainflow h) = cs := by
    have : wholes (rainflow h) = wholesL (implGo [] (pv true h) true []) := rfl
    rw [this, e1]; simp [wholesL]
  rw [e]
  have := (e2.red (Red.done e3))
  simpa using this

theorem C04_noTie : C04.NoTieStatement := by
  intro h hnt
  by_cases hc : isConstant h = true
  · have h1 := pv_const_length h hc
    have e1 : fourPoint h = [] := by
      simp only [fourPoint, fourPointFull]; rw [fpGo_short _ (by omega)]
    have e2 : wholes (rainflow h) = [] := by
      unfold rainflow; rw [implGo_short _ h1]; exact wholesL_halves _
    rw [e1, e2]
  · have hc' : isConstant h = false := by simpa using hc
    have ht : rfTie [] (reversals h) true = false := by
      unfold noTies at hnt
      simp only [Bool.and_eq_true, Bool.not_eq_true'] at hnt
      exact hnt.1
    obtain ⟨N, r⟩ := rainflow_wholes_red h hc' ht
    exact table_eq_of_unitsAt _ _ ((fourPoint_red h hc').confluent r).2


/-! ### (c) the repeating-history count ignores where the period is cut -/

theorem C04_cut : C04.CutStatement := by
  intro b k x y hx hy
  by_cases hU : b.take k = []
  · -- nothing moved
    have hd : b.drop k = b := by
      have := List.take_append_drop k b
      rw [hU] at this; simpa using this
    rw [hU, hd, List.append_nil] at hy ⊢
    rw [hx] at hy; cases hy; rfl
  · by_cases hV : b.drop k = []
    · have ht : b.take k = b := by
        have := List.take_append_drop k b
        rw [hV] at this; simpa using this
      rw [hV, ht, List.nil_append] at hy ⊢
      rw [hx] at hy; cases hy; rfl
    · have hUx : (b.take k).head? = some x := by
        have e := List.take_append_drop k b
        cases ht : b.take k with
        | nil => exact absurd ht hU
        | cons a t => rw [ht] at e; rw [← e] at hx; simpa using hx
      have hVy : (b.drop k).head? = some y := by
        cases hd : b.drop k with
        | nil => exact absurd hd hV
        | cons a t => rw [hd] at hy; simpa using hy
      apply table_eq_of_unitsAt
      intro n
      have := cut_units (b.take k) (b.drop k) x y hUx hVy n
      rw [List.take_append_drop] at this
      exact this

end FF
