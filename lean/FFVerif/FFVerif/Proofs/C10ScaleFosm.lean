/-
C10 — `mvalFOSM` does not depend on the unit of the limit state: with `g` and its gradient multiplied by `k > 0` the model returns the
same index (companion of `C10m_scale_hlrf` for the mean-value method; a floor on the denominator, e.g. `max( ·, 1e-12 )`, breaks it).
-/
import FFVerif.Proofs.C10Loop
namespace FF.Form
open FF.Linalg Finset

theorem C10m_scale_fosm (n : Nat) (g : Vec ℝ → ℝ) (dg : Vec ℝ → Vec ℝ) (mus sigmas : Vec ℝ) (k : ℝ) (hk : 0 < k) :
    fosm n (fun x => k * g x) (fun x i => k * dg x i) mus sigmas = fosm n g dg mus sigmas := by
  unfold fosm
  simp only [fsum_real, sqrt_real]
  have : ∑ i ∈ range n, k * dg mus i * sigmas i * (k * dg mus i * sigmas i) =
      k ^ 2 * ∑ i ∈ range n, dg mus i * sigmas i * (dg mus i * sigmas i) := by
    rw [mul_sum]; exact sum_congr rfl (fun i _ => by ring)
  rw [this, Real.sqrt_mul (sq_nonneg k), Real.sqrt_sq hk.le, mul_div_mul_left _ _ hk.ne']

/-- non-vacuity: `g = 10 + 3 x0 - 2 x1` in units of `2^-50` -/
example : fosm 2 (fun x => (1 / 2 ^ 50 : ℝ) * (10 + 3 * x 0 - 2 * x 1)) (fun _ i => (1 / 2 ^ 50 : ℝ) * (if i = 0 then 3 else -2)) (fun _ => 0) (fun _ => 1)
    = fosm 2 (fun x => 10 + 3 * x 0 - 2 * x 1) (fun _ i => if i = 0 then 3 else -2) (fun _ => 0) (fun _ => 1) :=
  C10m_scale_fosm 2 _ _ _ _ _ (by positivity)

end FF.Form
