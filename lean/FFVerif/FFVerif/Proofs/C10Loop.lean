/-
C10 — theorems about the EXECUTABLE model of `hlrfFORM` / `mvalFOSM` (`Model/Form.lean`, the definitions
the driver runs iterate by iterate against the implementation), at the reals:

* `C10m_step_norm`: every iterate has `‖u‖ = |β|`;
* `C10m_residual`, `C10m_residual_bound`: after a step, the limit state at the previous evaluation point is
  `g(x) = ⟨u_prev - u_new, ∇G⟩`, hence `|g(x)| ≤ ‖u_prev - u_new‖ · ‖∇G‖`: when the loop leaves through its
  tolerance test, the design point is on the (linearised) limit state up to `tol · ‖∇G‖`;
* `C10m_scale_step`, `C10m_scale_loop`, `C10m_scale_hlrf`: the whole loop (all iterates, the outcome, the number
  of steps) is unchanged when `g` and its gradient are multiplied by a positive constant;
* `C10m_affine_step`, `C10m_affine_hlrf`: **linear limit state, normal marginals, any correlation** — the loop
  returns for every `iter ≥ 1` and `tol > 0`, with `β = ( d + Σ cᵢ μᵢ ) / ‖Lᵀ D c‖`, a design point on the limit
  state, and `C10m_affine_variance`: `‖Lᵀ D c‖² = cᵀ D ρ D c = Var[g]` when `L Lᵀ = ρ` — i.e. the exact
  `β = E[g]/sd[g]`, now for the loop itself (termination included), not only for one abstract step;
* `C10m_fosm_agrees`: for independent variables (`L = 1`) this is what `mvalFOSM` computes.
-/
import Mathlib.Algebra.Order.Chebyshev
import Mathlib.Tactic.FieldSimp
import Mathlib.Tactic.Positivity
import FFVerif.Lemmas.LinalgReal
import FFVerif.Model.Form
namespace FF.Form
open FF.Linalg FF.Nataf Finset

/-- the loop body, with the stored vectors read back -/
theorem step_real (T : Model ℝ) (g : Vec ℝ → ℝ) (dg : Vec ℝ → Vec ℝ) (u : Vec ℝ) :
    step T g dg u =
      { u := fun i => -((g (getX T u) - dot T.dim u (gradU T (getX T u) (dg (getX T u)))) /
                norm T.dim (gradU T (getX T u) (dg (getX T u)))) *
              (gradU T (getX T u) (dg (getX T u)) i / norm T.dim (gradU T (getX T u) (dg (getX T u)))),
        beta := (g (getX T u) - dot T.dim u (gradU T (getX T u) (dg (getX T u)))) /
                norm T.dim (gradU T (getX T u) (dg (getX T u))) } := by
  unfold step
  simp only [ofArr_mkArr]

theorem norm_smul_div (n : Nat) (b : ℝ) (w : Vec ℝ) (hw : norm n w ≠ 0) :
    norm n (fun i => -b * (w i / norm n w)) = |b| := by
  have hpos : 0 < norm n w := lt_of_le_of_ne (norm_nonneg n w) (Ne.symm hw)
  rw [norm_real]
  have : ∑ i ∈ range n, -b * (w i / norm n w) * (-b * (w i / norm n w))
      = b ^ 2 * ((∑ i ∈ range n, w i * w i) / (norm n w * norm n w)) := by
    rw [Finset.sum_div, Finset.mul_sum]
    refine Finset.sum_congr rfl (fun i _ => ?_)
    field_simp
  rw [this, norm_sq, ← dot_real, div_self (ne_of_gt (by rw [← norm_sq]; positivity)), mul_one, Real.sqrt_sq_eq_abs]

/-- every iterate has `‖u‖ = |β|` -/
theorem C10m_step_norm (T : Model ℝ) (g : Vec ℝ → ℝ) (dg : Vec ℝ → Vec ℝ) (u : Vec ℝ)
    (hg : norm T.dim (gradU T (getX T u) (dg (getX T u))) ≠ 0) :
    norm T.dim (step T g dg u).u = |(step T g dg u).beta| := by
  rw [step_real]
  exact norm_smul_div T.dim _ _ hg

/-- `g(x) = ⟨u_prev - u_new, ∇G⟩` -/
theorem C10m_residual (T : Model ℝ) (g : Vec ℝ → ℝ) (dg : Vec ℝ → Vec ℝ) (u : Vec ℝ)
    (hg : norm T.dim (gradU T (getX T u) (dg (getX T u))) ≠ 0) :
    g (getX T u) = dot T.dim (vsub u (step T g dg u).u) (gradU T (getX T u) (dg (getX T u))) := by
  rw [step_real]
  set w := gradU T (getX T u) (dg (getX T u)) with hw
  have hpos : 0 < norm T.dim w := lt_of_le_of_ne (norm_nonneg _ w) (Ne.symm hg)
  have hns := norm_sq T.dim w
  simp only [dot_real, vsub] at *
  have : ∑ i ∈ range T.dim, (u i - -((g (getX T u) - ∑ i ∈ range T.dim, u i * w i) / norm T.dim w) * (w i / norm T.dim w)) * w i
      = ∑ i ∈ range T.dim, u i * w i + ((g (getX T u) - ∑ i ∈ range T.dim, u i * w i) / (norm T.dim w * norm T.dim w))
          * ∑ i ∈ range T.dim, w i * w i := by
    rw [Finset.mul_sum, ← Finset.sum_add_distrib]
    refine Finset.sum_congr rfl (fun i _ => ?_)
    field_simp
    ring
  rw [this, ← hns]
  field_simp
  ring

/-- Cauchy–Schwarz for the model's `dot` and `norm` -/
theorem abs_dot_le (n : Nat) (a b : Vec ℝ) : |dot n a b| ≤ norm n a * norm n b := by
  have h := Finset.sum_mul_sq_le_sq_mul_sq (range n) a b
  have ha := norm_sq n a
  have hb := norm_sq n b
  rw [dot_real] at ha hb ⊢
  have h2 : (∑ i ∈ range n, a i * b i) ^ 2 ≤ (norm n a * norm n b) ^ 2 := by
    calc (∑ i ∈ range n, a i * b i) ^ 2 ≤ (∑ i ∈ range n, a i ^ 2) * ∑ i ∈ range n, b i ^ 2 := h
      _ = (norm n a * norm n b) ^ 2 := by
        rw [mul_pow, sq (norm n a), sq (norm n b), ha, hb]
        congr 1 <;> exact Finset.sum_congr rfl (fun i _ => sq _)
  exact abs_le_of_sq_le_sq' h2 (mul_nonneg (norm_nonneg _ _) (norm_nonneg _ _)) |> fun h => abs_le.mpr h

/-- when the step is shorter than `tol`, the limit state at the evaluation point is below `tol · ‖∇G‖` -/
theorem C10m_residual_bound (T : Model ℝ) (g : Vec ℝ → ℝ) (dg : Vec ℝ → Vec ℝ) (u : Vec ℝ) (tol : ℝ)
    (hg : norm T.dim (gradU T (getX T u) (dg (getX T u))) ≠ 0)
    (hconv : norm T.dim (vsub (step T g dg u).u u) < tol) :
    |g (getX T u)| < tol * norm T.dim (gradU T (getX T u) (dg (getX T u))) := by
  rw [C10m_residual T g dg u hg]
  have hpos : 0 < norm T.dim (gradU T (getX T u) (dg (getX T u))) :=
    lt_of_le_of_ne (norm_nonneg _ _) (Ne.symm hg)
  have hsymm : norm T.dim (vsub u (step T g dg u).u) = norm T.dim (vsub (step T g dg u).u u) := by
    simp only [norm_real, vsub]
    congr 1
    exact Finset.sum_congr rfl (fun i _ => by ring)
  calc |dot T.dim (vsub u (step T g dg u).u) (gradU T (getX T u) (dg (getX T u)))|
      ≤ norm T.dim (vsub u (step T g dg u).u) * norm T.dim (gradU T (getX T u) (dg (getX T u))) := abs_dot_le _ _ _
    _ < tol * norm T.dim (gradU T (getX T u) (dg (getX T u))) := by
        rw [hsymm]; exact mul_lt_mul_of_pos_right hconv hpos

/-! ### invariance under positive rescaling of the limit state -/

theorem gradU_smul (T : Model ℝ) (x a : Vec ℝ) (k : ℝ) :
    gradU T x (fun i => k * a i) = fun j => k * gradU T x a j := by
  funext j
  simp only [gradU, tmulVec_real, Finset.mul_sum]
  exact Finset.sum_congr rfl (fun i _ => by ring)

theorem norm_smul (n : Nat) (k : ℝ) (hk : 0 < k) (w : Vec ℝ) : norm n (fun i => k * w i) = k * norm n w := by
  simp only [norm_real]
  have : ∑ i ∈ range n, k * w i * (k * w i) = k ^ 2 * ∑ i ∈ range n, w i * w i := by
    rw [Finset.mul_sum]; exact Finset.sum_congr rfl (fun i _ => by ring)
  rw [this, Real.sqrt_mul (sq_nonneg k), Real.sqrt_sq hk.le]

theorem C10m_scale_step (T : Model ℝ) (g : Vec ℝ → ℝ) (dg : Vec ℝ → Vec ℝ) (k : ℝ) (hk : 0 < k) (u : Vec ℝ) :
    step T (fun x => k * g x) (fun x i => k * dg x i) u = step T g dg u := by
  rw [step_real, step_real]
  have e1 : gradU T (getX T u) (fun i => k * dg (getX T u) i) = fun j => k * gradU T (getX T u) (dg (getX T u)) j :=
    gradU_smul T _ _ k
  simp only [e1, norm_smul _ k hk]
  set w := gradU T (getX T u) (dg (getX T u))
  have hd : dot T.dim u (fun j => k * w j) = k * dot T.dim u w := by
    simp only [dot_real, Finset.mul_sum]; exact Finset.sum_congr rfl (fun i _ => by ring)
  rw [hd]
  have hb : (k * g (getX T u) - k * dot T.dim u w) / (k * norm T.dim w) = (g (getX T u) - dot T.dim u w) / norm T.dim w := by
    rw [← mul_sub, mul_div_mul_left _ _ hk.ne']
  rw [hb]
  congr 1
  funext i
  rw [mul_div_mul_left _ _ hk.ne']

theorem C10m_scale_loop (T : Model ℝ) (g : Vec ℝ → ℝ) (dg : Vec ℝ → Vec ℝ) (k : ℝ) (hk : 0 < k) (tol : ℝ) :
    ∀ fuel done u, loop T (fun x => k * g x) (fun x i => k * dg x i) tol fuel done u = loop T g dg tol fuel done u := by
  intro fuel
  induction fuel with
  | zero => intro done u; rfl
  | succ f ih =>
    intro done u
    unfold loop
    rw [C10m_scale_step T g dg k hk u]
    simp only [ih]

/-- β, the design point, the number of iterations and the outcome do not change when `g` is multiplied by
a positive constant -/
theorem C10m_scale_hlrf (T : Model ℝ) (g : Vec ℝ → ℝ) (dg : Vec ℝ → Vec ℝ) (k : ℝ) (hk : 0 < k) (tol : ℝ) (iter : Nat) :
    hlrf T (fun x => k * g x) (fun x i => k * dg x i) tol iter = hlrf T g dg tol iter := by
  unfold hlrf
  rw [C10m_scale_loop T g dg k hk tol]

/-! ### what a returned result is -/

/-- every outcome of the loop is one HL-RF step from some iterate; a `converged` outcome passed the tolerance test -/
theorem loop_outcome (T : Model ℝ) (g : Vec ℝ → ℝ) (dg : Vec ℝ → Vec ℝ) (tol : ℝ) :
    ∀ fuel done u, 0 < fuel →
      (∀ steps it, loop T g dg tol fuel done u = .converged steps it →
        ∃ uprev, it = step T g dg uprev ∧ norm T.dim (vsub (step T g dg uprev).u uprev) < tol) ∧
      (∀ it, loop T g dg tol fuel done u = .exhausted it → ∃ uprev, it = step T g dg uprev) := by
  intro fuel
  induction fuel with
  | zero => intro done u h; omega
  | succ f ih =>
    intro done u _
    unfold loop
    by_cases hc : Transc.ltb (norm T.dim (vsub (step T g dg u).u u)) tol = true
    · simp only [hc, if_true]
      refine ⟨?_, ?_⟩
      · intro steps it h
        simp only [Outcome.converged.injEq] at h
        exact ⟨u, h.2.symm, (ltb_real _ _).mp hc⟩
      · intro it h; cases h
    · simp only [hc]
      by_cases hf : f = 0
      · subst hf
        simp only [if_true, Bool.false_eq_true, if_false]
        refine ⟨?_, ?_⟩
        · intro steps it h; cases h
        · intro it h
          simp only [Outcome.exhausted.injEq] at h
          exact ⟨u, h.symm⟩
      · simp only [hf, if_false, Bool.false_eq_true]
        exact ih (done + 1) (step T g dg u).u (by omega)

/-- **whenever the model of `hlrfFORM` returns**: the returned `( β, u*, x* )` is one HL-RF step from some iterate `u`, so
`x*` is the Nataf image of `u*`, `‖u*‖ = |β|` (when the gradient there does not vanish), and - unless `iter = 1`, where no
convergence is expected - the step was shorter than `tol`, hence `|g( T(u) )| < tol · ‖∇G‖` at the last evaluation point -/
theorem C10m_hlrf_return (T : Model ℝ) (g : Vec ℝ → ℝ) (dg : Vec ℝ → Vec ℝ) (tol : ℝ) (iter : Nat) (hiter : 1 ≤ iter)
    (beta : ℝ) (ustar xstar : Vec ℝ) (h : hlrf T g dg tol iter = some (beta, ustar, xstar)) :
    ∃ u, beta = (step T g dg u).beta ∧ ustar = (step T g dg u).u ∧ xstar = getX T ustar ∧
      (norm T.dim (gradU T (getX T u) (dg (getX T u))) ≠ 0 → norm T.dim ustar = |beta|) ∧
      (iter ≠ 1 → norm T.dim (vsub ustar u) < tol ∧
        (norm T.dim (gradU T (getX T u) (dg (getX T u))) ≠ 0 →
          |g (getX T u)| < tol * norm T.dim (gradU T (getX T u) (dg (getX T u))))) := by
  unfold hlrf at h
  obtain ⟨hconv, hexh⟩ := loop_outcome T g dg tol iter 0 (fun _ => one) (by omega)
  cases hl : loop T g dg tol iter 0 (fun _ => one) with
  | converged steps it =>
    rw [hl] at h
    simp only [Option.some.injEq, Prod.mk.injEq] at h
    obtain ⟨uprev, hit, htol⟩ := hconv steps it hl
    obtain ⟨hb, hu, hx⟩ := h
    refine ⟨uprev, by rw [← hb, hit], by rw [← hu, hit], by rw [← hx, ← hu], ?_, ?_⟩
    · intro hg; rw [← hu, ← hb, hit]; exact C10m_step_norm T g dg uprev hg
    · intro _
      refine ⟨by rw [← hu, hit]; exact htol, fun hg => C10m_residual_bound T g dg uprev tol hg htol⟩
  | exhausted it =>
    rw [hl] at h
    dsimp only at h
    by_cases h1 : iter = 1
    · rw [if_pos h1] at h
      simp only [Option.some.injEq, Prod.mk.injEq] at h
      obtain ⟨uprev, hit⟩ := hexh it hl
      obtain ⟨hb, hu, hx⟩ := h
      refine ⟨uprev, by rw [← hb, hit], by rw [← hu, hit], by rw [← hx, ← hu], ?_, fun hne => absurd h1 hne⟩
      intro hg; rw [← hu, ← hb, hit]; exact C10m_step_norm T g dg uprev hg
    · rw [if_neg h1] at h
      cases h

/-! ### linear limit state, normal marginals -/

/-- all marginals normal -/
def AllNormal (T : Model ℝ) (mu sigma : Vec ℝ) : Prop := ∀ i, i < T.dim → T.marg i = .normal (mu i) (sigma i)

/-- `w = Lᵀ D c`, the U-space gradient of a linear limit state -/
noncomputable def wOf (T : Model ℝ) (sigma c : Vec ℝ) : Vec ℝ := tmulVec T.dim T.L (fun i => sigma i * c i)

theorem gradU_normal (T : Model ℝ) (mu sigma : Vec ℝ) (h : AllNormal T mu sigma) (x c : Vec ℝ) :
    gradU T x c = wOf T sigma c := by
  funext j
  simp only [gradU, wOf, tmulVec_real]
  refine Finset.sum_congr rfl (fun i hi => ?_)
  rw [h i (Finset.mem_range.mp hi)]
  rfl

/-- the limit state in U space is affine: `g( T(u) ) = ( d + Σ cᵢ μᵢ ) + ⟨u, w⟩` -/
theorem affine_in_U (T : Model ℝ) (mu sigma : Vec ℝ) (h : AllNormal T mu sigma) (c : Vec ℝ) (d : ℝ) (u : Vec ℝ) :
    d + dot T.dim c (getX T u) = (d + dot T.dim c mu) + dot T.dim u (wOf T sigma c) := by
  have hx : ∀ i ∈ range T.dim, c i * getX T u i = c i * mu i + (sigma i * c i) * mulVec T.dim T.L u i := by
    intro i hi
    unfold getX
    rw [h i (Finset.mem_range.mp hi)]
    simp only [Marg.ofZ]
    ring
  have e1 : dot T.dim c (getX T u) = dot T.dim c mu + dot T.dim (mulVec T.dim T.L u) (fun i => sigma i * c i) := by
    simp only [dot_real]
    rw [Finset.sum_congr rfl hx, Finset.sum_add_distrib]
    congr 1
    exact Finset.sum_congr rfl (fun i _ => by ring)
  rw [e1, wOf, dot_tmulVec]
  ring

/-- the exact index `( d + Σ cᵢ μᵢ ) / ‖w‖` -/
noncomputable def betaStar (T : Model ℝ) (mu sigma c : Vec ℝ) (d : ℝ) : ℝ :=
  (d + dot T.dim c mu) / norm T.dim (wOf T sigma c)

/-- the exact design point `-β w / ‖w‖` -/
noncomputable def uStar (T : Model ℝ) (mu sigma c : Vec ℝ) (d : ℝ) : Vec ℝ :=
  fun i => -betaStar T mu sigma c d * (wOf T sigma c i / norm T.dim (wOf T sigma c))

/-- **one step is exact from any start** -/
theorem C10m_affine_step (T : Model ℝ) (mu sigma : Vec ℝ) (h : AllNormal T mu sigma) (c : Vec ℝ) (d : ℝ) (u : Vec ℝ) :
    step T (fun x => d + dot T.dim c x) (fun _ => c) u
      = { u := uStar T mu sigma c d, beta := betaStar T mu sigma c d } := by
  rw [step_real]
  simp only [gradU_normal T mu sigma h]
  have hb : (d + dot T.dim c (getX T u) - dot T.dim u (wOf T sigma c)) / norm T.dim (wOf T sigma c)
      = betaStar T mu sigma c d := by
    rw [affine_in_U T mu sigma h c d u]; unfold betaStar; ring
  rw [hb]
  rfl

theorem norm_vsub_self (n : Nat) (a : Vec ℝ) : norm n (vsub a a) = 0 := by
  simp [norm_real, vsub]

/-- **the loop returns, with the exact index**, for every `iter ≥ 1` and `tol > 0` -/
theorem C10m_affine_hlrf (T : Model ℝ) (mu sigma : Vec ℝ) (h : AllNormal T mu sigma) (c : Vec ℝ) (d : ℝ)
    (tol : ℝ) (htol : 0 < tol) (iter : Nat) (hiter : 1 ≤ iter) :
    hlrf T (fun x => d + dot T.dim c x) (fun _ => c) tol iter
      = some (betaStar T mu sigma c d, uStar T mu sigma c d, getX T (uStar T mu sigma c d)) := by
  obtain ⟨f, rfl⟩ : ∃ f, iter = f + 1 := ⟨iter - 1, by omega⟩
  unfold hlrf
  have hstep := C10m_affine_step T mu sigma h c d
  have hltb : ∀ a : ℝ, (Transc.ltb a tol = true) ↔ a < tol := fun a => ltb_real a tol
  unfold loop
  rw [hstep]
  by_cases h1 : Transc.ltb (norm T.dim (vsub (uStar T mu sigma c d) (fun _ => (one : ℝ)))) tol = true
  · simp only [h1, if_true]
  · simp only [h1]
    by_cases hf : f = 0
    · subst hf; simp
    · obtain ⟨f', rfl⟩ : ∃ f', f = f' + 1 := ⟨f - 1, by omega⟩
      simp only [if_false, Nat.succ_ne_zero, Bool.false_eq_true]
      unfold loop
      rw [hstep]
      have h2 : Transc.ltb (norm T.dim (vsub (uStar T mu sigma c d) (uStar T mu sigma c d))) tol = true := by
        rw [hltb, norm_vsub_self]; exact htol
      simp only [h2, if_true]

/-- the returned design point is on the limit state -/
theorem C10m_affine_on_limit_state (T : Model ℝ) (mu sigma : Vec ℝ) (h : AllNormal T mu sigma) (c : Vec ℝ) (d : ℝ)
    (hw : norm T.dim (wOf T sigma c) ≠ 0) :
    d + dot T.dim c (getX T (uStar T mu sigma c d)) = 0 := by
  rw [affine_in_U T mu sigma h c d]
  have hpos : 0 < norm T.dim (wOf T sigma c) := lt_of_le_of_ne (norm_nonneg _ _) (Ne.symm hw)
  have hns := norm_sq T.dim (wOf T sigma c)
  have : dot T.dim (uStar T mu sigma c d) (wOf T sigma c)
      = -betaStar T mu sigma c d / norm T.dim (wOf T sigma c) * dot T.dim (wOf T sigma c) (wOf T sigma c) := by
    simp only [dot_real, uStar, Finset.mul_sum]
    exact Finset.sum_congr rfl (fun i _ => by ring)
  rw [this, ← hns]
  unfold betaStar
  field_simp
  ring

/-- `‖Lᵀ D c‖² = cᵀ D ρ D c` when `L Lᵀ = ρ`: the squared gradient norm is the variance of `g` -/
theorem C10m_affine_variance (T : Model ℝ) (sigma c : Vec ℝ) (rho : Mat ℝ)
    (hL : ∀ i j, i < T.dim → j < T.dim → ∑ k ∈ range T.dim, T.L i k * T.L j k = rho i j) :
    norm T.dim (wOf T sigma c) * norm T.dim (wOf T sigma c)
      = ∑ i ∈ range T.dim, ∑ j ∈ range T.dim, (sigma i * c i) * rho i j * (sigma j * c j) := by
  rw [norm_sq, dot_real]
  simp only [wOf, tmulVec_real, Finset.sum_mul, Finset.mul_sum]
  rw [Finset.sum_comm]
  refine Finset.sum_congr rfl (fun i hi => ?_)
  rw [Finset.sum_comm]
  refine Finset.sum_congr rfl (fun j hj => ?_)
  rw [← hL i j (Finset.mem_range.mp hi) (Finset.mem_range.mp hj), Finset.mul_sum, Finset.sum_mul]
  exact Finset.sum_congr rfl (fun k _ => by ring)

/-- independent variables (`L = 1`): the exact index is what `mvalFOSM` computes -/
theorem C10m_fosm_agrees (T : Model ℝ) (mu sigma c : Vec ℝ) (d : ℝ)
    (hI : ∀ i j, i < T.dim → j < T.dim → T.L i j = if i = j then 1 else 0) :
    fosm T.dim (fun x => d + dot T.dim c x) (fun _ => c) mu sigma = betaStar T mu sigma c d := by
  unfold fosm betaStar
  dsimp only
  rw [norm_real, fsum_real, sqrt_real]
  congr 2
  refine Finset.sum_congr rfl (fun j hj => ?_)
  have : wOf T sigma c j = sigma j * c j := by
    simp only [wOf, tmulVec_real]
    have : ∀ i ∈ range T.dim, T.L i j * (sigma i * c i) = if i = j then sigma j * c j else 0 := by
      intro i hi
      rw [hI i j (Finset.mem_range.mp hi) (Finset.mem_range.mp hj)]
      by_cases hij : i = j
      · subst hij; simp
      · simp [hij]
    rw [Finset.sum_congr rfl this, Finset.sum_ite_eq' (range T.dim) j]
    simp [hj]
  rw [this]; ring

/-- **the design point of the constrained formulation (`coptFORM`: minimise `‖u‖` subject to `G(u) = 0`) is the
same point**: on the affine limit state `G(u) = b + ⟨u, w⟩` every feasible `u` is at least as far from the
origin as `uStar`, whose distance is `|betaStar|` — so the two FORM algorithms agree on linear-Gaussian problems -/
theorem C10m_affine_copt (T : Model ℝ) (mu sigma c : Vec ℝ) (d : ℝ) (hw : norm T.dim (wOf T sigma c) ≠ 0) (u : Vec ℝ)
    (hfeas : (d + dot T.dim c mu) + dot T.dim u (wOf T sigma c) = 0) :
    |betaStar T mu sigma c d| ≤ norm T.dim u ∧ norm T.dim (uStar T mu sigma c d) = |betaStar T mu sigma c d| := by
  have hpos : 0 < norm T.dim (wOf T sigma c) := lt_of_le_of_ne (norm_nonneg _ _) (Ne.symm hw)
  refine ⟨?_, norm_smul_div T.dim _ _ hw⟩
  have hb : d + dot T.dim c mu = -dot T.dim u (wOf T sigma c) := by linarith
  unfold betaStar
  rw [hb, abs_div, abs_neg, abs_of_pos hpos, div_le_iff₀ hpos]
  exact abs_dot_le _ _ _

/-- non-vacuity: two independent standard normal variables, `g = 3 - x₀ - x₁`: the loop returns `β = 3/√2` -/
example : ∃ T : Model ℝ, AllNormal T (fun _ => 0) (fun _ => 1) ∧ T.dim = 2 ∧
    betaStar T (fun _ => 0) (fun _ => 1) (fun _ => -1) 3 = 3 / Real.sqrt 2 := by
  refine ⟨{ dim := 2, marg := fun _ => .normal 0 1, L := fun i j => if i = j then 1 else 0,
            Linv := fun i j => if i = j then 1 else 0 }, fun _ _ => rfl, rfl, ?_⟩
  unfold betaStar
  simp [dot_real, norm_real, wOf, tmulVec_real, Finset.sum_range_succ]
  norm_num

end FF.Form
