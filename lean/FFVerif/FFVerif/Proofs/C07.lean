/-
C07 — property theorems: counting matrices are a lossless from-to encoding of the digitised count.
`toMatrix` is the code-shaped model of `countingRstToCountingMatrix` (zero matrix, one accumulation
per cycle, end points indexed through the sorted distinct key list).
-/
import FFVerif.Lemmas.Collapse
namespace FF
open C07 C02

theorem keysOK_of_sorted : ∀ keys : List Int, StrictAsc keys → keysOK keys = true
  | [], _ => rfl
  | [_], _ => by simp [keysOK]
  | a :: b :: rest, h => by
    have h' := List.pairwise_cons.mp h
    have ih := keysOK_of_sorted (b :: rest) h'.2
    simp only [keysOK, List.zip_cons_cons, List.all_cons, Bool.and_eq_true, decide_eq_true_eq] at ih ⊢
    exact ⟨h'.1 b (by simp), ih⟩

theorem zip_map_self {β : Type} (l : List Int) (f : Int → β) : (l.map f).zip l = l.map (fun a => (f a, a)) := by
  induction l with
  | nil => rfl
  | cons x l ih => simp [ih]

/-- for every cycle list: sorted distinct keys, a square matrix, entry (i,j) = total count from key i to
key j, entries summing to the total count, and the |key_j - key_i| collapse equal to the aggregated table -/
theorem C07_matrix (cs : List Cyc) :
    C07.failing cs (table cs) (toMatrix cs).1 (toMatrix cs).2 = [] := by
  rw [toMatrix_eq_spec]
  have hn : (matrixKeys cs).Nodup := (sortLevels_sorted _).nodup
  have hk := matrixKeys_mem cs
  have h1 : keysOK (matrixKeys cs) = true := keysOK_of_sorted _ (sortLevels_sorted _)
  have h2 : squareOK (specMatrix cs (matrixKeys cs)) (matrixKeys cs) = true := by
    simp [squareOK, specMatrix]
  have h3 : entriesOK cs (specMatrix cs (matrixKeys cs)) (matrixKeys cs) = true := by
    simp only [entriesOK, specMatrix, zip_map_self, List.all_map, Bool.and_eq_true, List.all_eq_true,
      Function.comp, beq_iff_eq, List.contains_iff_mem]
    exact ⟨fun a _ b _ => trivial, fun c hc => hk c hc⟩
  have h4 : sumOK cs (specMatrix cs (matrixKeys cs)) = true := by
    have := msum_spec cs _ hn hk
    simpa [sumOK, msum] using this
  have h5 : collapseOK (table cs) (specMatrix cs (matrixKeys cs)) (matrixKeys cs) = true := by
    simp [collapseOK, collapse_spec cs _ hn hk]
  simp [C07.failing, h1, h2, h3, h4, h5]

/-- the seven matrix functions: digitise, count, encode -/
theorem C07_functions (k : Counter) (r : Int) (h : List Int) :
    C07.failing (k.run (digitize r h)) (table (k.run (digitize r h)))
      (toMatrix (k.run (digitize r h))).1 (toMatrix (k.run (digitize r h))).2 = [] :=
  C07_matrix _

/-- an empty count gives the empty matrix and no keys -/
theorem C07_empty : toMatrix [] = ([], []) := by
  simp [toMatrix, matrixKeys, sortLevels]

-- non-vacuity: the ASTM example through the rainflow matrix function
example : (toMatrix (rainflow (digitize 1 [-2, 1, -3, 5, -1, 3, -4, 4, -2]))).2 = [-4, -3, -2, -1, 1, 3, 4, 5] := by
  simp [rainflow, digitize, roundHalfEven, pv, pvGo, implGo, rng, halves, toMatrix, matrixKeys, sortLevels, insertLevel]

end FF
