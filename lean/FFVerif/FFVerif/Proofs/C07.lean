import FFVerif.Props.C07
