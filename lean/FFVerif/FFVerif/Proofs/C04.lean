/-
C04 — counting methods agree on closed histories; the repeating count ignores the cut.

Status: the six clauses are stated in full below as `def … : Prop` (nothing is admitted) and are
decided on the implementation by the executable predicates of Props/C04.lean over random histories
and every small history (a test).  Proved here, for every history:
* a history that starts at its maximum is counted by the repeating-history method exactly as by the
  forward pass of range-pair counting, so range-pair = repeating count ++ backward-pass cycles;
* on a history with an odd number of reversals (every history closed at a strict extreme) rainflow
  and range-pair count the same total, (R-1)/2 cycles.
-/
import FFVerif.Proofs.C02
import FFVerif.Lemmas.Filter
import FFVerif.Props.C04
namespace FF
open C02 C04

def C04.AgreeStatement : Prop :=
  ∀ h : List Int, closedAtExtreme h = true → isConstant h = false →
    table (rainflow h) = table (rangePair h) ∧ table (rainflow h) = table (rainflowRepeat h)

def C04.FourPointStatement : Prop :=
  ∀ h : List Int, closedAtExtreme h = true → isConstant h = false →
    tblAdd (span h) 2 (table (fourPoint h)) = table (rainflow h)

/-- cutting the closed period `b ++ [b.head]` at position `k` -/
def C04.CutStatement : Prop :=
  ∀ (b : List Int) (k : Nat) (x y : Int), b.head? = some x → (b.drop k ++ b.take k).head? = some y →
    table (rainflowRepeat (b.drop k ++ b.take k ++ [y])) = table (rainflowRepeat (b ++ [x]))

def C04.ResidueStatement : Prop :=
  ∀ h : List Int, table (fourPoint h ++ halves (fourPointFull h).1) = table (rainflow h)

def C04.NoTieStatement : Prop :=
  ∀ h : List Int, noTies h = true → table (fourPoint h) = table (wholes (rainflow h))

def C04.ContainsStatement : Prop :=
  ∀ (h : List Int) (k : Nat), unitsAt (wholes (rainflow h)) k ≤ unitsAt (rangePair h) k

theorem argmax_zero_rotated (R : List Int) (h0 : argmax R = 0) : rotated R = R := by
  cases R with
  | nil => rfl
  | cons x xs => simp [rotated, h0]

/-- a history that starts at its maximum: the repeating-history count is the forward pass of
range-pair counting on the same reversals -/
theorem C04_repeat_is_forward (h : List Int) (h0 : argmax (pv true h) = 0) :
    rainflowRepeat h = (rpForward [] (pv true h) []).2 := by
  unfold rainflowRepeat
  rw [rotateToMax_eq, argmax_zero_rotated _ h0, pv_true_idem]

/-- the cycles the backward pass adds come after those of the forward pass -/
theorem rpBack_extends (st : List Int) (out : List Cyc) : ∃ extra, (rpBack st out).2 = out ++ extra := by
  fun_induction rpBack st out with
  | case1 c b a rest out hle r ih =>
    obtain ⟨e, he⟩ := ih
    exact ⟨⟨b, c, false⟩ :: e, by
      show (rpBack (a :: rest) (out ++ [⟨b, c, false⟩])).2 = _
      rw [he]; simp⟩
  | case2 c b a rest out hgt r ih =>
    obtain ⟨e, he⟩ := ih
    exact ⟨e, by show (rpBack (b :: a :: rest) out).2 = _; exact he⟩
  | case3 st out hne => exact ⟨[], by simp⟩

/-- … hence range-pair counting = repeating-history count followed by the backward-pass cycles -/
theorem C04_rangePair_extends_repeat (h : List Int) (h0 : argmax (pv true h) = 0) :
    ∃ extra, rangePair h = rainflowRepeat h ++ extra := by
  rw [C04_repeat_is_forward h h0]
  exact rpBack_extends _ _

/-- with an odd number of reversals rainflow and range-pair both count exactly (R-1)/2 cycles -/
theorem C04_totals_agree (h : List Int) (hc : isConstant h = false) (hodd : (pv true h).length % 2 = 1) :
    totalUnits (rangePair h) = totalUnits (rainflow h) := by
  have t1 := (census_core .rainflow h hc).total
  have t2 := (census_core .rangepair h hc).total
  have t3 := C02_leftover .rangepair h hc
  have wh := (census_core .rangepair h hc).whole rfl
  simp only [Counter.exact, Counter.run, if_true, Bool.false_eq_true, if_false] at t1 t2
  simp only [leftoverOK, bne_self_eq_false, Bool.false_or, decide_eq_true_eq, Counter.run,
    ← pv_true_eq_reversals] at t3
  -- whole cycles only: the total is even
  have heven : totalUnits (rangePair h) % 2 = 0 := by
    have : ∀ cs : List Cyc, (∀ c ∈ cs, c.half = false) → totalUnits cs % 2 = 0 := by
      intro cs
      induction cs with
      | nil => intro _; rfl
      | cons c cs ih =>
        intro hw
        have h1 := hw c List.mem_cons_self
        have h2 := ih (fun c' hc' => hw c' (List.mem_cons_of_mem _ hc'))
        simp only [totalUnits, List.map_cons, List.sum_cons, Cyc.units, h1] at h2 ⊢
        simp; omega
    exact this _ wh
  omega

-- non-vacuity: the ASTM example starts elsewhere; a history starting at its maximum
example : argmax (pv true [5, -1, 3, -4, 4, -2, 1, -3, 5]) = 0 := by
  simp [pv, pvGo, argmax, argmaxGo]

end FF
