/-
C13 — property theorems about the level bookkeeping of subset simulation (`FF.Subset`), for every
oracle stream, i.e. every Markov-chain history that respects the sampler's contract (C14: a move is
kept only if the domain test `g < threshold` passes, so every chain state stays at or below the
threshold of its level).
-/
import FFVerif.Model.Subset
import FFVerif.Model.Sampler
namespace FF
open Subset

def Asc : List Int → Prop
  | a :: b :: rest => a ≤ b ∧ Asc (b :: rest)
  | _ => True

theorem insertAsc_length (x : Int) (l : List Int) : (insertAsc x l).length = l.length + 1 := by
  induction l with
  | nil => rfl
  | cons y t ih => simp only [insertAsc]; split <;> simp [ih]

theorem insertAsc_mem (x : Int) (l : List Int) (v : Int) : v ∈ insertAsc x l ↔ v = x ∨ v ∈ l := by
  induction l with
  | nil => simp [insertAsc]
  | cons y t ih => simp only [insertAsc]; split <;> simp [ih] <;> grind

theorem insertAsc_asc (x : Int) : ∀ l : List Int, Asc l → Asc (insertAsc x l)
  | [], _ => by simp [insertAsc, Asc]
  | [y], _ => by
    simp only [insertAsc]; split
    · exact ⟨by omega, trivial⟩
    · exact ⟨by omega, trivial⟩
  | y :: z :: t, h => by
    have ih := insertAsc_asc x (z :: t) h.2
    simp only [insertAsc] at ih ⊢
    split
    · exact ⟨by omega, h⟩
    · split
      · exact ⟨by omega, by omega, h.2⟩
      · rename_i h1 h2
        simp only [h2, if_false] at ih
        exact ⟨h.1, ih⟩

theorem sortAsc_spec (l : List Int) : Asc (sortAsc l) ∧ (sortAsc l).length = l.length ∧ ∀ v, v ∈ sortAsc l ↔ v ∈ l := by
  induction l with
  | nil => simp [sortAsc, Asc]
  | cons x l ih =>
    obtain ⟨i1, i2, i3⟩ := ih
    refine ⟨insertAsc_asc x _ i1, by simp [sortAsc, insertAsc_length] at i2 ⊢; exact i2, fun v => ?_⟩
    simp only [sortAsc, List.foldr_cons] at i3 ⊢
    rw [insertAsc_mem, i3]; simp

/-- each level holds exactly the requested number of samples, sorted by limit-state value -/
theorem C13_level_sorted (nc : Nat) (buf : List Int) :
    Asc (levelOf nc buf).values ∧ (levelOf nc buf).values.length = buf.length := by
  unfold levelOf
  simp only []
  split <;> exact ⟨(sortAsc_spec buf).1, (sortAsc_spec buf).2.1⟩

/-- in an ascending list everything up to position `k` is at most the entry at `k` -/
theorem asc_take_le : ∀ (l : List Int) (k : Nat), Asc l → k < l.length → ∀ v ∈ l.take (k + 1), v ≤ l.getD k 0
  | [], k, _, hk, _, _ => by simp at hk
  | [x], 0, _, _, v, hv => by simp at hv; simp [hv]
  | [x], k + 1, _, hk, _, _ => by simp at hk
  | x :: y :: t, 0, _, _, v, hv => by simp at hv; simp [hv]
  | x :: y :: t, k + 1, h, hk, v, hv => by
    have ih := asc_take_le (y :: t) k h.2 (by simpa using hk)
    simp only [List.take_succ_cons, List.mem_cons] at hv
    have hd : (x :: y :: t).getD (k + 1) 0 = (y :: t).getD k 0 := by simp
    rw [hd]
    rcases hv with rfl | hv
    · have : y ≤ (y :: t).getD k 0 := ih y (by simp)
      have := h.1; omega
    · exact ih v (by simpa using hv)

/-- the seeds of a level are at or below its threshold -/
theorem seeds_le_threshold (nc : Nat) (buf : List Int) (hnc : 1 ≤ nc) (hlen : nc ≤ buf.length) :
    ∀ v ∈ (levelOf nc buf).values.take nc, v ≤ (levelOf nc buf).threshold := by
  have hs := sortAsc_spec buf
  have key := asc_take_le (sortAsc buf) (nc - 1) hs.1 (by rw [hs.2.1]; omega)
  have e : nc - 1 + 1 = nc := by omega
  rw [e] at key
  unfold levelOf
  simp only []
  split
  · intro v hv; have := key v hv; simp only; omega
  · intro v hv; exact key v hv

/-- nestedness: if every chain state respects the sampler's contract (value at or below the level's
threshold) and the chains renew the whole level (`nc + Σ chain lengths = N`), then every sample of
the next level is at or below the threshold of the current one -/
theorem C13_nested (nc : Nat) (buf : List Int) (chains : List (List Int)) (hnc : 1 ≤ nc) (hlen : nc ≤ buf.length)
    (hfill : nc + chains.flatten.length = buf.length)
    (hcontract : ∀ ch ∈ chains, ∀ v ∈ ch, v ≤ (levelOf nc buf).threshold) :
    ∀ v ∈ nextBuffer nc (levelOf nc buf).values chains, v ≤ (levelOf nc buf).threshold := by
  intro v hv
  unfold nextBuffer at hv
  simp only [List.mem_append] at hv
  have hl : (levelOf nc buf).values.length = buf.length := (C13_level_sorted nc buf).2
  rcases hv with (hv | hv) | hv
  · exact seeds_le_threshold nc buf hnc hlen v hv
  · obtain ⟨ch, hch, hvch⟩ := List.mem_flatten.mp hv
    exact hcontract ch hch v hvch
  · -- nothing is left over
    have : ((levelOf nc buf).values.take nc ++ chains.flatten).length = (levelOf nc buf).values.length := by
      rw [List.length_append, List.length_take, hl]; omega
    rw [this, List.drop_length] at hv
    cases hv

/-- the next level again has exactly the requested number of samples -/
theorem C13_next_length (nc : Nat) (sorted : List Int) (chains : List (List Int))
    (h : nc + chains.flatten.length ≤ sorted.length) (hnc : nc ≤ sorted.length) :
    (nextBuffer nc sorted chains).length = sorted.length := by
  unfold nextBuffer
  simp only [List.length_append, List.length_take, List.length_drop]
  omega

/-- pf: the product of `p0 = a/b` over the intermediate levels times the failure fraction `k/N` of the
last level is a probability -/
theorem C13_pf_in_unit (a b m k N : Nat) (hab : a ≤ b) (hkN : k ≤ N) : a ^ m * k ≤ b ^ m * N :=
  Nat.mul_le_mul (Nat.pow_le_pow_left hab m) hkN

/-- the stored failure fraction never exceeds one -/
theorem C13_fraction_le (nc : Nat) (buf : List Int) (k : Nat) (h : (levelOf nc buf).prob = some k) : k ≤ buf.length := by
  unfold levelOf at h
  simp only [] at h
  split at h
  · simp only [Option.some.injEq] at h
    rw [← h, ← (sortAsc_spec buf).2.1]
    exact List.length_filter_le _ _
  · cases h

/-- the defect this check found (now repaired in the source): when the chains do not renew the whole
level, rows of the previous level above the threshold survive — N = 10, p0 = 0.3 (3 chains of 3 states) -/
example : ∃ v ∈ nextBuffer 3 [-5, -2, 1, 2, 3, 4, 5, 6, 7, 8] [[-5, -6], [-2, -2], [1, 0]], v > 1 := by
  decide

/-! ### the returned probability -/

theorem pf_nil (a b N : Nat) : pf a b N [] = (1, 1) := rfl

theorem pf_cons (a b N : Nat) (lv : Level) (t : List Level) :
    pf a b N (lv :: t) = match lv.prob with
      | none => (a * (pf a b N t).1, b * (pf a b N t).2)
      | some k => (k * (pf a b N t).1, N * (pf a b N t).2) := rfl

/-- a level either stored `p0` and has a positive threshold, or stored its failure fraction and has threshold `0` -/
theorem levelOf_cases (nc : Nat) (buf : List Int) :
    ((levelOf nc buf).prob = none ∧ 0 < (levelOf nc buf).threshold) ∨
    ((levelOf nc buf).prob.isSome = true ∧ (levelOf nc buf).threshold = 0) := by
  unfold levelOf
  simp only []
  split
  · right; exact ⟨rfl, rfl⟩
  · left; refine ⟨rfl, ?_⟩; simp only []; omega

/-- levels that all stored `p0` contribute `p0 ^ m` -/
theorem pf_all_p0 (a b N : Nat) (levels : List Level) (h : ∀ lv ∈ levels, lv.prob = none) :
    pf a b N levels = (a ^ levels.length, b ^ levels.length) := by
  induction levels with
  | nil => rfl
  | cons lv t ih =>
    rw [pf_cons, h lv (List.mem_cons_self), ih (fun l hl => h l (List.mem_cons_of_mem _ hl))]
    simp [Nat.pow_succ, Nat.mul_comm]

/-- **shape of a run**: every level before the last stored `p0` and has a positive threshold; the loop stops
at the first level whose threshold is `0` (which stored its failure fraction) -/
theorem run_shape (nc : Nat) : ∀ (fuel maxSub : Nat) (buf : List Int) (oracle : List (List (List Int))) (init : List Level) (last : Level),
    run nc maxSub fuel buf oracle = init ++ [last] → ∀ lv ∈ init, lv.prob = none ∧ 0 < lv.threshold := by
  intro fuel
  induction fuel with
  | zero => intro maxSub buf oracle init last h; simp [run] at h
  | succ f ih =>
    intro maxSub buf oracle init last h lv hlv
    unfold run at h
    split at h
    · simp at h
    · simp only [] at h
      split at h
      · -- the loop stops here: one level
        cases init with
        | nil => cases hlv
        | cons x t =>
          have := congrArg List.length h
          simp at this
      · rename_i hstop
        cases oracle with
        | nil =>
          cases init with
          | nil => cases hlv
          | cons x t =>
            have := congrArg List.length h
            simp at this
        | cons chains rest =>
          simp only [] at h
          cases init with
          | nil =>
            have := congrArg List.length h
            simp at this
            cases hlv
          | cons x t =>
            simp only [List.cons_append, List.cons.injEq] at h
            obtain ⟨hx, ht⟩ := h
            rcases List.mem_cons.mp hlv with rfl | hmem
            · -- the level just computed did not stop the loop
              rw [← hx]
              rcases levelOf_cases nc buf with hc | hc
              · exact hc
              · exfalso; apply hstop; exact ⟨by rw [hc.2]; exact Int.le_refl 0, hc.1⟩
            · exact ih _ _ _ t last ht lv hmem

/-- **pf clause**: when the last level reached the zero threshold with `k` of its `N` samples in the failure
set, the returned probability is `p0 ^ (m - 1) · k / N` for `m` levels -/
theorem C13_pf_product (nc fuel maxSub : Nat) (buf : List Int) (oracle : List (List (List Int))) (a b N : Nat)
    (init : List Level) (last : Level) (k : Nat)
    (hrun : run nc maxSub fuel buf oracle = init ++ [last]) (hlast : last.prob = some k) :
    pf a b N (run nc maxSub fuel buf oracle) = (a ^ init.length * k, b ^ init.length * N) := by
  rw [hrun]
  have hinit := fun lv h => (run_shape nc fuel maxSub buf oracle init last hrun lv h).1
  clear hrun
  induction init with
  | nil => simp [pf_cons, hlast, pf_nil]
  | cons lv t ih =>
    rw [List.cons_append, pf_cons, hinit lv (List.mem_cons_self), ih (fun l hl => hinit l (List.mem_cons_of_mem _ hl))]
    simp [Nat.pow_succ, Nat.mul_comm, Nat.mul_left_comm]

/-- … hence within `[0, 1]` -/
theorem C13_pf_le_one (nc fuel maxSub : Nat) (buf : List Int) (oracle : List (List (List Int))) (a b N : Nat)
    (init : List Level) (last : Level) (k : Nat)
    (hrun : run nc maxSub fuel buf oracle = init ++ [last]) (hlast : last.prob = some k) (hab : a ≤ b) (hk : k ≤ N) :
    (pf a b N (run nc maxSub fuel buf oracle)).1 ≤ (pf a b N (run nc maxSub fuel buf oracle)).2 := by
  rw [C13_pf_product nc fuel maxSub buf oracle a b N init last k hrun hlast]
  exact C13_pf_in_unit a b init.length k N hab hk

/-- non-vacuity: `N = 4`, `p0 = 1/2`: first level threshold 1, second level reaches 0 with 3 failures: pf = 1/2 · 3/4 -/
example : pf 1 2 4 (run 2 5 6 [3, 1, 0, 2] [[[-1], [0]]]) = (3, 8) := by decide

/-! ### the chain contract from the sampler model (composition of C14 and C13) -/

/-- the domain function handed to the component-wise sampler by `subsetSimulation`
(`sampleDomainFunc`): a move to a different point is kept iff the limit state there is below the level -/
def subsetDomain (g : List Int → Int) (thr : Int) (cur nxt : List Int) : Bool :=
  decide (nxt ≠ cur) && decide (g nxt < thr)

/-- the successive states of one chain: the component-wise sampler step of `Model/Sampler.lean` iterated
over the scripted proposals and uniform draws -/
def chainStates (fs : List (Int → Int)) (g : List Int → Int) (thr : Int) :
    List Int → List (List Int × List (Nat × Nat)) → Except String (List (List Int))
  | _, [] => .ok []
  | cur, (cands, us) :: rest =>
    match Sampler.auStep fs (subsetDomain g thr) cur cands us with
    | .error e => .error e
    | .ok nxt =>
      match chainStates fs g thr nxt rest with
      | .error e => .error e
      | .ok states => .ok (nxt :: states)

/-- one step keeps the limit-state value at or below the level -/
theorem auStep_contract (fs : List (Int → Int)) (g : List Int → Int) (thr : Int) (cur cands : List Int)
    (us : List (Nat × Nat)) (nxt : List Int) (hcur : g cur ≤ thr)
    (h : Sampler.auStep fs (subsetDomain g thr) cur cands us = .ok nxt) : g nxt ≤ thr := by
  unfold Sampler.auStep at h
  cases hA : Sampler.auAssemble fs cur cands us with
  | error e => rw [hA] at h; cases h
  | ok a =>
    rw [hA] at h
    simp only [bind, Except.bind, pure, Except.pure, Except.ok.injEq] at h
    by_cases hd : subsetDomain g thr cur a = true
    · rw [if_pos hd] at h
      subst h
      unfold subsetDomain at hd
      simp only [Bool.and_eq_true, decide_eq_true_eq] at hd
      omega
    · rw [if_neg hd] at h
      subst h
      exact hcur

/-- **the sampler contract**: every state of a chain started at a seed at or below the level stays at or below it -/
theorem chain_contract (fs : List (Int → Int)) (g : List Int → Int) (thr : Int) :
    ∀ (steps : List (List Int × List (Nat × Nat))) (cur : List Int) (states : List (List Int)),
      g cur ≤ thr → chainStates fs g thr cur steps = .ok states → ∀ s ∈ states, g s ≤ thr := by
  intro steps
  induction steps with
  | nil => intro cur states _ h s hs; simp [chainStates] at h; subst h; cases hs
  | cons st rest ih =>
    intro cur states hcur h s hs
    obtain ⟨cands, us⟩ := st
    unfold chainStates at h
    cases hstep : Sampler.auStep fs (subsetDomain g thr) cur cands us with
    | error e => rw [hstep] at h; cases h
    | ok nxt =>
      rw [hstep] at h
      simp only [] at h
      cases hrest : chainStates fs g thr nxt rest with
      | error e => rw [hrest] at h; cases h
      | ok sts =>
        rw [hrest] at h
        simp only [Except.ok.injEq] at h
        subst h
        have hn := auStep_contract fs g thr cur cands us nxt hcur hstep
        rcases List.mem_cons.mp hs with rfl | hmem
        · exact hn
        · exact ih nxt sts hn hrest s hmem

/-- **nestedness, end to end on the models**: when the chains of a level are runs of the component-wise sampler model
with the domain function of `subsetSimulation`, started at seeds at or below the level's threshold, and renew the whole
level, every sample of the next level is at or below that threshold -/
theorem C13_nested_from_sampler (nc : Nat) (buf : List Int) (fs : List (Int → Int)) (g : List Int → Int)
    (runs : List (List Int × List (List Int × List (Nat × Nat)) × List (List Int)))
    (hnc : 1 ≤ nc) (hlen : nc ≤ buf.length)
    (hfill : nc + ((runs.map (fun r => r.2.2.map g)).flatten).length = buf.length)
    (hseed : ∀ r ∈ runs, g r.1 ≤ (levelOf nc buf).threshold)
    (hrun : ∀ r ∈ runs, chainStates fs g (levelOf nc buf).threshold r.1 r.2.1 = .ok r.2.2) :
    ∀ v ∈ nextBuffer nc (levelOf nc buf).values (runs.map (fun r => r.2.2.map g)), v ≤ (levelOf nc buf).threshold := by
  apply C13_nested nc buf _ hnc hlen hfill
  intro ch hch v hv
  obtain ⟨r, hr, rfl⟩ := List.mem_map.mp hch
  obtain ⟨s, hs, rfl⟩ := List.mem_map.mp hv
  exact chain_contract fs g _ r.2.1 r.1 r.2.2 (hseed r hr) (hrun r hr) s hs

end FF
