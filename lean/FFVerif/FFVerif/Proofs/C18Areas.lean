/-
C18 (areas) — the area under each translated spectrum equals its documented variance.
-/
import Mathlib.MeasureTheory.Integral.IntegralEqImproper
import Mathlib.Analysis.SpecialFunctions.Gaussian.GaussianIntegral
import Mathlib.Analysis.SpecialFunctions.Pow.Deriv
import Mathlib.Analysis.SpecialFunctions.Pow.Asymptotics
import Mathlib.Analysis.SpecialFunctions.Gamma.Basic
import FFVerif.Proofs.C18
namespace FF
open Gen
open MeasureTheory Set Filter Topology

/-! ### the family `w ^ (-(4 μ + 1)) * exp (-a / w ^ 4)` (ISSC, Pierson–Moskowitz, Ochi–Hubble) -/

/-- `∫_0^∞ w^(-(4μ+1)) exp(-a w^(-4)) dw = Γ(μ) / (4 a^μ)` by the substitution `y = w^(-4)` -/
theorem area_rpow_exp (a μ : ℝ) (ha : 0 < a) (hμ : 0 < μ) :
    ∫ w in Ioi (0:ℝ), w ^ (-(4 * μ + 1)) * Real.exp (-(a * w ^ (-4 : ℝ))) =
      Real.Gamma μ / (4 * a ^ μ) := by
  have h1 := integral_comp_rpow_Ioi (fun y : ℝ => y ^ (μ - 1) * Real.exp (-(a * y)))
    (p := (-4 : ℝ)) (by norm_num)
  rw [Real.integral_rpow_mul_exp_neg_mul_Ioi hμ ha] at h1
  have h2 : ∫ w in Ioi (0:ℝ), w ^ (-(4 * μ + 1)) * Real.exp (-(a * w ^ (-4 : ℝ))) =
      (1 / 4) * ∫ x in Ioi (0:ℝ), (|(-4 : ℝ)| * x ^ ((-4 : ℝ) - 1)) •
        ((x ^ (-4 : ℝ)) ^ (μ - 1) * Real.exp (-(a * x ^ (-4 : ℝ)))) := by
    rw [← integral_const_mul]
    refine setIntegral_congr_fun measurableSet_Ioi (fun x hx => ?_)
    have hx0 : (0:ℝ) < x := hx
    have e1 : (x ^ (-4 : ℝ)) ^ (μ - 1) = x ^ ((-4 : ℝ) * (μ - 1)) := by
      rw [← Real.rpow_mul hx0.le]
    have e2 : x ^ (-(4 * μ + 1)) = x ^ ((-4 : ℝ) - 1) * x ^ ((-4 : ℝ) * (μ - 1)) := by
      rw [← Real.rpow_add hx0]; congr 1; ring
    have e3 : |(-4 : ℝ)| = 4 := by rw [abs_neg]; norm_num
    simp only [smul_eq_mul]
    rw [e1, e2, e3]; ring
  rw [h2, h1, Real.div_rpow zero_le_one ha.le, Real.one_rpow]
  field_simp

/-- `∫_0^∞ c / w^5 * exp(-(a / w^4)) dw = c / (4 a)` -/
theorem area_pow5_exp (c a : ℝ) (ha : 0 < a) :
    ∫ w in Ioi (0:ℝ), c / w ^ 5 * Real.exp (-(a / w ^ 4)) = c / (4 * a) := by
  have h := area_rpow_exp a 1 ha one_pos
  have h2 : ∫ w in Ioi (0:ℝ), c / w ^ 5 * Real.exp (-(a / w ^ 4)) =
      c * ∫ w in Ioi (0:ℝ), w ^ (-(4 * (1:ℝ) + 1)) * Real.exp (-(a * w ^ (-4 : ℝ))) := by
    rw [← integral_const_mul]
    refine setIntegral_congr_fun measurableSet_Ioi (fun x hx => ?_)
    have hx0 : (0:ℝ) < x := hx
    have e1 : x ^ (-(4 * (1:ℝ) + 1)) = (x ^ 5)⁻¹ := by
      have : (-(4 * (1:ℝ) + 1)) = -((5:ℕ) : ℝ) := by norm_num
      rw [this, Real.rpow_neg hx0.le, Real.rpow_natCast]
    have e2 : x ^ (-4 : ℝ) = (x ^ 4)⁻¹ := by
      have : (-4 : ℝ) = -((4:ℕ) : ℝ) := by norm_num
      rw [this, Real.rpow_neg hx0.le, Real.rpow_natCast]
    rw [e1, e2]; ring_nf
  rw [h2, h, Real.Gamma_one, Real.rpow_one]; ring

theorem C18_area_issc (wp Hs : ℝ) (hwp : 0 < wp) :
    ∫ w in Ioi (0:ℝ), isscSpectrum w wp Hs = Hs ^ 2 / 16 := by
  have ha : 0 < 5 / 4 * wp ^ 4 := by positivity
  have h := area_pow5_exp (5 / 16 * Hs ^ 2 * wp ^ 4) (5 / 4 * wp ^ 4) ha
  have h2 : ∫ w in Ioi (0:ℝ), isscSpectrum w wp Hs =
      ∫ w in Ioi (0:ℝ), (5 / 16 * Hs ^ 2 * wp ^ 4) / w ^ 5 * Real.exp (-((5 / 4 * wp ^ 4) / w ^ 4)) := by
    refine setIntegral_congr_fun measurableSet_Ioi (fun x hx => ?_)
    have hx0 : (0:ℝ) < x := hx
    rw [issc_closed]
    have e : -(5 / 4) * (wp / x) ^ 4 = -((5 / 4 * wp ^ 4) / x ^ 4) := by
      field_simp
    rw [e]; field_simp
  rw [h2, h]; field_simp

theorem C18_area_pm (Uw al be g : ℝ) (hU : 0 < Uw) (hal : 0 ≤ al) (hbe : 0 < be) (hg : 0 < g) :
    ∫ w in Ioi (0:ℝ), piersonMoskowitzSpectrum w Uw al be g = al * g ^ 2 / (4 * be) * (Uw / g) ^ 4 := by
  have ha : 0 < be * (g / Uw) ^ 4 := by positivity
  have h := area_pow5_exp (al * g ^ 2) (be * (g / Uw) ^ 4) ha
  have h2 : ∫ w in Ioi (0:ℝ), piersonMoskowitzSpectrum w Uw al be g =
      ∫ w in Ioi (0:ℝ), (al * g ^ 2) / w ^ 5 * Real.exp (-((be * (g / Uw) ^ 4) / w ^ 4)) := by
    refine setIntegral_congr_fun measurableSet_Ioi (fun x hx => ?_)
    have hx0 : (0:ℝ) < x := hx
    rw [pm_closed]
    have e : -be * (g / Uw / x) ^ 4 = -((be * (g / Uw) ^ 4) / x ^ 4) := by
      field_simp
    rw [e]; ring
  rw [h2, h]; field_simp

/-! ### Gaussian swell -/

theorem C18_area_gaussian (wp Hs sg : ℝ) (hsg : 0 < sg) :
    ∫ w : ℝ, gaussianSwellSpectrum w wp Hs sg = Hs ^ 2 / 16 := by
  have hpi := Real.pi_pos
  have hb : ∃ b : ℝ, b = 1 / (2 * (2 * Real.pi * sg) ^ 2) := ⟨_, rfl⟩
  obtain ⟨b, hb⟩ := hb
  have hbpos : 0 < b := by rw [hb]; positivity
  have h1 : ∀ w, gaussianSwellSpectrum w wp Hs sg =
      Hs * Hs / (16 * sg * (2 * Real.pi) ^ (3 / 2 : ℝ)) *
        (fun x : ℝ => Real.exp (-b * x ^ 2)) (w - wp) := by
    intro w
    rw [gaussian_closed]
    beta_reduce
    have e : -(((w - wp) / (2 * Real.pi * sg)) ^ 2 / 2) = -b * (w - wp) ^ 2 := by
      rw [hb]; field_simp
    rw [e]
  simp_rw [h1]
  rw [integral_const_mul, integral_sub_right_eq_self (fun x : ℝ => Real.exp (-b * x ^ 2)) wp,
    integral_gaussian]
  have e : Real.pi / b = (2 * Real.pi) * (2 * Real.pi * sg) ^ 2 := by rw [hb]; field_simp
  have e2 : (2 * Real.pi) ^ (3 / 2 : ℝ) = 2 * Real.pi * Real.sqrt (2 * Real.pi) := by
    have : (3 / 2 : ℝ) = 1 + 1 / 2 := by norm_num
    rw [this, Real.rpow_add (by positivity), Real.rpow_one, Real.sqrt_eq_rpow]
  rw [e, Real.sqrt_mul (by positivity), Real.sqrt_sq (by positivity), e2]
  have hs : 0 < Real.sqrt (2 * Real.pi) := Real.sqrt_pos.mpr (by positivity)
  field_simp

/-! ### the family `A / (1 + B f) ^ (5/3)` (IEC 61400-1 Kaimal, EN 1991-1-4) -/

theorem area_rational53 (A B : ℝ) (hA : 0 ≤ A) (hB : 0 < B) :
    ∫ f in Ioi (0:ℝ), A / (1 + B * f) ^ (5 / 3 : ℝ) = 3 * A / (2 * B) := by
  have key := integral_Ioi_of_hasDerivAt_of_nonneg' (a := (0:ℝ))
    (g := fun f : ℝ => -(3 * A / (2 * B)) * (1 + B * f) ^ (-(2 / 3) : ℝ))
    (g' := fun f : ℝ => A / (1 + B * f) ^ (5 / 3 : ℝ)) (l := 0) ?_ ?_ ?_
  · rw [key]; simp
  · intro x hx
    have hx0 : (0:ℝ) ≤ x := hx
    have hpos : 0 < 1 + B * x := by positivity
    have h1 : HasDerivAt (fun f : ℝ => 1 + B * f) B x := by
      simpa using ((hasDerivAt_id x).const_mul B).const_add 1
    have h2 := (h1.rpow_const (p := (-(2 / 3) : ℝ)) (Or.inl hpos.ne')).const_mul
      (-(3 * A / (2 * B)))
    refine h2.congr_deriv ?_
    have : (-(2 / 3) : ℝ) - 1 = -(5 / 3) := by norm_num
    rw [this, Real.rpow_neg hpos.le]; field_simp
  · intro x hx
    have : (0:ℝ) < x := hx
    positivity
  · have h1 : Tendsto (fun f : ℝ => 1 + B * f) atTop atTop :=
      tendsto_atTop_add_const_left _ _ (tendsto_id.const_mul_atTop hB)
    have h2 := (tendsto_rpow_neg_atTop (y := 2 / 3) (by norm_num)).comp h1
    have h3 := h2.const_mul (-(3 * A / (2 * B)))
    simpa using h3

/-- the dimensional Kaimal-type form `a x / (1 + b x)^(5/3) * σ² / f` at `x = f L / v` -/
theorem area_kaimal (a b L v sk : ℝ) (ha : 0 ≤ a) (hb : 0 < b) (hL : 0 < L) (hv : 0 < v) :
    ∫ f in Ioi (0:ℝ), a * (f * L / v) / (1 + b * (f * L / v)) ^ (5 / 3 : ℝ) * sk * sk / f =
      3 * a / (2 * b) * sk ^ 2 := by
  have hc : 0 < L / v := div_pos hL hv
  have h := area_rational53 (a * (L / v) * sk ^ 2) (b * (L / v))
    (by positivity) (by positivity)
  have h2 : ∫ f in Ioi (0:ℝ), a * (f * L / v) / (1 + b * (f * L / v)) ^ (5 / 3 : ℝ) * sk * sk / f =
      ∫ f in Ioi (0:ℝ), (a * (L / v) * sk ^ 2) / (1 + b * (L / v) * f) ^ (5 / 3 : ℝ) := by
    refine setIntegral_congr_fun measurableSet_Ioi (fun x hx => ?_)
    have hx0 : (0:ℝ) < x := hx
    have e : b * (x * L / v) = b * (L / v) * x := by ring
    have hpos : 0 < (1 + b * (L / v) * x) ^ (5 / 3 : ℝ) := by positivity
    rw [e]; field_simp
  rw [h2, h]; field_simp

theorem iecLambda_pos (z : ℝ) (hz : 0 < z) : 0 < iecLambda z := by
  unfold iecLambda; split_ifs <;> positivity

theorem C18_area_iec1 (v s z : ℝ) (hv : 0 < v) (hz : 0 < z) :
    ∫ f in Ioi (0:ℝ), iecDim1 f v s z = (1 * s) ^ 2 := by
  have hl := iecLambda_pos z hz
  have h := area_kaimal 4 6 (81 / 10 * iecLambda z) v (1 * s) (by norm_num) (by norm_num)
    (by positivity) hv
  unfold iecDim1; simp only []; rw [iec_lambda_eq]
  simp only [lit_real, rpow_real, Nat.cast_ofNat, Nat.cast_one, pow_zero, div_one, pow_one]
  rw [h]; norm_num

theorem C18_area_iec2 (v s z : ℝ) (hv : 0 < v) (hz : 0 < z) :
    ∫ f in Ioi (0:ℝ), iecDim2 f v s z = (8 / 10 * s) ^ 2 := by
  have hl := iecLambda_pos z hz
  have h := area_kaimal 4 6 (27 / 10 * iecLambda z) v (8 / 10 * s) (by norm_num) (by norm_num)
    (by positivity) hv
  unfold iecDim2; simp only []; rw [iec_lambda_eq]
  simp only [lit_real, rpow_real, Nat.cast_ofNat, Nat.cast_one, pow_zero, div_one, pow_one]
  rw [h]; norm_num

theorem C18_area_iec3 (v s z : ℝ) (hv : 0 < v) (hz : 0 < z) :
    ∫ f in Ioi (0:ℝ), iecDim3 f v s z = (5 / 10 * s) ^ 2 := by
  have hl := iecLambda_pos z hz
  have h := area_kaimal 4 6 (66 / 10 ^ 2 * iecLambda z) v (5 / 10 * s) (by norm_num) (by norm_num)
    (by positivity) hv
  unfold iecDim3; simp only []; rw [iec_lambda_eq]
  simp only [lit_real, rpow_real, Nat.cast_ofNat, Nat.cast_one, pow_zero, div_one, pow_one]
  rw [h]; norm_num

/-! ### EN 1991-1-4 (five terrain categories) -/

theorem C18_area_ec1_0 (uz s z : ℝ) (hu : 0 < uz) (hz : 0 < z) :
    ∫ n in Ioi (0:ℝ), ec1Dim0 n uz s z = s ^ 2 := by
  unfold ec1Dim0
  simp only [lit_real, rpow_real, max2_real, log_real, Nat.cast_ofNat, Nat.cast_one, pow_zero,
    div_one, pow_one]
  rw [area_kaimal (68 / 10) (102 / 10) _ uz s (by norm_num) (by norm_num) ?_ hu]
  · norm_num
  · positivity

theorem C18_area_ec1_1 (uz s z : ℝ) (hu : 0 < uz) (hz : 0 < z) :
    ∫ n in Ioi (0:ℝ), ec1Dim1 n uz s z = s ^ 2 := by
  unfold ec1Dim1
  simp only [lit_real, rpow_real, max2_real, log_real, Nat.cast_ofNat, Nat.cast_one, pow_zero,
    div_one, pow_one]
  rw [area_kaimal (68 / 10) (102 / 10) _ uz s (by norm_num) (by norm_num) ?_ hu]
  · norm_num
  · positivity

theorem C18_area_ec1_2 (uz s z : ℝ) (hu : 0 < uz) (hz : 0 < z) :
    ∫ n in Ioi (0:ℝ), ec1Dim2 n uz s z = s ^ 2 := by
  unfold ec1Dim2
  simp only [lit_real, rpow_real, max2_real, log_real, Nat.cast_ofNat, Nat.cast_one, pow_zero,
    div_one, pow_one]
  rw [area_kaimal (68 / 10) (102 / 10) _ uz s (by norm_num) (by norm_num) ?_ hu]
  · norm_num
  · positivity

theorem C18_area_ec1_3 (uz s z : ℝ) (hu : 0 < uz) (hz : 0 < z) :
    ∫ n in Ioi (0:ℝ), ec1Dim3 n uz s z = s ^ 2 := by
  unfold ec1Dim3
  simp only [lit_real, rpow_real, max2_real, log_real, Nat.cast_ofNat, Nat.cast_one, pow_zero,
    div_one, pow_one]
  rw [area_kaimal (68 / 10) (102 / 10) _ uz s (by norm_num) (by norm_num) ?_ hu]
  · norm_num
  · positivity

theorem C18_area_ec1_4 (uz s z : ℝ) (hu : 0 < uz) (hz : 0 < z) :
    ∫ n in Ioi (0:ℝ), ec1Dim4 n uz s z = s ^ 2 := by
  unfold ec1Dim4
  simp only [lit_real, rpow_real, max2_real, log_real, Nat.cast_ofNat, Nat.cast_one, pow_zero,
    div_one, pow_one]
  rw [area_kaimal (68 / 10) (102 / 10) _ uz s (by norm_num) (by norm_num) ?_ hu]
  · norm_num
  · positivity

/-! ### Davenport -/

theorem area_davenport (K b : ℝ) (hK : 0 ≤ K) (hb : 0 < b) :
    ∫ n in Ioi (0:ℝ), K * (4 * b ^ 2 * n) / (1 + b ^ 2 * n ^ 2) ^ (4 / 3 : ℝ) = 6 * K := by
  have key := integral_Ioi_of_hasDerivAt_of_nonneg' (a := (0:ℝ))
    (g := fun n : ℝ => -(6 * K) * (1 + b ^ 2 * n ^ 2) ^ (-(1 / 3) : ℝ))
    (g' := fun n : ℝ => K * (4 * b ^ 2 * n) / (1 + b ^ 2 * n ^ 2) ^ (4 / 3 : ℝ)) (l := 0) ?_ ?_ ?_
  · rw [key]; simp
  · intro x _
    have hpos : 0 < 1 + b ^ 2 * x ^ 2 := by positivity
    have h1 : HasDerivAt (fun n : ℝ => 1 + b ^ 2 * n ^ 2) (b ^ 2 * (2 * x)) x :=
      (((hasDerivAt_pow 2 x).const_mul (b ^ 2)).const_add 1).congr_deriv (by norm_num)
    have h2 := (h1.rpow_const (p := (-(1 / 3) : ℝ)) (Or.inl hpos.ne')).const_mul (-(6 * K))
    refine h2.congr_deriv ?_
    have : (-(1 / 3) : ℝ) - 1 = -(4 / 3) := by norm_num
    rw [this, Real.rpow_neg hpos.le]; field_simp; ring
  · intro x hx
    have : (0:ℝ) < x := hx
    positivity
  · have h1 : Tendsto (fun n : ℝ => 1 + b ^ 2 * n ^ 2) atTop atTop :=
      tendsto_atTop_add_const_left _ _
        ((tendsto_pow_atTop (α := ℝ) (n := 2) two_ne_zero).const_mul_atTop (pow_pos hb 2))
    have h2 := (tendsto_rpow_neg_atTop (y := 1 / 3) (by norm_num)).comp h1
    have h3 := h2.const_mul (-(6 * K))
    simpa using h3

/-- the dimensional Davenport form `4 x² / (1 + x²)^(4/3) * K / n` at `x = 1200 n / U` -/
theorem area_davenport_dim (U K : ℝ) (hU : 0 < U) (hK : 0 ≤ K) :
    ∫ n in Ioi (0:ℝ), 4 * (1200 * n / U) * (1200 * n / U) /
        (1 + 1200 * n / U * (1200 * n / U)) ^ (4 / 3 : ℝ) * K / n = 6 * K := by
  have hb : 0 < 1200 / U := by positivity
  rw [← area_davenport K (1200 / U) hK hb]
  refine setIntegral_congr_fun measurableSet_Ioi (fun x hx => ?_)
  have hx0 : (0:ℝ) < x := hx
  have e : 1200 * x / U * (1200 * x / U) = (1200 / U) ^ 2 * x ^ 2 := by ring
  have hpos : 0 < (1 + (1200 / U) ^ 2 * x ^ 2) ^ (4 / 3 : ℝ) := by positivity
  rw [e]; field_simp

theorem C18_area_davenport_drag (d k : ℝ) (hd : 0 < d) (hk : 0 ≤ k) :
    ∫ n in Ioi (0:ℝ), davenportDragDim n d k = 6 * k * d ^ 2 := by
  have h := area_davenport_dim d (k * d * d) hd (sq_form_nonneg k d hk)
  unfold davenportDragDim
  simp only [lit_real, rpow_real, Nat.cast_ofNat, Nat.cast_one, pow_zero, div_one]
  rw [show 6 * k * d ^ 2 = 6 * (k * d * d) by ring, ← h]
  refine setIntegral_congr_fun measurableSet_Ioi (fun x _ => ?_)
  ring

theorem C18_area_davenport_rough (uz z z0 : ℝ) (hu : 0 < uz) :
    ∫ n in Ioi (0:ℝ), davenportRoughDim n uz z z0 = 6 * (4 / 10 * uz / Real.log (z / z0)) ^ 2 := by
  have h := area_davenport_dim uz ((4 / 10 * uz / Real.log (z / z0)) ^ 2) hu (sq_nonneg _)
  unfold davenportRoughDim
  simp only [lit_real, rpow_real, log_real, Nat.cast_ofNat, Nat.cast_one, pow_zero, div_one, pow_one]
  rw [← h]
  refine setIntegral_congr_fun measurableSet_Ioi (fun x _ => ?_)
  ring

/-! ### Ochi–Hubble -/

theorem integrableOn_rpow_exp (a μ : ℝ) (ha : 0 < a) (hμ : 0 < μ) :
    IntegrableOn (fun w : ℝ => w ^ (-(4 * μ + 1)) * Real.exp (-(a * w ^ (-4 : ℝ)))) (Ioi 0) := by
  apply Integrable.of_integral_ne_zero
  rw [area_rpow_exp a μ ha hμ]
  have := Real.Gamma_pos_of_pos hμ
  positivity

theorem ochi_term_eq (w wp Hs l : ℝ) (hw : 0 < w) :
    ((4 * l + 1) / 4 * wp ^ 4) ^ l / Real.Gamma l * Hs * Hs / w ^ ((4 * l + 1) / 4 * 4) *
        Real.exp (-((4 * l + 1) / 4) * (wp / w) ^ 4) =
      (((4 * l + 1) / 4 * wp ^ 4) ^ l / Real.Gamma l * Hs * Hs) *
        (w ^ (-(4 * l + 1)) * Real.exp (-(((4 * l + 1) / 4 * wp ^ 4) * w ^ (-4 : ℝ)))) := by
  have e1 : (4 * l + 1) / 4 * 4 = 4 * l + 1 := by ring
  have e2 : w ^ (-4 : ℝ) = (w ^ 4)⁻¹ := by
    have : (-4 : ℝ) = -((4:ℕ) : ℝ) := by norm_num
    rw [this, Real.rpow_neg hw.le, Real.rpow_natCast]
  have e3 : -((4 * l + 1) / 4) * (wp / w) ^ 4 = -(((4 * l + 1) / 4 * wp ^ 4) * w ^ (-4 : ℝ)) := by
    rw [e2]; field_simp
  rw [e1, e3, Real.rpow_neg hw.le (4 * l + 1)]
  ring

theorem C18_area_ochiHubble (wp1 wp2 Hs1 Hs2 l1 l2 : ℝ) (h1 : 0 < wp1) (h2 : 0 < wp2)
    (hl1 : 0 < l1) (hl2 : 0 < l2) :
    ∫ w in Ioi (0:ℝ), ochiHubbleSpectrum w wp1 wp2 Hs1 Hs2 l1 l2 = (Hs1 ^ 2 + Hs2 ^ 2) / 16 := by
  have ha1 : 0 < (4 * l1 + 1) / 4 * wp1 ^ 4 := by positivity
  have ha2 : 0 < (4 * l2 + 1) / 4 * wp2 ^ 4 := by positivity
  have g1 := Real.Gamma_pos_of_pos hl1
  have g2 := Real.Gamma_pos_of_pos hl2
  have i1 := (integrableOn_rpow_exp _ l1 ha1 hl1).const_mul
    (((4 * l1 + 1) / 4 * wp1 ^ 4) ^ l1 / Real.Gamma l1 * Hs1 * Hs1)
  have i2 := (integrableOn_rpow_exp _ l2 ha2 hl2).const_mul
    (((4 * l2 + 1) / 4 * wp2 ^ 4) ^ l2 / Real.Gamma l2 * Hs2 * Hs2)
  unfold ochiHubbleSpectrum
  -- the early return for an underflowed cut-off is dead at the reals
  simp only [exp_real, eqb_exp_lit_zero, cond_false]
  simp only [lit_real, npow_real, exp_real, rpow_real, gamma_real, Nat.cast_ofNat, Nat.cast_one,
    pow_zero, div_one]
  have hc : ∫ w in Ioi (0:ℝ),
      (((4 * l1 + 1) / 4 * wp1 ^ 4) ^ l1 / Real.Gamma l1 * Hs1 * Hs1 / w ^ ((4 * l1 + 1) / 4 * 4) *
            Real.exp (-((4 * l1 + 1) / 4) * (wp1 / w) ^ 4) +
          ((4 * l2 + 1) / 4 * wp2 ^ 4) ^ l2 / Real.Gamma l2 * Hs2 * Hs2 / w ^ ((4 * l2 + 1) / 4 * 4) *
            Real.exp (-((4 * l2 + 1) / 4) * (wp2 / w) ^ 4)) / 4 =
      ∫ w in Ioi (0:ℝ),
        ((((4 * l1 + 1) / 4 * wp1 ^ 4) ^ l1 / Real.Gamma l1 * Hs1 * Hs1) *
            (w ^ (-(4 * l1 + 1)) * Real.exp (-(((4 * l1 + 1) / 4 * wp1 ^ 4) * w ^ (-4 : ℝ)))) +
          (((4 * l2 + 1) / 4 * wp2 ^ 4) ^ l2 / Real.Gamma l2 * Hs2 * Hs2) *
            (w ^ (-(4 * l2 + 1)) * Real.exp (-(((4 * l2 + 1) / 4 * wp2 ^ 4) * w ^ (-4 : ℝ))))) / 4 := by
    refine setIntegral_congr_fun measurableSet_Ioi (fun x hx => ?_)
    have hx0 : (0:ℝ) < x := hx
    rw [ochi_term_eq x wp1 Hs1 l1 hx0, ochi_term_eq x wp2 Hs2 l2 hx0]
  rw [hc, integral_div, integral_add i1 i2, integral_const_mul, integral_const_mul,
    area_rpow_exp _ l1 ha1 hl1, area_rpow_exp _ l2 ha2 hl2]
  have p1 : 0 < ((4 * l1 + 1) / 4 * wp1 ^ 4) ^ l1 := Real.rpow_pos_of_pos ha1 _
  have p2 : 0 < ((4 * l2 + 1) / 4 * wp2 ^ 4) ^ l2 := Real.rpow_pos_of_pos ha2 _
  field_simp
  ring

end FF
