/-
C20 — Gram–Schmidt clause of `gramSchmidOrth`: a code-shaped model of the two loops (inner loop:
successive subtraction of the components along the columns already built; outer loop: project, then
normalise) over an arbitrary real inner product space, and the property theorem: on a linearly
independent input the output has the same length, is orthonormal, starts with the normalised first
vector and spans the same subspace.  Plus the matrix clause `J * A = B` for `J = B * A⁻¹`.
-/
import Mathlib.Analysis.InnerProductSpace.Basic
import Mathlib.Analysis.InnerProductSpace.Orthonormal
import Mathlib.Analysis.Normed.Module.RCLike.Basic
import Mathlib.LinearAlgebra.LinearIndependent.Basic
import Mathlib.LinearAlgebra.Span.Basic
import Mathlib.LinearAlgebra.Matrix.NonsingularInverse
import Mathlib.Data.Real.Basic
namespace FF

section GramSchmidt
variable {E : Type*} [NormedAddCommGroup E] [InnerProductSpace ℝ E]

/-- inner loop: subtract, one after the other, the components along the columns already built -/
noncomputable def mgsProject (bs : List E) (cur : E) : E :=
  bs.foldl (fun c b => c - (inner ℝ b c / inner ℝ b b) • b) cur

/-- outer loop: the first vector is normalised, every later one is projected then normalised -/
noncomputable def mgs (vs : List E) : List E :=
  vs.foldl (fun bs v => bs ++ [(‖mgsProject bs v‖)⁻¹ • mgsProject bs v]) []

/-- span of the members of a list -/
noncomputable def lspan (l : List E) : Submodule ℝ E := Submodule.span ℝ {x | x ∈ l}

/-- list form of orthonormality: earlier members are orthogonal to later ones, all have norm 1 -/
def OrthoList (l : List E) : Prop :=
  l.Pairwise (fun a b => inner ℝ a b = 0) ∧ ∀ x ∈ l, ‖x‖ = 1

/-- list form of linear independence: no member lies in the span of the earlier members -/
def FreshList (l : List E) : Prop :=
  ∀ k (hk : k < l.length), l[k] ∉ lspan (l.take k)

@[simp] theorem mgsProject_nil (c : E) : mgsProject ([] : List E) c = c := rfl

theorem mgsProject_snoc (bs : List E) (b c : E) :
    mgsProject (bs ++ [b]) c
      = mgsProject bs c - (inner ℝ b (mgsProject bs c) / inner ℝ b b) • b := by
  simp [mgsProject, List.foldl_append]

@[simp] theorem mgs_nil : mgs ([] : List E) = [] := rfl

theorem mgs_snoc (vs : List E) (v : E) :
    mgs (vs ++ [v]) = mgs vs ++ [(‖mgsProject (mgs vs) v‖)⁻¹ • mgsProject (mgs vs) v] := by
  simp [mgs, List.foldl_append]

theorem lspan_snoc (l : List E) (e : E) : lspan (l ++ [e]) = lspan l ⊔ Submodule.span ℝ {e} := by
  unfold lspan
  rw [← Submodule.span_union]
  congr 1
  ext x
  simp [or_comm]

theorem mem_lspan {l : List E} {x : E} (h : x ∈ l) : x ∈ lspan l :=
  Submodule.subset_span h

/-- the inner loop returns a vector orthogonal to every column already built, and it differs from
its input by an element of their span -/
theorem mgsProject_spec (bs : List E) (hbs : OrthoList bs) (c : E) :
    (∀ b ∈ bs, inner ℝ b (mgsProject bs c) = 0) ∧ c - mgsProject bs c ∈ lspan bs := by
  induction bs using List.reverseRecOn with
  | nil => simp [lspan]
  | append_singleton bs b ih =>
    obtain ⟨hpw, hn⟩ := hbs
    rw [List.pairwise_append] at hpw
    obtain ⟨hpw1, -, hcross⟩ := hpw
    have hbs' : OrthoList bs := ⟨hpw1, fun x hx => hn x (by simp [hx])⟩
    obtain ⟨ih1, ih2⟩ := ih hbs'
    have hb1 : ‖b‖ = 1 := hn b (by simp)
    have hbb : inner ℝ b b = 1 := by rw [real_inner_self_eq_norm_sq, hb1]; norm_num
    rw [mgsProject_snoc]
    refine ⟨?_, ?_⟩
    · intro b' hb'
      rw [List.mem_append, List.mem_singleton] at hb'
      rcases hb' with hb' | rfl
      · rw [inner_sub_right, real_inner_smul_right, ih1 b' hb', hcross b' hb' b (by simp)]
        simp
      · rw [inner_sub_right, real_inner_smul_right, hbb]
        simp
    · rw [lspan_snoc]
      have : c - (mgsProject bs c - (inner ℝ b (mgsProject bs c) / inner ℝ b b) • b)
          = (c - mgsProject bs c) + (inner ℝ b (mgsProject bs c) / inner ℝ b b) • b := by abel
      rw [this]
      exact Submodule.add_mem_sup ih2
        (Submodule.smul_mem _ _ (Submodule.mem_span_singleton_self b))

/-- one pass of the outer loop keeps the invariant -/
theorem mgs_step (bs : List E) (hbs : OrthoList bs) (v : E) (hv : v ∉ lspan bs) :
    OrthoList (bs ++ [(‖mgsProject bs v‖)⁻¹ • mgsProject bs v]) ∧
      lspan (bs ++ [(‖mgsProject bs v‖)⁻¹ • mgsProject bs v]) = lspan bs ⊔ Submodule.span ℝ {v} := by
  obtain ⟨horth, hdiff⟩ := mgsProject_spec bs hbs v
  set u := mgsProject bs v with hu
  have hu0 : u ≠ 0 := by
    intro h0
    rw [h0, sub_zero] at hdiff
    exact hv hdiff
  have hnu : ‖u‖ ≠ 0 := norm_ne_zero_iff.mpr hu0
  refine ⟨⟨?_, ?_⟩, ?_⟩
  · rw [List.pairwise_append]
    refine ⟨hbs.1, List.pairwise_singleton _ _, ?_⟩
    intro a ha b hb
    rw [List.mem_singleton] at hb
    subst hb
    rw [real_inner_smul_right, horth a ha, mul_zero]
  · intro x hx
    rw [List.mem_append, List.mem_singleton] at hx
    rcases hx with hx | rfl
    · exact hbs.2 x hx
    · exact norm_smul_inv_norm (𝕜 := ℝ) hu0
  · rw [lspan_snoc]
    apply le_antisymm
    · refine sup_le le_sup_left ?_
      rw [Submodule.span_singleton_le_iff_mem]
      apply Submodule.smul_mem
      have : u = v - (v - u) := by abel
      rw [this]
      exact Submodule.sub_mem _
        (Submodule.mem_sup_right (Submodule.mem_span_singleton_self v))
        (Submodule.mem_sup_left hdiff)
    · refine sup_le le_sup_left ?_
      rw [Submodule.span_singleton_le_iff_mem]
      have : v = (v - u) + ‖u‖ • ((‖u‖)⁻¹ • u) := by
        rw [smul_smul, mul_inv_cancel₀ hnu, one_smul]; abel
      rw [this]
      exact Submodule.add_mem_sup hdiff
        (Submodule.smul_mem _ _ (Submodule.mem_span_singleton_self _))

theorem FreshList.of_snoc {vs : List E} {v : E} (h : FreshList (vs ++ [v])) :
    FreshList vs ∧ v ∉ lspan vs := by
  constructor
  · intro k hk
    have := h k (by simp; omega)
    rw [List.getElem_append_left hk, List.take_append_of_le_length (by omega)] at this
    exact this
  · have := h vs.length (by simp)
    simpa using this

/-- the loop invariant, by induction on the prefix processed so far -/
theorem mgs_invariant (vs : List E) (hvs : FreshList vs) :
    (mgs vs).length = vs.length ∧ OrthoList (mgs vs) ∧ lspan (mgs vs) = lspan vs := by
  induction vs using List.reverseRecOn with
  | nil => simp [OrthoList]
  | append_singleton vs v ih =>
    obtain ⟨hfresh, hv⟩ := hvs.of_snoc
    obtain ⟨ih1, ih2, ih3⟩ := ih hfresh
    rw [mgs_snoc]
    obtain ⟨h1, h2⟩ := mgs_step (mgs vs) ih2 v (by rw [ih3]; exact hv)
    refine ⟨by simp [ih1], h1, ?_⟩
    rw [h2, ih3, lspan_snoc]

/-- a linearly independent family listed in order is fresh -/
theorem FreshList.of_linearIndependent (vs : List E)
    (h : LinearIndependent ℝ (fun i : Fin vs.length => vs.get i)) : FreshList vs := by
  intro k hk hmem
  have hnot := h.notMem_span_image (s := {j : Fin vs.length | j.1 < k}) (x := ⟨k, hk⟩) (by simp)
  apply hnot
  refine Submodule.span_mono ?_ hmem
  intro x hx
  rw [Set.mem_ofPred_eq, List.mem_take_iff_getElem] at hx
  obtain ⟨i, hi, rfl⟩ := hx
  have hi' : i < k ∧ i < vs.length := by omega
  exact ⟨⟨i, hi'.2⟩, hi'.1, rfl⟩

theorem OrthoList.orthonormal {l : List E} (h : OrthoList l) :
    Orthonormal ℝ (fun i : Fin l.length => l.get i) := by
  obtain ⟨hpw, hn⟩ := h
  rw [List.pairwise_iff_getElem] at hpw
  refine ⟨fun i => hn _ (List.get_mem l i), ?_⟩
  intro i j hij
  rcases lt_or_gt_of_ne (Fin.val_ne_of_ne hij) with hlt | hgt
  · exact hpw i.1 j.1 i.2 j.2 hlt
  · exact inner_eq_zero_symm.mp (hpw j.1 i.1 j.2 i.2 hgt)

/-- the first output column is the normalised first input (the `B[:,0] = alignVec/‖alignVec‖` line) -/
theorem mgs_cons_head (v : E) (rest : List E) :
    (mgs (v :: rest)).head? = some ((‖v‖)⁻¹ • v) := by
  induction rest using List.reverseRecOn with
  | nil => simp [mgs]
  | append_singleton rest w ih =>
    rw [← List.cons_append, mgs_snoc, List.head?_append, ih]
    rfl

/-- **C20, Gram–Schmidt clause.** On a linearly independent list the two loops return a list of the
same length which is orthonormal and spans the same subspace. -/
theorem C20_gramSchmidt_orthonormal (vs : List E)
    (hli : LinearIndependent ℝ (fun i : Fin vs.length => vs.get i)) :
    (mgs vs).length = vs.length ∧
      Orthonormal ℝ (fun i : Fin (mgs vs).length => (mgs vs).get i) ∧
      Submodule.span ℝ {x | x ∈ mgs vs} = Submodule.span ℝ {x | x ∈ vs} := by
  obtain ⟨h1, h2, h3⟩ := mgs_invariant vs (FreshList.of_linearIndependent vs hli)
  exact ⟨h1, h2.orthonormal, h3⟩

/-- pairwise form of the same statement -/
theorem C20_gramSchmidt_pairwise (vs : List E)
    (hli : LinearIndependent ℝ (fun i : Fin vs.length => vs.get i))
    (i j : ℕ) (hi : i < (mgs vs).length) (hj : j < (mgs vs).length) :
    inner ℝ (mgs vs)[i] (mgs vs)[j] = if i = j then 1 else 0 := by
  have h := (C20_gramSchmidt_orthonormal vs hli).2.1
  rw [orthonormal_iff_ite] at h
  have := h ⟨i, hi⟩ ⟨j, hj⟩
  simpa [Fin.ext_iff] using this

/-- the first output is the normalised first input -/
theorem C20_gramSchmidt_first (v : E) (rest : List E) :
    (mgs (v :: rest)).head? = some ((‖v‖)⁻¹ • v) := mgs_cons_head v rest

/-- index form: column 0 of the output is the normalised column 0 of the input -/
theorem C20_gramSchmidt_first_getElem (v : E) (rest : List E) (h : 0 < (mgs (v :: rest)).length) :
    (mgs (v :: rest))[0] = (‖v‖)⁻¹ • v := by
  have := C20_gramSchmidt_first v rest
  rw [List.head?_eq_getElem?, List.getElem?_eq_getElem h] at this
  exact Option.some.inj this

end GramSchmidt

/-- **C20, Jacobian clause.** `J = B A⁻¹` (what `solve(Aᵀ, Bᵀ)ᵀ` returns) satisfies `J A = B`. -/
theorem C20_J {n : ℕ} (A B : Matrix (Fin n) (Fin n) ℝ) (hA : IsUnit A.det) :
    (B * A⁻¹) * A = B := by
  rw [Matrix.mul_assoc, Matrix.nonsing_inv_mul A hA, Matrix.mul_one]

end FF
