/-
C10 — first-order reliability (`hlrfFORM`, `mvalFOSM`): a model of one HL-RF step over an arbitrary
real inner product space, and the theorems

* a fixed point of the step lies on the linearised limit state and has `‖u‖ = |β|`;
* on an affine limit state the step lands, from ANY start, on the exact design point (one step) and
  stays there;
* the step and the index are invariant under positive rescaling of the limit-state function;
* linear limit state + normal marginals through the Nataf map: the U-space limit state is affine, the
  squared norm of its gradient is `cᵀ (D ρ D) c = Var[g]`, hence `β = E[g] / sd[g]`;
* for independent variables this is the mean-value (FOSM) index;
* one variable, any marginal, `g x = x - cth`: `pf = Φ (-β) = F cth`.
-/
import Mathlib.Analysis.InnerProductSpace.Basic
import Mathlib.Analysis.InnerProductSpace.PiL2
import Mathlib.Data.Matrix.Mul
import Mathlib.Analysis.Real.Sqrt
import Mathlib.Tactic.FieldSimp
import Mathlib.Tactic.Linarith
import Mathlib.Tactic.NormNum
import Mathlib.Tactic.Ring
namespace FF

open scoped RealInnerProductSpace

section HLRF
variable {E : Type*} [NormedAddCommGroup E] [InnerProductSpace ℝ E]

/-- `beta = ( g( X ) - dot( u_prev, gPrime ) ) / norm( gPrime )` -/
noncomputable def hlrfBeta (Gu : ℝ) (grad u : E) : ℝ := (Gu - ⟪grad, u⟫) / ‖grad‖

/-- `u_new = -beta * alpha`, `alpha = gPrime / norm( gPrime )` -/
noncomputable def hlrfStep (Gu : ℝ) (grad u : E) : E :=
  -(hlrfBeta Gu grad u) • ((1 / ‖grad‖) • grad)

/-- the unit vector `alpha` really is a unit vector -/
theorem C10_alpha_unit {grad : E} (hg : grad ≠ 0) : ‖(1 / ‖grad‖) • grad‖ = 1 := by
  have hn : ‖grad‖ ≠ 0 := norm_ne_zero_iff.mpr hg
  rw [norm_smul, Real.norm_eq_abs, abs_of_nonneg (by positivity)]
  field_simp

/-- the step always has norm `|β|` -/
theorem C10_step_norm {grad : E} (hg : grad ≠ 0) (Gu : ℝ) (u : E) :
    ‖hlrfStep Gu grad u‖ = |hlrfBeta Gu grad u| := by
  unfold hlrfStep
  rw [norm_smul, C10_alpha_unit hg, Real.norm_eq_abs, abs_neg, mul_one]

/-- the step always lies on the linearisation-independent ray: `⟪grad, step⟫ = -β ‖grad‖` -/
theorem C10_inner_step {grad : E} (hg : grad ≠ 0) (Gu : ℝ) (u : E) :
    ⟪grad, hlrfStep Gu grad u⟫ = -(hlrfBeta Gu grad u) * ‖grad‖ := by
  have hn : ‖grad‖ ≠ 0 := norm_ne_zero_iff.mpr hg
  unfold hlrfStep
  rw [real_inner_smul_right, real_inner_smul_right, real_inner_self_eq_norm_sq]
  field_simp

/-- 1. A fixed point of the HL-RF step lies on the linearised limit state (`G u = 0`), is the point
`-β α`, and is at distance `|β|` from the origin. -/
theorem C10_fixed_point {grad u : E} {Gu : ℝ} (hg : grad ≠ 0) (hfix : u = hlrfStep Gu grad u) :
    Gu = 0 ∧ u = -(hlrfBeta Gu grad u) • ((1 / ‖grad‖) • grad) ∧ ‖u‖ = |hlrfBeta Gu grad u| := by
  have hn : ‖grad‖ ≠ 0 := norm_ne_zero_iff.mpr hg
  refine ⟨?_, hfix, ?_⟩
  · have h := C10_inner_step hg Gu u
    rw [← hfix] at h
    unfold hlrfBeta at h
    rw [neg_mul, div_mul_cancel₀ _ hn] at h
    linarith
  · conv_lhs => rw [hfix]
    exact C10_step_norm hg Gu u

/-- 2. Affine limit state `G v = ⟪a, v⟫ + b`: from any start the index is `b / ‖a‖`, the step is
`-(b / ‖a‖²) a`, that point is on the limit state and is a fixed point. -/
theorem C10_linear_one_step {a : E} (b : ℝ) (ha : a ≠ 0) (u : E) :
    hlrfBeta (⟪a, u⟫ + b) a u = b / ‖a‖ ∧
    hlrfStep (⟪a, u⟫ + b) a u = -(b / ‖a‖ ^ 2) • a ∧
    ⟪a, hlrfStep (⟪a, u⟫ + b) a u⟫ + b = 0 ∧
    hlrfStep (⟪a, hlrfStep (⟪a, u⟫ + b) a u⟫ + b) a (hlrfStep (⟪a, u⟫ + b) a u)
      = hlrfStep (⟪a, u⟫ + b) a u := by
  have hn : ‖a‖ ≠ 0 := norm_ne_zero_iff.mpr ha
  have hβ : ∀ v : E, hlrfBeta (⟪a, v⟫ + b) a v = b / ‖a‖ := by
    intro v; unfold hlrfBeta; rw [add_sub_cancel_left]
  have hs : ∀ v : E, hlrfStep (⟪a, v⟫ + b) a v = -(b / ‖a‖ ^ 2) • a := by
    intro v
    unfold hlrfStep
    rw [hβ v, smul_smul]
    congr 1
    field_simp
  refine ⟨hβ u, hs u, ?_, ?_⟩
  · rw [hs u, real_inner_smul_right, real_inner_self_eq_norm_sq]
    field_simp
    ring
  · rw [hs, hs]

/-- 3. Positive rescaling of the limit-state function changes neither the index nor the step. -/
theorem C10_scale_invariance {k : ℝ} (hk : 0 < k) (Gu : ℝ) {grad : E} (hg : grad ≠ 0) (u : E) :
    hlrfBeta (k * Gu) (k • grad) u = hlrfBeta Gu grad u ∧
    hlrfStep (k * Gu) (k • grad) u = hlrfStep Gu grad u := by
  have hn : ‖grad‖ ≠ 0 := norm_ne_zero_iff.mpr hg
  have hβ : hlrfBeta (k * Gu) (k • grad) u = hlrfBeta Gu grad u := by
    unfold hlrfBeta
    rw [real_inner_smul_left, norm_smul, Real.norm_eq_abs, abs_of_pos hk]
    field_simp
  refine ⟨hβ, ?_⟩
  unfold hlrfStep
  rw [hβ, norm_smul, Real.norm_eq_abs, abs_of_pos hk, smul_smul (1 / (k * ‖grad‖)) k grad]
  congr 2
  field_simp

end HLRF

/-! ### Linear limit state, normal marginals, Nataf map -/

section LinearGaussian
open Matrix
variable {n : ℕ}

/-- 4a. `g (μ + D L u) = (Lᵀ D c) ⬝ u + (c ⬝ μ + d)`: the U-space limit state is affine. -/
theorem C10_linear_gaussian_affine (L : Matrix (Fin n) (Fin n) ℝ) (σ μ c : Fin n → ℝ) (d : ℝ)
    (u : Fin n → ℝ) :
    c ⬝ᵥ (μ + (diagonal σ).mulVec (L.mulVec u)) + d
      = (Lᵀ.mulVec ((diagonal σ).mulVec c)) ⬝ᵥ u + (c ⬝ᵥ μ + d) := by
  have hD : (diagonal σ).mulVec c = c ᵥ* diagonal σ := by
    rw [← vecMul_transpose, diagonal_transpose]
  have h : c ⬝ᵥ ((diagonal σ).mulVec (L.mulVec u)) = (Lᵀ.mulVec ((diagonal σ).mulVec c)) ⬝ᵥ u := by
    rw [dotProduct_mulVec, dotProduct_mulVec, mulVec_transpose, hD]
  rw [dotProduct_add, h]
  ring

/-- 4b. `‖Lᵀ D c‖² = cᵀ (D ρ D) c` when `L Lᵀ = ρ`: the squared norm of the U-space gradient is the
variance of `g`. -/
theorem C10_variance (L ρ : Matrix (Fin n) (Fin n) ℝ) (σ c : Fin n → ℝ) (hL : L * Lᵀ = ρ) :
    (Lᵀ.mulVec ((diagonal σ).mulVec c)) ⬝ᵥ (Lᵀ.mulVec ((diagonal σ).mulVec c))
      = c ⬝ᵥ ((diagonal σ * ρ * diagonal σ).mulVec c) := by
  have hD : (diagonal σ).mulVec c = c ᵥ* diagonal σ := by
    rw [← vecMul_transpose, diagonal_transpose]
  rw [← hL, ← mulVec_mulVec, ← mulVec_mulVec, ← mulVec_mulVec, dotProduct_mulVec c, ← hD,
    dotProduct_mulVec _ L, ← mulVec_transpose]

/-- coordinates: the Euclidean inner product is `dotProduct` -/
theorem C10_inner_toLp (w u : Fin n → ℝ) :
    ⟪(WithLp.toLp 2 w : EuclideanSpace ℝ (Fin n)), WithLp.toLp 2 u⟫ = w ⬝ᵥ u := by
  rw [EuclideanSpace.inner_toLp_toLp, star_trivial, dotProduct_comm]

/-- coordinates: the Euclidean norm is `√(w ⬝ w)` -/
theorem C10_norm_toLp (w : Fin n → ℝ) :
    ‖(WithLp.toLp 2 w : EuclideanSpace ℝ (Fin n))‖ = Real.sqrt (w ⬝ᵥ w) := by
  rw [norm_eq_sqrt_real_inner, C10_inner_toLp]

/-- 4c. Linear limit state, normal marginals, correlation `ρ = L Lᵀ`: from any start `u` the HL-RF
index is `(c ⬝ μ + d) / √(cᵀ D ρ D c) = E[g] / sd[g]` — the exact reliability index. -/
theorem C10_linear_gaussian_beta (L ρ : Matrix (Fin n) (Fin n) ℝ) (σ μ c : Fin n → ℝ) (d : ℝ)
    (hL : L * Lᵀ = ρ) (hsd : 0 < Real.sqrt (c ⬝ᵥ ((diagonal σ * ρ * diagonal σ).mulVec c)))
    (u : Fin n → ℝ) :
    hlrfBeta (c ⬝ᵥ (μ + (diagonal σ).mulVec (L.mulVec u)) + d)
        (WithLp.toLp 2 (Lᵀ.mulVec ((diagonal σ).mulVec c)) : EuclideanSpace ℝ (Fin n))
        (WithLp.toLp 2 u)
      = (c ⬝ᵥ μ + d) / Real.sqrt (c ⬝ᵥ ((diagonal σ * ρ * diagonal σ).mulVec c)) := by
  set w := Lᵀ.mulVec ((diagonal σ).mulVec c) with hw
  have hnorm : ‖(WithLp.toLp 2 w : EuclideanSpace ℝ (Fin n))‖
      = Real.sqrt (c ⬝ᵥ ((diagonal σ * ρ * diagonal σ).mulVec c)) := by
    rw [C10_norm_toLp, hw, C10_variance L ρ σ c hL]
  have hw0 : (WithLp.toLp 2 w : EuclideanSpace ℝ (Fin n)) ≠ 0 := by
    rw [← norm_ne_zero_iff, hnorm]; exact hsd.ne'
  rw [C10_linear_gaussian_affine, ← C10_inner_toLp w u,
    (C10_linear_one_step (c ⬝ᵥ μ + d) hw0 (WithLp.toLp 2 u)).1, hnorm]

/-- 4c, coordinate phrasing: `(G u - w ⬝ u) / √(w ⬝ w)` with `w = Lᵀ D c`. -/
theorem C10_linear_gaussian_beta' (L ρ : Matrix (Fin n) (Fin n) ℝ) (σ μ c : Fin n → ℝ) (d : ℝ)
    (hL : L * Lᵀ = ρ) (u : Fin n → ℝ) :
    ((c ⬝ᵥ (μ + (diagonal σ).mulVec (L.mulVec u)) + d)
        - (Lᵀ.mulVec ((diagonal σ).mulVec c)) ⬝ᵥ u)
        / Real.sqrt ((Lᵀ.mulVec ((diagonal σ).mulVec c)) ⬝ᵥ (Lᵀ.mulVec ((diagonal σ).mulVec c)))
      = (c ⬝ᵥ μ + d) / Real.sqrt (c ⬝ᵥ ((diagonal σ * ρ * diagonal σ).mulVec c)) := by
  rw [C10_linear_gaussian_affine, C10_variance L ρ σ c hL, add_sub_cancel_left]

/-- 5a. independent variables: `cᵀ (D 1 D) c = Σ (c_i σ_i)²` -/
theorem C10_fosm_variance (σ c : Fin n → ℝ) :
    c ⬝ᵥ ((diagonal σ * (1 : Matrix (Fin n) (Fin n) ℝ) * diagonal σ).mulVec c)
      = ∑ i, (c i * σ i) ^ 2 := by
  rw [mul_one, diagonal_mul_diagonal]
  simp only [dotProduct, mulVec_diagonal]
  exact Finset.sum_congr rfl fun i _ => by ring

/-- 5. independent variables: the mean-value (FOSM) index `g(μ) / √(Σ (a_i σ_i)²)` is the exact index
of item 4. -/
theorem C10_fosm_agrees (σ μ c : Fin n → ℝ) (d : ℝ) :
    (c ⬝ᵥ μ + d) / Real.sqrt (∑ i, (c i * σ i) ^ 2)
      = (c ⬝ᵥ μ + d)
        / Real.sqrt (c ⬝ᵥ ((diagonal σ * (1 : Matrix (Fin n) (Fin n) ℝ) * diagonal σ).mulVec c)) := by
  rw [C10_fosm_variance]

end LinearGaussian

/-! ### One variable, arbitrary marginal -/

/-- 6. `g x = x - cth`, marginal CDF `F` with quantile `Finv`: the U-space limit state
`G u = Finv (Φ u) - cth` vanishes at `u* = Φinv (F cth)`; with the increasing orientation `u* = -β`,
so `pf = Φ (-β) = F cth`. -/
theorem C10_one_variable (F Finv Φ Φinv : ℝ → ℝ) (cth : ℝ)
    (hΦ : Φ (Φinv (F cth)) = F cth) (hF : Finv (F cth) = cth) :
    Finv (Φ (Φinv (F cth))) - cth = 0 ∧
    ∀ β : ℝ, Φinv (F cth) = -β → Φ (-β) = F cth := by
  refine ⟨by rw [hΦ, hF, sub_self], ?_⟩
  intro β hβ
  rw [← hβ, hΦ]

/-- 6, closed form: `β = -Φinv (F cth)` gives `Φ (-β) = F cth`. -/
theorem C10_one_variable_pf (F Φ Φinv : ℝ → ℝ) (cth : ℝ) (hΦ : Φ (Φinv (F cth)) = F cth) :
    Φ (-(-Φinv (F cth))) = F cth := by
  rw [neg_neg, hΦ]

/-- 6, link to the HL-RF model in one dimension (`E = ℝ`): if the iteration has converged at `u`
with positive gradient `g'` then `u = -β`, so `pf = Φ (-β) = Φ u`; combined with uniqueness of the
zero of `G` (`G` injective — strictly increasing `Finv ∘ Φ`) this is `F cth`. -/
theorem C10_one_variable_hlrf (F Finv Φ Φinv : ℝ → ℝ) (cth : ℝ)
    (hΦ : Φ (Φinv (F cth)) = F cth) (hF : Finv (F cth) = cth)
    (hinj : ∀ u v : ℝ, Finv (Φ u) - cth = Finv (Φ v) - cth → u = v)
    {g' u : ℝ} (hg' : 0 < g') (hfix : u = hlrfStep (Finv (Φ u) - cth) g' u) :
    Φ (-(hlrfBeta (Finv (Φ u) - cth) g' u)) = F cth := by
  obtain ⟨hG, hu, -⟩ := C10_fixed_point hg'.ne' hfix
  have hunit : (1 / ‖g'‖) • g' = (1 : ℝ) := by
    rw [Real.norm_eq_abs, abs_of_pos hg', smul_eq_mul]; field_simp
  rw [hunit, smul_eq_mul, mul_one] at hu
  have hustar : u = Φinv (F cth) := by
    apply hinj
    rw [hG, hΦ, hF, sub_self]
  rw [← hu, hustar, hΦ]

/-! ### Non-vacuity -/

/-- item 2 in `ℝ²` coordinates: `a = (1,1)`, `b = -1`: the design point `-(b/‖a‖²) a = (1/2, 1/2)` is on
the limit state `x + y - 1 = 0`, and `β² = b²/‖a‖² = 1/2`. -/
example :
    let a : Fin 2 → ℝ := ![1, 1]
    let b : ℝ := -1
    a ⬝ᵥ a = 2 ∧ -(b / (a ⬝ᵥ a)) • a = ![1 / 2, 1 / 2] ∧ a ⬝ᵥ (-(b / (a ⬝ᵥ a)) • a) + b = 0 := by
  intro a b
  have h2 : a ⬝ᵥ a = 2 := by norm_num [a, dotProduct, Fin.sum_univ_two]
  refine ⟨h2, ?_, ?_⟩
  · rw [h2]; ext i; fin_cases i <;> norm_num [a, b]
  · rw [h2]; norm_num [a, b, dotProduct, Fin.sum_univ_two]

/-- item 2 instantiated in `E = ℝ`: `G v = 2 v - 6`, any start (here `10`): `β = -3`, step lands on
`3`, which is the root. -/
example : hlrfBeta ((2 : ℝ) * 10 + -6) (2 : ℝ) (10 : ℝ) = -3 ∧
    hlrfStep ((2 : ℝ) * 10 + -6) (2 : ℝ) (10 : ℝ) = 3 := by
  have h := C10_linear_one_step (a := (2 : ℝ)) (-6) (by norm_num) (10 : ℝ)
  have hin : ⟪(2 : ℝ), (10 : ℝ)⟫ = 2 * 10 := by simp [mul_comm]
  rw [hin] at h
  refine ⟨?_, ?_⟩
  · rw [h.1]; norm_num
  · rw [h.2.1]; norm_num

/-- item 4/5 instance: `n = 2`, independent, `σ = (3, 4)`, `c = (1, 1)`: `Var[g] = 25`. -/
example : (![1, 1] : Fin 2 → ℝ) ⬝ᵥ
    ((Matrix.diagonal ![3, 4] * (1 : Matrix (Fin 2) (Fin 2) ℝ) * Matrix.diagonal ![3, 4]).mulVec
      ![1, 1]) = 25 := by
  rw [C10_fosm_variance]; norm_num [Fin.sum_univ_two]

end FF
