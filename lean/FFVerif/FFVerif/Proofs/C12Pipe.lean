/-
C12 — the EXECUTABLE model of the curvature extraction (`Model/SormPipe.lean`, compared with
`mainCurvaturesAtDesignPoint` through its eigenvalues), at the reals:

* `C12p_hessU_flat`: for normal marginals and a limit state with vanishing Hessian at the design point (a flat limit
  surface: linear `g`), the U-space Hessian vanishes;
* `C12p_block_flat`: hence every entry of the matrix whose eigenvalues are the main curvatures is `0` — whatever basis the
  Gram–Schmidt step produced — and by `C12_zero_curvature` the three second-order estimates are the first-order one;
* `C12p_hessU_symm`: the U-space Hessian is symmetric when `Hx` is;
* `C12p_block_symm`: the extracted block is symmetric (so its eigenvalues, the main curvatures, are real).
-/
import FFVerif.Proofs.C10Loop
import FFVerif.Model.SormPipe
namespace FF.SormPipe
open FF.Linalg FF.Nataf FF.Form Finset

theorem hessU_real (T : Model ℝ) (x a : Vec ℝ) (Hx : Mat ℝ) (i j : Nat) :
    hessU T x a Hx i j = (∑ k ∈ range T.dim, ∑ l ∈ range T.dim, jInv T x k i * Hx k l * jInv T x l j)
      + ∑ k ∈ range T.dim, T.L k i * (a k * Marg.d2xdz2 (T.marg k) (x k)) * T.L k j := by
  unfold hessU
  simp only [fsum_real]

theorem C12p_hessU_flat (T : Model ℝ) (mu sigma : Vec ℝ) (h : AllNormal T mu sigma) (x a : Vec ℝ) (Hx : Mat ℝ)
    (hH : ∀ k l, Hx k l = 0) (i j : Nat) : hessU T x a Hx i j = 0 := by
  rw [hessU_real]
  have h1 : ∑ k ∈ range T.dim, ∑ l ∈ range T.dim, jInv T x k i * Hx k l * jInv T x l j = 0 :=
    Finset.sum_eq_zero (fun k _ => Finset.sum_eq_zero (fun l _ => by rw [hH]; ring))
  have h2 : ∑ k ∈ range T.dim, T.L k i * (a k * Marg.d2xdz2 (T.marg k) (x k)) * T.L k j = 0 := by
    refine Finset.sum_eq_zero (fun k hk => ?_)
    rw [h k (Finset.mem_range.mp hk)]
    simp [Marg.d2xdz2]
  rw [h1, h2, add_zero]

theorem C12p_hessU_symm (T : Model ℝ) (x a : Vec ℝ) (Hx : Mat ℝ) (hs : ∀ k l, Hx k l = Hx l k) (i j : Nat) :
    hessU T x a Hx i j = hessU T x a Hx j i := by
  rw [hessU_real, hessU_real]
  congr 1
  · rw [Finset.sum_comm]
    refine Finset.sum_congr rfl (fun l _ => Finset.sum_congr rfl (fun k _ => ?_))
    rw [hs k l]; ring
  · exact Finset.sum_congr rfl (fun k _ => by ring)

/-- the entries of the extracted block, as a function of the rows of `H` -/
theorem block_entry (T : Model ℝ) (x a : Vec ℝ) (Hx : Mat ℝ) :
    (curvatureBlock T x a Hx).block =
      ((curvatureBlock T x a Hx).rows.take (T.dim - 1)).map (fun ri =>
        ((curvatureBlock T x a Hx).rows.take (T.dim - 1)).map (fun rj =>
          ∑ k ∈ range T.dim, ∑ l ∈ range T.dim, ri k * (hessU T x a Hx k l / (curvatureBlock T x a Hx).gradNorm) * rj l)) := by
  unfold curvatureBlock
  simp only [ofArr_mkArr, ofArr2_mkArr2, fsum_real]

/-- **flat limit surface ⇒ all entries of the curvature matrix vanish** (normal marginals) -/
theorem C12p_block_flat (T : Model ℝ) (mu sigma : Vec ℝ) (h : AllNormal T mu sigma) (x a : Vec ℝ) (Hx : Mat ℝ)
    (hH : ∀ k l, Hx k l = 0) : ∀ row ∈ (curvatureBlock T x a Hx).block, ∀ e ∈ row, e = 0 := by
  rw [block_entry]
  intro row hrow e he
  obtain ⟨ri, _, rfl⟩ := List.mem_map.mp hrow
  obtain ⟨rj, _, rfl⟩ := List.mem_map.mp he
  refine Finset.sum_eq_zero (fun k _ => Finset.sum_eq_zero (fun l _ => ?_))
  rw [C12p_hessU_flat T mu sigma h x a Hx hH]; ring

/-- the extracted block is symmetric: entry `(i, j)` equals entry `(j, i)` -/
theorem C12p_block_symm (T : Model ℝ) (x a : Vec ℝ) (Hx : Mat ℝ) (hs : ∀ k l, Hx k l = Hx l k)
    (ri rj : Vec ℝ) :
    ∑ k ∈ range T.dim, ∑ l ∈ range T.dim, ri k * (hessU T x a Hx k l / (curvatureBlock T x a Hx).gradNorm) * rj l
      = ∑ k ∈ range T.dim, ∑ l ∈ range T.dim, rj k * (hessU T x a Hx k l / (curvatureBlock T x a Hx).gradNorm) * ri l := by
  rw [Finset.sum_comm]
  refine Finset.sum_congr rfl (fun l _ => Finset.sum_congr rfl (fun k _ => ?_))
  rw [C12p_hessU_symm T x a Hx hs k l]; ring

/-! ### the paraboloid in standard normal space -/

/-- standard normal space: unit normal marginals, identity factor -/
def Standard (T : Model ℝ) : Prop :=
  AllNormal T (fun _ => 0) (fun _ => 1) ∧ ∀ i j, i < T.dim → j < T.dim → T.L i j = if i = j then 1 else 0

theorem sum_ite_mul (n : Nat) (f : Nat → ℝ) (i : Nat) (hi : i < n) :
    ∑ k ∈ range n, (if k = i then 1 else 0) * f k = f i := by
  rw [Finset.sum_eq_single i]
  · simp
  · intro b _ hb; simp [hb]
  · intro h; exact absurd (Finset.mem_range.mpr hi) h

/-- in standard normal space the U-space Hessian is the Hessian of `g` -/
theorem hessU_standard (T : Model ℝ) (hT : Standard T) (x a : Vec ℝ) (Hx : Mat ℝ) (i j : Nat) (hi : i < T.dim) (hj : j < T.dim) :
    hessU T x a Hx i j = Hx i j := by
  rw [hessU_real]
  have hJ : ∀ k l, k < T.dim → l < T.dim → jInv T x k l = if k = l then 1 else 0 := by
    intro k l hk hl
    unfold jInv
    rw [hT.1 k hk, hT.2 k l hk hl]
    simp [Marg.dxdz]
  have h2 : ∑ k ∈ range T.dim, T.L k i * (a k * Marg.d2xdz2 (T.marg k) (x k)) * T.L k j = 0 := by
    refine Finset.sum_eq_zero (fun k hk => ?_)
    rw [hT.1 k (Finset.mem_range.mp hk)]
    simp [Marg.d2xdz2]
  rw [h2, add_zero]
  have h1 : ∀ k ∈ range T.dim, ∑ l ∈ range T.dim, jInv T x k i * Hx k l * jInv T x l j
      = (if k = i then 1 else 0) * Hx k j := by
    intro k hk
    have hk' := Finset.mem_range.mp hk
    have : ∀ l ∈ range T.dim, jInv T x k i * Hx k l * jInv T x l j
        = (if l = j then 1 else 0) * ((if k = i then 1 else 0) * Hx k l) := by
      intro l hl
      rw [hJ k i hk' hi, hJ l j (Finset.mem_range.mp hl) hj]; ring
    rw [Finset.sum_congr rfl this, sum_ite_mul T.dim (fun l => (if k = i then 1 else 0) * Hx k l) j hj]
  rw [Finset.sum_congr rfl h1, sum_ite_mul T.dim (fun k => Hx k j) i hi]

/-- **paraboloid clause on the model.**  Standard normal space; `e` a unit vector, `v 0 … v (n-2)` unit vectors that
together with `e` form an orthonormal basis (completeness: `Σ_j v_j v_jᵀ + e eᵀ = 1`); the Hessian of the paraboloid
`β − ⟨e,u⟩ + ½ Σ_j κ_j ⟨v_j,u⟩²` is `Σ_j κ_j v_j v_jᵀ` and its gradient norm at the design point is `1`.  Then for ANY rows
`r_i`, `r_l` that are orthonormal and orthogonal to `e` (the rows the Gram–Schmidt step of the model produces,
`C20m_orthonormal`), the entry of the curvature matrix is `Σ_j R_ij κ_j R_lj` with `R_ij = ⟨r_i, v_j⟩`, and `R Rᵀ = 1`: the
curvature matrix is `R diag(κ) Rᵀ` for an orthogonal `R`, so its eigenvalues are the `κ_j` (`C12_similar_charpoly`) — whatever
the rotation and the order of the axes. -/
theorem C12p_paraboloid_entry (T : Model ℝ) (hT : Standard T) (x a : Vec ℝ) (e : Vec ℝ) (v : Nat → Vec ℝ) (κ : Nat → ℝ)
    (hcomplete : ∀ k m, k < T.dim → m < T.dim →
      (∑ j ∈ range (T.dim - 1), v j k * v j m) + e k * e m = if k = m then 1 else 0)
    (ri rl : Vec ℝ) (hre_i : dot T.dim ri e = 0) (hre_l : dot T.dim rl e = 0) :
    let Hx : Mat ℝ := fun k m => ∑ j ∈ range (T.dim - 1), κ j * v j k * v j m
    (∑ k ∈ range T.dim, ∑ m ∈ range T.dim, ri k * (hessU T x a Hx k m / 1) * rl m
        = ∑ j ∈ range (T.dim - 1), dot T.dim ri (v j) * κ j * dot T.dim rl (v j)) ∧
    (∑ j ∈ range (T.dim - 1), dot T.dim ri (v j) * dot T.dim rl (v j) = dot T.dim ri rl) := by
  intro Hx
  constructor
  · have : ∀ k ∈ range T.dim, ∀ m ∈ range T.dim, ri k * (hessU T x a Hx k m / 1) * rl m
        = ∑ j ∈ range (T.dim - 1), (ri k * v j k) * κ j * (rl m * v j m) := by
      intro k hk m hm
      rw [hessU_standard T hT x a Hx k m (Finset.mem_range.mp hk) (Finset.mem_range.mp hm), div_one]
      show ri k * (∑ j ∈ range (T.dim - 1), κ j * v j k * v j m) * rl m = _
      rw [Finset.mul_sum, Finset.sum_mul]
      exact Finset.sum_congr rfl (fun j _ => by ring)
    rw [Finset.sum_congr rfl (fun k hk => Finset.sum_congr rfl (fun m hm => this k hk m hm))]
    -- exchange the sums
    calc ∑ k ∈ range T.dim, ∑ m ∈ range T.dim, ∑ j ∈ range (T.dim - 1), (ri k * v j k) * κ j * (rl m * v j m)
        = ∑ k ∈ range T.dim, ∑ j ∈ range (T.dim - 1), ∑ m ∈ range T.dim, (ri k * v j k) * κ j * (rl m * v j m) :=
          Finset.sum_congr rfl (fun k _ => Finset.sum_comm)
      _ = ∑ j ∈ range (T.dim - 1), ∑ k ∈ range T.dim, ∑ m ∈ range T.dim, (ri k * v j k) * κ j * (rl m * v j m) := Finset.sum_comm
      _ = ∑ j ∈ range (T.dim - 1), dot T.dim ri (v j) * κ j * dot T.dim rl (v j) := by
          refine Finset.sum_congr rfl (fun j _ => ?_)
          rw [dot_real, dot_real, Finset.sum_mul, Finset.sum_mul]
          refine Finset.sum_congr rfl (fun k _ => ?_)
          rw [Finset.mul_sum]
  · -- Parseval in the complement of e
    have h1 : ∑ j ∈ range (T.dim - 1), dot T.dim ri (v j) * dot T.dim rl (v j)
        = ∑ k ∈ range T.dim, ∑ m ∈ range T.dim, ri k * rl m * ∑ j ∈ range (T.dim - 1), v j k * v j m := by
      calc ∑ j ∈ range (T.dim - 1), dot T.dim ri (v j) * dot T.dim rl (v j)
          = ∑ j ∈ range (T.dim - 1), ∑ k ∈ range T.dim, ∑ m ∈ range T.dim, (ri k * v j k) * (rl m * v j m) := by
            refine Finset.sum_congr rfl (fun j _ => ?_)
            rw [dot_real, dot_real, Finset.sum_mul_sum]
        _ = ∑ k ∈ range T.dim, ∑ j ∈ range (T.dim - 1), ∑ m ∈ range T.dim, (ri k * v j k) * (rl m * v j m) := Finset.sum_comm
        _ = ∑ k ∈ range T.dim, ∑ m ∈ range T.dim, ∑ j ∈ range (T.dim - 1), (ri k * v j k) * (rl m * v j m) :=
            Finset.sum_congr rfl (fun k _ => Finset.sum_comm)
        _ = ∑ k ∈ range T.dim, ∑ m ∈ range T.dim, ri k * rl m * ∑ j ∈ range (T.dim - 1), v j k * v j m := by
            refine Finset.sum_congr rfl (fun k _ => Finset.sum_congr rfl (fun m _ => ?_))
            rw [Finset.mul_sum]
            exact Finset.sum_congr rfl (fun j _ => by ring)
    rw [h1]
    have h2 : ∀ k ∈ range T.dim, ∀ m ∈ range T.dim, ri k * rl m * ∑ j ∈ range (T.dim - 1), v j k * v j m
        = ri k * rl m * (if k = m then 1 else 0) - (ri k * e k) * (rl m * e m) := by
      intro k hk m hm
      have := hcomplete k m (Finset.mem_range.mp hk) (Finset.mem_range.mp hm)
      rw [← this]; ring
    rw [Finset.sum_congr rfl (fun k hk => Finset.sum_congr rfl (fun m hm => h2 k hk m hm))]
    simp only [Finset.sum_sub_distrib]
    have h3 : ∑ k ∈ range T.dim, ∑ m ∈ range T.dim, (ri k * e k) * (rl m * e m) = dot T.dim ri e * dot T.dim rl e := by
      rw [dot_real, dot_real, Finset.sum_mul_sum]
    have h4 : ∑ k ∈ range T.dim, ∑ m ∈ range T.dim, ri k * rl m * (if k = m then 1 else 0) = dot T.dim ri rl := by
      rw [dot_real]
      refine Finset.sum_congr rfl (fun k hk => ?_)
      rw [Finset.sum_eq_single k]
      · simp
      · intro b _ hb; simp [Ne.symm hb]
      · intro h; exact absurd hk h
    rw [h3, h4, hre_i, hre_l]; ring

/-- non-vacuity: the two-dimensional standard space with `e = (0, 1)`, `v₀ = (1, 0)` meets the hypotheses -/
example : Standard { dim := 2, marg := fun _ => .normal 0 1, L := fun i j => if i = j then 1 else 0,
                     Linv := fun i j => if i = j then 1 else 0 } ∧
    (∀ k m, k < 2 → m < 2 →
      (∑ j ∈ range (2 - 1), (fun (_ : Nat) (q : Nat) => if q = 0 then (1 : ℝ) else 0) j k *
          (fun (_ : Nat) (q : Nat) => if q = 0 then (1 : ℝ) else 0) j m)
        + (fun q : Nat => if q = 1 then (1 : ℝ) else 0) k * (fun q : Nat => if q = 1 then (1 : ℝ) else 0) m
        = if k = m then 1 else 0) := by
  refine ⟨⟨fun _ _ => rfl, fun _ _ _ _ => rfl⟩, ?_⟩
  intro k m hk hm
  have hk' : k = 0 ∨ k = 1 := by omega
  have hm' : m = 0 ∨ m = 1 := by omega
  rcases hk' with rfl | rfl <;> rcases hm' with rfl | rfl <;> simp

end FF.SormPipe
