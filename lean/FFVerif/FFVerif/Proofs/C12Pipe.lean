/-
C12 — the EXECUTABLE model of the curvature extraction (`Model/SormPipe.lean`, compared with
`mainCurvaturesAtDesignPoint` through its eigenvalues), at the reals:

* `C12p_hessU_flat`: for normal marginals and a limit state with vanishing Hessian at the design point (a flat limit
  surface: linear `g`), the U-space Hessian vanishes;
* `C12p_block_flat`: hence every entry of the matrix whose eigenvalues are the main curvatures is `0` — whatever basis the
  Gram–Schmidt step produced — and by `C12_zero_curvature` the three second-order estimates are the first-order one;
* `C12p_hessU_symm`: the U-space Hessian is symmetric when `Hx` is;
* `C12p_block_symm`: the extracted block is symmetric (so its eigenvalues, the main curvatures, are real).
-/
import FFVerif.Proofs.C10Loop
import FFVerif.Model.SormPipe
namespace FF.SormPipe
open FF.Linalg FF.Nataf FF.Form Finset

theorem hessU_real (T : Model ℝ) (x a : Vec ℝ) (Hx : Mat ℝ) (i j : Nat) :
    hessU T x a Hx i j = (∑ k ∈ range T.dim, ∑ l ∈ range T.dim, jInv T x k i * Hx k l * jInv T x l j)
      + ∑ k ∈ range T.dim, T.L k i * (a k * Marg.d2xdz2 (T.marg k) (x k)) * T.L k j := by
  unfold hessU
  simp only [fsum_real]

theorem C12p_hessU_flat (T : Model ℝ) (mu sigma : Vec ℝ) (h : AllNormal T mu sigma) (x a : Vec ℝ) (Hx : Mat ℝ)
    (hH : ∀ k l, Hx k l = 0) (i j : Nat) : hessU T x a Hx i j = 0 := by
  rw [hessU_real]
  have h1 : ∑ k ∈ range T.dim, ∑ l ∈ range T.dim, jInv T x k i * Hx k l * jInv T x l j = 0 :=
    Finset.sum_eq_zero (fun k _ => Finset.sum_eq_zero (fun l _ => by rw [hH]; ring))
  have h2 : ∑ k ∈ range T.dim, T.L k i * (a k * Marg.d2xdz2 (T.marg k) (x k)) * T.L k j = 0 := by
    refine Finset.sum_eq_zero (fun k hk => ?_)
    rw [h k (Finset.mem_range.mp hk)]
    simp [Marg.d2xdz2]
  rw [h1, h2, add_zero]

theorem C12p_hessU_symm (T : Model ℝ) (x a : Vec ℝ) (Hx : Mat ℝ) (hs : ∀ k l, Hx k l = Hx l k) (i j : Nat) :
    hessU T x a Hx i j = hessU T x a Hx j i := by
  rw [hessU_real, hessU_real]
  congr 1
  · rw [Finset.sum_comm]
    refine Finset.sum_congr rfl (fun l _ => Finset.sum_congr rfl (fun k _ => ?_))
    rw [hs k l]; ring
  · exact Finset.sum_congr rfl (fun k _ => by ring)

/-- the entries of the extracted block, as a function of the rows of `H` -/
theorem block_entry (T : Model ℝ) (x a : Vec ℝ) (Hx : Mat ℝ) :
    (curvatureBlock T x a Hx).block =
      ((curvatureBlock T x a Hx).rows.take (T.dim - 1)).map (fun ri =>
        ((curvatureBlock T x a Hx).rows.take (T.dim - 1)).map (fun rj =>
          ∑ k ∈ range T.dim, ∑ l ∈ range T.dim, ri k * (hessU T x a Hx k l / (curvatureBlock T x a Hx).gradNorm) * rj l)) := by
  unfold curvatureBlock
  simp only [ofArr_mkArr, ofArr2_mkArr2, fsum_real]

/-- **flat limit surface ⇒ all entries of the curvature matrix vanish** (normal marginals) -/
theorem C12p_block_flat (T : Model ℝ) (mu sigma : Vec ℝ) (h : AllNormal T mu sigma) (x a : Vec ℝ) (Hx : Mat ℝ)
    (hH : ∀ k l, Hx k l = 0) : ∀ row ∈ (curvatureBlock T x a Hx).block, ∀ e ∈ row, e = 0 := by
  rw [block_entry]
  intro row hrow e he
  obtain ⟨ri, _, rfl⟩ := List.mem_map.mp hrow
  obtain ⟨rj, _, rfl⟩ := List.mem_map.mp he
  refine Finset.sum_eq_zero (fun k _ => Finset.sum_eq_zero (fun l _ => ?_))
  rw [C12p_hessU_flat T mu sigma h x a Hx hH]; ring

/-- the extracted block is symmetric: entry `(i, j)` equals entry `(j, i)` -/
theorem C12p_block_symm (T : Model ℝ) (x a : Vec ℝ) (Hx : Mat ℝ) (hs : ∀ k l, Hx k l = Hx l k)
    (ri rj : Vec ℝ) :
    ∑ k ∈ range T.dim, ∑ l ∈ range T.dim, ri k * (hessU T x a Hx k l / (curvatureBlock T x a Hx).gradNorm) * rj l
      = ∑ k ∈ range T.dim, ∑ l ∈ range T.dim, rj k * (hessU T x a Hx k l / (curvatureBlock T x a Hx).gradNorm) * ri l := by
  rw [Finset.sum_comm]
  refine Finset.sum_congr rfl (fun l _ => Finset.sum_congr rfl (fun k _ => ?_))
  rw [C12p_hessU_symm T x a Hx hs k l]; ring

end FF.SormPipe
