/-
C02 — property theorems: every counter returns a consistent, bounded and conserved census.
`Counter.run` are the code-shaped models (tied to the Python by exact correspondence).
-/
import FFVerif.Lemmas.Repeat
import FFVerif.Lemmas.Table
import FFVerif.Props.C02
namespace FF
open C02

/-- the counter-specific core, proved per counter in `census_core` -/
structure CensusCore (k : Counter) (h : List Int) : Prop where
  good : ∀ c ∈ k.run h, Good (pv true h) c
  whole : k.exact = false → ∀ c ∈ k.run h, c.half = false
  total : if k.exact then totalUnits (k.run h) + 1 = (pv true h).length
          else totalUnits (k.run h) + 1 ≤ (pv true h).length

theorem pv_length_pos (h : List Int) (hne : h ≠ []) : 1 ≤ (pv true h).length := by
  cases h with
  | nil => exact absurd rfl hne
  | cons x r => simp [pv]

theorem nonconst_ne_nil {h : List Int} (hc : isConstant h = false) : h ≠ [] := by
  intro e; subst e; simp [isConstant] at hc

theorem census_core (k : Counter) (h : List Int) (hc : isConstant h = false) : CensusCore k h := by
  have hz : Zig (pv true h) := pv_zig h hc
  have hpos := pv_length_pos h (nonconst_ne_nil hc)
  cases k with
  | simple =>
    refine ⟨halves_good _ hz, fun e => by simp [Counter.exact] at e, ?_⟩
    simp only [Counter.exact, Counter.run, simpleRange, if_true, totalUnits_halves]; omega
  | rainflow =>
    refine ⟨?_, fun e => by simp [Counter.exact] at e, ?_⟩
    · intro c hcm
      rcases implGo_good [] (pv true h) true [] (by simpa using hz) c hcm with h' | h'
      · cases h'
      · simpa using h'
    · simp only [Counter.exact, Counter.run, rainflow, if_true, implGo_nil_eq_astm, astm_total]; omega
  | rangepair =>
    obtain ⟨f1, f2, f3, f4, f5⟩ := rpForward_spec [] (pv true h) [] (by simpa using hz)
    obtain ⟨b1, b2, b3, b4⟩ := rpBack_spec (rpForward [] (pv true h) []).1 (rpForward [] (pv true h) []).2 f1
    have gw : ∀ c ∈ rangePair h, GoodW (pv true h) c := by
      intro c hcm
      rcases b1 c hcm with h' | h'
      · rcases f3 c h' with h'' | h''
        · cases h''
        · simpa using h''
      · exact h'.mono (by simpa using f2)
    refine ⟨fun c hcm => (gw c hcm).1, fun _ c hcm => (gw c hcm).2, ?_⟩
    have := b3 (f5 (by simpa using hpos))
    simp only [Counter.exact, Counter.run, rangePair, rangePairFull]
    simp [totalUnits] at f4 b2 ⊢
    omega
  | repeating =>
    have hR : pv true h ≠ [] := by intro e; rw [e] at hpos; simp at hpos
    obtain ⟨r1, r2⟩ := repeat_spec (pv true h) hR
    exact ⟨fun c hcm => (r1 c hcm).1, fun _ c hcm => (r1 c hcm).2, by
      simpa [Counter.exact, Counter.run, rainflowRepeat] using r2⟩
  | fourpoint =>
    obtain ⟨g1, g2, g3, g4⟩ := fpGo_spec (pv true h) [] hz
    have gw : ∀ c ∈ fourPoint h, GoodW (pv true h) c := by
      intro c hcm
      rcases g1 c hcm with h' | h'
      · cases h'
      · exact h'
    refine ⟨fun c hcm => (gw c hcm).1, fun _ c hcm => (gw c hcm).2, ?_⟩
    simp only [Counter.exact, Counter.run, fourPoint, fourPointFull]
    -- at least one point survives
    have hres : 1 ≤ (fpGo (pv true h) []).1.length := by
      by_cases h2 : 2 ≤ (pv true h).length
      · have := g3 h2; omega
      · -- fewer than four points: nothing is found
        have : fpRound (pv true h) = none := by
          match hh : pv true h with
          | [] => simp [fpRound]
          | [_] => simp [fpRound]
          | _ :: _ :: _ => rw [hh] at h2; simp at h2
        unfold fpGo
        split
        · rename_i heq; rw [this] at heq; cases heq
        · simpa using hpos
    simp [totalUnits] at g2 ⊢
    omega
  | rychlik =>
    have gw := peaksGo_good _ rychlik_fn [] (pv true h)
    have tt := (peaksGo_total (fun l m r => some ⟨max (scanMin m l) (scanMinLe m r), m, false⟩)
      (by intro l m r c e; simp at e; subst e; rfl) [] (pv true h)).2.2 rfl
    refine ⟨fun c hcm => (by simpa using (gw c hcm).1), fun _ c hcm => (gw c hcm).2, ?_⟩
    simp only [Counter.exact, Counter.run, rychlik]
    rcases tt with t | t
    · simpa using t
    · have : peaksGo (fun l m r => some (⟨max (scanMin m l) (scanMinLe m r), m, false⟩ : Cyc)) [] (pv true h) = [] := by
        match hh : pv true h with
        | [] => simp [peaksGo]
        | [_] => simp [peaksGo]
        | _ :: _ :: _ => rw [hh] at t; simp at t
      rw [this]; simpa [totalUnits] using hpos
  | johannesson =>
    have gw := peaksGo_good _ johannesson_fn [] (pv true h)
    have tt := (peaksGo_total (fun l m _ => some ⟨scanMin m l, m, false⟩)
      (by intro l m r c e; simp at e; subst e; rfl) [] (pv true h)).2.2 rfl
    refine ⟨fun c hcm => (by simpa using (gw c hcm).1), fun _ c hcm => (gw c hcm).2, ?_⟩
    simp only [Counter.exact, Counter.run, johannesson]
    rcases tt with t | t
    · simpa using t
    · have : peaksGo (fun l m _ => some (⟨scanMin m l, m, false⟩ : Cyc)) [] (pv true h) = [] := by
        match hh : pv true h with
        | [] => simp [peaksGo]
        | [_] => simp [peaksGo]
        | _ :: _ :: _ => rw [hh] at t; simp at t
      rw [this]; simpa [totalUnits] using hpos

/-! ### the clauses of C02, for every counter and every non-constant history -/

theorem C02_histogram (k : Counter) (h : List Int) :
    histogramOK (k.run h) (table (k.run h)) = true := isHistogram_table _

theorem C02_ranges (k : Counter) (h : List Int) (hc : isConstant h = false) :
    rangesOK h (k.run h) = true := by
  have core := census_core k h hc
  simp only [rangesOK, List.all_eq_true, Bool.and_eq_true, decide_eq_true_eq]
  intro c hcm
  obtain ⟨ha, hb, hne⟩ := core.good c hcm
  refine ⟨?_, rng_le_span ((pv_sublist true h).subset ha) ((pv_sublist true h).subset hb)⟩
  unfold Cyc.range rng; omega

theorem C02_endpoints (k : Counter) (h : List Int) (hc : isConstant h = false) :
    endpointsOK h (k.run h) = true := by
  have core := census_core k h hc
  simp only [endpointsOK, List.all_eq_true, Bool.and_eq_true, List.contains_iff_mem,
    ← pv_true_eq_reversals]
  exact fun c hcm => ⟨(core.good c hcm).1, (core.good c hcm).2.1⟩

theorem C02_total (k : Counter) (h : List Int) (hc : isConstant h = false) :
    totalOK k h (k.run h) = true := by
  have core := (census_core k h hc).total
  unfold totalOK; rw [← pv_true_eq_reversals]
  cases hk : k.exact <;> simp [hk] at core ⊢ <;> omega

theorem C02_wholes (k : Counter) (h : List Int) (hc : isConstant h = false) :
    wholesOK k (k.run h) = true := by
  have core := census_core k h hc
  unfold wholesOK
  cases hk : k.exact
  · simp only [Bool.false_or, List.all_eq_true, Bool.not_eq_true']
    exact fun c hcm => core.whole hk c hcm
  · rfl

/-- range-pair leaves at most one uncounted range -/
theorem C02_leftover (k : Counter) (h : List Int) (hc : isConstant h = false) :
    leftoverOK k h (k.run h) = true := by
  unfold leftoverOK
  by_cases hk : k = .rangepair
  · subst hk
    have hz : Zig (pv true h) := pv_zig h hc
    obtain ⟨f1, f2, f3, f4, f5⟩ := rpForward_spec [] (pv true h) [] (by simpa using hz)
    have hd := rpForward_decR [] (pv true h) [] (by simp [DecR])
    obtain ⟨b1, b2, b3, b4⟩ := rpBack_spec (rpForward [] (pv true h) []).1 (rpForward [] (pv true h) []).2 f1
    have := b4 hd
    rw [← pv_true_eq_reversals]
    simp only [Counter.run, rangePair, rangePairFull]
    have e1 : totalUnits ([] : List Cyc) = 0 := rfl
    rw [e1] at f4
    simp only [List.length_nil] at f4
    have goal : (pv true h).length ≤
        totalUnits (rpBack (rpForward [] (pv true h) []).1 (rpForward [] (pv true h) []).2).2 + 2 := by omega
    simp only [bne_self_eq_false, Bool.false_or]
    exact decide_eq_true goal
  · simp [hk]

/-- all clauses at once: the predicate evaluated by the checker on the implementation's output
holds of the model's output for every counter and every non-constant history -/
theorem C02_census (k : Counter) (h : List Int) (hc : isConstant h = false) :
    C02.failing k h (k.run h) (table (k.run h)) = [] := by
  simp [C02.failing, C02_histogram, C02_ranges k h hc, C02_endpoints k h hc, C02_total k h hc,
    C02_wholes k h hc, C02_leftover k h hc]

-- non-vacuity: a non-constant history exists, and the range-pair witness of the repaired defect
example : isConstant [0, 4, 1, 3, 2] = false := by decide
example : rangePair [0, 4, 1, 3, 2] = [⟨3, 2, false⟩, ⟨4, 1, false⟩] := by
  simp [rangePair, rangePairFull, pv, pvGo, rpForward, rpReduce, rpBack, rng]

end FF
