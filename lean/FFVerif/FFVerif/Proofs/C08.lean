/-
C08 — property theorems: Miner damage is the linear sum of count/life over the fitted S-N curve.
`Miner.classic`, `Miner.naive`, `Miner.getN`, `Miner.lsq` are the code-shaped generic-scalar models
(accumulation loop with the -1 sentinel, closed-form least squares); here at the reals.
-/
import Mathlib.Tactic.Ring
import Mathlib.Tactic.Linarith
import Mathlib.Tactic.Positivity
import Mathlib.Tactic.FieldSimp
import Mathlib.Tactic.LinearCombination
import Mathlib.Algebra.BigOperators.Group.List.Basic
import Mathlib.Algebra.Order.BigOperators.Group.List
import FFVerif.Lemmas.RealScalar
import FFVerif.Model.Miner
namespace FF
open Miner

theorem miner_zero : (Miner.zero : ℝ) = 0 := by simp [Miner.zero]

theorem miner_sum (l : List ℝ) : Miner.sum l = l.sum := by
  unfold Miner.sum
  rw [miner_zero]
  have : ∀ (l : List ℝ) (acc : ℝ), l.foldl (· + ·) acc = acc + l.sum := by
    intro l; induction l with
    | nil => intro acc; simp
    | cons x l ih => intro acc; simp only [List.foldl_cons, List.sum_cons, ih]; ring
  rw [this]; simp

theorem miner_count (l : List ℝ) : Miner.count l = l.length := by
  unfold Miner.count
  rw [miner_zero]
  have : ∀ (l : List ℝ) (acc : ℝ), l.foldl (fun acc _ => acc + Transc.lit 1 0) acc = acc + l.length := by
    intro l; induction l with
    | nil => intro acc; simp
    | cons x l ih => intro acc; simp only [List.foldl_cons, ih, List.length_cons]; simp; ring
  rw [this]; simp

/-- one row's contribution -/
noncomputable def term (sn : List (ℝ × ℝ)) (limit : ℝ) (p : ℝ × ℝ) : ℝ :=
  match getN sn limit p.1 with
  | some nf => p.2 / nf
  | none => 0

/-- the accumulation loop is the sum of the per-row contributions -/
theorem C08_classic_eq_sum (rows sn : List (ℝ × ℝ)) (limit : ℝ) :
    classic rows sn limit = (rows.map (term sn limit)).sum := by
  unfold classic
  rw [miner_zero]
  have : ∀ (rows : List (ℝ × ℝ)) (acc : ℝ),
      rows.foldl (classicStep sn limit) acc = acc + (rows.map (term sn limit)).sum := by
    intro rows; induction rows with
    | nil => intro acc; simp
    | cons p rows ih =>
      intro acc
      simp only [List.foldl_cons, List.map_cons, List.sum_cons, ih, term, classicStep]
      cases getN sn limit p.1 <;> simp <;> ring
  rw [this]; simp

/-- the fitted life: 10^(a*S + b) with (a, b) the least-squares line of log10 N on S -/
noncomputable def lifeN (sn : List (ℝ × ℝ)) (S : ℝ) : ℝ :=
  (10 : ℝ) ^ ((lsq (sn.map (·.2)) (sn.map (fun p => Real.log p.1 / Real.log 10))).1 * S +
    (lsq (sn.map (·.2)) (sn.map (fun p => Real.log p.1 / Real.log 10))).2)

/-- each row contributes count / N(S), and nothing at or below the fatigue limit (boundary included) -/
theorem C08_term (sn : List (ℝ × ℝ)) (limit : ℝ) (p : ℝ × ℝ) :
    term sn limit p = if p.1 ≤ limit then 0 else p.2 / lifeN sn p.1 := by
  unfold term getN lifeN
  by_cases h : p.1 ≤ limit
  · have : Transc.leb p.1 limit = true := by rw [leb_real]; exact h
    simp [this, h]
  · have : Transc.leb p.1 limit = false := by rw [← Bool.not_eq_true, leb_real]; exact h
    simp only [this, if_neg h, Bool.false_eq_true, if_false, rpow_real, lit_real, log10_real]
    norm_num

theorem lifeN_pos (sn : List (ℝ × ℝ)) (S : ℝ) : 0 < lifeN sn S := by
  unfold lifeN; positivity

/-- additive over concatenated tables -/
theorem C08_additive (r1 r2 sn : List (ℝ × ℝ)) (limit : ℝ) :
    classic (r1 ++ r2) sn limit = classic r1 sn limit + classic r2 sn limit := by
  simp only [C08_classic_eq_sum, List.map_append, List.sum_append]

/-- proportional to the counts -/
theorem C08_homogeneous (rows sn : List (ℝ × ℝ)) (limit k : ℝ) :
    classic (rows.map (fun p => (p.1, k * p.2))) sn limit = k * classic rows sn limit := by
  simp only [C08_classic_eq_sum, List.map_map]
  induction rows with
  | nil => simp
  | cons p rows ih =>
    simp only [List.map_cons, List.sum_cons, Function.comp, ih, C08_term]
    split <;> ring

/-- independent of row order -/
theorem C08_perm (r1 r2 sn : List (ℝ × ℝ)) (limit : ℝ) (h : r1.Perm r2) :
    classic r1 sn limit = classic r2 sn limit := by
  simp only [C08_classic_eq_sum]
  exact (h.map _).sum_eq

/-- never negative (non-negative counts) -/
theorem C08_nonneg (rows sn : List (ℝ × ℝ)) (limit : ℝ) (hc : ∀ p ∈ rows, 0 ≤ p.2) :
    0 ≤ classic rows sn limit := by
  rw [C08_classic_eq_sum]
  apply List.sum_nonneg
  intro x hx
  obtain ⟨p, hp, rfl⟩ := List.mem_map.mp hx
  rw [C08_term]
  split
  · exact le_refl _
  · exact div_nonneg (hc p hp) (lifeN_pos sn p.1).le

/-- rows at or below the fatigue limit contribute nothing -/
theorem C08_below_limit (rows sn : List (ℝ × ℝ)) (limit : ℝ) (h : ∀ p ∈ rows, p.1 ≤ limit) :
    classic rows sn limit = 0 := by
  rw [C08_classic_eq_sum]
  apply List.sum_eq_zero
  intro x hx
  obtain ⟨p, hp, rfl⟩ := List.mem_map.mp hx
  rw [C08_term, if_pos (h p hp)]

/-- on a falling S-N curve (slope a < 0) raising a stress level never lowers the row's damage -/
theorem C08_monotone_row (sn : List (ℝ × ℝ)) (limit S S' c : ℝ) (hc : 0 ≤ c) (hS : S ≤ S')
    (ha : (lsq (sn.map (·.2)) (sn.map (fun p => Real.log p.1 / Real.log 10))).1 ≤ 0) :
    term sn limit (S, c) ≤ term sn limit (S', c) := by
  rw [C08_term, C08_term]
  by_cases h1 : S ≤ limit
  · rw [if_pos h1]
    simp only
    split
    · exact le_refl _
    · exact div_nonneg hc (lifeN_pos sn S').le
  · have h2 : ¬ S' ≤ limit := fun h => h1 (le_trans hS h)
    rw [if_neg h1, if_neg h2]
    apply div_le_div_of_nonneg_left hc (lifeN_pos sn S')
    unfold lifeN
    apply Real.rpow_le_rpow_of_exponent_le (by norm_num)
    nlinarith

/-- the naive model is the sum of C_i / F_i -/
theorem C08_naive (rows : List (ℝ × ℝ)) : naive rows = (rows.map (fun p => p.1 / p.2)).sum := by
  unfold naive; rw [miner_sum]

/-! ### the least-squares line -/

/-- normal equations: the residuals sum to zero and are orthogonal to x -/
theorem lsq_normal (xs ys : List ℝ) (hl : xs.length = ys.length)
    (hdet : (xs.length : ℝ) * (xs.map (fun x => x * x)).sum - xs.sum * xs.sum ≠ 0) (hn : xs ≠ []) :
    ((xs.zip ys).map (fun p => p.2 - ((lsq xs ys).1 * p.1 + (lsq xs ys).2))).sum = 0 ∧
    ((xs.zip ys).map (fun p => p.1 * (p.2 - ((lsq xs ys).1 * p.1 + (lsq xs ys).2)))).sum = 0 := by
  have hn0 : (xs.length : ℝ) ≠ 0 := by
    have : 0 < xs.length := List.length_pos_iff.mpr hn
    positivity
  -- sums over the zipped list in terms of the five moments
  have key : ∀ (a b : ℝ) (xs ys : List ℝ), xs.length = ys.length →
      ((xs.zip ys).map (fun p => p.2 - (a * p.1 + b))).sum = ys.sum - a * xs.sum - b * xs.length ∧
      ((xs.zip ys).map (fun p => p.1 * (p.2 - (a * p.1 + b)))).sum =
        ((xs.zip ys).map (fun p => p.1 * p.2)).sum - a * (xs.map (fun x => x * x)).sum - b * xs.sum := by
    intro a b xs
    induction xs with
    | nil => intro ys h; cases ys <;> simp_all
    | cons x xs ih =>
      intro ys h
      cases ys with
      | nil => simp at h
      | cons y ys =>
        obtain ⟨i1, i2⟩ := ih ys (by simpa using h)
        simp only [List.zip_cons_cons, List.map_cons, List.sum_cons, List.length_cons, i1, i2]
        constructor <;> push_cast <;> ring
  obtain ⟨k1, k2⟩ := key (lsq xs ys).1 (lsq xs ys).2 xs ys hl
  rw [k1, k2]
  have ha : (lsq xs ys).1 = ((xs.length : ℝ) * ((xs.zip ys).map (fun p => p.1 * p.2)).sum - xs.sum * ys.sum) /
      ((xs.length : ℝ) * (xs.map (fun x => x * x)).sum - xs.sum * xs.sum) := by
    unfold lsq; simp only [miner_sum, miner_count]
  have hb : (lsq xs ys).2 = (ys.sum - (lsq xs ys).1 * xs.sum) / (xs.length : ℝ) := by
    unfold lsq; simp only [miner_sum, miner_count]
  generalize (lsq xs ys).1 = a at ha hb ⊢
  generalize (lsq xs ys).2 = b at hb ⊢
  generalize ((xs.zip ys).map (fun p => p.1 * p.2)).sum = sxy at ha ⊢
  generalize (xs.map (fun x => x * x)).sum = sxx at ha hdet ⊢
  generalize xs.sum = sx at ha hb hdet ⊢
  generalize ys.sum = sy at ha hb ⊢
  generalize (xs.length : ℝ) = n at ha hb hdet hn0 ⊢
  have haD : a * (n * sxx - sx * sx) = n * sxy - sx * sy := by rw [ha, div_mul_cancel₀ _ hdet]
  have hbn : b * n = sy - a * sx := by rw [hb, div_mul_cancel₀ _ hn0]
  constructor
  · linarith
  · have : n * (sxy - a * sxx - b * sx) = 0 := by
      have : n * (sxy - a * sxx - b * sx) = (n * sxy - sx * sy) - a * (n * sxx - sx * sx) - (b * n - (sy - a * sx)) * sx := by ring
      rw [this, haD, hbn]; ring
    rcases mul_eq_zero.mp this with h | h
    · exact absurd h hn0
    · exact h

/-- two points are interpolated exactly -/
theorem lsq_two_points (x1 x2 y1 y2 : ℝ) (hx : x1 ≠ x2) :
    (lsq [x1, x2] [y1, y2]).1 * x1 + (lsq [x1, x2] [y1, y2]).2 = y1 ∧
    (lsq [x1, x2] [y1, y2]).1 * x2 + (lsq [x1, x2] [y1, y2]).2 = y2 := by
  have hdet : ((([x1, x2] : List ℝ).length : ℝ)) * (([x1, x2] : List ℝ).map (fun x => x * x)).sum
      - ([x1, x2] : List ℝ).sum * ([x1, x2] : List ℝ).sum ≠ 0 := by
    have : (x1 - x2) ^ 2 ≠ 0 := pow_ne_zero 2 (sub_ne_zero.mpr hx)
    intro h; apply this
    simp at h; nlinarith
  obtain ⟨n1, n2⟩ := lsq_normal [x1, x2] [y1, y2] rfl hdet (by simp)
  simp only [List.zip_cons_cons, List.zip_nil_right, List.map_cons, List.map_nil, List.sum_cons, List.sum_nil,
    add_zero] at n1 n2
  generalize (lsq [x1, x2] [y1, y2]).1 = a at n1 n2 ⊢
  generalize (lsq [x1, x2] [y1, y2]).2 = b at n1 n2 ⊢
  -- r1 + r2 = 0 and x1 r1 + x2 r2 = 0 with x1 ≠ x2 force r1 = r2 = 0
  have hr1 : (x1 - x2) * (y1 - (a * x1 + b)) = 0 := by linear_combination n2 - x2 * n1
  have hr2 : (x1 - x2) * (y2 - (a * x2 + b)) = 0 := by linear_combination x1 * n1 - n2
  have hne : x1 - x2 ≠ 0 := sub_ne_zero.mpr hx
  constructor
  · rcases mul_eq_zero.mp hr1 with h | h
    · exact absurd h hne
    · linarith
  · rcases mul_eq_zero.mp hr2 with h | h
    · exact absurd h hne
    · linarith

/-- **the fitted line is the least-squares line**: no other line has a smaller sum of squared residuals
(this is what `np.polyfit( S, log10( N ), 1 )` is documented to return; the closed form of the model is
compared with it numerically, and is the minimiser by this theorem) -/
theorem lsq_minimises (xs ys : List ℝ) (hl : xs.length = ys.length)
    (hdet : (xs.length : ℝ) * (xs.map (fun x => x * x)).sum - xs.sum * xs.sum ≠ 0) (hn : xs ≠ []) (a' b' : ℝ) :
    ((xs.zip ys).map (fun p => (p.2 - ((lsq xs ys).1 * p.1 + (lsq xs ys).2)) ^ 2)).sum ≤
    ((xs.zip ys).map (fun p => (p.2 - (a' * p.1 + b')) ^ 2)).sum := by
  obtain ⟨n1, n2⟩ := lsq_normal xs ys hl hdet hn
  generalize (lsq xs ys).1 = a at n1 n2 ⊢
  generalize (lsq xs ys).2 = b at n1 n2 ⊢
  generalize xs.zip ys = ps at n1 n2 ⊢
  -- S(a', b') = S(a, b) + 2 (a - a') Σ x r + 2 (b - b') Σ r + Σ ((a - a') x + (b - b'))²
  have key : ∀ ps : List (ℝ × ℝ),
      (ps.map (fun p => (p.2 - (a' * p.1 + b')) ^ 2)).sum =
        (ps.map (fun p => (p.2 - (a * p.1 + b)) ^ 2)).sum
        + 2 * (a - a') * (ps.map (fun p => p.1 * (p.2 - (a * p.1 + b)))).sum
        + 2 * (b - b') * (ps.map (fun p => p.2 - (a * p.1 + b))).sum
        + (ps.map (fun p => ((a - a') * p.1 + (b - b')) ^ 2)).sum := by
    intro ps
    induction ps with
    | nil => simp
    | cons p ps ih => simp only [List.map_cons, List.sum_cons, ih]; ring
  rw [key ps, n1, n2]
  have hnn : 0 ≤ (ps.map (fun p => ((a - a') * p.1 + (b - b')) ^ 2)).sum :=
    List.sum_nonneg (by intro x hx; obtain ⟨p, _, rfl⟩ := List.mem_map.mp hx; positivity)
  linarith

end FF
