/-
C12 — the finite-difference Hessian inside the curvature extraction, for quadratic limit states.

`mainCurvaturesAtDesignPoint` obtains the X-space Hessian of the limit state from `hessianMatrix` (the nested stencil).  The executable
model of the pipeline (`Model/SormPipe.lean: curvatureBlock`) takes that Hessian as an argument; the executable model of `hessianMatrix`
is `Model/Deriv.lean: hessD`.  For a quadratic limit state `g( y ) = c0 + b·y + yᵀ Q y` the two combine exactly, at the reals:
the whole result of the pipeline fed with the finite-difference Hessian of the model — any regenerated first-derivative table, any
non-zero step — is the result with the analytic Hessian `Q + Qᵀ` (`C12h_block_fd_quadratic`).  So on quadratic limit states the
"finite-difference numerics" of C12 are exact up to rounding, and the curvature theorems of `C12Pipe` / `C12Rows` (stated for a given
Hessian) apply to what the code computes.
-/
import FFVerif.Proofs.C20Hess
import FFVerif.Lemmas.LinalgReal
import FFVerif.Model.SormPipe
namespace FF.SormPipe
open FF.Linalg FF.Nataf FF.Deriv Finset

/-- the U-space Hessian reads the X-space Hessian only inside the dimension -/
theorem hessU_congr (T : Model ℝ) (x a : Vec ℝ) (H1 H2 : Mat ℝ) (h : ∀ k < T.dim, ∀ l < T.dim, H1 k l = H2 k l) :
    hessU T x a H1 = hessU T x a H2 := by
  funext i j
  unfold hessU
  simp only [fsum_real]
  congr 1
  refine sum_congr rfl (fun k hk => sum_congr rfl (fun l hl => ?_))
  rw [h k (mem_range.mp hk) l (mem_range.mp hl)]

theorem curvatureBlock_congr (T : Model ℝ) (x a : Vec ℝ) (H1 H2 : Mat ℝ) (h : ∀ k < T.dim, ∀ l < T.dim, H1 k l = H2 k l) :
    curvatureBlock T x a H1 = curvatureBlock T x a H2 := by
  unfold curvatureBlock
  rw [hessU_congr T x a H1 H2 h]

/-- **quadratic limit state**: the pipeline on the finite-difference Hessian of the model is the pipeline on `Q + Qᵀ` -/
theorem C12h_block_fd_quadratic (T : Model ℝ) (x a : Vec ℝ) (t : Nat × Nat × List Int × Int) (ht : t ∈ Gen.diffTables)
    (ht1 : t.1 = 1) (hm : 3 ≤ t.2.1) (c0 : ℝ) (b : Nat → ℝ) (Q : Nat → Nat → ℝ) (dx : ℝ) (hdx : dx ≠ 0) :
    curvatureBlock T x a (fun i j => hessD t (quad T.dim c0 b Q) i j x dx) =
      curvatureBlock T x a (fun i j => Q i j + Q j i) :=
  curvatureBlock_congr T x a _ _ (fun k hk l hl => C20h_hess_quadratic t ht ht1 hm T.dim c0 b Q k l hk hl x dx hdx)

/-- likewise the gradient handed to the pipeline when `dg = None`: the stencil returns the exact gradient of the quadratic -/
theorem C12h_grad_fd_quadratic (n : Nat) (t : Nat × Nat × List Int × Int) (ht : t ∈ Gen.diffTables)
    (ht1 : t.1 = 1) (hm : 3 ≤ t.2.1) (c0 : ℝ) (b : Nat → ℝ) (Q : Nat → Nat → ℝ) (i : Nat) (hi : i < n) (x : Nat → ℝ) (dx : ℝ) (hdx : dx ≠ 0) :
    partialD t (quad n c0 b Q) i x dx = b i + ∑ k ∈ range n, (Q k i + Q i k) * x k := by
  rw [C20h_grad_quadratic t ht ht1 hm n c0 b Q i x dx hdx, quadGrad_closed n b Q i hi x]

end FF.SormPipe
