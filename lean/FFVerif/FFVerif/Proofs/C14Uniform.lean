/-
C14 — the step from the decision rule to the kernel.

`Proofs/C14.lean` proves the rule of the executable sampler model (`accepts`: the move is made exactly when
`u · f(cur) ≤ f(cand)`), `Proofs/C14Balance.lean` / `C14Continuous.lean` prove detailed balance of the kernel
whose acceptance probability is `min 1 (f(cand)/f(cur))`.  This file proves the link between the two: for a
draw `u` uniform on `[0, 1)` (what `numpy.random.Generator.uniform()` returns; Lebesgue measure restricted to
the unit interval) the set of draws on which the rule accepts has measure exactly `min 1 (f(cand)/f(cur))`,
and the rule of the executable model on a rational draw is that very inequality at the reals.

  C14u_accepts_iff          : `accepts fcur fcand uNum uDen = true ↔ (uNum/uDen : ℝ) · fcur ≤ fcand`
  C14u_accept_set           : `{u ∈ [0,1) | u · a ≤ b} = [0,1) ∩ (-∞, b/a]`  (a > 0)
  C14u_accept_probability   : `volume {u ∈ [0,1) | u · a ≤ b} = ofReal (min 1 (b/a))`  (a > 0, b ≥ 0)
  C14u_zero_density_measure : the draws on which a candidate of density 0 is accepted (only `u = 0`, the known
                              finding of C14) have measure 0, so the finding does not change the kernel
-/
import Mathlib.MeasureTheory.Measure.Lebesgue.Basic
import Mathlib.Tactic.Linarith
import Mathlib.Tactic.FieldSimp
import FFVerif.Model.Sampler
import FFVerif.Proofs.C14Balance

namespace FF
open MeasureTheory Set
open FF.Sampler

/-- the rule of the executable model on the rational draw `uNum / uDen` is `u · f(cur) ≤ f(cand)` at the reals -/
theorem C14u_accepts_iff (fcur fcand : Int) (uNum uDen : Nat) (hd : 0 < uDen) :
    accepts fcur fcand uNum uDen = true ↔ ((uNum : ℝ) / (uDen : ℝ)) * (fcur : ℝ) ≤ (fcand : ℝ) := by
  unfold accepts
  rw [decide_eq_true_iff]
  have hD : (0 : ℝ) < (uDen : ℝ) := by exact_mod_cast hd
  rw [div_mul_eq_mul_div, div_le_iff₀ hD]
  constructor
  · intro h
    have : (((uNum : Int) * fcur : Int) : ℝ) ≤ ((fcand * (uDen : Int) : Int) : ℝ) := by exact_mod_cast h
    simpa using this
  · intro h
    have : (((uNum : Int) * fcur : Int) : ℝ) ≤ ((fcand * (uDen : Int) : Int) : ℝ) := by simpa using h
    exact_mod_cast this

/-- the accepting draws, as an interval -/
theorem C14u_accept_set (a b : ℝ) (ha : 0 < a) :
    {u : ℝ | u ∈ Ico (0 : ℝ) 1 ∧ u * a ≤ b} = Ico (0 : ℝ) 1 ∩ Iic (b / a) := by
  ext u
  simp only [mem_ofPred_eq, mem_inter_iff, mem_Iic, le_div_iff₀ ha]

/-- a uniform draw on `[0, 1)` is accepted with probability `min 1 (f(cand) / f(cur))` -/
theorem C14u_accept_probability (a b : ℝ) (ha : 0 < a) (hb : 0 ≤ b) :
    volume {u : ℝ | u ∈ Ico (0 : ℝ) 1 ∧ u * a ≤ b} = ENNReal.ofReal (min 1 (b / a)) := by
  rw [C14u_accept_set a b ha]
  have hr : 0 ≤ b / a := div_nonneg hb ha.le
  by_cases h1 : 1 ≤ b / a
  · have : Ico (0 : ℝ) 1 ∩ Iic (b / a) = Ico 0 1 := by
      ext u
      simp only [mem_inter_iff, mem_Ico, mem_Iic]
      constructor
      · exact fun h => h.1
      · exact fun h => ⟨h, by linarith [h.2]⟩
    rw [this, Real.volume_Ico, min_eq_left h1]
    norm_num
  · have h1' : b / a < 1 := lt_of_not_ge h1
    have : Ico (0 : ℝ) 1 ∩ Iic (b / a) = Icc 0 (b / a) := by
      ext u
      simp only [mem_inter_iff, mem_Ico, mem_Iic, mem_Icc]
      constructor
      · exact fun h => ⟨h.1.1, h.2⟩
      · exact fun h => ⟨⟨h.1, by linarith [h.2]⟩, h.2⟩
    rw [this, Real.volume_Icc, min_eq_right h1'.le]
    norm_num

/-- a candidate of density 0 is accepted only on the draw `u = 0`: a set of measure zero -/
theorem C14u_zero_density_measure (a : ℝ) (ha : 0 < a) :
    volume {u : ℝ | u ∈ Ico (0 : ℝ) 1 ∧ u * a ≤ 0} = 0 := by
  have := C14u_accept_probability a 0 ha le_rfl
  simpa using this

/-- the same set is exactly `{0}` -/
theorem C14u_zero_density_set (a : ℝ) (ha : 0 < a) :
    {u : ℝ | u ∈ Ico (0 : ℝ) 1 ∧ u * a ≤ 0} = {0} := by
  ext u
  simp only [mem_ofPred_eq, mem_Ico, mem_singleton_iff]
  constructor
  · rintro ⟨⟨h0, _⟩, h⟩
    have : u ≤ 0 := by
      by_contra hc
      have : 0 < u * a := mul_pos (lt_of_not_ge hc) ha
      linarith
    linarith
  · rintro rfl
    exact ⟨⟨le_rfl, one_pos⟩, by simp⟩

/-- the off-diagonal entry of the kernel of `C14Balance` IS: probability of proposing `y`, times the measure of the
accepting draws of the rule, times the domain test — so the detailed-balance theorems are about the kernel induced by
the rule with a uniform draw -/
theorem C14u_weight_from_rule {S : Type*} [Fintype S] [DecidableEq S] (q : S → S → ℝ) (π : S → ℝ)
    (D : S → Prop) [DecidablePred D] (x y : S) (hx : 0 < π x) (hy : 0 ≤ π y) :
    q x y * (volume {u : ℝ | u ∈ Ico (0 : ℝ) 1 ∧ u * π x ≤ π y}).toReal * (if D y then 1 else 0)
      = mhWeight q π D x y := by
  unfold mhWeight
  rw [C14u_accept_probability (π x) (π y) hx hy, ENNReal.toReal_ofReal (min_one_div_nonneg hx hy)]

/-- non-vacuity: density 3 at the current point, 2 at the candidate: accepted on `[0, 2/3]`, probability 2/3;
the executable rule on the draw 2/3 accepts and on 7/10 rejects -/
example : volume {u : ℝ | u ∈ Ico (0 : ℝ) 1 ∧ u * 3 ≤ 2} = ENNReal.ofReal (2 / 3) := by
  rw [C14u_accept_probability 3 2 (by norm_num) (by norm_num)]
  congr 1
  rw [min_eq_right]; norm_num
example : accepts 3 2 2 3 = true ∧ accepts 3 2 7 10 = false := by decide

end FF
