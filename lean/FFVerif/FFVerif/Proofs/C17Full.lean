/-
C17 — the statements of `spectralRepresentation` in front of the double loop, on the executable model `Spectral.synthFull`
(sample count, grid spacing, bandwidth, stride, phases; compared with the implementation through the driver command `synthfull`):

* `C17f_length`: the series has `round( fs · T )` samples — whatever the rounding function;
* `C17f_bandwidth_none`, `C17f_bandwidth_ge`, `C17f_bandwidth_lt`, `C17f_bandwidth_ge_df`: the bandwidth used is the grid spacing for
  `None` and for a request below the spacing, the request otherwise; it is never below the spacing;
* `C17f_entry`: sample `k` is the sum of the picked components with amplitude `sqrt( 2 S_i bw )` at the time `k / fs`;
* `C17f_bound`: hence no sample exceeds the sum of the amplitudes of the picked components;
* `C17f_stride_pos`: for any rounding function with `|round x − x| ≤ 1/2` the stride is at least 1 (the `while` loop advances).
-/
import Mathlib.Tactic.Linarith
import Mathlib.Tactic.Positivity
import FFVerif.Proofs.C17
namespace FF
open Spectral

theorem C17f_unfold (rnd : ℝ → ℕ) (fs time : ℝ) (req : Option ℝ) (f0 f1 : ℝ) (rest psd randn : List ℝ) :
    synthFull rnd fs time req (f0 :: f1 :: rest) psd randn =
      synth fs (bandwidth req (f1 - f0)) (stride rnd (bandwidth req (f1 - f0)) (f1 - f0)) (zip3 (f0 :: f1 :: rest) psd randn)
        ((List.range (rnd (fs * time))).map (fun j : ℕ => (j : ℝ))) := by
  simp only [synthFull]
  congr 1
  apply List.map_congr_left
  intro j _
  rw [lit_real]; simp

/-- `round( fs · T )` samples -/
theorem C17f_length (rnd : ℝ → ℕ) (fs time : ℝ) (req : Option ℝ) (f0 f1 : ℝ) (rest psd randn : List ℝ) :
    (synthFull rnd fs time req (f0 :: f1 :: rest) psd randn).length = rnd (fs * time) := by
  rw [C17f_unfold, C17_length]; simp

theorem C17f_bandwidth_none (df : ℝ) : bandwidth (none : Option ℝ) df = df := rfl

theorem C17f_bandwidth_ge (b df : ℝ) (h : df ≤ b) : bandwidth (some b) df = b := by
  unfold bandwidth
  have : Transc.ltb b df = false := by
    rw [← Bool.not_eq_true, ltb_real]; exact not_lt.mpr h
  simp [this]

theorem C17f_bandwidth_lt (b df : ℝ) (h : b < df) : bandwidth (some b) df = df := by
  unfold bandwidth
  have : Transc.ltb b df = true := by rw [ltb_real]; exact h
  simp [this]

/-- the bandwidth used is never below the grid spacing -/
theorem C17f_bandwidth_ge_df (req : Option ℝ) (df : ℝ) : df ≤ bandwidth req df := by
  cases req with
  | none => exact le_rfl
  | some b =>
    by_cases h : b < df
    · rw [C17f_bandwidth_lt b df h]
    · rw [C17f_bandwidth_ge b df (not_lt.mp h)]; exact not_lt.mp h

/-- sample `k`: the picked components at the time `k / fs` -/
theorem C17f_entry (rnd : ℝ → ℕ) (fs time : ℝ) (req : Option ℝ) (f0 f1 : ℝ) (rest psd randn : List ℝ) (k : ℕ)
    (hk : k < rnd (fs * time)) :
    (synthFull rnd fs time req (f0 :: f1 :: rest) psd randn)[k]'(by rw [C17f_length]; exact hk) =
      ampAt (pick (stride rnd (bandwidth req (f1 - f0)) (f1 - f0)) (zip3 (f0 :: f1 :: rest) psd randn) 0)
        (bandwidth req (f1 - f0)) ((k : ℝ) / fs) := by
  have := C17_entry_range fs (bandwidth req (f1 - f0)) (stride rnd (bandwidth req (f1 - f0)) (f1 - f0))
    (zip3 (f0 :: f1 :: rest) psd randn) (rnd (fs * time)) k hk
  rw [← this]
  congr 1
  exact C17f_unfold rnd fs time req f0 f1 rest psd randn

/-- no sample exceeds the sum of the amplitudes `sqrt( 2 S_i bw )` of the picked components -/
theorem C17f_bound (rnd : ℝ → ℕ) (fs time : ℝ) (req : Option ℝ) (f0 f1 : ℝ) (rest psd randn : List ℝ) (k : ℕ)
    (hk : k < rnd (fs * time)) :
    |(synthFull rnd fs time req (f0 :: f1 :: rest) psd randn)[k]'(by rw [C17f_length]; exact hk)| ≤
      ((pick (stride rnd (bandwidth req (f1 - f0)) (f1 - f0)) (zip3 (f0 :: f1 :: rest) psd randn) 0).map
        (fun c => Real.sqrt (2 * c.2.1 * bandwidth req (f1 - f0)))).sum := by
  rw [C17f_entry rnd fs time req f0 f1 rest psd randn k hk]
  exact C17_bound _ _ _

/-- for any rounding to a nearest integer the stride is positive on an increasing grid: the `while` loop advances -/
theorem C17f_stride_pos (rnd : ℝ → ℕ) (hr : ∀ x, |(rnd x : ℝ) - x| ≤ 1 / 2) (req : Option ℝ) (df : ℝ) (hdf : 0 < df) :
    1 ≤ stride rnd (bandwidth req df) df := by
  unfold stride
  have h1 : 1 ≤ bandwidth req df / df := by
    rw [le_div_iff₀ hdf, one_mul]; exact C17f_bandwidth_ge_df req df
  have h2 := hr (bandwidth req df / df)
  have h3 : (1 : ℝ) / 2 ≤ (rnd (bandwidth req df / df) : ℝ) := by
    have := (abs_le.mp h2).1
    linarith
  have h4 : (0 : ℝ) < (rnd (bandwidth req df / df) : ℝ) := by linarith
  exact_mod_cast Nat.one_le_iff_ne_zero.mpr (by
    intro h0; rw [h0] at h4; simp at h4)

/-- non-vacuity: spacing 1/2, request 1/4 (below the spacing): bandwidth 1/2; request 3/2: kept -/
example : bandwidth (some (1 / 4 : ℝ)) (1 / 2) = 1 / 2 ∧ bandwidth (some (3 / 2 : ℝ)) (1 / 2) = 3 / 2 :=
  ⟨C17f_bandwidth_lt _ _ (by norm_num), C17f_bandwidth_ge _ _ (by norm_num)⟩

end FF
