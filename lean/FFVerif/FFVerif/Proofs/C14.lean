/-
C14 — property theorems about one step of the two samplers (code-shaped models `mhStep`,
`auAssemble`/`auStep`): the decision rule, rejection of negative densities, invariance of the
support for positive draws, and the witness of the recorded finding at u = 0.
Detailed balance of the induced kernels (finite state spaces) is in Proofs/C14Balance.lean.
-/
import FFVerif.Model.Sampler
namespace FF
open Sampler

/-- `accepts` is "the uniform draw is at most the density ratio" (for a positive current density):
`uNum/uDen ≤ fcand/fcur`, cross-multiplied -/
theorem accepts_iff (fcur fcand : Int) (uNum uDen : Nat) :
    accepts fcur fcand uNum uDen = true ↔ (uNum : Int) * fcur ≤ fcand * (uDen : Int) := by
  simp [accepts]

/-- one step moves to the proposed point exactly when the draw is at most the ratio and the move
stays in the domain, and otherwise stays put -/
theorem C14_rule {σ : Type} (f : σ → Int) (dom : σ → σ → Bool) (cur cand : σ) (uNum uDen : Nat)
    (h1 : 0 ≤ f cur) (h2 : 0 ≤ f cand) :
    mhStep f dom cur cand uNum uDen =
      .ok (if accepts (f cur) (f cand) uNum uDen = true ∧ dom cur cand = true then cand else cur) := by
  unfold mhStep
  have hn : ¬ (f cur < 0 ∨ f cand < 0) := by omega
  rw [if_neg hn]
  by_cases ha : accepts (f cur) (f cand) uNum uDen = true
  · by_cases hd : dom cur cand = true
    · simp [ha, hd]
    · simp [ha, hd]
  · have ha' : accepts (f cur) (f cand) uNum uDen = false := by simpa using ha
    simp [ha']

/-- a negative density is rejected with an error -/
theorem C14_negative {σ : Type} (f : σ → Int) (dom : σ → σ → Bool) (cur cand : σ) (uNum uDen : Nat)
    (h : f cur < 0 ∨ f cand < 0) : mhStep f dom cur cand uNum uDen = .error "negative density" := by
  unfold mhStep; rw [if_pos h]

/-- with a positive draw the chain never leaves the support of the target -/
theorem C14_support {σ : Type} (f : σ → Int) (dom : σ → σ → Bool) (cur cand : σ) (uNum uDen : Nat)
    (hc : 0 < f cur) (h2 : 0 ≤ f cand) (hu : 0 < uNum) (s : σ)
    (hs : mhStep f dom cur cand uNum uDen = .ok s) : 0 < f s := by
  rw [C14_rule f dom cur cand uNum uDen (by omega) h2] at hs
  simp only [Except.ok.injEq] at hs
  subst hs
  split
  · rename_i h
    have := (accepts_iff _ _ _ _).mp h.1
    -- uNum * fcur > 0 forces fcand * uDen > 0
    have hpos : 0 < (uNum : Int) * f cur := Int.mul_pos (by omega) hc
    have h3 : 0 < f cand * (uDen : Int) := by omega
    by_cases h : 0 < f cand
    · exact h
    · have h0 : f cand = 0 := by omega
      rw [h0] at h3; simp at h3
  · exact hc

/-- the recorded finding: with the draw exactly 0 the rule moves onto a zero-density candidate -/
theorem C14_u0_leaves_support :
    mhStep (σ := Bool) (fun b => if b then 0 else 8) (fun _ _ => true) false true 0 8 = .ok true := by
  simp [mhStep, accepts]

/-! ### component-wise sampler -/

/-- each coordinate follows the same rule; the assembled candidate is tested once -/
theorem C14_au_coordinate (f : Int → Int) (fs : List (Int → Int)) (c k : Int) (cur cands : List Int)
    (u : Nat × Nat) (us : List (Nat × Nat)) (rest : List Int) (h1 : 0 ≤ f c) (h2 : 0 ≤ f k)
    (hr : auAssemble fs cur cands us = .ok rest) :
    auAssemble (f :: fs) (c :: cur) (k :: cands) (u :: us) =
      .ok ((if accepts (f c) (f k) u.1 u.2 then k else c) :: rest) := by
  simp only [auAssemble]
  have hn : ¬ (f c < 0 ∨ f k < 0) := by omega
  rw [if_neg hn, hr]
  rfl

theorem C14_au_negative (f : Int → Int) (fs : List (Int → Int)) (c k : Int) (cur cands : List Int)
    (u : Nat × Nat) (us : List (Nat × Nat)) (h : f c < 0 ∨ f k < 0) :
    auAssemble (f :: fs) (c :: cur) (k :: cands) (u :: us) = .error "negative density" := by
  simp only [auAssemble]; rw [if_pos h]

theorem C14_au_domain (fs : List (Int → Int)) (dom : List Int → List Int → Bool) (cur cands nxt : List Int)
    (us : List (Nat × Nat)) (h : auAssemble fs cur cands us = .ok nxt) :
    auStep fs dom cur cands us = .ok (if dom cur nxt then nxt else cur) := by
  unfold auStep; rw [h]; rfl

end FF
