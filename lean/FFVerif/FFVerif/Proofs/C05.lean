/-
C05 — property theorems: level-crossing and peak counts equal the true crossings and extrema.
`levelCrossingSeq`, `peakSeq`, `itable`, `defaultLevels` are the code-shaped models (tied to the
Python by exact correspondence); `up`, `down`, `extremaSpec`, `eventsSpec` are the specification.
-/
import FFVerif.Lemmas.Level
import FFVerif.Lemmas.PeakSpec
namespace FF
open C05

/-- equality of Boolean combinations of decided linear facts -/
macro "bool_omega" : tactic => `(tactic|
  (rw [Bool.eq_iff_iff]
   simp only [Bool.and_eq_true, decide_eq_true_eq]
   constructor <;> intro h <;> omega))

/-- at every requested level that no reversal touches, the reported count is the number of upward
crossings (level at or above the reference) resp. downward crossings (below it) -/
theorem C05_level_count (h : List Int) (ref : Int) (levels : List Int) (l : Int)
    (hl : l ∈ sortLevels levels) (hu : l ∉ reversals h) :
    lookup (itable (levelCrossingSeq h ref levels)) l =
      if ref ≤ l then up (reversals h) l else down (reversals h) l := by
  rw [lookup_itable]
  unfold levelCrossingSeq
  rw [pv_true_eq_reversals]
  exact lcGo_count ref _ (sortLevels_sorted levels).nodup l hl true _ hu

theorem C05_count (h : List Int) (ref : Int) (levels : List Int) :
    countOK h ref levels (itable (levelCrossingSeq h ref levels)) = true := by
  simp only [countOK, List.all_eq_true, Bool.or_eq_true, List.contains_iff_mem, beq_iff_eq]
  intro l hl
  by_cases hu : l ∈ reversals h
  · exact Or.inl hu
  · exact Or.inr (C05_level_count h ref levels l hl hu)

theorem mem_lcGo (ref : Int) (L : List Int) : ∀ (first : Bool) (R : List Int) (x : Int),
    x ∈ lcGo ref L first R → x ∈ L
  | _, [], x, h => by simp [lcGo] at h
  | _, [_], x, h => by simp [lcGo] at h
  | first, a :: b :: rest, x, h => by
    simp only [lcGo, List.mem_append] at h
    rcases h with h | h
    · exact (List.mem_filter.mp h).1
    · exact mem_lcGo ref L false (b :: rest) x h

theorem itable_keys (evs : List Int) (t : List (Int × Nat)) :
    ∀ p ∈ evs.foldl (fun t k => itblAdd k t) t, p.1 ∈ evs ∨ ∃ q ∈ t, q.1 = p.1 := by
  induction evs generalizing t with
  | nil => intro p hp; exact Or.inr ⟨p, hp, rfl⟩
  | cons e evs ih =>
    intro p hp
    rcases ih (itblAdd e t) p hp with h | ⟨q, hq, he⟩
    · exact Or.inl (List.mem_cons_of_mem _ h)
    · rcases mem_itblAdd e t q hq with h | h
      · left; rw [← he, h]; simp
      · exact Or.inr ⟨q, h, he⟩

/-- only requested levels are ever reported; levels never crossed in the counted direction are
absent (every reported count is positive) -/
theorem C05_keys (h : List Int) (ref : Int) (levels : List Int) :
    keysOK levels (itable (levelCrossingSeq h ref levels)) = true := by
  simp only [keysOK, List.all_eq_true, List.contains_iff_mem]
  intro p hp
  rcases itable_keys _ [] p hp with h' | ⟨q, hq, _⟩
  · exact mem_lcGo ref _ true _ p.1 h'
  · cases hq

theorem C05_shape (evs : List Int) : tableShapeOK (itable evs) = true := tableShape_itable evs

theorem C05_hist (evs : List Int) : histOK evs (itable evs) = true := by simp [histOK]

theorem lcGo_filter (ref : Int) (L U : List Int) : ∀ (first : Bool) (R : List Int), (∀ x ∈ R, x ∈ U) →
    (lcGo ref L first R).filter (fun l => !U.contains l)
      = eventsSpec false ref (L.filter (fun l => !U.contains l)) R
  | _, [], _ => by simp [lcGo, eventsSpec]
  | _, [_], _ => by simp [lcGo, eventsSpec]
  | first, a :: b :: rest, hU => by
    have ih := lcGo_filter ref L U false (b :: rest) (fun x hx => hU x (List.mem_cons_of_mem _ hx))
    have ha : a ∈ U := hU a (by simp)
    have hb : b ∈ U := hU b (by simp)
    simp only [lcGo, eventsSpec, List.filter_append, ih]
    congr 1
    unfold lcSegment segEvents
    by_cases hab : a < b
    · rw [if_pos hab, Int.min_eq_left (by omega), Int.max_eq_right (by omega)]
      simp only [List.filter_filter]
      apply List.filter_congr
      intro l _
      by_cases hlu : l ∈ U
      · simp [hlu]
      · have h1 : l ≠ a := fun e => hlu (e ▸ ha)
        have h2 : l ≠ b := fun e => hlu (e ▸ hb)
        have hle : a ≤ b := by omega
        cases first <;> simp [hlu, hle] <;> bool_omega
    · rw [if_neg hab]
      simp only [List.filter_filter, Bool.false_eq_true, if_false]
      apply List.filter_congr
      intro l _
      by_cases hlu : l ∈ U
      · simp [hlu]
      · have h1 : l ≠ a := fun e => hlu (e ▸ ha)
        have h2 : l ≠ b := fun e => hlu (e ▸ hb)
        by_cases hle : a ≤ b
        · have : a = b := by omega
          subst this
          cases first <;> simp [hlu] <;> bool_omega
        · rw [Int.min_eq_right (by omega), Int.max_eq_left (by omega)]
          cases first <;> simp [hlu, hle] <;> bool_omega

/-- the un-aggregated output lists the crossings of untouched levels segment by segment in time
order, ascending inside a segment -/
theorem C05_segorder (h : List Int) (ref : Int) (levels : List Int) :
    seqOK false h ref levels (levelCrossingSeq h ref levels) = true := by
  simp only [seqOK, beq_iff_eq]
  unfold levelCrossingSeq
  rw [pv_true_eq_reversals]
  exact lcGo_filter ref _ _ true _ (fun x hx => hx)

/-- peak counting lists exactly the local maxima at or above the reference and the local minima
below it, in time order; its table is their histogram -/
theorem C05_peak (h : List Int) (ref : Int) :
    C05.failingPeak h ref (peakSeq h ref) (itable (peakSeq h ref)) = [] := by
  simp [C05.failingPeak, C05_shape, C05_hist, peakSeqOK, peakSeq_eq_extrema]

/-- all level-crossing clauses except strict time order inside a falling segment (recorded finding) -/
theorem C05_level (h : List Int) (ref : Int) (levels : List Int) :
    C05.failingLevel h ref levels (levelCrossingSeq h ref levels) (itable (levelCrossingSeq h ref levels))
      ⊆ ["timeorder"] := by
  simp [C05.failingLevel, C05_shape, C05_hist, C05_count, C05_keys, C05_segorder]
  split <;> simp

-- the time-order clause is false of the code as it stands: the model reproduces the recorded finding
example : seqOK true [4, -12] 0 [-6, -5, -4, -3, -1] (levelCrossingSeq [4, -12] 0 [-6, -5, -4, -3, -1]) = false := by
  decide
-- non-vacuity: an untouched, requested level with a real crossing
example : (2 : Int) ∈ sortLevels [1, 2] ∧ (2 : Int) ∉ reversals [0, 3, 0, 3] ∧
    lookup (itable (levelCrossingSeq [0, 3, 0, 3] 1 [1, 2])) 2 = 2 := by decide

end FF
