/-
C19 — property theorems: signal-conditioning utilities never invent data and bound their distortion.
`pv`, `hysteresis`, `digitize`, `aggregate` are the code-shaped models (tied to the Python by exact
correspondence on the dyadic grid).
-/
import FFVerif.Lemmas.Filter
import FFVerif.Lemmas.Signal
namespace FF
open C19

/-! ### peak-valley filter -/

/-- the output is the sequence of strict turning points of the de-plateaued series, plus both ends
when asked -/
theorem C19_pv_spec (k : Bool) (h : List Int) : pvSpecOK k h (pv k h) = true := by
  cases k <;> simp [pvSpecOK, pv_true_eq_reversals, pv_false_eq_turning]

/-- … which strictly alternate (non-constant series) -/
theorem C19_pv_alternates (h : List Int) (hc : isConstant h = false) : Zig (pv true h) := pv_zig h hc

theorem C19_pv_subsequence (k : Bool) (h : List Int) : (pv k h).Sublist h := pv_sublist k h

theorem C19_pv_idempotent (h : List Int) : pv true (pv true h) = pv true h := pv_true_idem h

/-- literal idempotence cannot hold for a function returning interior turning points only (its
output's own ends are dropped by a second pass); the form that holds, and is what the check
evaluates on the implementation: -/
theorem C19_pv_idempotent_noEnds (h : List Int) : pv false (pv true h) = pv false h := pv_false_of_pv_true h

theorem C19_pv_extremes (h : List Int) : pvExtremesOK h (pv true h) = true := by
  have := pv_true_extremes h
  simp [pvExtremesOK, this.1, this.2]

/-! ### hysteresis filter -/

/-- every dropped point lies strictly within the gate of the last kept point; the first point is kept -/
theorem C19_hyst_gate (h : List Int) (gate : Int) (hg : 0 < gate) :
    Kept gate none h (hysteresis h gate) := hystGo_kept gate hg h none

theorem C19_hyst_subsequence (h : List Int) (gate : Int) (hg : 0 < gate) :
    (hysteresis h gate).Sublist h := (C19_hyst_gate h gate hg).sublist

theorem C19_hyst_first (h : List Int) (gate : Int) (hg : 0 < gate) :
    (hysteresis h gate).head? = h.head? := (C19_hyst_gate h gate hg).head

theorem C19_hyst_last (h : List Int) (gate : Int) : (hysteresis h gate).getLast? = h.getLast? :=
  hystGo_last gate h

/-! ### digitisation -/

/-- nearest multiple of the resolution, ties to even -/
theorem C19_digit_nearest (r : Int) (hr : 0 < r) (d : List Int) :
    ((d.zip (digitize r d)).all (fun p => digitOneOK r p.1 p.2)) = true := by
  simp only [digitize, List.all_eq_true]
  intro p hp
  induction d with
  | nil => simp at hp
  | cons k d ih =>
    simp only [List.map_cons, List.zip_cons_cons, List.mem_cons] at hp
    rcases hp with rfl | hp
    · exact digitOne_ok k r hr
    · exact ih hp

theorem C19_digit_idempotent (r : Int) (hr : 0 < r) (d : List Int) :
    digitize r (digitize r d) = digitize r d := by
  simp only [digitize, List.map_map]
  apply List.map_congr_left
  intro k _
  simp [rhe_idem _ r hr]

theorem C19_digit_monotone (r : Int) (hr : 0 < r) (k k' : Int) (h : k ≤ k') :
    roundHalfEven k r * r ≤ roundHalfEven k' r * r :=
  Int.mul_le_mul_of_nonneg_right (rhe_mono k k' r hr h) (by omega)

/-! ### aggregation -/

theorem C19_agg (b : Int) (hb : 0 < b) (rows : List (Int × Nat)) :
    sumUnits (aggregate b rows) = sumUnits rows ∧
    ASorted (aggregate b rows) ∧
    (∀ p ∈ aggregate b rows, p.1 % b = 0) ∧
    (∀ r ∈ rows, ∃ p ∈ aggregate b rows, p.1 = binKey b r.1 ∧
      (0 ≤ r.1 → 2 * natAbsDiff r.1 p.1 ≤ b.natAbs)) := by
  obtain ⟨a1, a2, a3, a4, _⟩ := aggregate_foldl b hb rows [] (by simp [ASorted]) (by simp)
  refine ⟨by simpa [aggregate, sumUnits] using a3, a1, a2, ?_⟩
  intro r hr
  obtain ⟨p, hp, he⟩ := a4 r hr
  exact ⟨p, hp, he, fun h0 => by rw [he]; exact (binKey_spec b r.1 hb).2 h0⟩

-- non-vacuity / witnesses
example : hysteresis [2, 5, 3, 6, 2, 4, 1, 6, 1, 3, 1, 5, 3, 6, 3, 6, 4, 5, 2] 3 = [2, 5, 6, 2, 1, 6, 1, 5, 6, 3, 6, 2] := by
  simp [hysteresis, hystGo, skipUp, skipDown]
example : digitize 2 [1, 3, 5, -1, -3] = [0, 4, 4, 0, -4] := by decide
example : binKey 4 6 = 4 ∧ binKey 4 7 = 8 := by decide

end FF
