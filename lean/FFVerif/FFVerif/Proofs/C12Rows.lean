/-
C12 — the rows of the rotation used by the executable curvature extraction (`Model/SormPipe.lean`) are orthonormal and
orthogonal to the design direction: the hypotheses of `C12p_paraboloid_entry` hold for the rows the model actually produces.

Chain: `argmaxAbs` returns a coordinate of largest modulus (`argmaxAbs_spec`); for a unit alignment vector no unit vector
`e_j`, `j ≠ kMax`, passes the coincidence test (`coincides_unit_false`: the residual has norm ≥ 1/√2); hence the columns handed
to the loops are `alignVec :: (e_j, j ≠ kMax)` (`C20m_arrange_none`), which under `toE` is the list of `Proofs/C12Basis.lean`,
linearly independent; the loops of the model are the abstract loops (`C20m_mgs_toE`), so the output is orthonormal with first
column `alignVec` (`C12r_basis_orthonormal`).
-/
import FFVerif.Proofs.C12Basis
import FFVerif.Proofs.C20GramModel
import FFVerif.Proofs.C12Pipe
namespace FF.SormPipe
open FF.Linalg FF.Gram Finset

theorem absv_real (v : ℝ) : absv v = |v| := by
  unfold absv
  by_cases h : v < 0
  · have : Transc.ltb v (zero : ℝ) = true := by rw [ltb_real, zero_real]; exact h
    rw [if_pos this, abs_of_neg h]
  · have : ¬ (Transc.ltb v (zero : ℝ) = true) := by rw [ltb_real, zero_real]; exact h
    rw [if_neg this, abs_of_nonneg (not_lt.mp h)]

/-- the fold keeps an index below the bound with a modulus at least that of every index seen -/
theorem argmax_fold (v : Vec ℝ) : ∀ (l : List Nat) (b : Nat),
    (∀ j ∈ l, |v j| ≤ |v (l.foldl (fun best i => if Transc.ltb (absv (v best)) (absv (v i)) then i else best) b)|) ∧
    |v b| ≤ |v (l.foldl (fun best i => if Transc.ltb (absv (v best)) (absv (v i)) then i else best) b)| ∧
    (l.foldl (fun best i => if Transc.ltb (absv (v best)) (absv (v i)) then i else best) b = b ∨
     l.foldl (fun best i => if Transc.ltb (absv (v best)) (absv (v i)) then i else best) b ∈ l) := by
  intro l
  induction l with
  | nil => intro b; simp
  | cons a t ih =>
    intro b
    simp only [List.foldl_cons]
    set b' := (if Transc.ltb (absv (v b)) (absv (v a)) then a else b) with hb'
    obtain ⟨h1, h2, h3⟩ := ih b'
    have hb'ge : |v b| ≤ |v b'| ∧ |v a| ≤ |v b'| := by
      rw [hb']
      by_cases hc : Transc.ltb (absv (v b)) (absv (v a)) = true
      · rw [if_pos hc]
        rw [ltb_real, absv_real, absv_real] at hc
        exact ⟨hc.le, le_refl _⟩
      · rw [if_neg hc]
        rw [ltb_real, absv_real, absv_real, not_lt] at hc
        exact ⟨le_refl _, hc⟩
    refine ⟨?_, le_trans hb'ge.1 h2, ?_⟩
    · intro j hj
      rcases List.mem_cons.mp hj with rfl | hjt
      · exact le_trans hb'ge.2 h2
      · exact h1 j hjt
    · rcases h3 with h3 | h3
      · rw [h3, hb']
        by_cases hc : Transc.ltb (absv (v b)) (absv (v a)) = true
        · rw [if_pos hc]; right; exact List.mem_cons_self
        · rw [if_neg hc]; left; rfl
      · right; exact List.mem_cons_of_mem _ h3

/-- `argmaxAbs` returns an index below `n` whose entry has the largest modulus -/
theorem argmaxAbs_spec (n : Nat) (hn : 0 < n) (v : Vec ℝ) :
    argmaxAbs n v < n ∧ ∀ j, j < n → |v j| ≤ |v (argmaxAbs n v)| := by
  unfold argmaxAbs
  obtain ⟨h1, _, h3⟩ := argmax_fold v (List.range n) 0
  refine ⟨?_, fun j hj => h1 j (List.mem_range.mpr hj)⟩
  rcases h3 with h3 | h3
  · rw [h3]; exact hn
  · exact List.mem_range.mp h3

/-- the `c`-th unit vector of the model -/
noncomputable def unitVec (c : Nat) : Vec ℝ := fun i => if i = c then one else zero

theorem sum_unit_mul (n : Nat) (c : Nat) (hc : c < n) (f : Nat → ℝ) :
    ∑ i ∈ range n, unitVec c i * f i = f c := by
  unfold unitVec
  rw [Finset.sum_eq_single c]
  · simp
  · intro b _ hb; simp [hb]
  · intro h; exact absurd (Finset.mem_range.mpr hc) h

/-- for a unit alignment vector, a unit vector `e_j` whose coordinate is not the largest one is far from coinciding with it:
the residual has squared norm `1 - al_j² ≥ 1/2` -/
theorem coincides_unit_false (n : Nat) (al : Vec ℝ) (hal : norm n al = 1) (j k : Nat) (hj : j < n) (hk : k < n) (hjk : j ≠ k)
    (hle : |al j| ≤ |al k|) : coincides n al (unitVec j) = false := by
  have hsum : ∑ i ∈ range n, al i * al i = 1 := by
    have := norm_sq n al
    rw [hal, dot_real] at this
    linarith
  -- al_j² ≤ 1/2
  have hjk2 : al j * al j + al k * al k ≤ 1 := by
    rw [← hsum]
    have hsub : ({j, k} : Finset Nat) ⊆ range n := by
      intro i hi
      simp only [Finset.mem_insert, Finset.mem_singleton] at hi
      rcases hi with rfl | rfl <;> simp [hj, hk]
    have := Finset.sum_le_sum_of_subset_of_nonneg hsub (f := fun i => al i * al i) (fun i _ _ => mul_self_nonneg _)
    rwa [Finset.sum_pair hjk] at this
  have hsq : al j * al j ≤ al k * al k := by
    have := mul_self_le_mul_self (abs_nonneg (al j)) hle
    rwa [abs_mul_abs_self, abs_mul_abs_self] at this
  have hhalf : al j * al j ≤ 1 / 2 := by linarith
  -- the residual
  have hunit : smul ((one : ℝ) / norm n al) al = al := by
    funext i; unfold smul; rw [hal, one_real]; ring
  have hdot : dot n (unitVec j) al = al j := by
    rw [dot_real]; exact sum_unit_mul n j hj al
  have hrest : dot n (vsub (unitVec j) (smul (al j) al)) (vsub (unitVec j) (smul (al j) al)) = 1 - al j * al j := by
    rw [dot_real]
    have : ∀ i ∈ range n, vsub (unitVec j) (smul (al j) al) i * vsub (unitVec j) (smul (al j) al) i
        = unitVec j i * unitVec j i - 2 * al j * (unitVec j i * al i) + al j * al j * (al i * al i) := by
      intro i _; unfold vsub smul; ring
    rw [Finset.sum_congr rfl this, Finset.sum_add_distrib, Finset.sum_sub_distrib, ← Finset.mul_sum, ← Finset.mul_sum,
      sum_unit_mul n j hj (unitVec j), sum_unit_mul n j hj al, hsum]
    simp only [unitVec, if_true, one_real]
    ring
  have hnormE : norm n (unitVec j) = 1 := by
    unfold Linalg.norm
    rw [dot_real, sum_unit_mul n j hj (unitVec j)]
    simp [unitVec]
  unfold coincides
  simp only [hunit, hdot]
  have hn : (1 : ℝ) / 2 ≤ norm n (vsub (unitVec j) (smul (al j) al)) := by
    unfold Linalg.norm
    rw [hrest, sqrt_real]
    apply Real.le_sqrt_of_sq_le
    nlinarith
  have : ¬ (norm n (vsub (unitVec j) (smul (al j) al)) ≤ Transc.lit 1 12 * norm n (unitVec j)) := by
    rw [hnormE, lit_real]
    intro h
    have : (1 : ℝ) / 2 ≤ (1 : ℕ) / 10 ^ 12 * 1 := le_trans hn h
    norm_num at this
  cases hb : Transc.leb (norm n (vsub (unitVec j) (smul (al j) al))) (Transc.lit 1 12 * norm n (unitVec j)) with
  | false => rfl
  | true => exact absurd ((leb_real _ _).mp hb) this

theorem toE_unitVec (n : Nat) (j : Fin n) : toE n (unitVec j.val) = EuclideanSpace.single j (1 : ℝ) := by
  unfold toE unitVec
  ext i
  simp only [PiLp.single_apply, one_real, zero_real]
  by_cases h : i = j
  · subst h; simp
  · have : i.val ≠ j.val := fun hv => h (Fin.ext hv)
    simp [h, this]

/-- the unit vectors other than `k`, listed over `range n` and embedded, are the standard basis vectors other than `k` listed over
`finRange n` -/
theorem units_toE (n : Nat) (k : Fin n) :
    (((List.range n).filter (· ≠ k.val)).map unitVec).map (toE n)
      = ((List.finRange n).filter (· ≠ k)).map (fun j => EuclideanSpace.single j (1 : ℝ)) := by
  have hr : List.range n = (List.finRange n).map Fin.val := by simp
  rw [hr, List.filter_map, List.map_map, List.map_map]
  have hf : (List.finRange n).filter ((fun x => decide (x ≠ k.val)) ∘ Fin.val) = (List.finRange n).filter (fun x => decide (x ≠ k)) := by
    apply List.filter_congr
    intro x _
    simp [Fin.ext_iff]
  rw [hf]
  apply List.map_congr_left
  intro j _
  exact toE_unitVec n j

/-- **the basis the model builds is orthonormal and starts with the alignment vector** -/
theorem C12r_basis_orthonormal (n : Nat) (hn : 0 < n) (al : Vec ℝ) (hal : Linalg.norm n al = 1) :
    let kMax := argmaxAbs n al
    let cols := unitVec kMax :: ((List.range n).filter (· ≠ kMax)).map unitVec
    let B := Gram.orth n cols (some al)
    B.length = n ∧
      (∀ i j (hi : i < B.length) (hj : j < B.length), dot n B[i] B[j] = if i = j then 1 else 0) ∧
      (∀ (h0 : 0 < B.length) m, m < n → B[0] m = al m) := by
  intro kMax cols B
  obtain ⟨hk, hmax⟩ := argmaxAbs_spec n hn al
  -- no column coincides with the alignment vector
  have harr : arrange n cols al = al :: cols.tail := by
    apply C20m_arrange_none
    intro i hi h1
    obtain ⟨i', rfl⟩ : ∃ i', i = i' + 1 := ⟨i - 1, by omega⟩
    have hif : i' < ((List.range n).filter (· ≠ kMax)).length := by
      simpa [cols] using hi
    have hget : cols.getD (i' + 1) (fun _ => zero) = unitVec (((List.range n).filter (· ≠ kMax))[i']'hif) := by
      show (unitVec kMax :: _).getD (i' + 1) _ = _
      rw [List.getD_cons_succ, List.getD_eq_getElem?_getD, List.getElem?_map, List.getElem?_eq_getElem hif]
      rfl
    rw [hget]
    have hmem := List.getElem_mem hif
    obtain ⟨hj1, hj2⟩ := List.mem_filter.mp hmem
    have hjn := List.mem_range.mp hj1
    have hjk : ((List.range n).filter (· ≠ kMax))[i']'hif ≠ kMax := by simpa using hj2
    exact coincides_unit_false n al hal _ kMax hjn hk hjk (hmax _ hjn)
  have hB : B = Gram.mgs n (al :: ((List.range n).filter (· ≠ kMax)).map unitVec) := by
    show Gram.orth n cols (some al) = _
    unfold Gram.orth
    simp only [harr]
    rfl
  -- the embedded list is the list of C12Basis
  set k : Fin n := ⟨kMax, hk⟩ with hkdef
  have hlist : (al :: ((List.range n).filter (· ≠ kMax)).map unitVec).map (toE n)
      = toE n al :: ((List.finRange n).filter (· ≠ k)).map (fun j => EuclideanSpace.single j (1 : ℝ)) := by
    rw [List.map_cons]
    congr 1
    exact units_toE n k
  -- the alignment vector has a non-zero largest coordinate
  have hvk : (toE n al) k ≠ 0 := by
    show al kMax ≠ 0
    intro h0
    have hall : ∀ j, j < n → al j = 0 := by
      intro j hj
      have := hmax j hj
      rw [h0, abs_zero] at this
      exact abs_eq_zero.mp (le_antisymm this (abs_nonneg _))
    have : Linalg.norm n al = 0 := by
      rw [norm_real]
      have : ∑ i ∈ range n, al i * al i = 0 :=
        Finset.sum_eq_zero (fun i hi => by rw [hall i (Finset.mem_range.mp hi)]; ring)
      rw [this, Real.sqrt_zero]
    rw [hal] at this
    exact one_ne_zero this
  obtain ⟨hli, hlen⟩ := C12_basis_replace_independent (toE n al) k hvk
  rw [← hlist] at hli hlen
  have hlenB : B.length = n := by
    rw [hB, mgs_length]
    simpa using hlen
  refine ⟨hlenB, ?_, ?_⟩
  · intro i j hi hj
    have := C20m_orthonormal n (al :: ((List.range n).filter (· ≠ kMax)).map unitVec) hli i j (by rw [← hB]; exact hi) (by rw [← hB]; exact hj)
    simpa [hB] using this
  · intro h0 m hm
    have := C20m_first n al (((List.range n).filter (· ≠ kMax)).map unitVec) (by rw [← hB]; exact h0) m hm
    have hget0 : ∀ (l1 l2 : List (Vec ℝ)) (h : l1 = l2) (h1 : 0 < l1.length), l1[0] = l2[0]'(h ▸ h1) := by
      intro l1 l2 h; subst h; intro _; rfl
    have e : B[0] m = ((Gram.mgs n (al :: ((List.range n).filter (· ≠ kMax)).map unitVec))[0]'(by rw [← hB]; exact h0)) m := by
      rw [hget0 B _ hB h0]
    rw [e, this, hal, div_one]

/-- the alignment vector of the model: `-lsfGradAtU / |lsfGradAtU|` -/
noncomputable def alignOf (T : Nataf.Model ℝ) (x a : Vec ℝ) : Vec ℝ :=
  fun i => -(one : ℝ) * Form.gradU T x a i / Linalg.norm T.dim (Form.gradU T x a)

theorem alignOf_norm (T : Nataf.Model ℝ) (x a : Vec ℝ) (hg : Linalg.norm T.dim (Form.gradU T x a) ≠ 0) :
    Linalg.norm T.dim (alignOf T x a) = 1 := by
  have h := Form.norm_smul_div T.dim 1 (Form.gradU T x a) hg
  rw [abs_one] at h
  rw [← h]
  congr 1
  funext i
  unfold alignOf
  rw [one_real]; ring

/-- the rows of `H` in the model are the Gram–Schmidt basis with the alignment vector moved to the end -/
theorem rows_eq (T : Nataf.Model ℝ) (x a : Vec ℝ) (Hx : Mat ℝ) :
    (curvatureBlock T x a Hx).rows =
      (Gram.orth T.dim (unitVec (argmaxAbs T.dim (alignOf T x a)) ::
          ((List.range T.dim).filter (· ≠ argmaxAbs T.dim (alignOf T x a))).map unitVec) (some (alignOf T x a))).tail
      ++ (Gram.orth T.dim (unitVec (argmaxAbs T.dim (alignOf T x a)) ::
          ((List.range T.dim).filter (· ≠ argmaxAbs T.dim (alignOf T x a))).map unitVec) (some (alignOf T x a))).take 1 := by
  unfold curvatureBlock
  simp only [ofArr_mkArr]
  rfl

/-- **the rows the model uses meet the hypotheses of the paraboloid theorem**: the first `n - 1` rows are orthonormal and
orthogonal to the alignment vector (the design direction) -/
theorem C12r_rows (T : Nataf.Model ℝ) (x a : Vec ℝ) (Hx : Mat ℝ) (hn : 0 < T.dim)
    (hg : Linalg.norm T.dim (Form.gradU T x a) ≠ 0) :
    (curvatureBlock T x a Hx).rows.length = T.dim ∧
    ∀ i l (hi : i < (curvatureBlock T x a Hx).rows.length) (hl : l < (curvatureBlock T x a Hx).rows.length),
      i < T.dim - 1 → l < T.dim - 1 →
      dot T.dim (curvatureBlock T x a Hx).rows[i] (curvatureBlock T x a Hx).rows[l] = (if i = l then 1 else 0) ∧
      dot T.dim (curvatureBlock T x a Hx).rows[i] (alignOf T x a) = 0 := by
  have hal := alignOf_norm T x a hg
  obtain ⟨hlen, horth, hfirst⟩ := C12r_basis_orthonormal T.dim hn (alignOf T x a) hal
  rw [rows_eq]
  set B := Gram.orth T.dim (unitVec (argmaxAbs T.dim (alignOf T x a)) ::
      ((List.range T.dim).filter (· ≠ argmaxAbs T.dim (alignOf T x a))).map unitVec) (some (alignOf T x a)) with hBdef
  have hlenr : (B.tail ++ B.take 1).length = T.dim := by
    rw [List.length_append, List.length_tail, List.length_take, hlen]; omega
  refine ⟨hlenr, ?_⟩
  intro i l hi hl hin hln
  have hiB : i + 1 < B.length := by rw [hlen]; omega
  have hlB : l + 1 < B.length := by rw [hlen]; omega
  have ei : (B.tail ++ B.take 1)[i] = B[i + 1] := by
    rw [List.getElem_append_left (by rw [List.length_tail, hlen]; omega), List.getElem_tail]
  have el : (B.tail ++ B.take 1)[l] = B[l + 1] := by
    rw [List.getElem_append_left (by rw [List.length_tail, hlen]; omega), List.getElem_tail]
  rw [ei, el]
  constructor
  · rw [horth (i + 1) (l + 1) hiB hlB]
    by_cases h : i = l
    · simp [h]
    · have : i + 1 ≠ l + 1 := by omega
      simp [h, this]
  · have h0 : 0 < B.length := by rw [hlen]; exact hn
    have hz := horth (i + 1) 0 hiB h0
    rw [if_neg (by omega)] at hz
    rw [← hz, dot_real, dot_real]
    refine Finset.sum_congr rfl (fun m hm => ?_)
    rw [hfirst h0 m (Finset.mem_range.mp hm)]

end FF.SormPipe

namespace FF.SormPipe
open FF.Linalg FF.Gram Finset

/-- in standard normal space the gradient is not changed by the pull-back -/
theorem gradU_standard (T : Nataf.Model ℝ) (hT : Standard T) (x a : Vec ℝ) (j : Nat) (hj : j < T.dim) :
    Form.gradU T x a j = a j := by
  unfold Form.gradU
  rw [tmulVec_real]
  have : ∀ i ∈ range T.dim, T.L i j * ((T.marg i).dxdz (x i) * a i) = (if i = j then 1 else 0) * a i := by
    intro i hi
    have hi' := Finset.mem_range.mp hi
    rw [hT.1 i hi', hT.2 i j hi' hj]
    simp [Nataf.Marg.dxdz]
  rw [Finset.sum_congr rfl this, sum_ite_mul T.dim a j hj]

/-- **the paraboloid clause, end to end on the executable model.**  Standard normal space of dimension `n ≥ 1`; `e` a unit vector and
`v 0 … v (n-2)` completing it to an orthonormal basis; at the design point the gradient of the paraboloid
`β − ⟨e,u⟩ + ½ Σ κ_j ⟨v_j,u⟩²` is `−e` and its Hessian `Σ κ_j v_j v_jᵀ`.  Then, for the rows `r_i` the model itself builds
(argmax column, coincidence test, Gram–Schmidt), every entry `(i, l)` of the curvature matrix equals `Σ_j R_ij κ_j R_lj` with
`R_ij = ⟨r_i, v_j⟩`, and `R Rᵀ = 1`: the main curvatures are the `κ_j` (`C12_similar_charpoly`), whatever the rotation
and the order of the axes. -/
theorem C12p_paraboloid_model (T : Nataf.Model ℝ) (hT : Standard T) (hn : 0 < T.dim) (x : Vec ℝ) (e : Vec ℝ) (v : Nat → Vec ℝ)
    (κ : Nat → ℝ) (he : dot T.dim e e = 1)
    (hcomplete : ∀ k m, k < T.dim → m < T.dim →
      (∑ j ∈ range (T.dim - 1), v j k * v j m) + e k * e m = if k = m then 1 else 0) :
    let a : Vec ℝ := fun i => -e i
    let Hx : Mat ℝ := fun k m => ∑ j ∈ range (T.dim - 1), κ j * v j k * v j m
    let rows := (curvatureBlock T x a Hx).rows
    ∀ i l (hi : i < rows.length) (hl : l < rows.length), i < T.dim - 1 → l < T.dim - 1 →
      (∑ k ∈ range T.dim, ∑ m ∈ range T.dim, rows[i] k * (hessU T x a Hx k m / 1) * rows[l] m
          = ∑ j ∈ range (T.dim - 1), dot T.dim rows[i] (v j) * κ j * dot T.dim rows[l] (v j)) ∧
      (∑ j ∈ range (T.dim - 1), dot T.dim rows[i] (v j) * dot T.dim rows[l] (v j) = if i = l then 1 else 0) := by
  intro a Hx rows i l hi hl hin hln
  -- the U-space gradient is `-e`, of norm 1, and the alignment vector is `e`
  have hgrad : ∀ j, j < T.dim → Form.gradU T x a j = -e j := fun j hj => gradU_standard T hT x a j hj
  have hnorm : Linalg.norm T.dim (Form.gradU T x a) = 1 := by
    rw [norm_real]
    have : ∑ i ∈ range T.dim, Form.gradU T x a i * Form.gradU T x a i = 1 := by
      rw [← he, dot_real]
      exact Finset.sum_congr rfl (fun j hj => by rw [hgrad j (Finset.mem_range.mp hj)]; ring)
    rw [this, Real.sqrt_one]
  have halign : ∀ j, j < T.dim → alignOf T x a j = e j := by
    intro j hj
    unfold alignOf
    rw [hnorm, hgrad j hj, one_real]; ring
  obtain ⟨_, hrows⟩ := C12r_rows T x a Hx hn (by rw [hnorm]; exact one_ne_zero)
  have hri := hrows i l hi hl hin hln
  have hrl := hrows l i hl hi hln hin
  -- orthogonality to `e`
  have hie : dot T.dim rows[i] e = 0 := by
    rw [← hri.2, dot_real, dot_real]
    exact Finset.sum_congr rfl (fun m hm => by rw [halign m (Finset.mem_range.mp hm)])
  have hle : dot T.dim rows[l] e = 0 := by
    rw [← hrl.2, dot_real, dot_real]
    exact Finset.sum_congr rfl (fun m hm => by rw [halign m (Finset.mem_range.mp hm)])
  obtain ⟨h1, h2⟩ := C12p_paraboloid_entry T hT x a e v κ hcomplete rows[i] rows[l] hie hle
  exact ⟨h1, by rw [h2]; exact hri.1⟩

end FF.SormPipe
