/-
C06 — Rychlik's theorem (`C06.RainflowEqStatement`): for a history closed at its global minimum
the Rychlik count and the rainflow count have the same table, equal-height peaks included.
Both histograms are "cycles of a maximal four-point extraction sequence + contribution of the
four-point residue" (Lemmas/ConflRF.lean, Lemmas/RyStep.lean); for such a history the residue is
`[m, M, m]`, which both counters count as one unit of the overall range.
-/
import FFVerif.Proofs.C03Reverse
namespace FF
open C06

theorem pv_head? (h : List Int) : (pv true h).head? = h.head? := by
  cases h <;> simp [pv]

theorem pv_getLast? (h : List Int) : (pv true h).getLast? = h.getLast? := by
  have := pv_head? h.reverse
  rw [pv_true_reverse, List.head?_reverse, List.head?_reverse] at this
  exact this

theorem pv_length_ge (h : List Int) (hc : isConstant h = false) : 2 ≤ (pv true h).length := by
  match h, hc with
  | [], hc => simp [isConstant] at hc
  | [_], hc => simp [isConstant] at hc
  | x :: y :: rest, _ => rw [pv_true_eq_reversals]; simp [reversals]

/-- the four-point residue of a non-constant history closed at its global minimum is `[m, M, m]` -/
theorem closed_residue (h : List Int) (hm : closedAtMin h = true) (hc : isConstant h = false)
    {cs N} (r : Red (pv true h) cs N) : ∃ x, listMin h < x ∧ N = [listMin h, x, listMin h] := by
  match h, hm with
  | x :: t, hm =>
    simp only [closedAtMin, Bool.and_eq_true, beq_iff_eq] at hm
    obtain ⟨hl, hx⟩ := hm
    have st := r.steps
    refine normal_closed N _ r.normal (r.zig (pv_zig _ hc)) (st.length_ge (pv_length_ge _ hc)) ?_ ?_ ?_
    · rw [st.head, pv_head?, ← hx]; rfl
    · rw [st.getLast, pv_getLast?, hl, ← hx]
    · intro y hy
      exact listMin_le ((pv_sublist true _).subset (st.mem y hy))

/-- C06, last clause: Rychlik's theorem, ties included -/
theorem C06_rainflow_eq : C06.RainflowEqStatement := by
  intro h hm hc
  refine table_eq_of_unitsAt _ _ (fun k => ?_)
  obtain ⟨cs, N, r⟩ := Red.exists (pv true h)
  obtain ⟨x, hx, eN⟩ := closed_residue h hm hc r
  rw [rychlik_red h hc r, rainflow_red h hc r, eN]
  generalize listMin h = m at hx
  have e1 : peaksGo ryF [] [m, x, m] = [⟨m, x, false⟩] := by
    have : min m x = m := by omega
    simp [peaksGo, ryF, scanMin, scanMinLe, hx, this]
  have e2 : halves [m, x, m] = [⟨m, x, true⟩, ⟨x, m, true⟩] := by simp [halves]
  rw [e1, e2, unitsAt_cons, unitsAt_cons, unitsAt_cons, unitsAt_nil]
  simp only [Cyc.range, Cyc.units, rng_comm x m]
  by_cases hk : rng m x = k <;> simp [hk]

theorem C06_rychlik_eq_rainflow (h : List Int) (hm : closedAtMin h = true) (hc : isConstant h = false) :
    table (rychlik h) = table (rainflow h) := C06_rainflow_eq h hm hc

end FF
