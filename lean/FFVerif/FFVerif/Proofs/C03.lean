/-
C03 — property theorems: counts depend only on the reversals and respect the load symmetries.
Everything is stated about the code-shaped models (`Counter.run`, `levelCrossingSeq`, `peakSeq`).
Time reversal is proved for simple-range counting; for rainflow, four-point and Rychlik it is
`C03.ReverseStatement` (a def, not a theorem), decided by the exhaustive small-scope test.
-/
import FFVerif.Lemmas.Refine
import FFVerif.Lemmas.Similar2
import FFVerif.Lemmas.Reverse
import FFVerif.Lemmas.Collapse
import FFVerif.Props.C03
namespace FF
open C02 C03

/-! ### insertion on a monotone stretch / repetition of a sample -/

/-- no cycle count changes (cycle by cycle, hence the tables too) -/
theorem C03_refine_cycles (k : Counter) {h h' : List Int} (r : Refines h h') : k.run h' = k.run h := by
  have e := pv_refines true r
  cases k <;>
    simp only [Counter.run, simpleRange, rainflow, rangePair, rangePairFull, rainflowRepeat, fourPoint,
      fourPointFull, rychlik, johannesson, e]

theorem C03_refine_level {h h' : List Int} (r : Refines h h') (ref : Int) (levels : List Int) :
    levelCrossingSeq h' ref levels = levelCrossingSeq h ref levels := by
  simp only [levelCrossingSeq, pv_refines true r]

/-- … including the default level grid, which only depends on the overall minimum and maximum -/
theorem C03_refine_defaultLevels {h h' : List Int} (r : Refines h h') (hne : h ≠ []) (unit : Nat) :
    defaultLevels unit h' = defaultLevels unit h := by
  obtain ⟨e1, e2⟩ := refines_extremes r hne
  match h, h', hne with
  | x :: xs, [], _ =>
    have := (refines_mem r).1 x (by simp)
    cases this
  | x :: xs, y :: ys, _ =>
    simp only [listMin, listMax] at e1 e2
    simp only [defaultLevels, e1, e2]

theorem C03_refine_peak {h h' : List Int} (r : Refines h h') (ref : Int) : peakSeq h' ref = peakSeq h ref := by
  simp only [peakSeq, pv_refines true r]

-- non-vacuity: a genuine refinement (one repetition, one insertion on a falling stretch)
example : Refines [0, -3, 0, 1] [0, -3, -3, 0, 1] :=
  Refines.step _ [0] (-3) (-3) 0 [1] (by unfold Between; omega) (Refines.refl _)
example : Refines [5, 0, 2] [5, 3, 0, 2] :=
  Refines.step _ [] 5 3 0 [2] (by unfold Between; omega) (Refines.refl _)

/-! ### offset, positive scale, sign flip -/

theorem sim_shift (c : Int) : Sim 1 (· + c) := ⟨by omega, fun a b => by unfold rng; simp; congr 1; omega⟩
theorem inc_shift (c : Int) : Inc (· + c) := fun a b h => by simp; omega
theorem sim_scale (c : Nat) (hc : 0 < c) : Sim c (fun x => (c : Int) * x) :=
  ⟨hc, fun a b => by unfold rng; rw [← Int.mul_sub, Int.natAbs_mul]; simp⟩
theorem inc_scale (c : Nat) (hc : 0 < c) : Inc (fun x => (c : Int) * x) :=
  fun a b h => Int.mul_lt_mul_of_pos_left h (by omega)
theorem sim_neg : Sim 1 (fun x => -x) := ⟨by omega, fun a b => by unfold rng; simp; omega⟩
theorem dec_neg : Dec' (fun x => -x) := fun a b h => by simp; omega

/-- every counter commutes with an increasing similarity (offset, positive scale) … -/
theorem run_map_inc {k f} (c : Counter) (s : Sim k f) (hi : Inc f) (h : List Int) :
    c.run (h.map f) = (c.run h).map (Cyc.map f) := by
  cases c
  · exact simpleRange_map f (Or.inl hi) h
  · exact rainflow_map s (Or.inl hi) h
  · exact rangePair_map s (Or.inl hi) h
  · exact rainflowRepeat_map s hi h
  · exact fourPoint_map s (Or.inl hi) h
  · exact rychlik_map hi h
  · exact johannesson_map hi h

/-- adding a constant leaves every range count unchanged -/
theorem C03_shift (c : Counter) (d : Int) (h : List Int) :
    tableScaledOK 1 (table (c.run h)) (table (c.run (h.map (· + d)))) = true := by
  simp [tableScaledOK, run_map_inc c (sim_shift d) (inc_shift d), table_map (sim_shift d)]

/-- scaling by `c > 0` scales every counted range by `c` -/
theorem C03_scale (k : Counter) (c : Nat) (hc : 0 < c) (h : List Int) :
    tableScaledOK c (table (k.run h)) (table (k.run (h.map (fun x => (c : Int) * x)))) = true := by
  simp [tableScaledOK, run_map_inc k (sim_scale c hc) (inc_scale c hc), table_map (sim_scale c hc)]

/-- the counters that only compare ranges -/
def C02.Counter.rangeOnly : Counter → Bool
  | .simple | .rainflow | .rangepair | .fourpoint => true
  | _ => false

/-- negating the history leaves the simple-range, rainflow, range-pair and four-point counts unchanged -/
theorem C03_negate (k : Counter) (hk : k.rangeOnly = true) (h : List Int) :
    tableScaledOK 1 (table (k.run h)) (table (k.run (h.map (fun x => -x)))) = true := by
  have e : k.run (h.map (fun x => -x)) = (k.run h).map (Cyc.map (fun x => -x)) := by
    cases k
    · exact simpleRange_map _ (Or.inr dec_neg) h
    · exact rainflow_map sim_neg (Or.inr dec_neg) h
    · exact rangePair_map sim_neg (Or.inr dec_neg) h
    · simp [C02.Counter.rangeOnly] at hk
    · exact fourPoint_map sim_neg (Or.inr dec_neg) h
    · simp [C02.Counter.rangeOnly] at hk
    · simp [C02.Counter.rangeOnly] at hk
  simp [tableScaledOK, e, table_map sim_neg]

/-- level crossing and peak counting under offset and positive scale: the events move with the load -/
theorem C03_level_similar {k f} (s : Sim k f) (hi : Inc f) (h : List Int) (ref : Int) (levels : List Int) :
    levelCrossingSeq (h.map f) (f ref) (levels.map f) = (levelCrossingSeq h ref levels).map f :=
  levelCrossingSeq_map hi h ref levels

theorem C03_peak_similar {k f} (s : Sim k f) (hi : Inc f) (h : List Int) (ref : Int) :
    peakSeq (h.map f) (f ref) = (peakSeq h ref).map f := peakSeq_map hi h ref

/-! ### time reversal -/

def Cyc.swap (c : Cyc) : Cyc := ⟨c.b, c.a, c.half⟩

theorem halves_snoc2 : ∀ (Y : List Int) (b a : Int), halves (Y ++ [b, a]) = halves (Y ++ [b]) ++ [⟨b, a, true⟩]
  | [], b, a => by simp [halves]
  | [y], b, a => by simp [halves]
  | y :: z :: Y, b, a => by
    have ih := halves_snoc2 (z :: Y) b a
    simp only [List.cons_append] at ih ⊢
    simp only [halves, ih, List.cons_append]

theorem halves_reverse : ∀ l : List Int, halves l.reverse = ((halves l).map Cyc.swap).reverse
  | [] => rfl
  | [_] => rfl
  | a :: b :: rest => by
    have ih := halves_reverse (b :: rest)
    have e1 : (a :: b :: rest).reverse = rest.reverse ++ [b, a] := by simp
    have e2 : (b :: rest).reverse = rest.reverse ++ [b] := by simp
    rw [e1, halves_snoc2, ← e2, ih]
    simp [halves, Cyc.swap]

theorem rng_comm (a b : Int) : rng a b = rng b a := by unfold rng; omega

theorem unitsAt_swap_reverse (cs : List Cyc) (k : Nat) : unitsAt ((cs.map Cyc.swap).reverse) k = unitsAt cs k := by
  unfold unitsAt
  rw [List.filter_reverse, List.map_reverse, List.sum_reverse, List.filter_map, List.map_map]
  congr 1
  have : (fun c : Cyc => c.range == k) ∘ Cyc.swap = fun c => c.range == k := by
    funext c; simp [Cyc.swap, Cyc.range, rng_comm]
  rw [this]
  apply List.map_congr_left
  intro c _; rfl

/-- two cycle lists with the same count at every range have the same aggregated table -/
theorem table_eq_of_unitsAt (cs cs' : List Cyc) (h : ∀ k, unitsAt cs k = unitsAt cs' k) : table cs = table cs' :=
  table_ext _ _ (table_sorted cs) (table_sorted cs') (table_pos cs) (table_pos cs')
    (fun k => by rw [cnt_table, cnt_table, h k])

/-- reversing time leaves the simple-range count unchanged -/
theorem C03_reverse_simple (h : List Int) :
    tableScaledOK 1 (table (simpleRange h)) (table (simpleRange h.reverse)) = true := by
  have : table (simpleRange h.reverse) = table (simpleRange h) := by
    unfold simpleRange
    rw [pv_true_reverse, halves_reverse]
    exact table_eq_of_unitsAt _ _ (unitsAt_swap_reverse _)
  simp [tableScaledOK, this]

/-- the reversal clause for the three stack / scan procedures — stated, not proved -/
def C03.ReverseStatement : Prop :=
  ∀ h : List Int, table (rainflow h.reverse) = table (rainflow h) ∧
    table (fourPoint h.reverse) = table (fourPoint h) ∧ table (rychlik h.reverse) = table (rychlik h)

end FF
