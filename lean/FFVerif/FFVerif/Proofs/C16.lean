import FFVerif.Props.C16
