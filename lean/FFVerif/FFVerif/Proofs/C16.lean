/-
C16 — proofs: the ARMA-family models satisfy (and are the unique solutions of) their documented
recurrences; the random walk takes unit steps along one axis; the randint decode is a bijection.
Core Lean only.
-/
import FFVerif.Props.C16
namespace FF
open Arma C16

/-! ### `at'` and `build` -/

theorem at'_eq_getElem (l : List Int) (i : Nat) (h : i < l.length) : at' l i = l[i] := by
  simp [at', List.getD_eq_getElem?_getD, h]

theorem at'_append_left (l r : List Int) (i : Nat) (h : i < l.length) : at' (l ++ r) i = at' l i := by
  simp [at', List.getD_eq_getElem?_getD, List.getElem?_append_left h]

theorem at'_append_self (l : List Int) (x : Int) : at' (l ++ [x]) l.length = x := by
  simp [at', List.getD_eq_getElem?_getD]

theorem at'_take (l : List Int) (i k : Nat) (h : k < i) : at' (l.take i) k = at' l k := by
  simp [at', List.getD_eq_getElem?_getD, h]

theorem ext_at' (l₁ l₂ : List Int) (hl : l₁.length = l₂.length)
    (h : ∀ i, i < l₁.length → at' l₁ i = at' l₂ i) : l₁ = l₂ := by
  apply List.ext_getElem hl
  intro i h1 h2
  have := h i h1
  rwa [at'_eq_getElem _ _ h1, at'_eq_getElem _ _ h2] at this

theorem build_succ (N : Nat) (value : Nat → List Int → Int) :
    build (N + 1) value = build N value ++ [value N (build N value)] := by
  simp [build, List.range_succ, List.foldl_append]

theorem build_length (N : Nat) (value : Nat → List Int → Int) : (build N value).length = N := by
  induction N with
  | zero => simp [build]
  | succ n ih => rw [build_succ]; simp [ih]

theorem build_take (N : Nat) (value : Nat → List Int → Int) (i : Nat) (h : i ≤ N) :
    (build N value).take i = build i value := by
  induction N with
  | zero =>
    have : i = 0 := by omega
    subst this; simp [build]
  | succ n ih =>
    by_cases hi : i = n + 1
    · subst hi
      exact List.take_of_length_le (by rw [build_length]; omega)
    · rw [build_succ, List.take_append_of_le_length (by rw [build_length]; omega)]
      exact ih (by omega)

/-- the `i`-th entry was computed from the first `i` entries -/
theorem build_at' (N : Nat) (value : Nat → List Int → Int) (i : Nat) (h : i < N) :
    at' (build N value) i = value i ((build N value).take i) := by
  rw [build_take N value i (by omega)]
  have h1 : (build N value).take (i + 1) = build (i + 1) value := build_take N value (i + 1) (by omega)
  have h2 : at' (build N value) i = at' ((build N value).take (i + 1)) i := (at'_take _ _ _ (by omega)).symm
  rw [h2, h1, build_succ]
  have := at'_append_self (build i value) (value i (build i value))
  rwa [build_length] at this

theorem C16_build_length (N : Nat) (value : Nat → List Int → Int) : (build N value).length = N :=
  build_length N value

theorem C16_build_at' (N : Nat) (value : Nat → List Int → Int) (i : Nat) (h : i < N) :
    at' (build N value) i = value i ((build N value).take i) :=
  build_at' N value i h

/-! ### causal recurrences: existence and uniqueness -/

/-- `F t l` only reads `l` at indices `< t` -/
def Causal (F : Nat → List Int → Int) : Prop :=
  ∀ t (l₁ l₂ : List Int), (∀ k, k < t → at' l₁ k = at' l₂ k) → F t l₁ = F t l₂

theorem okIff (N : Nat) (G : Nat → List Int → Int) (out : List Int) :
    (out.length == N && allIdx N (fun t => at' out t == G t out)) = true ↔
      out.length = N ∧ ∀ t, t < N → at' out t = G t out := by
  simp [allIdx, List.all_eq_true]

/-- a builder whose step agrees with a causal recurrence produces a solution of the recurrence -/
theorem build_sat (N : Nat) (V G : Nat → List Int → Int) (hG : Causal G)
    (hVG : ∀ t l, t < N → V t l = G t l) :
    ∀ t, t < N → at' (build N V) t = G t (build N V) := by
  intro t ht
  rw [build_at' N V t ht, hVG _ _ ht]
  exact hG t _ _ (fun k hk => at'_take _ _ _ hk)

/-- a causal recurrence has at most one solution of each length -/
theorem causal_unique (N : Nat) (G : Nat → List Int → Int) (hG : Causal G) (l₁ l₂ : List Int)
    (h1 : l₁.length = N) (h2 : l₂.length = N)
    (e1 : ∀ t, t < N → at' l₁ t = G t l₁) (e2 : ∀ t, t < N → at' l₂ t = G t l₂) : l₁ = l₂ := by
  have key : ∀ n, ∀ t, t < n → t < N → at' l₁ t = at' l₂ t := by
    intro n
    induction n with
    | zero => intro t h; omega
    | succ n ih =>
      intro t htn htN
      rw [e1 t htN, e2 t htN]
      apply hG
      intro k hk
      exact ih k (by omega) (by omega)
  apply ext_at' _ _ (by omega)
  intro i hi
  exact key (i + 1) i (by omega) (by omega)

/-! ### lag sums -/

theorem foldl_term_congr (c f g : Nat → Int) (l : List Nat) (a : Int)
    (h : ∀ j, j ∈ l → f j = g j) :
    l.foldl (fun acc j => acc + c j * f j) a = l.foldl (fun acc j => acc + c j * g j) a := by
  induction l generalizing a with
  | nil => rfl
  | cons x xs ih =>
    simp only [List.foldl_cons]
    rw [h x (by simp)]
    exact ih _ (fun j hj => h j (by simp [hj]))

theorem lags_congr (coef : List Int) (avail : Nat) (f g : Nat → Int)
    (h : ∀ k, k < coef.length → k < avail → f k = g k) : lags coef avail f = lags coef avail g := by
  unfold lags
  apply foldl_term_congr
  intro j hj
  simp only [List.mem_filter, List.mem_range, decide_eq_true_eq] at hj
  exact h j hj.1 hj.2

theorem lagSum_eq_lags (coef : List Int) (guard : Nat → Bool) (avail : Nat) (f g : Nat → Int)
    (hguard : ∀ j, j < coef.length → guard j = decide (j < avail))
    (h : ∀ k, k < coef.length → k < avail → f k = g k) : lagSum coef guard f = lags coef avail g := by
  rw [← lags_congr coef avail f g h]
  unfold lagSum lags
  congr 1
  apply List.filter_congr
  intro j hj
  exact hguard j (by simpa using hj)

/-! ### the specifications as recurrences -/

def arSpec (obs phis eps : List Int) (t : Nat) (out : List Int) : Int :=
  if t < obs.length then at' obs t else at' eps t + lags phis t (fun k => at' out (t - 1 - k))

def maSpec (c : Int) (thetas eps : List Int) (t : Nat) (_out : List Int) : Int :=
  c + at' eps t + lags thetas t (fun k => at' eps (t - 1 - k))

def armaSpec (obs phis thetas eps : List Int) (t : Nat) (out : List Int) : Int :=
  if t < obs.length then at' obs t
  else at' eps t + lags phis t (fun k => at' out (t - 1 - k)) + lags thetas t (fun k => at' eps (t - 1 - k))

def arimaSpec (c : Int) (phis thetas eps : List Int) (t : Nat) (out : List Int) : Int :=
  c + at' eps t + lags phis (t - 1) (fun k => at' out (t - 1 - k) - at' out (t - 2 - k))
    + lags thetas t (fun k => at' eps (t - 1 - k))

theorem arOK_iff (N : Nat) (obs phis eps out : List Int) :
    arOK N obs phis eps out = true ↔
      out.length = N ∧ ∀ t, t < N → at' out t = arSpec obs phis eps t out :=
  okIff N (arSpec obs phis eps) out

theorem maOK_iff (N : Nat) (c : Int) (thetas eps out : List Int) :
    maOK N c thetas eps out = true ↔
      out.length = N ∧ ∀ t, t < N → at' out t = maSpec c thetas eps t out :=
  okIff N (maSpec c thetas eps) out

theorem armaOK_iff (N : Nat) (obs phis thetas eps out : List Int) :
    armaOK N obs phis thetas eps out = true ↔
      out.length = N ∧ ∀ t, t < N → at' out t = armaSpec obs phis thetas eps t out :=
  okIff N (armaSpec obs phis thetas eps) out

theorem arimaOK_iff (N : Nat) (c : Int) (phis thetas eps out : List Int) :
    arimaOK N c phis thetas eps out = true ↔
      out.length = N ∧ ∀ t, t < N → at' out t = arimaSpec c phis thetas eps t out :=
  okIff N (arimaSpec c phis thetas eps) out

theorem lags_out_causal (coef : List Int) (t : Nat) (l₁ l₂ : List Int)
    (h : ∀ k, k < t → at' l₁ k = at' l₂ k) :
    lags coef t (fun k => at' l₁ (t - 1 - k)) = lags coef t (fun k => at' l₂ (t - 1 - k)) := by
  apply lags_congr
  intro k _ hk
  exact h _ (by omega)

theorem arSpec_causal (obs phis eps : List Int) : Causal (arSpec obs phis eps) := by
  intro t l₁ l₂ h
  unfold arSpec
  rw [lags_out_causal phis t l₁ l₂ h]

theorem maSpec_causal (c : Int) (thetas eps : List Int) : Causal (maSpec c thetas eps) := by
  intro t l₁ l₂ _
  rfl

theorem armaSpec_causal (obs phis thetas eps : List Int) : Causal (armaSpec obs phis thetas eps) := by
  intro t l₁ l₂ h
  unfold armaSpec
  rw [lags_out_causal phis t l₁ l₂ h]

theorem arimaSpec_causal (c : Int) (phis thetas eps : List Int) : Causal (arimaSpec c phis thetas eps) := by
  intro t l₁ l₂ h
  unfold arimaSpec
  have : lags phis (t - 1) (fun k => at' l₁ (t - 1 - k) - at' l₁ (t - 2 - k))
      = lags phis (t - 1) (fun k => at' l₂ (t - 1 - k) - at' l₂ (t - 2 - k)) := by
    apply lags_congr
    intro k _ hk
    show at' l₁ (t - 1 - k) - at' l₁ (t - 2 - k) = at' l₂ (t - 1 - k) - at' l₂ (t - 2 - k)
    rw [h (t - 1 - k) (by omega), h (t - 2 - k) (by omega)]
  rw [this]

/-! ### the model steps agree with the recurrences -/

/-- AR needs every coefficient lag to be covered by the observations (`phis.length ≤ obs.length`):
for `N = 2, obs = [], phis = [2,3], eps = [7]` the code reads `rst[0]` for the lag that reaches
before the start (`i - j - 1` truncates to 0) and `arOK` is `false`. -/
theorem arValue_eq (obs phis eps : List Int) (hlen : phis.length ≤ obs.length) (t : Nat) (l : List Int) :
    arValue obs phis eps t l = arSpec obs phis eps t l := by
  unfold arValue arSpec
  by_cases ht : t < obs.length
  · simp [ht]
  · simp only [ht, if_false]
    congr 1
    apply lagSum_eq_lags
    · intro j hj
      have : j < t := by omega
      simp [this]
    · intro k _ hk
      show at' l (t - k - 1) = at' l (t - 1 - k)
      congr 1
      omega

theorem maValue_eq (c : Int) (thetas eps : List Int) (t : Nat) (l : List Int) :
    maValue c thetas eps t l = maSpec c thetas eps t l := by
  unfold maValue maSpec
  rw [Int.add_assoc]
  congr 2
  apply lagSum_eq_lags
  · intro j _
    rfl
  · intro k _ _
    show at' eps (t - k - 1) = at' eps (t - 1 - k)
    congr 1
    omega

theorem armaValue_eq (obs phis thetas eps : List Int) (t : Nat) (l : List Int) :
    armaValue obs phis thetas eps t l = armaSpec obs phis thetas eps t l := by
  unfold armaValue armaSpec
  by_cases ht : t < obs.length
  · simp [ht]
  · simp only [ht, if_false]
    congr 1
    · congr 1
      apply lagSum_eq_lags
      · intro j _
        rfl
      · intro k _ _
        show at' l (t - k - 1) = at' l (t - 1 - k)
        congr 1
        omega
    · apply lagSum_eq_lags
      · intro j _
        rfl
      · intro k _ _
        show at' eps (t - k - 1) = at' eps (t - 1 - k)
        congr 1
        omega

theorem arimaValue_eq (c : Int) (phis thetas eps : List Int) (t : Nat) (l : List Int) :
    arimaValue c phis thetas eps t l = arimaSpec c phis thetas eps t l := by
  unfold arimaValue arimaSpec
  congr 1
  · congr 1
    apply lagSum_eq_lags
    · intro j _
      apply decide_eq_decide.mpr
      omega
    · intro k _ _
      show at' l (t - k - 1) - at' l (t - k - 2) = at' l (t - 1 - k) - at' l (t - 2 - k)
      have e1 : t - k - 1 = t - 1 - k := by omega
      have e2 : t - k - 2 = t - 2 - k := by omega
      rw [e1, e2]
  · apply lagSum_eq_lags
    · intro j _
      rfl
    · intro k _ _
      show at' eps (t - k - 1) = at' eps (t - 1 - k)
      congr 1
      omega

/-! ### 2. the models satisfy their specifications -/

/-- general form: it is enough that the observations cover all the lags -/
theorem C16_ar_le (N : Nat) (obs phis eps : List Int) (hlen : phis.length ≤ obs.length) :
    arOK N obs phis eps (ar N obs phis eps) = true := by
  rw [arOK_iff]
  exact ⟨build_length _ _,
    build_sat N _ _ (arSpec_causal obs phis eps) (fun t l _ => arValue_eq obs phis eps hlen t l)⟩

theorem C16_ar (N : Nat) (obs phis eps : List Int) (hlen : obs.length = phis.length)
    (_hp : 1 ≤ phis.length) : arOK N obs phis eps (ar N obs phis eps) = true :=
  C16_ar_le N obs phis eps (by omega)

theorem C16_ma (N : Nat) (c : Int) (thetas eps : List Int) :
    maOK N c thetas eps (ma N c thetas eps) = true := by
  rw [maOK_iff]
  exact ⟨build_length _ _,
    build_sat N _ _ (maSpec_causal c thetas eps) (fun t l _ => maValue_eq c thetas eps t l)⟩

theorem C16_arma (N : Nat) (obs phis thetas eps : List Int) :
    armaOK N obs phis thetas eps (arma N obs phis thetas eps) = true := by
  rw [armaOK_iff]
  exact ⟨build_length _ _,
    build_sat N _ _ (armaSpec_causal obs phis thetas eps) (fun t l _ => armaValue_eq obs phis thetas eps t l)⟩

theorem C16_arima (N : Nat) (c : Int) (phis thetas eps : List Int) :
    arimaOK N c phis thetas eps (arima N c phis thetas eps) = true := by
  rw [arimaOK_iff]
  exact ⟨build_length _ _,
    build_sat N _ _ (arimaSpec_causal c phis thetas eps) (fun t l _ => arimaValue_eq c phis thetas eps t l)⟩

/-- the AR corner case: a lag reaching before the start is NOT read as 0 by the code -/
example : arOK 2 [] [2, 3] [7] (ar 2 [] [2, 3] [7]) = false := by decide

/-! ### 3. uniqueness: the specification determines the sequence -/

theorem C16_ar_spec_unique_aux (N : Nat) (obs phis eps out₁ out₂ : List Int)
    (h1 : arOK N obs phis eps out₁ = true) (h2 : arOK N obs phis eps out₂ = true) : out₁ = out₂ := by
  rw [arOK_iff] at h1 h2
  exact causal_unique N _ (arSpec_causal obs phis eps) _ _ h1.1 h2.1 h1.2 h2.2

theorem C16_ar_unique (N : Nat) (obs phis eps : List Int) (hlen : obs.length = phis.length)
    (hp : 1 ≤ phis.length) (out : List Int) (h : arOK N obs phis eps out = true) :
    out = ar N obs phis eps := by
  have h' := C16_ar N obs phis eps hlen hp
  rw [arOK_iff] at h h'
  exact causal_unique N _ (arSpec_causal obs phis eps) _ _ h.1 h'.1 h.2 h'.2

theorem C16_ar_unique_le (N : Nat) (obs phis eps : List Int) (hlen : phis.length ≤ obs.length)
    (out : List Int) (h : arOK N obs phis eps out = true) : out = ar N obs phis eps :=
  C16_ar_spec_unique_aux N obs phis eps out _ h (C16_ar_le N obs phis eps hlen)

theorem C16_ma_unique (N : Nat) (c : Int) (thetas eps : List Int) (out : List Int)
    (h : maOK N c thetas eps out = true) : out = ma N c thetas eps := by
  have h' := C16_ma N c thetas eps
  rw [maOK_iff] at h h'
  exact causal_unique N _ (maSpec_causal c thetas eps) _ _ h.1 h'.1 h.2 h'.2

theorem C16_arma_unique (N : Nat) (obs phis thetas eps : List Int) (out : List Int)
    (h : armaOK N obs phis thetas eps out = true) : out = arma N obs phis thetas eps := by
  have h' := C16_arma N obs phis thetas eps
  rw [armaOK_iff] at h h'
  exact causal_unique N _ (armaSpec_causal obs phis thetas eps) _ _ h.1 h'.1 h.2 h'.2

theorem C16_arima_unique (N : Nat) (c : Int) (phis thetas eps : List Int) (out : List Int)
    (h : arimaOK N c phis thetas eps out = true) : out = arima N c phis thetas eps := by
  have h' := C16_arima N c phis thetas eps
  rw [arimaOK_iff] at h h'
  exact causal_unique N _ (arimaSpec_causal c phis thetas eps) _ _ h.1 h'.1 h.2 h'.2

/-- two outputs accepted by the same specification coincide (no hypothesis on the model needed) -/
theorem C16_ar_spec_unique (N : Nat) (obs phis eps out₁ out₂ : List Int)
    (h1 : arOK N obs phis eps out₁ = true) (h2 : arOK N obs phis eps out₂ = true) : out₁ = out₂ :=
  C16_ar_spec_unique_aux N obs phis eps out₁ out₂ h1 h2

/-! ### 4. zero spread: constant noise gives the deterministic recurrence -/

theorem C16_ar_const (N : Nat) (obs phis : List Int) (mu : Int) (hlen : obs.length = phis.length)
    (hp : 1 ≤ phis.length) :
    arOK N obs phis (List.replicate N mu) (ar N obs phis (List.replicate N mu)) = true :=
  C16_ar N obs phis _ hlen hp

theorem C16_ma_const (N : Nat) (c mu : Int) (thetas : List Int) :
    maOK N c thetas (List.replicate N mu) (ma N c thetas (List.replicate N mu)) = true :=
  C16_ma N c thetas _

theorem C16_arma_const (N : Nat) (obs phis thetas : List Int) (mu : Int) :
    armaOK N obs phis thetas (List.replicate N mu) (arma N obs phis thetas (List.replicate N mu)) = true :=
  C16_arma N obs phis thetas _

theorem C16_arima_const (N : Nat) (c mu : Int) (phis thetas : List Int) :
    arimaOK N c phis thetas (List.replicate N mu) (arima N c phis thetas (List.replicate N mu)) = true :=
  C16_arima N c phis thetas _

/-- with constant noise every noise read inside the horizon is `mu` -/
theorem at'_replicate (N : Nat) (mu : Int) (i : Nat) (h : i < N) : at' (List.replicate N mu) i = mu := by
  simp [at', List.getD_eq_getElem?_getD, h]

/-! ### 5. random walk -/

theorem zip_self_filter_ne (xs : List Int) : (xs.zip xs).filter (fun p => p.1 != p.2) = [] := by
  induction xs with
  | nil => rfl
  | cons x xs ih => simp [ih]

theorem zip_self_all (xs : List Int) :
    (xs.zip xs).all (fun p => p.1 == p.2 || p.2 - p.1 == 1 || p.2 - p.1 == -1) = true := by
  induction xs with
  | nil => rfl
  | cons x xs ih => simp [ih]

theorem modify_count (a : List Int) (i : Nat) (d : Int) (hd : d ≠ 0) (hi : i < a.length) :
    ((a.zip (a.modify i (· + d))).filter (fun p => p.1 != p.2)).length = 1 := by
  induction a generalizing i with
  | nil => simp at hi
  | cons x xs ih =>
    cases i with
    | zero =>
      have : x ≠ x + d := by omega
      simp [zip_self_filter_ne, this]
    | succ i =>
      have := ih i (by simpa using hi)
      simpa using this

theorem modify_all (a : List Int) (i : Nat) (d : Int) (hd : d = 1 ∨ d = -1) :
    (a.zip (a.modify i (· + d))).all (fun p => p.1 == p.2 || p.2 - p.1 == 1 || p.2 - p.1 == -1) = true := by
  induction a generalizing i with
  | nil => simp
  | cons x xs ih =>
    cases i with
    | zero =>
      have h1 : x + d - x = d := by omega
      have h2 := zip_self_all xs
      rcases hd with hd | hd
      · subst hd
        simp only [List.modify_zero_cons, List.zip_cons_cons, List.all_cons, h2, h1]
        simp
      · subst hd
        simp only [List.modify_zero_cons, List.zip_cons_cons, List.all_cons, h2, h1]
        simp
    | succ i =>
      have := ih i
      simp only [List.modify_succ_cons, List.zip_cons_cons, List.all_cons, this]
      simp

/-- one step of the walk changes exactly one coordinate, by exactly ±1 -/
theorem stepOK_walkStep (dim : Nat) (pos : List Int) (r : Nat) (hpos : pos.length = dim)
    (hr : r < 2 * dim) : stepOK pos (walkStep dim pos r) = true := by
  have hdim : 0 < dim := by omega
  have hax : r % dim < pos.length := by rw [hpos]; exact Nat.mod_lt _ hdim
  unfold stepOK walkStep
  have hd : (if r ≥ dim then (1 : Int) else -1) = 1 ∨ (if r ≥ dim then (1 : Int) else -1) = -1 := by
    by_cases h : r ≥ dim <;> simp [h]
  have hd0 : (if r ≥ dim then (1 : Int) else -1) ≠ 0 := by
    rcases hd with h | h <;> rw [h] <;> decide
  rw [modify_count pos (r % dim) _ hd0 hax, modify_all pos (r % dim) _ hd]
  simp

theorem walkStep_length (dim : Nat) (pos : List Int) (r : Nat) :
    (walkStep dim pos r).length = pos.length := by
  simp [walkStep]

theorem pathOK_append (p : List (List Int)) (x d : List Int) (hne : p ≠ [])
    (hp : pathOK p = true) (hs : stepOK (p.getLastD d) x = true) : pathOK (p ++ [x]) = true := by
  induction p generalizing d with
  | nil => exact absurd rfl hne
  | cons a rest ih =>
    cases rest with
    | nil =>
      simp only [List.getLastD_cons, List.getLastD_nil] at hs
      simp [pathOK, hs]
    | cons b rest =>
      simp only [pathOK, Bool.and_eq_true] at hp
      have := ih a (by simp) hp.2 (by simp only [List.getLastD_cons] at hs ⊢; exact hs)
      simp only [List.cons_append, pathOK, Bool.and_eq_true]
      exact ⟨hp.1, by simpa using this⟩

/-- invariant of the walk loop -/
theorem walk_fold (dim : Nat) (rs : List Nat) (hr : ∀ r ∈ rs, r < 2 * dim) (p : List (List Int))
    (hne : p ≠ []) (hp : pathOK p = true)
    (hlast : (p.getLastD (List.replicate dim 0)).length = dim) :
    let q := rs.foldl
      (fun path r => path ++ [walkStep dim (path.getLastD (List.replicate dim 0)) r]) p
    q.length = p.length + rs.length ∧ q.head? = p.head? ∧ pathOK q = true := by
  induction rs generalizing p with
  | nil => simp [hp]
  | cons r rs ih =>
    simp only [List.foldl_cons]
    have hr0 : r < 2 * dim := hr r (by simp)
    have hstep := stepOK_walkStep dim _ r hlast hr0
    have h1 := pathOK_append p _ _ hne hp hstep
    have h2 : ((p ++ [walkStep dim (p.getLastD (List.replicate dim 0)) r]).getLastD
        (List.replicate dim 0)).length = dim := by
      rw [List.getLastD_concat, walkStep_length, hlast]
    have := ih (fun r' h' => hr r' (by simp [h']))
      (p ++ [walkStep dim (p.getLastD (List.replicate dim 0)) r]) (by simp) h1 h2
    refine ⟨?_, ?_, this.2.2⟩
    · rw [this.1]; simp; omega
    · rw [this.2.1]
      cases p with
      | nil => exact absurd rfl hne
      | cons a rest => rfl

theorem C16_walk (dim : Nat) (_hd : 1 ≤ dim) (rs : List Nat) (hr : ∀ r ∈ rs, r < 2 * dim) :
    walkOK rs.length dim (walk dim rs) = true := by
  have := walk_fold dim rs hr [List.replicate dim 0] (by simp) rfl (by simp)
  unfold walkOK walk
  simp only [this.1, this.2.1, this.2.2]
  simp
  omega

/-! #### the `randint(0, 2*dim)` decode is a bijection onto (axis, direction) -/

theorem decode_mod (dim r : Nat) (hr : r < 2 * dim) : r % dim = if r ≥ dim then r - dim else r := by
  by_cases h : r ≥ dim
  · rw [if_pos h, Nat.mod_eq_sub_mod h, Nat.mod_eq_of_lt (by omega)]
  · rw [if_neg h, Nat.mod_eq_of_lt (by omega)]

/-- the decoded axis is in range -/
theorem C16_decode_range (dim r : Nat) (hr : r < 2 * dim) : r % dim < dim :=
  Nat.mod_lt _ (by omega)

/-- `(axis, up) ↦ axis + (if up then dim else 0)` is a left inverse of the decode -/
theorem C16_decode_left_inv (dim r : Nat) (hr : r < 2 * dim) :
    r % dim + (if decide (r ≥ dim) then dim else 0) = r := by
  rw [decode_mod dim r hr]
  by_cases h : r ≥ dim
  · simp [h]
  · simp [h]

/-- ... and a right inverse, landing in `[0, 2*dim)` -/
theorem C16_decode_right_inv (dim axis : Nat) (up : Bool) (h : axis < dim) :
    axis + (if up then dim else 0) < 2 * dim ∧
      (axis + (if up then dim else 0)) % dim = axis ∧
      decide (axis + (if up then dim else 0) ≥ dim) = up := by
  cases up with
  | false =>
    refine ⟨by simp; omega, by simp [Nat.mod_eq_of_lt h], ?_⟩
    simp; omega
  | true =>
    refine ⟨by simp; omega, ?_, ?_⟩
    · simp [Nat.mod_eq_of_lt h]
    · simp

theorem C16_decode_injective (dim r s : Nat) (hr : r < 2 * dim) (hs : s < 2 * dim)
    (h : (r % dim, decide (r ≥ dim)) = (s % dim, decide (s ≥ dim))) : r = s := by
  have h1 : r % dim = s % dim := congrArg Prod.fst h
  have h2 : decide (r ≥ dim) = decide (s ≥ dim) := congrArg Prod.snd h
  rw [← C16_decode_left_inv dim r hr, ← C16_decode_left_inv dim s hs, h1, h2]

theorem C16_decode_surjective (dim axis : Nat) (up : Bool) (h : axis < dim) :
    ∃ r, r < 2 * dim ∧ (r % dim, decide (r ≥ dim)) = (axis, up) := by
  have := C16_decode_right_inv dim axis up h
  exact ⟨axis + (if up then dim else 0), this.1, by rw [this.2.1, this.2.2]⟩

end FF
