/-
C12 — the curvature extraction does not depend on the unit of the limit state.

Multiplying `g` by a positive constant `c` multiplies its gradient `a` and its Hessian `Hx` by `c`.  On the executable model of the
pipeline (`Model/SormPipe.lean`) the rows of the rotation (built from the unit vector `-∇G/‖∇G‖`) and the curvature block
(`R H_U Rᵀ / ‖∇G‖`) are then unchanged, only the reported gradient norm is multiplied by `c` (`C12s_block_scale`).  The main curvatures —
and with them the three SORM estimates — are those of the SURFACE `g = 0`, whatever the unit of `g` (1, 1e-9, …): an absolute
tolerance applied to the unnormalised Hessian would break exactly this.
-/
import FFVerif.Proofs.C12Pipe
namespace FF.SormPipe
open FF.Linalg FF.Nataf Finset

theorem gradU_smul (T : Model ℝ) (x a : Vec ℝ) (c : ℝ) :
    Form.gradU T x (fun i => c * a i) = fun j => c * Form.gradU T x a j := by
  funext j
  unfold Form.gradU
  rw [tmulVec_real, tmulVec_real, mul_sum]
  exact sum_congr rfl (fun i _ => by ring)

theorem norm_smul (n : Nat) (v : Vec ℝ) (c : ℝ) (hc : 0 < c) : norm n (fun i => c * v i) = c * norm n v := by
  rw [norm_real, norm_real]
  have : ∑ i ∈ range n, c * v i * (c * v i) = c ^ 2 * ∑ i ∈ range n, v i * v i := by
    rw [mul_sum]; exact sum_congr rfl (fun i _ => by ring)
  rw [this, Real.sqrt_mul (sq_nonneg c), Real.sqrt_sq hc.le]

theorem hessU_smul (T : Model ℝ) (x a : Vec ℝ) (Hx : Mat ℝ) (c : ℝ) :
    hessU T x (fun i => c * a i) (fun k l => c * Hx k l) = fun i j => c * hessU T x a Hx i j := by
  funext i j
  rw [hessU_real, hessU_real, mul_add, mul_sum, mul_sum]
  congr 1
  · refine sum_congr rfl (fun k _ => ?_)
    rw [mul_sum]
    exact sum_congr rfl (fun l _ => by ring)
  · exact sum_congr rfl (fun k _ => by ring)

/-- **unit of the limit state**: rows and curvature block unchanged, gradient norm multiplied by `c` -/
theorem C12s_block_scale (T : Model ℝ) (x a : Vec ℝ) (Hx : Mat ℝ) (c : ℝ) (hc : 0 < c) :
    (curvatureBlock T x (fun i => c * a i) (fun k l => c * Hx k l)).rows = (curvatureBlock T x a Hx).rows ∧
    (curvatureBlock T x (fun i => c * a i) (fun k l => c * Hx k l)).block = (curvatureBlock T x a Hx).block ∧
    (curvatureBlock T x (fun i => c * a i) (fun k l => c * Hx k l)).gradNorm = c * (curvatureBlock T x a Hx).gradNorm := by
  unfold curvatureBlock
  simp only [ofArr_mkArr, ofArr2_mkArr2, gradU_smul, norm_smul _ _ _ hc, hessU_smul]
  have e1 : ∀ (g : Vec ℝ) (n : ℝ) (i : Nat), -one * (c * g i) / (c * n) = -one * g i / n := by
    intro g n i
    rw [show -one * (c * g i) = c * (-one * g i) by ring, mul_div_mul_left _ _ hc.ne']
  have e2 : ∀ (h n : ℝ), c * h / (c * n) = h / n := fun h n => mul_div_mul_left _ _ hc.ne'
  simp only [e1, e2]
  exact ⟨trivial, trivial, trivial⟩

end FF.SormPipe
