/-
C11 — theorems about the EXECUTABLE Nataf model (`Model/Nataf.lean`, the definitions the driver runs
against `rpm.NatafTransformation` for normal and lognormal marginals), at the reals:

* `C11m_roundtrip_X`, `C11m_roundtrip_U`: `getX ∘ getU` and `getU ∘ getX` are the identity (on the support);
* `C11m_jacobians_inverse`: the two returned matrices are inverse to each other at corresponding points;
* `C11m_getU_matrix_is_derivative_of_getX`, `C11m_getX_matrix_is_derivative_of_getU`: each returned matrix is
  the matrix of partial derivatives of the *other* map (entry by entry, `HasDerivAt`);
* `C11m_build_wf`: the model built from a symmetric latent matrix with positive pivots (Cholesky +
  triangular inverse of `Model/Chol.lean`) satisfies the hypotheses of all of the above;
* `C11m_normal_latent`, `C11m_latent_lognormal`: the closed forms of the latent correlation used by the model.
-/
import Mathlib.Analysis.Calculus.Deriv.Add
import Mathlib.Analysis.Calculus.Deriv.Mul
import Mathlib.Analysis.Calculus.Deriv.Comp
import Mathlib.Analysis.Calculus.Deriv.Inv
import Mathlib.Analysis.SpecialFunctions.ExpDeriv
import Mathlib.Analysis.SpecialFunctions.Log.Deriv
import FFVerif.Proofs.C11Chol
import FFVerif.Model.Nataf
namespace FF.Nataf
open FF.Linalg Finset

/-- admissible parameters: `σ ≠ 0` resp. `s ≠ 0` -/
def Marg.Valid : Marg ℝ → Prop
  | .normal _ sigma => sigma ≠ 0
  | .lognormal _ s => s ≠ 0
  | .general ofZ toZ dxdz _ => (∀ z, toZ (ofZ z) = z) ∧ (∀ z, HasDerivAt ofZ (dxdz (ofZ z)) z) ∧
      (∀ x, ofZ (toZ x) = x → dxdz x ≠ 0) ∧ (∀ x, ofZ (toZ x) = x → HasDerivAt toZ (1 / dxdz x) x)

/-- the support of the marginal -/
def Marg.InSupport : Marg ℝ → ℝ → Prop
  | .normal _ _, _ => True
  | .lognormal _ _, x => 0 < x
  | .general ofZ toZ _ _, x => ofZ (toZ x) = x

theorem toZ_ofZ (m : Marg ℝ) (hv : m.Valid) (z : ℝ) : m.toZ (m.ofZ z) = z := by
  cases m with
  | normal mu sigma => simp only [Marg.toZ, Marg.ofZ]; field_simp [show sigma ≠ 0 from hv]; ring
  | lognormal mm s =>
    simp only [Marg.toZ, Marg.ofZ, exp_real, log_real, Real.log_exp]
    field_simp [show s ≠ 0 from hv]; ring
  | general f g d d2 => exact hv.1 z

theorem ofZ_toZ (m : Marg ℝ) (hv : m.Valid) (x : ℝ) (hx : m.InSupport x) : m.ofZ (m.toZ x) = x := by
  cases m with
  | normal mu sigma => simp only [Marg.toZ, Marg.ofZ]; field_simp [show sigma ≠ 0 from hv]; ring
  | lognormal mm s =>
    simp only [Marg.toZ, Marg.ofZ, exp_real, log_real]
    have hs : s ≠ 0 := hv
    have : mm + s * ((Real.log x - mm) / s) = Real.log x := by field_simp; ring
    rw [this, Real.exp_log hx]
  | general f g d d2 => exact hx

theorem ofZ_inSupport (m : Marg ℝ) (hv : m.Valid) (z : ℝ) : m.InSupport (m.ofZ z) := by
  cases m with
  | normal mu sigma => trivial
  | lognormal mm s => exact Real.exp_pos _
  | general f g d d2 =>
    show f (g (f z)) = f z
    rw [hv.1 z]

theorem dxdz_ne_zero (m : Marg ℝ) (hv : m.Valid) (x : ℝ) (hx : m.InSupport x) : m.dxdz x ≠ 0 := by
  cases m with
  | normal mu sigma => exact hv
  | lognormal mm s => exact mul_ne_zero hv (ne_of_gt hx)
  | general f g d d2 => exact hv.2.2.1 x hx

/-- `d/dz F⁻¹(Φ(z)) = φ(z)/f(x)`: the slope of the marginal map is the quantity on the diagonal of the
returned matrices -/
theorem hasDerivAt_ofZ (m : Marg ℝ) (hv : m.Valid) (z : ℝ) : HasDerivAt m.ofZ (m.dxdz (m.ofZ z)) z := by
  cases m with
  | normal mu sigma =>
    have h := ((hasDerivAt_id z).const_mul sigma).const_add mu
    simp only [mul_one, id] at h
    exact h
  | lognormal mm s =>
    have h1 : HasDerivAt (fun z => mm + s * z) s z := by
      have h := ((hasDerivAt_id z).const_mul s).const_add mm
      simp only [mul_one, id] at h
      exact h
    have h2 := h1.exp
    change HasDerivAt (fun z => Real.exp (mm + s * z)) (s * Real.exp (mm + s * z)) z
    rw [mul_comm]
    exact h2
  | general f g d d2 => exact hv.2.1 z

theorem hasDerivAt_toZ (m : Marg ℝ) (hv : m.Valid) (x : ℝ) (hx : m.InSupport x) :
    HasDerivAt m.toZ (1 / m.dxdz x) x := by
  cases m with
  | normal mu sigma =>
    have h := ((hasDerivAt_id x).sub_const mu).div_const sigma
    simp only [id] at h
    exact h
  | lognormal mm s =>
    have hx' : x ≠ 0 := ne_of_gt hx
    have hs : s ≠ 0 := hv
    have h := ((Real.hasDerivAt_log hx').sub_const mm).div_const s
    change HasDerivAt (fun x => (Real.log x - mm) / s) (1 / (s * x)) x
    have e : 1 / (s * x) = x⁻¹ / s := by field_simp
    rw [e]
    exact h
  | general f g d d2 => exact hv.2.2.2 x hx

/-- well-formedness of a model: admissible marginals, `L L⁻¹ = L⁻¹ L = 1` on the block -/
structure WF (T : Model ℝ) : Prop where
  valid : ∀ i, i < T.dim → (T.marg i).Valid
  LLinv : ∀ i j, i < T.dim → j < T.dim → ∑ k ∈ range T.dim, T.L i k * T.Linv k j = if i = j then 1 else 0
  LinvL : ∀ i j, i < T.dim → j < T.dim → ∑ k ∈ range T.dim, T.Linv i k * T.L k j = if i = j then 1 else 0

/-- `A (B v) = v` when `A B = 1` on the block -/
theorem mul_mul_cancel (n : Nat) (A B : Mat ℝ) (v : Vec ℝ)
    (h : ∀ i j, i < n → j < n → ∑ k ∈ range n, A i k * B k j = if i = j then 1 else 0) (i : Nat) (hi : i < n) :
    ∑ j ∈ range n, A i j * (∑ k ∈ range n, B j k * v k) = v i := by
  simp only [Finset.mul_sum]
  rw [Finset.sum_comm]
  have : ∀ k ∈ range n, ∑ j ∈ range n, A i j * (B j k * v k) = (if i = k then 1 else 0) * v k := by
    intro k hk
    rw [← h i k hi (Finset.mem_range.mp hk), Finset.sum_mul]
    exact Finset.sum_congr rfl (fun j _ => by ring)
  rw [Finset.sum_congr rfl this]
  simp [Finset.sum_ite_eq, hi]

theorem C11m_roundtrip_X (T : Model ℝ) (wf : WF T) (x : Vec ℝ)
    (hx : ∀ i, i < T.dim → (T.marg i).InSupport (x i)) :
    ∀ i, i < T.dim → getX T (getU T x) i = x i := by
  intro i hi
  unfold getX getU
  have : mulVec T.dim T.L (mulVec T.dim T.Linv (zOfX T x)) i = zOfX T x i := by
    rw [mulVec_real]
    simp only [mulVec_real]
    exact mul_mul_cancel T.dim T.L T.Linv (zOfX T x) wf.LLinv i hi
  rw [this]
  exact ofZ_toZ _ (wf.valid i hi) _ (hx i hi)

theorem zOfX_getX (T : Model ℝ) (wf : WF T) (u : Vec ℝ) (i : Nat) (hi : i < T.dim) :
    zOfX T (getX T u) i = mulVec T.dim T.L u i := by
  unfold zOfX getX
  exact toZ_ofZ _ (wf.valid i hi) _

theorem C11m_roundtrip_U (T : Model ℝ) (wf : WF T) (u : Vec ℝ) :
    ∀ i, i < T.dim → getU T (getX T u) i = u i := by
  intro i hi
  unfold getU
  rw [mulVec_real]
  have : ∑ j ∈ range T.dim, T.Linv i j * zOfX T (getX T u) j
      = ∑ j ∈ range T.dim, T.Linv i j * (∑ k ∈ range T.dim, T.L j k * u k) := by
    refine Finset.sum_congr rfl (fun j hj => ?_)
    rw [zOfX_getX T wf u j (Finset.mem_range.mp hj), mulVec_real]
  rw [this]
  exact mul_mul_cancel T.dim T.Linv T.L u wf.LinvL i hi

/-- the two returned matrices are inverse to each other at corresponding points -/
theorem C11m_jacobians_inverse (T : Model ℝ) (wf : WF T) (x : Vec ℝ)
    (hx : ∀ i, i < T.dim → (T.marg i).InSupport (x i)) :
    ∀ i j, i < T.dim → j < T.dim →
      ∑ k ∈ range T.dim, jacGetX T (getU T x) i k * jacGetU T x k j = if i = j then 1 else 0 := by
  intro i j hi hj
  rw [← wf.LinvL i j hi hj]
  refine Finset.sum_congr rfl (fun k hk => ?_)
  have hk' := Finset.mem_range.mp hk
  unfold jacGetX jacGetU
  rw [C11m_roundtrip_X T wf x hx k hk']
  have := dxdz_ne_zero _ (wf.valid k hk') _ (hx k hk')
  simp only [one_real]
  field_simp

theorem sum_mul_update (n : Nat) (a u : Nat → ℝ) (j : Nat) (hj : j < n) (t : ℝ) :
    ∑ k ∈ range n, a k * Function.update u j t k = ∑ k ∈ range n, a k * u k + a j * (t - u j) := by
  have : ∀ k ∈ range n, a k * Function.update u j t k = a k * u k + (if k = j then a j * (t - u j) else 0) := by
    intro k _
    by_cases h : k = j
    · subst h; simp; ring
    · simp [Function.update_of_ne h, h]
  rw [Finset.sum_congr rfl this, Finset.sum_add_distrib, Finset.sum_ite_eq']
  simp [hj]

/-- **the matrix returned by `getU` is the derivative of `getX`**: entry `(i, j)` of `diag(φ/f) L` at
`x = getX u` is `∂ getX_i / ∂ u_j` -/
theorem C11m_getU_matrix_is_derivative_of_getX (T : Model ℝ) (wf : WF T) (u : Vec ℝ) (i j : Nat) (hi : i < T.dim) (hj : j < T.dim) :
    HasDerivAt (fun t => getX T (Function.update u j t) i) (jacGetU T (getX T u) i j) (u j) := by
  unfold getX jacGetU
  have hlin : HasDerivAt (fun t => mulVec T.dim T.L (Function.update u j t) i) (T.L i j) (u j) := by
    have : (fun t => mulVec T.dim T.L (Function.update u j t) i)
        = fun t => ∑ k ∈ range T.dim, T.L i k * u k + T.L i j * (t - u j) := by
      funext t; rw [mulVec_real]; exact sum_mul_update T.dim (T.L i) u j hj t
    rw [this]
    have h := (((hasDerivAt_id (u j)).sub_const (u j)).const_mul (T.L i j)).const_add
      (∑ k ∈ range T.dim, T.L i k * u k)
    simp only [mul_one, id] at h
    exact h
  have hz : mulVec T.dim T.L (Function.update u j (u j)) i = mulVec T.dim T.L u i := by
    rw [Function.update_eq_self]
  have := (hasDerivAt_ofZ (T.marg i) (wf.valid i hi) (mulVec T.dim T.L (Function.update u j (u j)) i)).comp (u j) hlin
  rw [hz] at this
  exact this

/-- **the matrix returned by `getX` is the derivative of `getU`**: entry `(i, j)` of `L⁻¹ diag(f/φ)` at
`u = getU x` is `∂ getU_i / ∂ x_j` -/
theorem C11m_getX_matrix_is_derivative_of_getU (T : Model ℝ) (wf : WF T) (x : Vec ℝ)
    (hx : ∀ i, i < T.dim → (T.marg i).InSupport (x i)) (i j : Nat) (hi : i < T.dim) (hj : j < T.dim) :
    HasDerivAt (fun t => getU T (Function.update x j t) i) (jacGetX T (getU T x) i j) (x j) := by
  unfold jacGetX
  rw [C11m_roundtrip_X T wf x hx j hj]
  unfold getU
  have hfun : (fun t => mulVec T.dim T.Linv (zOfX T (Function.update x j t)) i)
      = fun t => ∑ k ∈ range T.dim, T.Linv i k * zOfX T x k + T.Linv i j * ((T.marg j).toZ t - zOfX T x j) := by
    funext t
    rw [mulVec_real]
    have : zOfX T (Function.update x j t) = Function.update (zOfX T x) j ((T.marg j).toZ t) := by
      funext k
      unfold zOfX
      by_cases h : k = j
      · subst h; simp
      · simp [Function.update_of_ne h]
    rw [this]
    exact sum_mul_update T.dim (T.Linv i) (zOfX T x) j hj _
  rw [hfun]
  have h1 := hasDerivAt_toZ (T.marg j) (wf.valid j hj) (x j) (hx j hj)
  have := ((h1.sub_const (zOfX T x j)).const_mul (T.Linv i j)).const_add
    (∑ k ∈ range T.dim, T.Linv i k * zOfX T x k)
  simp only [one_real]
  exact this

/-- the model as the constructor builds it (Cholesky factor of the latent matrix, triangular inverse) is
well formed whenever the latent matrix is symmetric with positive pivots and the marginals are admissible -/
theorem C11m_build_wf (n : Nat) (margs : Nat → Marg ℝ) (rhoZ : Mat ℝ)
    (hv : ∀ i, i < n → (margs i).Valid) (hs : ∀ i j, i < n → j < n → rhoZ i j = rhoZ j i)
    (hp : Chol.pivotsOK n rhoZ = true) : WF (build n margs rhoZ) := by
  have h := Chol.chol_triInv n rhoZ hs hp
  unfold build
  simp only [ofArr2_mkArr2]
  exact ⟨hv, h.1, h.2⟩

/-- … and its factor reproduces the latent matrix: `L Lᵀ = rhoZ` -/
theorem C11m_build_factor (n : Nat) (margs : Nat → Marg ℝ) (rhoZ : Mat ℝ)
    (hs : ∀ i j, i < n → j < n → rhoZ i j = rhoZ j i) (hp : Chol.pivotsOK n rhoZ = true) :
    ∀ i j, i < n → j < n →
      ∑ c ∈ range n, (build n margs rhoZ).L i c * (build n margs rhoZ).L j c = rhoZ i j := by
  unfold build
  simp only [ofArr2_mkArr2]
  exact (Chol.chol_spec n rhoZ hs hp).2.2

/-- normal marginals: the latent correlation is the prescribed one -/
theorem C11m_normal_latent (m1 s1 m2 s2 rho : ℝ) : latent (.normal m1 s1) (.normal m2 s2) rho = rho := rfl

/-- lognormal pair: `ρ_Z = ln( 1 + ρ δ₁ δ₂ ) / ( s₁ s₂ )`, `δ = sqrt( exp( s² ) - 1 )`, and this `ρ_Z` gives back `ρ`:
`( exp( ρ_Z s₁ s₂ ) - 1 ) / ( δ₁ δ₂ ) = ρ` whenever `1 + ρ δ₁ δ₂ > 0` -/
theorem C11m_latent_lognormal (m1 s1 m2 s2 rho : ℝ) (h1 : s1 ≠ 0) (h2 : s2 ≠ 0)
    (hpos : 0 < 1 + rho * Real.sqrt (Real.exp (s1 * s1) - 1) * Real.sqrt (Real.exp (s2 * s2) - 1)) :
    let rz := latent (.lognormal m1 s1) (.lognormal m2 s2) rho
    (Real.exp (rz * s1 * s2) - 1) / (Real.sqrt (Real.exp (s1 * s1) - 1) * Real.sqrt (Real.exp (s2 * s2) - 1)) = rho := by
  intro rz
  have hd : ∀ s : ℝ, s ≠ 0 → 0 < Real.sqrt (Real.exp (s * s) - 1) := by
    intro s hs
    apply Real.sqrt_pos.mpr
    have : 0 < s * s := mul_self_pos.mpr hs
    have := Real.add_one_lt_exp (ne_of_gt this)
    linarith
  have e : rz * s1 * s2 = Real.log (1 + rho * Real.sqrt (Real.exp (s1 * s1) - 1) * Real.sqrt (Real.exp (s2 * s2) - 1)) := by
    show latent (.lognormal m1 s1) (.lognormal m2 s2) rho * s1 * s2 = _
    simp only [latent, sqrt_real, exp_real, log_real, one_real]
    field_simp
  rw [e, Real.exp_log hpos, add_sub_cancel_left, mul_assoc, mul_div_assoc,
    div_self (mul_ne_zero (hd s1 h1).ne' (hd s2 h2).ne'), mul_one]

/-- non-vacuity: a two-variable model (normal, lognormal) with `ρ_Z = 1/2` is well formed -/
example : WF (build 2 (fun i => if i = 0 then .normal 1 2 else .lognormal 0 (1 / 2)) (fun i j => if i = j then 1 else 1 / 2)) := by
  apply C11m_build_wf
  · intro i hi
    have : i = 0 ∨ i = 1 := by omega
    rcases this with rfl | rfl <;> simp [Marg.Valid]
  · intro i j _ _
    by_cases h : i = j
    · subst h; rfl
    · simp [h, Ne.symm h]
  · rw [Chol.pivotsOK_iff]
    intro k hk
    have h2 : k = 0 ∨ k = 1 := by omega
    rcases h2 with rfl | rfl
    · simp [Chol.run]
    · simp [Chol.run, Chol.step_real, Chol.column_real]
      norm_num

/-- non-vacuity for the constructor `general`: the composed maps of a normal(1, 2) marginal, given as functions, are admissible -/
example : (Marg.general (fun z : ℝ => 1 + 2 * z) (fun x => (x - 1) / 2) (fun _ => 2) (fun _ => 0)).Valid := by
  refine ⟨fun z => by ring, fun z => ?_, fun _ _ => by norm_num, fun x _ => ?_⟩
  · have h := ((hasDerivAt_id z).const_mul (2 : ℝ)).const_add 1
    simp only [mul_one, id] at h
    exact h
  · have h := ((hasDerivAt_id x).sub_const 1).div_const (2 : ℝ)
    simp only [id] at h
    exact h

end FF.Nataf
