/-
C11 — "a standard-normal U is mapped to variables with exactly the given marginals", on the executable model
(`Model/Nataf.lean`): the law of `X = F⁻¹( Φ( Z ) )` for a standard normal `Z`.

* `C11l_marginal_cdf`: for every marginal of the model with a strictly increasing map `ofZ = F⁻¹ ∘ Φ` and every `x` in its support,
  `P( ofZ( Z ) ≤ x ) = P( Z ≤ toZ( x ) )` — the distribution function of the transformed variable at `x` is `Φ( toZ x )`, and
  `toZ = Φ⁻¹ ∘ F`, so it is `F( x )`;
* `C11l_normal_law`: for a normal marginal the whole law is identified: the image of `N( 0, 1 )` under `z ↦ μ + σ z` is `N( μ, σ² )`;
* `C11l_lognormal_cdf`: for a lognormal marginal `P( X ≤ x ) = P( Z ≤ ( ln x − m ) / s )`, the lognormal distribution function;
* `C11l_latent_cov`: for `Z = L U` with uncorrelated unit-variance `U`, `E[ Z_i Z_j ] = ( L Lᵀ )_ij` (with `C11m_build_factor`,
  `L Lᵀ = rhoZ`: the latent variables have the latent correlation matrix).
-/
import Mathlib.Probability.Distributions.Gaussian.Real
import Mathlib.MeasureTheory.Integral.Bochner.Basic
import FFVerif.Proofs.C11Model
namespace FF.Nataf
open MeasureTheory ProbabilityTheory Set FF.Linalg

/-- the distribution function of the transformed variable -/
theorem C11l_marginal_cdf (m : Marg ℝ) (hv : m.Valid) (hmono : StrictMono m.ofZ) (x : ℝ) (hx : m.InSupport x) :
    ((gaussianReal 0 1).map m.ofZ) (Iic x) = (gaussianReal 0 1) (Iic (m.toZ x)) := by
  rw [Measure.map_apply hmono.monotone.measurable measurableSet_Iic]
  congr 1
  ext z
  simp only [mem_preimage, mem_Iic]
  conv_lhs => rw [← ofZ_toZ m hv x hx]
  exact hmono.le_iff_le

theorem normal_strictMono (mu sigma : ℝ) (hs : 0 < sigma) : StrictMono (Marg.normal mu sigma).ofZ := by
  intro a b hab
  simp only [Marg.ofZ]
  nlinarith

theorem lognormal_strictMono (m s : ℝ) (hs : 0 < s) : StrictMono (Marg.lognormal m s).ofZ := by
  intro a b hab
  simp only [Marg.ofZ, exp_real]
  apply Real.exp_lt_exp.mpr
  nlinarith

/-- normal marginal: the image of `N( 0, 1 )` is `N( μ, σ² )` -/
theorem C11l_normal_law (mu sigma : ℝ) :
    (gaussianReal 0 1).map (Marg.normal mu sigma).ofZ = gaussianReal mu (.mk (sigma ^ 2) (sq_nonneg _)) := by
  have h : (Marg.normal mu sigma).ofZ = (fun y => y + mu) ∘ (fun z => sigma * z) := by
    funext z; simp only [Marg.ofZ, Function.comp]; ring
  have m1 : Measurable (fun y : ℝ => y + mu) := measurable_id.add_const mu
  have m2 : Measurable (fun z : ℝ => sigma * z) := measurable_const.mul measurable_id
  rw [h, ← Measure.map_map m1 m2]
  rw [gaussianReal_map_const_mul, gaussianReal_map_add_const]
  congr 1
  · ring
  · ext; simp

/-- lognormal marginal: `P( X ≤ x ) = P( Z ≤ ( ln x − m ) / s )` for `x > 0` -/
theorem C11l_lognormal_cdf (m s : ℝ) (hs : 0 < s) (x : ℝ) (hx : 0 < x) :
    ((gaussianReal 0 1).map (Marg.lognormal m s).ofZ) (Iic x) = (gaussianReal 0 1) (Iic ((Real.log x - m) / s)) := by
  have := C11l_marginal_cdf (Marg.lognormal m s) (show s ≠ 0 from hs.ne') (lognormal_strictMono m s hs) x hx
  simpa [Marg.toZ, log_real] using this

/-- second moments of the latent variables: `E[ ( L U )_i ( L U )_j ] = ( L Lᵀ )_ij` for uncorrelated unit-variance `U` -/
theorem C11l_latent_cov {Ω : Type*} [MeasurableSpace Ω] (P : Measure Ω) (n : Nat) (L : Mat ℝ) (U : Nat → Ω → ℝ)
    (hint : ∀ k l, Integrable (fun ω => U k ω * U l ω) P)
    (hcov : ∀ k < n, ∀ l < n, ∫ ω, U k ω * U l ω ∂P = if k = l then 1 else 0) (i j : Nat) :
    ∫ ω, mulVec n L (fun k => U k ω) i * mulVec n L (fun k => U k ω) j ∂P = ∑ k ∈ Finset.range n, L i k * L j k := by
  have hexp : ∀ ω, mulVec n L (fun k => U k ω) i * mulVec n L (fun k => U k ω) j =
      ∑ k ∈ Finset.range n, ∑ l ∈ Finset.range n, (L i k * L j l) * (U k ω * U l ω) := by
    intro ω
    rw [mulVec_real, mulVec_real, Finset.sum_mul_sum]
    refine Finset.sum_congr rfl (fun k _ => Finset.sum_congr rfl (fun l _ => by ring))
  simp only [hexp]
  rw [integral_finsetSum _ (fun k _ => integrable_finsetSum _ (fun l _ => (hint k l).const_mul _))]
  refine Finset.sum_congr rfl (fun k hk => ?_)
  rw [integral_finsetSum _ (fun l _ => (hint k l).const_mul _)]
  have : ∀ l ∈ Finset.range n, ∫ ω, L i k * L j l * (U k ω * U l ω) ∂P = if k = l then L i k * L j l else 0 := by
    intro l hl
    rw [integral_const_mul, hcov k (Finset.mem_range.mp hk) l (Finset.mem_range.mp hl)]
    split <;> simp
  rw [Finset.sum_congr rfl this, Finset.sum_ite_eq, if_pos hk]

/-- non-vacuity: `X = 1 + 2 Z` has the law `N( 1, 4 )`, and its distribution function at 3 is `P( Z ≤ 1 )` -/
example : (gaussianReal 0 1).map (Marg.normal 1 2).ofZ = gaussianReal 1 (.mk 4 (by norm_num)) := by
  rw [C11l_normal_law]; congr 1; ext; norm_num
example : ((gaussianReal 0 1).map (Marg.normal 1 2).ofZ) (Iic 3) = (gaussianReal 0 1) (Iic 1) := by
  have := C11l_marginal_cdf (Marg.normal 1 2) (show (2 : ℝ) ≠ 0 by norm_num) (normal_strictMono 1 2 (by norm_num)) 3 trivial
  have e : ((3 : ℝ) - 1) / 2 = 1 := by norm_num
  simpa [Marg.toZ, e] using this

end FF.Nataf
