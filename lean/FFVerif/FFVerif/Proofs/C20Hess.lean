/-
C20 / C12 — the EXECUTABLE model of `hessianMatrix` (`Model/Deriv.lean: hessD`, the gradient stencil applied to the gradient
stencil, compared with the implementation at Float) is exact on quadratic functions, at the reals, for every first-derivative
table regenerated from the source, every evaluation point and every non-zero step:

    f( y ) = c0 + Σ_k b_k y_k + Σ_k Σ_l Q_kl y_k y_l     ⇒     hessD t f i j x dx = Q_ij + Q_ji        ( i, j < d )

(`C20h_hess_quadratic`).  The route: along a coordinate a quadratic is a polynomial of degree ≤ 2 in the displacement, so the
first stage returns the exact partial derivative `b_i + Σ_k ( Q_ik + Q_ki ) y_k` at EVERY point `y` (`C20h_grad_quadratic`);
that is affine in `y`, so the second stage is exact again.  This is the clause "the Hessian of a quadratic form is exact" for the
code-shaped nested stencil (the abstract statement on `Fin d` is `C20_hessian_quadratic`), and it is what the SORM curvature
extraction of C12 relies on for quadratic limit states.
-/
import Mathlib.Algebra.BigOperators.Ring.Finset
import Mathlib.Tactic.Ring
import Mathlib.Tactic.Linarith
import Mathlib.Tactic.SplitIfs
import FFVerif.Proofs.C20Deriv
namespace FF.Deriv
open Polynomial Finset

/-- the point `y` with coordinate `i` replaced by `s` (what `gradient` evaluates) is `y + ( s - y_i ) e_i` -/
theorem upd_eq (y : Nat → ℝ) (i : Nat) (s : ℝ) (k : Nat) :
    (if k = i then s else y k) = y k + (s - y i) * (if k = i then 1 else 0) := by
  by_cases h : k = i
  · subst h; simp
  · simp [h]

/-- stage lemma: if along coordinate `i` through `y` the function is `A + B h + C h²` in the displacement `h = s - y_i`, a
first-derivative stencil of at least three points returns `B` -/
theorem partialD_of_shifted_quadratic (t : Nat × Nat × List Int × Int) (ht : t ∈ Gen.diffTables) (ht1 : t.1 = 1) (hm : 3 ≤ t.2.1)
    (f : (Nat → ℝ) → ℝ) (i : Nat) (y : Nat → ℝ) (A B Cc : ℝ)
    (hf : ∀ s, f (fun k => if k = i then s else y k) = A + B * (s - y i) + Cc * (s - y i) ^ 2) (dx : ℝ) (hdx : dx ≠ 0) :
    partialD t f i y dx = B := by
  let p : ℝ[X] := C A + C B * (X - C (y i)) + C Cc * (X - C (y i)) ^ 2
  have hdeg : p.natDegree < t.2.1 := by
    have h1 : (X - C (y i) : ℝ[X]).natDegree ≤ 1 := natDegree_X_sub_C_le _
    have h2 : ((X - C (y i)) ^ 2 : ℝ[X]).natDegree ≤ 2 := by
      refine (natDegree_pow_le).trans ?_; nlinarith
    have : p.natDegree ≤ 2 := by
      refine (natDegree_add_le _ _).trans (max_le ((natDegree_add_le _ _).trans (max_le ?_ ?_)) ?_)
      · simp
      · exact (natDegree_C_mul_le _ _).trans (h1.trans (by norm_num))
      · exact (natDegree_C_mul_le _ _).trans h2
    omega
  have hp : ∀ s, f (fun k => if k = i then s else y k) = p.eval s := by
    intro s; rw [hf s]; simp [p]
  rw [C20d_partial_exact t ht f i y p hdeg hp dx hdx, ht1]
  simp [p, derivative_pow]

/-- a quadratic function of the first `d` coordinates -/
noncomputable def quad (d : Nat) (c0 : ℝ) (b : Nat → ℝ) (Q : Nat → Nat → ℝ) (y : Nat → ℝ) : ℝ :=
  c0 + ∑ k ∈ range d, b k * y k + ∑ k ∈ range d, ∑ l ∈ range d, Q k l * y k * y l

/-- the exact partial derivative of `quad` with respect to coordinate `i` -/
noncomputable def quadGrad (d : Nat) (b : Nat → ℝ) (Q : Nat → Nat → ℝ) (i : Nat) (y : Nat → ℝ) : ℝ :=
  ∑ k ∈ range d, b k * (if k = i then 1 else 0) +
    ∑ k ∈ range d, ∑ l ∈ range d, Q k l * (y k * (if l = i then 1 else 0) + (if k = i then 1 else 0) * y l)

/-- `quad` along a coordinate: a polynomial of degree two in the displacement -/
theorem quad_along (d : Nat) (c0 : ℝ) (b : Nat → ℝ) (Q : Nat → Nat → ℝ) (i : Nat) (y : Nat → ℝ) (s : ℝ) :
    quad d c0 b Q (fun k => if k = i then s else y k) =
      quad d c0 b Q y + quadGrad d b Q i y * (s - y i) +
        (∑ k ∈ range d, ∑ l ∈ range d, Q k l * ((if k = i then 1 else 0) * (if l = i then 1 else 0))) * (s - y i) ^ 2 := by
  unfold quad quadGrad
  simp only [upd_eq y i s]
  simp only [add_mul, sum_mul, ← sum_add_distrib]
  have e1 : ∀ k, b k * (y k + (s - y i) * (if k = i then (1 : ℝ) else 0)) =
      b k * y k + b k * (if k = i then 1 else 0) * (s - y i) := fun k => by ring
  have e2 : ∀ k l, Q k l * (y k + (s - y i) * (if k = i then (1 : ℝ) else 0)) * (y l + (s - y i) * (if l = i then (1 : ℝ) else 0)) =
      Q k l * y k * y l + Q k l * (y k * (if l = i then 1 else 0) + (if k = i then 1 else 0) * y l) * (s - y i) +
        Q k l * ((if k = i then 1 else 0) * (if l = i then 1 else 0)) * (s - y i) ^ 2 := fun k l => by ring
  simp only [e1, e2, sum_add_distrib]
  ring

/-- **first stage**: the gradient stencil of the model returns the exact partial derivative of a quadratic at every point -/
theorem C20h_grad_quadratic (t : Nat × Nat × List Int × Int) (ht : t ∈ Gen.diffTables) (ht1 : t.1 = 1) (hm : 3 ≤ t.2.1)
    (d : Nat) (c0 : ℝ) (b : Nat → ℝ) (Q : Nat → Nat → ℝ) (i : Nat) (y : Nat → ℝ) (dx : ℝ) (hdx : dx ≠ 0) :
    partialD t (quad d c0 b Q) i y dx = quadGrad d b Q i y :=
  partialD_of_shifted_quadratic t ht ht1 hm _ i y _ _ _ (fun s => quad_along d c0 b Q i y s) dx hdx

/-- the partial derivative in closed form for a coordinate inside the range -/
theorem quadGrad_closed (d : Nat) (b : Nat → ℝ) (Q : Nat → Nat → ℝ) (i : Nat) (hi : i < d) (y : Nat → ℝ) :
    quadGrad d b Q i y = b i + ∑ k ∈ range d, (Q k i + Q i k) * y k := by
  unfold quadGrad
  have h1 : ∑ k ∈ range d, b k * (if k = i then (1 : ℝ) else 0) = b i := by
    simp [mul_ite, sum_ite_eq', hi]
  have h2 : ∑ k ∈ range d, ∑ l ∈ range d, Q k l * (y k * (if l = i then (1 : ℝ) else 0) + (if k = i then 1 else 0) * y l)
      = ∑ k ∈ range d, (Q k i + Q i k) * y k := by
    have : ∀ k ∈ range d, ∑ l ∈ range d, Q k l * (y k * (if l = i then (1 : ℝ) else 0) + (if k = i then 1 else 0) * y l)
        = Q k i * y k + (if k = i then 1 else 0) * ∑ l ∈ range d, Q k l * y l := by
      intro k _
      have : ∀ l, Q k l * (y k * (if l = i then (1 : ℝ) else 0) + (if k = i then 1 else 0) * y l)
          = (if l = i then Q k l * y k else 0) + (if k = i then 1 else 0) * (Q k l * y l) := by
        intro l; split_ifs <;> ring
      simp only [this, sum_add_distrib, ← mul_sum, sum_ite_eq', mem_range, hi, if_true]
    rw [sum_congr rfl this, sum_add_distrib]
    have : ∑ k ∈ range d, (if k = i then (1 : ℝ) else 0) * ∑ l ∈ range d, Q k l * y l = ∑ l ∈ range d, Q i l * y l := by
      simp [ite_mul, sum_ite_eq', hi]
    rw [this, ← sum_add_distrib]
    exact sum_congr rfl (fun k _ => by ring)
  rw [h1, h2]

/-- the gradient of a quadratic along a coordinate: affine in the displacement -/
theorem quadGrad_along (d : Nat) (b : Nat → ℝ) (Q : Nat → Nat → ℝ) (i j : Nat) (x : Nat → ℝ) (s : ℝ) :
    quadGrad d b Q i (fun k => if k = j then s else x k) =
      quadGrad d b Q i x +
        (∑ k ∈ range d, ∑ l ∈ range d, Q k l * ((if k = j then 1 else 0) * (if l = i then 1 else 0) +
          (if k = i then 1 else 0) * (if l = j then 1 else 0))) * (s - x j) + 0 * (s - x j) ^ 2 := by
  unfold quadGrad
  simp only [upd_eq x j s]
  simp only [sum_mul, zero_mul, add_zero]
  have e2 : ∀ k l, Q k l * ((x k + (s - x j) * (if k = j then (1 : ℝ) else 0)) * (if l = i then (1 : ℝ) else 0) +
        (if k = i then (1 : ℝ) else 0) * (x l + (s - x j) * (if l = j then (1 : ℝ) else 0))) =
      Q k l * (x k * (if l = i then 1 else 0) + (if k = i then 1 else 0) * x l) +
        Q k l * ((if k = j then 1 else 0) * (if l = i then 1 else 0) + (if k = i then 1 else 0) * (if l = j then 1 else 0)) * (s - x j) :=
    fun k l => by ring
  simp only [e2, sum_add_distrib]
  ring

theorem hess_entry (d : Nat) (Q : Nat → Nat → ℝ) (i j : Nat) (hi : i < d) (hj : j < d) :
    ∑ k ∈ range d, ∑ l ∈ range d, Q k l * ((if k = j then (1 : ℝ) else 0) * (if l = i then 1 else 0) +
        (if k = i then 1 else 0) * (if l = j then 1 else 0)) = Q j i + Q i j := by
  have : ∀ k ∈ range d, ∑ l ∈ range d, Q k l * ((if k = j then (1 : ℝ) else 0) * (if l = i then 1 else 0) +
        (if k = i then 1 else 0) * (if l = j then 1 else 0)) =
      (if k = j then Q k i else 0) + (if k = i then Q k j else 0) := by
    intro k _
    have : ∀ l, Q k l * ((if k = j then (1 : ℝ) else 0) * (if l = i then 1 else 0) + (if k = i then 1 else 0) * (if l = j then 1 else 0))
        = (if l = i then (if k = j then Q k l else 0) else 0) + (if l = j then (if k = i then Q k l else 0) else 0) := by
      intro l; split_ifs <;> ring
    simp only [this, sum_add_distrib, sum_ite_eq', mem_range, hi, hj, if_true]
  rw [sum_congr rfl this, sum_add_distrib]
  simp [sum_ite_eq', hi, hj]

/-- **the executable Hessian model is exact on quadratics**: entry `( i, j )` is `Q_ij + Q_ji`, at every point, for every non-zero
step and every regenerated first-derivative table with at least three points -/
theorem C20h_hess_quadratic (t : Nat × Nat × List Int × Int) (ht : t ∈ Gen.diffTables) (ht1 : t.1 = 1) (hm : 3 ≤ t.2.1)
    (d : Nat) (c0 : ℝ) (b : Nat → ℝ) (Q : Nat → Nat → ℝ) (i j : Nat) (hi : i < d) (hj : j < d) (x : Nat → ℝ) (dx : ℝ) (hdx : dx ≠ 0) :
    hessD t (quad d c0 b Q) i j x dx = Q i j + Q j i := by
  unfold hessD
  have hg : (fun y => partialD t (quad d c0 b Q) i y dx) = quadGrad d b Q i :=
    funext (fun y => C20h_grad_quadratic t ht ht1 hm d c0 b Q i y dx hdx)
  rw [hg]
  rw [partialD_of_shifted_quadratic t ht ht1 hm (quadGrad d b Q i) j x _ _ 0 (fun s => quadGrad_along d b Q i j x s) dx hdx]
  rw [hess_entry d Q i j hi hj]; ring

/-- the Hessian entries returned by the model are symmetric on quadratics -/
theorem C20h_hess_symm (t : Nat × Nat × List Int × Int) (ht : t ∈ Gen.diffTables) (ht1 : t.1 = 1) (hm : 3 ≤ t.2.1)
    (d : Nat) (c0 : ℝ) (b : Nat → ℝ) (Q : Nat → Nat → ℝ) (i j : Nat) (hi : i < d) (hj : j < d) (x : Nat → ℝ) (dx : ℝ) (hdx : dx ≠ 0) :
    hessD t (quad d c0 b Q) i j x dx = hessD t (quad d c0 b Q) j i x dx := by
  rw [C20h_hess_quadratic t ht ht1 hm d c0 b Q i j hi hj x dx hdx, C20h_hess_quadratic t ht ht1 hm d c0 b Q j i hj hi x dx hdx]
  ring

/-- non-vacuity: `f = 1 + 2 y0 + 3 y0 y1 + 5 y1²` with the three-point table at `( 1, 2 )`, step `1/4`: `H01 = 3`, `H11 = 10` -/
example : hessD (1, 3, [-1, 0, 1], 2)
    (quad 2 1 (fun k => if k = 0 then 2 else 0) (fun k l => if k = 0 ∧ l = 1 then 3 else if k = 1 ∧ l = 1 then 5 else 0))
    0 1 (fun k => if k = 0 then 1 else 2) (1 / 4) = 3 := by
  rw [C20h_hess_quadratic _ (by decide) rfl (by decide) 2 _ _ _ 0 1 (by decide) (by decide) _ _ (by norm_num)]
  norm_num

end FF.Deriv
