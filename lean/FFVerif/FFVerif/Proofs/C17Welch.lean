/-
C17 — the Welch estimate (what `welchSpectrum` delegates to: `scipy.signal.welch( data, fs, nperseg )` with its defaults:
segments of length `L` every `step` samples, the mean of each segment removed, a window `w`, density scaling
`1 / ( fs · Σ w² )`, interior bins doubled, average over the segments), as a mathematical object:

* `C17w_scaling`: scaling the series by `c` scales the estimate by `c²` at every bin;
* `C17w_area_fs_invariance`: its area over the grid `p · fs / L` does not depend on the sampling rate;
* `C17w_nonneg`: it is non-negative (for a positive sampling rate and a window that is not identically zero).
-/
import FFVerif.Proofs.C17
namespace FF
open Finset

/-- segment `s` of length `L` starting at `s · step`, mean removed, window applied -/
noncomputable def welchSeg (L step : ℕ) (w x : ℕ → ℝ) (s : ℕ) : ℕ → ℝ :=
  fun k => w k * (x (s * step + k) - mean L (fun j => x (s * step + j)))

/-- the Welch estimate at bin `p` -/
noncomputable def welch (fs : ℝ) (L step nseg : ℕ) (w x : ℕ → ℝ) (p : ℕ) : ℝ :=
  (if p = 0 ∨ 2 * p = L then 1 else 2) *
    ((∑ s ∈ range nseg, ‖dft L (welchSeg L step w x s) p‖ ^ 2) / nseg) / (fs * ∑ k ∈ range L, w k ^ 2)

/-- its area over the frequency grid `p · fs / L`, `0 ≤ p ≤ L / 2` -/
noncomputable def welchArea (fs : ℝ) (L step nseg : ℕ) (w x : ℕ → ℝ) : ℝ :=
  ∑ p ∈ range (L / 2 + 1), welch fs L step nseg w x p * (fs / L)

theorem welchSeg_scale (L step : ℕ) (w x : ℕ → ℝ) (c : ℝ) (s : ℕ) :
    welchSeg L step w (fun k => c * x k) s = fun k => c * welchSeg L step w x s k := by
  funext k
  unfold welchSeg
  have : mean L (fun j => c * x (s * step + j)) = c * mean L (fun j => x (s * step + j)) := by
    unfold mean; rw [← Finset.mul_sum]; ring
  rw [this]; ring

theorem dft_scale (n : ℕ) (y : ℕ → ℝ) (c : ℝ) (p : ℕ) : dft n (fun k => c * y k) p = (c : ℂ) * dft n y p := by
  unfold dft; rw [Finset.mul_sum]
  refine Finset.sum_congr rfl fun k _ => ?_
  push_cast; ring

/-- the Welch estimate scales with the square of the signal amplitude -/
theorem C17w_scaling (fs : ℝ) (L step nseg : ℕ) (w x : ℕ → ℝ) (c : ℝ) (p : ℕ) :
    welch fs L step nseg w (fun k => c * x k) p = c ^ 2 * welch fs L step nseg w x p := by
  unfold welch
  have : ∑ s ∈ range nseg, ‖dft L (welchSeg L step w (fun k => c * x k) s) p‖ ^ 2
      = c ^ 2 * ∑ s ∈ range nseg, ‖dft L (welchSeg L step w x s) p‖ ^ 2 := by
    rw [Finset.mul_sum]
    refine Finset.sum_congr rfl fun s _ => ?_
    rw [welchSeg_scale, dft_scale, norm_mul, mul_pow, Complex.norm_real, Real.norm_eq_abs, sq_abs]
  rw [this]; ring

/-- … and hence its area -/
theorem C17w_scaling_area (fs : ℝ) (L step nseg : ℕ) (w x : ℕ → ℝ) (c : ℝ) :
    welchArea fs L step nseg w (fun k => c * x k) = c ^ 2 * welchArea fs L step nseg w x := by
  unfold welchArea
  rw [Finset.mul_sum]
  refine Finset.sum_congr rfl fun p _ => ?_
  rw [C17w_scaling]; ring

/-- the area does not depend on the sampling rate -/
theorem C17w_area_fs_invariance (fs fs' : ℝ) (hfs : fs ≠ 0) (hfs' : fs' ≠ 0) (L step nseg : ℕ) (w x : ℕ → ℝ) :
    welchArea fs L step nseg w x = welchArea fs' L step nseg w x := by
  unfold welchArea
  refine Finset.sum_congr rfl fun p _ => ?_
  unfold welch
  by_cases hL : (L : ℝ) = 0
  · simp [hL]
  · by_cases hw : (∑ k ∈ range L, w k ^ 2) = 0
    · simp [hw]
    · field_simp

/-- the estimate is non-negative -/
theorem C17w_nonneg (fs : ℝ) (hfs : 0 < fs) (L step nseg : ℕ) (w x : ℕ → ℝ) (p : ℕ) : 0 ≤ welch fs L step nseg w x p := by
  unfold welch
  have h1 : (0 : ℝ) ≤ (if p = 0 ∨ 2 * p = L then 1 else 2) := by split <;> norm_num
  have h2 : 0 ≤ (∑ s ∈ range nseg, ‖dft L (welchSeg L step w x s) p‖ ^ 2) / nseg :=
    div_nonneg (Finset.sum_nonneg fun s _ => sq_nonneg _) (Nat.cast_nonneg _)
  have h3 : 0 ≤ fs * ∑ k ∈ range L, w k ^ 2 := mul_nonneg hfs.le (Finset.sum_nonneg fun k _ => sq_nonneg _)
  exact div_nonneg (mul_nonneg h1 h2) h3

/-- non-vacuity: with one segment, a rectangular window and `step = 0` the Welch estimate is the one-sided density `psd1` -/
example (fs : ℝ) (n : ℕ) (x : ℕ → ℝ) (p : ℕ) : welch fs n 0 1 (fun _ => 1) x p = psd1 fs n x p := by
  unfold welch psd1 welchSeg demean
  simp

end FF
