/-
C18 — property theorems about the translated wave and wind spectra (`FF.Gen.*`, regenerated from
src/ffpack/lsm/waveSpectra.py and windSpectra.py on every run), at the reals.
-/
import Mathlib.Tactic.Positivity
import Mathlib.Tactic.Ring
import Mathlib.Tactic.NormNum
import Mathlib.Tactic.FieldSimp
import Mathlib.Tactic.Linarith
import Mathlib.Analysis.SpecialFunctions.Log.Basic
import FFVerif.Lemmas.RealScalar
import FFVerif.Gen.Wave
import FFVerif.Gen.Wind
namespace FF
open Gen

/-! ### closed forms -/

theorem issc_closed (w wp Hs : ℝ) :
    isscSpectrum w wp Hs = 5 / 16 * Hs * Hs * (wp / w) ^ 4 / w * Real.exp (-(5 / 4) * (wp / w) ^ 4) := by
  unfold isscSpectrum; simp only [lit_real, npow_real, exp_real, eqb_exp_zero', cond_false]; norm_num

theorem pm_closed (w Uw al be g : ℝ) :
    piersonMoskowitzSpectrum w Uw al be g = al * g * g / w ^ 5 * Real.exp (-be * (g / Uw / w) ^ 4) := by
  unfold piersonMoskowitzSpectrum; simp only [npow_real, exp_real, eqb_exp_lit_zero, cond_false]

theorem gaussian_closed (w wp Hs sg : ℝ) :
    gaussianSwellSpectrum w wp Hs sg =
      Hs * Hs / (16 * sg * (2 * Real.pi) ^ (3 / 2 : ℝ)) * Real.exp (-(((w - wp) / (2 * Real.pi * sg)) ^ 2 / 2)) := by
  unfold gaussianSwellSpectrum; simp only [lit_real, npow_real, exp_real, rpow_real, pi_real]; norm_num

/-- the JONSWAP peak-enhancement exponent -/
noncomputable def jonswapR (w wp : ℝ) : ℝ :=
  Real.exp (-(w - wp) * (w - wp) / (2 * wp * wp * (if w > wp then 9 / 100 else 7 / 100) * (if w > wp then 9 / 100 else 7 / 100)))

theorem jonswap_closed (w wp al be gm g : ℝ) :
    jonswapSpectrum w wp al be gm g =
      al * g * g / w ^ 5 * Real.exp (-be * (wp / w) ^ 4) * gm ^ (jonswapR w wp) := by
  unfold jonswapSpectrum jonswapR
  simp only [lit_real, npow_real, exp_real, rpow_real, eqb_exp_zero', cond_false]
  by_cases h : w > wp
  · have : Transc.gtb w wp = true := by rw [gtb_real]; exact h
    simp only [this, cond_true, if_pos h]; norm_num
  · have : Transc.gtb w wp = false := by rw [← Bool.not_eq_true, gtb_real]; exact h
    simp only [this, cond_false, if_neg h]; norm_num

/-! ### non-negativity on the admissible domain (positive frequency and parameters) -/

theorem sq_form_nonneg (a s : ℝ) (ha : 0 ≤ a) : 0 ≤ a * s * s := by
  rw [mul_assoc]; exact mul_nonneg ha (mul_self_nonneg s)


theorem C18_nonneg_issc (w wp Hs : ℝ) (hw : 0 < w) (hwp : 0 < wp) : 0 ≤ isscSpectrum w wp Hs := by
  rw [issc_closed]
  have := sq_form_nonneg (5 / 16) Hs (by norm_num)
  positivity

theorem C18_nonneg_pm (w Uw al be g : ℝ) (hw : 0 < w) (hal : 0 ≤ al) : 0 ≤ piersonMoskowitzSpectrum w Uw al be g := by
  rw [pm_closed]
  have := sq_form_nonneg al g hal
  positivity

theorem C18_nonneg_gaussian (w wp Hs sg : ℝ) (hsg : 0 < sg) : 0 ≤ gaussianSwellSpectrum w wp Hs sg := by
  rw [gaussian_closed]
  have := mul_self_nonneg Hs
  positivity

theorem C18_nonneg_jonswap (w wp al be gm g : ℝ) (hw : 0 < w) (hal : 0 ≤ al) (hgm : 0 < gm) :
    0 ≤ jonswapSpectrum w wp al be gm g := by
  rw [jonswap_closed]
  have := sq_form_nonneg al g hal
  positivity

theorem C18_nonneg_ochiHubble (w wp1 wp2 Hs1 Hs2 l1 l2 : ℝ) (hw : 0 < w) (h1 : 0 < wp1) (h2 : 0 < wp2)
    (hl1 : 0 < l1) (hl2 : 0 < l2) : 0 ≤ ochiHubbleSpectrum w wp1 wp2 Hs1 Hs2 l1 l2 := by
  unfold ochiHubbleSpectrum
  simp only [lit_real, npow_real, exp_real, rpow_real, gamma_real, eqb_exp_zero', cond_false]
  have g1 := Real.Gamma_pos_of_pos hl1
  have g2 := Real.Gamma_pos_of_pos hl2
  refine div_nonneg (add_nonneg ?_ ?_) (by positivity)
  · refine mul_nonneg (div_nonneg (sq_form_nonneg _ _ ?_) ?_) (Real.exp_pos _).le <;> positivity
  · refine mul_nonneg (div_nonneg (sq_form_nonneg _ _ ?_) ?_) (Real.exp_pos _).le <;> positivity

theorem C18_nonneg_davenport (n d k u z z0 : ℝ) (hn : 0 < n) (hd : 0 < d) (hk : 0 ≤ k) (hu : 0 < u) (hz : 0 < z) :
    0 ≤ davenportDragNorm n d k ∧ 0 ≤ davenportDragDim n d k ∧
    0 ≤ davenportRoughNorm n u z z0 ∧ 0 ≤ davenportRoughDim n u z z0 := by
  refine ⟨?_, ?_, ?_, ?_⟩
  · unfold davenportDragNorm; simp only [lit_real, rpow_real]; positivity
  · unfold davenportDragDim; simp only [lit_real, rpow_real]
    exact div_nonneg (sq_form_nonneg _ _ (by positivity)) hn.le
  · unfold davenportRoughNorm; simp only [lit_real, rpow_real]; positivity
  · unfold davenportRoughDim; simp only [lit_real, rpow_real, log_real]
    exact div_nonneg (sq_form_nonneg _ _ (by positivity)) hn.le

theorem C18_nonneg_ec1 (n uz s z : ℝ) (hn : 0 < n) (hu : 0 < uz) (hz : 0 < z) :
    0 ≤ ec1Norm n uz s z ∧ 0 ≤ ec1Dim0 n uz s z ∧ 0 ≤ ec1Dim1 n uz s z ∧ 0 ≤ ec1Dim2 n uz s z ∧
    0 ≤ ec1Dim3 n uz s z ∧ 0 ≤ ec1Dim4 n uz s z := by
  refine ⟨?_, ?_, ?_, ?_, ?_, ?_⟩
  · unfold ec1Norm; simp only [lit_real, rpow_real]; positivity
  · unfold ec1Dim0; simp only [lit_real, rpow_real, max2_real, log_real]
    exact div_nonneg (sq_form_nonneg _ _ (by positivity)) hn.le
  · unfold ec1Dim1; simp only [lit_real, rpow_real, max2_real, log_real]
    exact div_nonneg (sq_form_nonneg _ _ (by positivity)) hn.le
  · unfold ec1Dim2; simp only [lit_real, rpow_real, max2_real, log_real]
    exact div_nonneg (sq_form_nonneg _ _ (by positivity)) hn.le
  · unfold ec1Dim3; simp only [lit_real, rpow_real, max2_real, log_real]
    exact div_nonneg (sq_form_nonneg _ _ (by positivity)) hn.le
  · unfold ec1Dim4; simp only [lit_real, rpow_real, max2_real, log_real]
    exact div_nonneg (sq_form_nonneg _ _ (by positivity)) hn.le

theorem iec_lambda_pos (z : ℝ) (hz : 0 < z) : 0 < (bif Transc.geb z (Transc.lit 60 0) then (Transc.lit 42 0 : ℝ) else Transc.lit 7 1 * z) := by
  cases Transc.geb z (Transc.lit 60 0) <;> simp only [cond_true, cond_false, lit_real] <;> positivity

theorem C18_nonneg_iec (f v s z : ℝ) (hf : 0 < f) (hv : 0 < v) (hz : 0 < z) :
    0 ≤ iecNorm f v s z ∧ 0 ≤ iecDim1 f v s z ∧ 0 ≤ iecDim2 f v s z ∧ 0 ≤ iecDim3 f v s z := by
  have hl := iec_lambda_pos z hz
  refine ⟨?_, ?_, ?_, ?_⟩
  · unfold iecNorm; simp only [lit_real, rpow_real]; positivity
  · unfold iecDim1; simp only []
    generalize (bif Transc.geb z (Transc.lit 60 0) then (Transc.lit 42 0 : ℝ) else Transc.lit 7 1 * z) = lam at hl
    simp only [lit_real, rpow_real]
    exact div_nonneg (sq_form_nonneg _ _ (by positivity)) hf.le
  · unfold iecDim2; simp only []
    generalize (bif Transc.geb z (Transc.lit 60 0) then (Transc.lit 42 0 : ℝ) else Transc.lit 7 1 * z) = lam at hl
    simp only [lit_real, rpow_real]
    exact div_nonneg (sq_form_nonneg _ _ (by positivity)) hf.le
  · unfold iecDim3; simp only []
    generalize (bif Transc.geb z (Transc.lit 60 0) then (Transc.lit 42 0 : ℝ) else Transc.lit 7 1 * z) = lam at hl
    simp only [lit_real, rpow_real]
    exact div_nonneg (sq_form_nonneg _ _ (by positivity)) hf.le

theorem C18_nonneg_api (f u0 z : ℝ) (hf : 0 < f) (hu : 0 < u0) (hz : 0 < z) : 0 ≤ apiSpectrum f u0 z := by
  unfold apiSpectrum; simp only [lit_real, rpow_real, npow_real]; positivity

/-! ### peaks -/

theorem peak_core (t : ℝ) (ht : 0 < t) : t ^ 5 * Real.exp (-(5 / 4) * t ^ 4) ≤ Real.exp (-(5 / 4)) := by
  have h1 : Real.log (t ^ 4) ≤ t ^ 4 - 1 := Real.log_le_sub_one_of_pos (by positivity)
  rw [Real.log_pow] at h1
  have h5 : t ^ 5 = Real.exp (5 * Real.log t) := by
    have := Real.exp_nat_mul (Real.log t) 5
    rw [Real.exp_log ht] at this
    simpa using this.symm
  rw [h5, ← Real.exp_add]
  apply Real.exp_le_exp.mpr
  push_cast at h1
  linarith

/-- ISSC: the spectrum is maximal at the stated peak frequency -/
theorem C18_issc_peak (w wp Hs : ℝ) (hw : 0 < w) (hwp : 0 < wp) :
    isscSpectrum w wp Hs ≤ isscSpectrum wp wp Hs := by
  rw [issc_closed, issc_closed]
  have ht : 0 < wp / w := div_pos hwp hw
  have key := peak_core (wp / w) ht
  have e1 : 5 / 16 * Hs * Hs * (wp / w) ^ 4 / w * Real.exp (-(5 / 4) * (wp / w) ^ 4)
      = (5 / 16 * Hs * Hs / wp) * ((wp / w) ^ 5 * Real.exp (-(5 / 4) * (wp / w) ^ 4)) := by
    field_simp
  have e2 : 5 / 16 * Hs * Hs * (wp / wp) ^ 4 / wp * Real.exp (-(5 / 4) * (wp / wp) ^ 4)
      = (5 / 16 * Hs * Hs / wp) * Real.exp (-(5 / 4)) := by
    rw [div_self hwp.ne']; ring_nf
  rw [e1, e2]
  apply mul_le_mul_of_nonneg_left key
  have := sq_form_nonneg (5 / 16) Hs (by norm_num)
  positivity

/-- Gaussian swell: maximal at the peak frequency -/
theorem C18_gaussian_peak (w wp Hs sg : ℝ) (hsg : 0 < sg) :
    gaussianSwellSpectrum w wp Hs sg ≤ gaussianSwellSpectrum wp wp Hs sg := by
  rw [gaussian_closed, gaussian_closed]
  have hc : 0 ≤ Hs * Hs / (16 * sg * (2 * Real.pi) ^ (3 / 2 : ℝ)) := by
    have := mul_self_nonneg Hs; positivity
  apply mul_le_mul_of_nonneg_left _ hc
  apply Real.exp_le_exp.mpr
  have : (0 : ℝ) ≤ ((w - wp) / (2 * Real.pi * sg)) ^ 2 / 2 := by positivity
  simp only [sub_self, zero_div]; norm_num; linarith

theorem jonswapR_le_one (w wp : ℝ) : jonswapR w wp ≤ 1 := by
  unfold jonswapR
  rw [← Real.exp_zero]
  apply Real.exp_le_exp.mpr
  have hnum : -(w - wp) * (w - wp) ≤ 0 := by nlinarith [mul_self_nonneg (w - wp)]
  apply div_nonpos_of_nonpos_of_nonneg hnum
  have : ∀ s : ℝ, 0 ≤ 2 * wp * wp * s * s := fun s => by nlinarith [mul_self_nonneg (wp * s)]
  exact this _

theorem jonswapR_pos (w wp : ℝ) : 0 < jonswapR w wp := Real.exp_pos _

theorem jonswapR_peak (wp : ℝ) : jonswapR wp wp = 1 := by
  unfold jonswapR; simp

/-- JONSWAP exceeds its γ = 1 form by the factor γ^r, which lies in [1, γ] and equals γ at the peak -/
theorem C18_jonswap_factor (w wp al be gm g : ℝ) (hgm : 1 ≤ gm) :
    jonswapSpectrum w wp al be gm g = jonswapSpectrum w wp al be 1 g * gm ^ jonswapR w wp ∧
    1 ≤ gm ^ jonswapR w wp ∧ gm ^ jonswapR w wp ≤ gm ∧ gm ^ jonswapR wp wp = gm := by
  refine ⟨?_, ?_, ?_, ?_⟩
  · rw [jonswap_closed, jonswap_closed, Real.one_rpow]; ring
  · exact Real.one_le_rpow hgm (jonswapR_pos w wp).le
  · calc gm ^ jonswapR w wp ≤ gm ^ (1 : ℝ) := Real.rpow_le_rpow_of_exponent_le hgm (jonswapR_le_one w wp)
      _ = gm := Real.rpow_one gm
  · rw [jonswapR_peak, Real.rpow_one]

/-- JONSWAP with its default shape factor β = 5/4 peaks at the stated peak frequency (γ ≥ 1) -/
theorem C18_jonswap_peak (w wp al gm g : ℝ) (hw : 0 < w) (hwp : 0 < wp) (hal : 0 ≤ al) (hgm : 1 ≤ gm) :
    jonswapSpectrum w wp al (5 / 4) gm g ≤ jonswapSpectrum wp wp al (5 / 4) gm g := by
  rw [jonswap_closed, jonswap_closed, jonswapR_peak, Real.rpow_one]
  have ht : 0 < wp / w := div_pos hwp hw
  have key := peak_core (wp / w) ht
  have hf := (C18_jonswap_factor w wp al (5 / 4) gm g hgm).2.2.1
  have hf0 : 0 ≤ gm ^ jonswapR w wp := by positivity
  have hA : 0 ≤ al * g * g / wp ^ 5 := by have := sq_form_nonneg al g hal; positivity
  have e1 : al * g * g / w ^ 5 * Real.exp (-(5 / 4) * (wp / w) ^ 4)
      = (al * g * g / wp ^ 5) * ((wp / w) ^ 5 * Real.exp (-(5 / 4) * (wp / w) ^ 4)) := by
    field_simp
  have e2 : al * g * g / wp ^ 5 * Real.exp (-(5 / 4) * (wp / wp) ^ 4)
      = (al * g * g / wp ^ 5) * Real.exp (-(5 / 4)) := by
    rw [div_self hwp.ne']; ring_nf
  rw [e1, e2]
  calc al * g * g / wp ^ 5 * ((wp / w) ^ 5 * Real.exp (-(5 / 4) * (wp / w) ^ 4)) * gm ^ jonswapR w wp
      ≤ al * g * g / wp ^ 5 * Real.exp (-(5 / 4)) * gm ^ jonswapR w wp := by
        apply mul_le_mul_of_nonneg_right _ hf0
        exact mul_le_mul_of_nonneg_left key hA
    _ ≤ al * g * g / wp ^ 5 * Real.exp (-(5 / 4)) * gm := by
        apply mul_le_mul_of_nonneg_left hf
        positivity

/-! ### normalised vs dimensional wind spectra: normalised(x) = f * S(f) / scale at the reduced frequency -/

theorem C18_davenport_drag_normalised (n d k : ℝ) (hn : n ≠ 0) (hd : d ≠ 0) (hk : k ≠ 0) :
    davenportDragNorm (10 * n / d) d k = n * davenportDragDim n d k / (k * d * d) := by
  unfold davenportDragNorm davenportDragDim
  simp only [lit_real, rpow_real, Nat.cast_ofNat, pow_zero, div_one]
  have e : (120 : ℝ) * (10 * n / d) = 1200 * n / d := by ring
  rw [e]; field_simp

theorem C18_davenport_rough_normalised (n uz z z0 : ℝ) (hn : n ≠ 0) (hu : uz ≠ 0) (hz : z ≠ 0)
    (hl : Real.log (z / z0) ≠ 0) :
    davenportRoughNorm (n * z / uz) uz z z0 =
      n * davenportRoughDim n uz z z0 / ((4 / 10 * uz / Real.log (z / z0)) * (4 / 10 * uz / Real.log (z / z0))) := by
  unfold davenportRoughNorm davenportRoughDim
  simp only [lit_real, rpow_real, log_real, Nat.cast_ofNat, pow_zero, div_one, pow_one]
  have e : (1200 : ℝ) / z * (n * z / uz) = 1200 * n / uz := by field_simp
  rw [e]; field_simp

/-- EN 1991-1-4 turbulence length scale L(z) for the five terrain categories (z0, zmin) -/
noncomputable def ec1Lz (z0 zmin z : ℝ) : ℝ := 300 * (max z zmin / 200) ^ (67 / 100 + 5 / 100 * Real.log z0)

theorem ec1_normalised_aux (R : ℝ → ℝ) (n uz s L : ℝ) (hn : n ≠ 0) (hs : s ≠ 0) :
    R (n * L / uz) = n * (R (n * L / uz) * s * s / n) / (s * s) := by field_simp

theorem C18_ec1_normalised (n uz s z : ℝ) (hn : n ≠ 0) (hs : s ≠ 0) :
    ec1Norm (n * ec1Lz (3 / 1000) 1 z / uz) uz s z = n * ec1Dim0 n uz s z / (s * s) ∧
    ec1Norm (n * ec1Lz (1 / 100) 1 z / uz) uz s z = n * ec1Dim1 n uz s z / (s * s) ∧
    ec1Norm (n * ec1Lz (5 / 100) 2 z / uz) uz s z = n * ec1Dim2 n uz s z / (s * s) ∧
    ec1Norm (n * ec1Lz (3 / 10) 5 z / uz) uz s z = n * ec1Dim3 n uz s z / (s * s) ∧
    ec1Norm (n * ec1Lz 1 10 z / uz) uz s z = n * ec1Dim4 n uz s z / (s * s) := by
  refine ⟨?_, ?_, ?_, ?_, ?_⟩
  · unfold ec1Norm ec1Dim0 ec1Lz
    simp only [lit_real, rpow_real, max2_real, log_real, Nat.cast_ofNat, pow_zero, div_one, pow_one]
    norm_num; field_simp
  · unfold ec1Norm ec1Dim1 ec1Lz
    simp only [lit_real, rpow_real, max2_real, log_real, Nat.cast_ofNat, pow_zero, div_one, pow_one]
    norm_num; field_simp
  · unfold ec1Norm ec1Dim2 ec1Lz
    simp only [lit_real, rpow_real, max2_real, log_real, Nat.cast_ofNat, pow_zero, div_one, pow_one]
    norm_num; field_simp
  · unfold ec1Norm ec1Dim3 ec1Lz
    simp only [lit_real, rpow_real, max2_real, log_real, Nat.cast_ofNat, pow_zero, div_one, pow_one]
    norm_num; field_simp
  · unfold ec1Norm ec1Dim4 ec1Lz
    simp only [lit_real, rpow_real, max2_real, log_real, Nat.cast_ofNat, pow_zero, div_one, pow_one]
    norm_num; field_simp

/-- IEC 61400-1 longitudinal scale parameter Λ1 -/
noncomputable def iecLambda (z : ℝ) : ℝ := if 60 ≤ z then 42 else 7 / 10 * z

theorem iec_lambda_eq (z : ℝ) :
    (bif Transc.geb z (Transc.lit 60 0) then (Transc.lit 42 0 : ℝ) else Transc.lit 7 1 * z) = iecLambda z := by
  unfold iecLambda
  have h60 : (Transc.lit 60 0 : ℝ) = 60 := by simp
  rw [h60]
  by_cases h : (60 : ℝ) ≤ z
  · have : Transc.geb z 60 = true := by rw [geb_real]; exact h
    simp only [this, cond_true, if_pos h]; simp
  · have : Transc.geb z 60 = false := by rw [← Bool.not_eq_true, geb_real]; exact h
    simp only [this, cond_false, if_neg h]; simp

theorem C18_iec_normalised (f v s z : ℝ) (hf : f ≠ 0) (hs : s ≠ 0) :
    iecNorm (f * (81 / 10 * iecLambda z) / v) v s z = f * iecDim1 f v s z / ((1 * s) * (1 * s)) ∧
    iecNorm (f * (27 / 10 * iecLambda z) / v) v s z = f * iecDim2 f v s z / ((8 / 10 * s) * (8 / 10 * s)) ∧
    iecNorm (f * (66 / 100 * iecLambda z) / v) v s z = f * iecDim3 f v s z / ((5 / 10 * s) * (5 / 10 * s)) := by
  refine ⟨?_, ?_, ?_⟩
  · unfold iecNorm iecDim1; simp only []; rw [iec_lambda_eq]
    simp only [lit_real, rpow_real, Nat.cast_ofNat, pow_zero, div_one, pow_one]
    norm_num; field_simp
  · unfold iecNorm iecDim2; simp only []; rw [iec_lambda_eq]
    simp only [lit_real, rpow_real, Nat.cast_ofNat, pow_zero, div_one, pow_one]
    norm_num; field_simp
  · unfold iecNorm iecDim3; simp only []; rw [iec_lambda_eq]
    simp only [lit_real, rpow_real, Nat.cast_ofNat, pow_zero, div_one, pow_one]
    norm_num; field_simp

end FF
