/-
C14 — detailed balance of the transition kernels INDUCED by one step of the two samplers
(`mhStep`, `auStep` of Model/Sampler.lean, rule theorems in Proofs/C14.lean) on finite state spaces.

One step of the plain sampler: from `x`, draw `y` from a symmetric proposal `q x ·`, draw a
uniform `u`, move to `y` iff `u ≤ π y / π x` and `y` passes the domain test.  For `0 < π x` the
probability of the event `u ≤ π y / π x` is `min 1 (π y / π x)`, so the probability of moving from
`x` to `y ≠ x` is `q x y * min 1 (π y / π x) * [D y]`, and the remaining mass stays at `x`.

One step of the component-wise (Au–Beck) sampler: the same rule per coordinate with marginal
targets `π i` and per-coordinate symmetric proposals `q i`, independently, then ONE domain test on
the assembled candidate.

Part A: `C14_detailed_balance`, `C14_rows_sum_one`, `C14_kernel_nonneg`, `C14_stationary`.
Part B: `C14_au_coordinate_balance`, `C14_au_product_balance`, `C14_au_detailed_balance`
(plus the row-sum facts `auCoordKernel_rows_sum_one`, `auProdKernel_rows_sum_one`,
`auKernel_rows_sum_one`).
-/
import Mathlib.Data.Real.Basic
import Mathlib.Data.Fintype.BigOperators
import Mathlib.Algebra.BigOperators.Group.Finset.Basic
import Mathlib.Algebra.BigOperators.Ring.Finset
import Mathlib.Algebra.Order.BigOperators.Group.Finset
import Mathlib.Data.Fin.VecNotation
import Mathlib.Algebra.BigOperators.Fin
import Mathlib.Tactic.Ring
import Mathlib.Tactic.FieldSimp
import Mathlib.Tactic.Linarith
import Mathlib.Tactic.Positivity
import Mathlib.Tactic.NormNum
import Mathlib.Tactic.FinCases

namespace FF
open Finset

/-! ### The key algebra -/

/-- for a positive current density `a`, `a * min 1 (b / a) = min a b` -/
theorem mul_min_one_div {a : ℝ} (b : ℝ) (ha : 0 < a) : a * min 1 (b / a) = min a b := by
  rcases le_total a b with h | h
  · have h1 : 1 ≤ b / a := by
      rw [le_div_iff₀ ha, one_mul]; exact h
    rw [min_eq_left h1, min_eq_left h, mul_one]
  · have h1 : b / a ≤ 1 := by
      rw [div_le_iff₀ ha, one_mul]; exact h
    rw [min_eq_right h1, min_eq_right h]
    field_simp

/-- the symmetric form: `a * min 1 (b / a) = b * min 1 (a / b)` for positive `a b` -/
theorem mul_min_one_div_symm {a b : ℝ} (ha : 0 < a) (hb : 0 < b) :
    a * min 1 (b / a) = b * min 1 (a / b) := by
  rw [mul_min_one_div b ha, mul_min_one_div a hb, min_comm]

/-- the acceptance probability is in `[0, 1]` -/
theorem min_one_div_nonneg {a b : ℝ} (ha : 0 < a) (hb : 0 ≤ b) : 0 ≤ min 1 (b / a) :=
  le_min zero_le_one (div_nonneg hb ha.le)

theorem min_one_div_le_one (a b : ℝ) : min 1 (b / a) ≤ 1 := min_le_left _ _

/-! ### A kernel from off-diagonal weights -/

/-- the transition kernel whose off-diagonal entries are the weights `w x y` and whose diagonal
entry carries the remaining mass -/
noncomputable def offDiagKernel {S : Type*} [Fintype S] [DecidableEq S] (w : S → S → ℝ)
    (x y : S) : ℝ :=
  if y = x then 1 - ∑ z ∈ univ.erase x, w x z else w x y

theorem offDiagKernel_rows_sum_one {S : Type*} [Fintype S] [DecidableEq S] (w : S → S → ℝ)
    (x : S) : ∑ y, offDiagKernel w x y = 1 := by
  have hsplit : ∑ y, offDiagKernel w x y
      = offDiagKernel w x x + ∑ y ∈ univ.erase x, offDiagKernel w x y :=
    (Finset.add_sum_erase univ (fun y => offDiagKernel w x y) (mem_univ x)).symm
  have hdiag : offDiagKernel w x x = 1 - ∑ z ∈ univ.erase x, w x z := by
    unfold offDiagKernel; rw [if_pos rfl]
  have hoff : ∑ y ∈ univ.erase x, offDiagKernel w x y = ∑ y ∈ univ.erase x, w x y := by
    refine Finset.sum_congr rfl ?_
    intro y hy
    have hne : y ≠ x := (Finset.mem_erase.mp hy).1
    unfold offDiagKernel; rw [if_neg hne]
  rw [hsplit, hdiag, hoff]; ring

theorem offDiagKernel_of_ne {S : Type*} [Fintype S] [DecidableEq S] (w : S → S → ℝ)
    {x y : S} (h : y ≠ x) : offDiagKernel w x y = w x y := by
  unfold offDiagKernel; rw [if_neg h]

/-- detailed balance of the off-diagonal weights gives detailed balance of the kernel -/
theorem offDiagKernel_balance {S : Type*} [Fintype S] [DecidableEq S] (w : S → S → ℝ)
    (μ : S → ℝ) (x y : S) (h : y ≠ x → μ x * w x y = μ y * w y x) :
    μ x * offDiagKernel w x y = μ y * offDiagKernel w y x := by
  by_cases hxy : y = x
  · subst hxy; rfl
  · have hyx : x ≠ y := fun e => hxy e.symm
    rw [offDiagKernel_of_ne w hxy, offDiagKernel_of_ne w hyx]
    exact h hxy

/-! ### Part A — the plain sampler -/

section PartA
variable {S : Type*} [Fintype S] [DecidableEq S]

/-- probability of moving from `x` to `y ≠ x`: propose `y`, accept the draw, pass the domain test -/
noncomputable def mhWeight (q : S → S → ℝ) (π : S → ℝ) (D : S → Prop) [DecidablePred D]
    (x y : S) : ℝ :=
  q x y * min 1 (π y / π x) * (if D y then 1 else 0)

/-- the transition kernel induced by one step of the plain sampler -/
noncomputable def mhKernel (q : S → S → ℝ) (π : S → ℝ) (D : S → Prop) [DecidablePred D]
    (x y : S) : ℝ :=
  if y = x then 1 - ∑ z ∈ univ.erase x, q x z * min 1 (π z / π x) * (if D z then 1 else 0)
  else q x y * min 1 (π y / π x) * (if D y then 1 else 0)

theorem mhKernel_eq_offDiag (q : S → S → ℝ) (π : S → ℝ) (D : S → Prop) [DecidablePred D]
    (x y : S) : mhKernel q π D x y = offDiagKernel (mhWeight q π D) x y := rfl

/-- (A1) detailed balance with respect to the target restricted to the domain -/
theorem C14_detailed_balance (q : S → S → ℝ) (π : S → ℝ) (D : S → Prop) [DecidablePred D]
    (hsymm : ∀ x y, q x y = q y x) (x y : S) (hx : 0 < π x) (hy : 0 < π y)
    (hDx : D x) (hDy : D y) :
    π x * mhKernel q π D x y = π y * mhKernel q π D y x := by
  rw [mhKernel_eq_offDiag, mhKernel_eq_offDiag]
  apply offDiagKernel_balance
  intro _
  unfold mhWeight
  rw [if_pos hDx, if_pos hDy, mul_one, mul_one]
  have hkey : π x * min 1 (π y / π x) = π y * min 1 (π x / π y) := mul_min_one_div_symm hx hy
  calc π x * (q x y * min 1 (π y / π x))
      = q x y * (π x * min 1 (π y / π x)) := by ring
    _ = q x y * (π y * min 1 (π x / π y)) := by rw [hkey]
    _ = π y * (q y x * min 1 (π x / π y)) := by rw [hsymm x y]; ring

/-- (A2) each row sums to one -/
theorem C14_rows_sum_one (q : S → S → ℝ) (π : S → ℝ) (D : S → Prop) [DecidablePred D] (x : S) :
    ∑ y, mhKernel q π D x y = 1 := by
  have h : ∀ y, mhKernel q π D x y = offDiagKernel (mhWeight q π D) x y :=
    fun y => mhKernel_eq_offDiag q π D x y
  rw [Finset.sum_congr rfl (fun y _ => h y)]
  exact offDiagKernel_rows_sum_one _ x

omit [Fintype S] [DecidableEq S] in
theorem mhWeight_nonneg (q : S → S → ℝ) (π : S → ℝ) (D : S → Prop) [DecidablePred D]
    (hq : ∀ x y, 0 ≤ q x y) (hπ : ∀ x, 0 ≤ π x) (x y : S) (hx : 0 < π x) :
    0 ≤ mhWeight q π D x y := by
  unfold mhWeight
  have h1 : 0 ≤ min 1 (π y / π x) := min_one_div_nonneg hx (hπ y)
  have h2 : (0 : ℝ) ≤ (if D y then 1 else 0) := by
    by_cases hD : D y
    · rw [if_pos hD]; exact zero_le_one
    · rw [if_neg hD]
  exact mul_nonneg (mul_nonneg (hq x y) h1) h2

omit [Fintype S] [DecidableEq S] in
theorem mhWeight_le_proposal (q : S → S → ℝ) (π : S → ℝ) (D : S → Prop) [DecidablePred D]
    (hq : ∀ x y, 0 ≤ q x y) (x y : S) :
    mhWeight q π D x y ≤ q x y := by
  unfold mhWeight
  have h1 : min 1 (π y / π x) ≤ 1 := min_one_div_le_one _ _
  by_cases hD : D y
  · rw [if_pos hD, mul_one]
    calc q x y * min 1 (π y / π x) ≤ q x y * 1 := mul_le_mul_of_nonneg_left h1 (hq x y)
      _ = q x y := mul_one _
  · rw [if_neg hD, mul_zero]; exact hq x y

/-- (A3) entries are non-negative: with (A2) each row is a probability vector -/
theorem C14_kernel_nonneg (q : S → S → ℝ) (π : S → ℝ) (D : S → Prop) [DecidablePred D]
    (hq : ∀ x y, 0 ≤ q x y) (hrow : ∀ x, ∑ y, q x y = 1) (hπ : ∀ x, 0 ≤ π x)
    (x y : S) (hx : 0 < π x) :
    0 ≤ mhKernel q π D x y := by
  rw [mhKernel_eq_offDiag]
  by_cases hxy : y = x
  · subst hxy
    unfold offDiagKernel
    rw [if_pos rfl]
    have h1 : ∑ z ∈ univ.erase y, mhWeight q π D y z ≤ ∑ z ∈ univ.erase y, q y z :=
      Finset.sum_le_sum (fun z _ => mhWeight_le_proposal q π D hq y z)
    have h2 : ∑ z ∈ univ.erase y, q y z ≤ ∑ z, q y z :=
      Finset.sum_le_sum_of_subset_of_nonneg (Finset.erase_subset _ _) (fun z _ _ => hq y z)
    have h3 := hrow y
    linarith
  · rw [offDiagKernel_of_ne _ hxy]
    exact mhWeight_nonneg q π D hq hπ x y hx

/-- from any state the chain never moves to a state outside the domain -/
theorem mhKernel_eq_zero_of_not_domain (q : S → S → ℝ) (π : S → ℝ) (D : S → Prop)
    [DecidablePred D] (x z : S) (hz : ¬ D z) (hne : z ≠ x) : mhKernel q π D x z = 0 := by
  rw [mhKernel_eq_offDiag, offDiagKernel_of_ne _ hne]
  unfold mhWeight
  rw [if_neg hz, mul_zero]

/-- (A4) the target restricted to the domain is stationary -/
theorem C14_stationary (q : S → S → ℝ) (π : S → ℝ) (D : S → Prop) [DecidablePred D]
    (hsymm : ∀ x y, q x y = q y x) (hpos : ∀ x, D x → 0 < π x)
    (y : S) (hDy : D y) :
    ∑ x ∈ univ.filter D, π x * mhKernel q π D x y = π y := by
  have hy : 0 < π y := hpos y hDy
  have h1 : ∑ x ∈ univ.filter D, π x * mhKernel q π D x y
      = ∑ x ∈ univ.filter D, π y * mhKernel q π D y x := by
    refine Finset.sum_congr rfl ?_
    intro x hx
    have hDx : D x := (Finset.mem_filter.mp hx).2
    exact C14_detailed_balance q π D hsymm x y (hpos x hDx) hy hDx hDy
  have h2 : ∑ x ∈ univ.filter D, mhKernel q π D y x = ∑ x, mhKernel q π D y x := by
    refine Finset.sum_subset (Finset.filter_subset _ _) ?_
    intro x _ hx
    have hDx : ¬ D x := fun h => hx (Finset.mem_filter.mpr ⟨mem_univ x, h⟩)
    have hne : x ≠ y := fun e => hDx (e ▸ hDy)
    exact mhKernel_eq_zero_of_not_domain q π D y x hDx hne
  rw [h1, ← Finset.mul_sum, h2, C14_rows_sum_one, mul_one]

end PartA

/-! ### Part B — the component-wise sampler with a product target -/

section PartB
variable {ι : Type*} [Fintype ι] [DecidableEq ι] {S : ι → Type*}
  [∀ i, Fintype (S i)] [∀ i, DecidableEq (S i)]

/-- per-coordinate kernel: the accept/reject rule on coordinate `i` (no domain test) -/
noncomputable def auCoordKernel (q : ∀ i, S i → S i → ℝ) (π : ∀ i, S i → ℝ) (i : ι)
    (a b : S i) : ℝ :=
  if b = a then 1 - ∑ c ∈ univ.erase a, q i a c * min 1 (π i c / π i a)
  else q i a b * min 1 (π i b / π i a)

/-- the kernel of the assembled candidate: coordinates are updated independently -/
noncomputable def auProdKernel (q : ∀ i, S i → S i → ℝ) (π : ∀ i, S i → ℝ)
    (x y : ∀ i, S i) : ℝ :=
  ∏ i, auCoordKernel q π i (x i) (y i)

/-- the product target -/
noncomputable def auTarget (π : ∀ i, S i → ℝ) (x : ∀ i, S i) : ℝ := ∏ i, π i (x i)

/-- the transition kernel induced by one step of the component-wise sampler: one domain test on
the assembled candidate -/
noncomputable def auKernel (q : ∀ i, S i → S i → ℝ) (π : ∀ i, S i → ℝ)
    (D : (∀ i, S i) → Prop) [DecidablePred D] (x y : ∀ i, S i) : ℝ :=
  if y = x then 1 - ∑ z ∈ univ.erase x, auProdKernel q π x z * (if D z then 1 else 0)
  else auProdKernel q π x y * (if D y then 1 else 0)

omit [Fintype ι] [DecidableEq ι] in
theorem auCoordKernel_eq_offDiag (q : ∀ i, S i → S i → ℝ) (π : ∀ i, S i → ℝ) (i : ι)
    (a b : S i) :
    auCoordKernel q π i a b
      = offDiagKernel (fun a b => q i a b * min 1 (π i b / π i a)) a b := rfl

theorem auKernel_eq_offDiag (q : ∀ i, S i → S i → ℝ) (π : ∀ i, S i → ℝ)
    (D : (∀ i, S i) → Prop) [DecidablePred D] (x y : ∀ i, S i) :
    auKernel q π D x y
      = offDiagKernel (fun x y => auProdKernel q π x y * (if D y then 1 else 0)) x y := rfl

omit [Fintype ι] [DecidableEq ι] in
/-- (B1) each per-coordinate kernel is in detailed balance with its marginal target -/
theorem C14_au_coordinate_balance (q : ∀ i, S i → S i → ℝ) (π : ∀ i, S i → ℝ)
    (hsymm : ∀ i a b, q i a b = q i b a) (hpos : ∀ i a, 0 < π i a) (i : ι) (a b : S i) :
    π i a * auCoordKernel q π i a b = π i b * auCoordKernel q π i b a := by
  rw [auCoordKernel_eq_offDiag, auCoordKernel_eq_offDiag]
  apply offDiagKernel_balance
  intro _
  have hkey : π i a * min 1 (π i b / π i a) = π i b * min 1 (π i a / π i b) :=
    mul_min_one_div_symm (hpos i a) (hpos i b)
  calc π i a * (q i a b * min 1 (π i b / π i a))
      = q i a b * (π i a * min 1 (π i b / π i a)) := by ring
    _ = q i a b * (π i b * min 1 (π i a / π i b)) := by rw [hkey]
    _ = π i b * (q i b a * min 1 (π i a / π i b)) := by rw [hsymm i a b]; ring

omit [DecidableEq ι] in
/-- (B2) the product kernel is in detailed balance with the product target -/
theorem C14_au_product_balance (q : ∀ i, S i → S i → ℝ) (π : ∀ i, S i → ℝ)
    (hsymm : ∀ i a b, q i a b = q i b a) (hpos : ∀ i a, 0 < π i a) (x y : ∀ i, S i) :
    auTarget π x * auProdKernel q π x y = auTarget π y * auProdKernel q π y x := by
  unfold auTarget auProdKernel
  rw [← Finset.prod_mul_distrib, ← Finset.prod_mul_distrib]
  refine Finset.prod_congr rfl ?_
  intro i _
  exact C14_au_coordinate_balance q π hsymm hpos i (x i) (y i)

/-- (B3) with the single domain test on the assembled candidate, the induced kernel is in detailed
balance with the product target restricted to the domain -/
theorem C14_au_detailed_balance (q : ∀ i, S i → S i → ℝ) (π : ∀ i, S i → ℝ)
    (D : (∀ i, S i) → Prop) [DecidablePred D]
    (hsymm : ∀ i a b, q i a b = q i b a) (hpos : ∀ i a, 0 < π i a) (x y : ∀ i, S i)
    (hDx : D x) (hDy : D y) :
    auTarget π x * auKernel q π D x y = auTarget π y * auKernel q π D y x := by
  rw [auKernel_eq_offDiag, auKernel_eq_offDiag]
  apply offDiagKernel_balance
  intro _
  show auTarget π x * (auProdKernel q π x y * (if D y then 1 else 0))
    = auTarget π y * (auProdKernel q π y x * (if D x then 1 else 0))
  rw [if_pos hDx, if_pos hDy, mul_one, mul_one]
  exact C14_au_product_balance q π hsymm hpos x y

omit [Fintype ι] [DecidableEq ι] in
/-- each per-coordinate kernel row sums to one -/
theorem auCoordKernel_rows_sum_one (q : ∀ i, S i → S i → ℝ) (π : ∀ i, S i → ℝ) (i : ι)
    (a : S i) : ∑ b, auCoordKernel q π i a b = 1 := by
  rw [Finset.sum_congr rfl (fun b _ => auCoordKernel_eq_offDiag q π i a b)]
  exact offDiagKernel_rows_sum_one _ a

/-- each row of the product kernel sums to one -/
theorem auProdKernel_rows_sum_one (q : ∀ i, S i → S i → ℝ) (π : ∀ i, S i → ℝ)
    (x : ∀ i, S i) : ∑ y, auProdKernel q π x y = 1 := by
  unfold auProdKernel
  have h := Finset.prod_univ_sum (fun i => (univ : Finset (S i)))
    (fun i b => auCoordKernel q π i (x i) b)
  rw [Fintype.piFinset_univ] at h
  rw [← h]
  refine Finset.prod_eq_one ?_
  intro i _
  exact auCoordKernel_rows_sum_one q π i (x i)

/-- each row of the component-wise sampler's kernel sums to one -/
theorem auKernel_rows_sum_one (q : ∀ i, S i → S i → ℝ) (π : ∀ i, S i → ℝ)
    (D : (∀ i, S i) → Prop) [DecidablePred D] (x : ∀ i, S i) :
    ∑ y, auKernel q π D x y = 1 := by
  rw [Finset.sum_congr rfl (fun y _ => auKernel_eq_offDiag q π D x y)]
  exact offDiagKernel_rows_sum_one _ x

end PartB

/-! ### Non-vacuity: a concrete three-state instance -/

section Example

/-- uniform proposal over three states -/
noncomputable def exQ : Fin 3 → Fin 3 → ℝ := fun _ _ => 1 / 3
/-- unnormalised target `1 : 2 : 4` -/
noncomputable def exPi : Fin 3 → ℝ := ![1, 2, 4]
/-- domain: the first two states -/
def exD : Fin 3 → Prop := fun s => s ≠ 2
instance : DecidablePred exD := fun s => inferInstanceAs (Decidable (s ≠ 2))

theorem exPi_pos : ∀ x, 0 < exPi x := by
  intro x; fin_cases x <;> simp [exPi]

/-- the hypotheses of Part A hold for the instance -/
example :
    (∀ x y, exQ x y = exQ y x) ∧ (∀ x y, 0 ≤ exQ x y) ∧ (∀ x, ∑ y, exQ x y = 1) ∧
    (∀ x, 0 ≤ exPi x) ∧ (∀ x, exD x → 0 < exPi x) ∧ exD 0 ∧ exD 1 ∧ ¬ exD 2 := by
  refine ⟨fun _ _ => rfl, ?_, ?_, fun x => (exPi_pos x).le, fun x _ => exPi_pos x, ?_, ?_, ?_⟩
  · intro x y; unfold exQ; norm_num
  · intro x; unfold exQ; norm_num [Fin.sum_univ_succ]
  · unfold exD; decide
  · unfold exD; decide
  · unfold exD; decide

/-- so the theorems apply: balance between the two states of the domain, unit row sums, and
stationarity of the restricted target -/
example : exPi 0 * mhKernel exQ exPi exD 0 1 = exPi 1 * mhKernel exQ exPi exD 1 0 :=
  C14_detailed_balance exQ exPi exD (fun _ _ => rfl) 0 1 (exPi_pos 0) (exPi_pos 1)
    (by unfold exD; decide) (by unfold exD; decide)

example : ∑ x ∈ univ.filter exD, exPi x * mhKernel exQ exPi exD x 1 = exPi 1 :=
  C14_stationary exQ exPi exD (fun _ _ => rfl) (fun x _ => exPi_pos x) 1 (by unfold exD; decide)

/-- the off-diagonal entries are genuinely non-zero: `K 0 1 = 1/3`, `K 1 0 = 1/6`, and the two
sides of the balance equation are both `1/3` -/
example : mhKernel exQ exPi exD 0 1 = 1 / 3 ∧ mhKernel exQ exPi exD 1 0 = 1 / 6 := by
  constructor
  · have h : (1 : Fin 3) ≠ 0 := by decide
    have hD : exD 1 := by unfold exD; decide
    unfold mhKernel
    rw [if_neg h, if_pos hD]
    simp [exQ, exPi]
  · have h : (0 : Fin 3) ≠ 1 := by decide
    have hD : exD 0 := by unfold exD; decide
    unfold mhKernel
    rw [if_neg h, if_pos hD]
    have hm : min (1 : ℝ) 2⁻¹ = 2⁻¹ := min_eq_right (by norm_num)
    simp [exQ, exPi]
    rw [hm]
    norm_num

/-- the move out of the domain is blocked: `K 0 2 = 0` although the proposal and the density ratio
are positive -/
example : mhKernel exQ exPi exD 0 2 = 0 :=
  mhKernel_eq_zero_of_not_domain exQ exPi exD 0 2 (by unfold exD; decide) (by decide)

/-- Part B applies too: two coordinates, each with the three-state proposal and target above, and
a domain test on the assembled vector -/
example (D : (Fin 2 → Fin 3) → Prop) [DecidablePred D] (x y : Fin 2 → Fin 3) (hx : D x)
    (hy : D y) :
    auTarget (fun _ => exPi) x * auKernel (fun _ => exQ) (fun _ => exPi) D x y
      = auTarget (fun _ => exPi) y * auKernel (fun _ => exQ) (fun _ => exPi) D y x :=
  C14_au_detailed_balance (S := fun _ : Fin 2 => Fin 3) (fun _ => exQ) (fun _ => exPi) D
    (fun _ _ _ => rfl) (fun _ a => exPi_pos a) x y hx hy

end Example

end FF
