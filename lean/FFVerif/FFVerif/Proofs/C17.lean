import FFVerif.Model.Spectral
