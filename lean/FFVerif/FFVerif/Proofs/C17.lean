/-
C17 — spectral synthesis and estimation conserve energy.
`Spectral.ampAt`, `Spectral.synth`, `Spectral.pick` are the code-shaped generic-scalar models; here at ℝ.
-/
import Mathlib.Tactic.Ring
import Mathlib.Tactic.Linarith
import Mathlib.Tactic.Positivity
import Mathlib.Tactic.FieldSimp
import Mathlib.Tactic.LinearCombination
import Mathlib.Tactic.NormNum
import Mathlib.Tactic.Push
import Mathlib.Algebra.BigOperators.Group.List.Basic
import Mathlib.Algebra.Order.BigOperators.Group.List
import Mathlib.Algebra.BigOperators.Intervals
import Mathlib.Algebra.Field.GeomSum
import Mathlib.Analysis.SpecialFunctions.Trigonometric.Basic
import Mathlib.Analysis.SpecialFunctions.Complex.Log
import Mathlib.Analysis.Complex.Trigonometric
import Mathlib.Analysis.Complex.Norm
import FFVerif.Lemmas.RealScalar
import FFVerif.Model.Spectral
namespace FF
open Finset

/-! ## 1–3: the synthesiser is a finite sine series at the times `j / fs` -/

theorem spectral_zero : (Spectral.zero : ℝ) = 0 := by simp [Spectral.zero]
theorem spectral_two : (Spectral.two : ℝ) = 2 := by simp [Spectral.two]

/-- the accumulation loop is the sum of the component sinusoids -/
theorem ampAt_eq_sum (comps : List (ℝ × ℝ × ℝ)) (bw t : ℝ) :
    Spectral.ampAt comps bw t =
      (comps.map (fun c => Real.sqrt (2 * c.2.1 * bw) * Real.sin (2 * Real.pi * c.1 * t + c.2.2))).sum := by
  unfold Spectral.ampAt
  simp only [spectral_zero, spectral_two, sqrt_real, sin_real, pi_real]
  have : ∀ (l : List (ℝ × ℝ × ℝ)) (acc : ℝ),
      l.foldl (fun acc c => acc + Real.sqrt (2 * c.2.1 * bw) *
        Real.sin (2 * Real.pi * c.1 * t + c.2.2)) acc =
      acc + (l.map (fun c => Real.sqrt (2 * c.2.1 * bw) *
        Real.sin (2 * Real.pi * c.1 * t + c.2.2))).sum := by
    intro l; induction l with
    | nil => intro acc; simp
    | cons x l ih =>
      intro acc
      simp only [List.foldl_cons, List.map_cons, List.sum_cons, ih]
      ring
  rw [this]; simp

theorem C17_length (fs bw : ℝ) (next : ℕ) (comps : List (ℝ × ℝ × ℝ)) (js : List ℝ) :
    (Spectral.synth fs bw next comps js).length = js.length := by
  simp [Spectral.synth]

/-- the `k`-th sample is the series of the picked components at the time `js[k] / fs` -/
theorem C17_entry (fs bw : ℝ) (next : ℕ) (comps : List (ℝ × ℝ × ℝ)) (js : List ℝ) (k : ℕ)
    (hk : k < js.length) :
    (Spectral.synth fs bw next comps js)[k]'(by rw [C17_length]; exact hk) =
      Spectral.ampAt (Spectral.pick next comps 0) bw (1 / fs * js[k]) := by
  simp [Spectral.synth]

/-- with the sample indices `0, 1, …, n-1` the times are `k / fs` -/
theorem C17_entry_range (fs bw : ℝ) (next : ℕ) (comps : List (ℝ × ℝ × ℝ)) (n k : ℕ) (hk : k < n) :
    (Spectral.synth fs bw next comps ((List.range n).map (fun j : ℕ => (j : ℝ))))[k]'(by
        rw [C17_length]; simpa using hk) =
      Spectral.ampAt (Spectral.pick next comps 0) bw ((k : ℝ) / fs) := by
  simp [Spectral.synth]
  congr 1; ring

/-- the series never exceeds the sum of its component amplitudes -/
theorem C17_bound (comps : List (ℝ × ℝ × ℝ)) (bw t : ℝ) :
    |Spectral.ampAt comps bw t| ≤ (comps.map (fun c => Real.sqrt (2 * c.2.1 * bw))).sum := by
  rw [ampAt_eq_sum]
  induction comps with
  | nil => simp
  | cons c l ih =>
    simp only [List.map_cons, List.sum_cons]
    refine (abs_add_le _ _).trans (add_le_add ?_ ih)
    rw [abs_mul, abs_of_nonneg (Real.sqrt_nonneg _)]
    calc Real.sqrt (2 * c.2.1 * bw) * |Real.sin (2 * Real.pi * c.1 * t + c.2.2)|
        ≤ Real.sqrt (2 * c.2.1 * bw) * 1 :=
          mul_le_mul_of_nonneg_left (Real.abs_sin_le_one _) (Real.sqrt_nonneg _)
      _ = _ := mul_one _

/-! ## roots of unity -/

open Complex in
/-- the geometric sum of an `n`-th root of unity: `n` on multiples of `n`, `0` otherwise -/
theorem expsum (n : ℕ) (hn : 0 < n) (p : ℤ) :
    ∑ k ∈ range n, Complex.exp (2 * Real.pi * I * p * k / n) =
      if (n : ℤ) ∣ p then (n : ℂ) else 0 := by
  have hn0 : (n : ℂ) ≠ 0 := by exact_mod_cast hn.ne'
  set ζ : ℂ := Complex.exp (2 * Real.pi * I * p / n) with hζ
  have hpow : ∀ k : ℕ, Complex.exp (2 * Real.pi * I * p * k / n) = ζ ^ k := by
    intro k
    rw [hζ, ← Complex.exp_nat_mul]; congr 1; ring
  simp only [hpow]
  split_ifs with hdiv
  · obtain ⟨q, rfl⟩ := hdiv
    have : ζ = 1 := by
      rw [hζ]
      have : 2 * Real.pi * I * ((n * q : ℤ) : ℂ) / n = q * (2 * Real.pi * I) := by
        push_cast; field_simp
      rw [this, Complex.exp_int_mul_two_pi_mul_I]
    simp [this]
  · have hne : ζ ≠ 1 := by
      intro h
      rw [hζ, Complex.exp_eq_one_iff] at h
      obtain ⟨q, hq⟩ := h
      apply hdiv
      refine ⟨q, ?_⟩
      have h2 : (2 * Real.pi * I : ℂ) ≠ 0 := by
        simp [Real.pi_ne_zero, Complex.I_ne_zero]
      have : (p : ℂ) = n * q := by
        field_simp at hq
        exact hq
      exact_mod_cast this
    have hone : ζ ^ n = 1 := by
      rw [hζ, ← Complex.exp_nat_mul]
      have : (n : ℂ) * (2 * Real.pi * I * p / n) = p * (2 * Real.pi * I) := by field_simp
      rw [this, Complex.exp_int_mul_two_pi_mul_I]
    rw [geom_sum_eq hne, hone]; simp

/-- `∑_{k<n} cos(2π p k / n + θ)` vanishes unless `n ∣ p` -/
theorem cossum (n : ℕ) (hn : 0 < n) (p : ℤ) (θ : ℝ) :
    ∑ k ∈ range n, Real.cos (2 * Real.pi * p * k / n + θ) =
      if (n : ℤ) ∣ p then (n : ℝ) * Real.cos θ else 0 := by
  have h1 : ∀ k : ℕ, Real.cos (2 * Real.pi * p * k / n + θ) =
      (Complex.exp (θ * Complex.I) * Complex.exp (2 * Real.pi * Complex.I * p * k / n)).re := by
    intro k
    rw [← Complex.exp_ofReal_mul_I_re, ← Complex.exp_add]
    congr 2; push_cast; ring
  simp only [h1]
  rw [← Complex.re_sum, ← Finset.mul_sum, expsum n hn p]
  split_ifs
  · rw [← Complex.ofReal_natCast, Complex.re_mul_ofReal, Complex.exp_ofReal_mul_I_re, mul_comm]
  · simp

/-- product of two sampled sinusoids with integer bin numbers, summed over one record -/
theorem sinsin_sum (n : ℕ) (hn : 0 < n) (p q : ℤ) (α β : ℝ) :
    ∑ k ∈ range n, Real.sin (2 * Real.pi * p * k / n + α) * Real.sin (2 * Real.pi * q * k / n + β) =
      ((if (n : ℤ) ∣ p - q then (n : ℝ) * Real.cos (α - β) else 0) -
        (if (n : ℤ) ∣ p + q then (n : ℝ) * Real.cos (α + β) else 0)) / 2 := by
  rw [← cossum n hn (p - q) (α - β), ← cossum n hn (p + q) (α + β), ← Finset.sum_sub_distrib,
    Finset.sum_div]
  refine Finset.sum_congr rfl fun k _ => ?_
  have e1 : 2 * Real.pi * ((p - q : ℤ) : ℝ) * k / n + (α - β) =
      (2 * Real.pi * p * k / n + α) - (2 * Real.pi * q * k / n + β) := by push_cast; ring
  have e2 : 2 * Real.pi * ((p + q : ℤ) : ℝ) * k / n + (α + β) =
      (2 * Real.pi * p * k / n + α) + (2 * Real.pi * q * k / n + β) := by push_cast; ring
  rw [e1, e2]
  generalize 2 * Real.pi * (p : ℝ) * k / n + α = A
  generalize 2 * Real.pi * (q : ℝ) * k / n + β = B
  rw [Real.cos_sub, Real.cos_add]; ring

/-- two bins strictly between DC and Nyquist: the sum frequency is never a multiple of `n` -/
theorem not_dvd_add {n a b : ℕ} (ha : 0 < a) (ha' : 2 * a < n) (hb' : 2 * b < n) :
    ¬ (n : ℤ) ∣ (a : ℤ) + (b : ℤ) := by
  intro h
  have h' : (n : ℤ) ∣ ((a + b : ℕ) : ℤ) := by exact_mod_cast h
  rw [Int.natCast_dvd_natCast] at h'
  have := Nat.le_of_dvd (by omega) h'
  omega

/-- … and the difference frequency only when the bins coincide -/
theorem dvd_sub_iff {n a b : ℕ} (ha' : 2 * a < n) (hb' : 2 * b < n) :
    (n : ℤ) ∣ (a : ℤ) - (b : ℤ) ↔ a = b := by
  constructor
  · intro h
    by_contra hne
    have h0 : (a : ℤ) - b ≠ 0 := by omega
    have := Int.le_of_dvd (abs_pos.mpr h0) ((dvd_abs _ _).mpr h)
    have hlt : |(a : ℤ) - b| < n := abs_lt.mpr ⟨by omega, by omega⟩
    omega
  · rintro rfl; simp

/-! ## 4: orthogonality / energy -/

section energy
variable {ι : Type*} [Fintype ι]

/-- the series of item 4 at sample `k` of a record of `n` -/
noncomputable def binSeries (n : ℕ) (m : ι → ℕ) (a φ : ι → ℝ) (k : ℕ) : ℝ :=
  ∑ i, a i * Real.sin (2 * Real.pi * (m i) * k / n + φ i)

theorem C17_mean_square (n : ℕ) (hn : 0 < n) (m : ι → ℕ) (a φ : ι → ℝ)
    (hm0 : ∀ i, 0 < m i) (hmN : ∀ i, 2 * m i < n) (hinj : Function.Injective m) :
    (1 / (n : ℝ)) * ∑ k ∈ range n,
        (∑ i, a i * Real.sin (2 * Real.pi * (m i) * k / n + φ i)) ^ 2 =
      ∑ i, (a i) ^ 2 / 2 := by
  classical
  have hn0 : (n : ℝ) ≠ 0 := by exact_mod_cast hn.ne'
  have hpair : ∀ i j, ∑ k ∈ range n,
      (a i * Real.sin (2 * Real.pi * (m i) * k / n + φ i)) *
        (a j * Real.sin (2 * Real.pi * (m j) * k / n + φ j)) =
      if i = j then (n : ℝ) * ((a i) ^ 2 / 2) else 0 := by
    intro i j
    have := sinsin_sum n hn (m i) (m j) (φ i) (φ j)
    simp only [Int.cast_natCast] at this
    have hadd : ¬ (n : ℤ) ∣ (m i : ℤ) + (m j : ℤ) := not_dvd_add (hm0 i) (hmN i) (hmN j)
    have hsub : (n : ℤ) ∣ (m i : ℤ) - (m j : ℤ) ↔ i = j :=
      (dvd_sub_iff (hmN i) (hmN j)).trans hinj.eq_iff
    calc _ = a i * a j * ∑ k ∈ range n, Real.sin (2 * Real.pi * (m i) * k / n + φ i) *
          Real.sin (2 * Real.pi * (m j) * k / n + φ j) := by
          rw [Finset.mul_sum]; exact Finset.sum_congr rfl fun k _ => by ring
      _ = _ := by
          rw [this, if_neg hadd]
          by_cases hij : i = j
          · subst hij; simp; ring
          · rw [if_neg (mt hsub.mp hij), if_neg hij]; ring
  have hsq : ∀ k : ℕ, (∑ i, a i * Real.sin (2 * Real.pi * (m i) * k / n + φ i)) ^ 2 =
      ∑ i, ∑ j, (a i * Real.sin (2 * Real.pi * (m i) * k / n + φ i)) *
        (a j * Real.sin (2 * Real.pi * (m j) * k / n + φ j)) := by
    intro k; rw [sq, Finset.sum_mul_sum]
  simp only [hsq]
  rw [Finset.sum_comm]
  have : ∀ i, ∑ k ∈ range n, ∑ j, (a i * Real.sin (2 * Real.pi * (m i) * k / n + φ i)) *
        (a j * Real.sin (2 * Real.pi * (m j) * k / n + φ j)) = (n : ℝ) * ((a i) ^ 2 / 2) := by
    intro i
    rw [Finset.sum_comm]
    simp only [hpair, Finset.sum_ite_eq, Finset.mem_univ, if_true]
  simp only [this]
  rw [← Finset.mul_sum, ← mul_assoc, one_div, inv_mul_cancel₀ hn0, one_mul]

/-- with the synthesiser's amplitudes `√(2 S_i bw)` the mean square is the spectrum's energy `Σ S_i bw` -/
theorem C17_mean_square_spectrum (n : ℕ) (hn : 0 < n) (m : ι → ℕ) (S φ : ι → ℝ) (bw : ℝ)
    (hS : ∀ i, 0 ≤ S i) (hbw : 0 ≤ bw)
    (hm0 : ∀ i, 0 < m i) (hmN : ∀ i, 2 * m i < n) (hinj : Function.Injective m) :
    (1 / (n : ℝ)) * ∑ k ∈ range n,
        (∑ i, Real.sqrt (2 * S i * bw) * Real.sin (2 * Real.pi * (m i) * k / n + φ i)) ^ 2 =
      ∑ i, S i * bw := by
  rw [C17_mean_square n hn m (fun i => Real.sqrt (2 * S i * bw)) φ hm0 hmN hinj]
  refine Finset.sum_congr rfl fun i _ => ?_
  rw [Real.sq_sqrt (by have := hS i; positivity)]; ring

/-- the same for the synthesiser itself: components `(m_i, S_i, φ_i)` at the frequencies
`m_i · fs / n`, sampled at the times `k / fs` -/
theorem C17_mean_square_synth (fs bw : ℝ) (hfs : fs ≠ 0) (hbw : 0 ≤ bw) (n : ℕ) (hn : 0 < n)
    (l : List (ℕ × ℝ × ℝ)) (hS : ∀ c ∈ l, 0 ≤ c.2.1) (hm0 : ∀ c ∈ l, 0 < c.1)
    (hmN : ∀ c ∈ l, 2 * c.1 < n) (hnodup : (l.map Prod.fst).Nodup) :
    (1 / (n : ℝ)) * ∑ k ∈ range n,
      (Spectral.ampAt (l.map fun c => ((c.1 : ℝ) * fs / n, c.2.1, c.2.2)) bw ((k : ℝ) / fs)) ^ 2 =
      (l.map fun c => c.2.1 * bw).sum := by
  have hn0 : (n : ℝ) ≠ 0 := by exact_mod_cast hn.ne'
  have hamp : ∀ k : ℕ,
      Spectral.ampAt (l.map fun c => ((c.1 : ℝ) * fs / n, c.2.1, c.2.2)) bw ((k : ℝ) / fs) =
      ∑ i : Fin l.length, Real.sqrt (2 * l[i.1].2.1 * bw) *
        Real.sin (2 * Real.pi * (l[i.1].1 : ℕ) * k / n + l[i.1].2.2) := by
    intro k
    rw [ampAt_eq_sum, List.map_map, ← Fin.sum_univ_fun_getElem]
    refine Finset.sum_congr rfl fun i _ => ?_
    simp only [Function.comp]
    congr 2; field_simp
  simp only [hamp]
  rw [C17_mean_square_spectrum n hn (fun i : Fin l.length => l[i.1].1) (fun i => l[i.1].2.1)
    (fun i => l[i.1].2.2) bw (fun i => hS _ (List.getElem_mem _)) hbw
    (fun i => hm0 _ (List.getElem_mem _)) (fun i => hmN _ (List.getElem_mem _)) ?_,
    Fin.sum_univ_fun_getElem l (fun c => c.2.1 * bw)]
  intro i j hij
  apply Fin.ext
  have hi : i.1 < (l.map Prod.fst).length := by simp
  have hj : j.1 < (l.map Prod.fst).length := by simp
  refine (hnodup.getElem_inj_iff (hi := hi) (hj := hj)).mp ?_
  simpa using hij

end energy

/-- non-vacuity: `n = 8`, one component in bin `1` -/
example (a φ : ℝ) :
    (1 / ((8 : ℕ) : ℝ)) * ∑ k ∈ range 8,
        (∑ _i : Unit, a * Real.sin (2 * Real.pi * ((1 : ℕ) : ℝ) * k / (8 : ℕ) + φ)) ^ 2 =
      ∑ _i : Unit, a ^ 2 / 2 :=
  C17_mean_square 8 (by norm_num) (fun _ : Unit => 1) (fun _ => a) (fun _ => φ)
    (fun _ => by norm_num) (fun _ => by norm_num) (fun _ _ _ => rfl)

/-! ## 5: the periodogram at the component bins -/

/-- DFT coefficient `X_p = Σ_{k<n} x_k e^{-2πi p k / n}` -/
noncomputable def dft (n : ℕ) (x : ℕ → ℝ) (p : ℕ) : ℂ :=
  ∑ k ∈ range n, (x k : ℂ) * Complex.exp (-2 * Real.pi * Complex.I * p * k / n)

/-- one-sided periodogram density at an interior bin (`0 < p`, `2 p < n`), sampling rate `fs` -/
noncomputable def pgram (fs : ℝ) (n : ℕ) (x : ℕ → ℝ) (p : ℕ) : ℝ :=
  2 * ‖dft n x p‖ ^ 2 / (fs * n)

theorem dft_term (n : ℕ) (y : ℝ) (p k : ℕ) :
    (y : ℂ) * Complex.exp (-2 * Real.pi * Complex.I * p * k / n) =
      ((y * Real.cos (2 * Real.pi * p * k / n) : ℝ) : ℂ) +
        ((-(y * Real.sin (2 * Real.pi * p * k / n)) : ℝ) : ℂ) * Complex.I := by
  have : (-2 * Real.pi * Complex.I * p * k / n : ℂ) = ((-(2 * Real.pi * p * k / n) : ℝ) : ℂ) * Complex.I := by
    push_cast; ring
  rw [this, Complex.exp_mul_I, ← Complex.ofReal_cos, ← Complex.ofReal_sin, Real.cos_neg, Real.sin_neg]
  push_cast; ring

theorem dft_re (n : ℕ) (x : ℕ → ℝ) (p : ℕ) :
    (dft n x p).re = ∑ k ∈ range n, x k * Real.cos (2 * Real.pi * p * k / n) := by
  unfold dft
  rw [Complex.re_sum]
  refine Finset.sum_congr rfl fun k _ => ?_
  rw [dft_term]
  simp only [Complex.add_re, Complex.ofReal_re, Complex.mul_re, Complex.ofReal_im, Complex.I_re,
    Complex.I_im, mul_zero, zero_mul, sub_zero, add_zero]

theorem dft_im (n : ℕ) (x : ℕ → ℝ) (p : ℕ) :
    (dft n x p).im = -∑ k ∈ range n, x k * Real.sin (2 * Real.pi * p * k / n) := by
  unfold dft
  rw [Complex.im_sum, ← Finset.sum_neg_distrib]
  refine Finset.sum_congr rfl fun k _ => ?_
  rw [dft_term]
  simp only [Complex.add_im, Complex.ofReal_re, Complex.mul_im, Complex.ofReal_im, Complex.I_re,
    Complex.I_im, mul_zero, mul_one, zero_add, add_zero]

theorem dft_norm_sq (n : ℕ) (x : ℕ → ℝ) (p : ℕ) :
    ‖dft n x p‖ ^ 2 = (∑ k ∈ range n, x k * Real.cos (2 * Real.pi * p * k / n)) ^ 2 +
      (∑ k ∈ range n, x k * Real.sin (2 * Real.pi * p * k / n)) ^ 2 := by
  rw [Complex.sq_norm, Complex.normSq_apply, dft_re, dft_im]; ring

section bins
variable {ι : Type*} [Fintype ι]

/-- projection of the series on a sinusoid of bin `m j` with arbitrary phase `β` -/
theorem bin_proj (n : ℕ) (hn : 0 < n) (m : ι → ℕ) (a φ : ι → ℝ)
    (hm0 : ∀ i, 0 < m i) (hmN : ∀ i, 2 * m i < n) (hinj : Function.Injective m) (j : ι) (β : ℝ) :
    ∑ k ∈ range n, binSeries n m a φ k * Real.sin (2 * Real.pi * (m j) * k / n + β) =
      n * a j * Real.cos (φ j - β) / 2 := by
  classical
  unfold binSeries
  simp only [Finset.sum_mul]
  rw [Finset.sum_comm]
  have : ∀ i, ∑ k ∈ range n, a i * Real.sin (2 * Real.pi * (m i) * k / n + φ i) *
      Real.sin (2 * Real.pi * (m j) * k / n + β) =
      if i = j then (n : ℝ) * a j * Real.cos (φ j - β) / 2 else 0 := by
    intro i
    have := sinsin_sum n hn (m i) (m j) (φ i) β
    simp only [Int.cast_natCast] at this
    have hadd : ¬ (n : ℤ) ∣ (m i : ℤ) + (m j : ℤ) := not_dvd_add (hm0 i) (hmN i) (hmN j)
    have hsub : (n : ℤ) ∣ (m i : ℤ) - (m j : ℤ) ↔ i = j :=
      (dvd_sub_iff (hmN i) (hmN j)).trans hinj.eq_iff
    calc _ = a i * ∑ k ∈ range n, Real.sin (2 * Real.pi * (m i) * k / n + φ i) *
          Real.sin (2 * Real.pi * (m j) * k / n + β) := by
          rw [Finset.mul_sum]; exact Finset.sum_congr rfl fun k _ => by ring
      _ = _ := by
          rw [this, if_neg hadd]
          by_cases hij : i = j
          · subst hij; simp; ring
          · rw [if_neg (mt hsub.mp hij), if_neg hij]; ring
  simp only [this, Finset.sum_ite_eq', Finset.mem_univ, if_true]

/-- the DFT of the series at a component bin has modulus `n a_j / 2` -/
theorem C17_dft_bin (n : ℕ) (hn : 0 < n) (m : ι → ℕ) (a φ : ι → ℝ)
    (hm0 : ∀ i, 0 < m i) (hmN : ∀ i, 2 * m i < n) (hinj : Function.Injective m) (j : ι) :
    ‖dft n (binSeries n m a φ) (m j)‖ ^ 2 = (n * a j / 2) ^ 2 := by
  have hs := bin_proj n hn m a φ hm0 hmN hinj j 0
  have hc := bin_proj n hn m a φ hm0 hmN hinj j (Real.pi / 2)
  simp only [add_zero, sub_zero] at hs
  simp only [Real.sin_add_pi_div_two, Real.cos_sub_pi_div_two] at hc
  rw [dft_norm_sq, hs, hc]
  have := Real.sin_sq_add_cos_sq (φ j)
  linear_combination ((n : ℝ) * a j / 2) ^ 2 * this

/-- periodogram density at a component bin times the bin width `fs / n` is the component's energy -/
theorem C17_periodogram_bin (fs : ℝ) (hfs : 0 < fs) (n : ℕ) (hn : 0 < n) (m : ι → ℕ) (a φ : ι → ℝ)
    (hm0 : ∀ i, 0 < m i) (hmN : ∀ i, 2 * m i < n) (hinj : Function.Injective m) (j : ι) :
    pgram fs n (binSeries n m a φ) (m j) * (fs / n) = (a j) ^ 2 / 2 := by
  have hn0 : (n : ℝ) ≠ 0 := by exact_mod_cast hn.ne'
  unfold pgram
  rw [C17_dft_bin n hn m a φ hm0 hmN hinj j]
  field_simp

/-- with the synthesiser's amplitudes: `P(m_j) · fs/n = S_j · bw`; in particular `P(m_j) = S_j`
when the bandwidth is the bin width -/
theorem C17_periodogram_bin_spectrum (fs : ℝ) (hfs : 0 < fs) (n : ℕ) (hn : 0 < n) (m : ι → ℕ)
    (S φ : ι → ℝ) (bw : ℝ) (hS : ∀ i, 0 ≤ S i) (hbw : 0 ≤ bw)
    (hm0 : ∀ i, 0 < m i) (hmN : ∀ i, 2 * m i < n) (hinj : Function.Injective m) (j : ι) :
    pgram fs n (binSeries n m (fun i => Real.sqrt (2 * S i * bw)) φ) (m j) * (fs / n) = S j * bw ∧
    (bw = fs / n → pgram fs n (binSeries n m (fun i => Real.sqrt (2 * S i * bw)) φ) (m j) = S j) := by
  have hn0 : (0 : ℝ) < n := by exact_mod_cast hn
  have h := C17_periodogram_bin fs hfs n hn m (fun i => Real.sqrt (2 * S i * bw)) φ hm0 hmN hinj j
  rw [Real.sq_sqrt (by have := hS j; positivity)] at h
  have h' : pgram fs n (binSeries n m (fun i => Real.sqrt (2 * S i * bw)) φ) (m j) * (fs / n) =
      S j * bw := by rw [h]; ring
  refine ⟨h', fun hb => ?_⟩
  have hpos : 0 < fs / n := div_pos hfs hn0
  subst hb
  exact mul_right_cancel₀ hpos.ne' h'

end bins

/-- non-vacuity: `n = 8`, two components in bins `1` and `3`, periodogram at bin `3` -/
example (fs : ℝ) (hfs : 0 < fs) (a φ : Fin 2 → ℝ) :
    pgram fs 8 (binSeries 8 (fun i : Fin 2 => 2 * i.1 + 1) a φ) 3 * (fs / (8 : ℕ)) = (a 1) ^ 2 / 2 :=
  C17_periodogram_bin fs hfs 8 (by norm_num) (fun i : Fin 2 => 2 * i.1 + 1) a φ
    (fun i => by omega) (fun i => by omega) (fun i j h => by apply Fin.ext; simpa using h) 1

/-! ## 6: Parseval for the mean-removed periodogram -/

theorem dvd_sub_iff_lt {n a b : ℕ} (ha : a < n) (hb : b < n) :
    (n : ℤ) ∣ (a : ℤ) - (b : ℤ) ↔ a = b := by
  constructor
  · intro h
    by_contra hne
    have h0 : (a : ℤ) - b ≠ 0 := by omega
    have := Int.le_of_dvd (abs_pos.mpr h0) ((dvd_abs _ _).mpr h)
    have hlt : |(a : ℤ) - b| < n := abs_lt.mpr ⟨by omega, by omega⟩
    omega
  · rintro rfl; simp

/-- Parseval for the length-`n` DFT of a real series -/
theorem parseval (n : ℕ) (hn : 0 < n) (x : ℕ → ℝ) :
    ∑ p ∈ range n, ‖dft n x p‖ ^ 2 = n * ∑ k ∈ range n, (x k) ^ 2 := by
  have h1 : ∀ p : ℕ, ‖dft n x p‖ ^ 2 = ∑ k ∈ range n, ∑ l ∈ range n,
      x k * x l * Real.cos (2 * Real.pi * (((k : ℤ) - (l : ℤ) : ℤ) : ℝ) * p / n + 0) := by
    intro p
    rw [dft_norm_sq, sq, sq, Finset.sum_mul_sum, Finset.sum_mul_sum, ← Finset.sum_add_distrib]
    refine Finset.sum_congr rfl fun k _ => ?_
    rw [← Finset.sum_add_distrib]
    refine Finset.sum_congr rfl fun l _ => ?_
    have : 2 * Real.pi * (((k : ℤ) - (l : ℤ) : ℤ) : ℝ) * p / n + 0 =
        2 * Real.pi * p * k / n - 2 * Real.pi * p * l / n := by push_cast; ring
    rw [this, Real.cos_sub]; ring
  simp only [h1]
  rw [Finset.sum_comm, Finset.mul_sum]
  refine Finset.sum_congr rfl fun k hk => ?_
  rw [Finset.sum_comm]
  have h2 : ∀ l ∈ range n, ∑ p ∈ range n,
      x k * x l * Real.cos (2 * Real.pi * (((k : ℤ) - (l : ℤ) : ℤ) : ℝ) * p / n + 0) =
      if k = l then (n : ℝ) * (x k) ^ 2 else 0 := by
    intro l hl
    have hd := dvd_sub_iff_lt (mem_range.mp hk) (mem_range.mp hl)
    rw [← Finset.mul_sum, cossum n hn _ 0]
    by_cases h : k = l
    · rw [if_pos (hd.mpr h), if_pos h]; subst h; rw [Real.cos_zero]; ring
    · rw [if_neg (mt hd.mp h), if_neg h, mul_zero]
  rw [Finset.sum_congr rfl h2, Finset.sum_ite_eq, if_pos hk]

/-- sample mean of the first `n` terms -/
noncomputable def mean (n : ℕ) (x : ℕ → ℝ) : ℝ := (∑ k ∈ range n, x k) / n
/-- the mean-removed series -/
noncomputable def demean (n : ℕ) (x : ℕ → ℝ) : ℕ → ℝ := fun k => x k - mean n x
/-- population variance -/
noncomputable def variance (n : ℕ) (x : ℕ → ℝ) : ℝ := (1 / (n : ℝ)) * ∑ k ∈ range n, (x k - mean n x) ^ 2

/-- one-sided density of the mean-removed series on the bins `0 ≤ p ≤ n/2`: interior bins doubled,
DC and (for even `n`) Nyquist not -/
noncomputable def psd1 (fs : ℝ) (n : ℕ) (x : ℕ → ℝ) (p : ℕ) : ℝ :=
  (if p = 0 ∨ 2 * p = n then 1 else 2) * ‖dft n (demean n x) p‖ ^ 2 / (fs * n)

/-- area of the one-sided density over the frequency grid `p · fs / n`, `0 ≤ p ≤ n/2` -/
noncomputable def psdArea (fs : ℝ) (n : ℕ) (x : ℕ → ℝ) : ℝ :=
  ∑ p ∈ range (n / 2 + 1), psd1 fs n x p * (fs / n)

/-- on interior bins `psd1` is the periodogram `pgram` of item 5 of the mean-removed series -/
theorem psd1_interior (fs : ℝ) (n : ℕ) (x : ℕ → ℝ) (p : ℕ) (hp : 0 < p) (hpn : 2 * p < n) :
    psd1 fs n x p = pgram fs n (demean n x) p := by
  unfold psd1 pgram
  rw [if_neg (by omega)]

theorem C17_parseval (n : ℕ) (hn : 2 ≤ n) (x : ℕ → ℝ) :
    ∑ p ∈ range n, ‖dft n (demean n x) p‖ ^ 2 = n * ∑ k ∈ range n, (x k - mean n x) ^ 2 :=
  parseval n (by omega) (demean n x)

/-- the DC coefficient of the mean-removed series vanishes -/
theorem C17_dc_zero (n : ℕ) (hn : 0 < n) (x : ℕ → ℝ) : dft n (demean n x) 0 = 0 := by
  have hn0 : (n : ℝ) ≠ 0 := by exact_mod_cast hn.ne'
  have : ‖dft n (demean n x) 0‖ ^ 2 = 0 := by
    rw [dft_norm_sq]
    simp only [Nat.cast_zero, mul_zero, zero_mul, zero_div, Real.cos_zero, Real.sin_zero, mul_one,
      Finset.sum_const_zero]
    unfold demean mean
    rw [Finset.sum_sub_distrib, Finset.sum_const, card_range, nsmul_eq_mul]
    field_simp
    ring
  simpa using this

/-- conjugate symmetry of the DFT of a real series, in modulus -/
theorem dft_reflect (n : ℕ) (x : ℕ → ℝ) (p : ℕ) (hp : p ≤ n) (hn : 0 < n) :
    ‖dft n x (n - p)‖ ^ 2 = ‖dft n x p‖ ^ 2 := by
  have hn0 : (n : ℝ) ≠ 0 := by exact_mod_cast hn.ne'
  have harg : ∀ k : ℕ, 2 * Real.pi * ((n - p : ℕ) : ℝ) * k / n =
      (k : ℝ) * (2 * Real.pi) - 2 * Real.pi * p * k / n := by
    intro k; rw [Nat.cast_sub hp]; field_simp
  rw [dft_norm_sq, dft_norm_sq]
  simp only [harg, Real.cos_nat_mul_two_pi_sub, Real.sin_nat_mul_two_pi_sub, mul_neg,
    Finset.sum_neg_distrib, neg_sq]

/-- folding a symmetric two-sided sum onto the bins `0 … n/2` -/
theorem fold_sum (n : ℕ) (hn : 0 < n) (f : ℕ → ℝ) (hsymm : ∀ p, 0 < p → p < n → f (n - p) = f p) :
    ∑ p ∈ range (n / 2 + 1), (if p = 0 ∨ 2 * p = n then 1 else 2) * f p = ∑ p ∈ range n, f p := by
  have hset : range (n / 2 + 1) = (range n).filter (fun p => 2 * p ≤ n) := by
    ext p; simp only [mem_range, mem_filter]; omega
  have hB : ∑ p ∈ (range n).filter (fun p => ¬ 2 * p ≤ n), f p =
      ∑ p ∈ (range n).filter (fun p => 0 < p ∧ 2 * p < n), f p := by
    refine Finset.sum_nbij' (fun p => n - p) (fun p => n - p) ?_ ?_ ?_ ?_ ?_
    · intro p hp; simp only [mem_filter, mem_range] at hp ⊢; omega
    · intro p hp; simp only [mem_filter, mem_range] at hp ⊢; omega
    · intro p hp; simp only [mem_filter, mem_range] at hp ⊢; omega
    · intro p hp; simp only [mem_filter, mem_range] at hp ⊢; omega
    · intro p hp; simp only [mem_filter, mem_range] at hp
      have := hsymm (n - p) (by omega) (by omega)
      rw [← this]; congr 1; omega
  rw [← Finset.sum_filter_add_sum_filter_not (range n) (fun p => 2 * p ≤ n) f, hB, hset,
    Finset.sum_filter, Finset.sum_filter, Finset.sum_filter, ← Finset.sum_add_distrib]
  refine Finset.sum_congr rfl fun p hp => ?_
  have hp' := mem_range.mp hp
  by_cases h1 : 2 * p ≤ n
  · by_cases h2 : p = 0 ∨ 2 * p = n
    · rw [if_pos h1, if_pos h2, if_pos h1, if_neg (by omega)]; ring
    · rw [if_pos h1, if_neg h2, if_pos h1, if_pos (by omega)]; ring
  · rw [if_neg h1, if_neg h1, if_neg (by omega)]; ring

/-- area of the one-sided density = population variance -/
theorem C17_area_variance (fs : ℝ) (hfs : 0 < fs) (n : ℕ) (hn : 2 ≤ n) (x : ℕ → ℝ) :
    psdArea fs n x = variance n x := by
  have hn' : 0 < n := by omega
  have hn0 : (n : ℝ) ≠ 0 := by exact_mod_cast hn'.ne'
  have hterm : ∀ p, psd1 fs n x p * (fs / n) =
      (1 / (n : ℝ) ^ 2) * ((if p = 0 ∨ 2 * p = n then 1 else 2) * ‖dft n (demean n x) p‖ ^ 2) := by
    intro p; unfold psd1; field_simp
  unfold psdArea variance
  simp only [hterm]
  rw [← Finset.mul_sum,
    fold_sum n hn' (fun p => ‖dft n (demean n x) p‖ ^ 2)
      (fun p _ hp => dft_reflect n (demean n x) p hp.le hn'),
    C17_parseval n hn x]
  field_simp

/-- scaling the series by `c` scales the density by `c²` -/
theorem C17_scaling (fs : ℝ) (n : ℕ) (x : ℕ → ℝ) (c : ℝ) (p : ℕ) :
    psd1 fs n (fun k => c * x k) p = c ^ 2 * psd1 fs n x p := by
  have hmean : mean n (fun k => c * x k) = c * mean n x := by
    unfold mean; rw [← Finset.mul_sum]; ring
  have hde : demean n (fun k => c * x k) = fun k => c * demean n x k := by
    funext k; unfold demean; rw [hmean]; ring
  have hdft : dft n (fun k => c * demean n x k) p = (c : ℂ) * dft n (demean n x) p := by
    unfold dft; rw [Finset.mul_sum]
    refine Finset.sum_congr rfl fun k _ => ?_
    push_cast; ring
  unfold psd1
  rw [hde, hdft, norm_mul, mul_pow, Complex.norm_real, Real.norm_eq_abs, sq_abs]
  ring

/-- … and hence the area by `c²` -/
theorem C17_scaling_area (fs : ℝ) (n : ℕ) (x : ℕ → ℝ) (c : ℝ) :
    psdArea fs n (fun k => c * x k) = c ^ 2 * psdArea fs n x := by
  unfold psdArea
  rw [Finset.mul_sum]
  refine Finset.sum_congr rfl fun p _ => ?_
  rw [C17_scaling]; ring

/-- the area does not depend on the sampling rate used to label the frequency axis -/
theorem C17_fs_invariance (fs fs' : ℝ) (hfs : fs ≠ 0) (hfs' : fs' ≠ 0) (n : ℕ) (x : ℕ → ℝ) :
    psdArea fs n x = psdArea fs' n x := by
  unfold psdArea
  refine Finset.sum_congr rfl fun p _ => ?_
  unfold psd1
  by_cases hn : (n : ℝ) = 0
  · simp [hn]
  · field_simp

/-- Parseval, stated for a series indexed by `Fin n` with its DFT written out; holds for any
constant `μ` removed, in particular the mean `(∑ k, x k) / n` -/
theorem C17_parseval_fin (n : ℕ) (hn : 2 ≤ n) (x : Fin n → ℝ) (μ : ℝ) :
    ∑ p : Fin n, ‖∑ k : Fin n, ((x k - μ : ℝ) : ℂ) *
        Complex.exp (-2 * Real.pi * Complex.I * (p : ℕ) * (k : ℕ) / n)‖ ^ 2 =
      n * ∑ k : Fin n, (x k - μ) ^ 2 := by
  have h := parseval n (by omega) (fun k => if h : k < n then x ⟨k, h⟩ - μ else 0)
  rw [Finset.sum_range, Finset.sum_range] at h
  simp only [dft, Finset.sum_range, Fin.is_lt, dite_true, Fin.eta] at h
  exact h

end FF
