/-
C20 (alignment) — the list that `mgs` (FFVerif/Proofs/C20Gram.lean) runs on.  The Python code
builds it from a full-rank matrix `A` (columns `a_0 … a_{n-1}`) and an alignment vector `v`:
normally `v :: [a_1, …, a_{n-1}]`; when `v` is (numerically) parallel to column `i ≥ 1` the repaired
code uses `v :: (all columns except a_i, in order)`.

Proved here:

* `C20_align_replace_independent` — for a linearly independent family `a`, any `i` and `c ≠ 0`, the
  list `(c • a i) :: (all a_j, j ≠ i, in order)` is linearly independent (in the sense used by
  `C20_gramSchmidt_orthonormal`) and has length `n`.
* `C20_align_default_independent` — precondition form of the default branch: if `v :: rest` is
  linearly independent, the `mgs` output has the same length, is orthonormal, and its head is
  `‖v‖⁻¹ • v`.
* `C20_align_replace_orthonormal` — the repaired branch: for `c > 0`, `mgs` of the list of
  `C20_align_replace_independent` has length `n`, is orthonormal, and its head is `‖a i‖⁻¹ • a i`.
-/
import Mathlib.LinearAlgebra.LinearIndependent.Basic
import Mathlib.LinearAlgebra.LinearIndependent.Lemmas
import Mathlib.Data.List.FinRange
import Mathlib.Data.List.Nodup
import Mathlib.Tactic.FieldSimp
import FFVerif.Proofs.C20Gram
namespace FF

section Align
variable {E : Type*} [NormedAddCommGroup E] [InnerProductSpace ℝ E]

/-- the index list of the repaired branch: `i` first, then all other indices in order -/
def alignIdx {n : ℕ} (i : Fin n) : List (Fin n) := i :: (List.finRange n).filter (· ≠ i)

theorem alignIdx_nodup {n : ℕ} (i : Fin n) : (alignIdx i).Nodup := by
  unfold alignIdx
  rw [List.nodup_cons]
  refine ⟨?_, (List.nodup_finRange n).filter _⟩
  simp

theorem alignIdx_length {n : ℕ} (i : Fin n) : (alignIdx i).length = n := by
  unfold alignIdx
  have hfilter : (List.finRange n).filter (· ≠ i) = (List.finRange n).erase i := by
    rw [(List.nodup_finRange n).erase_eq_filter i]
    refine List.filter_congr fun x _ => ?_
    by_cases h : x = i <;> simp [h]
  rw [List.length_cons, hfilter, List.length_erase_of_mem (List.mem_finRange i),
    List.length_finRange]
  have := i.pos
  omega

/-- a linearly independent family listed along a duplicate-free index list is linearly independent
in the list sense -/
theorem linearIndependent_list_map {ι : Type*} (f : ι → E) (hf : LinearIndependent ℝ f)
    (p : List ι) (hp : p.Nodup) :
    LinearIndependent ℝ (fun k : Fin (p.map f).length => (p.map f).get k) := by
  have hlen : (p.map f).length = p.length := List.length_map f
  have hfun : (fun k : Fin (p.map f).length => (p.map f).get k)
      = f ∘ (fun k : Fin (p.map f).length => p.get (Fin.cast hlen k)) := by
    funext k
    simp
  rw [hfun]
  refine hf.comp _ ?_
  intro k₁ k₂ h
  have := (List.nodup_iff_injective_get.mp hp) h
  exact Fin.cast_injective hlen this

/-- **C20, repaired alignment list is independent.** -/
theorem C20_align_replace_independent {n : ℕ} (a : Fin n → E) (ha : LinearIndependent ℝ a)
    (i : Fin n) (c : ℝ) (hc : c ≠ 0) :
    let l : List E := (c • a i) :: ((List.finRange n).filter (· ≠ i)).map a
    LinearIndependent ℝ (fun k : Fin l.length => l.get k) ∧ l.length = n := by
  intro l
  -- the rescaled family
  let u : Fin n → ℝˣ := fun j => if j = i then Units.mk0 c hc else 1
  have hu : LinearIndependent ℝ (u • a) := ha.units_smul u
  have hl : l = (alignIdx i).map (u • a) := by
    simp only [l, alignIdx, List.map_cons]
    congr 1
    · simp [u, Units.smul_def]
    · rw [List.map_inj_left]
      intro j hj
      have hji : j ≠ i := by simpa using (List.mem_filter.mp hj).2
      simp [u, hji]
  refine ⟨?_, ?_⟩
  · rw [hl]
    exact linearIndependent_list_map _ hu _ (alignIdx_nodup i)
  · rw [hl, List.length_map, alignIdx_length]

/-- **C20, default alignment list.** If `v` together with the remaining columns is linearly
independent, the Gram–Schmidt output has the same length, is orthonormal, and starts with the
normalised `v`. -/
theorem C20_align_default_independent (v : E) (rest : List E)
    (hli : LinearIndependent ℝ (fun k : Fin (v :: rest).length => (v :: rest).get k)) :
    (mgs (v :: rest)).length = rest.length + 1 ∧
      Orthonormal ℝ (fun k : Fin (mgs (v :: rest)).length => (mgs (v :: rest)).get k) ∧
      (mgs (v :: rest)).head? = some ((‖v‖)⁻¹ • v) := by
  obtain ⟨h1, h2, -⟩ := C20_gramSchmidt_orthonormal (v :: rest) hli
  exact ⟨by rw [h1, List.length_cons], h2, C20_gramSchmidt_first v rest⟩

/-- normalising a positive multiple gives the normalised vector -/
theorem normalize_pos_smul (x : E) (c : ℝ) (hc : 0 < c) :
    (‖c • x‖)⁻¹ • (c • x) = (‖x‖)⁻¹ • x := by
  rw [norm_smul, Real.norm_eq_abs, abs_of_pos hc, smul_smul, mul_inv, mul_assoc,
    mul_comm (‖x‖)⁻¹ c, ← mul_assoc, inv_mul_cancel₀ hc.ne', one_mul]

/-- **C20, repaired alignment branch.** With the alignment vector a positive multiple of column `i`,
Gram–Schmidt on `v :: (all columns except a_i)` returns `n` orthonormal vectors, the first of which
is the normalised column `a_i`. -/
theorem C20_align_replace_orthonormal {n : ℕ} (a : Fin n → E) (ha : LinearIndependent ℝ a)
    (i : Fin n) (c : ℝ) (hc : 0 < c) :
    let l : List E := (c • a i) :: ((List.finRange n).filter (· ≠ i)).map a
    (mgs l).length = n ∧
      Orthonormal ℝ (fun k : Fin (mgs l).length => (mgs l).get k) ∧
      (mgs l).head? = some ((‖a i‖)⁻¹ • a i) := by
  intro l
  obtain ⟨hli, hlen⟩ := C20_align_replace_independent a ha i c hc.ne'
  obtain ⟨h1, h2, -⟩ := C20_gramSchmidt_orthonormal l hli
  refine ⟨by rw [h1]; exact hlen, h2, ?_⟩
  have := C20_gramSchmidt_first (c • a i) (((List.finRange n).filter (· ≠ i)).map a)
  rw [normalize_pos_smul (a i) c hc] at this
  exact this

/-- normalising a negative multiple gives the opposite of the normalised vector -/
theorem normalize_neg_smul (x : E) (c : ℝ) (hc : c < 0) :
    (‖c • x‖)⁻¹ • (c • x) = -((‖x‖)⁻¹ • x) := by
  have h : c • x = (-c) • (-x) := by simp
  rw [h, normalize_pos_smul (-x) (-c) (by linarith), norm_neg, smul_neg]

/-- **C20 / C12, anti-parallel alignment (repair da2d5c8).** With the alignment vector a *negative*
multiple of column `i` (the design direction of a limit state that grows with one variable only),
Gram–Schmidt on `v :: (all columns except a_i)` still returns `n` orthonormal vectors; the first one is
the opposite of the normalised column. -/
theorem C20_align_replace_orthonormal_neg {n : ℕ} (a : Fin n → E) (ha : LinearIndependent ℝ a)
    (i : Fin n) (c : ℝ) (hc : c < 0) :
    let l : List E := (c • a i) :: ((List.finRange n).filter (· ≠ i)).map a
    (mgs l).length = n ∧
      Orthonormal ℝ (fun k : Fin (mgs l).length => (mgs l).get k) ∧
      (mgs l).head? = some (-((‖a i‖)⁻¹ • a i)) := by
  intro l
  obtain ⟨hli, hlen⟩ := C20_align_replace_independent a ha i c hc.ne
  obtain ⟨h1, h2, -⟩ := C20_gramSchmidt_orthonormal l hli
  refine ⟨by rw [h1]; exact hlen, h2, ?_⟩
  have := C20_gramSchmidt_first (c • a i) (((List.finRange n).filter (· ≠ i)).map a)
  rw [normalize_neg_smul (a i) c hc] at this
  exact this

end Align

end FF
