/-
C20 — property theorems: central-difference weights satisfy the moment conditions (the hard-coded
tables, regenerated from the source, by kernel evaluation; the general Vandermonde weights by linear
algebra), and the moment conditions make the derivative helper exact on polynomials of degree < m.
-/
import Mathlib.Algebra.Polynomial.Taylor
import Mathlib.Algebra.Polynomial.Derivative
import Mathlib.Algebra.Polynomial.HasseDeriv
import Mathlib.LinearAlgebra.Vandermonde
import Mathlib.Data.Real.Basic
import Mathlib.Tactic.Ring
import Mathlib.Tactic.FieldSimp
import FFVerif.Props.C20
import FFVerif.Gen.DiffTables
namespace FF
open C20 Polynomial

/-- every hard-coded table of `derivative` satisfies `Σ w_k k^j = n! [j = n]`, j < m -/
theorem C20_tables : ∀ t ∈ Gen.diffTables, momentOK t.1 t.2.1 t.2.2.1 t.2.2.2 = true := by
  decide +kernel

-- the table is not empty (the quantifier above is not vacuous)
example : Gen.diffTables.length = 8 := by decide

/-- moment conditions ⇒ the weighted stencil sum of a polynomial of degree < m is dx^n times its
n-th derivative, at every point and for every step -/
theorem C20_exact_on_polynomials (m n : ℕ) (w : Fin m → ℝ) (x : Fin m → ℝ)
    (hmom : ∀ j < m, ∑ k, w k * x k ^ j = if j = n then (n.factorial : ℝ) else 0)
    (p : ℝ[X]) (hp : p.natDegree < m) (x0 dx : ℝ) :
    ∑ k, w k * p.eval (x0 + x k * dx) = dx ^ n * (derivative^[n] p).eval x0 := by
  -- Taylor form around x0
  have htay : ∀ y : ℝ, p.eval (x0 + y) = ∑ j ∈ Finset.range m, (taylor x0 p).coeff j * y ^ j := by
    intro y
    have h1 : (taylor x0 p).eval y = p.eval (y + x0) := taylor_eval x0 p y
    rw [add_comm, ← h1, eval_eq_sum_range' (by rw [natDegree_taylor]; exact hp)]
  simp only [htay]
  calc ∑ k, w k * ∑ j ∈ Finset.range m, (taylor x0 p).coeff j * (x k * dx) ^ j
      = ∑ j ∈ Finset.range m, (taylor x0 p).coeff j * dx ^ j * ∑ k, w k * x k ^ j := by
        simp only [Finset.mul_sum]
        rw [Finset.sum_comm]
        apply Finset.sum_congr rfl
        intro j _
        apply Finset.sum_congr rfl
        intro k _
        rw [mul_pow]; ring
    _ = ∑ j ∈ Finset.range m, (taylor x0 p).coeff j * dx ^ j * (if j = n then (n.factorial : ℝ) else 0) := by
        apply Finset.sum_congr rfl
        intro j hj
        rw [hmom j (Finset.mem_range.mp hj)]
    _ = dx ^ n * (derivative^[n] p).eval x0 := by
        by_cases hn : n < m
        · rw [Finset.sum_eq_single n]
          · simp only [if_true]
            have h2 : (n.factorial : ℝ) * (taylor x0 p).coeff n = (derivative^[n] p).eval x0 := by
              rw [taylor_coeff, ← factorial_smul_hasseDeriv]
              simp [eval_smul]
            rw [← h2]; ring
          · intro j _ hjn; simp [hjn]
          · intro h; exact absurd (Finset.mem_range.mpr hn) h
        · -- n ≥ m > degree: both sides vanish
          have hz : derivative^[n] p = 0 := iterate_derivative_eq_zero (by omega)
          rw [hz]
          simp only [eval_zero, mul_zero]
          apply Finset.sum_eq_zero
          intro j hj
          have : j ≠ n := by have := Finset.mem_range.mp hj; omega
          simp [this]

/-- the general weights `n! * (V⁻¹)_n` of `centralDiffWeights` (V the Vandermonde matrix of distinct
nodes) satisfy the moment conditions -/
theorem C20_vandermonde_weights (m n : ℕ) (x : Fin m → ℝ) (hx : Function.Injective x) (hn : n < m)
    (j : ℕ) (hj : j < m) :
    ∑ k, ((n.factorial : ℝ) * (Matrix.vandermonde x)⁻¹ ⟨n, hn⟩ k) * x k ^ j =
      if j = n then (n.factorial : ℝ) else 0 := by
  have hdet : IsUnit (Matrix.vandermonde x).det := by
    rw [isUnit_iff_ne_zero]
    exact Matrix.det_vandermonde_ne_zero_iff.mpr hx
  have hinv : (Matrix.vandermonde x)⁻¹ * Matrix.vandermonde x = 1 := Matrix.nonsing_inv_mul _ hdet
  have hent := congrFun (congrFun hinv ⟨n, hn⟩) ⟨j, hj⟩
  simp only [Matrix.mul_apply, Matrix.vandermonde_apply, Matrix.one_apply] at hent
  have : ∑ k, ((n.factorial : ℝ) * (Matrix.vandermonde x)⁻¹ ⟨n, hn⟩ k) * x k ^ j
      = (n.factorial : ℝ) * ∑ k, (Matrix.vandermonde x)⁻¹ ⟨n, hn⟩ k * x k ^ j := by
    rw [Finset.mul_sum]; apply Finset.sum_congr rfl; intro k _; ring
  rw [this, hent]
  by_cases h : j = n
  · subst h; simp
  · have : (⟨n, hn⟩ : Fin m) ≠ ⟨j, hj⟩ := by intro e; exact h (Fin.mk.inj e).symm
    simp [h, this]

/-- hence `derivative` with those weights is exact on every polynomial of degree < m -/
theorem C20_general_exact (m n : ℕ) (x : Fin m → ℝ) (hx : Function.Injective x) (hn : n < m)
    (p : ℝ[X]) (hp : p.natDegree < m) (x0 dx : ℝ) :
    ∑ k, ((n.factorial : ℝ) * (Matrix.vandermonde x)⁻¹ ⟨n, hn⟩ k) * p.eval (x0 + x k * dx)
      = dx ^ n * (derivative^[n] p).eval x0 :=
  C20_exact_on_polynomials m n _ x (fun j hj => C20_vandermonde_weights m n x hx hn j hj) p hp x0 dx

end FF
