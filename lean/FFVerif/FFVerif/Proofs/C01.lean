/-
C01 — property theorems only (helper lemmas live in FFVerif/Lemmas).
`rainflow` is the code-shaped model of `astmRainflowCounting` (tied to the Python by the
correspondence check); `astm`/`reversals` are the specification.
-/
import FFVerif.Lemmas.RainflowTotal
import FFVerif.Lemmas.PeakValley
import FFVerif.Lemmas.Table
import FFVerif.Props.C01
import FFVerif.Lemmas.RainflowMax
import FFVerif.Lemmas.RainflowClosed
namespace FF

/-- cycle by cycle (hence as a multiset), the deque loop equals the three-point procedure on the
reversal sequence — for every history -/
theorem C01_impl_eq_spec (h : List Int) : rainflow h = astm (reversals h) := by
  unfold rainflow; rw [implGo_nil_eq_astm, pv_true_eq_reversals]

theorem C01_multiset (h : List Int) : C01.multisetOK h (rainflow h) = true := by
  unfold C01.multisetOK; rw [C01_impl_eq_spec]; exact List.isPerm_iff.mpr (List.Perm.refl _)

/-- the aggregated table is exactly the histogram of the cycle list -/
theorem C01_table (h : List Int) : C01.tableOK (rainflow h) (table (rainflow h)) = true :=
  isHistogram_table _

/-- counts total (R-1)/2 -/
theorem C01_total (h : List Int) (hne : h ≠ []) : C01.totalOK h (rainflow h) = true := by
  unfold C01.totalOK
  rw [C01_impl_eq_spec, astm_total]
  have : 1 ≤ (reversals h).length := by
    match h, hne with
    | [x], _ => simp [reversals]
    | x :: y :: rest, _ => simp [reversals]
  simp; omega

/-- all clauses of the executable predicate at once, for every non-constant history (the largest
counted range is the overall range: `C01_maxrange` in Lemmas/RainflowMax.lean; whole cycles are
closed loops: `C01_whole_closed` in Lemmas/RainflowClosed.lean) -/
theorem C01_all (h : List Int) (hc : isConstant h = false) :
    C01.failing h (rainflow h) (table (rainflow h)) = [] := by
  have hne : h ≠ [] := by intro e; subst e; simp [isConstant] at hc
  simp [C01.failing, C01_multiset, C01_table, C01_total h hne, C01_maxrange h hc]

-- non-vacuity: the ASTM E1049 figure-6 history (seven counts, one closed loop -1..3)
example : rainflow [-2, 1, -3, 5, -1, 3, -4, 4, -2] =
    [⟨-2, 1, true⟩, ⟨1, -3, true⟩, ⟨-1, 3, false⟩, ⟨-3, 5, true⟩, ⟨5, -4, true⟩, ⟨-4, 4, true⟩, ⟨4, -2, true⟩] := by
  simp [rainflow, pv, pvGo, implGo, rng, halves]

end FF
