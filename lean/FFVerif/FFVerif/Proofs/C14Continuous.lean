/-
C14 — detailed balance on a general (continuous) state space, in integral form.

State space `X` with a σ-finite reference measure `μ` (Lebesgue measure on `ℝⁿ` for the samplers);
target density `π`, symmetric proposal density `q`, domain `D`.  One step of the plain sampler moves from
`x` to a proposed `y` with probability `min 1 (π y / π x)` if `y` is in the domain (rule theorems in
Proofs/C14.lean), so the density of the MOVE part of the transition kernel with respect to `μ` is

    k x y = q x y * min 1 (π y / π x) * [D y]                           (the rest of the mass stays at `x`).

* `C14c_flow_symm`: the probability flow density `π x * [D x] * k x y` is symmetric in `(x, y)` wherever the
  target is positive (and trivially where both are outside the domain);
* `C14c_detailed_balance`: for all measurable sets `A`, `B`
      ∫_{A×B} π x [D x] k x y d(μ⊗μ) = ∫_{B×A} π x [D x] k x y d(μ⊗μ),
  i.e. in stationarity the chain moves from `A` to `B` as often as from `B` to `A`: detailed balance with respect
  to the target restricted to the domain.  (The stay-put part of the kernel is concentrated on the diagonal,
  which is symmetric by itself.)  No integrability hypothesis is needed: both sides are the same integral
  after the change of variables `(x, y) ↦ (y, x)`.
-/
import Mathlib.MeasureTheory.Measure.Prod
import Mathlib.MeasureTheory.Integral.Bochner.Set
import FFVerif.Proofs.C14Balance
namespace FF
open MeasureTheory

section continuous
variable {X : Type*} [MeasurableSpace X]

/-- probability flow density from `x` to `y`: target restricted to the domain at `x`, times the move kernel -/
noncomputable def flow (π : X → ℝ) (q : X → X → ℝ) (D : X → Prop) [DecidablePred D] (x y : X) : ℝ :=
  (π x * if D x then 1 else 0) * (q x y * min 1 (π y / π x) * if D y then 1 else 0)

/-- the flow density is symmetric -/
theorem C14c_flow_symm (π : X → ℝ) (q : X → X → ℝ) (D : X → Prop) [DecidablePred D]
    (hq : ∀ x y, q x y = q y x) (hπ : ∀ x, D x → 0 < π x) (x y : X) :
    flow π q D x y = flow π q D y x := by
  unfold flow
  by_cases hx : D x
  · by_cases hy : D y
    · have h := mul_min_one_div_symm (hπ x hx) (hπ y hy)
      simp only [hx, hy, if_true, mul_one]
      rw [hq y x]
      calc π x * (q x y * min 1 (π y / π x)) = q x y * (π x * min 1 (π y / π x)) := by ring
        _ = q x y * (π y * min 1 (π x / π y)) := by rw [h]
        _ = π y * (q x y * min 1 (π x / π y)) := by ring
    · simp [hx, hy]
  · by_cases hy : D y
    · simp [hx, hy]
    · simp [hx, hy]

/-- **detailed balance in integral form** on any σ-finite state space -/
theorem C14c_detailed_balance (μ : Measure X) [SFinite μ] (π : X → ℝ) (q : X → X → ℝ) (D : X → Prop) [DecidablePred D]
    (hq : ∀ x y, q x y = q y x) (hπ : ∀ x, D x → 0 < π x) (A B : Set X) :
    ∫ z in A ×ˢ B, flow π q D z.1 z.2 ∂(μ.prod μ) = ∫ z in B ×ˢ A, flow π q D z.1 z.2 ∂(μ.prod μ) := by
  have hswap : MeasurePreserving (Prod.swap : X × X → X × X) (μ.prod μ) (μ.prod μ) := Measure.measurePreserving_swap
  have hemb : MeasurableEmbedding (Prod.swap : X × X → X × X) := MeasurableEquiv.prodComm.measurableEmbedding
  have h := hswap.setIntegral_preimage_emb hemb (fun z : X × X => flow π q D z.1 z.2) (B ×ˢ A)
  rw [← h]
  have hpre : (Prod.swap : X × X → X × X) ⁻¹' (B ×ˢ A) = A ×ˢ B := by
    ext ⟨x, y⟩; simp [and_comm]
  rw [hpre]
  congr 1
  funext z
  exact C14c_flow_symm π q D hq hπ z.1 z.2

end continuous

/-- non-vacuity: the hypotheses are met by the standard normal shape on `ℝ` restricted to `[0, ∞)` with a
constant proposal density -/
example : (∀ x y : ℝ, (fun _ _ : ℝ => (1 : ℝ)) x y = (fun _ _ : ℝ => (1 : ℝ)) y x) ∧
    (∀ x : ℝ, (0 ≤ x) → 0 < Real.exp (-(x ^ 2) / 2)) := ⟨fun _ _ => rfl, fun _ _ => Real.exp_pos _⟩

end FF
