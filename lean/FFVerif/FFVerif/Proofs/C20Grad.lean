/-
C20 — `gradient` / `hessianMatrix` corollaries of `C20_exact_on_polynomials`: the partial derivative
computed along one coordinate is exact whenever the restriction of `f` to that coordinate is a
polynomial of degree < m; the nested 3-point central difference of a quadratic form returns the
exact Hessian `A + Aᵀ` at every point and for every non-zero step.
-/
import Mathlib.Algebra.BigOperators.Fin
import Mathlib.Algebra.BigOperators.Field
import Mathlib.LinearAlgebra.Matrix.Defs
import Mathlib.Tactic.Linarith
import FFVerif.Proofs.C20
namespace FF
open Polynomial

/-- **C20, gradient clause.** `gradient` differentiates `t ↦ f (x with coordinate i := t)` at
`t = x i` with the univariate stencil; if that restriction is a polynomial of degree `< m` and the
weights meet the moment conditions for the first derivative, the stencil sum is `dx * p'(x i)`. -/
theorem C20_gradient_exact {d : ℕ} (m : ℕ) (w node : Fin m → ℝ)
    (hmom : ∀ j < m, ∑ k, w k * node k ^ j = if j = 1 then (1 : ℝ) else 0)
    (f : (Fin d → ℝ) → ℝ) (x : Fin d → ℝ) (i : Fin d)
    (p : ℝ[X]) (hp : p.natDegree < m)
    (hf : (fun t => f (Function.update x i t)) = fun t => p.eval t) (dx : ℝ) :
    ∑ k, w k * f (Function.update x i (x i + node k * dx)) = dx * (derivative p).eval (x i) := by
  have hf' : ∀ t, f (Function.update x i t) = p.eval t := fun t => congrFun hf t
  simp only [hf']
  have h := C20_exact_on_polynomials m 1 w node
    (by intro j hj; rw [hmom j hj]; simp) p hp (x i) dx
  simpa using h

/-- the difference quotient used by `gradient` with the default 3-point stencil -/
noncomputable def cd {d : ℕ} (f : (Fin d → ℝ) → ℝ) (i : Fin d) (dx : ℝ) (x : Fin d → ℝ) : ℝ :=
  (f (Function.update x i (x i + dx)) - f (Function.update x i (x i - dx))) / (2 * dx)

/-- the 3-point first-derivative weights and nodes -/
noncomputable def w3 : Fin 3 → ℝ := ![-1 / 2, 0, 1 / 2]
noncomputable def node3 : Fin 3 → ℝ := ![-1, 0, 1]

/-- they meet the moment conditions for `n = 1` -/
theorem w3_moments : ∀ j < 3, ∑ k, w3 k * node3 k ^ j = if j = 1 then (1 : ℝ) else 0 := by
  intro j hj
  have h3 : j = 0 ∨ j = 1 ∨ j = 2 := by omega
  rcases h3 with rfl | rfl | rfl <;> simp [Fin.sum_univ_three, w3, node3] <;> norm_num

/-- `cd` is the 3-point stencil sum divided by the step -/
theorem cd_eq_stencil {d : ℕ} (f : (Fin d → ℝ) → ℝ) (i : Fin d) (dx : ℝ) (x : Fin d → ℝ) :
    cd f i dx x = (∑ k, w3 k * f (Function.update x i (x i + node3 k * dx))) / dx := by
  by_cases hdx : dx = 0
  · subst hdx; simp [cd]
  · simp only [cd, Fin.sum_univ_three, w3, node3, Matrix.cons_val_zero, Matrix.cons_val_one,
      Matrix.cons_val_two, Matrix.head_cons, Matrix.tail_cons]
    field_simp
    ring_nf

/-- hence `cd` is exact when the restriction to the coordinate is a polynomial of degree ≤ 2 -/
theorem C20_cd_exact {d : ℕ} (f : (Fin d → ℝ) → ℝ) (x : Fin d → ℝ) (i : Fin d)
    (p : ℝ[X]) (hp : p.natDegree < 3)
    (hf : (fun t => f (Function.update x i t)) = fun t => p.eval t) (dx : ℝ) (hdx : dx ≠ 0) :
    cd f i dx x = (derivative p).eval (x i) := by
  rw [cd_eq_stencil, C20_gradient_exact 3 w3 node3 w3_moments f x i p hp hf dx]
  field_simp

section Hessian
variable {d : ℕ}

theorem cd_sum {ι : Type*} (s : Finset ι) (g : ι → (Fin d → ℝ) → ℝ) (i : Fin d) (dx : ℝ)
    (x : Fin d → ℝ) :
    cd (fun y => ∑ k ∈ s, g k y) i dx x = ∑ k ∈ s, cd (g k) i dx x := by
  simp only [cd, ← Finset.sum_sub_distrib, Finset.sum_div]

theorem cd_const_mul (c : ℝ) (g : (Fin d → ℝ) → ℝ) (i : Fin d) (dx : ℝ) (x : Fin d → ℝ) :
    cd (fun y => c * g y) i dx x = c * cd g i dx x := by
  simp only [cd]; ring

theorem cd_coord (j i : Fin d) (dx : ℝ) (hdx : dx ≠ 0) (x : Fin d → ℝ) :
    cd (fun y => y j) i dx x = if j = i then 1 else 0 := by
  unfold cd
  by_cases h : j = i
  · subst h
    simp only [Function.update_self, if_true]
    field_simp
    ring
  · simp [h]

theorem cd_mul_coord (i j b : Fin d) (dx : ℝ) (hdx : dx ≠ 0) (x : Fin d → ℝ) :
    cd (fun y => y i * y j) b dx x
      = (if i = b then 1 else 0) * x j + x i * (if j = b then 1 else 0) := by
  unfold cd
  by_cases hi : i = b <;> by_cases hj : j = b
  · subst hi; subst hj
    simp only [Function.update_self, if_true]
    field_simp
    ring
  · subst hi
    simp only [Function.update_self, Function.update_of_ne hj, if_true, hj, if_false]
    field_simp
    ring
  · subst hj
    simp only [Function.update_self, Function.update_of_ne hi, if_true, hi, if_false]
    field_simp
    ring
  · simp [hi, hj]

/-- the first central difference of a quadratic form is the exact (linear) partial derivative -/
theorem cd_quadratic (A : Matrix (Fin d) (Fin d) ℝ) (dx : ℝ) (hdx : dx ≠ 0) (b : Fin d)
    (x : Fin d → ℝ) :
    cd (fun y => ∑ i, ∑ j, A i j * y i * y j) b dx x = ∑ j, (A b j + A j b) * x j := by
  have h0 : (fun y : Fin d → ℝ => ∑ i, ∑ j, A i j * y i * y j)
      = fun y => ∑ i, ∑ j, A i j * (y i * y j) := by
    funext y; simp only [mul_assoc]
  rw [h0, cd_sum]
  simp only [cd_sum, cd_const_mul, cd_mul_coord _ _ _ _ hdx]
  simp only [mul_add, Finset.sum_add_distrib, add_mul]
  congr 1
  · rw [Finset.sum_eq_single b]
    · simp
    · intro i _ hi; simp [hi]
    · intro h; exact absurd (Finset.mem_univ b) h
  · rw [Finset.sum_comm]
    rw [Finset.sum_eq_single b]
    · simp
    · intro i _ hi; simp [hi]
    · intro h; exact absurd (Finset.mem_univ b) h

/-- **C20, Hessian clause.** For `f x = Σ A i j x i x j` the nested 3-point central difference
(`hessianMatrix`: gradient of each gradient component) is the exact Hessian entry `A a b + A b a`,
at every point and for every non-zero step. -/
theorem C20_hessian_quadratic (A : Matrix (Fin d) (Fin d) ℝ) (dx : ℝ) (hdx : dx ≠ 0)
    (a b : Fin d) (x : Fin d → ℝ) :
    cd (cd (fun y => ∑ i, ∑ j, A i j * y i * y j) b dx) a dx x = A a b + A b a := by
  have h1 : cd (fun y => ∑ i, ∑ j, A i j * y i * y j) b dx
      = fun y => ∑ j, (A b j + A j b) * y j := by
    funext y; exact cd_quadratic A dx hdx b y
  rw [h1, cd_sum]
  simp only [cd_const_mul, cd_coord _ _ _ hdx]
  rw [Finset.sum_eq_single a]
  · simp [add_comm]
  · intro j _ hj; simp [hj]
  · intro h; exact absurd (Finset.mem_univ a) h

end Hessian
end FF
