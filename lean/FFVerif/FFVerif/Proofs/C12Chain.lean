/-
C12 (chain rule) — the Hessian in standard normal space of a limit state composed with the Nataf
map `X = T(U)`, `Z = L U`, `x_k = t_k(z_k)`, `t_k = F_k⁻¹ ∘ Φ`.  The code uses

    dxdz_k   = φ(z_k) / f_k(x_k)
    d2xdz2_k = dxdz_k * ( -z_k - dlogpdf_k * dxdz_k ),      dlogpdf_k = f_k'(x_k) / f_k(x_k)
    H_U      = JInvᵀ H_X JInv + Lᵀ diag( dg/dx_k * d2xdz2_k ) L,   JInv = D L,  D = diag(dxdz_k)

What is proved here (all in full, nothing weakened):

* `C12_marginal_map_second_derivative` — from `t' = φ / (f ∘ t)`, `φ' y = -y φ y`, `f' ` the derivative
  of `f`, and `f (t z) ≠ 0`: the derivative of `y ↦ φ y / f (t y)` at `z` is the code's `d2xdz2`.
  (`C12_marginal_map_second_derivative_affine` is the sanity corollary for a normal marginal, where
  `t y = μ + σ y` and the formula gives `0`.)
* `C12_first_directional_derivative`, `C12_second_directional_derivative` — for a QUADRATIC model
  `G x = c + ∑ b_k x_k + ½ ∑∑ H_jk x_j x_k` with `H` symmetric (the curvature only depends on the
  2-jet) and arbitrary twice differentiable component maps `t_k`, along the line `z + s w`:
  the first derivative in `s` at every `s`, and the derivative of that first derivative at `s = 0`,
  which is  `∑∑ H_jk (t'_j w_j)(t'_k w_k) + ∑ (∂G/∂x_k) t''_k w_k²`.
  (`C12_second_directional_derivative_at` gives the same at every `s`.)
* `C12_hessian_U_quadratic_form` — the matrix identity: the code's `H_U`, as a quadratic form at `v`,
  is exactly that number for `w = L v`.
-/
import Mathlib.Analysis.Calculus.Deriv.Basic
import Mathlib.Analysis.Calculus.Deriv.Add
import Mathlib.Analysis.Calculus.Deriv.Mul
import Mathlib.Analysis.Calculus.Deriv.Comp
import Mathlib.Analysis.Calculus.Deriv.Inv
import Mathlib.Data.Matrix.Mul
import Mathlib.Data.Matrix.Diagonal
import Mathlib.Tactic.Ring
import Mathlib.Tactic.FieldSimp
namespace FF

open Finset Matrix

/-! ### (1) the second derivative of the marginal map -/

/-- **C12, marginal map.** With `t' = φ/(f∘t)`, `φ' y = -y φ y` and `f'` the derivative of `f`,
the derivative of `dxdz = φ / (f ∘ t)` at `z` is the code's
`d2xdz2 = dxdz * (-z - dlogpdf * dxdz)`, `dlogpdf = f'(x)/f(x)`. -/
theorem C12_marginal_map_second_derivative (t f f' φ : ℝ → ℝ) (z : ℝ)
    (ht : ∀ y, HasDerivAt t (φ y / f (t y)) y)
    (hφ : ∀ y, HasDerivAt φ (-y * φ y) y)
    (hf : ∀ x, HasDerivAt f (f' x) x)
    (hne : f (t z) ≠ 0) :
    HasDerivAt (fun y => φ y / f (t y))
      ((φ z / f (t z)) * (-z - (f' (t z) / f (t z)) * (φ z / f (t z)))) z := by
  have hcomp : HasDerivAt (fun y => f (t y)) (f' (t z) * (φ z / f (t z))) z :=
    (hf (t z)).comp z (ht z)
  have hdiv := (hφ z).div hcomp hne
  refine hdiv.congr_deriv ?_
  field_simp

/-- sanity corollary: for a normal marginal the map is affine, `t y = μ + σ y`, its density is
`f x = φ((x-μ)/σ)/σ`, and the formula returns a vanishing second derivative. -/
theorem C12_marginal_map_second_derivative_affine (φ φ' : ℝ → ℝ) (μ σ z : ℝ) (hσ : σ ≠ 0)
    (hφz : φ z ≠ 0) (hφ' : φ' z = -z * φ z) :
    let t : ℝ → ℝ := fun y => μ + σ * y
    let f : ℝ → ℝ := fun x => φ ((x - μ) / σ) / σ
    let f' : ℝ → ℝ := fun x => φ' ((x - μ) / σ) / σ / σ
    (φ z / f (t z)) * (-z - (f' (t z) / f (t z)) * (φ z / f (t z))) = 0 := by
  intro t f f'
  have harg : (t z - μ) / σ = z := by
    simp only [t]; field_simp; ring
  simp only [f, f', harg, hφ']
  field_simp
  ring

/-! ### (2) the second-order chain rule along a line, quadratic model -/

/-- the quadratic model of the limit state -/
noncomputable def quadG {n : ℕ} (c : ℝ) (b : Fin n → ℝ) (H : Matrix (Fin n) (Fin n) ℝ)
    (x : Fin n → ℝ) : ℝ :=
  c + ∑ k, b k * x k + (1 / 2) * ∑ j, ∑ k, H j k * x j * x k

/-- its gradient (for symmetric `H`) -/
noncomputable def quadGgrad {n : ℕ} (b : Fin n → ℝ) (H : Matrix (Fin n) (Fin n) ℝ)
    (x : Fin n → ℝ) (k : Fin n) : ℝ :=
  b k + ∑ j, H k j * x j

/-- the component-wise map along the line `z + s w` -/
theorem hasDerivAt_line_comp (t t' : ℝ → ℝ) (ht : ∀ y, HasDerivAt t (t' y) y) (z w s : ℝ) :
    HasDerivAt (fun s => t (z + s * w)) (t' (z + s * w) * w) s := by
  have hlin : HasDerivAt (fun s : ℝ => z + s * w) w s := by
    have h := ((hasDerivAt_id s).mul_const w).const_add z
    simpa using h
  exact (ht (z + s * w)).comp s hlin

/-- **C12, first directional derivative.** -/
theorem C12_first_directional_derivative {n : ℕ} (c : ℝ) (b : Fin n → ℝ)
    (H : Matrix (Fin n) (Fin n) ℝ) (hH : Hᵀ = H)
    (t t' : Fin n → ℝ → ℝ) (ht : ∀ k y, HasDerivAt (t k) (t' k y) y)
    (z w : Fin n → ℝ) (s : ℝ) :
    HasDerivAt (fun s => quadG c b H (fun k => t k (z k + s * w k)))
      (∑ k, quadGgrad b H (fun j => t j (z j + s * w j)) k * (t' k (z k + s * w k) * w k)) s := by
  have hx : ∀ k, HasDerivAt (fun s => t k (z k + s * w k)) (t' k (z k + s * w k) * w k) s :=
    fun k => hasDerivAt_line_comp (t k) (t' k) (ht k) (z k) (w k) s
  have hlin : HasDerivAt (fun s => ∑ k, b k * t k (z k + s * w k))
      (∑ k, b k * (t' k (z k + s * w k) * w k)) s :=
    HasDerivAt.fun_sum fun k _ => (hx k).const_mul (b k)
  have hquad : HasDerivAt
      (fun s => ∑ j, ∑ k, H j k * t j (z j + s * w j) * t k (z k + s * w k))
      (∑ j, ∑ k, (H j k * (t' j (z j + s * w j) * w j) * t k (z k + s * w k)
        + H j k * t j (z j + s * w j) * (t' k (z k + s * w k) * w k))) s :=
    HasDerivAt.fun_sum fun j _ => HasDerivAt.fun_sum fun k _ =>
      ((hx j).const_mul (H j k)).mul (hx k)
  have hall := ((hlin.const_add c).const_mul (1 : ℝ)).add (hquad.const_mul (1 / 2 : ℝ))
  have hfun : (fun s => quadG c b H (fun k => t k (z k + s * w k)))
      = fun s => 1 * (c + ∑ k, b k * t k (z k + s * w k))
        + 1 / 2 * ∑ j, ∑ k, H j k * t j (z j + s * w j) * t k (z k + s * w k) := by
    funext s; simp only [quadG, one_mul]
  rw [hfun]
  refine hall.congr_deriv ?_
  -- algebra: use the symmetry of `H`
  have hsym : ∀ j k, H j k = H k j := fun j k => by
    conv_lhs => rw [← hH]
    rfl
  simp only [quadGgrad, sum_add_distrib, add_mul, one_mul, mul_add]
  have h1 : ∑ j, ∑ k, H j k * (t' j (z j + s * w j) * w j) * t k (z k + s * w k)
      = ∑ k, (∑ j, H k j * t j (z j + s * w j)) * (t' k (z k + s * w k) * w k) := by
    refine sum_congr rfl fun j _ => ?_
    rw [sum_mul]
    refine sum_congr rfl fun k _ => ?_
    ring
  have h2 : ∑ j, ∑ k, H j k * t j (z j + s * w j) * (t' k (z k + s * w k) * w k)
      = ∑ k, (∑ j, H k j * t j (z j + s * w j)) * (t' k (z k + s * w k) * w k) := by
    rw [sum_comm]
    refine sum_congr rfl fun k _ => ?_
    rw [sum_mul]
    refine sum_congr rfl fun j _ => ?_
    rw [hsym j k]
  rw [h1, h2]
  ring

/-- the derivative of the first directional derivative, at every `s` -/
theorem C12_second_directional_derivative_at {n : ℕ} (b : Fin n → ℝ)
    (H : Matrix (Fin n) (Fin n) ℝ)
    (t t' t'' : Fin n → ℝ → ℝ) (ht : ∀ k y, HasDerivAt (t k) (t' k y) y)
    (ht' : ∀ k y, HasDerivAt (t' k) (t'' k y) y)
    (z w : Fin n → ℝ) (s : ℝ) :
    HasDerivAt
      (fun s => ∑ k, quadGgrad b H (fun j => t j (z j + s * w j)) k * (t' k (z k + s * w k) * w k))
      (∑ j, ∑ k, H j k * (t' j (z j + s * w j) * w j) * (t' k (z k + s * w k) * w k)
        + ∑ k, quadGgrad b H (fun j => t j (z j + s * w j)) k * (t'' k (z k + s * w k) * w k * w k))
      s := by
  have hx : ∀ k, HasDerivAt (fun s => t k (z k + s * w k)) (t' k (z k + s * w k) * w k) s :=
    fun k => hasDerivAt_line_comp (t k) (t' k) (ht k) (z k) (w k) s
  have hx' : ∀ k, HasDerivAt (fun s => t' k (z k + s * w k)) (t'' k (z k + s * w k) * w k) s :=
    fun k => hasDerivAt_line_comp (t' k) (t'' k) (ht' k) (z k) (w k) s
  have hgrad : ∀ k, HasDerivAt (fun s => b k + ∑ j, H k j * t j (z j + s * w j))
      (∑ j, H k j * (t' j (z j + s * w j) * w j)) s := fun k =>
    (HasDerivAt.fun_sum fun j _ => (hx j).const_mul (H k j)).const_add (b k)
  have hall : HasDerivAt
      (fun s => ∑ k, (b k + ∑ j, H k j * t j (z j + s * w j)) * (t' k (z k + s * w k) * w k))
      (∑ k, ((∑ j, H k j * (t' j (z j + s * w j) * w j)) * (t' k (z k + s * w k) * w k)
        + (b k + ∑ j, H k j * t j (z j + s * w j)) * (t'' k (z k + s * w k) * w k * w k))) s :=
    HasDerivAt.fun_sum fun k _ => (hgrad k).mul ((hx' k).mul_const (w k))
  simp only [quadGgrad]
  refine hall.congr_deriv ?_
  rw [sum_add_distrib]
  congr 1
  refine sum_congr rfl fun j _ => ?_
  rw [sum_mul]
  refine sum_congr rfl fun k _ => ?_
  ring

/-- **C12, second directional derivative.** The derivative at `s = 0` of the first directional
derivative is `∑∑ H_jk (t'_j w_j)(t'_k w_k) + ∑ (∂G/∂x_k) t''_k w_k²`. -/
theorem C12_second_directional_derivative {n : ℕ} (b : Fin n → ℝ)
    (H : Matrix (Fin n) (Fin n) ℝ)
    (t t' t'' : Fin n → ℝ → ℝ) (ht : ∀ k y, HasDerivAt (t k) (t' k y) y)
    (ht' : ∀ k y, HasDerivAt (t' k) (t'' k y) y)
    (z w : Fin n → ℝ) :
    HasDerivAt
      (fun s => ∑ k, quadGgrad b H (fun j => t j (z j + s * w j)) k * (t' k (z k + s * w k) * w k))
      (∑ j, ∑ k, H j k * (t' j (z j) * w j) * (t' k (z k) * w k)
        + ∑ k, quadGgrad b H (fun j => t j (z j)) k * (t'' k (z k) * w k * w k))
      0 := by
  have h := C12_second_directional_derivative_at b H t t' t'' ht ht' z w 0
  simpa only [zero_mul, add_zero] using h

/-! ### (3) the code's `H_U` is that quadratic form -/

/-- **C12, Hessian in U.** `vᵀ ( (D L)ᵀ H (D L) + Lᵀ E L ) v` with `D = diag(t'_k(z_k))`,
`E = diag(∂G/∂x_k · t''_k(z_k))` equals the second directional derivative of
`C12_second_directional_derivative` in the direction `w = L v`. -/
theorem C12_hessian_U_quadratic_form {n : ℕ} (b : Fin n → ℝ)
    (H L : Matrix (Fin n) (Fin n) ℝ) (t t' t'' : Fin n → ℝ → ℝ) (z v : Fin n → ℝ) :
    let D : Matrix (Fin n) (Fin n) ℝ := Matrix.diagonal (fun k => t' k (z k))
    let gradX : Fin n → ℝ := quadGgrad b H (fun j => t j (z j))
    let E : Matrix (Fin n) (Fin n) ℝ := Matrix.diagonal (fun k => gradX k * t'' k (z k))
    let w : Fin n → ℝ := L.mulVec v
    dotProduct v (((D * L)ᵀ * H * (D * L) + Lᵀ * E * L).mulVec v)
      = ∑ j, ∑ k, H j k * (t' j (z j) * w j) * (t' k (z k) * w k)
        + ∑ k, gradX k * (t'' k (z k) * w k * w k) := by
  intro D gradX E w
  have hquad : ∀ (M A : Matrix (Fin n) (Fin n) ℝ),
      dotProduct v ((Mᵀ * A * M).mulVec v) = dotProduct (M.mulVec v) (A.mulVec (M.mulVec v)) := by
    intro M A
    rw [← Matrix.mulVec_mulVec, ← Matrix.mulVec_mulVec, Matrix.dotProduct_mulVec,
      Matrix.vecMul_transpose]
  have hDL : (D * L).mulVec v = fun k => t' k (z k) * w k := by
    rw [← Matrix.mulVec_mulVec]
    funext k
    exact Matrix.mulVec_diagonal _ _ k
  rw [Matrix.add_mulVec, dotProduct_add, hquad, hquad, hDL]
  congr 1
  · simp only [dotProduct, Matrix.mulVec]
    refine sum_congr rfl fun j _ => ?_
    rw [mul_sum]
    refine sum_congr rfl fun k _ => ?_
    ring
  · simp only [dotProduct]
    refine sum_congr rfl fun k _ => ?_
    have : (E.mulVec (L.mulVec v)) k = gradX k * t'' k (z k) * w k :=
      Matrix.mulVec_diagonal _ _ k
    rw [this]
    ring


/-! ### (4) the scaled finite-difference Hessian (repair 3762ba3) -/

/-- **C12, Hessian in units of the standard deviations.** The code differences `y ↦ g(x* + σ ⊙ y)` at
`y = 0` and divides entry `(j,k)` by `σ_j σ_k`.  For the 2-jet of `g` the second directional derivative
of that scaled function in the direction `w` is `∑∑ H_jk (σ_j w_j)(σ_k w_k)`, i.e. its Hessian is
`diag(σ) H diag(σ)`, so the division recovers `H` exactly. -/
theorem C12_scaled_hessian {n : ℕ} (b : Fin n → ℝ) (H : Matrix (Fin n) (Fin n) ℝ)
    (x σ w : Fin n → ℝ) :
    HasDerivAt
      (fun s => ∑ k, quadGgrad b H (fun j => x j + σ j * (0 + s * w j)) k * (σ k * w k))
      (∑ j, ∑ k, H j k * (σ j * w j) * (σ k * w k)) 0 := by
  have ht : ∀ k y, HasDerivAt (fun y : ℝ => x k + σ k * y) (σ k) y := by
    intro k y
    simpa using ((hasDerivAt_id y).const_mul (σ k)).const_add (x k)
  have ht' : ∀ k y, HasDerivAt (fun _ : ℝ => σ k) 0 y := fun k y => hasDerivAt_const y (σ k)
  have h := C12_second_directional_derivative b H (fun k y => x k + σ k * y) (fun k _ => σ k)
    (fun _ _ => 0) ht ht' (fun _ => 0) w
  simpa using h

/-- entry form: with `w` a coordinate direction scaled back, the `(j,k)` entry of the scaled Hessian
divided by `σ_j σ_k` is `H j k` (for non-zero scales) -/
theorem C12_scaled_hessian_entry (H : ℝ) (σj σk : ℝ) (hj : σj ≠ 0) (hk : σk ≠ 0) :
    (σj * H * σk) / (σj * σk) = H := by
  field_simp

end FF
