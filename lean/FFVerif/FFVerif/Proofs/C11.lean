/-
C11 — property theorems for the Nataf transformation (`rpm/nataf.py`).

Model over ℝ.  Everything the code takes from `scipy`/`numpy` is a *parameter*, nothing is postulated:
`F i`, `Finv i`, `f i` are the cdf / ppf / pdf of marginal `i`; `Φ`, `Φinv`, `φ` are the standard
normal cdf / quantile / pdf; `L` is the Cholesky factor of the latent correlation matrix
(`L * Lᵀ = ρ_Z`) and `Linv` the matrix that `np.linalg.solve( L, · )` applies.  Each theorem lists
exactly the relations between these parameters that it needs.

    getU( X ):  Z[d] = norm.ppf( dist[d].cdf( X[d] ) );  U = solve( L, Z )
                diagMat[d,d] = norm.pdf( Z[d] ) / dist[d].pdf( X[d] );  J = diagMat @ L
    getX( U ):  Z = L @ U;  X[d] = dist[d].ppf( norm.cdf( Z[d] ) )
                diagMat[d,d] = dist[d].pdf( X[d] ) / norm.pdf( Z[d] );  J = solve( L, diagMat )
    pdf( X ):   prod_i f_i(X_i) / prod_i φ(Z_i) * mvn_pdf( Z ; cov = ρ_Z )
    cdf( X ):   mvn_cdf( Z ; cov = ρ_Z )
-/
import Mathlib.Data.Matrix.Mul
import Mathlib.Data.Matrix.Diagonal
import Mathlib.Analysis.Calculus.Deriv.Add
import Mathlib.Analysis.Calculus.Deriv.Mul
import Mathlib.Analysis.Calculus.Deriv.Comp
import Mathlib.Analysis.SpecialFunctions.Log.Basic
import Mathlib.Analysis.SpecialFunctions.Sqrt
import Mathlib.Algebra.BigOperators.Fin
import Mathlib.Tactic.Ring
import Mathlib.Tactic.Linarith
import Mathlib.Tactic.FieldSimp
import Mathlib.Tactic.Positivity

namespace FF
noncomputable section Nataf

open Matrix

variable {n : ℕ}
variable (F Finv f : Fin n → ℝ → ℝ) (Φ Φinv φ : ℝ → ℝ) (L Linv : Matrix (Fin n) (Fin n) ℝ)

/-! ### Model -/

/-- `Z[d] = norm.ppf( dist[d].cdf( X[d] ) )`. -/
def zOfX (x : Fin n → ℝ) : Fin n → ℝ := fun i => Φinv (F i (x i))

/-- `U = solve( L, Z )`. -/
def getU (x : Fin n → ℝ) : Fin n → ℝ := Linv.mulVec (zOfX F Φinv x)

/-- `Z = L @ U; X[d] = dist[d].ppf( norm.cdf( Z[d] ) )`. -/
def getX (u : Fin n → ℝ) : Fin n → ℝ := fun i => Finv i (Φ ((L.mulVec u) i))

/-- The matrix `J` returned by `getU( X )`: `diag( φ(Z_d) / f_d(X_d) ) @ L`. -/
def jacReturnedByGetU (x : Fin n → ℝ) : Matrix (Fin n) (Fin n) ℝ :=
  Matrix.diagonal (fun i => φ (zOfX F Φinv x i) / f i (x i)) * L

/-- The matrix `J` returned by `getX( U )`: `solve( L, diag( f_d(X_d) / φ(Z_d) ) )`. -/
def jacReturnedByGetX (u : Fin n → ℝ) : Matrix (Fin n) (Fin n) ℝ :=
  Linv * Matrix.diagonal (fun i => f i (getX Finv Φ L u i) / φ ((L.mulVec u) i))

/-- `pdf( X )`, with the multivariate normal density `mvn` (covariance `ρ_Z`) as a parameter. -/
def pdf (mvn : (Fin n → ℝ) → ℝ) (x : Fin n → ℝ) : ℝ :=
  (∏ i, f i (x i)) / (∏ i, φ (zOfX F Φinv x i)) * mvn (zOfX F Φinv x)

/-- `cdf( X )`, with the multivariate normal cdf `mvnCdf` (covariance `ρ_Z`) as a parameter. -/
def cdf (mvnCdf : (Fin n → ℝ) → ℝ) (x : Fin n → ℝ) : ℝ := mvnCdf (zOfX F Φinv x)

/-! ### 1. Round trips -/

/-- `L @ getU( X ) = Z( X )` as soon as `solve( L, · )` really inverts `L`. -/
theorem C11_L_mulVec_getU (hL : L * Linv = 1) (x : Fin n → ℝ) :
    L.mulVec (getU F Φinv Linv x) = zOfX F Φinv x := by
  unfold getU
  rw [Matrix.mulVec_mulVec, hL, Matrix.one_mulVec]

/-- `getX( getU( X ) ) = X`. -/
theorem C11_roundtrip_X (x : Fin n → ℝ)
    (hL : L * Linv = 1)
    (hΦ : ∀ i, Φ (Φinv (F i (x i))) = F i (x i))
    (hF : ∀ i, Finv i (F i (x i)) = x i) :
    getX Finv Φ L (getU F Φinv Linv x) = x := by
  funext i
  unfold getX
  rw [C11_L_mulVec_getU F Φinv L Linv hL x]
  unfold zOfX
  rw [hΦ i, hF i]

/-- `Z( getX( U ) ) = L @ U`. -/
theorem C11_zOfX_getX (u : Fin n → ℝ)
    (hF : ∀ i, F i (Finv i (Φ ((L.mulVec u) i))) = Φ ((L.mulVec u) i))
    (hΦ : ∀ i, Φinv (Φ ((L.mulVec u) i)) = (L.mulVec u) i) :
    zOfX F Φinv (getX Finv Φ L u) = L.mulVec u := by
  funext i
  unfold zOfX getX
  rw [hF i, hΦ i]

/-- `getU( getX( U ) ) = U`. -/
theorem C11_roundtrip_U (u : Fin n → ℝ)
    (hL : Linv * L = 1)
    (hF : ∀ i, F i (Finv i (Φ ((L.mulVec u) i))) = Φ ((L.mulVec u) i))
    (hΦ : ∀ i, Φinv (Φ ((L.mulVec u) i)) = (L.mulVec u) i) :
    getU F Φinv Linv (getX Finv Φ L u) = u := by
  unfold getU
  rw [C11_zOfX_getX F Finv Φ Φinv L u hF hΦ, Matrix.mulVec_mulVec, hL, Matrix.one_mulVec]

/-! ### 2. The two returned matrices are mutually inverse -/

/-- At corresponding points (`L @ u = Z(x)`, `getX u = x`; both follow from `u = getU x` by the
round-trip theorems) with non-vanishing densities, the two returned matrices are inverse to each
other. -/
theorem C11_jacobians_inverse (x u : Fin n → ℝ)
    (hz : L.mulVec u = zOfX F Φinv x) (hx : getX Finv Φ L u = x)
    (hf : ∀ i, f i (x i) ≠ 0) (hφ : ∀ i, φ (zOfX F Φinv x i) ≠ 0)
    (hL : L * Linv = 1) (hL' : Linv * L = 1) :
    jacReturnedByGetU F f Φinv φ L x * jacReturnedByGetX Finv f Φ φ L Linv u = 1 ∧
    jacReturnedByGetX Finv f Φ φ L Linv u * jacReturnedByGetU F f Φinv φ L x = 1 := by
  unfold jacReturnedByGetU jacReturnedByGetX
  rw [hz, hx]
  have hab : (fun i => φ (zOfX F Φinv x i) / f i (x i) * (f i (x i) / φ (zOfX F Φinv x i)))
      = fun _ => (1 : ℝ) := by
    funext i
    have h1 := hf i
    have h2 := hφ i
    field_simp
  have hba : (fun i => f i (x i) / φ (zOfX F Φinv x i) * (φ (zOfX F Φinv x i) / f i (x i)))
      = fun _ => (1 : ℝ) := by
    funext i
    have h1 := hf i
    have h2 := hφ i
    field_simp
  constructor
  · rw [Matrix.mul_assoc, ← Matrix.mul_assoc L Linv, hL, Matrix.one_mul,
      Matrix.diagonal_mul_diagonal, hab, Matrix.diagonal_one]
  · rw [Matrix.mul_assoc, ← Matrix.mul_assoc (Matrix.diagonal _) (Matrix.diagonal _) L,
      Matrix.diagonal_mul_diagonal, hba, Matrix.diagonal_one, Matrix.one_mul, hL']

/-- Version of `C11_jacobians_inverse` at `u = getU x`, with the correspondence derived from the
round-trip hypotheses. -/
theorem C11_jacobians_inverse_at_getU (x : Fin n → ℝ)
    (hL : L * Linv = 1) (hL' : Linv * L = 1)
    (hΦ : ∀ i, Φ (Φinv (F i (x i))) = F i (x i))
    (hF : ∀ i, Finv i (F i (x i)) = x i)
    (hf : ∀ i, f i (x i) ≠ 0) (hφ : ∀ i, φ (zOfX F Φinv x i) ≠ 0) :
    jacReturnedByGetU F f Φinv φ L x
        * jacReturnedByGetX Finv f Φ φ L Linv (getU F Φinv Linv x) = 1 ∧
    jacReturnedByGetX Finv f Φ φ L Linv (getU F Φinv Linv x)
        * jacReturnedByGetU F f Φinv φ L x = 1 :=
  C11_jacobians_inverse F Finv f Φ Φinv φ L Linv x _
    (C11_L_mulVec_getU F Φinv L Linv hL x)
    (C11_roundtrip_X F Finv Φ Φinv L Linv x hL hΦ hF) hf hφ hL hL'

/-! ### 3. Each returned matrix is the derivative of the *other* map -/

/-- Changing one coordinate of the argument of `M.mulVec` moves component `i` along column `j`. -/
theorem mulVec_update_apply (M : Matrix (Fin n) (Fin n) ℝ) (v : Fin n → ℝ) (j : Fin n) (t : ℝ)
    (i : Fin n) :
    (M.mulVec (Function.update v j t)) i = (M.mulVec v) i + M i j * (t - v j) := by
  have hupd : Function.update v j t = v + Pi.single j (t - v j) := by
    funext k
    by_cases hk : k = j
    · subst hk; simp
    · simp [hk]
  rw [hupd, Matrix.mulVec_add, Pi.add_apply, Matrix.mulVec_single]
  simp

/-- Partial derivative of component `i` of `M.mulVec` in coordinate `j` is `M i j`. -/
theorem hasDerivAt_mulVec_update (M : Matrix (Fin n) (Fin n) ℝ) (v : Fin n → ℝ) (i j : Fin n) :
    HasDerivAt (fun t => (M.mulVec (Function.update v j t)) i) (M i j) (v j) := by
  have h : HasDerivAt (fun t => (M.mulVec v) i + M i j * (t - v j)) (M i j * 1) (v j) :=
    (((hasDerivAt_id (v j)).sub_const (v j)).const_mul (M i j)).const_add _
  rw [mul_one] at h
  refine h.congr_of_eventuallyEq (Filter.Eventually.of_forall fun t => ?_)
  exact mulVec_update_apply M v j t i

/-- Entry form: `∂ getX(u)_i / ∂ u_j` is entry `(i,j)` of the matrix that `getU` returns (at the
point `getX u`).  Hypotheses only at the points actually used.  (`hFinv` with `f = 0` would assert
a zero derivative; non-vanishing of `f` is therefore not a separate hypothesis.) -/
theorem C11_getU_matrix_entry_is_partial_of_getX (u : Fin n → ℝ) (i j : Fin n)
    (hΦ : HasDerivAt Φ (φ ((L.mulVec u) i)) ((L.mulVec u) i))
    (hFinv : HasDerivAt (Finv i) (1 / f i (Finv i (Φ ((L.mulVec u) i)))) (Φ ((L.mulVec u) i)))
    (hz : zOfX F Φinv (getX Finv Φ L u) i = (L.mulVec u) i) :
    HasDerivAt (fun t => getX Finv Φ L (Function.update u j t) i)
      (jacReturnedByGetU F f Φinv φ L (getX Finv Φ L u) i j) (u j) := by
  have hlin := hasDerivAt_mulVec_update L u i j
  have h0 : (L.mulVec u) i = (L.mulVec (Function.update u j (u j))) i := by
    rw [Function.update_eq_self]
  have h1 : HasDerivAt (Φ ∘ fun t => (L.mulVec (Function.update u j t)) i)
      (φ ((L.mulVec u) i) * L i j) (u j) := hΦ.comp_of_eq (u j) hlin h0
  have h2 : HasDerivAt (Finv i ∘ (Φ ∘ fun t => (L.mulVec (Function.update u j t)) i))
      (1 / f i (Finv i (Φ ((L.mulVec u) i))) * (φ ((L.mulVec u) i) * L i j)) (u j) :=
    hFinv.comp_of_eq (u j) h1 (by simp [Function.update_eq_self])
  have hval : jacReturnedByGetU F f Φinv φ L (getX Finv Φ L u) i j
      = 1 / f i (Finv i (Φ ((L.mulVec u) i))) * (φ ((L.mulVec u) i) * L i j) := by
    unfold jacReturnedByGetU
    rw [Matrix.diagonal_mul, hz]
    unfold getX
    ring
  rw [hval]
  exact h2

/-- The matrix returned by `getU` is the Jacobian of `getX` (not of `getU`, as its docstring
says): for all `i j`, `∂ getX(u)_i / ∂ u_j = jacReturnedByGetU (getX u) i j`. -/
theorem C11_getU_matrix_is_derivative_of_getX (u : Fin n → ℝ)
    (hΦ : ∀ t, HasDerivAt Φ (φ t) t)
    (hFinv : ∀ i, HasDerivAt (Finv i) (1 / f i (Finv i (Φ ((L.mulVec u) i))))
      (Φ ((L.mulVec u) i)))
    (hz : zOfX F Φinv (getX Finv Φ L u) = L.mulVec u) :
    ∀ i j, HasDerivAt (fun t => getX Finv Φ L (Function.update u j t) i)
      (jacReturnedByGetU F f Φinv φ L (getX Finv Φ L u) i j) (u j) := fun i j =>
  C11_getU_matrix_entry_is_partial_of_getX F Finv f Φ Φinv φ L u i j (hΦ _) (hFinv i)
    (congrFun hz i)

/-- `Z( x[j ↦ t] ) = Z( x )[j ↦ Φinv (F j t)]`: the marginal map acts coordinatewise. -/
theorem zOfX_update (x : Fin n → ℝ) (j : Fin n) (t : ℝ) :
    zOfX F Φinv (Function.update x j t)
      = Function.update (zOfX F Φinv x) j (Φinv (F j t)) := by
  funext k
  by_cases hk : k = j
  · subst hk; simp [zOfX]
  · simp [zOfX, hk]

/-- Entry form: `∂ getU(x)_i / ∂ x_j` is entry `(i,j)` of the matrix that `getX` returns (at the
point `getU x`).  Full statement, all `i j` (not only the diagonal structure). -/
theorem C11_getX_matrix_entry_is_partial_of_getU (x : Fin n → ℝ) (i j : Fin n)
    (hF : HasDerivAt (F j) (f j (x j)) (x j))
    (hΦinv : HasDerivAt Φinv (1 / φ (Φinv (F j (x j)))) (F j (x j)))
    (hx : getX Finv Φ L (getU F Φinv Linv x) j = x j)
    (hz : (L.mulVec (getU F Φinv Linv x)) j = zOfX F Φinv x j) :
    HasDerivAt (fun t => getU F Φinv Linv (Function.update x j t) i)
      (jacReturnedByGetX Finv f Φ φ L Linv (getU F Φinv Linv x) i j) (x j) := by
  have h1 : HasDerivAt (Φinv ∘ F j) (1 / φ (Φinv (F j (x j))) * f j (x j)) (x j) :=
    hΦinv.comp (x j) hF
  have h2 : HasDerivAt
      (fun t => (Linv.mulVec (zOfX F Φinv x)) i + Linv i j * ((Φinv ∘ F j) t - zOfX F Φinv x j))
      (Linv i j * (1 / φ (Φinv (F j (x j))) * f j (x j))) (x j) :=
    ((h1.sub_const _).const_mul (Linv i j)).const_add _
  have hval : jacReturnedByGetX Finv f Φ φ L Linv (getU F Φinv Linv x) i j
      = Linv i j * (1 / φ (Φinv (F j (x j))) * f j (x j)) := by
    unfold jacReturnedByGetX
    rw [Matrix.mul_diagonal, hx, hz]
    unfold zOfX
    ring
  rw [hval]
  refine h2.congr_of_eventuallyEq (Filter.Eventually.of_forall fun t => ?_)
  show getU F Φinv Linv (Function.update x j t) i = _
  unfold getU
  rw [zOfX_update, mulVec_update_apply]
  rfl

/-- The matrix returned by `getX` is the Jacobian of `getU` (not of `getX`, as its docstring
says): for all `i j`, `∂ getU(x)_i / ∂ x_j = jacReturnedByGetX (getU x) i j`. -/
theorem C11_getX_matrix_is_derivative_of_getU (x : Fin n → ℝ)
    (hF : ∀ i, HasDerivAt (F i) (f i (x i)) (x i))
    (hΦinv : ∀ i, HasDerivAt Φinv (1 / φ (Φinv (F i (x i)))) (F i (x i)))
    (hx : getX Finv Φ L (getU F Φinv Linv x) = x)
    (hz : L.mulVec (getU F Φinv Linv x) = zOfX F Φinv x) :
    ∀ i j, HasDerivAt (fun t => getU F Φinv Linv (Function.update x j t) i)
      (jacReturnedByGetX Finv f Φ φ L Linv (getU F Φinv Linv x) i j) (x j) := fun i j =>
  C11_getX_matrix_entry_is_partial_of_getU F Finv f Φ Φinv φ L Linv x i j (hF j) (hΦinv j)
    (congrFun hx j) (congrFun hz j)

/-! ### 4. Independent case: `pdf` and `cdf` factorise -/

/-- If the latent density is the product of standard normal densities (identity correlation), the
Nataf density is the product of the marginal densities. -/
theorem C11_pdf_factorises (mvn : (Fin n → ℝ) → ℝ) (x : Fin n → ℝ)
    (hmvn : ∀ z, mvn z = ∏ i, φ (z i))
    (hφ : ∀ i, φ (zOfX F Φinv x i) ≠ 0) :
    pdf F f Φinv φ mvn x = ∏ i, f i (x i) := by
  unfold pdf
  rw [hmvn]
  have hprod : (∏ i, φ (zOfX F Φinv x i)) ≠ 0 := Finset.prod_ne_zero_iff.mpr fun i _ => hφ i
  field_simp

/-- If the latent cdf is the product of standard normal cdfs (identity correlation), the Nataf cdf
is the product of the marginal cdfs. -/
theorem C11_cdf_factorises (mvnCdf : (Fin n → ℝ) → ℝ) (x : Fin n → ℝ)
    (hmvnc : ∀ z, mvnCdf z = ∏ i, Φ (z i))
    (hΦ : ∀ i, Φ (Φinv (F i (x i))) = F i (x i)) :
    cdf F Φinv mvnCdf x = ∏ i, F i (x i) := by
  unfold cdf
  rw [hmvnc]
  exact Finset.prod_congr rfl fun i _ => hΦ i

/-! ### 5. Normal marginals: the latent correlation is the correlation of `X` -/

/-- With normal marginals (`Finv i (Φ z) = μ i + σ i * z`, `σ i ≠ 0`) the standardised physical
variable is the latent variable, pointwise. -/
theorem C11_normal_standardised (μ σ : Fin n → ℝ) (u : Fin n → ℝ) (i : Fin n)
    (hN : Finv i (Φ ((L.mulVec u) i)) = μ i + σ i * (L.mulVec u) i) (hσ : σ i ≠ 0) :
    (getX Finv Φ L u i - μ i) / σ i = (L.mulVec u) i := by
  unfold getX
  rw [hN]
  field_simp
  ring

/-- Normal marginals: for *any* correlation functional `C` on pairs of random variables (functions
of `u`), the standardised `X` have the same correlation as the latent `Z = L u`; and for any
linear "expectation" `E` under which the `u_k` are uncorrelated with unit second moment, that
common correlation matrix is `L * Lᵀ` (the `ρ_Z` whose Cholesky factor is `L`).  So for normal
marginals `ρ_Z = ρ_X`. -/
theorem C11_normal_latent (μ σ : Fin n → ℝ)
    (hN : ∀ i z, Finv i (Φ z) = μ i + σ i * z) (hσ : ∀ i, σ i ≠ 0) :
    (∀ i, (fun u => (getX Finv Φ L u i - μ i) / σ i) = fun u => (L.mulVec u) i) ∧
    (∀ (C : ((Fin n → ℝ) → ℝ) → ((Fin n → ℝ) → ℝ) → ℝ) i j,
      C (fun u => (getX Finv Φ L u i - μ i) / σ i) (fun u => (getX Finv Φ L u j - μ j) / σ j)
        = C (fun u => (L.mulVec u) i) (fun u => (L.mulVec u) j)) ∧
    (∀ (E : ((Fin n → ℝ) → ℝ) →ₗ[ℝ] ℝ),
      (∀ k l, E (fun u => u k * u l) = if k = l then 1 else 0) →
      ∀ i j, E (fun u => (getX Finv Φ L u i - μ i) / σ i * ((getX Finv Φ L u j - μ j) / σ j))
        = (L * Lᵀ) i j) := by
  have hpt : ∀ i, (fun u => (getX Finv Φ L u i - μ i) / σ i) = fun u => (L.mulVec u) i :=
    fun i => funext fun u => C11_normal_standardised Finv Φ L μ σ u i (hN i _) (hσ i)
  refine ⟨hpt, fun C i j => by rw [hpt i, hpt j], fun E hE i j => ?_⟩
  have hfun : (fun u : Fin n → ℝ =>
        (getX Finv Φ L u i - μ i) / σ i * ((getX Finv Φ L u j - μ j) / σ j))
      = ∑ k, ∑ l, (L i k * L j l) • (fun u : Fin n → ℝ => u k * u l) := by
    funext u
    rw [congrFun (hpt i) u, congrFun (hpt j) u]
    simp only [Matrix.mulVec, dotProduct, Finset.sum_apply, Pi.smul_apply, smul_eq_mul]
    rw [Finset.sum_mul_sum]
    refine Finset.sum_congr rfl fun k _ => Finset.sum_congr rfl fun l _ => ?_
    ring
  rw [hfun]
  simp only [map_sum, map_smul, hE, smul_eq_mul, mul_ite, mul_one, mul_zero,
    Finset.sum_ite_eq, Finset.mem_univ, if_true, Matrix.mul_apply, Matrix.transpose_apply]

/-! ### 6. Lognormal marginals: the closed form of the latent correlation -/

/-- For two lognormal marginals with log-standard-deviations `s1 s2`, latent correlation `ρZ` gives
physical correlation `(exp(ρZ s1 s2) - 1) / sqrt((exp(s1²)-1)(exp(s2²)-1))`.  The closed form
`ρZ = log(1 + ρ sqrt(..)) / (s1 s2)` inverts that relation. -/
theorem C11_lognormal_closed_form (s1 s2 ρ : ℝ) (hs1 : s1 ≠ 0) (hs2 : s2 ≠ 0)
    (hpos : 0 < 1 + ρ * Real.sqrt ((Real.exp (s1 ^ 2) - 1) * (Real.exp (s2 ^ 2) - 1))) :
    (Real.exp (Real.log (1 + ρ * Real.sqrt ((Real.exp (s1 ^ 2) - 1) * (Real.exp (s2 ^ 2) - 1)))
        / (s1 * s2) * s1 * s2) - 1)
      / Real.sqrt ((Real.exp (s1 ^ 2) - 1) * (Real.exp (s2 ^ 2) - 1)) = ρ := by
  have h1 : 0 < Real.exp (s1 ^ 2) - 1 := by
    have : 0 < s1 ^ 2 := by positivity
    have := Real.add_one_lt_exp (ne_of_gt this)
    linarith
  have h2 : 0 < Real.exp (s2 ^ 2) - 1 := by
    have : 0 < s2 ^ 2 := by positivity
    have := Real.add_one_lt_exp (ne_of_gt this)
    linarith
  have hA : 0 < Real.sqrt ((Real.exp (s1 ^ 2) - 1) * (Real.exp (s2 ^ 2) - 1)) :=
    Real.sqrt_pos.mpr (mul_pos h1 h2)
  have hexp : Real.log (1 + ρ * Real.sqrt ((Real.exp (s1 ^ 2) - 1) * (Real.exp (s2 ^ 2) - 1)))
        / (s1 * s2) * s1 * s2
      = Real.log (1 + ρ * Real.sqrt ((Real.exp (s1 ^ 2) - 1) * (Real.exp (s2 ^ 2) - 1))) := by
    field_simp
  rw [hexp, Real.exp_log hpos]
  field_simp
  ring

/-! ### Non-vacuity -/

/-- The hypotheses of the round-trip / inverse-Jacobian theorems are jointly satisfiable: one
marginal with cdf `F t = 2 t + 1`, ppf `Finv p = (p - 1) / 2`, pdf `f = 2`, and identity for the
"normal" maps, `L = Linv = 1`. -/
example :
    let F : Fin 1 → ℝ → ℝ := fun _ t => 2 * t + 1
    let Finv : Fin 1 → ℝ → ℝ := fun _ p => (p - 1) / 2
    let f : Fin 1 → ℝ → ℝ := fun _ _ => 2
    let x : Fin 1 → ℝ := fun _ => 3
    getX Finv id (1 : Matrix (Fin 1) (Fin 1) ℝ) (getU F id (1 : Matrix (Fin 1) (Fin 1) ℝ) x) = x ∧
    getU F id (1 : Matrix (Fin 1) (Fin 1) ℝ) (getX Finv id (1 : Matrix (Fin 1) (Fin 1) ℝ) x) = x ∧
    jacReturnedByGetU F f id (fun _ => 1) (1 : Matrix (Fin 1) (Fin 1) ℝ) x
      * jacReturnedByGetX Finv f id (fun _ => 1) 1 1 (getU F id 1 x) = 1 := by
  intro F Finv f x
  refine ⟨?_, ?_, ?_⟩
  · exact C11_roundtrip_X F Finv id id 1 1 x (Matrix.one_mul 1) (fun _ => rfl)
      (fun i => by simp only [F, Finv]; ring)
  · exact C11_roundtrip_U F Finv id id 1 1 x (Matrix.one_mul 1)
      (fun i => by simp only [F, Finv, id]; ring) (fun _ => rfl)
  · exact (C11_jacobians_inverse_at_getU F Finv f id id (fun _ => 1) 1 1 x (Matrix.one_mul 1)
      (Matrix.one_mul 1) (fun _ => rfl) (fun i => by simp only [F, Finv]; ring)
      (fun _ => by simp [f]) (fun _ => one_ne_zero)).1

/-- The hypotheses of the two derivative theorems are jointly satisfiable (same instance: `Φ = id`
has derivative `φ = 1`; `F` has derivative `f = 2`; `Finv` has derivative `1 / f = 1 / 2`). -/
example :
    let F : Fin 1 → ℝ → ℝ := fun _ t => 2 * t + 1
    let Finv : Fin 1 → ℝ → ℝ := fun _ p => (p - 1) / 2
    let f : Fin 1 → ℝ → ℝ := fun _ _ => 2
    let x : Fin 1 → ℝ := fun _ => 3
    (∀ i j, HasDerivAt (fun t => getX Finv id (1 : Matrix (Fin 1) (Fin 1) ℝ) (Function.update x j t) i)
      (jacReturnedByGetU F f id (fun _ => 1) 1 (getX Finv id 1 x) i j) (x j)) ∧
    (∀ i j, HasDerivAt (fun t => getU F id (1 : Matrix (Fin 1) (Fin 1) ℝ) (Function.update x j t) i)
      (jacReturnedByGetX Finv f id (fun _ => 1) 1 1 (getU F id 1 x) i j) (x j)) := by
  intro F Finv f x
  constructor
  · refine C11_getU_matrix_is_derivative_of_getX F Finv f id id (fun _ => 1) 1 x
      (fun t => hasDerivAt_id t) (fun i => ?_) ?_
    · have h := ((hasDerivAt_id ((1 : Matrix (Fin 1) (Fin 1) ℝ).mulVec x i)).sub_const 1).div_const 2
      simpa [Finv, f] using h
    · exact C11_zOfX_getX F Finv id id 1 x (fun i => by simp only [F, Finv, id]; ring)
        (fun _ => rfl)
  · refine C11_getX_matrix_is_derivative_of_getU F Finv f id id (fun _ => 1) 1 1 x
      (fun i => ?_) (fun i => ?_) ?_ ?_
    · have h := ((hasDerivAt_id (x i)).const_mul 2).add_const 1
      simpa [F, f] using h
    · simpa using hasDerivAt_id (F i (x i))
    · exact C11_roundtrip_X F Finv id id 1 1 x (Matrix.one_mul 1) (fun _ => rfl)
        (fun i => by simp only [F, Finv]; ring)
    · exact C11_L_mulVec_getU F id 1 1 (Matrix.one_mul 1) x

end Nataf
end FF
