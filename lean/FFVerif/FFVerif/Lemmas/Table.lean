/- The aggregated table is the histogram of the cycle list.  Core Lean only. -/
import FFVerif.Props.Spec
namespace FF

def KeysSorted (t : List (Nat × Nat)) : Prop := t.Pairwise (fun a b => a.1 < b.1)

theorem keysAscending_iff (t : List (Nat × Nat)) : keysAscending t = true ↔ KeysSorted t := by
  unfold KeysSorted
  induction t with
  | nil => simp [keysAscending]
  | cons a t ih =>
    cases t with
    | nil => simp [keysAscending]
    | cons b t =>
      simp only [keysAscending, Bool.and_eq_true, decide_eq_true_eq, ih]
      constructor
      · rintro ⟨hab, hs⟩
        refine List.pairwise_cons.mpr ⟨?_, hs⟩
        intro c hc
        rcases List.mem_cons.mp hc with rfl | hc
        · exact hab
        · exact Nat.lt_trans hab ((List.pairwise_cons.mp hs).1 c hc)
      · intro h
        have h' := List.pairwise_cons.mp h
        exact ⟨h'.1 b (by simp), h'.2⟩

theorem mem_tblAdd (k u : Nat) (t : List (Nat × Nat)) (p : Nat × Nat) (h : p ∈ tblAdd k u t) :
    p.1 = k ∨ p ∈ t := by
  induction t with
  | nil => simp [tblAdd] at h; left; rw [h]
  | cons a t ih =>
    obtain ⟨k', u'⟩ := a
    simp only [tblAdd] at h
    split at h
    · rcases List.mem_cons.mp h with rfl | h
      · left; rfl
      · right; exact h
    · split at h
      · rename_i hk
        rcases List.mem_cons.mp h with rfl | h
        · left; exact hk.symm
        · right; exact List.mem_cons_of_mem _ h
      · rcases List.mem_cons.mp h with rfl | h
        · right; exact List.mem_cons_self
        · rcases ih h with h | h
          · left; exact h
          · right; exact List.mem_cons_of_mem _ h

theorem tblAdd_sorted (k u : Nat) (t : List (Nat × Nat)) (h : KeysSorted t) :
    KeysSorted (tblAdd k u t) := by
  unfold KeysSorted at *
  induction t with
  | nil => simp [tblAdd]
  | cons a t ih =>
    obtain ⟨k', u'⟩ := a
    have h' := List.pairwise_cons.mp h
    simp only [tblAdd]
    split
    · rename_i hlt
      refine List.pairwise_cons.mpr ⟨?_, h⟩
      intro c hc
      rcases List.mem_cons.mp hc with rfl | hc
      · exact hlt
      · exact Nat.lt_trans hlt (h'.1 c hc)
    · split
      · exact List.pairwise_cons.mpr ⟨fun c hc => h'.1 c hc, h'.2⟩
      · rename_i h1 h2
        refine List.pairwise_cons.mpr ⟨?_, ih h'.2⟩
        intro c hc
        rcases mem_tblAdd k u t c hc with hc | hc
        · show k' < c.1
          rw [hc]; omega
        · exact h'.1 c hc

/-- total half-units stored under key `k` -/
def cnt (t : List (Nat × Nat)) (k : Nat) : Nat := ((t.filter (fun p => p.1 == k)).map (·.2)).sum

theorem cnt_cons (a : Nat × Nat) (t : List (Nat × Nat)) (k : Nat) :
    cnt (a :: t) k = (if a.1 = k then a.2 else 0) + cnt t k := by
  unfold cnt
  by_cases h : a.1 = k <;> simp [List.filter_cons, h]

theorem cnt_tblAdd (k u : Nat) (t : List (Nat × Nat)) (k' : Nat) :
    cnt (tblAdd k u t) k' = cnt t k' + (if k = k' then u else 0) := by
  induction t with
  | nil => by_cases h : k = k' <;> simp [tblAdd, cnt, List.filter_cons, h]
  | cons a t ih =>
    obtain ⟨ka, ua⟩ := a
    simp only [tblAdd]
    split
    · simp only [cnt_cons]; omega
    · split
      · rename_i _ hk
        subst hk
        simp only [cnt_cons]
        by_cases h : k = k' <;> simp [h] <;> omega
      · simp only [cnt_cons, ih]; omega

theorem unitsAt_cons (c : Cyc) (cs : List Cyc) (k : Nat) :
    unitsAt (c :: cs) k = (if c.range = k then c.units else 0) + unitsAt cs k := by
  unfold unitsAt
  by_cases h : c.range = k <;> simp [List.filter_cons, h]

theorem cnt_foldl (cs : List Cyc) (t : List (Nat × Nat)) (k : Nat) :
    cnt (cs.foldl (fun t c => tblAdd c.range c.units t) t) k = cnt t k + unitsAt cs k := by
  induction cs generalizing t with
  | nil => simp [unitsAt]
  | cons c cs ih =>
    simp only [List.foldl_cons, ih, cnt_tblAdd, unitsAt_cons]; omega

theorem cnt_table (cs : List Cyc) (k : Nat) : cnt (table cs) k = unitsAt cs k := by
  unfold table; rw [cnt_foldl]; simp [cnt]

theorem sorted_foldl (cs : List Cyc) (t : List (Nat × Nat)) (h : KeysSorted t) :
    KeysSorted (cs.foldl (fun t c => tblAdd c.range c.units t) t) := by
  induction cs generalizing t with
  | nil => simpa
  | cons c cs ih => exact ih _ (tblAdd_sorted _ _ _ h)

theorem table_sorted (cs : List Cyc) : KeysSorted (table cs) :=
  sorted_foldl cs [] (by simp [KeysSorted])

theorem cnt_of_not_mem (t : List (Nat × Nat)) (k : Nat) (h : ∀ p ∈ t, p.1 ≠ k) : cnt t k = 0 := by
  induction t with
  | nil => simp [cnt]
  | cons a t ih =>
    rw [cnt_cons, ih (fun p hp => h p (List.mem_cons_of_mem _ hp))]
    simp [h a List.mem_cons_self]

theorem cnt_of_mem (t : List (Nat × Nat)) (hs : KeysSorted t) (p : Nat × Nat) (hp : p ∈ t) :
    cnt t p.1 = p.2 := by
  unfold KeysSorted at hs
  induction t with
  | nil => cases hp
  | cons a t ih =>
    have h' := List.pairwise_cons.mp hs
    rw [cnt_cons]
    rcases List.mem_cons.mp hp with rfl | hp
    · rw [cnt_of_not_mem t p.1 (fun q hq => by have := h'.1 q hq; omega)]; simp
    · have := h'.1 p hp
      rw [ih h'.2 hp]
      have : a.1 ≠ p.1 := by omega
      simp [this]

theorem tblAdd_pos (k u : Nat) (hu : 0 < u) (t : List (Nat × Nat)) (h : ∀ p ∈ t, 0 < p.2) :
    ∀ p ∈ tblAdd k u t, 0 < p.2 := by
  induction t with
  | nil => intro p hp; simp [tblAdd] at hp; rw [hp]; exact hu
  | cons a t ih =>
    obtain ⟨ka, ua⟩ := a
    have ha : 0 < ua := h (ka, ua) List.mem_cons_self
    have ht : ∀ p ∈ t, 0 < p.2 := fun p hp => h p (List.mem_cons_of_mem _ hp)
    intro p hp
    simp only [tblAdd] at hp
    split at hp
    · rcases List.mem_cons.mp hp with rfl | hp
      · exact hu
      · exact h p hp
    · split at hp
      · rcases List.mem_cons.mp hp with rfl | hp
        · show 0 < ua + u; omega
        · exact ht p hp
      · rcases List.mem_cons.mp hp with rfl | hp
        · exact ha
        · exact ih ht p hp

theorem Cyc.units_pos (c : Cyc) : 0 < c.units := by unfold Cyc.units; split <;> omega

theorem pos_foldl (cs : List Cyc) (t : List (Nat × Nat)) (h : ∀ p ∈ t, 0 < p.2) :
    ∀ p ∈ cs.foldl (fun t c => tblAdd c.range c.units t) t, 0 < p.2 := by
  induction cs generalizing t with
  | nil => exact h
  | cons c cs ih => exact ih _ (tblAdd_pos _ _ c.units_pos _ h)

theorem table_pos (cs : List Cyc) : ∀ p ∈ table cs, 0 < p.2 :=
  pos_foldl cs [] (by simp)

theorem unitsAt_pos_of_mem (cs : List Cyc) (c : Cyc) (h : c ∈ cs) : 0 < unitsAt cs c.range := by
  induction cs with
  | nil => cases h
  | cons d cs ih =>
    rw [unitsAt_cons]
    rcases List.mem_cons.mp h with rfl | h
    · have := c.units_pos; simp; omega
    · have := ih h; omega

/-- the table computed by the model is exactly the histogram of the cycle list -/
theorem isHistogram_table (cs : List Cyc) : isHistogram cs (table cs) = true := by
  unfold isHistogram
  simp only [Bool.and_eq_true, List.all_eq_true, List.any_eq_true, decide_eq_true_eq, beq_iff_eq]
  refine ⟨⟨(keysAscending_iff _).mpr (table_sorted cs), ?_⟩, ?_⟩
  · intro p hp
    exact ⟨table_pos cs p hp, by rw [← cnt_table, cnt_of_mem _ (table_sorted cs) p hp]⟩
  · intro c hc
    have hpos := unitsAt_pos_of_mem cs c hc
    rw [← cnt_table] at hpos
    -- some entry has that key, else cnt would be 0
    refine Classical.byContradiction fun hne => ?_
    have : cnt (table cs) c.range = 0 := cnt_of_not_mem _ _ (fun p hp he => hne ⟨p, hp, he⟩)
    omega

end FF
