/- The linear-algebra helpers of `Model/Linalg.lean`: storing is the identity (any scalar), and at the
reals the folds are `Finset` sums. -/
import Mathlib.Algebra.BigOperators.Intervals
import Mathlib.Algebra.Order.BigOperators.Ring.Finset
import Mathlib.Analysis.SpecialFunctions.Sqrt
import Mathlib.Tactic.Ring
import Mathlib.Tactic.Linarith
import Mathlib.Analysis.SpecialFunctions.Pow.Real
import FFVerif.Lemmas.RealScalar
import FFVerif.Model.Linalg
namespace FF.Linalg
open Finset

section generic
variable {α : Type}

@[simp] theorem ofArr_mkArr (n : Nat) (f : Vec α) : ofArr (mkArr n f) f = f := by
  funext i
  unfold ofArr mkArr
  split
  · simp
  · rfl

@[simp] theorem ofArr2_mkArr2 (n : Nat) (f : Mat α) : ofArr2 (mkArr2 n f) f = f := by
  funext i j
  unfold ofArr2 mkArr2
  split
  · split
    · simp [mkArr]
    · rfl
  · rfl

end generic

@[simp] theorem zero_real : (zero : ℝ) = 0 := by simp [zero]
@[simp] theorem one_real : (one : ℝ) = 1 := by simp [one]

theorem fsum_real (n : Nat) (f : Nat → ℝ) : fsum n f = ∑ i ∈ range n, f i := by
  unfold fsum
  induction n with
  | zero => simp
  | succ k ih => rw [List.range_succ, List.foldl_append, ih, Finset.sum_range_succ]; simp

theorem dot_real (n : Nat) (a b : Vec ℝ) : dot n a b = ∑ i ∈ range n, a i * b i := by
  unfold dot; rw [fsum_real]

theorem dot_self_nonneg (n : Nat) (a : Vec ℝ) : 0 ≤ dot n a a := by
  rw [dot_real]; exact Finset.sum_nonneg (fun i _ => mul_self_nonneg _)

theorem norm_real (n : Nat) (a : Vec ℝ) : norm n a = Real.sqrt (∑ i ∈ range n, a i * a i) := by
  unfold norm; rw [dot_real]; rfl

theorem norm_nonneg (n : Nat) (a : Vec ℝ) : 0 ≤ norm n a := by
  rw [norm_real]; exact Real.sqrt_nonneg _

theorem norm_sq (n : Nat) (a : Vec ℝ) : norm n a * norm n a = dot n a a := by
  unfold norm; exact Real.mul_self_sqrt (dot_self_nonneg n a)

theorem mulVec_real (n : Nat) (M : Mat ℝ) (v : Vec ℝ) (i : Nat) :
    mulVec n M v i = ∑ j ∈ range n, M i j * v j := by
  unfold mulVec; rw [dot_real]

theorem tmulVec_real (n : Nat) (M : Mat ℝ) (v : Vec ℝ) (j : Nat) :
    tmulVec n M v j = ∑ i ∈ range n, M i j * v i := by
  unfold tmulVec; rw [fsum_real]

theorem mmul_real (n : Nat) (A B : Mat ℝ) (i j : Nat) :
    mmul n A B i j = ∑ k ∈ range n, A i k * B k j := by
  unfold mmul; rw [fsum_real]

/-- `dot` is symmetric -/
theorem dot_comm (n : Nat) (a b : Vec ℝ) : dot n a b = dot n b a := by
  simp only [dot_real]; exact Finset.sum_congr rfl (fun i _ => mul_comm _ _)

/-- `⟨u, Mᵀ v⟩ = ⟨M u, v⟩` -/
theorem dot_tmulVec (n : Nat) (M : Mat ℝ) (u v : Vec ℝ) :
    dot n u (tmulVec n M v) = dot n (mulVec n M u) v := by
  simp only [dot_real, tmulVec_real, mulVec_real, Finset.mul_sum, Finset.sum_mul]
  rw [Finset.sum_comm]
  refine Finset.sum_congr rfl (fun i _ => Finset.sum_congr rfl (fun j _ => ?_))
  ring

end FF.Linalg
