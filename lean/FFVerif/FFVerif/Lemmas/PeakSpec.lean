/- Peak counting on the reversal sequence lists exactly the counted local extrema of the
de-plateaued history.  Core Lean only. -/
import FFVerif.Lemmas.PeakValley
import FFVerif.Props.C05
namespace FF
open C05

def NoRep : List Int → Prop
  | a :: b :: rest => a ≠ b ∧ NoRep (b :: rest)
  | _ => True

theorem dedup_noRep : ∀ l : List Int, NoRep (dedup l)
  | [] => by simp [dedup, NoRep]
  | [_] => by simp [dedup, NoRep]
  | a :: b :: rest => by
    by_cases h : a = b
    · subst h; rw [dedup_cons_eq]; exact dedup_noRep (a :: rest)
    · rw [dedup_cons_ne a b rest h]
      obtain ⟨t, ht⟩ := dedup_head b rest
      have := dedup_noRep (b :: rest)
      rw [ht] at this ⊢
      exact ⟨h, this⟩

theorem lastD_dedup : ∀ (l : List Int) (d : Int), lastD (dedup l) d = lastD l d
  | [], _ => rfl
  | [_], _ => rfl
  | a :: b :: rest, d => by
    by_cases h : a = b
    · subst h; rw [dedup_cons_eq]
      have := lastD_dedup (a :: rest) d
      simpa [lastD] using this
    · rw [dedup_cons_ne a b rest h]
      have := lastD_dedup (b :: rest) a
      simpa [lastD] using this

/-- after a kept point `b` the next kept point lies on the side the record leaves `b` -/
theorem next_kept : ∀ (rest : List Int) (b c : Int), NoRep (b :: c :: rest) →
    ∃ n t, turning (b :: c :: rest) ++ [lastD (c :: rest) b] = n :: t ∧
      (b > c → n < b) ∧ (b < c → n > b)
  | [], b, c, _ => ⟨c, [], by simp [turning, lastD], fun h => h, fun h => h⟩
  | d :: rest, b, c, h => by
    obtain ⟨n, t, e, h1, h2⟩ := next_kept rest c d h.2
    have hcd : c ≠ d := h.2.1
    by_cases hk : (b < c ∧ c > d) ∨ (b > c ∧ c < d)
    · refine ⟨c, turning (c :: d :: rest) ++ [lastD (d :: rest) c], ?_, by omega, by omega⟩
      simp [turning, hk, lastD]
    · refine ⟨n, t, ?_, ?_, ?_⟩
      · simp only [turning, if_neg hk]
        exact e
      · intro hbc; have := h1 (by omega); omega
      · intro hbc; have := h2 (by omega); omega

theorem peakGo_turning (ref : Int) : ∀ (rest : List Int) (a b a' : Int), NoRep (a :: b :: rest) →
    (a' < b ↔ a < b) → (a' > b ↔ a > b) →
    peakGo ref (a' :: (turning (a :: b :: rest) ++ [lastD (b :: rest) a])) = extremaSpec ref (a :: b :: rest)
  | [], a, b, a', _, _, _ => by simp [turning, lastD, peakGo, extremaSpec]
  | c :: rest, a, b, a', h, s1, s2 => by
    obtain ⟨n, t, e, h1, h2⟩ := next_kept rest b c h.2
    have hab : a ≠ b := h.1
    have hbc : b ≠ c := h.2.1
    have hl : lastD (b :: c :: rest) a = lastD (c :: rest) b := rfl
    by_cases hk : (a < b ∧ b > c) ∨ (a > b ∧ b < c)
    · have ih := peakGo_turning ref rest b c b h.2 Iff.rfl Iff.rfl
      simp only [turning, if_pos hk, hl, List.cons_append, e]
      rw [e] at ih
      simp only [peakGo, ih, extremaSpec]
      have hc : ((a' < b ∧ b > n ∧ b ≥ ref) ∨ (a' > b ∧ b < n ∧ b < ref)) ↔
          ((a < b ∧ b > c ∧ b ≥ ref) ∨ (a > b ∧ b < c ∧ b < ref)) := by
        constructor <;> intro hh <;> omega
      by_cases hh : (a < b ∧ b > c ∧ b ≥ ref) ∨ (a > b ∧ b < c ∧ b < ref)
      · rw [if_pos (hc.mpr hh), if_pos hh]; rfl
      · rw [if_neg (fun x => hh (hc.mp x)), if_neg hh]; rfl
    · have ih := peakGo_turning ref rest b c a' h.2 (by omega) (by omega)
      simp only [turning, if_neg hk, hl]
      rw [ih]
      have hh : ¬ ((a < b ∧ b > c ∧ b ≥ ref) ∨ (a > b ∧ b < c ∧ b < ref)) := by omega
      simp only [extremaSpec, if_neg hh, List.nil_append]

/-- `astmPeakCounting` (model) lists exactly the counted local extrema, in time order -/
theorem peakSeq_eq_extrema (h : List Int) (ref : Int) : peakSeq h ref = extremaSpec ref (dedup h) := by
  unfold peakSeq
  rw [pv_true_eq_reversals]
  match h with
  | [] => simp [reversals, peakGo, dedup, extremaSpec]
  | [x] => simp [reversals, peakGo, dedup, extremaSpec]
  | x :: y :: rest =>
    simp only [reversals]
    obtain ⟨t, ht⟩ := dedup_head x (y :: rest)
    have hn := dedup_noRep (x :: y :: rest)
    have hl := lastD_dedup (x :: y :: rest) x
    rw [ht] at hn hl ⊢
    have hl' : lastD (y :: rest) x = lastD t x := by simpa [lastD] using hl.symm
    rw [hl']
    match t, hn with
    | [], _ => simp [turning, peakGo, extremaSpec, lastD]
    | b :: t', hn =>
      have := peakGo_turning ref t' x b x hn Iff.rfl Iff.rfl
      simpa [lastD] using this

end FF
