/- Rainflow: the largest counted range is the overall range of the history.  Core Lean only. -/
import FFVerif.Lemmas.Census
import FFVerif.Lemmas.Filter
import FFVerif.Lemmas.Table
import FFVerif.Props.C01
namespace FF

/-! ### arithmetic of the two removal rules -/

/-- dropping `a` (and `b`) of `a,b,c` with `rng a b ≤ rng b c`: if `a` is extreme then so is `c`;
`b` is handled by `drop_b` -/
theorem drop_a {up : Bool} {a b c M m : Int} (h1 : rel up a b) (h2 : rel (!up) b c)
    (hr : rng a b ≤ rng b c) (hc : m ≤ c ∧ c ≤ M) (ha : m ≤ a ∧ a ≤ M)
    (hb : m ≤ b ∧ b ≤ M) :
    (a = M → c = M) ∧ (a = m → c = m) := by
  constructor <;> intro h <;> subst h <;> unfold rel rng at * <;> cases up <;> simp at * <;> omega

/-- `b` of `r,a,b` with `rng a b < rng r a` is never extreme -/
theorem drop_b {up : Bool} {r a b M m : Int} (h1 : rel up r a) (h2 : rel (!up) a b)
    (hr : rng a b < rng r a) (hc : m ≤ r ∧ r ≤ M) (ha : m ≤ a ∧ a ≤ M) : b ≠ M ∧ b ≠ m := by
  unfold rel rng at *; cases up <;> simp at * <;> omega

theorem Dec_short : ∀ (l : List Int), l.length ≤ 2 → Dec l
  | [], _ => by simp [Dec]
  | [_], _ => by simp [Dec]
  | [_, _], _ => by simp [Dec]
  | _ :: _ :: _ :: _, h => by simp at h

/-! ### a strictly decreasing alternating sequence lies between its first two points -/

theorem DecZig_between : ∀ (t : List Int) (up : Bool) (x0 x1 : Int),
    ZigD up (x0 :: x1 :: t) → Dec (x0 :: x1 :: t) →
    ∀ y ∈ t, min x0 x1 ≤ y ∧ y ≤ max x0 x1
  | [], _, _, _, _, _, y, hy => by cases hy
  | x2 :: t, up, x0, x1, hz, hd, y, hy => by
    have ih := DecZig_between t (!up) x1 x2 hz.2 hd.2
    have h1 : rel up x0 x1 := hz.1
    have h2 : rel (!up) x1 x2 := hz.2.1
    have h3 : rng x1 x2 < rng x0 x1 := hd.1
    have hx2 : min x0 x1 ≤ x2 ∧ x2 ≤ max x0 x1 := by
      unfold rel rng at *; cases up <;> simp at * <;> omega
    rcases List.mem_cons.mp hy with rfl | hy
    · exact hx2
    · have := ih y hy
      unfold rel rng at *; cases up <;> simp at * <;> omega

/-- the first half cycle of the residue spans the whole residue -/
theorem halves_max (L : List Int) (M m : Int) (hmM : m < M) (hz : Zig L) (hd : Dec L)
    (hb : ∀ x ∈ L, m ≤ x ∧ x ≤ M) (hM : M ∈ L) (hm : m ∈ L) :
    ∃ c ∈ halves L, c.range = (M - m).toNat := by
  match L, hz, hd, hb, hM, hm with
  | [], _, _, _, hM, _ => cases hM
  | [x], _, _, _, hM, hm =>
    simp only [List.mem_singleton] at hM hm; omega
  | x0 :: x1 :: t, hz, hd, hb, hM, hm =>
    refine ⟨⟨x0, x1, true⟩, by simp [halves], ?_⟩
    have b0 := hb x0 (by simp)
    have b1 := hb x1 (by simp)
    have hbt : ∀ y ∈ t, min x0 x1 ≤ y ∧ y ≤ max x0 x1 := by
      rcases hz with hz | hz
      · exact DecZig_between t _ x0 x1 hz hd
      · exact DecZig_between t _ x0 x1 hz hd
    have hMax : max x0 x1 = M := by
      simp only [List.mem_cons] at hM
      rcases hM with h | h | h
      · omega
      · omega
      · have := hbt M h; omega
    have hMin : min x0 x1 = m := by
      simp only [List.mem_cons] at hm
      rcases hm with h | h | h
      · omega
      · omega
      · have := hbt m h; omega
    show rng x0 x1 = (M - m).toNat
    unfold rng; omega

/-! ### the loop keeps both extremes in the live sequence -/

theorem implGo_max (M m : Int) (hmM : m < M) (A B : List Int) (flag : Bool) (out : List Cyc)
    (hz : Zig (A ++ B)) (hd : Dec (A ++ B.take 2)) (hf : flag = A.isEmpty)
    (hb : ∀ x ∈ A ++ B, m ≤ x ∧ x ≤ M) (hM : M ∈ A ++ B) (hm : m ∈ A ++ B) :
    ∃ c ∈ implGo A B flag out, c.range = (M - m).toNat := by
  fun_induction implGo A B flag out with
  | case1 A out a b c rest hge ih =>
    have hA : A = [] := by simpa using hf.symm
    subst hA
    simp only [List.nil_append] at hz hb hM hm
    have ba := hb a (by simp)
    have bb := hb b (by simp)
    have bc := hb c (by simp)
    have keep : (a = M → c = M) ∧ (a = m → c = m) := by
      rcases hz with hz | hz
      · exact drop_a hz.1 hz.2.1 hge bc ba bb
      · exact drop_a hz.1 hz.2.1 hge bc ba bb
    refine ih (by simpa using Zig_tail hz) (by simp [Dec]) rfl ?_ ?_ ?_
    · intro x hx; exact hb x (by simp at hx ⊢; grind)
    · simp at hM ⊢; grind
    · simp at hm ⊢; grind
  | case2 A flag out a b c rest hge hfl ih =>
    have hfl' : flag = false := by simpa using hfl
    subst hfl'
    have hA : A ≠ [] := by intro e; subst e; simp at hf
    rcases List.eq_nil_or_concat A with e | ⟨A', r, e⟩
    · exact absurd e hA
    · have eA : A = A' ++ [r] := by simpa using e
      have hz4 : Zig (r :: a :: b :: c :: rest) := Zig_suffix A' (by simpa [eA] using hz)
      have hd3 : rng a b < rng r a := Dec_head3 A' r a b [] (by simpa [eA] using hd)
      have ba := hb a (by simp)
      have bb := hb b (by simp)
      have bc := hb c (by simp)
      have br := hb r (by simp [eA])
      have keepa : (a = M → c = M) ∧ (a = m → c = m) := by
        rcases hz4 with h | h
        · exact drop_a h.2.1 (by simpa using h.2.2.1) hge bc ba bb
        · exact drop_a h.2.1 (by simpa using h.2.2.1) hge bc ba bb
      have keepb : b ≠ M ∧ b ≠ m := by
        rcases hz4 with h | h
        · exact drop_b h.1 h.2.1 hd3 br ba
        · exact drop_b h.1 h.2.1 hd3 br ba
      refine ih (by simpa using Zig_remove_after A a b c rest hz (by omega))
        (by simpa using Dec_short _ (by simp; omega)) rfl ?_ ?_ ?_
      · intro x hx; exact hb x (by simp at hx ⊢; grind)
      · simp at hM ⊢; grind
      · simp at hm ⊢; grind
  | case3 A flag out a b c rest hlt ih =>
    have hlt' : rng b c < rng a b := by omega
    refine ih (by simpa using hz) ?_ (by simp) ?_ ?_ ?_
    · have := Dec_snoc A a b c (by simpa using hd) hlt'
      simpa using this
    · intro x hx; exact hb x (by simpa using hx)
    · simpa using hM
    · simpa using hm
  | case4 A B flag out hB =>
    have hB2 : B.take 2 = B := by
      match B, hB with
      | [], _ => rfl
      | [_], _ => rfl
      | [_, _], _ => rfl
      | a :: b :: c :: rest, hB => exact (hB a b c rest rfl).elim
    rw [hB2] at hd
    obtain ⟨c, hc, hr⟩ := halves_max (A ++ B) M m hmM hz hd hb hM hm
    exact ⟨c, List.mem_append_right _ hc, hr⟩

/-! ### a non-constant history has `min < max` -/

theorem nonconst_min_lt_max (h : List Int) (hc : isConstant h = false) : listMin h < listMax h := by
  match h, hc with
  | [], hc => simp [isConstant] at hc
  | x :: xs, hc =>
    simp only [isConstant, List.all_eq_false, beq_iff_eq] at hc
    obtain ⟨y, hy, hne⟩ := hc
    have hx' : x ∈ x :: xs := by simp
    have hy' : y ∈ x :: xs := List.mem_cons_of_mem _ hy
    have := le_listMax hx'; have := le_listMax hy'
    have := listMin_le hx'; have := listMin_le hy'
    omega

/-- some counted cycle has range exactly `span h` -/
theorem rainflow_has_span (h : List Int) (hc : isConstant h = false) :
    ∃ c ∈ rainflow h, c.range = span h := by
  have hne : h ≠ [] := by intro e; subst e; simp [isConstant] at hc
  have hpne : pv true h ≠ [] := by
    cases h with
    | nil => exact absurd rfl hne
    | cons x r => simp [pv]
  obtain ⟨eM, em⟩ := pv_true_extremes h
  have hlt := nonconst_min_lt_max h hc
  have := implGo_max (listMax h) (listMin h) hlt [] (pv true h) true []
    (by simpa using pv_zig h hc)
    (by
      match pv true h with
      | [] => simp [Dec]
      | [_] => simp [Dec]
      | _ :: _ :: _ => simp [Dec])
    rfl
    (by
      intro x hx
      simp only [List.nil_append] at hx
      have h1 := le_listMax hx; have h2 := listMin_le hx
      rw [eM] at h1; rw [em] at h2; exact ⟨h2, h1⟩)
    (by simpa [eM] using listMax_mem _ hpne)
    (by simpa [em] using listMin_mem _ hpne)
  simpa [rainflow, span] using this

/-- every counted range is at most `span h` -/
theorem rainflow_le_span (h : List Int) (hc : isConstant h = false) :
    ∀ c ∈ rainflow h, c.range ≤ span h := by
  intro c hcm
  rcases implGo_good [] (pv true h) true [] (by simpa using pv_zig h hc) c hcm with h' | h'
  · cases h'
  · have g : Good (pv true h) c := by simpa using h'
    exact rng_le_span ((pv_sublist true h).subset g.1) ((pv_sublist true h).subset g.2.1)

/-! ### the last key of a sorted table is its largest key -/

theorem pairwise_getLast {α : Type} (R : α → α → Prop) : ∀ (l : List α) (hne : l ≠ []),
    l.Pairwise R → ∀ x ∈ l, x = l.getLast hne ∨ R x (l.getLast hne)
  | [a], _, _, x, hx => by simp at hx; left; simpa using hx
  | a :: b :: t, _, hp, x, hx => by
    have hp' := List.pairwise_cons.mp hp
    rw [List.getLast_cons (by simp : b :: t ≠ [])]
    rcases List.mem_cons.mp hx with rfl | hx
    · right; exact hp'.1 _ (List.getLast_mem _)
    · exact pairwise_getLast R (b :: t) (by simp) hp'.2 x hx

theorem unitsAt_pos_mem (cs : List Cyc) (k : Nat) (h : 0 < unitsAt cs k) :
    ∃ c ∈ cs, c.range = k := by
  induction cs with
  | nil => simp [unitsAt] at h
  | cons d cs ih =>
    rw [unitsAt_cons] at h
    by_cases e : d.range = k
    · exact ⟨d, by simp, e⟩
    · simp only [e, if_false, Nat.zero_add] at h
      obtain ⟨c, hc, hr⟩ := ih h
      exact ⟨c, List.mem_cons_of_mem _ hc, hr⟩

/-- if some cycle has range `k` and no cycle has a larger range, the last key of the table is `k` -/
theorem table_getLast (cs : List Cyc) (k : Nat) (hex : ∃ c ∈ cs, c.range = k)
    (hle : ∀ c ∈ cs, c.range ≤ k) : ∃ p, (table cs).getLast? = some p ∧ p.1 = k := by
  obtain ⟨c, hc, hr⟩ := hex
  have hpos : 0 < cnt (table cs) k := by
    rw [cnt_table, ← hr]; exact unitsAt_pos_of_mem cs c hc
  -- some entry has key k
  have hkey : ∃ p ∈ table cs, p.1 = k := by
    refine Classical.byContradiction fun hne => ?_
    have : cnt (table cs) k = 0 := cnt_of_not_mem _ _ (fun p hp he => hne ⟨p, hp, he⟩)
    omega
  obtain ⟨p, hp, hpk⟩ := hkey
  have hne : table cs ≠ [] := by intro e; rw [e] at hp; cases hp
  refine ⟨(table cs).getLast hne, List.getLast?_eq_some_getLast hne, ?_⟩
  have hl : (table cs).getLast hne ∈ table cs := List.getLast_mem _
  -- the last key is the range of some cycle, hence ≤ k
  have hlk : ((table cs).getLast hne).1 ≤ k := by
    have h1 := cnt_of_mem _ (table_sorted cs) _ hl
    have h2 := table_pos cs _ hl
    rw [cnt_table] at h1
    obtain ⟨d, hd, hdr⟩ := unitsAt_pos_mem cs ((table cs).getLast hne).1 (by omega)
    rw [← hdr]; exact hle d hd
  rcases pairwise_getLast _ (table cs) hne (table_sorted cs) p hp with e | e
  · rw [← e]; exact hpk
  · have : p.1 < ((table cs).getLast hne).1 := e
    omega

/-- C01, maxrange clause: the largest counted range is the overall range of the history -/
theorem C01_maxrange (h : List Int) (hc : isConstant h = false) :
    C01.maxRangeOK h (table (rainflow h)) = true := by
  obtain ⟨p, hp, hk⟩ := table_getLast (rainflow h) (span h) (rainflow_has_span h hc)
    (rainflow_le_span h hc)
  unfold C01.maxRangeOK
  rw [hp]; simp [hk]

end FF
