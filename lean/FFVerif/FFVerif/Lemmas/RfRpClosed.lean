/- Rainflow versus range-pair forward pass on a reversal sequence that starts at a global extreme:
exact accounting of the counted ranges.  Core Lean only. -/
import FFVerif.Lemmas.RfRp
namespace FF

/-- `x` lies on the inner side of the extreme value `M` (`up`: `M` is a maximum) -/
def bd (up : Bool) (M x : Int) : Prop := if up then x ≤ M else M ≤ x

/-! ### what `reduce` preserves -/

theorem reduce_spec (st : List Int) (o : List Cyc) (Q : List Int) (hz : Zig (st.reverse ++ Q))
    (hd : DecR st.tail) :
    Zig ((reduce st o).1.reverse ++ Q) ∧ (∀ x ∈ (reduce st o).1, x ∈ st) ∧ DecR (reduce st o).1 ∧
    (reduce st o).1.head? = st.head? := by
  fun_induction reduce st o with
  | case1 c b a o h => exact ⟨hz, fun x hx => hx, ⟨h, by simp [DecR]⟩, rfl⟩
  | case2 c b a o h ih =>
    rw [reduce_two]
    refine ⟨?_, ?_, by simp [DecR], rfl⟩
    · have : Zig ([a] ++ (b :: c :: Q)) := by simpa using hz
      simpa using Zig_suffix [a] this
    · intro x hx; simp at hx ⊢; grind
  | case3 c b a r rest o h => exact ⟨hz, fun x hx => hx, ⟨h, by simpa using hd⟩, rfl⟩
  | case4 c b a r rest o h ih =>
    have hz0 : Zig ((r :: rest).reverse ++ a :: b :: c :: Q) := by simpa using hz
    have hz' : Zig ((c :: r :: rest).reverse ++ Q) := by
      simpa using Zig_remove_after (r :: rest).reverse a b c Q hz0 (by omega)
    have hd' : DecR (b :: a :: r :: rest) := by simpa using hd
    obtain ⟨i1, i2, i3, i4⟩ := ih hz' (by simpa using DecR_tail (DecR_tail hd'))
    refine ⟨i1, ?_, i3, by simpa using i4⟩
    intro x hx; have := i2 x hx; simp at this ⊢; grind
  | case5 st o h1 h2 =>
    refine ⟨hz, fun x hx => hx, ?_, rfl⟩
    match st, h1, h2 with
    | [], _, _ => simp [DecR]
    | [_], _, _ => simp [DecR]
    | [_, _], _, _ => simp [DecR]
    | [c, b, a], h1, _ => exact (h1 c b a rfl).elim
    | c :: b :: a :: r :: rest, _, h2 => exact (h2 c b a r rest rfl).elim

/-! ### arithmetic at the extreme -/

/-- F1: a range starting at the extreme `M` can only be matched by a return to `M` -/
theorem ext_fire {up : Bool} {M b c : Int} (hz : Zig [M, b, c]) (hb : bd up M b) (hc : bd up M c)
    (h : rng M b ≤ rng b c) : c = M := by
  rcases hz with hz | hz <;> obtain ⟨h1, h2, _⟩ := hz <;>
    unfold rel rng bd at * <;> cases up <;> simp at * <;> omega

/-- F2: a stack (newest first) with increasing ranges whose newest point is the extreme has at
most two points -/
theorem ext_top {up : Bool} {M x y : Int} (rest : List Int) (hz : Zig (y :: x :: M :: []))
    (hx : bd up M x) (hy : bd up M y) (hd : DecR (M :: x :: y :: rest)) : False := by
  have hd1 : rng x M < rng y x := hd.1
  rcases hz with hz | hz <;> obtain ⟨h1, h2, _⟩ := hz <;>
    unfold rel rng bd at * <;> cases up <;> simp at * <;> omega

/-! ### the exact simulation invariant -/

/-- either both stacks coincide and end (oldest point) at `M` with identical range counts, or the
rainflow stack has one more (oldest) point `z` below `M` and range-pair is one half-unit ahead at
the range `z–M` -/
def CInv (M : Int) (st st' : List Int) (o o' : List Cyc) : Prop :=
  (st' = st ∧ st.getLast? = some M ∧ ∀ k, unitsAt o' k = unitsAt o k) ∨
  (∃ T z, st' = T ++ [M] ∧ st = T ++ [M, z] ∧
    ∀ k, unitsAt o' k = unitsAt o k + if rng z M = k then 1 else 0)

theorem rng_comm' (a b : Int) : rng a b = rng b a := by unfold rng; omega

theorem csim_eq (up : Bool) (M : Int) (st : List Int) (o o' : List Cyc)
    (hl : st.getLast? = some M) (hz : Zig st.reverse) (hb : ∀ x ∈ st, bd up M x)
    (hu : ∀ k, unitsAt o' k = unitsAt o k) :
    CInv M (reduce st o).1 (rpReduce st o').1 (reduce st o).2 (rpReduce st o').2 := by
  fun_induction reduce st o generalizing o' with
  | case1 c b a o h =>
    rw [rpReduce_stay c b a [] o' (by omega)]
    exact Or.inl ⟨rfl, hl, hu⟩
  | case2 c b a o h ih =>
    rw [reduce_two, rpReduce_fire c b a [] o' (by omega), rpReduce_short _ _ (by simp)]
    have ha : a = M := by simpa using hl
    subst ha
    have hc : c = a := ext_fire (up := up) (by simpa using hz) (hb b (by simp)) (hb c (by simp)) (by omega)
    subst hc
    refine Or.inr ⟨[], b, rfl, rfl, ?_⟩
    intro k
    rw [unitsAt_append, unitsAt_append, hu k, unitsAt_single, unitsAt_single]
    simp only [Cyc.range, Cyc.units, rng_comm' b c]
    by_cases hk : rng c b = k <;> simp [hk]
  | case3 c b a r rest o h =>
    rw [rpReduce_stay c b a _ o' (by omega)]
    exact Or.inl ⟨rfl, hl, hu⟩
  | case4 c b a r rest o h ih =>
    rw [rpReduce_fire c b a _ o' (by omega)]
    have hz0 : Zig ((r :: rest).reverse ++ a :: b :: c :: []) := by simpa using hz
    have hz' : Zig (c :: r :: rest).reverse := by
      simpa using Zig_remove_after (r :: rest).reverse a b c [] hz0 (by omega)
    refine ih _ ?_ hz' ?_ ?_
    · simpa [List.getLast?_cons_cons] using hl
    · intro x hx; exact hb x (by simp at hx ⊢; grind)
    · intro k; rw [unitsAt_append, unitsAt_append, hu k]
  | case5 st o h1 h2 =>
    have hlen : st.length ≤ 2 := by
      match st, h1, h2 with
      | [], _, _ => simp
      | [_], _, _ => simp
      | [_, _], _, _ => simp
      | [c, b, a], h1, _ => exact (h1 c b a rfl).elim
      | c :: b :: a :: r :: rest, _, h2 => exact (h2 c b a r rest rfl).elim
    rw [rpReduce_short _ _ hlen]
    exact Or.inl ⟨rfl, hl, hu⟩

theorem csim_df (up : Bool) (M : Int) (st' : List Int) (z : Int) (o o' : List Cyc)
    (hl : st'.getLast? = some M) (hz : Zig (st' ++ [z]).reverse) (hb : ∀ x ∈ st', bd up M x)
    (hu : ∀ k, unitsAt o' k = unitsAt o k + if rng z M = k then 1 else 0) :
    CInv M (reduce (st' ++ [z]) o).1 (rpReduce st' o').1 (reduce (st' ++ [z]) o).2 (rpReduce st' o').2 := by
  fun_induction rpReduce st' o' generalizing o with
  | case1 c b a rest o' hle ih =>
    cases rest with
    | nil =>
      simp only [List.cons_append, List.nil_append]
      rw [reduce_fire4 c b a z [] o (by omega), reduce_two, rpReduce_short _ _ (by simp)]
      have ha : a = M := by simpa using hl
      subst ha
      have hz3 : Zig [a, b, c] := by
        have : Zig ([z] ++ [a, b, c]) := by simpa using hz
        exact Zig_suffix [z] this
      have hc : c = a := ext_fire (up := up) hz3 (hb b (by simp)) (hb c (by simp)) hle
      subst hc
      refine Or.inr ⟨[], z, rfl, rfl, ?_⟩
      intro k; rw [unitsAt_append, unitsAt_append, hu k]; omega
    | cons r rest =>
      simp only [List.cons_append]
      rw [reduce_fire4 c b a r _ o (by omega)]
      have hz0 : Zig ((z :: (r :: rest).reverse) ++ a :: b :: c :: []) := by simpa using hz
      have hz' : Zig ((c :: r :: rest) ++ [z]).reverse := by
        simpa using Zig_remove_after (z :: (r :: rest).reverse) a b c [] hz0 hle
      refine ih _ ?_ hz' ?_ ?_
      · simpa [List.getLast?_cons_cons] using hl
      · intro x hx; exact hb x (by simp at hx ⊢; grind)
      · intro k; rw [unitsAt_append, unitsAt_append, hu k]; omega
  | case2 c b a rest o' hgt =>
    have : reduce ((c :: b :: a :: rest) ++ [z]) o = ((c :: b :: a :: rest) ++ [z], o) := by
      simp only [List.cons_append]
      exact reduce_stable c b a _ o (by omega)
    rw [this]
    obtain ⟨T, hT⟩ := List.getLast?_eq_some_iff.mp hl
    exact Or.inr ⟨T, z, hT, by rw [hT]; simp, hu⟩
  | case3 st' o' hns =>
    match st', hl, hns with
    | [c], hl, _ =>
      simp only [List.cons_append, List.nil_append]
      rw [reduce_two]
      have hc : c = M := by simpa using hl
      subst hc
      exact Or.inr ⟨[], z, rfl, rfl, hu⟩
    | [c, b], hl, _ =>
      have hbM : b = M := by simpa using hl
      subst hbM
      simp only [List.cons_append, List.nil_append]
      by_cases h : rng b c < rng z b
      · rw [reduce_stable c b z [] o h]
        exact Or.inr ⟨[c], z, rfl, rfl, hu⟩
      · rw [reduce_fire3 c b z o h]
        refine Or.inl ⟨rfl, by simp, ?_⟩
        intro k; rw [unitsAt_append, hu k, unitsAt_single]
        simp only [Cyc.range, Cyc.units]
        simp
    | c :: b :: a :: rest, _, hns => exact (hns c b a rest rfl).elim


theorem CInv_sub {M : Int} {st st' : List Int} {o o' : List Cyc} (h : CInv M st st' o o') :
    (∀ x ∈ st', x ∈ st) ∧ st ≠ [] := by
  rcases h with ⟨rfl, hl, _⟩ | ⟨T, z, rfl, rfl, _⟩
  · refine ⟨fun x hx => hx, ?_⟩
    intro e; rw [e] at hl; simp at hl
  · exact ⟨by intro x hx; simp at hx ⊢; grind, by simp⟩

theorem csim_step (up : Bool) (M : Int) (st st' : List Int) (p : Int) (o o' : List Cyc)
    (hi : CInv M st st' o o') (hz : Zig (p :: st).reverse) (hb : ∀ x ∈ p :: st, bd up M x) :
    CInv M (reduce (p :: st) o).1 (rpReduce (p :: st') o').1 (reduce (p :: st) o).2
      (rpReduce (p :: st') o').2 := by
  rcases hi with ⟨rfl, hl, hu⟩ | ⟨T, z, rfl, rfl, hu⟩
  · refine csim_eq up M (p :: st') o o' ?_ hz hb hu
    cases st' with
    | nil => simp at hl
    | cons y t => simpa [List.getLast?_cons_cons] using hl
  · have e : p :: (T ++ [M, z]) = (p :: (T ++ [M])) ++ [z] := by simp
    rw [e]
    refine csim_df up M (p :: (T ++ [M])) z o o' ?_ (by rw [← e]; exact hz) ?_ hu
    · exact List.getLast?_eq_some_iff.mpr ⟨p :: T, rfl⟩
    · intro x hx; exact hb x (by simp at hx ⊢; grind)

theorem csim_run (up : Bool) (M : Int) (ps : List Int) : ∀ (st st' : List Int) (o o' : List Cyc),
    CInv M st st' o o' → Zig (st.reverse ++ ps) → DecR st → (∀ x ∈ st, bd up M x) →
    (∀ x ∈ ps, bd up M x) →
    ∃ sf sf' of of', astmGo st ps o = of ++ halves sf.reverse ∧ rpForward st' ps o' = (sf', of') ∧
      CInv M sf sf' of of' ∧ Zig sf.reverse ∧ DecR sf ∧ (∀ x ∈ sf, bd up M x) ∧
      sf.head? = (st.reverse ++ ps).getLast? := by
  induction ps with
  | nil =>
    intro st st' o o' hi hz hd hb _
    exact ⟨st, st', o, o', by rw [astmGo], by simp [rpForward], hi, by simpa using hz, hd, hb,
      by simp⟩
  | cons p ps ih =>
    intro st st' o o' hi hz hd hb hp
    have hz1 : Zig ((p :: st).reverse ++ ps) := by simpa using hz
    have hzp : Zig (p :: st).reverse := Zig_prefix _ ps hz1
    have hb1 : ∀ x ∈ p :: st, bd up M x := by
      intro x hx
      rcases List.mem_cons.mp hx with rfl | hx
      · exact hp _ (by simp)
      · exact hb x hx
    obtain ⟨r1, r2, r3, r4⟩ := reduce_spec (p :: st) o ps hz1 (by simpa using hd)
    have hi' := csim_step up M st st' p o o' hi hzp hb1
    obtain ⟨sf, sf', of, of', e1, e2, e3, e4, e5, e6, e7⟩ := ih _ _ _ _ hi' r1 r3
      (fun x hx => hb1 x (r2 x hx)) (fun x hx => hp x (List.mem_cons_of_mem _ hx))
    refine ⟨sf, sf', of, of', by rw [astmGo_cons]; exact e1, by simp only [rpForward]; exact e2,
      e3, e4, e5, e6, ?_⟩
    rw [e7]
    -- the last point of the remaining input (or the just pushed point) is unchanged
    cases ps with
    | nil =>
      simp only [List.append_nil, List.getLast?_reverse, r4]
      simp
    | cons q ps =>
      simp only [List.getLast?_append, List.reverse_cons]
      cases hg : (q :: ps).getLast? with
      | none => simp at hg
      | some v => simp [hg]


/-- a reversal sequence `M :: R'` that starts and ends at the extreme `M`: the forward pass of
range-pair counting ends with the single point `M` on the stack and has counted, range by range,
exactly what the three-point procedure counts -/
theorem closed_units (up : Bool) (M : Int) (R' : List Int) (hz : Zig (M :: R'))
    (hb : ∀ x ∈ R', bd up M x) (hlast : (M :: R').getLast? = some M) :
    (rpForward [] (M :: R') []).1 = [M] ∧
    ∀ k, unitsAt (astm (M :: R')) k = unitsAt (rpForward [] (M :: R') []).2 k := by
  have hbM : bd up M M := by unfold bd; cases up <;> simp
  have e1 : astm (M :: R') = astmGo [M] R' [] := by
    unfold astm; rw [astmGo_cons, reduce_one]
  have e2 : rpForward [] (M :: R') [] = rpForward [M] R' [] := by
    simp only [rpForward]; rw [rpReduce_short _ _ (by simp)]
  obtain ⟨sf, sf', of, of', r1, r2, r3, r4, r5, r6, r7⟩ := csim_run up M R' [M] [M] [] []
    (Or.inl ⟨rfl, rfl, fun _ => rfl⟩) (by simpa using hz) (by simp [DecR])
    (by intro x hx; simp at hx; subst hx; exact hbM) hb
  have hh : sf.head? = some M := by rw [r7]; simpa using hlast
  have hlen : sf.length ≤ 2 := by
    match sf, hh, r4, r5, r6 with
    | [], _, _, _, _ => simp
    | [_], _, _, _, _ => simp
    | [_, _], _, _, _, _ => simp
    | m :: x :: y :: rest, hh, r4, r5, r6 =>
      have hm : m = M := by simpa using hh
      subst hm
      have hz3 : Zig [y, x, m] := by
        have : Zig (rest.reverse ++ [y, x, m]) := by simpa using r4
        exact Zig_suffix _ this
      exact (ext_top (up := up) rest hz3 (r6 x (by simp)) (r6 y (by simp)) r5).elim
  rw [e1, e2, r1, r2]
  rcases r3 with ⟨rfl, hl, hu⟩ | ⟨T, z, rfl, rfl, hu⟩
  · match sf', hh, hl, hlen, r4 with
    | [m], hh, _, _, _ =>
      have hm : m = M := by simpa using hh
      subst hm
      refine ⟨rfl, ?_⟩
      intro k; simp [halves, hu k]
    | [m, x], hh, hl, _, r4 =>
      have hm : m = M := by simpa using hh
      have hx : x = M := by simpa using hl
      subst hm; subst hx
      have := Zig_adj_ne [] x x [] (by simpa using r4)
      exact absurd rfl this
  · have hT : T = [] := by
      cases T with
      | nil => rfl
      | cons t T => simp at hlen
    subst hT
    refine ⟨rfl, ?_⟩
    intro k
    have eh : halves ([] ++ [M, z]).reverse = [⟨z, M, true⟩] := by simp [halves]
    rw [eh, unitsAt_append, unitsAt_single, hu k]
    simp [Cyc.range, Cyc.units]

end FF
