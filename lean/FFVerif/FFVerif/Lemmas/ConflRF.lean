/- The ASTM three-point rainflow count, as a range histogram, is the histogram of the four-point
extractions plus the half cycles of the four-point residue.  Core Lean only (classical choice is used
to name the canonical histogram `T`). -/
import FFVerif.Lemmas.ConflFP
namespace FF

/-! ### finite (not necessarily maximal) extraction sequences -/

inductive Steps : List Int → List Cyc → List Int → Prop
  | refl (L : List Int) : Steps L [] L
  | step {L : List Int} {c : Cyc} {L' : List Int} {cs : List Cyc} {M : List Int} :
      Step L c L' → Steps L' cs M → Steps L (c :: cs) M

theorem Red.steps {L cs N} (r : Red L cs N) : Steps L cs N := by
  induction r with
  | done _ => exact Steps.refl _
  | step s _ ih => exact Steps.step s ih

theorem Steps.there (x : Int) {L cs M} (s : Steps L cs M) : Steps (x :: L) cs (x :: M) := by
  induction s with
  | refl L => exact Steps.refl _
  | step s _ ih => exact Steps.step (Step.there x s) ih

theorem Steps.red {L cs M cs2 N} (s : Steps L cs M) (r : Red M cs2 N) : Red L (cs ++ cs2) N := by
  induction s with
  | refl L => exact r
  | step s _ ih => exact Red.step s (ih r)

theorem Steps.zig {L cs M} (s : Steps L cs M) (hz : Zig L) : Zig M := by
  induction s with
  | refl L => exact hz
  | step s _ ih => exact ih (s.zig hz)

/-- the first range never shrinks -/
theorem Step.first {b c : Int} {rest : List Int} {cy : Cyc} {M : List Int}
    (s : Step (b :: c :: rest) cy M) : ∃ x t, M = b :: x :: t ∧ rng b c ≤ rng b x := by
  cases s with
  | here _ _ d e S h1 h2 h3 =>
    refine ⟨e, S, rfl, ?_⟩
    unfold Alt4 rng at *; omega
  | there _ s =>
    cases s with
    | here _ d e f S h1 h2 h3 => exact ⟨c, f :: S, rfl, Nat.le_refl _⟩
    | there _ s =>
      rename_i L'
      exact ⟨c, L', rfl, Nat.le_refl _⟩

theorem Steps.first {L cs M} (s : Steps L cs M) : ∀ (b c : Int) (rest : List Int), L = b :: c :: rest →
    ∃ x t, M = b :: x :: t ∧ rng b c ≤ rng b x := by
  induction s with
  | refl L => intro b c rest e; exact ⟨c, rest, e, Nat.le_refl _⟩
  | step s _ ih =>
    intro b c rest e
    subst e
    obtain ⟨x, t, e, hr⟩ := s.first
    obtain ⟨x', t', e', hr'⟩ := ih b x t e
    exact ⟨x', t', e', by omega⟩

/-! ### the canonical histogram -/

/-- extracted cycles plus the half cycles of the residue, counted at range `k` -/
noncomputable def T (L : List Int) (k : Nat) : Nat :=
  unitsAt (Classical.choose (Red.exists L)) k +
    unitsAt (halves (Classical.choose (Classical.choose_spec (Red.exists L)))) k

theorem T_eq {L cs N} (r : Red L cs N) (k : Nat) : T L k = unitsAt cs k + unitsAt (halves N) k := by
  have r0 := Classical.choose_spec (Classical.choose_spec (Red.exists L))
  obtain ⟨e, u⟩ := r0.confluent r
  unfold T
  rw [e, u k]

theorem T_step {L c L'} (s : Step L c L') (k : Nat) : T L k = unitsAt [c] k + T L' k := by
  obtain ⟨cs, N, r⟩ := Red.exists L'
  rw [T_eq (Red.step s r), T_eq r, unitsAt_cons']
  omega

theorem T_normal {L} (h : Normal L) (k : Nat) : T L k = unitsAt (halves L) k := by
  rw [T_eq (Red.done h)]; simp [unitsAt]

theorem unitsAt_app (x y : List Cyc) (k : Nat) : unitsAt (x ++ y) k = unitsAt x k + unitsAt y k := by
  simp [unitsAt]

/-- dropping the starting point when the first range is contained in the second: one half cycle -/
theorem T_head (a b c : Int) (rest : List Int) (hz : Zig (a :: b :: c :: rest)) (hr : rng a b ≤ rng b c)
    (k : Nat) : T (a :: b :: c :: rest) k = unitsAt [⟨a, b, true⟩] k + T (b :: c :: rest) k := by
  obtain ⟨cs, N', r⟩ := Red.exists (b :: c :: rest)
  have hn : Normal N' := r.normal
  obtain ⟨x, t, e, hx⟩ := r.steps.first b c rest rfl
  subst e
  have hz' : Zig (a :: b :: x :: t) := (r.steps.there a).zig hz
  obtain ⟨cs2, N2, r2⟩ := Red.exists (a :: b :: x :: t)
  rw [T_eq ((r.steps.there a).red r2), T_eq r, unitsAt_app]
  cases r2 with
  | done _ =>
    have eh : halves (a :: b :: x :: t) = ⟨a, b, true⟩ :: halves (b :: x :: t) := by rw [halves]
    have e0 : unitsAt [] k = 0 := rfl
    rw [eh, unitsAt_cons' _ (halves _), e0]
    omega
  | step s r3 =>
    cases s with
    | there _ s' => exact absurd s' (hn _ _)
    | here _ _ _ y t' h1 h2 h3 =>
      have hxa : x = a := by unfold Alt4 rng at *; omega
      subst hxa
      have hn2 : Normal (x :: y :: t') := by
        intro c1 M1 s1
        cases s1 with
        | here _ _ z w t'' g1 g2 g3 =>
          exact hn _ _ (Step.there b (Step.here x y z w t'' g1 g2 g3))
        | there _ s'' => exact hn _ _ (Step.there b (Step.there x s''))
      cases r3 with
      | step s3 _ => exact absurd s3 (hn2 _ _)
      | done _ =>
        have eh : halves (b :: x :: y :: t') = ⟨b, x, true⟩ :: halves (x :: y :: t') := by rw [halves]
        have e0 : unitsAt [] k = 0 := rfl
        rw [eh, unitsAt_cons' _ (halves _), unitsAt_cons' _ [], e0]
        have e1 : unitsAt [(⟨b, x, false⟩ : Cyc)] k
            = unitsAt [(⟨x, b, true⟩ : Cyc)] k + unitsAt [(⟨b, x, true⟩ : Cyc)] k := by
          rw [unitsAt_cons, unitsAt_cons, unitsAt_cons, e0]
          simp only [Cyc.range, Cyc.units, rng_comm x b]
          by_cases hk : rng b x = k <;> simp [hk]
        rw [e1]; omega

/-! ### strictly decreasing ranges: nothing to extract -/

theorem Dec_normal {L : List Int} (hd : Dec L) : Normal L := by
  intro c L' s
  induction s with
  | here a b c d S h1 h2 h3 =>
    have := hd.1
    have := hd.2.1
    omega
  | there x s ih => exact ih (Dec_tail x _ hd)

theorem DecR_reverse : ∀ st : List Int, DecR st → Dec st.reverse
  | [], _ => by simp [Dec]
  | [_], _ => by simp [Dec]
  | [_, _], _ => by simp [Dec]
  | c :: b :: a :: rest, h => by
    have ih := DecR_reverse (b :: a :: rest) h.2
    have := Dec_snoc rest.reverse a b c (by simpa using ih) h.1
    simpa using this

/-! ### the stack machine against the canonical histogram -/

theorem reduce_T (ps : List Int) (k : Nat) (st : List Int) (out : List Cyc)
    (hz : Zig (st.reverse ++ ps)) (hd : DecR st.tail) :
    DecR (reduce st out).1 ∧ Zig ((reduce st out).1.reverse ++ ps) ∧
    unitsAt (reduce st out).2 k + T ((reduce st out).1.reverse ++ ps) k
      = unitsAt out k + T (st.reverse ++ ps) k := by
  fun_induction reduce st out with
  | case1 c b a out h => exact ⟨⟨h, by simp [DecR]⟩, hz, rfl⟩
  | case2 c b a out h ih =>
    have hz0 : Zig (a :: b :: c :: ps) := by simpa using hz
    obtain ⟨i1, i2, i3⟩ := ih (by simpa using Zig_tail hz0) (by simp [DecR])
    refine ⟨i1, i2, ?_⟩
    rw [i3, unitsAt_app]
    have := T_head a b c ps hz0 (by omega) k
    simp only [List.reverse_cons, List.reverse_nil, List.nil_append, List.cons_append] at this ⊢
    omega
  | case3 c b a r rest out h => exact ⟨⟨h, by simpa using hd⟩, hz, rfl⟩
  | case4 c b a r rest out h ih =>
    have hd' : DecR (b :: a :: r :: rest) := by simpa using hd
    have hz0 : Zig (rest.reverse ++ r :: a :: b :: c :: ps) := by simpa using hz
    have hz1 : Zig (r :: a :: b :: c :: ps) := Zig_suffix rest.reverse hz0
    have s : Step (rest.reverse ++ r :: a :: b :: c :: ps) ⟨a, b, false⟩ (rest.reverse ++ r :: c :: ps) :=
      (Step.here r a b c ps hz1.alt4 (by have := hd'.1; omega) (by omega)).prepend rest.reverse
    obtain ⟨i1, i2, i3⟩ := ih (by simpa using s.zig hz0) (by simpa using DecR_tail (DecR_tail hd'))
    refine ⟨i1, i2, ?_⟩
    rw [i3, unitsAt_app]
    have := T_step s k
    simp only [List.reverse_cons, List.append_assoc, List.cons_append, List.nil_append] at this ⊢
    omega
  | case5 st out h1 h2 =>
    refine ⟨?_, hz, rfl⟩
    match st, h1, h2 with
    | [], _, _ => simp [DecR]
    | [_], _, _ => simp [DecR]
    | [_, _], _, _ => simp [DecR]
    | [c, b, a], h1, _ => exact (h1 c b a rfl).elim
    | c :: b :: a :: r :: rest, _, h2 => exact (h2 c b a r rest rfl).elim

theorem astmGo_T (k : Nat) : ∀ (ps st : List Int) (out : List Cyc), Zig (st.reverse ++ ps) → DecR st →
    unitsAt (astmGo st ps out) k = unitsAt out k + T (st.reverse ++ ps) k
  | [], st, out, _, hd => by
    rw [astmGo, unitsAt_app, List.append_nil, T_normal (Dec_normal (DecR_reverse st hd))]
  | p :: ps, st, out, hz, hd => by
    rw [astmGo_cons]
    obtain ⟨r1, r2, r3⟩ := reduce_T ps k (p :: st) out (by simpa using hz) (by simpa using hd)
    rw [astmGo_T k ps _ _ r2 r1, r3]
    simp

/-- the rainflow histogram of an alternating sequence is the canonical histogram -/
theorem astm_T (L : List Int) (hz : Zig L) (k : Nat) : unitsAt (astm L) k = T L k := by
  unfold astm
  rw [astmGo_T k L [] [] (by simpa using hz) (by simp [DecR])]
  simp [unitsAt]

/-- … in terms of any maximal four-point extraction sequence -/
theorem astm_red {L cs N} (hz : Zig L) (r : Red L cs N) (k : Nat) :
    unitsAt (astm L) k = unitsAt cs k + unitsAt (halves N) k := by
  rw [astm_T L hz, T_eq r]

theorem T_reverse (L : List Int) (k : Nat) : T L.reverse k = T L k := by
  obtain ⟨cs, N, r⟩ := Red.exists L
  rw [T_eq r, T_eq r.reverse, unitsAt_map_swap, halves_reverse, unitsAt_swap_reverse]

end FF
