/- More shapes of four-point residues: closed at the maximum; running from the minimum to the
maximum (or back); extractions never remove the last copy of an extreme value.  Core Lean only. -/
import FFVerif.Lemmas.ClosedNormal
namespace FF

/-- a residue that starts and ends at an upper bound of its points is `[M, x, M]` -/
theorem normal_closed_max (N : List Int) (M : Int) (hn : Normal N) (hz : Zig N) (hl : 2 ≤ N.length)
    (hh : N.head? = some M) (ht : N.getLast? = some M) (hb : ∀ y ∈ N, y ≤ M) :
    ∃ x, x < M ∧ N = [M, x, M] := by
  match N, hl with
  | [a, b], _ =>
    simp at hh ht; subst hh; subst ht
    exact absurd rfl (Zig_adj_ne [] _ _ [] hz)
  | [a, x, y], _ =>
    simp at hh ht; subst hh; subst ht
    have := hb x (by simp)
    have := Zig_adj_ne [] _ _ _ hz
    exact ⟨x, by omega, rfl⟩
  | a :: x :: y :: z :: rest, _ =>
    exfalso
    simp at hh; subst hh
    have bx := hb x (by simp)
    have by' := hb y (by simp)
    have hax := Zig_adj_ne [] _ _ _ hz
    have alt := hz.alt4
    have h1 : rng y z < rng x y := by
      refine Classical.byContradiction fun hge => ?_
      refine hn _ _ (Step.here a x y z rest alt ?_ (by omega))
      unfold Alt4 rng at *; omega
    have hd := normal_dec rest x y z hn.tail (Zig_tail hz) h1
    have hyz : z < y := by unfold Alt4 at alt; omega
    match rest, ht, hd, hz with
    | [], ht, _, _ =>
      simp [List.getLast?_cons_cons] at ht; omega
    | w :: rest', ht, hd, hz =>
      have hz2 : Zig (z :: w :: rest') := Zig_suffix [a, x, y] hz
      have alt2 : Alt4 x y z w := (Zig_tail hz).alt4
      have hw : w < y := by
        have := hd.2.1
        unfold Alt4 rng at *; omega
      have hbt : ∀ v ∈ rest', min z w ≤ v ∧ v ≤ max z w := by
        rcases hz2 with h | h
        · exact DecZig_between rest' _ z w h hd.2.2
        · exact DecZig_between rest' _ z w h hd.2.2
      have hmem : a ∈ w :: rest' := by
        have : (w :: rest').getLast? = some a := by
          simpa [List.getLast?_cons_cons] using ht
        exact List.mem_of_getLast? this
      rcases List.mem_cons.mp hmem with e | hm
      · omega
      · have := hbt a hm; omega

/-- a residue that runs from a lower bound `m` to an upper bound `M` of its points is `[m, M]` -/
theorem normal_min_max (N : List Int) (m M : Int) (hn : Normal N) (hz : Zig N) (hl : 2 ≤ N.length)
    (hh : N.head? = some m) (ht : N.getLast? = some M) (hb : ∀ y ∈ N, m ≤ y ∧ y ≤ M) :
    N = [m, M] := by
  match N, hl with
  | [a, b], _ =>
    simp at hh ht; subst hh; subst ht; rfl
  | a :: x :: y :: rest, _ =>
    exfalso
    simp at hh; subst hh
    have bx := hb x (by simp)
    have by' := hb y (by simp)
    have hax := Zig_adj_ne [] _ _ _ hz
    have hxy : a < x ∧ y < x := by
      rcases hz with h | h <;> obtain ⟨g1, g2, _⟩ := h <;> unfold rel at * <;> simp at * <;> omega
    match rest, ht, hz, hn with
    | [], ht, _, _ =>
      simp [List.getLast?_cons_cons] at ht; omega
    | z :: rest', ht, hz, hn =>
      have alt := hz.alt4
      have h1 : rng y z < rng x y := by
        refine Classical.byContradiction fun hge => ?_
        refine hn _ _ (Step.here a x y z rest' alt ?_ (by omega))
        unfold Alt4 rng at *; omega
      have hd := normal_dec rest' x y z hn.tail (Zig_tail hz) h1
      have hyz : y < z ∧ z < x := by unfold Alt4 rng at *; omega
      have hz2 : Zig (y :: z :: rest') := Zig_suffix [a, x] hz
      have hbt : ∀ v ∈ rest', min y z ≤ v ∧ v ≤ max y z := by
        rcases hz2 with h | h
        · exact DecZig_between rest' _ y z h hd.2
        · exact DecZig_between rest' _ y z h hd.2
      have hmem : M ∈ z :: rest' := by
        have : (z :: rest').getLast? = some M := by
          simpa [List.getLast?_cons_cons] using ht
        exact List.mem_of_getLast? this
      rcases List.mem_cons.mp hmem with e | hm
      · omega
      · have := hbt M hm; omega

/-- a residue that runs from an upper bound `M` to a lower bound `m` of its points is `[M, m]` -/
theorem normal_max_min (N : List Int) (m M : Int) (hn : Normal N) (hz : Zig N) (hl : 2 ≤ N.length)
    (hh : N.head? = some M) (ht : N.getLast? = some m) (hb : ∀ y ∈ N, m ≤ y ∧ y ≤ M) :
    N = [M, m] := by
  match N, hl with
  | [a, b], _ =>
    simp at hh ht; subst hh; subst ht; rfl
  | a :: x :: y :: rest, _ =>
    exfalso
    simp at hh; subst hh
    have bx := hb x (by simp)
    have by' := hb y (by simp)
    have hax := Zig_adj_ne [] _ _ _ hz
    have hxy : x < a ∧ x < y := by
      rcases hz with h | h <;> obtain ⟨g1, g2, _⟩ := h <;> unfold rel at * <;> simp at * <;> omega
    match rest, ht, hz, hn with
    | [], ht, _, _ =>
      simp [List.getLast?_cons_cons] at ht; omega
    | z :: rest', ht, hz, hn =>
      have alt := hz.alt4
      have h1 : rng y z < rng x y := by
        refine Classical.byContradiction fun hge => ?_
        refine hn _ _ (Step.here a x y z rest' alt ?_ (by omega))
        unfold Alt4 rng at *; omega
      have hd := normal_dec rest' x y z hn.tail (Zig_tail hz) h1
      have hyz : z < y ∧ x < z := by unfold Alt4 rng at *; omega
      have hz2 : Zig (y :: z :: rest') := Zig_suffix [a, x] hz
      have hbt : ∀ v ∈ rest', min y z ≤ v ∧ v ≤ max y z := by
        rcases hz2 with h | h
        · exact DecZig_between rest' _ y z h hd.2
        · exact DecZig_between rest' _ y z h hd.2
      have hmem : m ∈ z :: rest' := by
        have : (z :: rest').getLast? = some m := by
          simpa [List.getLast?_cons_cons] using ht
        exact List.mem_of_getLast? this
      rcases List.mem_cons.mp hmem with e | hm
      · omega
      · have := hbt m hm; omega

/-! ### extremes survive -/

theorem Step.keeps_max {L c L'} (s : Step L c L') (M : Int) (hub : ∀ y ∈ L, y ≤ M) (hM : M ∈ L) :
    M ∈ L' := by
  induction s with
  | here a b c d S h1 h2 h3 =>
    have ba := hub a (by simp)
    have bb := hub b (by simp)
    have bc := hub c (by simp)
    have bdd := hub d (by simp)
    simp only [List.mem_cons] at hM ⊢
    rcases hM with e | e | e | e | e
    · exact Or.inl e
    · right; left; unfold Alt4 rng at *; omega
    · left; unfold Alt4 rng at *; omega
    · exact Or.inr (Or.inl e)
    · exact Or.inr (Or.inr e)
  | there x s ih =>
    rcases List.mem_cons.mp hM with e | e
    · rw [e]; simp
    · exact List.mem_cons_of_mem _ (ih (fun y hy => hub y (List.mem_cons_of_mem _ hy)) e)

theorem Step.keeps_min {L c L'} (s : Step L c L') (m : Int) (hlb : ∀ y ∈ L, m ≤ y) (hm : m ∈ L) :
    m ∈ L' := by
  induction s with
  | here a b c d S h1 h2 h3 =>
    have ba := hlb a (by simp)
    have bb := hlb b (by simp)
    have bc := hlb c (by simp)
    have bdd := hlb d (by simp)
    simp only [List.mem_cons] at hm ⊢
    rcases hm with e | e | e | e | e
    · exact Or.inl e
    · right; left; unfold Alt4 rng at *; omega
    · left; unfold Alt4 rng at *; omega
    · exact Or.inr (Or.inl e)
    · exact Or.inr (Or.inr e)
  | there x s ih =>
    rcases List.mem_cons.mp hm with e | e
    · rw [e]; simp
    · exact List.mem_cons_of_mem _ (ih (fun y hy => hlb y (List.mem_cons_of_mem _ hy)) e)

theorem Steps.keeps_max {L cs N} (s : Steps L cs N) (M : Int) (hub : ∀ y ∈ L, y ≤ M) (hM : M ∈ L) :
    M ∈ N := by
  induction s with
  | refl L => exact hM
  | step s _ ih => exact ih (fun y hy => hub y (s.mem y hy)) (s.keeps_max M hub hM)

theorem Steps.keeps_min {L cs N} (s : Steps L cs N) (m : Int) (hlb : ∀ y ∈ L, m ≤ y) (hm : m ∈ L) :
    m ∈ N := by
  induction s with
  | refl L => exact hm
  | step s _ ih => exact ih (fun y hy => hlb y (s.mem y hy)) (s.keeps_min m hlb hm)

theorem Steps.append {L cs N} (s : Steps L cs N) (T : List Int) : Steps (L ++ T) cs (N ++ T) := by
  induction s with
  | refl L => exact Steps.refl _
  | step s _ ih => exact Steps.step (s.append T) ih

theorem Steps.prepend {L cs N} (s : Steps L cs N) (P : List Int) : Steps (P ++ L) cs (P ++ N) := by
  induction s with
  | refl L => exact Steps.refl _
  | step s _ ih => exact Steps.step (s.prepend P) ih

theorem Steps.trans {L cs M cs2 N} (s : Steps L cs M) (t : Steps M cs2 N) : Steps L (cs ++ cs2) N := by
  induction s with
  | refl L => exact t
  | step s _ ih => exact Steps.step s (ih t)

end FF
