/- Rychlik bottoms on the raw history: the two-sided scan over the reversal sequence (the model)
and the two-sided scan over the de-plateaued raw history (the specification) find the same
minima whenever the top does not recur to the right.  Core Lean only. -/
import FFVerif.Proofs.C06
namespace FF
open C06

/-- every strict turning point of `l` is a non-first element of `l` -/
theorem turning_mem_tail : ∀ (l : List Int) (x : Int), x ∈ turning l → x ∈ l.tail
  | [], x, h => by simp [turning] at h
  | [_], x, h => by simp [turning] at h
  | [_, _], x, h => by simp [turning] at h
  | a :: b :: c :: rest, x, h => by
    have ih := turning_mem_tail (b :: c :: rest) x
    simp only [turning] at h
    simp only [List.tail_cons] at ih ⊢
    split at h
    · rcases List.mem_cons.mp h with rfl | h
      · exact List.mem_cons_self
      · exact List.mem_cons_of_mem _ (ih h)
    · exact List.mem_cons_of_mem _ (ih h)

theorem lastD_mem : ∀ (l : List Int) (d : Int), lastD l d ∈ d :: l
  | [], d => by simp [lastD]
  | x :: xs, d => by
    have := lastD_mem xs x
    simp only [lastD]
    exact List.mem_cons_of_mem _ this

/-- the reversal sequence after `b` only contains samples that come after `b` -/
theorem revTail_mem (b c : Int) (rest : List Int) (x : Int)
    (h : x ∈ turning (b :: c :: rest) ++ [lastD (c :: rest) b]) : x ∈ c :: rest := by
  rcases List.mem_append.mp h with h | h
  · exact turning_mem_tail _ x h
  · have e : lastD (c :: rest) b = lastD rest c := rfl
    rw [e] at h
    rw [List.mem_singleton.mp h]
    exact lastD_mem rest c

/-- right-hand scan relation: below any level `M` above `b`, the raw samples after `b` and the
reversals after `b` have the same capped minimum, up to `b` itself -/
theorem ry_right : ∀ (rest : List Int) (b c M : Int), NoRep (b :: c :: rest) → b < M →
    min b (sm M (c :: rest)) = min b (sm M (turning (b :: c :: rest) ++ [lastD (c :: rest) b]))
  | [], b, c, M, _, _ => by simp [turning, lastD]
  | d :: rest, b, c, M, h, hM => by
    obtain ⟨n, t, e, h1, h2⟩ := next_kept rest c d h.2
    have hbc : b ≠ c := h.1
    have hcd : c ≠ d := h.2.1
    have hl : lastD (c :: d :: rest) b = lastD (d :: rest) c := rfl
    by_cases hk : (b < c ∧ c > d) ∨ (b > c ∧ c < d)
    · simp only [turning, if_pos hk, hl, List.cons_append]
      by_cases hcM : c < M
      · have ih := ry_right rest c d M h.2 hcM
        rw [sm_cons_lt M c _ hcM, sm_cons_lt M c _ hcM, ih]
      · rw [sm_cons_ge M c _ hcM, sm_cons_ge M c _ hcM]
    · simp only [turning, if_neg hk, hl]
      by_cases hcM : c < M
      · have ih := ry_right rest c d M h.2 hcM
        rw [sm_cons_lt M c _ hcM]
        rw [e] at ih ⊢
        by_cases hbc' : b < c
        · omega
        · have hn : n < c := h1 (by omega)
          have hnM : n < M := by omega
          rw [sm_cons_lt M n _ hnM] at ih ⊢
          omega
      · rw [sm_cons_ge M c _ hcM, e]
        have hn : n > c := h2 (by omega)
        have hnM : ¬ n < M := by omega
        rw [sm_cons_ge M n _ hnM]

/-- at a peak `b` the raw right scan equals the reversal right scan -/
theorem ry_right_peak (rest : List Int) (b c : Int) (h : NoRep (b :: c :: rest)) (hbc : b > c) :
    sm b (c :: rest) = sm b (turning (b :: c :: rest) ++ [lastD (c :: rest) b]) := by
  match rest, h with
  | [], _ => simp [turning, lastD]
  | d :: rest, h =>
    obtain ⟨n, t, e, h1, h2⟩ := next_kept rest c d h.2
    have hcd : c ≠ d := h.2.1
    have hl : lastD (c :: d :: rest) b = lastD (d :: rest) c := rfl
    have ih := ry_right rest c d b h.2 hbc
    rw [sm_cons_lt b c _ hbc]
    by_cases hk : (b < c ∧ c > d) ∨ (b > c ∧ c < d)
    · simp only [turning, if_pos hk, hl, List.cons_append]
      rw [sm_cons_lt b c _ hbc, ih]
    · simp only [turning, if_neg hk, hl]
      rw [e] at ih ⊢
      have hn : n < c := h1 (by omega)
      have hnb : n < b := by omega
      rw [sm_cons_lt b n _ hnb] at ih ⊢
      omega

/-- the Rychlik function of the model -/
def ryF : List Int → Int → List Int → Option Cyc :=
  fun l m r => some ⟨max (scanMin m l) (scanMinLe m r), m, false⟩

/-- the local bottom predicate: unless the top recurs in the raw right context, the bottom is the
higher of the two raw one-sided minima -/
def ryLocal (pc : (List Int × Int × List Int) × Cyc) : Bool :=
  pc.1.2.2.contains pc.1.2.1 || pc.2.a == max (sideMin pc.1.2.1 pc.1.1) (sideMin pc.1.2.1 pc.1.2.2)

/-- simultaneous walk, as `jo_sync`, with the right-hand scan handled by `ry_right_peak` -/
theorem ry_sync : ∀ (rest : List Int) (a b a' : Int) (lD lR : List Int), NoRep (a :: b :: rest) →
    (a < b → a' ≤ a) → (a > b → a ≤ a') →
    (∀ M, a < M → sm M (a :: lD) = min a (sm M (a' :: lR))) →
    ((peaksCtx (a :: lD) (b :: rest)).zip
      (peaksGo ryF (a' :: lR) (turning (a :: b :: rest) ++ [lastD (b :: rest) a]))).all ryLocal = true
  | [], a, b, a', lD, lR, _, _, _, _ => by simp [peaksCtx]
  | c :: rest, a, b, a', lD, lR, h, s1, s2, rel => by
    obtain ⟨n, t, e, h1, h2⟩ := next_kept rest b c h.2
    have hab : a ≠ b := h.1
    have hbc : b ≠ c := h.2.1
    have hl : lastD (b :: c :: rest) a = lastD (c :: rest) b := rfl
    by_cases hk : (a < b ∧ b > c) ∨ (a > b ∧ b < c)
    · -- `b` is a reversal: both walks step
      have rel' : ∀ M, b < M → sm M (b :: a :: lD) = min b (sm M (b :: a' :: lR)) := by
        intro M hM
        rw [sm_cons_lt M b _ hM, sm_cons_lt M b _ hM]
        by_cases haM : a < M
        · rw [rel M haM]
          by_cases ha'M : a' < M
          · have : sm M (a' :: lR) ≤ a' := by rw [sm_cons_lt M a' _ ha'M]; omega
            omega
          · rw [sm_cons_ge M a' _ ha'M]; omega
        · rw [sm_cons_ge M a _ haM]
          have ha'M : ¬ a' < M := by omega
          rw [sm_cons_ge M a' _ ha'M]; omega
      have ih := ry_sync rest b c b (a :: lD) (a' :: lR) h.2 (fun _ => Int.le_refl _)
        (fun _ => Int.le_refl _) rel'
      rw [e] at ih
      simp only [turning, if_pos hk, hl, List.cons_append, e]
      by_cases hp : b > a ∧ b > c
      · have hp' : b > a' ∧ b > n := by omega
        simp only [peaksCtx, peaksGo, if_pos hp, if_pos hp', ryF, List.singleton_append,
          List.zip_cons_cons, List.all_cons, Bool.and_eq_true]
        refine ⟨?_, by simpa [ryF] using ih⟩
        show ((c :: rest).contains b || max (scanMin b (a' :: lR)) (scanMinLe b (n :: t)) ==
          max (sideMin b (a :: lD)) (sideMin b (c :: rest))) = true
        by_cases hm : b ∈ c :: rest
        · have : (c :: rest).contains b = true := List.contains_iff_mem.mpr hm
          rw [this]; rfl
        · have hm' : b ∉ n :: t := by
            intro hx
            rw [← e] at hx
            exact hm (revTail_mem b c rest b hx)
          have ha' : a' < b := by omega
          have hn : n < b := by omega
          have hL : scanMin b (a' :: lR) = sideMin b (a :: lD) := by
            rw [scanMin_eq_sm b a' lR ha', sideMin_eq_sm, rel b hp.1]
            have : sm b (a' :: lR) ≤ a' := by rw [sm_cons_lt b a' _ ha']; omega
            omega
          have hR : scanMinLe b (n :: t) = sideMin b (c :: rest) := by
            rw [scanMinLe_eq_scanMin b (n :: t) hm', scanMin_eq_sm b n t hn, sideMin_eq_sm,
              ry_right_peak rest b c h.2 hp.2, e]
          rw [hL, hR]
          simp
      · have hp' : ¬ (b > a' ∧ b > n) := by omega
        simp only [peaksCtx, peaksGo, if_neg hp, if_neg hp', List.nil_append]
        exact ih
    · -- `b` is not a reversal: only the raw walk steps
      have rel' : ∀ M, b < M → sm M (b :: a :: lD) = min b (sm M (a' :: lR)) := by
        intro M hM
        rw [sm_cons_lt M b _ hM]
        by_cases haM : a < M
        · rw [rel M haM]
          by_cases ha'M : a' < M
          · have : sm M (a' :: lR) ≤ a' := by rw [sm_cons_lt M a' _ ha'M]; omega
            omega
          · rw [sm_cons_ge M a' _ ha'M]; omega
        · rw [sm_cons_ge M a _ haM]
          have ha'M : ¬ a' < M := by omega
          rw [sm_cons_ge M a' _ ha'M]
      have ih := ry_sync rest b c a' (a :: lD) lR h.2 (by omega) (by omega) rel'
      have hp : ¬ (b > a ∧ b > c) := by omega
      simp only [turning, if_neg hk, hl, peaksCtx, if_neg hp, List.nil_append]
      exact ih

/-- the stronger, local form: every Rychlik bottom whose top does not recur in the raw right
context is the higher of the two raw one-sided minima -/
theorem rychlik_bottoms_all (h : List Int) :
    ((peaksOf h).zip (rychlik h)).all ryLocal = true := by
  unfold rychlik peaksOf
  rw [pv_true_eq_reversals]
  match h with
  | [] => simp [dedup, peaksCtx]
  | [x] => simp [dedup, peaksCtx]
  | x :: y :: rest =>
    simp only [reversals]
    obtain ⟨t, ht⟩ := dedup_head x (y :: rest)
    have hn := dedup_noRep (x :: y :: rest)
    have hl := lastD_dedup (x :: y :: rest) x
    rw [ht] at hn hl ⊢
    have hl' : lastD (y :: rest) x = lastD t x := by simpa [lastD] using hl.symm
    rw [hl']
    match t, hn with
    | [], _ => simp [peaksCtx]
    | b :: t', hn =>
      obtain ⟨n, tl, e, _, _⟩ := next_kept t' x b hn
      have key := ry_sync t' x b x [] [] hn (fun _ => Int.le_refl _) (fun _ => Int.le_refl _)
        (by intro M hM; simp only [sm, if_pos hM]; omega)
      have e' : turning (x :: b :: t') ++ [lastD (b :: t') x] = n :: tl := e
      have e'' : lastD t' b = lastD (b :: t') x := rfl
      rw [e'] at key
      rw [peaksCtx]
      show (List.zip (peaksCtx [x] (b :: t')) (peaksGo _ [] (x :: (turning (x :: b :: t') ++ [lastD (b :: t') x])))).all _ = true
      rw [e', peaksGo]
      exact key

/-- every context triple of `peaksCtx` splits the walked list at its peak -/
theorem peaksCtx_split : ∀ (left right : List Int) (pc : List Int × Int × List Int),
    pc ∈ peaksCtx left right → pc.1.reverse ++ pc.2.1 :: pc.2.2 = left.reverse ++ right
  | _, [], pc, h => by simp [peaksCtx] at h
  | _, [_], pc, h => by simp [peaksCtx] at h
  | [], cur :: next :: rest, pc, h => by
    rw [peaksCtx] at h
    have := peaksCtx_split [cur] (next :: rest) pc h
    simpa using this
  | p :: l, cur :: next :: rest, pc, h => by
    rw [peaksCtx] at h
    rcases List.mem_append.mp h with h | h
    · split at h
      · rw [List.mem_singleton.mp h]
      · simp at h
    · have := peaksCtx_split (cur :: p :: l) (next :: rest) pc h
      simpa using this

/-- a top that is unique in the de-plateaued history does not recur in its right context -/
theorem uniqueTop_not_mem_right (h : List Int) (pc : List Int × Int × List Int)
    (hpc : pc ∈ peaksOf h) (hu : uniqueTop h pc.2.1 = true) : pc.2.1 ∉ pc.2.2 := by
  have hs := peaksCtx_split [] (dedup h) pc hpc
  simp only [List.reverse_nil, List.nil_append] at hs
  simp only [uniqueTop, beq_iff_eq] at hu
  rw [← hs, List.count_append, List.count_cons_self] at hu
  have : List.count pc.2.1 pc.2.2 = 0 := by omega
  exact List.count_eq_zero.mp this

/-- C06, Rychlik bottoms on the raw history -/
theorem C06_rychlik_bottoms (h : List Int) : C06.ryBottomsOK h (rychlik h) = true := by
  have hall := rychlik_bottoms_all h
  unfold C06.ryBottomsOK
  simp only [List.all_eq_true] at hall ⊢
  intro pc hpc
  have hloc := hall pc hpc
  have hmem : pc.1 ∈ peaksOf h := (List.of_mem_zip hpc).1
  simp only [ryLocal, Bool.or_eq_true] at hloc
  simp only [Bool.or_eq_true, Bool.not_eq_true']
  by_cases hu : uniqueTop h pc.1.2.1 = true
  · right
    rcases hloc with hc | hb
    · exact absurd (List.contains_iff_mem.mp hc) (uniqueTop_not_mem_right h pc.1 hmem hu)
    · exact hb
  · left
    simpa using hu

end FF
