/- Strictly alternating sequences; the reversal sequence of a non-constant history is one.
Core Lean only. -/
import FFVerif.Lemmas.PeakValley
namespace FF

/-- `rel true a b` is `a < b`, `rel false a b` is `a > b` -/
def rel (up : Bool) (a b : Int) : Prop := if up then a < b else a > b

/-- strictly alternating, first step in direction `up` -/
def ZigD : Bool → List Int → Prop
  | up, a :: b :: rest => rel up a b ∧ ZigD (!up) (b :: rest)
  | _, _ => True

def Zig (l : List Int) : Prop := ZigD true l ∨ ZigD false l

theorem rel_ne {up a b} (h : rel up a b) : a ≠ b := by
  unfold rel at h; cases up <;> simp at h <;> omega

theorem ZigD_tail {up a l} (h : ZigD up (a :: l)) : ZigD (!up) l := by
  cases l with
  | nil => simp [ZigD]
  | cons b l => exact h.2

theorem Zig_tail {a l} (h : Zig (a :: l)) : Zig l := by
  rcases h with h | h
  · exact Or.inr (ZigD_tail h)
  · exact Or.inl (ZigD_tail h)

theorem Zig_suffix (P : List Int) {S : List Int} (h : Zig (P ++ S)) : Zig S := by
  induction P with
  | nil => exact h
  | cons x P ih => exact ih (Zig_tail h)

theorem ZigD_prefix {up} (P S : List Int) (h : ZigD up (P ++ S)) : ZigD up P := by
  induction P generalizing up with
  | nil => simp [ZigD]
  | cons x P ih =>
    cases P with
    | nil => simp [ZigD]
    | cons y P => exact ⟨h.1, ih h.2⟩

theorem Zig_prefix (P S : List Int) (h : Zig (P ++ S)) : Zig P := by
  rcases h with h | h
  · exact Or.inl (ZigD_prefix P S h)
  · exact Or.inr (ZigD_prefix P S h)

/-- replace the part after a shared pivot `c` -/
theorem ZigD_splice {up} (P : List Int) (c : Int) (T T' : List Int)
    (h : ZigD up (P ++ c :: T)) (hT : ∀ u, ZigD u (c :: T) → ZigD u (c :: T')) :
    ZigD up (P ++ c :: T') := by
  induction P generalizing up with
  | nil => exact hT _ h
  | cons x P ih =>
    cases P with
    | nil => exact ⟨h.1, hT _ h.2⟩
    | cons y P => exact ⟨h.1, ih h.2⟩

/-- removing an inner pair `(a,b)` whose range is not larger than the following range `(b,c)`,
when a predecessor `r` exists -/
theorem ZigD_remove_after {up} (r a b c : Int) (S : List Int)
    (h : ZigD up (r :: a :: b :: c :: S)) (hr : rng a b ≤ rng b c) : ZigD up (r :: c :: S) := by
  obtain ⟨h1, h2, h3, h4⟩ := h
  refine ⟨?_, ?_⟩
  · unfold rel rng at *; cases up <;> simp at * <;> omega
  · simpa using h4

/-- oldest-first sequences: removing `(a,b)` from `P ++ a :: b :: c :: S` when `rng a b ≤ rng b c` -/
theorem Zig_remove_after (P : List Int) (a b c : Int) (S : List Int)
    (h : Zig (P ++ a :: b :: c :: S)) (hr : rng a b ≤ rng b c) : Zig (P ++ c :: S) := by
  rcases List.eq_nil_or_concat P with rfl | ⟨P', r, rfl⟩
  · exact Zig_suffix [a, b] (by simpa using h)
  · have e : ∀ X, P'.concat r ++ X = P' ++ r :: X := by simp
    rw [e] at h ⊢
    rcases h with h | h
    · exact Or.inl (ZigD_splice P' r _ _ h (fun u hu => ZigD_remove_after r a b c S hu hr))
    · exact Or.inr (ZigD_splice P' r _ _ h (fun u hu => ZigD_remove_after r a b c S hu hr))

/-- newest-first sequences: removing `(b,a)` after the pivot `c` when `rng a b ≤ rng b c` -/
theorem ZigD_remove_before {up} (c b a : Int) (S : List Int)
    (h : ZigD up (c :: b :: a :: S)) (hr : rng a b ≤ rng b c) : ZigD up (c :: S) := by
  cases S with
  | nil => simp [ZigD]
  | cons d S =>
    obtain ⟨h1, h2, h3, h4⟩ := h
    refine ⟨?_, ?_⟩
    · unfold rel rng at *; cases up <;> simp at * <;> omega
    · simpa using h4

theorem Zig_remove_before (P : List Int) (c b a : Int) (S : List Int)
    (h : Zig (P ++ c :: b :: a :: S)) (hr : rng a b ≤ rng b c) : Zig (P ++ c :: S) := by
  rcases h with h | h
  · exact Or.inl (ZigD_splice P c _ _ h (fun u hu => ZigD_remove_before c b a S hu hr))
  · exact Or.inr (ZigD_splice P c _ _ h (fun u hu => ZigD_remove_before c b a S hu hr))

theorem Zig_adj_ne (P : List Int) (a b : Int) (S : List Int) (h : Zig (P ++ a :: b :: S)) : a ≠ b := by
  have := Zig_suffix P h
  rcases this with h | h <;> exact rel_ne h.1

/-! ### the filter output alternates -/

mutual
theorem pvGo_up : ∀ (l : List Int) (p cur : Int) (rest : List Int), l = cur :: rest → p < cur →
    ZigD true (p :: pvGo true p l)
  | _, p, cur, [], rfl, h => by simp [pvGo, ZigD, rel, h]
  | _, p, cur, next :: rest, rfl, h => by
    rw [pvGo]
    by_cases hk : cur > next
    · have hc : (p < cur ∧ cur > next) ∨ (p > cur ∧ cur < next) := Or.inl ⟨h, hk⟩
      rw [if_pos hc]
      exact ⟨by simp [rel, h], pvGo_down _ cur next rest rfl hk⟩
    · have hc : ¬ ((p < cur ∧ cur > next) ∨ (p > cur ∧ cur < next)) := by omega
      rw [if_neg hc]
      exact pvGo_up _ p next rest rfl (by omega)
theorem pvGo_down : ∀ (l : List Int) (p cur : Int) (rest : List Int), l = cur :: rest → p > cur →
    ZigD false (p :: pvGo true p l)
  | _, p, cur, [], rfl, h => by simp [pvGo, ZigD, rel, h]
  | _, p, cur, next :: rest, rfl, h => by
    rw [pvGo]
    by_cases hk : cur < next
    · have hc : (p < cur ∧ cur > next) ∨ (p > cur ∧ cur < next) := Or.inr ⟨h, hk⟩
      rw [if_pos hc]
      exact ⟨by simp [rel, h], pvGo_up _ cur next rest rfl hk⟩
    · have hc : ¬ ((p < cur ∧ cur > next) ∨ (p > cur ∧ cur < next)) := by omega
      rw [if_neg hc]
      exact pvGo_down _ p next rest rfl (by omega)
end

theorem pv_zig_aux : ∀ (rest : List Int) (x : Int), (rest.all (· == x)) = false →
    Zig (x :: pvGo true x rest)
  | [], x, h => by simp at h
  | cur :: rest, x, h => by
    by_cases hlt : x < cur
    · exact Or.inl (pvGo_up _ x cur rest rfl hlt)
    · by_cases hgt : x > cur
      · exact Or.inr (pvGo_down _ x cur rest rfl hgt)
      · have he : cur = x := by omega
        subst he
        cases rest with
        | nil => simp at h
        | cons next rest =>
          rw [pvGo]
          have hc : ¬ ((cur < cur ∧ cur > next) ∨ (cur > cur ∧ cur < next)) := by omega
          rw [if_neg hc]
          exact pv_zig_aux (next :: rest) cur (by simpa using h)

/-- the reversal sequence of a non-constant history is strictly alternating -/
theorem pv_zig (h : List Int) (hc : isConstant h = false) : Zig (pv true h) := by
  cases h with
  | nil => simp [isConstant] at hc
  | cons x rest => simpa [pv] using pv_zig_aux rest x (by simpa [isConstant] using hc)

/-! ### the filter output is a sub-list; values stay inside the overall range -/

theorem pvGo_sublist (k : Bool) : ∀ (l : List Int) (p : Int), (pvGo k p l).Sublist l
  | [], _ => by simp [pvGo]
  | [last], _ => by cases k <;> simp [pvGo]
  | cur :: next :: rest, p => by
    rw [pvGo]
    split
    · exact (pvGo_sublist k (next :: rest) cur).cons₂ cur
    · exact (pvGo_sublist k (next :: rest) p).cons cur

theorem pv_sublist (k : Bool) (h : List Int) : (pv k h).Sublist h := by
  cases h with
  | nil => simp [pv]
  | cons x rest =>
    cases k
    · simpa [pv] using (pvGo_sublist false rest x).cons x
    · simpa [pv] using (pvGo_sublist true rest x).cons₂ x

theorem foldl_max_ge (l : List Int) (m : Int) : m ≤ l.foldl max m ∧ ∀ x ∈ l, x ≤ l.foldl max m := by
  induction l generalizing m with
  | nil => simp
  | cons y l ih =>
    have := ih (max m y)
    refine ⟨by simp only [List.foldl_cons]; omega, ?_⟩
    intro x hx
    rcases List.mem_cons.mp hx with rfl | hx
    · simp only [List.foldl_cons]; omega
    · exact this.2 x hx

theorem foldl_min_le (l : List Int) (m : Int) : l.foldl min m ≤ m ∧ ∀ x ∈ l, l.foldl min m ≤ x := by
  induction l generalizing m with
  | nil => simp
  | cons y l ih =>
    have := ih (min m y)
    refine ⟨by simp only [List.foldl_cons]; omega, ?_⟩
    intro x hx
    rcases List.mem_cons.mp hx with rfl | hx
    · simp only [List.foldl_cons]; omega
    · exact this.2 x hx

theorem le_listMax {h : List Int} {x : Int} (hx : x ∈ h) : x ≤ listMax h := by
  cases h with
  | nil => cases hx
  | cons y l =>
    have := foldl_max_ge l y
    rcases List.mem_cons.mp hx with rfl | hx
    · exact this.1
    · exact this.2 x hx

theorem listMin_le {h : List Int} {x : Int} (hx : x ∈ h) : listMin h ≤ x := by
  cases h with
  | nil => cases hx
  | cons y l =>
    have := foldl_min_le l y
    rcases List.mem_cons.mp hx with rfl | hx
    · exact this.1
    · exact this.2 x hx

theorem rng_le_span {h : List Int} {a b : Int} (ha : a ∈ h) (hb : b ∈ h) : rng a b ≤ span h := by
  have := le_listMax ha; have := le_listMax hb; have := listMin_le ha; have := listMin_le hb
  unfold rng span; omega

end FF
