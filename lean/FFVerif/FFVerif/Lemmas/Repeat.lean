/- The repeating-history count: rotation to the maximum, second filtering, forward pass.
Core Lean only. -/
import FFVerif.Lemmas.Census2
namespace FF

theorem argmaxGo_lt (xs : List Int) (i : Nat) (m : Int) (best : Nat) (h : best < i) :
    argmaxGo xs i m best < i + xs.length := by
  fun_induction argmaxGo xs i m best with
  | case1 i m best => simpa using h
  | case2 x xs i m best hx ih => have := ih (by omega); simp only [List.length_cons]; omega
  | case3 x xs i m best hx ih => have := ih (by omega); simp only [List.length_cons]; omega

theorem argmax_lt (R : List Int) (h : R ≠ []) : argmax R < R.length := by
  cases R with
  | nil => exact absurd rfl h
  | cons x xs => have := argmaxGo_lt xs 1 x 0 (by omega); simp only [argmax, List.length_cons]; omega

/-- the rotated record before the second filtering -/
def rotated (R : List Int) : List Int := R.drop (argmax R) ++ (R.take (argmax R + 1)).drop 1

theorem rotated_length (R : List Int) (h : R ≠ []) : (rotated R).length = R.length := by
  have := argmax_lt R h
  simp [rotated, List.length_drop, List.length_take]; omega

theorem rotated_mem (R : List Int) : ∀ x ∈ rotated R, x ∈ R := by
  intro x hx
  rcases List.mem_append.mp hx with h | h
  · exact List.mem_of_mem_drop h
  · exact List.mem_of_mem_take (List.mem_of_mem_drop h)

theorem pvGo_const (x : Int) : ∀ rest : List Int, (rest.all (· == x)) = true → (pvGo true x rest).length ≤ 1
  | [], _ => by simp [pvGo]
  | [_], _ => by simp [pvGo]
  | cur :: next :: rest, h => by
    have hc : cur = x := by simp at h; exact h.1
    subst hc
    rw [pvGo]
    have : ¬ ((cur < cur ∧ cur > next) ∨ (cur > cur ∧ cur < next)) := by omega
    rw [if_neg this]
    exact pvGo_const cur (next :: rest) (by simp at h ⊢; exact h)

theorem pv_const_length (h : List Int) (hc : isConstant h = true) : (pv true h).length ≤ 2 := by
  cases h with
  | nil => simp [pv]
  | cons x rest =>
    have := pvGo_const x rest (by simpa [isConstant] using hc)
    simp [pv]; omega

theorem rpForward_short (l : List Int) (h : l.length ≤ 2) : (rpForward [] l []).2 = [] := by
  match l, h with
  | [], _ => simp [rpForward]
  | [a], _ => simp [rpForward, rpReduce]
  | [a, b], _ => simp [rpForward, rpReduce]

theorem rotateToMax_eq (R : List Int) : rotateToMax R = pv true (rotated R) := rfl

theorem repeat_spec (R : List Int) (hR : R ≠ []) :
    (∀ c ∈ (rpForward [] (rotateToMax R) []).2, GoodW R c) ∧
    totalUnits (rpForward [] (rotateToMax R) []).2 + 1 ≤ R.length := by
  rw [rotateToMax_eq]
  have hlen : (pv true (rotated R)).length ≤ R.length := by
    rw [← rotated_length R hR]; exact (pv_sublist true _).length_le
  have hsub : ∀ x ∈ pv true (rotated R), x ∈ R :=
    fun x hx => rotated_mem R x ((pv_sublist true _).subset hx)
  by_cases hc : isConstant (rotated R) = true
  · have := rpForward_short _ (pv_const_length _ hc)
    rw [this]
    refine ⟨fun c hc' => (by cases hc'), ?_⟩
    have : 1 ≤ R.length := by cases R with | nil => exact absurd rfl hR | cons _ _ => simp
    simpa [totalUnits] using this
  · have hz : Zig (pv true (rotated R)) := pv_zig _ (by simpa using hc)
    obtain ⟨s1, s2, s3, s4, s5⟩ := rpForward_spec [] (pv true (rotated R)) [] (by simpa using hz)
    refine ⟨?_, ?_⟩
    · intro c hc
      rcases s3 c hc with h | h
      · cases h
      · exact h.mono (by simpa using hsub)
    · have hpos : 1 ≤ (pv true (rotated R)).length := by
        rcases hz with h | h <;>
        · match hh : pv true (rotated R) with
          | [] =>
            -- a constant (here: empty) record is excluded
            have : isConstant (rotated R) = true := by
              cases hr : rotated R with
              | nil => rfl
              | cons x r => rw [hr] at hh; simp [pv] at hh
            exact absurd this hc
          | _ :: _ => simp
      have := s5 (by simpa using hpos)
      have s4' : totalUnits (rpForward [] (pv true (rotated R)) []).2 +
          (rpForward [] (pv true (rotated R)) []).1.length = (pv true (rotated R)).length := by
        simpa [totalUnits] using s4
      omega

end FF
