/- Census facts shared by C02/C04/C06: every counter emits cycles between distinct points of the
reversal sequence, conserves points, and (all but simple-range/rainflow) emits whole cycles only.
Core Lean only. -/
import FFVerif.Lemmas.Zig
import FFVerif.Lemmas.RainflowTotal
namespace FF

/-- a cycle between two distinct values of `S` -/
def Good (S : List Int) (c : Cyc) : Prop := c.a ∈ S ∧ c.b ∈ S ∧ c.a ≠ c.b

theorem Good.mono {S S' : List Int} {c : Cyc} (h : Good S c) (hs : ∀ x ∈ S, x ∈ S') : Good S' c :=
  ⟨hs _ h.1, hs _ h.2.1, h.2.2⟩

/-! ### simple range -/

theorem halves_good : ∀ l : List Int, Zig l → ∀ c ∈ halves l, Good l c
  | [], _, c, hc => by simp [halves] at hc
  | [_], _, c, hc => by simp [halves] at hc
  | a :: b :: rest, hz, c, hc => by
    simp only [halves, List.mem_cons] at hc
    rcases hc with rfl | hc
    · exact ⟨by simp, by simp, Zig_adj_ne [] a b rest hz⟩
    · exact (halves_good (b :: rest) (Zig_tail hz) c hc).mono (fun x hx => List.mem_cons_of_mem _ hx)

/-! ### rainflow (the implementation-shaped loop; sequence = A ++ B, oldest first) -/

theorem implGo_good (A B : List Int) (flag : Bool) (out : List Cyc) (hz : Zig (A ++ B)) :
    ∀ c ∈ implGo A B flag out, c ∈ out ∨ Good (A ++ B) c := by
  fun_induction implGo A B flag out with
  | case1 A out a b c rest hge ih =>
    intro cy hcy
    have hz' : Zig (b :: c :: rest) := Zig_suffix (A ++ [a]) (by simpa using hz)
    rcases ih (by simpa using hz') cy hcy with h | h
    · rcases List.mem_append.mp h with h | h
      · exact Or.inl h
      · simp only [List.mem_singleton] at h; subst h
        exact Or.inr ⟨by simp, by simp, Zig_adj_ne A a b (c :: rest) hz⟩
    · exact Or.inr (h.mono (by intro x hx; simp at hx ⊢; grind))
  | case2 A flag out a b c rest hge hf ih =>
    intro cy hcy
    have hz' : Zig (A ++ c :: rest) := Zig_remove_after A a b c rest hz (by omega)
    rcases ih hz' cy hcy with h | h
    · rcases List.mem_append.mp h with h | h
      · exact Or.inl h
      · simp only [List.mem_singleton] at h; subst h
        exact Or.inr ⟨by simp, by simp, Zig_adj_ne A a b (c :: rest) hz⟩
    · exact Or.inr (h.mono (by intro x hx; simp at hx ⊢; grind))
  | case3 A flag out a b c rest hlt ih =>
    intro cy hcy
    rcases ih (by simpa using hz) cy hcy with h | h
    · exact Or.inl h
    · exact Or.inr (h.mono (by intro x hx; simpa using hx))
  | case4 A B flag out hB =>
    intro cy hcy
    rcases List.mem_append.mp hcy with h | h
    · exact Or.inl h
    · exact Or.inr (halves_good _ hz cy h)

/-! ### range pair: forward and backward passes (stack newest first) -/

/-- whole cycle between distinct points of `S` -/
def GoodW (S : List Int) (c : Cyc) : Prop := Good S c ∧ c.half = false

theorem GoodW.mono {S S' : List Int} {c : Cyc} (h : GoodW S c) (hs : ∀ x ∈ S, x ∈ S') : GoodW S' c :=
  ⟨h.1.mono hs, h.2⟩

theorem rpReduce_spec (st : List Int) (out : List Cyc) (Q : List Int) (hz : Zig (st.reverse ++ Q)) :
    Zig ((rpReduce st out).1.reverse ++ Q) ∧ (∀ x ∈ (rpReduce st out).1, x ∈ st) ∧
    (∀ c ∈ (rpReduce st out).2, c ∈ out ∨ GoodW st c) ∧
    totalUnits (rpReduce st out).2 + (rpReduce st out).1.length = totalUnits out + st.length ∧
    (1 ≤ st.length → 1 ≤ (rpReduce st out).1.length) := by
  fun_induction rpReduce st out with
  | case1 c b a rest out hle ih =>
    have hz0 : Zig (rest.reverse ++ a :: b :: c :: Q) := by simpa using hz
    have hz' : Zig ((c :: rest).reverse ++ Q) := by
      simpa using Zig_remove_after rest.reverse a b c Q hz0 hle
    obtain ⟨i1, i2, i3, i4, i5⟩ := ih hz'
    refine ⟨i1, ?_, ?_, ?_, ?_⟩
    · intro x hx; have := i2 x hx; simp at this ⊢; grind
    · intro cy hcy
      rcases i3 cy hcy with h | h
      · rcases List.mem_append.mp h with h | h
        · exact Or.inl h
        · simp only [List.mem_singleton] at h; subst h
          have hne : a ≠ b := Zig_adj_ne rest.reverse a b (c :: Q) hz0
          exact Or.inr ⟨⟨by simp, by simp, hne⟩, rfl⟩
      · exact Or.inr (h.mono (by intro x hx; simp at hx ⊢; grind))
    · rw [i4, totalUnits_append]; simp [totalUnits, Cyc.units]; omega
    · intro _; exact i5 (by simp)
  | case2 c b a rest out hgt =>
    exact ⟨hz, fun x hx => hx, fun c hc => Or.inl hc, rfl, fun h => h⟩
  | case3 st out hne =>
    exact ⟨hz, fun x hx => hx, fun c hc => Or.inl hc, rfl, fun h => h⟩

theorem rpForward_spec (st ps : List Int) (out : List Cyc) (hz : Zig (st.reverse ++ ps)) :
    Zig (rpForward st ps out).1.reverse ∧ (∀ x ∈ (rpForward st ps out).1, x ∈ st ++ ps) ∧
    (∀ c ∈ (rpForward st ps out).2, c ∈ out ∨ GoodW (st ++ ps) c) ∧
    totalUnits (rpForward st ps out).2 + (rpForward st ps out).1.length
      = totalUnits out + st.length + ps.length ∧
    (1 ≤ st.length + ps.length → 1 ≤ (rpForward st ps out).1.length) := by
  induction ps generalizing st out with
  | nil => exact ⟨by simpa [rpForward] using hz, by simp [rpForward], fun c hc => Or.inl hc, by simp [rpForward],
                  by simp [rpForward]⟩
  | cons p ps ih =>
    have hz1 : Zig ((p :: st).reverse ++ ps) := by simpa using hz
    obtain ⟨r1, r2, r3, r4, r5⟩ := rpReduce_spec (p :: st) out ps hz1
    obtain ⟨i1, i2, i3, i4, i5⟩ := ih (rpReduce (p :: st) out).1 (rpReduce (p :: st) out).2 r1
    have sub : ∀ x ∈ (rpReduce (p :: st) out).1 ++ ps, x ∈ st ++ p :: ps := by
      intro x hx
      rcases List.mem_append.mp hx with h | h
      · have := r2 x h; simp at this ⊢; grind
      · simp; grind
    simp only [rpForward]
    refine ⟨i1, fun x hx => sub x (i2 x hx), ?_, ?_, ?_⟩
    · intro cy hcy
      rcases i3 cy hcy with h | h
      · rcases r3 cy h with h | h
        · exact Or.inl h
        · exact Or.inr (h.mono (by intro x hx; simp at hx ⊢; grind))
      · exact Or.inr (h.mono sub)
    · rw [i4]; simp only [List.length_cons] at r4 ⊢; omega
    · intro _; exact i5 (by have := r5 (by simp); omega)

/-- newest-first: ranges strictly increase towards the older end — the state the forward pass leaves -/
def DecR : List Int → Prop
  | c :: b :: a :: rest => rng b c < rng a b ∧ DecR (b :: a :: rest)
  | _ => True

theorem DecR_tail {x : Int} {l : List Int} (h : DecR (x :: l)) : DecR l := by
  match l, h with
  | [], _ => simp [DecR]
  | [_], _ => simp [DecR]
  | _ :: _ :: _, h => exact h.2

theorem rpReduce_decR (st : List Int) (out : List Cyc) (h : DecR st.tail) : DecR (rpReduce st out).1 := by
  fun_induction rpReduce st out with
  | case1 c b a rest out hle ih =>
    exact ih (DecR_tail (DecR_tail (by simpa using h)))
  | case2 c b a rest out hgt =>
    exact ⟨by omega, by simpa using h⟩
  | case3 st out hne =>
    match st, hne with
    | [], _ => simp [DecR]
    | [_], _ => simp [DecR]
    | [_, _], _ => simp [DecR]
    | c :: b :: a :: rest, hne => exact (hne c b a rest rfl).elim

theorem rpForward_decR (st ps : List Int) (out : List Cyc) (h : DecR st) : DecR (rpForward st ps out).1 := by
  induction ps generalizing st out with
  | nil => simpa [rpForward] using h
  | cons p ps ih => simp only [rpForward]; exact ih _ _ (rpReduce_decR (p :: st) out (by simpa using h))

theorem rpBack_spec (st : List Int) (out : List Cyc) (hz : Zig st.reverse) :
    (∀ c ∈ (rpBack st out).2, c ∈ out ∨ GoodW st c) ∧
    totalUnits (rpBack st out).2 + (rpBack st out).1.length = totalUnits out + st.length ∧
    (1 ≤ st.length → 1 ≤ (rpBack st out).1.length) ∧
    (DecR st → (rpBack st out).1.length ≤ 2) := by
  fun_induction rpBack st out with
  | case1 c b a rest out hle r ih =>
    have hz0 : Zig ((a :: rest).reverse ++ [b, c]) := by simpa using hz
    have hz' : Zig (a :: rest).reverse := Zig_prefix _ _ hz0
    obtain ⟨i1, i2, i3, i4⟩ := ih hz'
    refine ⟨?_, ?_, ?_, ?_⟩
    · intro cy hcy
      rcases i1 cy hcy with h | h
      · rcases List.mem_append.mp h with h | h
        · exact Or.inl h
        · simp only [List.mem_singleton] at h; subst h
          have hne : b ≠ c := Zig_adj_ne (a :: rest).reverse b c [] hz0
          exact Or.inr ⟨⟨by simp, by simp, hne⟩, rfl⟩
      · exact Or.inr (h.mono (by intro x hx; exact List.mem_cons_of_mem _ (List.mem_cons_of_mem _ hx)))
    · show totalUnits (rpBack (a :: rest) (out ++ [⟨b, c, false⟩])).2
        + (rpBack (a :: rest) (out ++ [⟨b, c, false⟩])).1.length = _
      rw [i2, totalUnits_append]; simp [totalUnits, Cyc.units]; omega
    · intro _; exact i3 (by simp)
    · intro hd; exact i4 (DecR_tail (DecR_tail hd))
  | case2 c b a rest out hgt r ih =>
    have hz' : Zig (b :: a :: rest).reverse := Zig_prefix _ [c] (by simpa using hz)
    obtain ⟨i1, i2, i3, i4⟩ := ih hz'
    refine ⟨?_, ?_, ?_, ?_⟩
    · intro cy hcy
      rcases i1 cy hcy with h | h
      · exact Or.inl h
      · exact Or.inr (h.mono (by intro x hx; exact List.mem_cons_of_mem _ hx))
    · show totalUnits (rpBack (b :: a :: rest) out).2 + (c :: (rpBack (b :: a :: rest) out).1).length = _
      simp only [List.length_cons] at i2 ⊢; omega
    · intro _; simp
    · intro hd; exact absurd hd.1 (by omega)
  | case3 st out hne =>
    refine ⟨fun c hc => Or.inl hc, rfl, fun h => h, ?_⟩
    intro _
    match st, hne with
    | [], _ => simp
    | [_], _ => simp
    | [_, _], _ => simp
    | c :: b :: a :: rest, hne => exact (hne c b a rest rfl).elim

end FF
