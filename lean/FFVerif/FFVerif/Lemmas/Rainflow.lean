/- Rainflow: the deque loop of astmCounting.py equals the ASTM stack machine.  Core Lean only. -/
import FFVerif.Model.Cycle
namespace FF

/-- consecutive ranges strictly decreasing -/
def Dec : List Int → Prop
  | a :: b :: c :: rest => rng b c < rng a b ∧ Dec (b :: c :: rest)
  | _ => True

theorem reduce_stable (c b a : Int) (rest : List Int) (out : List Cyc)
    (h : rng b c < rng a b) : reduce (c :: b :: a :: rest) out = (c :: b :: a :: rest, out) := by
  cases rest with
  | nil => rw [reduce]; simp [h]
  | cons r rest => rw [reduce]; simp [h]

theorem reduce_two (x y : Int) (out : List Cyc) : reduce [x, y] out = ([x, y], out) := by
  rw [reduce] <;> simp
theorem reduce_one (x : Int) (out : List Cyc) : reduce [x] out = ([x], out) := by
  rw [reduce] <;> simp

theorem Dec_tail (x : Int) (l : List Int) (h : Dec (x :: l)) : Dec l := by
  match l, h with
  | [], _ => simp [Dec]
  | [_], _ => simp [Dec]
  | _ :: _ :: _, h => exact h.2

theorem Dec_drop (A l : List Int) (h : Dec (A ++ l)) : Dec l := by
  induction A with
  | nil => simpa using h
  | cons x A ih => exact ih (Dec_tail x _ (by simpa using h))

theorem Dec_head3 (A : List Int) (x y z : Int) (t : List Int) (h : Dec (A ++ x :: y :: z :: t)) :
    rng y z < rng x y := (Dec_drop A _ h).1

theorem Dec_snoc (A : List Int) : ∀ (a b c : Int), Dec (A ++ [a, b]) → rng b c < rng a b →
    Dec (A ++ [a, b, c]) := by
  induction A with
  | nil => intro a b c _ hx; simp [Dec, hx]
  | cons x A ih =>
    intro a b c h hx
    have h2 := ih a b c (Dec_tail x _ (by simpa using h)) hx
    match A, h, h2 with
    | [], h, h2 => simp [Dec] at h h2 ⊢; exact ⟨h, hx⟩
    | [y], h, h2 => simp [Dec] at h h2 ⊢; exact ⟨h.1, h.2, hx⟩
    | y :: z :: A', h, h2 =>
      simp only [List.cons_append, Dec] at h h2 ⊢
      exact ⟨h.1, h2⟩

/-- the restart after a whole cycle re-scans the already scanned prefix without counting -/
theorem rescan (P0 : List Int) : ∀ (A : List Int) (p q : Int) (tail : List Int) (out : List Cyc),
    Dec (A ++ P0 ++ [p, q]) →
    implGo A (P0 ++ p :: q :: tail) (A.isEmpty) out
      = implGo (A ++ P0) (p :: q :: tail) ((A ++ P0).isEmpty) out := by
  induction P0 with
  | nil => intro A p q tail out _; simp
  | cons x P0 ih =>
    intro A p q tail out hd
    have hd' : Dec (A ++ [x] ++ P0 ++ [p, q]) := by simpa using hd
    have step : implGo A (x :: (P0 ++ p :: q :: tail)) (A.isEmpty) out
          = implGo (A ++ [x]) (P0 ++ p :: q :: tail) false out := by
      obtain ⟨y, z, t, t', e, e'⟩ : ∃ y z t t', P0 ++ p :: q :: tail = y :: z :: t ∧
          P0 ++ [p, q] = y :: z :: t' := by
        match P0 with
        | [] => exact ⟨p, q, tail, [], rfl, rfl⟩
        | [y] => exact ⟨y, p, q :: tail, [q], rfl, rfl⟩
        | y :: z :: P0' => exact ⟨y, z, P0' ++ p :: q :: tail, P0' ++ [p, q], by simp, by simp⟩
      have hlt : rng y z < rng x y := by
        apply Dec_head3 A x y z t'
        have : A ++ x :: P0 ++ [p, q] = A ++ x :: y :: z :: t' := by
          rw [← e']; simp
        rw [← this]; exact hd
      rw [e, implGo]
      have : ¬ rng y z ≥ rng x y := by omega
      simp [this]
    have e2 : ((A ++ [x]).isEmpty) = false := by simp
    rw [List.cons_append, step]
    have := ih (A ++ [x]) p q tail out hd'
    rw [e2] at this
    rw [this]; simp

theorem astmGo_cons (st : List Int) (p : Int) (ps : List Int) (out : List Cyc) :
    astmGo st (p :: ps) out = astmGo (reduce (p :: st) out).1 ps (reduce (p :: st) out).2 := by
  rw [astmGo]

theorem snoc_cases (A : List Int) (hA : A ≠ []) :
    (∃ p, A = [p]) ∨ (∃ P0 p q, A = P0 ++ [p, q]) := by
  induction A with
  | nil => exact absurd rfl hA
  | cons x A ih =>
    cases A with
    | nil => exact Or.inl ⟨x, rfl⟩
    | cons y A' =>
      rcases ih (by simp) with ⟨p, hp⟩ | ⟨P0, p, q, h⟩
      · right; exact ⟨[], x, p, by simp [hp]⟩
      · right; exact ⟨x :: P0, p, q, by simp [h]⟩

theorem Dec_prefix2 (P : List Int) : ∀ (p q a b : Int), Dec (P ++ [p, q] ++ [a, b]) → Dec (P ++ [p, q]) := by
  induction P with
  | nil => intro p q a b _; simp [Dec]
  | cons x P ih =>
    intro p q a b h
    have h2 := ih p q a b (Dec_tail x _ (by simpa using h))
    match P, h, h2 with
    | [], h, h2 => simp [Dec] at h ⊢; exact h.1
    | [y], h, h2 => simp [Dec] at h ⊢; exact ⟨h.1, h.2.1⟩
    | y :: z :: P', h, h2 =>
      simp only [List.cons_append, Dec] at h h2 ⊢
      exact ⟨h.1, by simpa using h2⟩

theorem implGo_eq_astmGo (A : List Int) (a b : Int) (rest : List Int) (out : List Cyc)
    (hd : Dec (A ++ [a, b])) :
    implGo A (a :: b :: rest) A.isEmpty out = astmGo (b :: a :: A.reverse) rest out := by
  match rest with
  | [] =>
    rw [implGo, astmGo] <;> simp
  | c :: rest' =>
    rw [astmGo_cons]
    by_cases hx : rng b c < rng a b
    · -- X < Y : keep scanning
      rw [reduce_stable c b a _ out hx, implGo]
      have hge : ¬ rng b c ≥ rng a b := by omega
      simp only [hge, if_false]
      have ih := implGo_eq_astmGo (A ++ [a]) b c rest' out (by simpa using Dec_snoc A a b c hd hx)
      have e : (A ++ [a]).isEmpty = false := by simp
      rw [e] at ih
      simpa using ih
    · have hge : rng b c ≥ rng a b := by omega
      by_cases hA : A = []
      · -- half cycle, start point moves
        subst hA
        rw [implGo]
        simp only [hge, if_true, List.isEmpty_nil]
        simp only [List.reverse_nil]
        rw [reduce]
        simp only [hx, if_false]
        rw [reduce_two]
        have ih := implGo_eq_astmGo [] b c rest' (out ++ [⟨a, b, true⟩]) (by simp [Dec])
        simpa using ih
      · -- whole cycle, restart
        have hfl : A.isEmpty = false := by cases A <;> simp_all
        rw [implGo]
        simp only [hge, if_true, hfl]
        rcases snoc_cases A hA with ⟨p, rfl⟩ | ⟨P0, p, q, hA'⟩
        · -- A = [p]
          simp only [List.reverse_cons, List.reverse_nil, List.nil_append]
          rw [reduce]
          simp only [hx, if_false]
          rw [reduce_two]
          have ih := implGo_eq_astmGo [] p c rest' (out ++ [⟨a, b, false⟩]) (by simp [Dec])
          simpa using ih
        · -- A = P0 ++ [p, q]
          have hlen : A.length = P0.length + 2 := by simp [hA']
          have hdP : Dec (P0 ++ [p, q]) := Dec_prefix2 P0 p q a b (hA' ▸ hd)
          have ih := implGo_eq_astmGo P0 p q (c :: rest') (out ++ [⟨a, b, false⟩]) hdP
          subst hA'
          have hr := rescan P0 [] p q (c :: rest') (out ++ [⟨a, b, false⟩]) (by simpa using hdP)
          simp only [List.isEmpty_nil, List.nil_append] at hr
          have e1 : (P0 ++ [p, q]) ++ c :: rest' = P0 ++ p :: q :: c :: rest' := by simp
          rw [e1, hr]
          rw [ih, astmGo_cons]
          have e2 : (P0 ++ [p, q]).reverse = q :: p :: P0.reverse := by simp
          rw [e2]
          rw [reduce]
          simp only [hx, if_false]
          simp
termination_by (A.length + rest.length, rest.length)
decreasing_by
  all_goals simp_wf
  all_goals simp only [Prod.lex_def]
  all_goals simp
  all_goals omega

end FF
