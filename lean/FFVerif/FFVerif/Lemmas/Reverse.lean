/- Time reversal: the reversal sequence of the reversed history is the reversed reversal sequence.
Core Lean only. -/
import FFVerif.Lemmas.PeakValley
namespace FF

theorem dedup_snoc : ∀ (m : List Int) (a : Int),
    dedup (m ++ [a]) = if m.getLast? = some a then dedup m else dedup m ++ [a]
  | [], a => by simp [dedup]
  | [x], a => by
    by_cases h : x = a
    · subst h; simp [dedup]
    · simp [dedup, h]
  | x :: y :: r, a => by
    have ih := dedup_snoc (y :: r) a
    have hl : (x :: y :: r).getLast? = (y :: r).getLast? := by simp [List.getLast?_cons_cons]
    simp only [List.cons_append] at ih ⊢
    by_cases hxy : x = y
    · subst hxy
      rw [dedup_cons_eq, ih, hl, dedup_cons_eq]
    · rw [dedup_cons_ne x y _ hxy, ih, hl, dedup_cons_ne x y r hxy]
      split <;> simp

theorem dedup_cons' (a : Int) (t : List Int) :
    dedup (a :: t) = if t.head? = some a then dedup t else a :: dedup t := by
  cases t with
  | nil => simp [dedup]
  | cons b t =>
    by_cases h : a = b
    · subst h; simp [dedup_cons_eq]
    · have : ¬ b = a := fun e => h e.symm
      simp [dedup_cons_ne a b t h, this]

theorem dedup_reverse : ∀ l : List Int, dedup l.reverse = (dedup l).reverse
  | [] => rfl
  | a :: t => by
    rw [List.reverse_cons, dedup_snoc, dedup_reverse t, List.getLast?_reverse, dedup_cons']
    split <;> simp

theorem turning_snoc3 : ∀ (Y : List Int) (c b a : Int),
    turning (Y ++ [c, b, a]) = turning (Y ++ [c, b]) ++
      (if (c < b ∧ b > a) ∨ (c > b ∧ b < a) then [b] else [])
  | [], c, b, a => by simp [turning]
  | [y], c, b, a => by
    simp only [List.cons_append, List.nil_append, turning]
    split <;> split <;> simp
  | y :: z :: Y, c, b, a => by
    have ih := turning_snoc3 (z :: Y) c b a
    simp only [List.cons_append] at ih ⊢
    cases Y with
    | nil =>
      simp only [List.nil_append] at ih ⊢
      rw [turning, turning.eq_def (y :: z :: [c, b])]
      simp only []
      split <;> simp [ih]
    | cons w Y =>
      simp only [List.cons_append] at ih ⊢
      rw [turning, turning.eq_def (y :: z :: w :: (Y ++ [c, b]))]
      simp only []
      split <;> simp [ih]

theorem turning_reverse : ∀ l : List Int, turning l.reverse = (turning l).reverse
  | [] => rfl
  | [_] => rfl
  | [a, b] => by simp [turning]
  | a :: b :: c :: rest => by
    have ih := turning_reverse (b :: c :: rest)
    have e1 : (a :: b :: c :: rest).reverse = rest.reverse ++ [c, b, a] := by simp
    have e2 : (b :: c :: rest).reverse = rest.reverse ++ [c, b] := by simp
    rw [e1, turning_snoc3, ← e2, ih, turning]
    have hc : ((c < b ∧ b > a) ∨ (c > b ∧ b < a)) ↔ ((a < b ∧ b > c) ∨ (a > b ∧ b < c)) := by
      constructor <;> intro h <;> omega
    by_cases hk : (a < b ∧ b > c) ∨ (a > b ∧ b < c)
    · rw [if_pos hk, if_pos (hc.mpr hk)]; simp
    · rw [if_neg hk, if_neg (fun h => hk (hc.mp h))]; simp

theorem lastD_eq_getLast? : ∀ (l : List Int) (d : Int), lastD l d = (l.getLast?).getD d
  | [], _ => rfl
  | [x], _ => by simp [lastD]
  | x :: y :: r, d => by
    have := lastD_eq_getLast? (y :: r) x
    simp only [lastD] at this ⊢
    rw [this]
    cases hg : (y :: r).getLast? with
    | none => simp at hg
    | some v => simp [List.getLast?_cons_cons, hg]

/-- for a record of at least two samples: first point, turning points, last point -/
theorem reversals_eq (h : List Int) (hl : 2 ≤ h.length) :
    reversals h = h.head?.toList ++ turning (dedup h) ++ h.getLast?.toList := by
  match h, hl with
  | x :: y :: rest, _ =>
    simp only [reversals, List.head?_cons, Option.toList_some, List.cons_append, List.nil_append]
    rw [lastD_eq_getLast?]
    simp [List.getLast?_cons_cons]
    cases hg : (y :: rest).getLast? with
    | none => simp at hg
    | some v => simp

theorem reversals_reverse (h : List Int) : reversals h.reverse = (reversals h).reverse := by
  by_cases hl : 2 ≤ h.length
  · rw [reversals_eq h.reverse (by simpa using hl), reversals_eq h hl, dedup_reverse, turning_reverse,
      List.head?_reverse, List.getLast?_reverse]
    cases h.head? <;> cases h.getLast? <;> simp
  · match h, hl with
    | [], _ => rfl
    | [x], _ => rfl
    | _ :: _ :: _, hl => simp at hl

theorem pv_true_reverse (h : List Int) : pv true h.reverse = (pv true h).reverse := by
  rw [pv_true_eq_reversals, pv_true_eq_reversals, reversals_reverse]

end FF
