/- The real-number instance of the scalar interface of the generated definitions. -/
import Mathlib.Analysis.SpecialFunctions.Pow.Real
import Mathlib.Analysis.SpecialFunctions.Gamma.Basic
import Mathlib.Analysis.SpecialFunctions.Trigonometric.Basic
import FFVerif.Model.Scalar

namespace FF
open Classical in
noncomputable instance : Transc ℝ where
  toAdd := inferInstance
  toSub := inferInstance
  toMul := inferInstance
  toDiv := inferInstance
  toNeg := inferInstance
  lit m e := (m : ℝ) / 10 ^ e
  npow x n := x ^ n
  rpow x y := x ^ y
  exp := Real.exp
  log := Real.log
  log10 x := Real.log x / Real.log 10
  sqrt := Real.sqrt
  sin := Real.sin
  gamma := Real.Gamma
  pi := Real.pi
  max2 := max
  ltb a b := decide (a < b)
  leb a b := decide (a ≤ b)
  eqb a b := decide (a = b)

@[simp] theorem lit_real (m e : Nat) : (Transc.lit m e : ℝ) = (m : ℝ) / 10 ^ e := rfl
@[simp] theorem npow_real (x : ℝ) (n : Nat) : Transc.npow x n = x ^ n := rfl
@[simp] theorem rpow_real (x y : ℝ) : Transc.rpow x y = x ^ y := rfl
@[simp] theorem exp_real (x : ℝ) : Transc.exp x = Real.exp x := rfl
@[simp] theorem log_real (x : ℝ) : Transc.log x = Real.log x := rfl
@[simp] theorem log10_real (x : ℝ) : Transc.log10 x = Real.log x / Real.log 10 := rfl
@[simp] theorem sqrt_real (x : ℝ) : Transc.sqrt x = Real.sqrt x := rfl
@[simp] theorem sin_real (x : ℝ) : Transc.sin x = Real.sin x := rfl
@[simp] theorem gamma_real (x : ℝ) : Transc.gamma x = Real.Gamma x := rfl
@[simp] theorem pi_real : (Transc.pi : ℝ) = Real.pi := rfl
@[simp] theorem max2_real (x y : ℝ) : Transc.max2 x y = max x y := rfl
@[simp] theorem ltb_real (a b : ℝ) : Transc.ltb a b = true ↔ a < b := by
  show decide (a < b) = true ↔ _; simp
@[simp] theorem leb_real (a b : ℝ) : Transc.leb a b = true ↔ a ≤ b := by
  show decide (a ≤ b) = true ↔ _; simp
@[simp] theorem eqb_real (a b : ℝ) : Transc.eqb a b = true ↔ a = b := by
  show decide (a = b) = true ↔ _; simp
@[simp] theorem neb_real (a b : ℝ) : Transc.neb a b = true ↔ a ≠ b := by
  unfold Transc.neb
  rw [Bool.not_eq_true', ← Bool.not_eq_true, eqb_real]
@[simp] theorem gtb_real (a b : ℝ) : Transc.gtb a b = true ↔ b < a := by unfold Transc.gtb; simp
@[simp] theorem geb_real (a b : ℝ) : Transc.geb a b = true ↔ b ≤ a := by unfold Transc.geb; simp

/-- the exponential never equals the literal zero: the `if expc == 0: return 0.0` branch of a translated function is dead at the reals -/
theorem eqb_exp_lit_zero (x : ℝ) : Transc.eqb (Real.exp x) (Transc.lit 0 0 : ℝ) = false := by
  cases h : Transc.eqb (Real.exp x) (Transc.lit 0 0 : ℝ) with
  | false => rfl
  | true =>
    rw [eqb_real, lit_real] at h
    exact absurd (by simpa using h) (Real.exp_ne_zero x)

/-- the same in the form `lit_real` leaves behind -/
theorem eqb_exp_zero' (x : ℝ) : Transc.eqb (Real.exp x) (((0 : ℕ) : ℝ) / 10 ^ 0) = false := by
  have := eqb_exp_lit_zero x
  rwa [lit_real] at this

end FF
