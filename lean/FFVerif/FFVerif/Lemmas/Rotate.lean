/- Rotating a closed reversal sequence from its minimum to its maximum leaves the canonical
histogram `T` unchanged.  Core Lean only. -/
import FFVerif.Lemmas.ClosedNormal2
import FFVerif.Lemmas.Repeat
namespace FF

/-! ### the filter is the identity on alternating sequences -/

theorem pvGo_zig : ∀ (l : List Int) (p : Int) (u : Bool), ZigD u (p :: l) → pvGo true p l = l
  | [], _, _, _ => by simp [pvGo]
  | [_], _, _, _ => by simp [pvGo]
  | cur :: next :: rest, p, u, h => by
    obtain ⟨h1, h2, h3⟩ := h
    have hc : (p < cur ∧ cur > next) ∨ (p > cur ∧ cur < next) := by
      unfold rel at h1 h2; cases u <;> simp at h1 h2 <;> omega
    rw [pvGo, if_pos hc, pvGo_zig (next :: rest) cur (!u) ⟨h2, h3⟩]

theorem pv_of_zig (l : List Int) (hz : Zig l) : pv true l = l := by
  cases l with
  | nil => rfl
  | cons x rest =>
    rcases hz with h | h
    · simp [pv, pvGo_zig rest x _ h]
    · simp [pv, pvGo_zig rest x _ h]

/-! ### gluing two alternating sequences at a common minimum -/

theorem Zig_glue_min (X Y : List Int) (m : Int) (hX : X ≠ []) (hY : Y ≠ []) (h1 : Zig (X ++ [m]))
    (h2 : Zig (m :: Y)) (hlb : ∀ v ∈ X ++ Y, m ≤ v) : Zig (X ++ m :: Y) := by
  rcases List.eq_nil_or_concat X with e | ⟨Z, a, e⟩
  · exact absurd e hX
  · have eX : X = Z ++ [a] := by simpa using e
    subst eX
    obtain ⟨y, Y', rfl⟩ : ∃ y Y', Y = y :: Y' := by
      cases Y with
      | nil => exact absurd rfl hY
      | cons y Y' => exact ⟨y, Y', rfl⟩
    have ha : m < a := by
      have := hlb a (by simp)
      have := Zig_adj_ne Z a m [] (by simpa using h1)
      omega
    have hy : m < y := by
      have := hlb y (by simp)
      have := Zig_adj_ne [] m y Y' h2
      omega
    have key : ∀ u, ZigD u [a, m] → ZigD u (a :: m :: y :: Y') := by
      intro u hu
      have hr : rel u a m := hu.1
      have hu' : u = false := by
        cases u
        · rfl
        · unfold rel at hr; simp at hr; omega
      subst hu'
      refine ⟨hr, ?_⟩
      rcases h2 with g | g
      · exact g
      · have := g.1; unfold rel at this; simp at this; omega
    have e1 : Z ++ [a] ++ [m] = Z ++ a :: [m] := by simp
    have e2 : Z ++ [a] ++ m :: y :: Y' = Z ++ a :: (m :: y :: Y') := by simp
    rw [e1] at h1
    rw [e2]
    rcases h1 with g | g
    · exact Or.inl (ZigD_splice Z a _ _ g key)
    · exact Or.inr (ZigD_splice Z a _ _ g key)

/-! ### `argmax` points at a maximum -/

theorem argmaxGo_spec (xs : List Int) : ∀ (pre : List Int) (m : Int) (best : Nat),
    pre[best]? = some m → (∀ y ∈ pre, y ≤ m) →
    ∃ M, (pre ++ xs)[argmaxGo xs pre.length m best]? = some M ∧ ∀ y ∈ pre ++ xs, y ≤ M := by
  induction xs with
  | nil => intro pre m best hb hm; exact ⟨m, by simpa [argmaxGo] using hb, by simpa using hm⟩
  | cons x xs ih =>
    intro pre m best hb hm
    have hlt : best < pre.length := by
      obtain ⟨h, _⟩ := List.getElem?_eq_some_iff.mp hb
      exact h
    by_cases hx : x > m
    · rw [argmaxGo, if_pos hx]
      have := ih (pre ++ [x]) x pre.length (by simp) (by
        intro y hy
        rcases List.mem_append.mp hy with h | h
        · have := hm y h; omega
        · simp at h; omega)
      simpa using this
    · rw [argmaxGo, if_neg hx]
      have := ih (pre ++ [x]) m best (by rw [List.getElem?_append_left hlt]; exact hb) (by
        intro y hy
        rcases List.mem_append.mp hy with h | h
        · exact hm y h
        · simp at h; omega)
      simpa using this

/-- the record splits at `argmax` into `A ++ M :: Q'` with `M` an upper bound -/
theorem argmax_split (R : List Int) (hne : R ≠ []) :
    ∃ A M Q', R = A ++ M :: Q' ∧ R.take (argmax R + 1) = A ++ [M] ∧ R.drop (argmax R) = M :: Q' ∧
      ∀ y ∈ R, y ≤ M := by
  cases R with
  | nil => exact absurd rfl hne
  | cons x xs =>
    obtain ⟨M, hM, hb⟩ := argmaxGo_spec xs [x] x 0 rfl (by simp)
    have hk : (x :: xs)[argmax (x :: xs)]? = some M := by simpa [argmax] using hM
    obtain ⟨hlt, hget⟩ := List.getElem?_eq_some_iff.mp hk
    refine ⟨(x :: xs).take (argmax (x :: xs)), M, (x :: xs).drop (argmax (x :: xs) + 1), ?_, ?_, ?_,
      by simpa using hb⟩
    · have := List.take_append_drop (argmax (x :: xs)) (x :: xs)
      rw [List.drop_eq_getElem_cons hlt, hget] at this
      exact this.symm
    · rw [List.take_add_one, hk]; rfl
    · rw [List.drop_eq_getElem_cons hlt, hget]


/-! ### the rotation -/

theorem normal_three (a b c : Int) : Normal [a, b, c] := by
  intro cy L' s
  have h1 := s.length
  have h2 := s.length_ge
  simp at h1; omega

/-- a sequence `m … M … m` between its bounds `m ≤ · ≤ M`: extract inside `m … M` and inside
`M … m` separately; what remains is `[m, M, m]` -/
theorem red_min_max_min (m M : Int) (A' Q'' : List Int)
    (hz : Zig (m :: (A' ++ M :: (Q'' ++ [m]))))
    (hb : ∀ y ∈ m :: (A' ++ M :: (Q'' ++ [m])), m ≤ y ∧ y ≤ M) :
    ∃ csP csQ, Red (m :: (A' ++ M :: (Q'' ++ [m]))) (csP ++ csQ) [m, M, m] ∧
      Red (M :: (Q'' ++ m :: (A' ++ [M]))) (csQ ++ csP) [M, m, M] := by
  have hzP : Zig (m :: (A' ++ [M])) := by
    have : m :: (A' ++ M :: (Q'' ++ [m])) = (m :: (A' ++ [M])) ++ (Q'' ++ [m]) := by simp
    rw [this] at hz; exact Zig_prefix _ _ hz
  have hzQ : Zig (M :: (Q'' ++ [m])) := by
    have : m :: (A' ++ M :: (Q'' ++ [m])) = (m :: A') ++ (M :: (Q'' ++ [m])) := by simp
    rw [this] at hz; exact Zig_suffix _ hz
  obtain ⟨csP, NP, rP⟩ := Red.exists (m :: (A' ++ [M]))
  obtain ⟨csQ, NQ, rQ⟩ := Red.exists (M :: (Q'' ++ [m]))
  have eP : NP = [m, M] := by
    refine normal_min_max NP m M rP.normal (rP.zig hzP) (rP.steps.length_ge (by simp)) ?_ ?_ ?_
    · rw [rP.steps.head]; rfl
    · rw [rP.steps.getLast]
      exact List.getLast?_eq_some_iff.mpr ⟨m :: A', by simp⟩
    · intro y hy
      exact hb y (by have := rP.steps.mem y hy; simp at this ⊢; grind)
  have eQ : NQ = [M, m] := by
    refine normal_max_min NQ m M rQ.normal (rQ.zig hzQ) (rQ.steps.length_ge (by simp)) ?_ ?_ ?_
    · rw [rQ.steps.head]; rfl
    · rw [rQ.steps.getLast]
      exact List.getLast?_eq_some_iff.mpr ⟨M :: Q'', by simp⟩
    · intro y hy
      exact hb y (by have := rQ.steps.mem y hy; simp at this ⊢; grind)
  subst eP; subst eQ
  refine ⟨csP, csQ, ?_, ?_⟩
  · have s1 := rP.steps.append (Q'' ++ [m])
    have s2 := rQ.steps.prepend [m]
    have e1 : m :: (A' ++ [M]) ++ (Q'' ++ [m]) = m :: (A' ++ M :: (Q'' ++ [m])) := by simp
    have e2 : [m, M] ++ (Q'' ++ [m]) = [m] ++ M :: (Q'' ++ [m]) := by simp
    rw [e1, e2] at s1
    have := (s1.trans s2).red (Red.done (normal_three m M m))
    simpa using this
  · have s1 := rQ.steps.append (A' ++ [M])
    have s2 := rP.steps.prepend [M]
    have e1 : M :: (Q'' ++ [m]) ++ (A' ++ [M]) = M :: (Q'' ++ m :: (A' ++ [M])) := by simp
    have e2 : [M, m] ++ (A' ++ [M]) = [M] ++ m :: (A' ++ [M]) := by simp
    rw [e1, e2] at s1
    have := (s1.trans s2).red (Red.done (normal_three M m M))
    simpa using this

theorem unitsAt_halves3' (e y : Int) (k : Nat) :
    unitsAt (halves [e, y, e]) k = if rng e y = k then 2 else 0 := by
  have e2 : halves [e, y, e] = [⟨e, y, true⟩, ⟨y, e, true⟩] := by simp [halves]
  rw [e2, unitsAt_cons, unitsAt_cons]
  have e0 : unitsAt [] k = 0 := rfl
  rw [e0]
  simp only [Cyc.range, Cyc.units, rng_comm y e]
  by_cases hk : rng e y = k <;> simp [hk]

/-- rotating `m … M … m` to `M … m … M` leaves the canonical histogram unchanged -/
theorem T_rotate (m M : Int) (A' Q'' : List Int)
    (hz : Zig (m :: (A' ++ M :: (Q'' ++ [m]))))
    (hb : ∀ y ∈ m :: (A' ++ M :: (Q'' ++ [m])), m ≤ y ∧ y ≤ M) (k : Nat) :
    T (m :: (A' ++ M :: (Q'' ++ [m]))) k = T (M :: (Q'' ++ m :: (A' ++ [M]))) k := by
  obtain ⟨csP, csQ, r1, r2⟩ := red_min_max_min m M A' Q'' hz hb
  rw [T_eq r1, T_eq r2, unitsAt_app, unitsAt_app, unitsAt_halves3', unitsAt_halves3', rng_comm M m]
  omega

end FF
