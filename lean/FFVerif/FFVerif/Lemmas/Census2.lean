/- Census facts for four-point, Rychlik, Johannesson and the repeating-history count.
Core Lean only. -/
import FFVerif.Lemmas.Census
namespace FF

/-! ### four-point -/

theorem fpRound_spec : ∀ (l : List Int) (cy : Cyc) (l' : List Int), fpRound l = some (cy, l') →
    cy.a ∈ l ∧ cy.b ∈ l ∧ cy.half = false ∧ (∀ x ∈ l', x ∈ l) ∧ (∀ u, ZigD u l → ZigD u l') ∧
    l'.head? = l.head? ∧ (Zig l → cy.a ≠ cy.b)
  | a :: b :: c :: d :: rest, cy, l', h => by
    unfold fpRound at h
    split at h
    · rename_i hc
      cases h
      refine ⟨by simp, by simp, rfl, ?_, ?_, rfl, ?_⟩
      · intro x hx; simp at hx ⊢; grind
      · intro u hu; exact ZigD_remove_after a b c d rest hu (by omega)
      · intro hz; exact Zig_adj_ne [a] b c (d :: rest) hz
    · split at h
      · rename_i cy2 l2 heq
        cases h
        obtain ⟨i1, i2, i3, i4, i5, i6, i7⟩ := fpRound_spec _ _ _ heq
        refine ⟨List.mem_cons_of_mem _ i1, List.mem_cons_of_mem _ i2, i3, ?_, ?_, rfl, ?_⟩
        · intro x hx
          rcases List.mem_cons.mp hx with rfl | hx
          · simp
          · exact List.mem_cons_of_mem _ (i4 x hx)
        · intro u hu
          obtain ⟨t, rfl⟩ : ∃ t, l2 = b :: t := by
            cases l2 with
            | nil => simp at i6
            | cons y t => simp at i6; exact ⟨t, by rw [i6]⟩
          exact ⟨hu.1, i5 _ hu.2⟩
        · intro hz; exact i7 (Zig_tail hz)
      · cases h
  | [], _, _, h => by simp [fpRound] at h
  | [_], _, _, h => by simp [fpRound] at h
  | [_, _], _, _, h => by simp [fpRound] at h
  | [_, _, _], _, _, h => by simp [fpRound] at h

theorem fpGo_spec (l : List Int) (out : List Cyc) (hz : Zig l) :
    (∀ c ∈ (fpGo l out).2, c ∈ out ∨ GoodW l c) ∧
    totalUnits (fpGo l out).2 + (fpGo l out).1.length = totalUnits out + l.length ∧
    (2 ≤ l.length → 2 ≤ (fpGo l out).1.length) ∧ Zig (fpGo l out).1 := by
  fun_induction fpGo l out with
  | case1 l out cy l' heq ih =>
    obtain ⟨s1, s2, s3, s4, s5, s6, s7⟩ := fpRound_spec l cy l' heq
    have hlen := fpRound_length l cy l' heq
    have hz' : Zig l' := by
      rcases hz with h | h
      · exact Or.inl (s5 _ h)
      · exact Or.inr (s5 _ h)
    obtain ⟨i1, i2, i3, i4⟩ := ih hz'
    refine ⟨?_, ?_, ?_, i4⟩
    · intro c hc
      rcases i1 c hc with h | h
      · rcases List.mem_append.mp h with h | h
        · exact Or.inl h
        · simp only [List.mem_singleton] at h; subst h
          exact Or.inr ⟨⟨s1, s2, s7 hz⟩, s3⟩
      · exact Or.inr (h.mono s4)
    · rw [i2, totalUnits_append]; simp [totalUnits, Cyc.units, s3]; omega
    · intro h2
      -- fpRound needs four points, so two remain
      have : 4 ≤ l.length := by
        match l, heq with
        | a :: b :: c :: d :: rest, _ => simp
        | [], h => simp [fpRound] at h
        | [_], h => simp [fpRound] at h
        | [_, _], h => simp [fpRound] at h
        | [_, _, _], h => simp [fpRound] at h
      exact i3 (by omega)
  | case2 l out heq =>
    exact ⟨fun c hc => Or.inl hc, rfl, fun h => h, hz⟩

/-! ### per-peak scans (Rychlik, Johannesson) -/

theorem foldl_min_mem (l : List Int) (x : Int) : l.foldl min x ∈ x :: l := by
  induction l generalizing x with
  | nil => simp
  | cons y l ih =>
    simp only [List.foldl_cons]
    have := ih (min x y)
    rcases List.mem_cons.mp this with h | h
    · rw [h]
      by_cases hxy : x ≤ y
      · rw [Int.min_eq_left hxy]; simp
      · rw [Int.min_eq_right (by omega)]; simp
    · exact List.mem_cons_of_mem _ (List.mem_cons_of_mem _ h)

theorem scanMin_mem (m : Int) (side : List Int) : scanMin m side ∈ m :: side := by
  match side with
  | [] => simp [scanMin]
  | [x] =>
    simp only [scanMin]
    by_cases hxy : x ≤ m
    · rw [Int.min_eq_left hxy]; simp
    · rw [Int.min_eq_right (by omega)]; simp
  | x :: y :: rest =>
    simp only [scanMin]
    have := foldl_min_mem ((y :: rest).takeWhile (· < m)) x
    rcases List.mem_cons.mp this with h | h
    · rw [h]; simp
    · have := (List.takeWhile_sublist (fun z => decide (z < m))).subset h
      exact List.mem_cons_of_mem _ (List.mem_cons_of_mem _ this)

theorem scanMin_lt (m x : Int) (rest : List Int) (h : x < m) : scanMin m (x :: rest) < m := by
  match rest with
  | [] => simp only [scanMin]; omega
  | y :: rest =>
    simp only [scanMin]
    have := (foldl_min_le ((y :: rest).takeWhile (· < m)) x).1
    omega

theorem scanMinLe_mem (m : Int) (side : List Int) : scanMinLe m side ∈ m :: side := by
  match side with
  | [] => simp [scanMinLe]
  | [x] =>
    simp only [scanMinLe]
    by_cases hxy : x ≤ m
    · rw [Int.min_eq_left hxy]; simp
    · rw [Int.min_eq_right (by omega)]; simp
  | x :: y :: rest =>
    simp only [scanMinLe]
    have := foldl_min_mem ((y :: rest).takeWhile (· ≤ m)) x
    rcases List.mem_cons.mp this with h | h
    · rw [h]; simp
    · have := (List.takeWhile_sublist (fun z => decide (z ≤ m))).subset h
      exact List.mem_cons_of_mem _ (List.mem_cons_of_mem _ this)

theorem scanMinLe_lt (m x : Int) (rest : List Int) (h : x < m) : scanMinLe m (x :: rest) < m := by
  match rest with
  | [] => simp only [scanMinLe]; omega
  | y :: rest =>
    simp only [scanMinLe]
    have := (foldl_min_le ((y :: rest).takeWhile (· ≤ m)) x).1
    omega

/-- what the per-peak function must deliver: a whole cycle between distinct points of the record -/
def PeakFn (f : List Int → Int → List Int → Option Cyc) : Prop :=
  ∀ (p : Int) (l : List Int) (cur next : Int) (r : List Int) (c : Cyc), cur > p → cur > next →
    f (p :: l) cur (next :: r) = some c → GoodW ((p :: l).reverse ++ cur :: next :: r) c

theorem peaksGo_good (f : List Int → Int → List Int → Option Cyc) (hf : PeakFn f)
    (left right : List Int) : ∀ c ∈ peaksGo f left right, GoodW (left.reverse ++ right) c := by
  fun_induction peaksGo f left right with
  | case1 cur next rest ih => simpa using ih
  | case2 cur next rest x rest1 hp c hc ih =>
    intro cy hcy
    simp only [hc] at hcy
    rcases List.mem_cons.mp hcy with rfl | h
    · exact hf x rest1 cur next rest cy hp.1 hp.2 hc
    · have := ih cy h; simpa using this
  | case3 cur next rest x rest1 hp hc ih =>
    intro cy hcy; simp only [hc] at hcy; have := ih cy hcy; simpa using this
  | case4 cur next rest x rest1 hp ih =>
    intro cy hcy; have := ih cy hcy; simpa using this
  | case5 t x hne => intro cy hcy; cases hcy

/-- peaks cannot be adjacent: at most one whole cycle per two points -/
theorem peaksGo_total (f : List Int → Int → List Int → Option Cyc)
    (hw : ∀ l m r c, f l m r = some c → c.half = false) (left right : List Int) :
    (left ≠ [] → totalUnits (peaksGo f left right) ≤ right.length) ∧
    (∀ p l cur r, left = p :: l → right = cur :: r → cur ≤ p →
      totalUnits (peaksGo f left right) + 1 ≤ right.length) ∧
    (left = [] → totalUnits (peaksGo f left right) + 1 ≤ right.length ∨ right.length ≤ 1) := by
  fun_induction peaksGo f left right with
  | case1 cur next rest ih =>
    refine ⟨fun h => absurd rfl h, fun p l c r h => by simp at h, fun _ => ?_⟩
    have := ih.1 (by simp)
    simp only [List.length_cons] at this ⊢; omega
  | case2 cur next rest x rest1 hp c hc ih =>
    have hu : c.units = 2 := by simp [Cyc.units, hw _ _ _ _ hc]
    have i2 := ih.2.1 cur (x :: rest1) next rest rfl rfl (by omega)
    simp only [hc]
    refine ⟨fun _ => ?_, ?_, fun h => by cases h⟩
    · simp only [totalUnits, List.map_cons, List.sum_cons, hu, List.length_cons] at i2 ⊢; omega
    · intro p l cur' r h1 h2 hle; cases h1; cases h2; omega
  | case3 cur next rest x rest1 hp hc ih =>
    have i1 := ih.1 (by simp)
    simp only [hc]
    refine ⟨fun _ => ?_, ?_, fun h => by cases h⟩
    · simp only [List.length_cons] at i1 ⊢; omega
    · intro p l cur' r h1 h2 hle; cases h1; cases h2; omega
  | case4 cur next rest x rest1 hp ih =>
    have i1 := ih.1 (by simp)
    refine ⟨fun _ => ?_, ?_, fun h => by cases h⟩
    · simp only [List.length_cons] at i1 ⊢; omega
    · intro p l cur' r h1 h2 hle
      simp only [List.length_cons] at i1 ⊢; omega
  | case5 t x hne =>
    refine ⟨fun _ => by simp [totalUnits], ?_, fun _ => ?_⟩
    · intro p l cur r h1 h2 _; subst h2; simp [totalUnits]
    · match t, hne with
      | [], _ => right; simp
      | [_], _ => right; simp
      | a :: b :: r, hne => exact (hne a b r rfl).elim

theorem rychlik_fn : PeakFn (fun l m r => some ⟨max (scanMin m l) (scanMinLe m r), m, false⟩) := by
  intro p l cur next r c hp hn hc
  simp only [Option.some.injEq] at hc; subst hc
  have h1 := scanMin_mem cur (p :: l)
  have h2 := scanMinLe_mem cur (next :: r)
  have h3 := scanMin_lt cur p l hp
  have h4 := scanMinLe_lt cur next r hn
  refine ⟨⟨?_, by simp, ?_⟩, rfl⟩
  · show max (scanMin cur (p :: l)) (scanMinLe cur (next :: r)) ∈ _
    by_cases hle : scanMin cur (p :: l) ≤ scanMinLe cur (next :: r)
    · rw [Int.max_eq_right hle]; simp at h2 ⊢; grind
    · rw [Int.max_eq_left (by omega)]; simp at h1 ⊢; grind
  · show max (scanMin cur (p :: l)) (scanMinLe cur (next :: r)) ≠ cur
    omega

theorem johannesson_fn : PeakFn (fun l m _ => some ⟨scanMin m l, m, false⟩) := by
  intro p l cur next r c hp hn hc
  simp only [Option.some.injEq] at hc; subst hc
  have h1 := scanMin_mem cur (p :: l)
  have h3 := scanMin_lt cur p l hp
  refine ⟨⟨?_, by simp, ?_⟩, rfl⟩
  · show scanMin cur (p :: l) ∈ _
    simp at h1 ⊢; grind
  · show scanMin cur (p :: l) ≠ cur
    omega

end FF
