/- Load symmetries: shifting, positive scaling, negation commute with the filter and the counters.
Core Lean only. -/
import FFVerif.Lemmas.Census2
import FFVerif.Model.Level
namespace FF

/-- `f` multiplies every range by `k > 0` (shift: k = 1; scale by c: k = c; negation: k = 1) -/
structure Sim (k : Nat) (f : Int → Int) : Prop where
  kpos : 0 < k
  rng_eq : ∀ a b, rng (f a) (f b) = k * rng a b

def Inc (f : Int → Int) : Prop := ∀ a b, a < b → f a < f b
def Dec' (f : Int → Int) : Prop := ∀ a b, a < b → f a > f b

def Cyc.map (f : Int → Int) (c : Cyc) : Cyc := ⟨f c.a, f c.b, c.half⟩

theorem Inc.lt_iff {f} (h : Inc f) (a b : Int) : f a < f b ↔ a < b := by
  constructor
  · intro hlt
    refine Int.not_le.mp fun hle => ?_
    rcases Int.lt_or_eq_of_le hle with h1 | h1
    · have := h b a h1; omega
    · subst h1; omega
  · exact h a b

theorem Dec'.lt_iff {f} (h : Dec' f) (a b : Int) : f a < f b ↔ b < a := by
  constructor
  · intro hlt
    refine Int.not_le.mp fun hle => ?_
    rcases Int.lt_or_eq_of_le hle with h1 | h1
    · have := h a b h1; omega
    · subst h1; omega
  · intro hba; have := h b a hba; omega

/-! ### the filter -/

theorem pvGo_map (k : Bool) (f : Int → Int) (hm : Inc f ∨ Dec' f) : ∀ (l : List Int) (p : Int),
    pvGo k (f p) (l.map f) = (pvGo k p l).map f
  | [], _ => by simp [pvGo]
  | [last], _ => by cases k <;> simp [pvGo]
  | cur :: next :: rest, p => by
    have ih := pvGo_map k f hm (next :: rest)
    simp only [List.map_cons] at ih ⊢
    rw [pvGo, pvGo.eq_def k p (cur :: next :: rest)]
    simp only []
    have hc : ((f p < f cur ∧ f cur > f next) ∨ (f p > f cur ∧ f cur < f next)) ↔
        ((p < cur ∧ cur > next) ∨ (p > cur ∧ cur < next)) := by
      rcases hm with hi | hd
      · have := hi.lt_iff p cur; have := hi.lt_iff next cur; have := hi.lt_iff cur p; have := hi.lt_iff cur next
        constructor <;> intro h <;> omega
      · have := hd.lt_iff p cur; have := hd.lt_iff next cur; have := hd.lt_iff cur p; have := hd.lt_iff cur next
        constructor <;> intro h <;> omega
    by_cases hk : (p < cur ∧ cur > next) ∨ (p > cur ∧ cur < next)
    · rw [if_pos hk, if_pos (hc.mpr hk), ih cur]; rfl
    · rw [if_neg hk, if_neg (fun h => hk (hc.mp h)), ih p]

theorem pv_map (k : Bool) (f : Int → Int) (hm : Inc f ∨ Dec' f) (h : List Int) :
    pv k (h.map f) = (pv k h).map f := by
  cases h with
  | nil => rfl
  | cons x rest => cases k <;> simp [pv, pvGo_map _ f hm]

/-! ### counters that only look at ranges: simple range, rainflow, range pair, four point -/

theorem halves_map (f : Int → Int) : ∀ l : List Int, halves (l.map f) = (halves l).map (Cyc.map f)
  | [] => rfl
  | [_] => rfl
  | a :: b :: rest => by
    have := halves_map f (b :: rest)
    simp only [List.map_cons] at this ⊢
    simp [halves, this, Cyc.map]

theorem Sim.le_iff {k f} (s : Sim k f) (a b c d : Int) :
    rng (f a) (f b) ≤ rng (f c) (f d) ↔ rng a b ≤ rng c d := by
  rw [s.rng_eq, s.rng_eq]
  exact Nat.mul_le_mul_left_iff s.kpos

theorem Sim.lt_iff {k f} (s : Sim k f) (a b c d : Int) :
    rng (f a) (f b) < rng (f c) (f d) ↔ rng a b < rng c d := by
  rw [s.rng_eq, s.rng_eq]
  exact Nat.mul_lt_mul_left s.kpos

theorem implGo_map {k f} (s : Sim k f) (A B : List Int) (flag : Bool) (out : List Cyc) :
    implGo (A.map f) (B.map f) flag (out.map (Cyc.map f)) = (implGo A B flag out).map (Cyc.map f) := by
  fun_induction implGo A B flag out with
  | case1 A out a b c rest hge ih =>
    simp only [List.map_cons]
    rw [implGo, if_pos ((s.le_iff a b b c).mpr hge), if_pos rfl]
    simpa [Cyc.map] using ih
  | case2 A flag out a b c rest hge hf ih =>
    simp only [List.map_cons]
    rw [implGo, if_pos ((s.le_iff a b b c).mpr hge), if_neg hf]
    simpa [Cyc.map] using ih
  | case3 A flag out a b c rest hlt ih =>
    simp only [List.map_cons]
    rw [implGo, if_neg (fun h => hlt ((s.le_iff a b b c).mp h))]
    simpa using ih
  | case4 A B flag out hB =>
    have hB' : ∀ a b c rest, B.map f = a :: b :: c :: rest → False := by
      intro a b c rest e
      match B, e with
      | x :: y :: z :: r, _ => exact hB x y z r rfl
    rw [implGo.eq_def]
    split
    · rename_i a b c rest heq; exact (hB' a b c rest heq).elim
    · simp [← halves_map, List.map_append]

theorem rainflow_map {k f} (s : Sim k f) (hm : Inc f ∨ Dec' f) (h : List Int) :
    rainflow (h.map f) = (rainflow h).map (Cyc.map f) := by
  unfold rainflow
  rw [pv_map true f hm]
  have := implGo_map s [] (pv true h) true []
  simpa using this

theorem simpleRange_map (f : Int → Int) (hm : Inc f ∨ Dec' f) (h : List Int) :
    simpleRange (h.map f) = (simpleRange h).map (Cyc.map f) := by
  unfold simpleRange; rw [pv_map true f hm, halves_map]

theorem rpReduce_map {k f} (s : Sim k f) (st : List Int) (out : List Cyc) :
    rpReduce (st.map f) (out.map (Cyc.map f)) =
      ((rpReduce st out).1.map f, (rpReduce st out).2.map (Cyc.map f)) := by
  fun_induction rpReduce st out with
  | case1 c b a rest out hle ih =>
    simp only [List.map_cons]
    rw [rpReduce, if_pos ((s.le_iff a b b c).mpr hle)]
    simpa [Cyc.map] using ih
  | case2 c b a rest out hgt =>
    simp only [List.map_cons]
    rw [rpReduce, if_neg (fun h => hgt ((s.le_iff a b b c).mp h))]
  | case3 st out hne =>
    match st, hne with
    | [], _ => simp [rpReduce]
    | [_], _ => simp [rpReduce]
    | [_, _], _ => simp [rpReduce]
    | x :: y :: z :: r, hne => exact (hne x y z r rfl).elim

theorem rpForward_map {k f} (s : Sim k f) (st ps : List Int) (out : List Cyc) :
    rpForward (st.map f) (ps.map f) (out.map (Cyc.map f)) =
      ((rpForward st ps out).1.map f, (rpForward st ps out).2.map (Cyc.map f)) := by
  induction ps generalizing st out with
  | nil => simp [rpForward]
  | cons p ps ih =>
    simp only [List.map_cons, rpForward]
    have := rpReduce_map s (p :: st) out
    simp only [List.map_cons] at this
    rw [this]
    exact ih _ _

theorem rpBack_map {k f} (s : Sim k f) (st : List Int) (out : List Cyc) :
    rpBack (st.map f) (out.map (Cyc.map f)) =
      ((rpBack st out).1.map f, (rpBack st out).2.map (Cyc.map f)) := by
  fun_induction rpBack st out with
  | case1 c b a rest out hle r ih =>
    simp only [List.map_cons]
    rw [rpBack, if_pos ((s.le_iff b c a b).mpr hle)]
    simpa [Cyc.map] using ih
  | case2 c b a rest out hgt r ih =>
    simp only [List.map_cons]
    rw [rpBack, if_neg (fun h => hgt ((s.le_iff b c a b).mp h))]
    simp only [List.map_cons] at ih
    rw [ih]
  | case3 st out hne =>
    match st, hne with
    | [], _ => simp [rpBack]
    | [_], _ => simp [rpBack]
    | [_, _], _ => simp [rpBack]
    | x :: y :: z :: r, hne => exact (hne x y z r rfl).elim

theorem rangePair_map {k f} (s : Sim k f) (hm : Inc f ∨ Dec' f) (h : List Int) :
    rangePair (h.map f) = (rangePair h).map (Cyc.map f) := by
  unfold rangePair rangePairFull
  rw [pv_map true f hm]
  have h1 := rpForward_map s [] (pv true h) []
  simp only [List.map_nil] at h1
  simp only [h1]
  have h2 := rpBack_map s (rpForward [] (pv true h) []).1 (rpForward [] (pv true h) []).2
  rw [h2]

theorem fpRound_map {k f} (s : Sim k f) : ∀ l : List Int,
    fpRound (l.map f) = (fpRound l).map (fun p => (Cyc.map f p.1, p.2.map f))
  | a :: b :: c :: d :: rest => by
    have ih := fpRound_map s (b :: c :: d :: rest)
    simp only [List.map_cons] at ih ⊢
    rw [fpRound, fpRound.eq_def (a :: b :: c :: d :: rest)]
    simp only []
    have hc : (rng (f c) (f d) ≥ rng (f b) (f c) ∧ rng (f a) (f b) ≥ rng (f b) (f c)) ↔
        (rng c d ≥ rng b c ∧ rng a b ≥ rng b c) := by
      have := s.le_iff b c c d; have := s.le_iff b c a b
      constructor <;> intro h <;> omega
    by_cases hk : rng c d ≥ rng b c ∧ rng a b ≥ rng b c
    · rw [if_pos hk, if_pos (hc.mpr hk)]; simp [Cyc.map]
    · rw [if_neg hk, if_neg (fun h => hk (hc.mp h)), ih]
      cases fpRound (b :: c :: d :: rest) with
      | none => rfl
      | some p => obtain ⟨cy, l⟩ := p; simp
  | [] => by simp [fpRound]
  | [_] => by simp [fpRound]
  | [_, _] => by simp [fpRound]
  | [_, _, _] => by simp [fpRound]

theorem fpGo_map {k f} (s : Sim k f) (l : List Int) (out : List Cyc) :
    fpGo (l.map f) (out.map (Cyc.map f)) = ((fpGo l out).1.map f, (fpGo l out).2.map (Cyc.map f)) := by
  fun_induction fpGo l out with
  | case1 l out cy l' heq ih =>
    rw [fpGo]
    split
    · rename_i cy2 l2 heq2
      rw [fpRound_map s, heq] at heq2
      simp only [Option.map_some, Option.some.injEq, Prod.mk.injEq] at heq2
      obtain ⟨e1, e2⟩ := heq2
      subst e1; subst e2
      simpa using ih
    · rename_i heq2
      rw [fpRound_map s, heq] at heq2
      simp at heq2
  | case2 l out heq =>
    rw [fpGo]
    split
    · rename_i cy2 l2 heq2
      rw [fpRound_map s, heq] at heq2
      simp at heq2
    · rfl

theorem fourPoint_map {k f} (s : Sim k f) (hm : Inc f ∨ Dec' f) (h : List Int) :
    fourPoint (h.map f) = (fourPoint h).map (Cyc.map f) := by
  unfold fourPoint fourPointFull
  rw [pv_map true f hm]
  have := fpGo_map s (pv true h) []
  simp only [List.map_nil] at this
  rw [this]

end FF
