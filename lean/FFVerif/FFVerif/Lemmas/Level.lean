/- Level crossing: the per-segment window counts exactly the strict crossings at untouched levels.
Core Lean only. -/
import FFVerif.Props.C05
namespace FF
open C05

theorem mem_insertLevel (x y : Int) (l : List Int) : y ∈ insertLevel x l ↔ y = x ∨ y ∈ l := by
  induction l with
  | nil => simp [insertLevel]
  | cons z t ih =>
    simp only [insertLevel]
    split
    · simp
    · split
      · rename_i h1 h2; subst h2; simp
      · simp [ih]; grind

def StrictAsc (l : List Int) : Prop := l.Pairwise (· < ·)

theorem insertLevel_sorted (x : Int) (l : List Int) (h : StrictAsc l) : StrictAsc (insertLevel x l) := by
  unfold StrictAsc at *
  induction l with
  | nil => simp [insertLevel]
  | cons z t ih =>
    have h' := List.pairwise_cons.mp h
    simp only [insertLevel]
    split
    · rename_i hlt
      refine List.pairwise_cons.mpr ⟨?_, h⟩
      intro c hc
      rcases List.mem_cons.mp hc with rfl | hc
      · exact hlt
      · have := h'.1 c hc; omega
    · split
      · exact h
      · refine List.pairwise_cons.mpr ⟨?_, ih h'.2⟩
        intro c hc
        rcases (mem_insertLevel x c t).mp hc with rfl | hc
        · omega
        · exact h'.1 c hc

theorem sortLevels_foldl_sorted (l acc : List Int) (h : StrictAsc acc) :
    StrictAsc (l.foldl (fun acc x => insertLevel x acc) acc) := by
  induction l generalizing acc with
  | nil => exact h
  | cons x l ih => exact ih _ (insertLevel_sorted x acc h)

theorem sortLevels_sorted (l : List Int) : StrictAsc (sortLevels l) :=
  sortLevels_foldl_sorted l [] (by simp [StrictAsc])

theorem mem_sortLevels_foldl (l acc : List Int) (y : Int) :
    y ∈ l.foldl (fun acc x => insertLevel x acc) acc ↔ y ∈ l ∨ y ∈ acc := by
  induction l generalizing acc with
  | nil => simp
  | cons x l ih => simp only [List.foldl_cons, ih, mem_insertLevel, List.mem_cons]; grind

theorem mem_sortLevels (l : List Int) (y : Int) : y ∈ sortLevels l ↔ y ∈ l := by
  simp [sortLevels, mem_sortLevels_foldl]

theorem StrictAsc.nodup {l : List Int} (h : StrictAsc l) : l.Nodup := by
  unfold StrictAsc at h
  exact h.imp (fun hlt => by omega)

theorem count_filter_not_mem (L : List Int) (P : Int → Bool) (l : Int) (hl : l ∉ L) :
    (L.filter P).count l = 0 := by
  apply List.count_eq_zero.mpr
  intro h; exact hl (List.mem_filter.mp h).1

theorem count_filter_nodup (L : List Int) (hn : L.Nodup) (P : Int → Bool) (l : Int) (hl : l ∈ L) :
    (L.filter P).count l = if P l then 1 else 0 := by
  induction L with
  | nil => cases hl
  | cons z t ih =>
    have hn' := List.nodup_cons.mp hn
    rcases List.mem_cons.mp hl with rfl | hl
    · have := count_filter_not_mem t P l hn'.1
      by_cases hp : P l = true <;> simp [List.filter_cons, hp, this]
    · have hne : z ≠ l := fun e => hn'.1 (e ▸ hl)
      have := ih hn'.2 hl
      by_cases hp : P z = true <;> simp [List.filter_cons, hp, this, hne]

theorem lcSegment_count (first : Bool) (ref : Int) (L : List Int) (hn : L.Nodup) (a b l : Int)
    (hl : l ∈ L) (ha : l ≠ a) (hb : l ≠ b) :
    (lcSegment first ref L a b).count l =
      if ref ≤ l then (if a < l ∧ l < b then 1 else 0) else (if b < l ∧ l < a then 1 else 0) := by
  unfold lcSegment
  rw [count_filter_nodup L hn _ l hl]
  have key : ((if first then decide (min a b ≤ l) else decide (min a b < l)) && decide (l ≤ max a b) &&
      (if a ≤ b then decide (l ≥ ref) else decide (l < ref))) = true ↔
      (if ref ≤ l then (a < l ∧ l < b) else (b < l ∧ l < a)) := by
    by_cases hab : a ≤ b
    · rw [Int.min_eq_left hab, Int.max_eq_right hab]
      cases first <;> by_cases hr : ref ≤ l <;>
        simp only [hab, hr, if_true, if_false, Bool.and_eq_true, decide_eq_true_eq, Bool.false_eq_true,
          and_true, and_false, ge_iff_le] <;>
        constructor <;> intro h <;> first | omega | exact False.elim h
    · rw [Int.min_eq_right (by omega), Int.max_eq_left (by omega)]
      cases first <;> by_cases hr : ref ≤ l <;>
        simp only [hab, hr, if_true, if_false, Bool.and_eq_true, decide_eq_true_eq, Bool.false_eq_true,
          and_true, and_false, ge_iff_le] <;>
        constructor <;> intro h <;> first | omega | exact False.elim h
  by_cases hr : ref ≤ l
  · simp only [hr, if_true] at key ⊢
    by_cases hc : a < l ∧ l < b
    · rw [if_pos (key.mpr hc), if_pos hc]
    · rw [if_neg (fun h => hc (key.mp h)), if_neg hc]
  · simp only [hr, if_false] at key ⊢
    by_cases hc : b < l ∧ l < a
    · rw [if_pos (key.mpr hc), if_pos hc]
    · rw [if_neg (fun h => hc (key.mp h)), if_neg hc]

theorem lcGo_count (ref : Int) (L : List Int) (hn : L.Nodup) (l : Int) (hl : l ∈ L) :
    ∀ (first : Bool) (R : List Int), l ∉ R →
      (lcGo ref L first R).count l = if ref ≤ l then up R l else down R l
  | _, [], _ => by simp [lcGo, up, down]
  | _, [_], _ => by simp [lcGo, up, down]
  | first, a :: b :: rest, hu => by
    have ha : l ≠ a := fun e => hu (by simp [e])
    have hb : l ≠ b := fun e => hu (by simp [e])
    have ih := lcGo_count ref L hn l hl false (b :: rest) (fun h => hu (List.mem_cons_of_mem _ h))
    simp only [lcGo, List.count_append, lcSegment_count first ref L hn a b l hl ha hb, ih, up, down]
    split <;> rfl

/-! ### the event table -/

def ISorted (t : List (Int × Nat)) : Prop := t.Pairwise (fun a b => a.1 < b.1)

theorem mem_itblAdd (k : Int) (t : List (Int × Nat)) (p : Int × Nat) (h : p ∈ itblAdd k t) :
    p.1 = k ∨ p ∈ t := by
  induction t with
  | nil => simp [itblAdd] at h; left; rw [h]
  | cons a t ih =>
    obtain ⟨k', u'⟩ := a
    simp only [itblAdd] at h
    split at h
    · rcases List.mem_cons.mp h with rfl | h
      · left; rfl
      · right; exact h
    · split at h
      · rename_i hk
        rcases List.mem_cons.mp h with rfl | h
        · left; exact hk.symm
        · right; exact List.mem_cons_of_mem _ h
      · rcases List.mem_cons.mp h with rfl | h
        · right; exact List.mem_cons_self
        · rcases ih h with h | h
          · left; exact h
          · right; exact List.mem_cons_of_mem _ h

theorem itblAdd_sorted (k : Int) (t : List (Int × Nat)) (h : ISorted t) : ISorted (itblAdd k t) := by
  unfold ISorted at *
  induction t with
  | nil => simp [itblAdd]
  | cons a t ih =>
    obtain ⟨k', u'⟩ := a
    have h' := List.pairwise_cons.mp h
    simp only [itblAdd]
    split
    · rename_i hlt
      refine List.pairwise_cons.mpr ⟨?_, h⟩
      intro c hc
      rcases List.mem_cons.mp hc with rfl | hc
      · exact hlt
      · have := h'.1 c hc; simp only at this ⊢; omega
    · split
      · exact List.pairwise_cons.mpr ⟨fun c hc => h'.1 c hc, h'.2⟩
      · rename_i h1 h2
        refine List.pairwise_cons.mpr ⟨?_, ih h'.2⟩
        intro c hc
        rcases mem_itblAdd k t c hc with hc | hc
        · show k' < c.1
          rw [hc]; omega
        · exact h'.1 c hc

theorem itblAdd_pos (k : Int) (t : List (Int × Nat)) (h : ∀ p ∈ t, 0 < p.2) :
    ∀ p ∈ itblAdd k t, 0 < p.2 := by
  induction t with
  | nil => intro p hp; simp [itblAdd] at hp; rw [hp]; simp
  | cons a t ih =>
    obtain ⟨ka, ua⟩ := a
    have ha : 0 < ua := h (ka, ua) List.mem_cons_self
    have ht : ∀ p ∈ t, 0 < p.2 := fun p hp => h p (List.mem_cons_of_mem _ hp)
    intro p hp
    simp only [itblAdd] at hp
    split at hp
    · rcases List.mem_cons.mp hp with rfl | hp
      · simp
      · exact h p hp
    · split at hp
      · rcases List.mem_cons.mp hp with rfl | hp
        · show 0 < ua + 1; omega
        · exact ht p hp
      · rcases List.mem_cons.mp hp with rfl | hp
        · exact ha
        · exact ih ht p hp

theorem lookup_cons (a : Int × Nat) (t : List (Int × Nat)) (k : Int) :
    lookup (a :: t) k = if a.1 = k then a.2 else lookup t k := by
  unfold lookup
  by_cases h : a.1 = k <;> simp [List.find?_cons, h]

theorem lookup_lt_all (t : List (Int × Nat)) (k : Int) (h : ∀ p ∈ t, k < p.1) : lookup t k = 0 := by
  induction t with
  | nil => simp [lookup]
  | cons a t ih =>
    rw [lookup_cons, ih (fun p hp => h p (List.mem_cons_of_mem _ hp))]
    have := h a List.mem_cons_self
    have : a.1 ≠ k := by omega
    simp [this]

theorem lookup_itblAdd (k : Int) (t : List (Int × Nat)) (hs : ISorted t) (k' : Int) :
    lookup (itblAdd k t) k' = lookup t k' + (if k = k' then 1 else 0) := by
  unfold ISorted at hs
  induction t with
  | nil => by_cases h : k = k' <;> simp [itblAdd, lookup, h]
  | cons a t ih =>
    obtain ⟨ka, ua⟩ := a
    have h' := List.pairwise_cons.mp hs
    simp only [itblAdd]
    split
    · rename_i hlt
      by_cases hk : k = k'
      · subst hk
        have : lookup ((ka, ua) :: t) k = 0 := lookup_lt_all _ _ (by
          intro p hp
          rcases List.mem_cons.mp hp with rfl | hp
          · exact hlt
          · have := h'.1 p hp; simp only at this; omega)
        rw [lookup_cons, this]; simp
      · rw [lookup_cons]; simp [hk]
    · split
      · rename_i _ hk
        subst hk
        simp only [lookup_cons]
        by_cases h : k = k' <;> simp [h]
      · rename_i h1 h2
        simp only [lookup_cons, ih h'.2]
        by_cases h : ka = k'
        · have : k ≠ k' := by omega
          simp [h, this]
        · simp [h]

theorem itable_foldl (evs : List Int) (t : List (Int × Nat)) (hs : ISorted t) (hp : ∀ p ∈ t, 0 < p.2) :
    ISorted (evs.foldl (fun t k => itblAdd k t) t) ∧
    (∀ p ∈ evs.foldl (fun t k => itblAdd k t) t, 0 < p.2) ∧
    ∀ k, lookup (evs.foldl (fun t k => itblAdd k t) t) k = lookup t k + evs.count k := by
  induction evs generalizing t with
  | nil => exact ⟨hs, hp, by simp⟩
  | cons e evs ih =>
    obtain ⟨i1, i2, i3⟩ := ih (itblAdd e t) (itblAdd_sorted e t hs) (itblAdd_pos e t hp)
    refine ⟨i1, i2, ?_⟩
    intro k
    simp only [List.foldl_cons, i3, lookup_itblAdd e t hs k, List.count_cons]
    by_cases h : e = k <;> simp [h] <;> omega

theorem lookup_itable (evs : List Int) (k : Int) : lookup (itable evs) k = evs.count k := by
  have := (itable_foldl evs [] (by simp [ISorted]) (by simp)).2.2 k
  simpa [itable, lookup] using this

theorem ikeysAscending_iff (t : List (Int × Nat)) : ikeysAscending t = true ↔ ISorted t := by
  unfold ISorted
  induction t with
  | nil => simp [ikeysAscending]
  | cons a t ih =>
    cases t with
    | nil => simp [ikeysAscending]
    | cons b t =>
      simp only [ikeysAscending, Bool.and_eq_true, decide_eq_true_eq, ih]
      constructor
      · rintro ⟨hab, hs⟩
        refine List.pairwise_cons.mpr ⟨?_, hs⟩
        intro c hc
        rcases List.mem_cons.mp hc with rfl | hc
        · exact hab
        · have := (List.pairwise_cons.mp hs).1 c hc; omega
      · intro h
        have h' := List.pairwise_cons.mp h
        exact ⟨h'.1 b (by simp), h'.2⟩

theorem tableShape_itable (evs : List Int) : tableShapeOK (itable evs) = true := by
  have := itable_foldl evs [] (by simp [ISorted]) (by simp)
  simp only [tableShapeOK, Bool.and_eq_true, List.all_eq_true, decide_eq_true_eq]
  exact ⟨(ikeysAscending_iff _).mpr this.1, this.2.1⟩

end FF
