/- Hysteresis filter, digitisation, aggregation.  Core Lean only. -/
import FFVerif.Props.C19
namespace FF
open C19

/-! ### hysteresis -/

/-- `out` is obtained from `h` by keeping points and dropping only points that lie strictly inside
the gate of the last kept point -/
inductive Kept (gate : Int) : Option Int → List Int → List Int → Prop
  | nil (last) : Kept gate last [] []
  | keep (last x hs os) : Kept gate (some x) hs os → Kept gate last (x :: hs) (x :: os)
  | drop (l x hs out) : natAbsDiff x l < gate → Kept gate (some l) hs out → Kept gate (some l) (x :: hs) out

theorem Kept.id (gate : Int) : ∀ (last : Option Int) (l : List Int), Kept gate last l l
  | last, [] => Kept.nil last
  | last, x :: l => Kept.keep last x l l (Kept.id gate (some x) l)

/-- dropping a run in front of a kept tail -/
theorem skipUp_kept (cur gate : Int) (out : List Int) : ∀ l : List Int,
    Kept gate (some cur) (skipUp cur gate l) out → Kept gate (some cur) l out
  | [], h => by simpa [skipUp] using h
  | [_], h => by simpa [skipUp] using h
  | x :: y :: rest, h => by
    unfold skipUp at h
    split at h
    · exact h
    · split at h
      · rename_i h1 h2
        exact Kept.drop cur x _ out (by unfold natAbsDiff; omega) (skipUp_kept cur gate out (y :: rest) h)
      · exact h

theorem skipDown_kept (cur gate : Int) (out : List Int) : ∀ l : List Int,
    Kept gate (some cur) (skipDown cur gate l) out → Kept gate (some cur) l out
  | [], h => by simpa [skipDown] using h
  | [_], h => by simpa [skipDown] using h
  | x :: y :: rest, h => by
    unfold skipDown at h
    split at h
    · exact h
    · split at h
      · rename_i h1 h2
        exact Kept.drop cur x _ out (by unfold natAbsDiff; omega) (skipDown_kept cur gate out (y :: rest) h)
      · exact h

theorem hystGo_kept (gate : Int) (hg : 0 < gate) : ∀ (l : List Int) (last : Option Int),
    Kept gate last l (hystGo gate l) := by
  intro l
  induction l using hystGo.induct gate with
  | case1 => intro last; rw [hystGo]; exact Kept.nil last
  | case2 x => intro last; rw [hystGo]; exact Kept.id gate last [x]
  | case3 next rest ih =>
    intro last
    rw [hystGo, if_pos rfl]
    exact Kept.keep last next _ _ (Kept.drop next next _ _ (by unfold natAbsDiff; simpa using hg) (ih _))
  | case4 cur next rest hne hgt ih =>
    intro last
    rw [hystGo, if_neg hne, if_pos hgt]
    exact Kept.keep last cur _ _ (skipUp_kept cur gate _ _ (ih _))
  | case5 cur next rest hne hgt ih =>
    intro last
    rw [hystGo, if_neg hne, if_neg hgt]
    exact Kept.keep last cur _ _ (skipDown_kept cur gate _ _ (ih _))

theorem Kept.sublist {gate : Int} {last : Option Int} {h out : List Int} (k : Kept gate last h out) :
    out.Sublist h := by
  induction k with
  | nil => exact List.Sublist.slnil
  | keep last x hs os _ ih => exact ih.cons₂ x
  | drop l x hs out _ _ ih => exact ih.cons x

theorem Kept.head {gate : Int} {h out : List Int} (k : Kept gate none h out) : out.head? = h.head? := by
  cases k with
  | nil => rfl
  | keep last x hs os _ => rfl

theorem skipUp_last (cur gate : Int) : ∀ l : List Int, (skipUp cur gate l).getLast? = l.getLast?
  | [] => by simp [skipUp]
  | [_] => by simp [skipUp]
  | x :: y :: rest => by
    unfold skipUp
    split
    · rfl
    · split
      · rw [skipUp_last cur gate (y :: rest)]; simp [List.getLast?_cons_cons]
      · rfl

theorem skipDown_last (cur gate : Int) : ∀ l : List Int, (skipDown cur gate l).getLast? = l.getLast?
  | [] => by simp [skipDown]
  | [_] => by simp [skipDown]
  | x :: y :: rest => by
    unfold skipDown
    split
    · rfl
    · split
      · rw [skipDown_last cur gate (y :: rest)]; simp [List.getLast?_cons_cons]
      · rfl

theorem hystGo_ne_nil (gate : Int) : ∀ l : List Int, l ≠ [] → hystGo gate l ≠ []
  | [], h => absurd rfl h
  | [x], _ => by rw [hystGo]; simp
  | cur :: next :: rest, _ => by
    rw [hystGo]
    split
    · simp
    · split <;> simp

theorem getLast?_cons_of_ne_nil {α} (a : α) {l : List α} (h : l ≠ []) : (a :: l).getLast? = l.getLast? := by
  cases l with
  | nil => exact absurd rfl h
  | cons b l => simp [List.getLast?_cons_cons]

/-- the last *value* of the record is kept -/
theorem hystGo_last (gate : Int) : ∀ l : List Int, (hystGo gate l).getLast? = l.getLast? := by
  intro l
  induction l using hystGo.induct gate with
  | case1 => rw [hystGo]
  | case2 x => rw [hystGo]
  | case3 next rest ih =>
    rw [hystGo, if_pos rfl]
    cases rest with
    | nil => simp [hystGo]
    | cons r rest =>
      rw [getLast?_cons_of_ne_nil _ (hystGo_ne_nil gate _ (by simp)), ih]
      simp [List.getLast?_cons_cons]
  | case4 cur next rest hne hgt ih =>
    rw [hystGo, if_neg hne, if_pos hgt]
    have hn : skipUp cur gate (next :: rest) ≠ [] := by
      intro e
      have := skipUp_last cur gate (next :: rest)
      rw [e] at this; simp [List.getLast?_cons] at this
    rw [getLast?_cons_of_ne_nil _ (hystGo_ne_nil gate _ hn), ih, skipUp_last]
    simp [List.getLast?_cons_cons]
  | case5 cur next rest hne hgt ih =>
    rw [hystGo, if_neg hne, if_neg hgt]
    have hn : skipDown cur gate (next :: rest) ≠ [] := by
      intro e
      have := skipDown_last cur gate (next :: rest)
      rw [e] at this; simp [List.getLast?_cons] at this
    rw [getLast?_cons_of_ne_nil _ (hystGo_ne_nil gate _ hn), ih, skipDown_last]
    simp [List.getLast?_cons_cons]

/-! ### digitisation -/

theorem rhe_cases (k r : Int) (hr : 0 < r) :
    (roundHalfEven k r = k / r ∧ 2 * (k % r) ≤ r ∧ (2 * (k % r) = r → (k / r) % 2 = 0)) ∨
    (roundHalfEven k r = k / r + 1 ∧ 2 * (k % r) ≥ r ∧ (2 * (k % r) = r → (k / r + 1) % 2 = 0)) := by
  have hrem : k - k / r * r = k % r := by
    have := Int.mul_ediv_add_emod k r
    rw [Int.mul_comm] at this; omega
  unfold roundHalfEven
  simp only [hrem]
  split
  · left; exact ⟨rfl, by omega, by omega⟩
  · split
    · right; exact ⟨rfl, by omega, by omega⟩
    · split
      · left; exact ⟨rfl, by omega, by intro _; assumption⟩
      · right; refine ⟨rfl, by omega, ?_⟩
        intro _; omega

theorem rhe_mul (k r : Int) (hr : 0 < r) :
    ∃ q e : Int, roundHalfEven k r = q ∧ k = q * r + e ∧ 2 * e ≤ r ∧ -r ≤ 2 * e ∧
      ((2 * e = r ∨ 2 * e = -r) → q % 2 = 0) := by
  have h1 := Int.mul_ediv_add_emod k r
  have h2 := Int.emod_nonneg k (by omega : r ≠ 0)
  have h3 := Int.emod_lt_of_pos k hr
  rcases rhe_cases k r hr with ⟨e1, e2, e3⟩ | ⟨e1, e2, e3⟩
  · refine ⟨k / r, k % r, e1, ?_, e2, by omega, ?_⟩
    · rw [Int.mul_comm]; omega
    · intro h; rcases h with h | h
      · exact e3 h
      · omega
  · refine ⟨k / r + 1, k % r - r, e1, ?_, by omega, by omega, ?_⟩
    · rw [Int.add_mul, Int.mul_comm (k / r)]; omega
    · intro h; rcases h with h | h
      · omega
      · exact e3 (by omega)

/-- the digitised value is a multiple of the resolution within half a step, ties to even -/
theorem digitOne_ok (k r : Int) (hr : 0 < r) : digitOneOK r k (roundHalfEven k r * r) = true := by
  obtain ⟨q, e, hq, hk, h1, h2, h3⟩ := rhe_mul k r hr
  rw [hq]
  have hd : natAbsDiff k (q * r) = e.natAbs := by unfold natAbsDiff; congr 1; omega
  have hrn : (r.natAbs : Int) = r := by omega
  simp only [digitOneOK, Bool.and_eq_true, beq_iff_eq, decide_eq_true_eq, Bool.or_eq_true, bne_iff_ne, hd]
  refine ⟨⟨Int.mul_emod_left q r, by omega⟩, ?_⟩
  by_cases ht : 2 * e.natAbs = r.natAbs
  · right
    rw [Int.mul_ediv_cancel q (by omega)]
    exact h3 (by omega)
  · left; exact ht

theorem rhe_idem (n r : Int) (hr : 0 < r) : roundHalfEven (n * r) r = n := by
  unfold roundHalfEven
  have h1 : n * r / r = n := Int.mul_ediv_cancel n (by omega)
  simp only [h1, Int.sub_self]
  have : (2 : Int) * 0 < r := by omega
  rw [if_pos this]

theorem rhe_mono (k k' r : Int) (hr : 0 < r) (hk : k ≤ k') : roundHalfEven k r ≤ roundHalfEven k' r := by
  obtain ⟨q, e, hq, hke, h1, h2, h3⟩ := rhe_mul k r hr
  obtain ⟨q', e', hq', hke', h1', h2', h3'⟩ := rhe_mul k' r hr
  rw [hq, hq']
  -- q*r + e ≤ q'*r + e' with |e|,|e'| ≤ r/2
  refine Int.not_lt.mp fun hlt => ?_
  -- q' + 1 ≤ q, so (q - q') * r ≥ r
  have hge : (q' + 1) * r ≤ q * r := Int.mul_le_mul_of_nonneg_right (by omega) (by omega)
  rw [Int.add_mul] at hge
  -- then e' - e ≥ r, hence e' = r/2, e = -r/2 and both q, q' even with q = q' + 1: impossible
  have he : 2 * e' = r ∧ 2 * e = -r := by constructor <;> omega
  have hqq : q = q' + 1 := by
    have : q * r ≤ (q' + 1) * r := by rw [Int.add_mul]; omega
    have := Int.le_of_mul_le_mul_right this hr
    omega
  have := h3 (Or.inr he.2)
  have := h3' (Or.inl he.1)
  omega

/-! ### aggregation -/

theorem binKey_spec (b v : Int) (hb : 0 < b) :
    binKey b v % b = 0 ∧ (0 ≤ v → 2 * natAbsDiff v (binKey b v) ≤ b.natAbs) := by
  unfold binKey
  simp only []
  constructor
  · split
    · rw [Int.add_emod, Int.mul_emod_right]; simp
    · exact Int.mul_emod_right _ _
  · intro hv
    have ht : v.tdiv b = v / b := Int.tdiv_eq_ediv_of_nonneg hv
    have h1 := Int.mul_ediv_add_emod v b
    have h2 := Int.emod_nonneg v (by omega : b ≠ 0)
    have h3 := Int.emod_lt_of_pos v hb
    simp only [ht]
    unfold natAbsDiff
    split <;> omega

def ASorted (t : List (Int × Nat)) : Prop := t.Pairwise (fun a b => a.1 < b.1)

theorem mem_aggAdd (k : Int) (u : Nat) (t : List (Int × Nat)) (p : Int × Nat) (h : p ∈ aggAdd k u t) :
    p.1 = k ∨ p ∈ t := by
  induction t with
  | nil => simp [aggAdd] at h; left; rw [h]
  | cons a t ih =>
    obtain ⟨k', u'⟩ := a
    simp only [aggAdd] at h
    split at h
    · rcases List.mem_cons.mp h with rfl | h
      · left; rfl
      · right; exact h
    · split at h
      · rename_i hk
        rcases List.mem_cons.mp h with rfl | h
        · left; exact hk.symm
        · right; exact List.mem_cons_of_mem _ h
      · rcases List.mem_cons.mp h with rfl | h
        · right; exact List.mem_cons_self
        · rcases ih h with h | h
          · left; exact h
          · right; exact List.mem_cons_of_mem _ h

theorem aggAdd_sorted (k : Int) (u : Nat) (t : List (Int × Nat)) (h : ASorted t) : ASorted (aggAdd k u t) := by
  unfold ASorted at *
  induction t with
  | nil => simp [aggAdd]
  | cons a t ih =>
    obtain ⟨k', u'⟩ := a
    have h' := List.pairwise_cons.mp h
    simp only [aggAdd]
    split
    · rename_i hlt
      refine List.pairwise_cons.mpr ⟨?_, h⟩
      intro c hc
      rcases List.mem_cons.mp hc with rfl | hc
      · exact hlt
      · have := h'.1 c hc; simp only at this ⊢; omega
    · split
      · exact List.pairwise_cons.mpr ⟨fun c hc => h'.1 c hc, h'.2⟩
      · rename_i h1 h2
        refine List.pairwise_cons.mpr ⟨?_, ih h'.2⟩
        intro c hc
        rcases mem_aggAdd k u t c hc with hc | hc
        · show k' < c.1
          rw [hc]; omega
        · exact h'.1 c hc

theorem sumUnits_aggAdd (k : Int) (u : Nat) (t : List (Int × Nat)) :
    sumUnits (aggAdd k u t) = sumUnits t + u := by
  induction t with
  | nil => simp [aggAdd, sumUnits]
  | cons a t ih =>
    obtain ⟨k', u'⟩ := a
    simp only [aggAdd]
    split
    · simp [sumUnits]; omega
    · split
      · simp [sumUnits]; omega
      · simp only [sumUnits, List.map_cons, List.sum_cons] at ih ⊢; omega

theorem aggregate_foldl (b : Int) (hb : 0 < b) (rows t : List (Int × Nat)) (hs : ASorted t)
    (hm : ∀ p ∈ t, p.1 % b = 0) :
    ASorted (rows.foldl (fun t p => aggAdd (binKey b p.1) p.2 t) t) ∧
    (∀ p ∈ rows.foldl (fun t p => aggAdd (binKey b p.1) p.2 t) t, p.1 % b = 0) ∧
    sumUnits (rows.foldl (fun t p => aggAdd (binKey b p.1) p.2 t) t) = sumUnits t + sumUnits rows ∧
    (∀ r ∈ rows, ∃ p ∈ rows.foldl (fun t p => aggAdd (binKey b p.1) p.2 t) t, p.1 = binKey b r.1) ∧
    (∀ q ∈ t, ∃ p ∈ rows.foldl (fun t p => aggAdd (binKey b p.1) p.2 t) t, p.1 = q.1) := by
  induction rows generalizing t with
  | nil => exact ⟨hs, hm, by simp [sumUnits], by simp, fun q hq => ⟨q, hq, rfl⟩⟩
  | cons r rows ih =>
    have hm' : ∀ p ∈ aggAdd (binKey b r.1) r.2 t, p.1 % b = 0 := by
      intro p hp
      rcases mem_aggAdd _ _ _ _ hp with h | h
      · rw [h]; exact (binKey_spec b r.1 hb).1
      · exact hm p h
    obtain ⟨i1, i2, i3, i4, i5⟩ := ih (aggAdd (binKey b r.1) r.2 t) (aggAdd_sorted _ _ _ hs) hm'
    have key_in : ∃ q ∈ aggAdd (binKey b r.1) r.2 t, q.1 = binKey b r.1 := by
      clear ih i1 i2 i3 i4 i5 hm' hs hm
      induction t with
      | nil => exact ⟨(binKey b r.1, r.2), by simp [aggAdd], rfl⟩
      | cons a t iht =>
        obtain ⟨k', u'⟩ := a
        simp only [aggAdd]
        split
        · exact ⟨_, List.mem_cons_self, rfl⟩
        · split
          · rename_i _ hk; exact ⟨_, List.mem_cons_self, hk.symm⟩
          · obtain ⟨q, hq, he⟩ := iht
            exact ⟨q, List.mem_cons_of_mem _ hq, he⟩
    have keep_keys : ∀ q ∈ t, ∃ q' ∈ aggAdd (binKey b r.1) r.2 t, q'.1 = q.1 := by
      clear ih i1 i2 i3 i4 i5 hm' hs hm key_in
      intro q hq
      induction t with
      | nil => cases hq
      | cons a t iht =>
        obtain ⟨k', u'⟩ := a
        simp only [aggAdd]
        split
        · exact ⟨q, List.mem_cons_of_mem _ hq, rfl⟩
        · split
          · rcases List.mem_cons.mp hq with rfl | hq
            · exact ⟨_, List.mem_cons_self, rfl⟩
            · exact ⟨q, List.mem_cons_of_mem _ hq, rfl⟩
          · rcases List.mem_cons.mp hq with rfl | hq
            · exact ⟨_, List.mem_cons_self, rfl⟩
            · obtain ⟨q', hq', he⟩ := iht hq
              exact ⟨q', List.mem_cons_of_mem _ hq', he⟩
    refine ⟨i1, i2, ?_, ?_, ?_⟩
    · simp only [List.foldl_cons, i3, sumUnits_aggAdd]
      simp [sumUnits]; omega
    · intro r' hr'
      rcases List.mem_cons.mp hr' with rfl | hr'
      · obtain ⟨q, hq, he⟩ := key_in
        obtain ⟨p, hp, hpe⟩ := i5 q hq
        exact ⟨p, hp, by rw [hpe, he]⟩
      · exact i4 r' hr'
    · intro q hq
      obtain ⟨q', hq', he⟩ := keep_keys q hq
      obtain ⟨p, hp, hpe⟩ := i5 q' hq'
      exact ⟨p, hp, by rw [hpe, he]⟩

end FF
