/- The peak-valley filter ignores samples inserted on a monotone stretch and repeated samples.
Core Lean only. -/
import FFVerif.Lemmas.Filter
namespace FF

/-- `v` lies in the closed interval spanned by `a` and `b` -/
def Between (a v b : Int) : Prop := (a ≤ v ∧ v ≤ b) ∨ (b ≤ v ∧ v ≤ a)

/-- right after a kept point `a`, an in-between sample is never kept -/
theorem pvGo_insert_head (k : Bool) (a v b : Int) (S : List Int) (h : Between a v b) :
    pvGo k a (v :: b :: S) = pvGo k a (b :: S) := by
  rw [pvGo]
  have : ¬ ((a < v ∧ v > b) ∨ (a > v ∧ v < b)) := by unfold Between at h; omega
  rw [if_neg this]

theorem pvGo_insert (k : Bool) (p a v b : Int) (S : List Int) (h : Between a v b) :
    pvGo k p (a :: v :: b :: S) = pvGo k p (a :: b :: S) := by
  unfold Between at h
  by_cases hva : v = a
  · subst hva
    rw [pvGo]
    have : ¬ ((p < v ∧ v > v) ∨ (p > v ∧ v < v)) := by omega
    rw [if_neg this]
  · rw [pvGo, pvGo.eq_def k p (a :: b :: S)]
    simp only []
    by_cases hc : (p < a ∧ a > v) ∨ (p > a ∧ a < v)
    · have hc' : (p < a ∧ a > b) ∨ (p > a ∧ a < b) := by omega
      rw [if_pos hc, if_pos hc', pvGo_insert_head k a v b S (by unfold Between; omega)]
    · have hc' : ¬ ((p < a ∧ a > b) ∨ (p > a ∧ a < b)) := by omega
      rw [if_neg hc, if_neg hc', pvGo]
      have : ¬ ((p < v ∧ v > b) ∨ (p > v ∧ v < b)) := by omega
      rw [if_neg this]

theorem pvGo_insert_prefix (k : Bool) (a v b : Int) (S : List Int) (h : Between a v b) :
    ∀ (P : List Int) (p : Int), pvGo k p (P ++ a :: v :: b :: S) = pvGo k p (P ++ a :: b :: S)
  | [], p => pvGo_insert k p a v b S h
  | [x], p => by
    simp only [List.cons_append, List.nil_append]
    rw [pvGo, pvGo.eq_def k p (x :: a :: b :: S)]
    simp only []
    split <;> rw [pvGo_insert k _ a v b S h]
  | x :: y :: P, p => by
    have ih := pvGo_insert_prefix k a v b S h (y :: P)
    simp only [List.cons_append] at ih ⊢
    rw [pvGo, pvGo.eq_def k p (x :: y :: (P ++ a :: b :: S))]
    simp only []
    split <;> rw [ih]

/-- one refinement step: a sample inserted within the closed interval of two consecutive samples
(this includes repeating a sample) -/
theorem pv_insert (k : Bool) (P : List Int) (a v b : Int) (S : List Int) (h : Between a v b) :
    pv k (P ++ a :: v :: b :: S) = pv k (P ++ a :: b :: S) := by
  cases P with
  | nil => simp only [List.nil_append, pv, pvGo_insert_head k a v b S h]
  | cons x P => simp only [List.cons_append, pv, pvGo_insert_prefix k a v b S h P x]

/-- `h'` is obtained from `h` by any number of insertions on monotone stretches / repetitions -/
inductive Refines : List Int → List Int → Prop
  | refl (h) : Refines h h
  | step (h P a v b S) : Between a v b → Refines h (P ++ a :: b :: S) → Refines h (P ++ a :: v :: b :: S)

theorem pv_refines (k : Bool) {h h' : List Int} (r : Refines h h') : pv k h' = pv k h := by
  induction r with
  | refl => rfl
  | step P a v b S hb _ ih => rw [pv_insert k P a v b S hb, ih]

/-- the overall minimum and maximum do not move either (default level grid of level crossing) -/
theorem refines_mem {h h' : List Int} (r : Refines h h') :
    (∀ x ∈ h, x ∈ h') ∧ (∀ x ∈ h', listMin h ≤ x ∧ x ≤ listMax h) := by
  induction r with
  | refl => exact ⟨fun x hx => hx, fun x hx => ⟨listMin_le hx, le_listMax hx⟩⟩
  | step P a v b S hb _ ih =>
    obtain ⟨i1, i2⟩ := ih
    refine ⟨fun x hx => ?_, fun x hx => ?_⟩
    · have := i1 x hx; simp at this ⊢; grind
    · have ha := i2 a (by simp)
      have hb' := i2 b (by simp)
      simp only [List.mem_append, List.mem_cons] at hx
      rcases hx with hx | rfl | rfl | rfl | hx
      · exact i2 x (by simp [hx])
      · exact ha
      · unfold Between at hb; omega
      · exact hb'
      · exact i2 x (by simp [hx])

theorem refines_extremes {h h' : List Int} (r : Refines h h') (hne : h ≠ []) :
    listMin h' = listMin h ∧ listMax h' = listMax h := by
  obtain ⟨m1, m2⟩ := refines_mem r
  have hne' : h' ≠ [] := by
    intro e
    have := m1 _ (listMin_mem h hne)
    rw [e] at this; cases this
  constructor
  · have a1 := (m2 _ (listMin_mem h' hne')).1
    have a2 := listMin_le (m1 _ (listMin_mem h hne))
    omega
  · have a1 := (m2 _ (listMax_mem h' hne')).2
    have a2 := le_listMax (m1 _ (listMax_mem h hne))
    omega

end FF
