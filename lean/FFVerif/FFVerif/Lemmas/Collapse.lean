/- Collapsing the from-to matrix by |key_j - key_i| reproduces the aggregated table.  Core Lean only. -/
import FFVerif.Lemmas.Matrix
import FFVerif.Lemmas.Table
namespace FF
open C07

/-- two sorted tables with positive counts and the same count function are equal -/
theorem table_ext : ∀ (t t' : List (Nat × Nat)), KeysSorted t → KeysSorted t' →
    (∀ p ∈ t, 0 < p.2) → (∀ p ∈ t', 0 < p.2) → (∀ k, cnt t k = cnt t' k) → t = t'
  | [], [], _, _, _, _, _ => rfl
  | [], p :: t', _, hs', _, hp', h => by
    have := h p.1
    rw [cnt_of_mem _ hs' p List.mem_cons_self] at this
    have := hp' p List.mem_cons_self
    simp [cnt] at *; omega
  | p :: t, [], hs, _, hp, _, h => by
    have := h p.1
    rw [cnt_of_mem _ hs p List.mem_cons_self] at this
    have := hp p List.mem_cons_self
    simp [cnt] at *; omega
  | p :: t, q :: t', hs, hs', hp, hp', h => by
    have h1 := List.pairwise_cons.mp hs
    have h2 := List.pairwise_cons.mp hs'
    have hpp := hp p List.mem_cons_self
    have hqq := hp' q List.mem_cons_self
    have cp : cnt (p :: t) p.1 = p.2 := cnt_of_mem _ hs p List.mem_cons_self
    have cq : cnt (q :: t') q.1 = q.2 := cnt_of_mem _ hs' q List.mem_cons_self
    have hk : p.1 = q.1 := by
      refine Classical.byContradiction fun hne => ?_
      rcases Nat.lt_or_gt_of_ne hne with hlt | hlt
      · have : cnt (q :: t') p.1 = 0 := cnt_of_not_mem _ _ (by
          intro r hr
          rcases List.mem_cons.mp hr with rfl | hr
          · omega
          · have := h2.1 r hr; omega)
        have := h p.1; omega
      · have : cnt (p :: t) q.1 = 0 := cnt_of_not_mem _ _ (by
          intro r hr
          rcases List.mem_cons.mp hr with rfl | hr
          · omega
          · have := h1.1 r hr; omega)
        have := h q.1; omega
    have hu : p.2 = q.2 := by have := h p.1; rw [cp, hk, cq] at this; exact this
    have hpq : p = q := Prod.ext hk hu
    subst hpq
    congr 1
    apply table_ext t t' h1.2 h2.2 (fun r hr => hp r (List.mem_cons_of_mem _ hr))
      (fun r hr => hp' r (List.mem_cons_of_mem _ hr))
    intro k
    have := h k
    rw [cnt_cons, cnt_cons] at this
    omega

/-- the collapsing fold: add every non-zero entry under its range -/
def collapseFold (E : List (Nat × Nat)) (t : List (Nat × Nat)) : List (Nat × Nat) :=
  E.foldl (fun t p => if p.2 = 0 then t else tblAdd p.1 p.2 t) t

theorem collapseFold_spec (E : List (Nat × Nat)) (t : List (Nat × Nat)) (hs : KeysSorted t)
    (hp : ∀ p ∈ t, 0 < p.2) :
    KeysSorted (collapseFold E t) ∧ (∀ p ∈ collapseFold E t, 0 < p.2) ∧
    ∀ k, cnt (collapseFold E t) k = cnt t k + ((E.filter (fun p => p.1 == k)).map (·.2)).sum := by
  induction E generalizing t with
  | nil => exact ⟨hs, hp, by simp [collapseFold]⟩
  | cons e E ih =>
    unfold collapseFold
    simp only [List.foldl_cons]
    by_cases h0 : e.2 = 0
    · rw [if_pos h0]
      obtain ⟨i1, i2, i3⟩ := ih t hs hp
      refine ⟨i1, i2, ?_⟩
      intro k
      have := i3 k
      unfold collapseFold at this
      rw [this]
      by_cases hk : e.1 = k <;> simp [List.filter_cons, hk, h0]
    · rw [if_neg h0]
      obtain ⟨i1, i2, i3⟩ := ih (tblAdd e.1 e.2 t) (tblAdd_sorted _ _ _ hs) (tblAdd_pos _ _ (by omega) _ hp)
      refine ⟨i1, i2, ?_⟩
      intro k
      have := i3 k
      unfold collapseFold at this
      rw [this, cnt_tblAdd]
      by_cases hk : e.1 = k <;> simp [List.filter_cons, hk] <;> omega

/-- sum of `g` over the entries of range `k` -/
def rangeSum (keys : List Int) (g : Int → Int → Nat) (k : Nat) : Nat :=
  (keys.map (fun a => (keys.map (fun b => if rng a b = k then g a b else 0)).sum)).sum

theorem sum_map_add {α} (l : List α) (f g : α → Nat) :
    (l.map (fun x => f x + g x)).sum = (l.map f).sum + (l.map g).sum := by
  induction l with
  | nil => rfl
  | cons x l ih => simp only [List.map_cons, List.sum_cons, ih]; omega

theorem sum_map_zero {α} (l : List α) : (l.map (fun _ => (0 : Nat))).sum = 0 := by
  induction l with
  | nil => rfl
  | cons _ l ih => simpa using ih

theorem sum_indicator (L : List Int) (hn : L.Nodup) (x : Int) (hx : x ∈ L) (f : Int → Nat) :
    (L.map (fun a => if x = a then f a else 0)).sum = f x := by
  induction L with
  | nil => cases hx
  | cons y L ih =>
    have hn' := List.nodup_cons.mp hn
    simp only [List.map_cons, List.sum_cons]
    rcases List.mem_cons.mp hx with rfl | hx
    · have : (L.map (fun a => if x = a then f a else 0)) = L.map (fun _ => 0) := by
        apply List.map_congr_left
        intro a ha
        have : x ≠ a := fun e => hn'.1 (e ▸ ha)
        simp [this]
      rw [this, sum_map_zero]; simp
    · have : x ≠ y := fun e => hn'.1 (e ▸ hx)
      rw [if_neg this, ih hn'.2 hx]; simp

theorem rangeSum_add (keys : List Int) (g g' : Int → Int → Nat) (k : Nat) :
    rangeSum keys (fun a b => g a b + g' a b) k = rangeSum keys g k + rangeSum keys g' k := by
  unfold rangeSum
  rw [← sum_map_add]
  congr 1
  apply List.map_congr_left
  intro a _
  rw [← sum_map_add]
  congr 1
  apply List.map_congr_left
  intro b _
  split <;> simp

theorem rangeSum_single (keys : List Int) (hn : keys.Nodup) (c : Cyc) (ha : c.a ∈ keys) (hb : c.b ∈ keys)
    (k : Nat) : rangeSum keys (fun a b => fromTo [c] a b) k = if c.range = k then c.units else 0 := by
  unfold rangeSum
  have inner : ∀ a, (keys.map (fun b => if rng a b = k then fromTo [c] a b else 0)).sum
      = if c.a = a then (if rng a c.b = k then c.units else 0) else 0 := by
    intro a
    by_cases h : c.a = a
    · rw [if_pos h]
      have : (keys.map (fun b => if rng a b = k then fromTo [c] a b else 0))
          = keys.map (fun b => if c.b = b then (if rng a b = k then c.units else 0) else 0) := by
        apply List.map_congr_left
        intro b _
        rw [fromTo_single]
        by_cases hb' : c.b = b <;> by_cases hr : rng a b = k <;> simp [h, hb', hr]
      rw [this, sum_indicator keys hn c.b hb]
    · rw [if_neg h]
      have : (keys.map (fun b => if rng a b = k then fromTo [c] a b else 0)) = keys.map (fun _ => 0) := by
        apply List.map_congr_left
        intro b _
        rw [fromTo_single]
        have : ¬ (c.a = a ∧ c.b = b) := fun hh => h hh.1
        simp [this]
      rw [this, sum_map_zero]
  have : (keys.map (fun a => (keys.map (fun b => if rng a b = k then fromTo [c] a b else 0)).sum))
      = keys.map (fun a => if c.a = a then (if rng a c.b = k then c.units else 0) else 0) := by
    apply List.map_congr_left
    intro a _; exact inner a
  rw [this, sum_indicator keys hn c.a ha]
  rfl

theorem rangeSum_fromTo (keys : List Int) (hn : keys.Nodup) : ∀ (cs : List Cyc),
    (∀ c ∈ cs, c.a ∈ keys ∧ c.b ∈ keys) → ∀ k, rangeSum keys (fun a b => fromTo cs a b) k = unitsAt cs k
  | [], _, k => by
    simp only [rangeSum, fromTo, unitsAt, List.filter_nil, List.map_nil, List.sum_nil, ite_self]
    have : (fun (_ : Int) => (keys.map (fun (_ : Int) => (0 : Nat))).sum) = fun _ => 0 := by
      funext a; exact sum_map_zero keys
    rw [this, sum_map_zero]
  | c :: cs, h, k => by
    have hc := h c List.mem_cons_self
    have ih := rangeSum_fromTo keys hn cs (fun c' h' => h c' (List.mem_cons_of_mem _ h')) k
    have e : (fun a b => fromTo (c :: cs) a b) = fun a b => fromTo [c] a b + fromTo cs a b := by
      funext a b
      have := fromTo_append [c] cs a b
      simpa using this
    rw [e, rangeSum_add, rangeSum_single keys hn c hc.1 hc.2, ih, unitsAt_cons]

/-- collapsing the from-to matrix by |key_j - key_i| gives the aggregated table -/
theorem collapse_spec (cs : List Cyc) (keys : List Int) (hn : keys.Nodup)
    (hk : ∀ c ∈ cs, c.a ∈ keys ∧ c.b ∈ keys) : collapse (specMatrix cs keys) keys = table cs := by
  have zms : ∀ {β : Type} (l : List Int) (f : Int → β), (l.map f).zip l = l.map (fun a => (f a, a)) := by
    intro β l f; induction l with
    | nil => rfl
    | cons x l ih => simp [ih]
  have hE : collapse (specMatrix cs keys) keys =
      collapseFold (keys.flatMap (fun a => keys.map (fun b => (rng a b, fromTo cs a b)))) [] := by
    unfold collapse collapseFold specMatrix
    congr 1
    rw [zms, List.flatMap_map]
    congr 1
    funext a
    simp only [Function.comp, zms, List.map_map]
    rfl
  rw [hE]
  obtain ⟨s1, s2, s3⟩ := collapseFold_spec (keys.flatMap (fun a => keys.map (fun b => (rng a b, fromTo cs a b)))) []
    (by simp [KeysSorted]) (by simp)
  apply table_ext _ _ s1 (table_sorted cs) s2 (table_pos cs)
  intro k
  rw [s3 k, cnt_table, ← rangeSum_fromTo keys hn cs hk k]
  simp only [cnt, List.filter_nil, List.map_nil, List.sum_nil, Nat.zero_add]
  -- the filtered flat list, summed, is the double sum
  unfold rangeSum
  generalize keys = L at *
  clear hE s1 s2 s3 hk hn
  have inner : ∀ (a : Int) (M : List Int),
      (((M.map (fun b => (rng a b, fromTo cs a b))).filter (fun p => p.1 == k)).map (·.2)).sum
        = (M.map (fun b => if rng a b = k then fromTo cs a b else 0)).sum := by
    intro a M
    induction M with
    | nil => rfl
    | cons b M ih =>
      by_cases hr : rng a b = k
      · simp only [List.map_cons, List.filter_cons, hr, beq_self_eq_true, if_true, List.sum_cons] at ih ⊢
        rw [ih]
      · have : (rng a b == k) = false := by simpa using hr
        simp only [List.map_cons, List.filter_cons, this, hr, if_false, List.sum_cons, Nat.zero_add] at ih ⊢
        simpa using ih
  have outer : ∀ (A : List Int), (((A.flatMap (fun a => L.map (fun b => (rng a b, fromTo cs a b)))).filter
      (fun p => p.1 == k)).map (·.2)).sum =
      (A.map (fun a => (L.map (fun b => if rng a b = k then fromTo cs a b else 0)).sum)).sum := by
    intro A
    induction A with
    | nil => rfl
    | cons a A ih =>
      simp only [List.flatMap_cons, List.filter_append, List.map_append, List.sum_append, List.map_cons,
        List.sum_cons, ih, inner a L]
  exact outer L

end FF
