/- Four-point counting versus the rainflow loop: the four-point rule extracts exactly the whole
cycles of the three-point loop (plus pairs of equal half cycles when ranges tie), and its residue
carries the remaining half cycles.  Core Lean only. -/
import FFVerif.Lemmas.RfRp
import FFVerif.Lemmas.Census2
import FFVerif.Props.C04
import FFVerif.Lemmas.ClosedNormal2
namespace FF
open C04

/-! ### the four-point search, positionally -/

/-- the four-point test on `a b c d` -/
def Q4 (a b c d : Int) : Prop := rng c d ≥ rng b c ∧ rng a b ≥ rng b c

instance (a b c d : Int) : Decidable (Q4 a b c d) := by unfold Q4; exact inferInstance

/-- no four consecutive points pass the test -/
def NoQ : List Int → Prop
  | a :: b :: c :: d :: rest => ¬ Q4 a b c d ∧ NoQ (b :: c :: d :: rest)
  | _ => True

theorem fpGo_fire (l : List Int) (out : List Cyc) (cy : Cyc) (l' : List Int)
    (h : fpRound l = some (cy, l')) : fpGo l out = fpGo l' (out ++ [cy]) := by
  rw [fpGo]
  split
  · rename_i cy2 l2 heq
    rw [h] at heq; cases heq; rfl
  · rename_i heq; rw [h] at heq; cases heq

theorem fpGo_none (l : List Int) (out : List Cyc) (h : fpRound l = none) : fpGo l out = (l, out) := by
  rw [fpGo]
  split
  · rename_i cy2 l2 heq
    rw [h] at heq; cases heq
  · rfl

theorem fpRound_none_of_NoQ : ∀ l : List Int, NoQ l → fpRound l = none
  | [], _ => by simp [fpRound]
  | [_], _ => by simp [fpRound]
  | [_, _], _ => by simp [fpRound]
  | [_, _, _], _ => by simp [fpRound]
  | a :: b :: c :: d :: rest, h => by
    have ih := fpRound_none_of_NoQ (b :: c :: d :: rest) h.2
    have h1 : ¬ (rng c d ≥ rng b c ∧ rng a b ≥ rng b c) := h.1
    rw [fpRound, if_neg h1, ih]

theorem NoQ_tail {x : Int} {l : List Int} (h : NoQ (x :: l)) : NoQ l := by
  match l, h with
  | [], _ => simp [NoQ]
  | [_], _ => simp [NoQ]
  | [_, _], _ => simp [NoQ]
  | _ :: _ :: _ :: _, h => exact h.2

/-- the first passing quadruple `a b c d` sits after a prefix `P` such that `P ++ [a,b,c]` has none -/
theorem fpRound_at (P : List Int) : ∀ (a b c d : Int) (rest : List Int), NoQ (P ++ [a, b, c]) →
    Q4 a b c d →
    fpRound (P ++ a :: b :: c :: d :: rest) = some (⟨b, c, false⟩, P ++ a :: d :: rest) := by
  induction P with
  | nil =>
    intro a b c d rest _ hq
    have hq' : rng c d ≥ rng b c ∧ rng a b ≥ rng b c := hq
    simp only [List.nil_append]
    rw [fpRound, if_pos hq']
  | cons x P ih =>
    intro a b c d rest hn hq
    have ih' := ih a b c d rest (NoQ_tail (by simpa using hn)) hq
    -- the first quadruple of `x :: P ++ …` fails
    match P, hn, ih' with
    | [], hn, ih' =>
      have h1 : ¬ (rng b c ≥ rng a b ∧ rng x a ≥ rng a b) := hn.1
      simp only [List.cons_append, List.nil_append] at ih' ⊢
      rw [fpRound, if_neg h1, ih']
    | [y], hn, ih' =>
      have h1 : ¬ (rng a b ≥ rng y a ∧ rng x y ≥ rng y a) := hn.1
      simp only [List.cons_append, List.nil_append] at ih' ⊢
      rw [fpRound, if_neg h1, ih']
    | [y, z], hn, ih' =>
      have h1 : ¬ (rng z a ≥ rng y z ∧ rng x y ≥ rng y z) := hn.1
      simp only [List.cons_append, List.nil_append] at ih' ⊢
      rw [fpRound, if_neg h1, ih']
    | y :: z :: w :: P', hn, ih' =>
      have h1 : ¬ (rng z w ≥ rng y z ∧ rng x y ≥ rng y z) := hn.1
      simp only [List.cons_append] at ih' ⊢
      rw [fpRound, if_neg h1, ih']

/-- … and when no compared ranges tie, the passing quadruple has no tie either -/
theorem fpTieRound_at (P : List Int) : ∀ (a b c d : Int) (rest : List Int), NoQ (P ++ [a, b, c]) →
    fpTieRound (P ++ a :: b :: c :: d :: rest) = false → rng c d ≠ rng b c ∧ rng a b ≠ rng b c := by
  induction P with
  | nil =>
    intro a b c d rest _ ht
    simp only [List.nil_append] at ht
    rw [fpTieRound] at ht
    simp only [Bool.or_eq_false_iff, beq_eq_false_iff_ne, ne_eq] at ht
    exact ⟨ht.1.1, ht.1.2⟩
  | cons x P ih =>
    intro a b c d rest hn ht
    apply ih a b c d rest (NoQ_tail (by simpa using hn))
    match P, hn, ht with
    | [], hn, ht =>
      have h1 : ¬ (rng b c ≥ rng a b ∧ rng x a ≥ rng a b) := hn.1
      simp only [List.cons_append, List.nil_append] at ht ⊢
      rw [fpTieRound, if_neg h1] at ht
      simp only [Bool.or_eq_false_iff] at ht
      exact ht.2
    | [y], hn, ht =>
      have h1 : ¬ (rng a b ≥ rng y a ∧ rng x y ≥ rng y a) := hn.1
      simp only [List.cons_append, List.nil_append] at ht ⊢
      rw [fpTieRound, if_neg h1] at ht
      simp only [Bool.or_eq_false_iff] at ht
      exact ht.2
    | [y, z], hn, ht =>
      have h1 : ¬ (rng z a ≥ rng y z ∧ rng x y ≥ rng y z) := hn.1
      simp only [List.cons_append, List.nil_append] at ht ⊢
      rw [fpTieRound, if_neg h1] at ht
      simp only [Bool.or_eq_false_iff] at ht
      exact ht.2
    | y :: z :: w :: P', hn, ht =>
      have h1 : ¬ (rng z w ≥ rng y z ∧ rng x y ≥ rng y z) := hn.1
      simp only [List.cons_append] at ht ⊢
      rw [fpTieRound, if_neg h1] at ht
      simp only [Bool.or_eq_false_iff] at ht
      exact ht.2

theorem fpTie_false (l : List Int) (h : fpTie l = false) :
    fpTieRound l = false ∧ ∀ cy l', fpRound l = some (cy, l') → fpTie l' = false := by
  rw [fpTie] at h
  simp only [Bool.or_eq_false_iff] at h
  refine ⟨h.1, ?_⟩
  intro cy l' hr
  have h2 := h.2
  split at h2
  · rename_i cy2 l2 heq
    rw [hr] at heq; cases heq; exact h2
  · rename_i heq; rw [hr] at heq; cases heq


/-! ### range shapes -/

/-- consecutive ranges strictly increasing -/
def IncS : List Int → Prop
  | a :: b :: c :: rest => rng a b < rng b c ∧ IncS (b :: c :: rest)
  | _ => True

theorem IncS_tail {x : Int} {l : List Int} (h : IncS (x :: l)) : IncS l := by
  match l, h with
  | [], _ => simp [IncS]
  | [_], _ => simp [IncS]
  | _ :: _ :: _, h => exact h.2

theorem IncS_prefix : ∀ (P S : List Int), IncS (P ++ S) → IncS P
  | [], _, _ => by simp [IncS]
  | [_], _, _ => by simp [IncS]
  | [_, _], _, _ => by simp [IncS]
  | a :: b :: c :: P, S, h => by
    have h' : IncS (a :: b :: c :: (P ++ S)) := by simpa using h
    exact ⟨h'.1, IncS_prefix (b :: c :: P) S (by simpa using h'.2)⟩

theorem IncS_snoc : ∀ (X : List Int) (a b c : Int), IncS (X ++ [a, b]) → rng a b < rng b c →
    IncS (X ++ [a, b, c])
  | [], a, b, c, _, h => by simp [IncS, h]
  | [x], a, b, c, h0, h => by
    have h0' : IncS [x, a, b] := by simpa using h0
    simp only [List.cons_append, List.nil_append, IncS]
    exact ⟨h0'.1, h, trivial⟩
  | x :: y :: X, a, b, c, h0, h => by
    have ih := IncS_snoc (y :: X) a b c (IncS_tail (by simpa using h0)) h
    match X, h0, ih with
    | [], h0, ih =>
      have h0' : IncS [x, y, a, b] := by simpa using h0
      simp only [List.cons_append, List.nil_append] at ih ⊢
      exact ⟨h0'.1, ih⟩
    | z :: X', h0, ih =>
      have h0' : IncS (x :: y :: z :: (X' ++ [a, b])) := by simpa using h0
      simp only [List.cons_append] at ih ⊢
      exact ⟨h0'.1, ih⟩

theorem IncS_last3 (X : List Int) (p q r : Int) (h : IncS (X ++ [p, q, r])) : rng p q < rng q r := by
  induction X with
  | nil => exact h.1
  | cons x X ih => exact ih (IncS_tail (by simpa using h))

theorem Dec_noQ : ∀ l : List Int, Dec l → NoQ l
  | [], _ => by simp [NoQ]
  | [_], _ => by simp [NoQ]
  | [_, _], _ => by simp [NoQ]
  | [_, _, _], _ => by simp [NoQ]
  | a :: b :: c :: d :: rest, h => by
    refine ⟨?_, Dec_noQ _ h.2⟩
    have := h.2.1
    unfold Q4; omega

theorem IncS_noQ : ∀ l : List Int, IncS l → NoQ l
  | [], _ => by simp [NoQ]
  | [_], _ => by simp [NoQ]
  | [_, _], _ => by simp [NoQ]
  | [_, _, _], _ => by simp [NoQ]
  | a :: b :: c :: d :: rest, h => by
    refine ⟨?_, IncS_noQ _ h.2⟩
    have := h.1
    unfold Q4; omega

/-- weak step between the dropped start points `C` and the live window `W` -/
def Junc (C W : List Int) : Prop :=
  ∀ d0 a b t, C.getLast? = some d0 → W = a :: b :: t → rng d0 a ≤ rng a b

theorem NoQ_cons_lt (x y1 y2 : Int) (t : List Int) (h : NoQ (y1 :: y2 :: t)) (hlt : rng x y1 < rng y1 y2) :
    NoQ (x :: y1 :: y2 :: t) := by
  cases t with
  | nil => simp [NoQ]
  | cons y3 t => exact ⟨by unfold Q4; omega, h⟩

/-- strictly increasing ranges through the dropped points up to the first live point, a weak step,
then strictly decreasing ranges: no quadruple passes the four-point test -/
theorem noQ_of_shape : ∀ (C W : List Int), Dec W → IncS (C ++ W.take 1) → Junc C W → NoQ (C ++ W)
  | [], W, hd, _, _ => by simpa using Dec_noQ W hd
  | [d0], W, hd, _, hj => by
    match W, hd, hj with
    | [], _, _ => simp [NoQ]
    | [_], _, _ => simp [NoQ]
    | [_, _], _, _ => simp [NoQ]
    | a :: b :: x :: t, hd, hj =>
      refine ⟨?_, Dec_noQ _ hd⟩
      have := hd.1
      unfold Q4; omega
  | d1 :: d0 :: C, W, hd, hi, hj => by
    have ih := noQ_of_shape (d0 :: C) W hd (IncS_tail (by simpa using hi))
      (by intro e a b t he hw; exact hj e a b t (by simpa [List.getLast?_cons_cons] using he) hw)
    match C, W, hi, ih with
    | [], [], _, _ => simp [NoQ]
    | [], a :: W', hi, ih =>
      have hi' : IncS [d1, d0, a] := by simpa using hi
      exact NoQ_cons_lt d1 d0 a W' (by simpa using ih) hi'.1
    | e :: C', W, hi, ih =>
      have hi' : IncS (d1 :: d0 :: e :: (C' ++ W.take 1)) := by simpa using hi
      exact NoQ_cons_lt d1 d0 e (C' ++ W) (by simpa using ih) hi'.1

/-! ### half cycles of a split sequence -/

theorem halves_snoc (Y : List Int) (b a : Int) : halves (Y ++ [b, a]) = halves (Y ++ [b]) ++ [⟨b, a, true⟩] := by
  induction Y with
  | nil => simp [halves]
  | cons y Y ih =>
    cases Y with
    | nil => simp [halves]
    | cons z Y =>
      simp only [List.cons_append] at ih ⊢
      simp only [halves, ih, List.cons_append]

theorem halves_split : ∀ (C V : List Int) (k : Nat),
    unitsAt (halves (C ++ V)) k = unitsAt (halves (C ++ V.take 1)) k + unitsAt (halves V) k
  | [], [], k => by simp [halves, unitsAt]
  | [], [_], k => by simp [halves, unitsAt]
  | [], _ :: _ :: _, k => by simp [halves, unitsAt_nil]
  | [d], [], k => by simp [halves, unitsAt]
  | [d], a :: V, k => by
    simp only [List.cons_append, List.nil_append, List.take_succ_cons, List.take_zero, halves]
    rw [unitsAt_cons, unitsAt_cons]; simp [unitsAt_nil]
  | d :: e :: C, V, k => by
    have ih := halves_split (e :: C) V k
    simp only [List.cons_append, halves] at ih ⊢
    rw [unitsAt_cons, unitsAt_cons, ih]; omega

theorem wholesL_halves (l : List Int) : wholesL (halves l) = [] := by
  induction l with
  | nil => rfl
  | cons x l ih =>
    cases l with
    | nil => rfl
    | cons y l => simpa [halves, wholesL] using ih

theorem take1_append (A X : List Int) (h : A ≠ []) : (A ++ X).take 1 = A.take 1 := by
  cases A with
  | nil => exact absurd rfl h
  | cons a A => simp

theorem zig3_of (P : List Int) (a b c : Int) (S : List Int) (h : Zig (P ++ a :: b :: c :: S)) :
    Zig [a, b, c] := by
  have h1 := Zig_suffix P h
  have : Zig ([a, b, c] ++ S) := by simpa using h1
  exact Zig_prefix _ _ this

/-- equal adjacent ranges around a turning point: the outer points coincide -/
theorem tie_eq {d a b : Int} (hz : Zig [d, a, b]) (h : rng d a = rng a b) : d = b := by
  rcases hz with hz | hz <;> obtain ⟨h1, h2, _⟩ := hz <;> unfold rel rng at * <;> simp at * <;> omega

/-- after removing the loop `a–b` nested in `r–a` and `b–c`, the range `r–c` is at least `r–a` -/
theorem span_grows {r a b c : Int} (hz : Zig [r, a, b]) (hz2 : Zig [a, b, c]) (h1 : rng a b ≤ rng b c)
    (h2 : rng a b < rng r a) : rng r a ≤ rng r c := by
  rcases hz with hz | hz <;> obtain ⟨g1, g2, _⟩ := hz <;>
    rcases hz2 with hz2 | hz2 <;> obtain ⟨g3, g4, _⟩ := hz2 <;>
    unfold rel rng at * <;> simp at * <;> omega


/-! ### the rainflow loop without ties: its whole cycles form a maximal extraction sequence -/

theorem IncS_last_mono (X : List Int) (p q q' : Int) (h : IncS (X ++ [p, q])) (hle : rng p q ≤ rng p q') :
    IncS (X ++ [p, q']) := by
  rcases List.eq_nil_or_concat X with e | ⟨X0, d0, e⟩
  · subst e; simp [IncS]
  · have eX : X = X0 ++ [d0] := by simpa using e
    subst eX
    have h' : IncS (X0 ++ [d0, p, q]) := by simpa using h
    have h1 := IncS_last3 X0 d0 p q h'
    have h2 : IncS (X0 ++ [d0, p]) := by
      have : X0 ++ [d0, p, q] = (X0 ++ [d0, p]) ++ [q] := by simp
      rw [this] at h'; exact IncS_prefix _ _ h'
    have := IncS_snoc X0 d0 p q' h2 (by omega)
    simpa using this

theorem rfTie_fire (A : List Int) (a b c : Int) (rest : List Int) (flag : Bool)
    (h : rfTie A (a :: b :: c :: rest) flag = false) (hge : rng b c ≥ rng a b) :
    rng a b < rng b c ∧
      (if flag then rfTie [] (b :: c :: rest) true else rfTie [] (A ++ c :: rest) true) = false := by
  rw [rfTie] at h
  by_cases he : rng b c = rng a b
  · simp [he] at h
  · have hgt : rng b c > rng a b := by omega
    simp only [he, if_false, hgt, if_true] at h
    exact ⟨by omega, h⟩

theorem rfTie_stay (A : List Int) (a b c : Int) (rest : List Int) (flag : Bool)
    (h : rfTie A (a :: b :: c :: rest) flag = false) (hlt : ¬ rng b c ≥ rng a b) :
    rfTie (A ++ [a]) (b :: c :: rest) false = false := by
  rw [rfTie] at h
  have he : ¬ rng b c = rng a b := by omega
  have hgt : ¬ rng b c > rng a b := by omega
  simpa [he, hgt] using h

theorem rf_steps (A B : List Int) (flag : Bool) (out : List Cyc) :
    ∀ (C : List Int), Zig (C ++ A ++ B) → Dec (A ++ B.take 2) → flag = A.isEmpty →
    IncS (C ++ (A ++ B).take 2) → rfTie A B flag = false →
    ∃ cs N, wholesL (implGo A B flag out) = wholesL out ++ cs ∧ Steps (C ++ A ++ B) cs N ∧ Normal N := by
  fun_induction implGo A B flag out with
  | case1 A out a b c rest hge ih =>
    intro C hz hd hf hi ht
    have hA : A = [] := by simpa using hf.symm
    subst hA
    obtain ⟨hlt, ht'⟩ := rfTie_fire [] a b c rest true ht hge
    simp only [if_true] at ht'
    have hi' : IncS (C ++ [a] ++ ([] ++ b :: c :: rest).take 2) := by
      have h0 : IncS (C ++ [a, b]) := by simpa using hi
      have := IncS_snoc C a b c h0 hlt
      simpa using this
    obtain ⟨cs, N, e1, e2, e3⟩ := ih (C ++ [a]) (by simpa using hz) (by simp [Dec]) rfl hi' ht'
    refine ⟨cs, N, ?_, by simpa using e2, e3⟩
    rw [e1, wholesL_append, wholesL_half]; simp
  | case2 A flag out a b c rest hge hfl ih =>
    intro C hz hd hf hi ht
    have hfl' : flag = false := by simpa using hfl
    subst hfl'
    have hA : A ≠ [] := by intro e; subst e; simp at hf
    obtain ⟨hlt, ht'⟩ := rfTie_fire A a b c rest false ht hge
    simp only [Bool.false_eq_true, if_false] at ht'
    rcases List.eq_nil_or_concat A with e | ⟨A0, r, e⟩
    · exact absurd e hA
    · have eA : A = A0 ++ [r] := by simpa using e
      have hd3 : rng a b < rng r a := Dec_head3 A0 r a b [] (by simpa [eA] using hd)
      have hz4 : Zig (r :: a :: b :: c :: rest) := by
        have : C ++ A ++ a :: b :: c :: rest = (C ++ A0) ++ (r :: a :: b :: c :: rest) := by
          rw [eA]; simp
        rw [this] at hz; exact Zig_suffix _ hz
      have s : Step (C ++ A ++ a :: b :: c :: rest) ⟨a, b, false⟩ (C ++ [] ++ (A ++ c :: rest)) := by
        have s0 := (Step.here r a b c rest hz4.alt4 (by omega) (by omega)).prepend (C ++ A0)
        have e1 : C ++ A ++ a :: b :: c :: rest = (C ++ A0) ++ (r :: a :: b :: c :: rest) := by
          rw [eA]; simp
        have e2 : C ++ [] ++ (A ++ c :: rest) = (C ++ A0) ++ (r :: c :: rest) := by
          rw [eA]; simp
        rw [e1, e2]; exact s0
      have hi' : IncS (C ++ ([] ++ (A ++ c :: rest)).take 2) := by
        match A0, eA with
        | [], eA =>
          subst eA
          have h0 : IncS (C ++ [r, a]) := by simpa using hi
          have hgrow : rng r a ≤ rng r c := by
            have z1 : Zig [r, a, b] := zig3_of [] r a b (c :: rest) hz4
            have z2 : Zig [a, b, c] := zig3_of [r] a b c rest hz4
            exact span_grows z1 z2 (by omega) hd3
          have := IncS_last_mono C r a c h0 hgrow
          simpa using this
        | x :: A1, eA =>
          subst eA
          have e1 : ((x :: A1 ++ [r]) ++ a :: b :: c :: rest).take 2 = ((x :: A1 ++ [r]) ++ c :: rest).take 2 := by
            cases A1 <;> simp
          rw [e1] at hi
          simpa using hi
      obtain ⟨cs, N, e1, e2, e3⟩ := ih C (by simpa using s.zig hz) (Dec_short _ (by simp; omega)) rfl hi' ht'
      refine ⟨⟨a, b, false⟩ :: cs, N, ?_, Steps.step s e2, e3⟩
      rw [e1, wholesL_append, wholesL_whole]; simp
  | case3 A flag out a b c rest hlt ih =>
    intro C hz hd hf hi ht
    have ht' := rfTie_stay A a b c rest flag ht hlt
    have hlt' : rng b c < rng a b := by omega
    have hd' : Dec (A ++ [a] ++ (b :: c :: rest).take 2) := by
      have := Dec_snoc A a b c (by simpa using hd) hlt'
      simpa using this
    obtain ⟨cs, N, e1, e2, e3⟩ := ih C (by simpa using hz) hd' (by simp) (by simpa using hi) ht'
    exact ⟨cs, N, e1, by simpa using e2, e3⟩
  | case4 A B flag out hB =>
    intro C hz hd hf hi _
    have hB2 : B.take 2 = B := by
      match B, hB with
      | [], _ => rfl
      | [_], _ => rfl
      | [_, _], _ => rfl
      | a :: b :: c :: rest, hB => exact (hB a b c rest rfl).elim
    rw [hB2] at hd
    refine ⟨[], C ++ A ++ B, ?_, Steps.refl _, ?_⟩
    · rw [wholesL_append, wholesL_halves]
    · apply fpRound_none_normal
      apply fpRound_none_of_NoQ
      rw [List.append_assoc]
      apply noQ_of_shape C (A ++ B) hd
      · -- the chain up to the first live point
        match hV : A ++ B with
        | [] => rw [hV] at hi; simpa using hi
        | [v] => rw [hV] at hi; simpa using hi
        | v :: w :: t =>
          rw [hV] at hi
          have : C ++ (v :: w :: t).take 2 = (C ++ [v]) ++ [w] := by simp
          rw [this] at hi
          simpa using IncS_prefix _ _ hi
      · intro d0 a b t hl hW
        rw [hW] at hi
        obtain ⟨C0, rfl⟩ := List.getLast?_eq_some_iff.mp hl
        have : C0 ++ [d0] ++ (a :: b :: t).take 2 = C0 ++ [d0, a, b] := by simp
        rw [this] at hi
        have := IncS_last3 C0 d0 a b hi
        omega

end FF
