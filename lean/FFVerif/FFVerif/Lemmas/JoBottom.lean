/- Johannesson bottoms on the raw history: the left scan over the reversal sequence (the model)
and the left scan over the de-plateaued raw history (the specification) find the same minimum.
Core Lean only. -/
import FFVerif.Lemmas.PeakSpec
import FFVerif.Props.C06
namespace FF
open C06

/-- minimum of the maximal initial run of values `< M`, capped by `M` (recursive form of `sideMin`) -/
def sm (M : Int) : List Int → Int
  | [] => M
  | x :: L => if x < M then min x (sm M L) else M

theorem foldl_min_assoc (r : List Int) : ∀ (x y : Int), r.foldl min (min x y) = min x (r.foldl min y) := by
  induction r with
  | nil => intro x y; rfl
  | cons z r ih =>
    intro x y
    simp only [List.foldl_cons]
    rw [Int.min_assoc, ih]

theorem sideMin_eq_sm (M : Int) : ∀ L : List Int, sideMin M L = sm M L
  | [] => by simp [sideMin, sm]
  | x :: L => by
    have ih := sideMin_eq_sm M L
    by_cases hx : x < M
    · simp only [sm, if_pos hx, ← ih]
      simp only [sideMin, List.takeWhile_cons, hx, decide_true, if_true]
      cases hL : L.takeWhile (· < M) with
      | nil => simp only [List.foldl_nil]; omega
      | cons y r => simp only [List.foldl_cons]; exact foldl_min_assoc r x y
    · simp [sideMin, sm, List.takeWhile_cons, hx]

theorem scanMin_eq_sm (M p : Int) (L : List Int) (hp : p < M) : scanMin M (p :: L) = sm M (p :: L) := by
  rw [← sideMin_eq_sm]
  cases L with
  | nil => simp only [scanMin, sideMin, List.takeWhile_cons, hp, decide_true, if_true,
      List.takeWhile_nil, List.foldl_nil]; omega
  | cons y L => simp only [scanMin, sideMin, List.takeWhile_cons, hp, decide_true, if_true]

theorem sm_cons_lt (M x : Int) (L : List Int) (h : x < M) : sm M (x :: L) = min x (sm M L) := by
  simp [sm, h]
theorem sm_cons_ge (M x : Int) (L : List Int) (h : ¬ x < M) : sm M (x :: L) = M := by
  simp [sm, h]

theorem all_or_of_all {α : Type} (P Q : α → Bool) (l : List α) (h : l.all P = true) :
    l.all (fun x => Q x || P x) = true := by
  simp only [List.all_eq_true, Bool.or_eq_true] at h ⊢
  exact fun x hx => Or.inr (h x hx)

/-- the Johannesson function of the model -/
def joF : List Int → Int → List Int → Option Cyc := fun l m _ => some ⟨scanMin m l, m, false⟩

/-- simultaneous walk: `peaksCtx` over the de-plateaued history (at `b`, previous sample `a`) and
`peaksGo` over the reversal sequence (previous kept reversal `a'`).  Between `a'` and `a` the
history is monotone, recorded by the two order hypotheses; the scan relation says that for every
level `M` above `a` the raw scan equals the reversal scan capped by `a`. -/
theorem jo_sync : ∀ (rest : List Int) (a b a' : Int) (lD lR : List Int), NoRep (a :: b :: rest) →
    (a < b → a' ≤ a) → (a > b → a ≤ a') →
    (∀ M, a < M → sm M (a :: lD) = min a (sm M (a' :: lR))) →
    ((peaksCtx (a :: lD) (b :: rest)).zip
      (peaksGo joF (a' :: lR) (turning (a :: b :: rest) ++ [lastD (b :: rest) a]))).all
      (fun pc => pc.2.a == sideMin pc.1.2.1 pc.1.1) = true
  | [], a, b, a', lD, lR, _, _, _, _ => by simp [peaksCtx]
  | c :: rest, a, b, a', lD, lR, h, s1, s2, rel => by
    obtain ⟨n, t, e, h1, h2⟩ := next_kept rest b c h.2
    have hab : a ≠ b := h.1
    have hbc : b ≠ c := h.2.1
    have hl : lastD (b :: c :: rest) a = lastD (c :: rest) b := rfl
    by_cases hk : (a < b ∧ b > c) ∨ (a > b ∧ b < c)
    · -- `b` is a reversal: both walks step
      have rel' : ∀ M, b < M → sm M (b :: a :: lD) = min b (sm M (b :: a' :: lR)) := by
        intro M hM
        rw [sm_cons_lt M b _ hM, sm_cons_lt M b _ hM]
        by_cases haM : a < M
        · rw [rel M haM]
          by_cases ha'M : a' < M
          · have : sm M (a' :: lR) ≤ a' := by rw [sm_cons_lt M a' _ ha'M]; omega
            omega
          · rw [sm_cons_ge M a' _ ha'M]; omega
        · rw [sm_cons_ge M a _ haM]
          have ha'M : ¬ a' < M := by omega
          rw [sm_cons_ge M a' _ ha'M]; omega
      have ih := jo_sync rest b c b (a :: lD) (a' :: lR) h.2 (fun _ => Int.le_refl _)
        (fun _ => Int.le_refl _) rel'
      rw [e] at ih
      simp only [turning, if_pos hk, hl, List.cons_append, e]
      by_cases hp : b > a ∧ b > c
      · have hp' : b > a' ∧ b > n := by omega
        simp only [peaksCtx, peaksGo, if_pos hp, if_pos hp', joF, List.singleton_append,
          List.zip_cons_cons, List.all_cons, Bool.and_eq_true, beq_iff_eq]
        refine ⟨?_, by simpa [joF] using ih⟩
        show scanMin b (a' :: lR) = sideMin b (a :: lD)
        have ha' : a' < b := by omega
        rw [scanMin_eq_sm b a' lR ha', sideMin_eq_sm, rel b hp.1]
        have : sm b (a' :: lR) ≤ a' := by rw [sm_cons_lt b a' _ ha']; omega
        omega
      · have hp' : ¬ (b > a' ∧ b > n) := by omega
        simp only [peaksCtx, peaksGo, if_neg hp, if_neg hp', List.nil_append]
        exact ih
    · -- `b` is not a reversal: only the raw walk steps
      have rel' : ∀ M, b < M → sm M (b :: a :: lD) = min b (sm M (a' :: lR)) := by
        intro M hM
        rw [sm_cons_lt M b _ hM]
        by_cases haM : a < M
        · rw [rel M haM]
          by_cases ha'M : a' < M
          · have : sm M (a' :: lR) ≤ a' := by rw [sm_cons_lt M a' _ ha'M]; omega
            omega
          · rw [sm_cons_ge M a' _ ha'M]; omega
        · rw [sm_cons_ge M a _ haM]
          have ha'M : ¬ a' < M := by omega
          rw [sm_cons_ge M a' _ ha'M]
      have ih := jo_sync rest b c a' (a :: lD) lR h.2 (by omega) (by omega) rel'
      have hp : ¬ (b > a ∧ b > c) := by omega
      simp only [turning, if_neg hk, hl, peaksCtx, if_neg hp, List.nil_append]
      exact ih

/-- the stronger form: every Johannesson bottom is the raw-history left minimum (no uniqueness
hypothesis on the top is needed) -/
theorem johannesson_bottoms_all (h : List Int) :
    ((peaksOf h).zip (johannesson h)).all (fun pc => pc.2.a == sideMin pc.1.2.1 pc.1.1) = true := by
  unfold johannesson peaksOf
  rw [pv_true_eq_reversals]
  match h with
  | [] => simp [dedup, peaksCtx]
  | [x] => simp [dedup, peaksCtx]
  | x :: y :: rest =>
    simp only [reversals]
    obtain ⟨t, ht⟩ := dedup_head x (y :: rest)
    have hn := dedup_noRep (x :: y :: rest)
    have hl := lastD_dedup (x :: y :: rest) x
    rw [ht] at hn hl ⊢
    have hl' : lastD (y :: rest) x = lastD t x := by simpa [lastD] using hl.symm
    rw [hl']
    match t, hn with
    | [], _ => simp [peaksCtx]
    | b :: t', hn =>
      obtain ⟨n, tl, e, _, _⟩ := next_kept t' x b hn
      have key := jo_sync t' x b x [] [] hn (fun _ => Int.le_refl _) (fun _ => Int.le_refl _)
        (by intro M hM; simp only [sm, if_pos hM]; omega)
      have e' : turning (x :: b :: t') ++ [lastD (b :: t') x] = n :: tl := e
      have e'' : lastD t' b = lastD (b :: t') x := rfl
      rw [e'] at key
      rw [peaksCtx]
      show (List.zip (peaksCtx [x] (b :: t')) (peaksGo _ [] (x :: (turning (x :: b :: t') ++ [lastD (b :: t') x])))).all _ = true
      rw [e', peaksGo]
      exact key

/-- C06, Johannesson bottoms on the raw history -/
theorem C06_johannesson_bottoms (h : List Int) : C06.joBottomsOK h (johannesson h) = true := by
  unfold C06.joBottomsOK
  exact all_or_of_all _ (fun pc => !uniqueTop h pc.1.2.1) _ (johannesson_bottoms_all h)

end FF
