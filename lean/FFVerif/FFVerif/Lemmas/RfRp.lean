/- Simulation between the rainflow stack machine (`reduce`/`astmGo`) and the forward pass of
range-pair counting (`rpReduce`/`rpForward`) on the same reversal list.  Core Lean only.

Both machines perform the same reductions, except on a three-point stack, where rainflow emits a
half cycle and drops only the start point while range-pair emits a whole cycle and drops two.
Hence the range-pair stack is always the rainflow stack, or the rainflow stack without its oldest
point. -/
import FFVerif.Lemmas.Census
import FFVerif.Lemmas.Table
namespace FF

def wholesL (cs : List Cyc) : List Cyc := cs.filter (fun c => !c.half)

theorem unitsAt_append (a b : List Cyc) (k : Nat) : unitsAt (a ++ b) k = unitsAt a k + unitsAt b k := by
  simp [unitsAt]

theorem unitsAt_nil (k : Nat) : unitsAt [] k = 0 := rfl

theorem unitsAt_single (c : Cyc) (k : Nat) : unitsAt [c] k = if c.range = k then c.units else 0 := by
  rw [unitsAt_cons]; simp [unitsAt]

theorem wholesL_append (a b : List Cyc) : wholesL (a ++ b) = wholesL a ++ wholesL b := by
  simp [wholesL]

theorem wholesL_whole (a b : Int) : wholesL [⟨a, b, false⟩] = [⟨a, b, false⟩] := rfl
theorem wholesL_half (a b : Int) : wholesL [⟨a, b, true⟩] = [] := rfl

/-- every whole cycle of `o` is matched in `o'` -/
def Wle (o o' : List Cyc) : Prop := ∀ k, unitsAt (wholesL o) k ≤ unitsAt o' k

/-- stack relation: equal, or range-pair has lost the oldest point -/
def StRel (st st' : List Int) : Prop := st' = st ∨ ∃ z, st = st' ++ [z] ∧ st' ≠ []

theorem Wle_whole {o o' : List Cyc} (h : Wle o o') (a b : Int) :
    Wle (o ++ [⟨a, b, false⟩]) (o' ++ [⟨a, b, false⟩]) := by
  intro k
  have := h k
  rw [wholesL_append, unitsAt_append, unitsAt_append, wholesL_whole]
  omega

theorem Wle_half_whole {o o' : List Cyc} (h : Wle o o') (a b : Int) :
    Wle (o ++ [⟨a, b, true⟩]) (o' ++ [⟨a, b, false⟩]) := by
  intro k
  have := h k
  rw [wholesL_append, unitsAt_append, unitsAt_append, wholesL_half, unitsAt_nil]
  omega

theorem Wle_half {o o' : List Cyc} (h : Wle o o') (a b : Int) :
    Wle (o ++ [⟨a, b, true⟩]) o' := by
  intro k
  have := h k
  rw [wholesL_append, unitsAt_append, wholesL_half, unitsAt_nil]
  omega

theorem rpReduce_short (st : List Int) (o : List Cyc) (h : st.length ≤ 2) : rpReduce st o = (st, o) := by
  match st, h with
  | [], _ => rw [rpReduce]; simp
  | [_], _ => rw [rpReduce]; simp
  | [_, _], _ => rw [rpReduce]; simp

theorem rpReduce_fire (c b a : Int) (rest : List Int) (o : List Cyc) (h : rng a b ≤ rng b c) :
    rpReduce (c :: b :: a :: rest) o = rpReduce (c :: rest) (o ++ [⟨a, b, false⟩]) := by
  rw [rpReduce]; simp [h]

theorem rpReduce_stay (c b a : Int) (rest : List Int) (o : List Cyc) (h : ¬ rng a b ≤ rng b c) :
    rpReduce (c :: b :: a :: rest) o = (c :: b :: a :: rest, o) := by
  rw [rpReduce]; simp [h]

theorem reduce_fire3 (c b a : Int) (o : List Cyc) (h : ¬ rng b c < rng a b) :
    reduce [c, b, a] o = ([c, b], o ++ [⟨a, b, true⟩]) := by
  rw [reduce]; simp only [h, if_false]; rw [reduce_two]

theorem reduce_fire4 (c b a r : Int) (rest : List Int) (o : List Cyc) (h : ¬ rng b c < rng a b) :
    reduce (c :: b :: a :: r :: rest) o = reduce (c :: r :: rest) (o ++ [⟨a, b, false⟩]) := by
  rw [reduce]; simp [h]

/-- both machines on the same stack -/
theorem sim_eq (st : List Int) (o o' : List Cyc) (hW : Wle o o') :
    StRel (reduce st o).1 (rpReduce st o').1 ∧ Wle (reduce st o).2 (rpReduce st o').2 := by
  fun_induction reduce st o generalizing o' with
  | case1 c b a o h =>
    rw [rpReduce_stay c b a [] o' (by omega)]
    exact ⟨Or.inl rfl, hW⟩
  | case2 c b a o h ih =>
    rw [reduce_two, rpReduce_fire c b a [] o' (by omega), rpReduce_short _ _ (by simp)]
    exact ⟨Or.inr ⟨b, rfl, by simp⟩, Wle_half_whole hW a b⟩
  | case3 c b a r rest o h =>
    rw [rpReduce_stay c b a _ o' (by omega)]
    exact ⟨Or.inl rfl, hW⟩
  | case4 c b a r rest o h ih =>
    rw [rpReduce_fire c b a _ o' (by omega)]
    exact ih _ (Wle_whole hW a b)
  | case5 st o h1 h2 =>
    have hl : st.length ≤ 2 := by
      match st, h1, h2 with
      | [], _, _ => simp
      | [_], _, _ => simp
      | [_, _], _, _ => simp
      | [c, b, a], h1, _ => exact (h1 c b a rfl).elim
      | c :: b :: a :: r :: rest, _, h2 => exact (h2 c b a r rest rfl).elim
    rw [rpReduce_short _ _ hl]
    exact ⟨Or.inl rfl, hW⟩

/-- range-pair has lost the oldest point `z` -/
theorem sim_df (st' : List Int) (z : Int) (o o' : List Cyc) (hne : st' ≠ []) (hW : Wle o o') :
    StRel (reduce (st' ++ [z]) o).1 (rpReduce st' o').1 ∧
      Wle (reduce (st' ++ [z]) o).2 (rpReduce st' o').2 := by
  fun_induction rpReduce st' o' generalizing o with
  | case1 c b a rest o' hle ih =>
    cases rest with
    | nil =>
      simp only [List.cons_append, List.nil_append]
      rw [reduce_fire4 c b a z [] o (by omega), reduce_two, rpReduce_short _ _ (by simp)]
      exact ⟨Or.inr ⟨z, rfl, by simp⟩, Wle_whole hW a b⟩
    | cons r rest =>
      simp only [List.cons_append]
      rw [reduce_fire4 c b a r _ o (by omega)]
      exact ih _ (by simp) (Wle_whole hW a b)
  | case2 c b a rest o' hgt =>
    have : reduce ((c :: b :: a :: rest) ++ [z]) o = ((c :: b :: a :: rest) ++ [z], o) := by
      simp only [List.cons_append]
      exact reduce_stable c b a _ o (by omega)
    rw [this]
    exact ⟨Or.inr ⟨z, rfl, by simp⟩, hW⟩
  | case3 st' o' hns =>
    match st', hne, hns with
    | [c], _, _ =>
      simp only [List.cons_append, List.nil_append]
      rw [reduce_two]
      exact ⟨Or.inr ⟨z, rfl, by simp⟩, hW⟩
    | [c, b], _, _ =>
      simp only [List.cons_append, List.nil_append]
      by_cases h : rng b c < rng z b
      · rw [reduce_stable c b z [] o h]
        exact ⟨Or.inr ⟨z, rfl, by simp⟩, hW⟩
      · rw [reduce_fire3 c b z o h]
        exact ⟨Or.inl rfl, Wle_half hW z b⟩
    | c :: b :: a :: rest, _, hns => exact (hns c b a rest rfl).elim

theorem sim_step (st st' : List Int) (p : Int) (o o' : List Cyc) (hs : StRel st st') (hW : Wle o o') :
    StRel (reduce (p :: st) o).1 (rpReduce (p :: st') o').1 ∧
      Wle (reduce (p :: st) o).2 (rpReduce (p :: st') o').2 := by
  rcases hs with rfl | ⟨z, rfl, hne⟩
  · exact sim_eq _ _ _ hW
  · exact sim_df (p :: st') z o o' (by simp) hW

theorem Wle_append_halves (o o' : List Cyc) (hW : Wle o o') (l : List Int) : Wle (o ++ halves l) o' := by
  intro k
  have := hW k
  rw [wholesL_append]
  have : wholesL (halves l) = [] := by
    induction l with
    | nil => rfl
    | cons x l ih =>
      cases l with
      | nil => rfl
      | cons y l => simpa [halves, wholesL] using ih
  rw [this]; simpa using hW k

/-- whole run: every whole cycle of the rainflow count is matched in the forward pass -/
theorem sim_run (ps : List Int) : ∀ (st st' : List Int) (o o' : List Cyc), StRel st st' → Wle o o' →
    Wle (astmGo st ps o) (rpForward st' ps o').2 := by
  induction ps with
  | nil =>
    intro st st' o o' _ hW
    rw [astmGo]; simp only [rpForward]
    exact Wle_append_halves o o' hW _
  | cons p ps ih =>
    intro st st' o o' hs hW
    rw [astmGo_cons]; simp only [rpForward]
    obtain ⟨h1, h2⟩ := sim_step st st' p o o' hs hW
    exact ih _ _ _ _ h1 h2

end FF
