/- The peak-valley filter returns the reversal sequence.  Core Lean only. -/
import FFVerif.Props.Spec
namespace FF

theorem dedup_head (a : Int) (l : List Int) : ∃ t, dedup (a :: l) = a :: t := by
  induction l generalizing a with
  | nil => exact ⟨[], by simp [dedup]⟩
  | cons b l ih =>
    by_cases h : a = b
    · subst h
      obtain ⟨t, ht⟩ := ih a
      exact ⟨t, by rw [dedup]; simp [ht]⟩
    · exact ⟨dedup (b :: l), by rw [dedup]; simp [h]⟩

theorem dedup_cons_ne (a b : Int) (l : List Int) (h : a ≠ b) :
    dedup (a :: b :: l) = a :: dedup (b :: l) := by
  rw [dedup]; simp [h]

theorem dedup_cons_eq (a : Int) (l : List Int) :
    dedup (a :: a :: l) = dedup (a :: l) := by
  rw [dedup]; simp

theorem turning_congr (a a' b : Int) (l : List Int)
    (h1 : a < b ↔ a' < b) (h2 : a > b ↔ a' > b) :
    turning (a :: b :: l) = turning (a' :: b :: l) := by
  cases l with
  | nil => simp [turning]
  | cons c l =>
    simp only [turning]
    have e : ((a < b ∧ b > c) ∨ (a > b ∧ b < c)) ↔ ((a' < b ∧ b > c) ∨ (a' > b ∧ b < c)) := by
      rw [h1, h2]
    by_cases hc : (a < b ∧ b > c) ∨ (a > b ∧ b < c)
    · rw [if_pos hc, if_pos (e.mp hc)]
    · rw [if_neg hc, if_neg (fun h => hc (e.mpr h))]

theorem pvGo_char : ∀ (l : List Int) (p : Int), l ≠ [] →
    pvGo true p l = turning (dedup (p :: l)) ++ [lastD l p]
  | [], _, h => absurd rfl h
  | [last], p, _ => by
    by_cases h : p = last
    · subst h; simp [pvGo, dedup, turning, lastD]
    · simp [pvGo, dedup, turning, lastD, h]
  | cur :: next :: rest, p, _ => by
    have ih := fun q => pvGo_char (next :: rest) q (by simp)
    obtain ⟨t, ht⟩ := dedup_head next rest
    have hl : lastD (cur :: next :: rest) p = lastD (next :: rest) cur := rfl
    have hl2 : ∀ q r, lastD (next :: rest) q = lastD (next :: rest) r := fun _ _ => rfl
    rw [pvGo]
    by_cases hk : (p < cur ∧ cur > next) ∨ (p > cur ∧ cur < next)
    · rw [if_pos hk, ih cur]
      have hpc : p ≠ cur := by omega
      have hcn : cur ≠ next := by omega
      rw [dedup_cons_ne p cur _ hpc, dedup_cons_ne cur next _ hcn, ht, turning, if_pos hk]
      simp [hl]
    · rw [if_neg hk, ih p]
      by_cases hpc : p = cur
      · subst hpc
        rw [dedup_cons_eq]; simp [hl]
      · rw [dedup_cons_ne p cur _ hpc]
        by_cases hcn : cur = next
        · subst hcn
          rw [dedup_cons_eq, dedup_cons_ne p cur _ hpc]
          simp [hl, hl2 p cur]
        · rw [dedup_cons_ne cur next _ hcn, ht, turning, if_neg hk]
          have hpn : p ≠ next := by omega
          rw [dedup_cons_ne p next _ hpn, ht]
          rw [turning_congr p cur next t (by omega) (by omega)]
          simp [hl, hl2 p cur]

/-- `sequencePeakValleyFilter( data, keepEnds=True )` is the reversal sequence of `data` -/
theorem pv_true_eq_reversals : ∀ h : List Int, pv true h = reversals h
  | [] => rfl
  | [x] => by simp [pv, pvGo, reversals]
  | x :: y :: rest => by
    have := pvGo_char (y :: rest) x (by simp)
    simp [pv, reversals, this]

end FF
