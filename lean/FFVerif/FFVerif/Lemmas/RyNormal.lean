/- Rychlik's count under removal of an end point, and its symmetry on four-point residues.
Core Lean only. -/
import FFVerif.Lemmas.RyStep
import FFVerif.Lemmas.ClosedNormal
namespace FF

/-- three consecutive points alternate strictly -/
def Alt3 (a b c : Int) : Prop := (a < b ∧ c < b) ∨ (b < a ∧ b < c)

theorem Zig.alt3 {a b c : Int} {S : List Int} (h : Zig (a :: b :: c :: S)) : Alt3 a b c := by
  rcases h with h | h <;> (obtain ⟨h1, h2, _⟩ := h; unfold rel at *; unfold Alt3; simp at *; omega)

theorem Alt3.reverse {a b c : Int} (h : Alt3 a b c) : Alt3 c b a := by unfold Alt3 at *; omega

/-! ### dropping the first point -/

/-- if the first range is contained in the second, the first point only matters through the cycle
`a–b` of the peak `b` (when `b` is a peak) -/
theorem ry_head (a b c : Int) (rest : List Int) (hA : Alt3 a b c) (hr : rng a b ≤ rng b c) :
    peaksGo ryF [] (a :: b :: c :: rest)
      = (if a < b then [⟨a, b, false⟩] else []) ++ peaksGo ryF [] (b :: c :: rest) := by
  have hc : (a < b ∧ c < b ∧ c ≤ a) ∨ (b < a ∧ b < c ∧ a ≤ c) := by
    unfold Alt3 at hA; unfold rng at hr; omega
  rw [peaksGo_cons, peaksGo_cons, peaksGo_cons, peaksGo_cons [] b, peaksGo_cons [b] c]
  rw [ryEmit_nil_left, ryEmit_nil_left]
  have tails : peaksGo ryF [c, b, a] rest = peaksGo ryF [c, b] rest := by
    apply peaksGo_congr_left
    · intro M
      simp only [sm]
      repeat' split
      all_goals omega
    · rfl
  rw [tails]
  have ec : ryEmit [b, a] c rest = ryEmit [b] c rest := by
    rcases hc with hc | hc
    · rw [ryEmit_left_ge _ _ _ _ (by omega), ryEmit_left_ge _ _ _ _ (by omega)]
    · apply ryEmit_congr_left
      · intro M
        simp only [sm]
        repeat' split
        all_goals omega
      · rfl
  rw [ec]
  have eb : ryEmit [a] b (c :: rest) = if a < b then [⟨a, b, false⟩] else [] := by
    rcases hc with hc | hc
    · rw [ryEmit_pos a [] b c rest (by omega) (by omega), if_pos hc.1]
      have h1 : sm b [a] = a := by simp only [sm]; repeat' split; all_goals omega
      have h2 : smLe b (c :: rest) ≤ c := by
        rw [smLe_cons_le b c rest (by omega)]; omega
      rw [h1, Int.max_eq_left (by omega)]
    · rw [ryEmit_left_ge _ _ _ _ (by omega), if_neg (by omega)]
  rw [eb]
  simp

/-! ### dropping the last point -/

theorem smLe_append_congr {R1 R2 : List Int} (h : ∀ M, smLe M R1 = smLe M R2) :
    ∀ (P : List Int) (M : Int), smLe M (P ++ R1) = smLe M (P ++ R2)
  | [], M => h M
  | p :: P, M => by simp only [List.cons_append, smLe, smLe_append_congr h P M]

theorem ryEmit_congr_right {R1 R2 : List Int} (h : ∀ M, smLe M R1 = smLe M R2)
    (hh : R1.head? = R2.head?) (left : List Int) (cur : Int) : ryEmit left cur R1 = ryEmit left cur R2 := by
  cases left with
  | nil => rw [ryEmit_nil_left, ryEmit_nil_left]
  | cons p l =>
    cases R1 with
    | nil =>
      cases R2 with
      | nil => rfl
      | cons _ _ => simp at hh
    | cons n1 r1 =>
      cases R2 with
      | nil => simp at hh
      | cons n2 r2 =>
        simp only [List.head?_cons, Option.some.injEq] at hh
        subst hh
        simp only [ryEmit, h cur]

/-- if the last range is contained in the one before, the last point only matters through the
cycle `z–y` of the peak `y` (when `y` is a peak) -/
theorem ry_last (x y z : Int) (hA : Alt3 x y z) (hr : rng y z ≤ rng x y) :
    ∀ (P left : List Int), peaksGo ryF left (P ++ [x, y, z])
      = peaksGo ryF left (P ++ [x, y]) ++ (if z < y then [⟨z, y, false⟩] else [])
  | [], left => by
    have hc : (x < y ∧ z < y ∧ x ≤ z) ∨ (y < x ∧ y < z ∧ z ≤ x) := by
      unfold Alt3 at hA; unfold rng at hr; omega
    simp only [List.nil_append]
    rw [peaksGo_cons, peaksGo_cons, peaksGo_cons, peaksGo_cons left x, peaksGo_cons (x :: left) y]
    rw [ryEmit_nil_right, ryEmit_nil_right]
    have e0 : ∀ l, peaksGo ryF l [] = [] := by intro l; simp [peaksGo]
    rw [e0, e0]
    have ex : ryEmit left x [y, z] = ryEmit left x [y] := by
      rcases hc with hc | hc
      · rw [ryEmit_right_ge _ _ _ _ (by omega), ryEmit_right_ge _ _ _ _ (by omega)]
      · have hs : smLe x [y, z] = smLe x [y] := by
          simp only [smLe]
          repeat' split
          all_goals omega
        cases left with
        | nil => rfl
        | cons p l => simp only [ryEmit, hs]
    rw [ex]
    have ey : ryEmit (x :: left) y [z] = if z < y then [⟨z, y, false⟩] else [] := by
      rcases hc with hc | hc
      · rw [ryEmit_pos x left y z [] (by omega) (by omega), if_pos hc.2.1]
        have h1 : smLe y [z] = z := by simp only [smLe]; repeat' split; all_goals omega
        have h2 : sm y (x :: left) ≤ x := sm_head_le y x left hc.1
        rw [h1, Int.max_eq_right (by omega)]
      · rw [ryEmit_left_ge _ _ _ _ (by omega), if_neg (by omega)]
    rw [ey]
    simp
  | p :: P, left => by
    simp only [List.cons_append]
    rw [peaksGo_cons, peaksGo_cons, ry_last x y z hA hr P (p :: left)]
    have hc : (x < y ∧ z < y ∧ x ≤ z) ∨ (y < x ∧ y < z ∧ z ≤ x) := by
      unfold Alt3 at hA; unfold rng at hr; omega
    have e : ryEmit left p (P ++ [x, y, z]) = ryEmit left p (P ++ [x, y]) := by
      apply ryEmit_congr_right
      · apply smLe_append_congr
        intro M
        simp only [smLe]
        repeat' split
        all_goals omega
      · cases P <;> rfl
    rw [e]
    simp

/-! ### symmetry on residues -/

theorem Normal.prefix {P T : List Int} (h : Normal (P ++ T)) : Normal P :=
  fun _ _ s => h _ _ (s.append T)

theorem unitsAt_ite (p : Prop) [Decidable p] (c : Cyc) (k : Nat) (x : List Cyc) :
    unitsAt ((if p then [c] else []) ++ x) k = unitsAt (x ++ (if p then [c] else [])) k := by
  rw [unitsAt_append, unitsAt_append]; omega

/-- on a four-point residue the Rychlik histogram does not depend on the direction of time -/
theorem ry_normal_reverse : ∀ (n : Nat) (N : List Int), N.length ≤ n → Normal N → Zig N →
    ∀ k, unitsAt (peaksGo ryF [] N.reverse) k = unitsAt (peaksGo ryF [] N) k
  | 0, N, hl, _, _, k => by
    have : N = [] := by cases N with
      | nil => rfl
      | cons _ _ => simp at hl
    subst this; rfl
  | n + 1, [], _, _, _, k => rfl
  | n + 1, [_], _, _, _, k => rfl
  | n + 1, [a, b], _, _, _, k => by simp [peaksGo]
  | n + 1, a :: b :: c :: rest, hl, hn, hz, k => by
    by_cases hr : rng a b ≤ rng b c
    · have e1 := ry_head a b c rest hz.alt3 hr
      have e2 := ry_last c b a hz.alt3.reverse (by rw [rng_comm b a, rng_comm c b]; exact hr) rest.reverse []
      have er : (a :: b :: c :: rest).reverse = rest.reverse ++ [c, b, a] := by simp
      have er' : (b :: c :: rest).reverse = rest.reverse ++ [c, b] := by simp
      have ih := ry_normal_reverse n (b :: c :: rest) (by simp at hl ⊢; omega) hn.tail (Zig_tail hz) k
      rw [er, e2, e1, ← er', unitsAt_append, unitsAt_append, ih]
      omega
    · have hd : Dec (a :: b :: c :: rest) := normal_dec rest a b c hn hz (by omega)
      -- the last three points
      obtain ⟨Q, x, y, z, eN⟩ : ∃ Q x y z, a :: b :: c :: rest = Q ++ [x, y, z] := by
        have : ∀ (l : List Int), 3 ≤ l.length → ∃ Q x y z, l = Q ++ [x, y, z] := by
          intro l
          induction l with
          | nil => intro h; simp at h
          | cons p l ih =>
            intro h
            by_cases h3 : 3 ≤ l.length
            · obtain ⟨Q, x, y, z, e⟩ := ih h3
              exact ⟨p :: Q, x, y, z, by rw [e]; rfl⟩
            · match l, h, h3 with
              | [y, z], _, _ => exact ⟨[], p, y, z, rfl⟩
              | [], h, _ => simp at h
              | [_], h, _ => simp at h
              | _ :: _ :: _ :: _, _, h3 => simp at h3
        exact this _ (by simp)
      rw [eN] at hd hn hz hl ⊢
      have hz3 : Zig [x, y, z] := Zig_suffix Q hz
      have hd3 : rng y z < rng x y := (Dec_drop Q _ hd).1
      have e1 := ry_last x y z hz3.alt3 (by omega) Q []
      have er : (Q ++ [x, y, z]).reverse = z :: y :: x :: Q.reverse := by simp
      have er' : (Q ++ [x, y]).reverse = y :: x :: Q.reverse := by simp
      have e2 := ry_head z y x Q.reverse hz3.alt3.reverse (by rw [rng_comm z y, rng_comm y x]; omega)
      have hn' : Normal (Q ++ [x, y]) := by
        have : Q ++ [x, y, z] = (Q ++ [x, y]) ++ [z] := by simp
        rw [this] at hn; exact hn.prefix
      have hz' : Zig (Q ++ [x, y]) := by
        have : Q ++ [x, y, z] = (Q ++ [x, y]) ++ [z] := by simp
        rw [this] at hz; exact Zig_prefix _ _ hz
      have ih := ry_normal_reverse n (Q ++ [x, y]) (by simp at hl ⊢; omega) hn' hz' k
      rw [er, e2, e1, ← er', unitsAt_append, unitsAt_append, ih]
      omega

end FF
