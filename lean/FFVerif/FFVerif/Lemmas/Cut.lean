/- Cutting a periodic history at another point: the repeating-history count does not change.
Core Lean only. -/
import FFVerif.Lemmas.Refine
import FFVerif.Lemmas.Rotate
import FFVerif.Lemmas.RfRpClosed
import FFVerif.Lemmas.Reverse
import FFVerif.Proofs.C04
namespace FF

/-! ### refinement: congruences, and the filter output is refined by its input -/

theorem Refines.trans {A B C : List Int} (r1 : Refines A B) (r2 : Refines B C) : Refines A C := by
  induction r2 with
  | refl => exact r1
  | step P a v b S hb _ ih => exact Refines.step _ P a v b S hb ih

theorem Refines.prepend {A A' : List Int} (r : Refines A A') (P : List Int) : Refines (P ++ A) (P ++ A') := by
  induction r with
  | refl => exact Refines.refl _
  | step P' a v b S hb _ ih =>
    have := Refines.step (P ++ A) (P ++ P') a v b S hb (by simpa using ih)
    simpa using this

theorem Refines.append {A A' : List Int} (r : Refines A A') (T : List Int) : Refines (A ++ T) (A' ++ T) := by
  induction r with
  | refl => exact Refines.refl _
  | step P' a v b S hb _ ih =>
    have := Refines.step (A ++ T) P' a v b (S ++ T) hb (by simpa using ih)
    simpa using this

theorem Refines.head {A A' : List Int} (r : Refines A A') : A'.head? = A.head? := by
  induction r with
  | refl => rfl
  | step P a v b S hb _ ih => rw [← ih]; cases P <;> simp

theorem Refines.getLast {A A' : List Int} (r : Refines A A') : A'.getLast? = A.getLast? := by
  induction r with
  | refl => rfl
  | step P a v b S hb _ ih =>
    rw [← ih]
    simp [List.getLast?_append, List.getLast?_cons_cons]

theorem refines_pvGo : ∀ (l : List Int) (p : Int), Refines (p :: pvGo true p l) (p :: l)
  | [], p => by simp [pvGo]; exact Refines.refl _
  | [last], p => by simp [pvGo]; exact Refines.refl _
  | cur :: next :: rest, p => by
    rw [pvGo]
    split
    · have ih := refines_pvGo (next :: rest) cur
      exact ih.prepend [p]
    · rename_i hc
      have ih := refines_pvGo (next :: rest) p
      exact Refines.step _ [] p cur next rest (by unfold Between; omega) ih

theorem refines_pv (A : List Int) : Refines (pv true A) A := by
  cases A with
  | nil => exact Refines.refl _
  | cons x rest => simpa [pv] using refines_pvGo rest x

/-- glue two refinements at a shared point (last of the first = first of the second) -/
theorem Refines.glue {A A' B B' : List Int} (ra : Refines A A') (rb : Refines B B') (e : Int)
    (hl : A.getLast? = some e) (hh : B.head? = some e) :
    Refines (A ++ B.tail) (A' ++ B'.tail) := by
  have r1 : Refines (A ++ B.tail) (A' ++ B.tail) := ra.append _
  obtain ⟨A0', hA'⟩ := List.getLast?_eq_some_iff.mp (by rw [ra.getLast]; exact hl)
  obtain ⟨Bt, rfl⟩ : ∃ Bt, B = e :: Bt := by
    cases B with
    | nil => simp at hh
    | cons y Bt => simp at hh; exact ⟨Bt, by rw [hh]⟩
  obtain ⟨Bt', rfl⟩ : ∃ Bt', B' = e :: Bt' := by
    have := rb.head
    cases B' with
    | nil => simp at this
    | cons y Bt' => simp at this; exact ⟨Bt', by rw [this]⟩
  have r2 : Refines (A0' ++ (e :: Bt)) (A0' ++ (e :: Bt')) := rb.prepend A0'
  have e1 : A' ++ (e :: Bt).tail = A0' ++ (e :: Bt) := by rw [hA']; simp
  have e2 : A' ++ (e :: Bt').tail = A0' ++ (e :: Bt') := by rw [hA']; simp
  rw [e1] at r1; rw [e2]
  exact r1.trans r2

/-- filtering the glued filter outputs = filtering the glued inputs -/
theorem pv_glue (A B : List Int) (e : Int) (hl : A.getLast? = some e) (hh : B.head? = some e) :
    pv true (pv true A ++ (pv true B).tail) = pv true (A ++ B.tail) := by
  have ra := refines_pv A
  have rb := refines_pv B
  have := Refines.glue ra rb e (by rw [← hl]; exact (ra.getLast).symm) (by rw [← hh]; exact (rb.head).symm)
  exact (pv_refines true this).symm


/-! ### the forward pass: output prefix, concatenation -/

theorem rpReduce_out (st : List Int) (o' : List Cyc) : ∀ o : List Cyc,
    rpReduce st (o ++ o') = ((rpReduce st o').1, o ++ (rpReduce st o').2) := by
  fun_induction rpReduce st o' with
  | case1 c b a rest o' hle ih =>
    intro o
    rw [rpReduce_fire c b a rest _ hle]
    have := ih o
    rw [List.append_assoc]; exact this
  | case2 c b a rest o' hgt =>
    intro o; rw [rpReduce_stay c b a rest _ hgt]
  | case3 st o' hne =>
    intro o
    rw [rpReduce]
    exact hne

theorem rpForward_out (ps : List Int) : ∀ (st : List Int) (o o' : List Cyc),
    rpForward st ps (o ++ o') = ((rpForward st ps o').1, o ++ (rpForward st ps o').2) := by
  induction ps with
  | nil => intro st o o'; simp [rpForward]
  | cons p ps ih =>
    intro st o o'
    simp only [rpForward]
    rw [rpReduce_out (p :: st) o' o]
    exact ih _ _ _

theorem rpForward_out' (ps st : List Int) (o : List Cyc) :
    rpForward st ps o = ((rpForward st ps []).1, o ++ (rpForward st ps []).2) := by
  have := rpForward_out ps st o []
  simpa using this

theorem rpForward_append (ps qs : List Int) : ∀ (st : List Int) (o : List Cyc),
    rpForward st (ps ++ qs) o = rpForward (rpForward st ps o).1 qs (rpForward st ps o).2 := by
  induction ps with
  | nil => intro st o; simp [rpForward]
  | cons p ps ih => intro st o; simp only [List.cons_append, rpForward]; exact ih _ _

theorem rpForward_start (M : Int) (t : List Int) (o : List Cyc) :
    rpForward [] (M :: t) o = rpForward [M] t o := by
  simp only [rpForward]; rw [rpReduce_short _ _ (by simp)]

/-- range histogram of the forward pass -/
def rpU (L : List Int) (k : Nat) : Nat := unitsAt (rpForward [] L []).2 k

theorem rpU_short (L : List Int) (h : L.length ≤ 2) (k : Nat) : rpU L k = 0 := by
  unfold rpU; rw [rpForward_short L h]; rfl

/-- alternating, from `M` back to `M`, never above `M` -/
def ClosedZ (M : Int) (P : List Int) : Prop :=
  ∃ P', P = M :: P' ∧ Zig P ∧ (∀ x ∈ P', x ≤ M) ∧ P.getLast? = some M

theorem ClosedZ.stack {M : Int} {P : List Int} (h : ClosedZ M P) : (rpForward [] P []).1 = [M] := by
  obtain ⟨P', rfl, hz, hb, hl⟩ := h
  exact (closed_units true M P' hz (by intro x hx; simp only [bd, if_true]; exact hb x hx) hl).1

/-- two closed periods one after the other: the forward pass counts them separately -/
theorem rpU_closed_append {M : Int} {PX PY : List Int} (hx : ClosedZ M PX) (hy : ClosedZ M PY) (k : Nat) :
    rpU (PX ++ PY.tail) k = rpU PX k + rpU PY k := by
  have sx := hx.stack
  obtain ⟨PY', rfl, _, _, _⟩ := hy
  unfold rpU
  rw [rpForward_append, sx]
  simp only [List.tail_cons]
  rw [← rpForward_start M PY', rpForward_out' (M :: PY') [] (rpForward [] PX []).2, unitsAt_append]


/-! ### gluing at a common maximum -/

theorem Zig_glue_max (X Y : List Int) (M : Int) (hX : X ≠ []) (hY : Y ≠ []) (h1 : Zig (X ++ [M]))
    (h2 : Zig (M :: Y)) (hub : ∀ v ∈ X ++ Y, v ≤ M) : Zig (X ++ M :: Y) := by
  rcases List.eq_nil_or_concat X with e | ⟨Z, a, e⟩
  · exact absurd e hX
  · have eX : X = Z ++ [a] := by simpa using e
    subst eX
    obtain ⟨y, Y', rfl⟩ : ∃ y Y', Y = y :: Y' := by
      cases Y with
      | nil => exact absurd rfl hY
      | cons y Y' => exact ⟨y, Y', rfl⟩
    have ha : a < M := by
      have := hub a (by simp)
      have := Zig_adj_ne Z a M [] (by simpa using h1)
      omega
    have hy : y < M := by
      have := hub y (by simp)
      have := Zig_adj_ne [] M y Y' h2
      omega
    have key : ∀ u, ZigD u [a, M] → ZigD u (a :: M :: y :: Y') := by
      intro u hu
      have hr : rel u a M := hu.1
      have hu' : u = true := by
        cases u
        · unfold rel at hr; simp at hr; omega
        · rfl
      subst hu'
      refine ⟨hr, ?_⟩
      rcases h2 with g | g
      · have := g.1; unfold rel at this; simp at this; omega
      · exact g
    have e1 : Z ++ [a] ++ [M] = Z ++ a :: [M] := by simp
    have e2 : Z ++ [a] ++ M :: y :: Y' = Z ++ a :: (M :: y :: Y') := by simp
    rw [e1] at h1
    rw [e2]
    rcases h1 with g | g
    · exact Or.inl (ZigD_splice Z a _ _ g key)
    · exact Or.inr (ZigD_splice Z a _ _ g key)

/-! ### one closed period of samples, filtered -/

theorem pv_length_two (x y : Int) (rest : List Int) : 2 ≤ (pv true (x :: y :: rest)).length := by
  rw [pv_true_eq_reversals]; simp [reversals]

theorem pv_head?' (h : List Int) : (pv true h).head? = h.head? := by
  cases h <;> simp [pv]

theorem pv_getLast?' (h : List Int) : (pv true h).getLast? = h.getLast? := by
  have := pv_head?' h.reverse
  rw [pv_true_reverse, List.head?_reverse, List.head?_reverse] at this
  exact this

theorem pv_closed (M : Int) (X : List Int) (hX : ∀ x ∈ X, x ≤ M) :
    pv true (M :: (X ++ [M])) = [M, M] ∨ ClosedZ M (pv true (M :: (X ++ [M]))) := by
  have hh : (pv true (M :: (X ++ [M]))).head? = some M := by rw [pv_head?']; rfl
  have hl : (pv true (M :: (X ++ [M]))).getLast? = some M := by
    rw [pv_getLast?']
    exact List.getLast?_eq_some_iff.mpr ⟨M :: X, by simp⟩
  have hlen : 2 ≤ (pv true (M :: (X ++ [M]))).length := by
    cases X with
    | nil => exact pv_length_two M M []
    | cons y X => exact pv_length_two M y (X ++ [M])
  by_cases hc : isConstant (M :: (X ++ [M])) = true
  · left
    have h2 := pv_const_length _ hc
    match hP : pv true (M :: (X ++ [M])), hh, hl, hlen, h2 with
    | [a, b], hh, hl, _, _ =>
      simp at hh hl; rw [hh, hl]
    | [], _, _, hlen, _ => simp at hlen
    | [_], _, _, hlen, _ => simp at hlen
    | _ :: _ :: _ :: _, _, _, _, h2 => simp at h2
  · right
    have hz := pv_zig _ (by simpa using hc)
    have hsub := (pv_sublist true (M :: (X ++ [M]))).subset
    match hP : pv true (M :: (X ++ [M])), hh with
    | [], hh => simp at hh
    | a :: P', hh =>
      have ha : a = M := by simpa using hh
      subst ha
      refine ⟨P', rfl, by rw [← hP]; exact hz, ?_, by rw [← hP]; exact hl⟩
      intro x hx
      have : x ∈ a :: (X ++ [a]) := hsub (by rw [hP]; exact List.mem_cons_of_mem _ hx)
      simp at this
      rcases this with h | h | h
      · omega
      · exact hX x h
      · omega

/-- a period through an intermediate maximum splits into two periods -/
theorem rpU_split (M : Int) (X Y : List Int) (hX : ∀ x ∈ X, x ≤ M) (hY : ∀ x ∈ Y, x ≤ M) (k : Nat) :
    rpU (pv true (M :: (X ++ M :: (Y ++ [M])))) k
      = rpU (pv true (M :: (X ++ [M]))) k + rpU (pv true (M :: (Y ++ [M]))) k := by
  have hg := pv_glue (M :: (X ++ [M])) (M :: (Y ++ [M])) M
    (List.getLast?_eq_some_iff.mpr ⟨M :: X, by simp⟩) rfl
  have eg : M :: (X ++ [M]) ++ (M :: (Y ++ [M])).tail = M :: (X ++ M :: (Y ++ [M])) := by simp
  rw [eg] at hg
  rw [← hg]
  -- shapes of the two filtered periods
  have lenX : 2 ≤ (pv true (M :: (X ++ [M]))).length := by
    cases X with
    | nil => exact pv_length_two M M []
    | cons y X => exact pv_length_two M y (X ++ [M])
  have lastX : (pv true (M :: (X ++ [M]))).getLast? = some M := by
    rw [pv_getLast?']; exact List.getLast?_eq_some_iff.mpr ⟨M :: X, by simp⟩
  rcases pv_closed M Y hY with ey | cy
  · -- second period constant
    rw [ey, rpU_short [M, M] (by simp)]
    simp only [List.tail_cons, Nat.add_zero]
    obtain ⟨P1, hP1⟩ := List.getLast?_eq_some_iff.mp lastX
    rcases List.eq_nil_or_concat P1 with e | ⟨P0, a, e⟩
    · rw [hP1, e] at lenX; simp at lenX
    · have e' : P1 = P0 ++ [a] := by simpa using e
      have e1 : pv true (M :: (X ++ [M])) ++ [M] = P0 ++ a :: M :: M :: [] := by
        rw [hP1, e']; simp
      have e2 : pv true (M :: (X ++ [M])) = P0 ++ a :: M :: [] := by rw [hP1, e']; simp
      rw [e1, pv_insert true P0 a M M [] (by unfold Between; omega), ← e2, pv_true_idem]
  · rcases pv_closed M X hX with ex | cx
    · -- first period constant
      rw [ex, rpU_short [M, M] (by simp)]
      obtain ⟨PY', hPY, _, _, hlY⟩ := cy
      rw [hPY]
      simp only [List.tail_cons, List.cons_append, List.nil_append, Nat.zero_add]
      cases PY' with
      | nil =>
        exfalso
        have : (pv true (M :: (Y ++ [M]))).length ≥ 2 := by
          cases Y with
          | nil => exact pv_length_two M M []
          | cons y Y => exact pv_length_two M y (Y ++ [M])
        rw [hPY] at this; simp at this
      | cons c S =>
        have hins := pv_insert true [] M M c S (by unfold Between; omega)
        simp only [List.nil_append] at hins
        rw [hins, ← hPY, pv_true_idem]
    · -- both alternate
      have hz : Zig (pv true (M :: (X ++ [M])) ++ (pv true (M :: (Y ++ [M]))).tail) := by
        obtain ⟨PX', hPX, hzX, hbX, hlX⟩ := cx
        obtain ⟨PY', hPY, hzY, hbY, hlY⟩ := cy
        obtain ⟨P1, hP1⟩ := List.getLast?_eq_some_iff.mp lastX
        rw [hPY, hP1]
        simp only [List.tail_cons]
        have hne1 : P1 ≠ [] := by
          intro e; rw [hP1, e] at lenX; simp at lenX
        have hneY : PY' ≠ [] := by
          intro e
          rw [hPY, e] at hzY
          have : (pv true (M :: (Y ++ [M]))).length ≥ 2 := by
            cases Y with
            | nil => exact pv_length_two M M []
            | cons y Y => exact pv_length_two M y (Y ++ [M])
          rw [hPY, e] at this; simp at this
        have := Zig_glue_max P1 PY' M hne1 hneY (by rw [← hP1]; exact hzX) (by rw [← hPY]; exact hzY)
          (by
            intro v hv
            rcases List.mem_append.mp hv with h | h
            · have : v ∈ pv true (M :: (X ++ [M])) := by rw [hP1]; simp [h]
              rw [hPX] at this
              rcases List.mem_cons.mp this with e | e
              · omega
              · exact hbX v e
            · exact hbY v h)
        simpa using this
      rw [pv_of_zig _ hz]
      exact rpU_closed_append cx cy k


/-! ### `argmax` is the first maximum -/

theorem argmaxGo_ub (xs : List Int) (i : Nat) (m : Int) (best : Nat) (h : ∀ x ∈ xs, x ≤ m) :
    argmaxGo xs i m best = best := by
  induction xs generalizing i with
  | nil => rfl
  | cons x xs ih =>
    have hx : ¬ x > m := by have := h x (by simp); omega
    rw [argmaxGo, if_neg hx]
    exact ih _ (fun y hy => h y (List.mem_cons_of_mem _ hy))

theorem argmaxGo_first (M : Int) (Q : List Int) (hQ : ∀ q ∈ Q, q ≤ M) : ∀ (A : List Int) (i : Nat)
    (m : Int) (best : Nat), (∀ a ∈ A, a < M) → m < M →
    argmaxGo (A ++ M :: Q) i m best = i + A.length
  | [], i, m, best, _, hm => by
    simp only [List.nil_append, List.length_nil, Nat.add_zero]
    rw [argmaxGo, if_pos (by omega), argmaxGo_ub Q _ M i hQ]
  | a :: A, i, m, best, hA, hm => by
    have ha := hA a (by simp)
    have hA' : ∀ a' ∈ A, a' < M := fun a' h => hA a' (List.mem_cons_of_mem _ h)
    simp only [List.cons_append, List.length_cons]
    rw [argmaxGo]
    split
    · rw [argmaxGo_first M Q hQ A (i + 1) a i hA' ha]; omega
    · rw [argmaxGo_first M Q hQ A (i + 1) m best hA' hm]; omega

theorem argmax_first (A Q : List Int) (M : Int) (hA : ∀ a ∈ A, a < M) (hQ : ∀ q ∈ Q, q ≤ M) :
    argmax (A ++ M :: Q) = A.length := by
  cases A with
  | nil => simp only [List.nil_append, argmax, List.length_nil]; exact argmaxGo_ub Q 1 M 0 hQ
  | cons a A =>
    simp only [List.cons_append, argmax, List.length_cons]
    rw [argmaxGo_first M Q hQ A 1 a 0 (fun a' h => hA a' (List.mem_cons_of_mem _ h)) (hA a (by simp))]
    omega

theorem sublist_of_snoc {P H : List Int} {m : Int} (h : (P ++ [m]).Sublist (H ++ [m])) : P.Sublist H := by
  have := List.reverse_sublist.mpr h
  simp only [List.reverse_append, List.reverse_cons, List.reverse_nil, List.nil_append,
    List.cons_append] at this
  exact List.reverse_sublist.mp (List.cons_sublist_cons.mp this)

theorem nonconst_of_mem {h : List Int} {a b : Int} (ha : a ∈ h) (hb : b ∈ h) (hne : a ≠ b) :
    isConstant h = false := by
  cases hc : isConstant h with
  | false => rfl
  | true => exact absurd ((isConstant_iff h).mp hc a ha b hb) hne


/-! ### the repeating-history count of a closed period, in terms of the period cut at its first maximum -/

theorem repeat_rotate (B1 B2 : List Int) (M x : Int) (hx : (B1 ++ M :: B2).head? = some x)
    (h1 : ∀ y ∈ B1, y < M) (h2 : ∀ y ∈ B2, y ≤ M) :
    rainflowRepeat (B1 ++ M :: B2 ++ [x]) = (rpForward [] (pv true (M :: (B2 ++ B1 ++ [M]))) []).2 := by
  cases B1 with
  | nil =>
    have hxM : x = M := by simpa using hx.symm
    subst hxM
    simp only [List.nil_append, List.append_nil]
    have hsub := (pv_sublist true (x :: B2 ++ [x])).subset
    have h0 : argmax (pv true (x :: B2 ++ [x])) = 0 := by
      have hpv : pv true (x :: B2 ++ [x]) = x :: pvGo true x (B2 ++ [x]) := by simp [pv]
      rw [hpv, argmax]
      apply argmaxGo_ub
      intro v hv
      have : v ∈ x :: B2 ++ [x] := hsub (by rw [hpv]; exact List.mem_cons_of_mem _ hv)
      simp at this
      rcases this with e | e | e
      · omega
      · exact h2 v e
      · omega
    rw [C04_repeat_is_forward _ h0]
    simp
  | cons x' B1' =>
    have hxx : x' = x := by simpa using hx
    subst hxx
    have hxM : x' < M := h1 x' (by simp)
    -- the two stretches and their filtered forms
    have cA : isConstant (x' :: B1' ++ [M]) = false :=
      nonconst_of_mem (a := x') (b := M) (by simp) (by simp) (by omega)
    have cB : isConstant (M :: (B2 ++ [x'])) = false :=
      nonconst_of_mem (a := M) (b := x') (by simp) (by simp) (by omega)
    have zA := pv_zig _ cA
    have zB := pv_zig _ cB
    have lastA : (pv true (x' :: B1' ++ [M])).getLast? = some M := by
      rw [pv_getLast?']; exact List.getLast?_eq_some_iff.mpr ⟨x' :: B1', by simp⟩
    have headA : (pv true (x' :: B1' ++ [M])).head? = some x' := by rw [pv_head?']; rfl
    have headB : (pv true (M :: (B2 ++ [x']))).head? = some M := by rw [pv_head?']; rfl
    have lastB : (pv true (M :: (B2 ++ [x']))).getLast? = some x' := by
      rw [pv_getLast?']; exact List.getLast?_eq_some_iff.mpr ⟨M :: B2, by simp⟩
    obtain ⟨PA0, hPA⟩ := List.getLast?_eq_some_iff.mp lastA
    obtain ⟨PB', hPB⟩ : ∃ PB', pv true (M :: (B2 ++ [x'])) = M :: PB' := by
      cases hq : pv true (M :: (B2 ++ [x'])) with
      | nil => rw [hq] at headB; simp at headB
      | cons q PB' => rw [hq] at headB; simp at headB; exact ⟨PB', by rw [headB]⟩
    have hPA0 : ∀ a ∈ PA0, a < M := by
      have hs : (PA0 ++ [M]).Sublist ((x' :: B1') ++ [M]) := by
        rw [← hPA]; exact pv_sublist true _
      intro a ha
      exact h1 a ((sublist_of_snoc hs).subset ha)
    have hPB' : ∀ q ∈ PB', q ≤ M := by
      intro q hq
      have : q ∈ M :: (B2 ++ [x']) := (pv_sublist true _).subset (by rw [hPB]; exact List.mem_cons_of_mem _ hq)
      simp at this
      rcases this with e | e | e
      · omega
      · exact h2 q e
      · omega
    have neA : PA0 ≠ [] := by
      intro e
      rw [hPA, e] at headA
      simp at headA; omega
    have neB : PB' ≠ [] := by
      intro e
      rw [hPB, e] at lastB
      simp at lastB; omega
    -- the reversal sequence of the whole period
    have eh : x' :: B1' ++ M :: B2 ++ [x'] = (x' :: B1' ++ [M]) ++ (M :: (B2 ++ [x'])).tail := by simp
    have hR : pv true (x' :: B1' ++ M :: B2 ++ [x']) = PA0 ++ M :: PB' := by
      have hg := pv_glue (x' :: B1' ++ [M]) (M :: (B2 ++ [x'])) M
        (List.getLast?_eq_some_iff.mpr ⟨x' :: B1', by simp⟩) rfl
      rw [← eh] at hg
      rw [← hg, hPA, hPB]
      simp only [List.tail_cons, List.append_assoc, List.singleton_append]
      apply pv_of_zig
      exact Zig_glue_max PA0 PB' M neA neB (by rw [← hPA]; exact zA) (by rw [← hPB]; exact zB)
        (by
          intro v hv
          rcases List.mem_append.mp hv with e | e
          · have := hPA0 v e; omega
          · exact hPB' v e)
    have hk : argmax (PA0 ++ M :: PB') = PA0.length := argmax_first PA0 PB' M hPA0 hPB'
    unfold rainflowRepeat
    rw [rotateToMax_eq, hR]
    have erot : rotated (PA0 ++ M :: PB') = pv true (M :: (B2 ++ [x'])) ++ (pv true (x' :: B1' ++ [M])).tail := by
      unfold rotated
      rw [hk, hPA, hPB]
      have e1 : (PA0 ++ M :: PB').drop PA0.length = M :: PB' := by simp
      have e2 : (PA0 ++ M :: PB').take (PA0.length + 1) = PA0 ++ [M] := by
        rw [List.take_append]; simp [List.take_of_length_le]
      rw [e1, e2]
      cases PA0 with
      | nil => exact absurd rfl neA
      | cons a t => simp
    rw [erot]
    have hg2 := pv_glue (M :: (B2 ++ [x'])) (x' :: B1' ++ [M]) x'
      (List.getLast?_eq_some_iff.mpr ⟨M :: B2, by simp⟩) rfl
    rw [hg2]
    simp


/-! ### assembling the cut invariance -/

theorem first_occ (M : Int) : ∀ (l : List Int), M ∈ l → ∃ l1 l2, l = l1 ++ M :: l2 ∧ ∀ y ∈ l1, y ≠ M
  | [], h => by cases h
  | a :: l, h => by
    by_cases ha : a = M
    · exact ⟨[], l, by simp [ha], by simp⟩
    · have hl : M ∈ l := by
        rcases List.mem_cons.mp h with e | e
        · exact absurd e.symm ha
        · exact e
      obtain ⟨l1, l2, e, hn⟩ := first_occ M l hl
      refine ⟨a :: l1, l2, by simp [e], ?_⟩
      intro y hy
      rcases List.mem_cons.mp hy with e' | e'
      · rw [e']; exact ha
      · exact hn y e'

theorem rpU_swap (M : Int) (X Y : List Int) (hX : ∀ x ∈ X, x ≤ M) (hY : ∀ x ∈ Y, x ≤ M) (k : Nat) :
    rpU (pv true (M :: (X ++ M :: (Y ++ [M])))) k = rpU (pv true (M :: (Y ++ M :: (X ++ [M])))) k := by
  rw [rpU_split M X Y hX hY, rpU_split M Y X hY hX]; omega

theorem repeat_units (B1 B2 : List Int) (M x : Int) (hx : (B1 ++ M :: B2).head? = some x)
    (h1 : ∀ y ∈ B1, y < M) (h2 : ∀ y ∈ B2, y ≤ M) (k : Nat) :
    unitsAt (rainflowRepeat (B1 ++ M :: B2 ++ [x])) k = rpU (pv true (M :: (B2 ++ B1 ++ [M]))) k := by
  rw [repeat_rotate B1 B2 M x hx h1 h2]; rfl

/-- the same period cut after `U` instead of before it -/
theorem cut_units (U V : List Int) (x y : Int) (hU : U.head? = some x) (hV : V.head? = some y) (k : Nat) :
    unitsAt (rainflowRepeat (V ++ U ++ [y])) k = unitsAt (rainflowRepeat (U ++ V ++ [x])) k := by
  have hne : U ++ V ≠ [] := by cases U <;> simp at hU ⊢
  have hMmem := listMax_mem (U ++ V) hne
  have hub : ∀ v ∈ U ++ V, v ≤ listMax (U ++ V) := fun v hv => le_listMax hv
  generalize listMax (U ++ V) = M at hMmem hub
  have hubU : ∀ v ∈ U, v ≤ M := fun v hv => hub v (List.mem_append_left _ hv)
  have hubV : ∀ v ∈ V, v ≤ M := fun v hv => hub v (List.mem_append_right _ hv)
  have strict : ∀ (l : List Int), (∀ v ∈ l, v ≤ M) → (∀ v ∈ l, v ≠ M) → ∀ v ∈ l, v < M := by
    intro l h1 h2 v hv
    have := h1 v hv; have := h2 v hv; omega
  by_cases hMU : M ∈ U
  · obtain ⟨U1, U2, eU, hn1⟩ := first_occ M U hMU
    subst eU
    have hU1 : ∀ v ∈ U1, v < M :=
      strict U1 (fun v hv => hubU v (by simp [hv])) hn1
    have hU2 : ∀ v ∈ U2, v ≤ M := fun v hv => hubU v (by simp [hv])
    -- the period cut before `U`
    have r1 := repeat_units U1 (U2 ++ V) M x (by
        have : (U1 ++ M :: (U2 ++ V)).head? = (U1 ++ M :: U2).head? := by cases U1 <;> simp
        rw [this]; exact hU) hU1
      (by intro v hv; rcases List.mem_append.mp hv with e | e; exact hU2 v e; exact hubV v e) k
    have e1 : U1 ++ M :: (U2 ++ V) ++ [x] = U1 ++ M :: U2 ++ V ++ [x] := by simp
    rw [e1] at r1
    rw [r1]
    by_cases hMV : M ∈ V
    · obtain ⟨V1, V2, eV, hn2⟩ := first_occ M V hMV
      subst eV
      have hV1 : ∀ v ∈ V1, v < M := strict V1 (fun v hv => hubV v (by simp [hv])) hn2
      have hV2 : ∀ v ∈ V2, v ≤ M := fun v hv => hubV v (by simp [hv])
      have r2 := repeat_units V1 (V2 ++ (U1 ++ M :: U2)) M y (by
          have : (V1 ++ M :: (V2 ++ (U1 ++ M :: U2))).head? = (V1 ++ M :: V2).head? := by
            cases V1 <;> simp
          rw [this]; exact hV) hV1
        (by
          intro v hv
          rcases List.mem_append.mp hv with e | e
          · exact hV2 v e
          · exact hubU v e) k
      have e2 : V1 ++ M :: (V2 ++ (U1 ++ M :: U2)) ++ [y] = V1 ++ M :: V2 ++ (U1 ++ M :: U2) ++ [y] := by
        simp
      rw [e2] at r2
      rw [r2]
      have f1 : M :: (V2 ++ (U1 ++ M :: U2) ++ V1 ++ [M]) = M :: ((V2 ++ U1) ++ M :: ((U2 ++ V1) ++ [M])) := by
        simp
      have f2 : M :: (U2 ++ (V1 ++ M :: V2) ++ U1 ++ [M]) = M :: ((U2 ++ V1) ++ M :: ((V2 ++ U1) ++ [M])) := by
        simp
      rw [f1, f2]
      apply rpU_swap
      · intro v hv
        rcases List.mem_append.mp hv with e | e
        · exact hV2 v e
        · have := hU1 v e; omega
      · intro v hv
        rcases List.mem_append.mp hv with e | e
        · exact hU2 v e
        · have := hV1 v e; omega
    · have hVs : ∀ v ∈ V, v < M := strict V hubV (fun v hv e => hMV (e ▸ hv))
      have r2 := repeat_units (V ++ U1) U2 M y (by
          have : (V ++ U1 ++ M :: U2).head? = V.head? := by
            cases V with
            | nil => simp at hV
            | cons a t => simp
          rw [this]; exact hV)
        (by
          intro v hv
          rcases List.mem_append.mp hv with e | e
          · exact hVs v e
          · exact hU1 v e) hU2 k
      have e2 : V ++ U1 ++ M :: U2 ++ [y] = V ++ (U1 ++ M :: U2) ++ [y] := by simp
      rw [e2] at r2
      rw [r2]
      have f1 : M :: (U2 ++ (V ++ U1) ++ [M]) = M :: (U2 ++ V ++ U1 ++ [M]) := by simp
      rw [f1]
  · have hUs : ∀ v ∈ U, v < M := strict U hubU (fun v hv e => hMU (e ▸ hv))
    have hMV : M ∈ V := by
      rcases List.mem_append.mp hMmem with e | e
      · exact absurd e hMU
      · exact e
    obtain ⟨V1, V2, eV, hn2⟩ := first_occ M V hMV
    subst eV
    have hV1 : ∀ v ∈ V1, v < M := strict V1 (fun v hv => hubV v (by simp [hv])) hn2
    have hV2 : ∀ v ∈ V2, v ≤ M := fun v hv => hubV v (by simp [hv])
    have r1 := repeat_units (U ++ V1) V2 M x (by
        have : (U ++ V1 ++ M :: V2).head? = U.head? := by
          cases U with
          | nil => simp at hU
          | cons a t => simp
        rw [this]; exact hU)
      (by
        intro v hv
        rcases List.mem_append.mp hv with e | e
        · exact hUs v e
        · exact hV1 v e) hV2 k
    have e1 : U ++ V1 ++ M :: V2 ++ [x] = U ++ (V1 ++ M :: V2) ++ [x] := by simp
    rw [e1] at r1
    have r2 := repeat_units V1 (V2 ++ U) M y (by
        have : (V1 ++ M :: (V2 ++ U)).head? = (V1 ++ M :: V2).head? := by cases V1 <;> simp
        rw [this]; exact hV) hV1
      (by
        intro v hv
        rcases List.mem_append.mp hv with e | e
        · exact hV2 v e
        · have := hUs v e; omega) k
    have e2 : V1 ++ M :: (V2 ++ U) ++ [y] = V1 ++ M :: V2 ++ U ++ [y] := by simp
    rw [e2] at r2
    rw [r1, r2]
    have f1 : M :: (V2 ++ U ++ V1 ++ [M]) = M :: (V2 ++ (U ++ V1) ++ [M]) := by simp
    rw [f1]

end FF
