/- The four-point counter is one maximal extraction sequence of the rewriting system of Confl.lean;
the system is symmetric under time reversal.  Core Lean only. -/
import FFVerif.Lemmas.Confl
import FFVerif.Lemmas.Repeat
import FFVerif.Proofs.C03
namespace FF

/-! ### alternation -/

theorem ZigD.alt4 {u : Bool} {a b c d : Int} {S : List Int} (h : ZigD u (a :: b :: c :: d :: S)) :
    Alt4 a b c d := by
  obtain ⟨h1, h2, h3, _⟩ := h
  unfold rel at *; unfold Alt4; cases u <;> simp at * <;> omega

theorem Zig.alt4 {a b c d : Int} {S : List Int} (h : Zig (a :: b :: c :: d :: S)) : Alt4 a b c d := by
  rcases h with h | h <;> exact h.alt4

theorem Step.zigD {L c L'} (s : Step L c L') : ∀ u, ZigD u L → ZigD u L' := by
  induction s with
  | here a b c d S h1 h2 h3 => intro u hu; exact ZigD_remove_after a b c d S hu h3
  | there x s ih =>
    intro u hu
    rename_i L c L'
    match L, s, hu with
    | y :: t, s, hu =>
      obtain ⟨t', e⟩ := s.head y t rfl
      subst e
      exact ⟨hu.1, ih _ hu.2⟩

theorem Step.zig {L c L'} (s : Step L c L') (hz : Zig L) : Zig L' := by
  rcases hz with h | h
  · exact Or.inl (s.zigD _ h)
  · exact Or.inr (s.zigD _ h)

theorem Red.zig {L cs N} (r : Red L cs N) (hz : Zig L) : Zig N := by
  induction r with
  | done _ => exact hz
  | step s _ ih => exact ih (s.zig hz)

/-! ### four-point counting is a maximal extraction sequence -/

theorem fpRound_step : ∀ (l : List Int) (cy : Cyc) (l' : List Int), Zig l →
    fpRound l = some (cy, l') → Step l cy l'
  | a :: b :: c :: d :: rest, cy, l', hz, h => by
    unfold fpRound at h
    split at h
    · rename_i hc
      cases h
      exact Step.here a b c d rest hz.alt4 hc.2 hc.1
    · split at h
      · rename_i cy2 l2 heq
        cases h
        exact Step.there a (fpRound_step _ _ _ (Zig_tail hz) heq)
      · cases h
  | [], _, _, _, h => by simp [fpRound] at h
  | [_], _, _, _, h => by simp [fpRound] at h
  | [_, _], _, _, _, h => by simp [fpRound] at h
  | [_, _, _], _, _, _, h => by simp [fpRound] at h

theorem step_fpRound {L c L'} (s : Step L c L') : ∃ r, fpRound L = some r := by
  induction s with
  | here a b c d S h1 h2 h3 =>
    refine ⟨(⟨b, c, false⟩, a :: d :: S), ?_⟩
    rw [fpRound, if_pos ⟨h3, h2⟩]
  | there x s ih =>
    rename_i L c L'
    obtain ⟨r, hr⟩ := ih
    match L, hr with
    | b :: c :: d :: rest, hr =>
      rw [fpRound]
      split
      · exact ⟨_, rfl⟩
      · rw [hr]; exact ⟨_, rfl⟩
    | [], hr => simp [fpRound] at hr
    | [_], hr => simp [fpRound] at hr
    | [_, _], hr => simp [fpRound] at hr

theorem fpRound_none_normal {L : List Int} (h : fpRound L = none) : Normal L := by
  intro c L' s
  obtain ⟨r, hr⟩ := step_fpRound s
  rw [h] at hr; cases hr

theorem fpGo_red (l : List Int) (out : List Cyc) (hz : Zig l) :
    ∃ cs, Red l cs (fpGo l out).1 ∧ (fpGo l out).2 = out ++ cs := by
  fun_induction fpGo l out with
  | case1 l out cy l' heq ih =>
    have s := fpRound_step l cy l' hz heq
    obtain ⟨cs, r, e⟩ := ih (s.zig hz)
    exact ⟨cy :: cs, Red.step s r, by rw [e]; simp⟩
  | case2 l out heq =>
    exact ⟨[], Red.done (fpRound_none_normal heq), by simp⟩

/-! ### time reversal of the rewriting system -/

theorem Alt4.reverse {a b c d : Int} (h : Alt4 a b c d) : Alt4 d c b a := by
  unfold Alt4 at *; omega

theorem Step.reverse {L c L'} (s : Step L c L') : Step L.reverse c.swap L'.reverse := by
  induction s with
  | here a b c d S h1 h2 h3 =>
    have := (Step.here d c b a [] h1.reverse (by rw [rng_comm c b, rng_comm d c]; exact h3)
      (by rw [rng_comm c b, rng_comm b a]; exact h2)).prepend S.reverse
    simpa [Cyc.swap] using this
  | there x s ih => simpa using ih.append [x]

theorem Cyc.swap_swap (c : Cyc) : c.swap.swap = c := rfl

theorem Normal.reverse {L : List Int} (h : Normal L) : Normal L.reverse := by
  intro c L' s
  have := s.reverse
  rw [List.reverse_reverse] at this
  exact h _ _ this

theorem Red.reverse {L cs N} (r : Red L cs N) : Red L.reverse (cs.map Cyc.swap) N.reverse := by
  induction r with
  | done h => exact Red.done h.reverse
  | step s _ ih => exact Red.step s.reverse ih

theorem unitsAt_map_swap (cs : List Cyc) (k : Nat) : unitsAt (cs.map Cyc.swap) k = unitsAt cs k := by
  have := unitsAt_swap_reverse cs.reverse k
  rw [List.map_reverse, List.reverse_reverse] at this
  rw [this]
  unfold unitsAt
  rw [List.filter_reverse, List.map_reverse, List.sum_reverse]

/-- the residue and the range counts of `L.reverse` are those of `L`, mirrored -/
theorem Red.reverse_confluent {L cs N cs' N'} (r : Red L cs N) (r' : Red L.reverse cs' N') :
    N' = N.reverse ∧ ∀ k, unitsAt cs' k = unitsAt cs k := by
  obtain ⟨e, u⟩ := r'.confluent r.reverse
  exact ⟨e, fun k => by rw [u k, unitsAt_map_swap]⟩

theorem isConstant_iff (h : List Int) : isConstant h = true ↔ ∀ a ∈ h, ∀ b ∈ h, a = b := by
  cases h with
  | nil => simp [isConstant]
  | cons x xs =>
    simp only [isConstant, List.all_eq_true, beq_iff_eq, List.mem_cons]
    constructor
    · intro h a ha b hb
      have e1 : a = x := by rcases ha with rfl | ha; rfl; exact h a ha
      have e2 : b = x := by rcases hb with rfl | hb; rfl; exact h b hb
      rw [e1, e2]
    · intro h y hy
      exact h y (Or.inr hy) x (Or.inl rfl)

theorem isConstant_reverse (h : List Int) : isConstant h.reverse = isConstant h := by
  have : isConstant h.reverse = true ↔ isConstant h = true := by
    rw [isConstant_iff, isConstant_iff]; simp
  cases h1 : isConstant h.reverse <;> cases h2 : isConstant h <;> simp_all

end FF
