/- The accumulation loop of countingRstToCountingMatrix builds the from-to matrix.  Core Lean only. -/
import FFVerif.Props.C07
import FFVerif.Lemmas.Level
namespace FF
open C07

/-- the matrix the property describes: entry (a, b) = total count from `a` to `b` -/
def specMatrix (cs : List Cyc) (keys : List Int) : List (List Nat) :=
  keys.map (fun a => keys.map (fun b => fromTo cs a b))

theorem indexOf_lt (keys : List Int) (x : Int) (hx : x ∈ keys) : indexOf keys x < keys.length := by
  unfold indexOf
  exact List.findIdx_lt_length_of_exists ⟨x, hx, by simp⟩

theorem indexOf_iff (keys : List Int) (hn : keys.Nodup) (x : Int) (hx : x ∈ keys) (r : Nat)
    (hr : r < keys.length) : r = indexOf keys x ↔ keys[r] = x := by
  induction keys generalizing r with
  | nil => cases hx
  | cons k keys ih =>
    have hn' := List.nodup_cons.mp hn
    unfold indexOf
    rw [List.findIdx_cons]
    by_cases hk : k = x
    · subst hk
      simp only [beq_self_eq_true, cond_true]
      cases r with
      | zero => simp
      | succ r =>
        simp only [List.getElem_cons_succ]
        constructor
        · intro h; omega
        · intro h
          exact absurd (h ▸ List.getElem_mem (by simpa using hr)) hn'.1
    · have hx' : x ∈ keys := by
        rcases List.mem_cons.mp hx with h | h
        · exact absurd h.symm hk
        · exact h
      have hbeq : (k == x) = false := by simpa using hk
      simp only [hbeq, cond_false]
      cases r with
      | zero => simp; exact fun h => hk h
      | succ r =>
        simp only [List.getElem_cons_succ]
        have := ih hn'.2 hx' r (by simpa using hr)
        unfold indexOf at this
        omega

theorem fromTo_append (cs cs' : List Cyc) (a b : Int) : fromTo (cs ++ cs') a b = fromTo cs a b + fromTo cs' a b := by
  simp [fromTo, List.filter_append]

theorem fromTo_single (c : Cyc) (a b : Int) : fromTo [c] a b = if c.a = a ∧ c.b = b then c.units else 0 := by
  unfold fromTo
  by_cases h : c.a = a ∧ c.b = b
  · simp [List.filter_cons, h.1, h.2]
  · rw [if_neg h]
    have : (c.a == a && c.b == b) = false := by
      simp only [Bool.and_eq_false_iff, beq_eq_false_iff_ne]
      by_cases h1 : c.a = a
      · right; exact fun h2 => h ⟨h1, h2⟩
      · left; exact h1
    simp [List.filter_cons, this]

theorem matAdd_spec (keys : List Int) (hn : keys.Nodup) (done : List Cyc) (c : Cyc)
    (ha : c.a ∈ keys) (hb : c.b ∈ keys) :
    matAdd (indexOf keys c.a) (indexOf keys c.b) c.units (specMatrix done keys) = specMatrix (done ++ [c]) keys := by
  unfold matAdd specMatrix
  apply List.ext_getElem
  · simp
  · intro r h1 h2
    have hr : r < keys.length := by simpa using h2
    rw [List.getElem_modify]
    simp only [List.getElem_map]
    by_cases hri : indexOf keys c.a = r
    · rw [if_pos hri]
      have hka : keys[r] = c.a := (indexOf_iff keys hn c.a ha r hr).mp hri.symm
      apply List.ext_getElem
      · simp
      · intro j h3 h4
        have hj : j < keys.length := by simpa using h4
        rw [List.getElem_modify]
        simp only [List.getElem_map, fromTo_append, fromTo_single]
        by_cases hji : indexOf keys c.b = j
        · have hkb : keys[j] = c.b := (indexOf_iff keys hn c.b hb j hj).mp hji.symm
          rw [if_pos hji, if_pos ⟨hka.symm, hkb.symm⟩]
        · have hkb : keys[j] ≠ c.b := fun e => hji ((indexOf_iff keys hn c.b hb j hj).mpr e).symm
          rw [if_neg hji, if_neg (fun h => hkb h.2.symm)]; simp
    · rw [if_neg hri]
      have hka : keys[r] ≠ c.a := fun e => hri ((indexOf_iff keys hn c.a ha r hr).mpr e).symm
      apply List.ext_getElem
      · simp
      · intro j h3 h4
        simp only [List.getElem_map, fromTo_append, fromTo_single]
        rw [if_neg (fun h => hka h.1.symm)]; simp

theorem toMatrix_foldl (keys : List Int) (hn : keys.Nodup) (done rest : List Cyc)
    (hr : ∀ c ∈ rest, c.a ∈ keys ∧ c.b ∈ keys) :
    rest.foldl (fun M c => matAdd (indexOf keys c.a) (indexOf keys c.b) c.units M) (specMatrix done keys)
      = specMatrix (done ++ rest) keys := by
  induction rest generalizing done with
  | nil => simp
  | cons c rest ih =>
    have hc := hr c List.mem_cons_self
    simp only [List.foldl_cons]
    rw [matAdd_spec keys hn done c hc.1 hc.2, ih (done ++ [c]) (fun c' h' => hr c' (List.mem_cons_of_mem _ h'))]
    simp

theorem matrixKeys_mem (cs : List Cyc) : ∀ c ∈ cs, c.a ∈ matrixKeys cs ∧ c.b ∈ matrixKeys cs := by
  intro c hc
  unfold matrixKeys
  simp only [mem_sortLevels, List.mem_flatMap]
  exact ⟨⟨c, hc, by simp⟩, ⟨c, hc, by simp⟩⟩

/-- the accumulation loop builds exactly the from-to matrix over the sorted distinct end points -/
theorem toMatrix_eq_spec (cs : List Cyc) : toMatrix cs = (specMatrix cs (matrixKeys cs), matrixKeys cs) := by
  unfold toMatrix
  simp only [Prod.mk.injEq, and_true]
  have hz : (matrixKeys cs).map (fun _ => (matrixKeys cs).map (fun _ => (0 : Nat))) = specMatrix [] (matrixKeys cs) := by
    simp [specMatrix, fromTo]
  rw [hz]
  have hn : (matrixKeys cs).Nodup := (sortLevels_sorted _).nodup
  have := toMatrix_foldl (matrixKeys cs) hn [] cs (matrixKeys_mem cs)
  simpa using this

/-! ### sums -/

def msum (M : List (List Nat)) : Nat := (M.map List.sum).sum

theorem sum_modify_add (row : List Nat) (j u : Nat) (hj : j < row.length) :
    (row.modify j (· + u)).sum = row.sum + u := by
  induction row generalizing j with
  | nil => simp at hj
  | cons v row ih =>
    cases j with
    | zero => simp [List.modify_zero_cons]; omega
    | succ j =>
      rw [List.modify_succ_cons]
      simp only [List.sum_cons, ih j (by simpa using hj)]; omega

theorem msum_matAdd (M : List (List Nat)) (i j u : Nat) (hi : i < M.length)
    (hj : ∀ row ∈ M, j < row.length) : msum (matAdd i j u M) = msum M + u := by
  unfold matAdd msum
  induction M generalizing i with
  | nil => simp at hi
  | cons row M ih =>
    cases i with
    | zero =>
      rw [List.modify_zero_cons]
      simp only [List.map_cons, List.sum_cons, sum_modify_add row j u (hj row List.mem_cons_self)]; omega
    | succ i =>
      rw [List.modify_succ_cons]
      simp only [List.map_cons, List.sum_cons,
        ih i (by simpa using hi) (fun r hr => hj r (List.mem_cons_of_mem _ hr))]; omega

theorem msum_spec (cs : List Cyc) (keys : List Int) (hn : keys.Nodup)
    (hk : ∀ c ∈ cs, c.a ∈ keys ∧ c.b ∈ keys) : msum (specMatrix cs keys) = totalUnits cs := by
  -- by the accumulation loop, one cycle at a time
  have gen : ∀ (rest done : List Cyc), (∀ c ∈ rest, c.a ∈ keys ∧ c.b ∈ keys) →
      msum (specMatrix (done ++ rest) keys) = msum (specMatrix done keys) + totalUnits rest := by
    intro rest
    induction rest with
    | nil => intro done _; simp [totalUnits]
    | cons c rest ih =>
      intro done hr
      have hc := hr c List.mem_cons_self
      have e : done ++ c :: rest = (done ++ [c]) ++ rest := by simp
      rw [e, ih (done ++ [c]) (fun c' h' => hr c' (List.mem_cons_of_mem _ h')),
        ← matAdd_spec keys hn done c hc.1 hc.2,
        msum_matAdd _ _ _ _ (by simpa [specMatrix] using indexOf_lt keys c.a hc.1)
          (by intro row hrow; simp only [specMatrix, List.mem_map] at hrow
              obtain ⟨a, _, rfl⟩ := hrow
              simpa using indexOf_lt keys c.b hc.2)]
      simp [totalUnits]; omega
  have hz : msum (specMatrix [] keys) = 0 := by
    have h1 : ∀ (l : List Int), (l.map (fun _ => (0 : Nat))).sum = 0 := by
      intro l; induction l with
      | nil => rfl
      | cons _ l ih => simpa using ih
    simp only [msum, specMatrix, fromTo, List.filter_nil, List.map_nil, List.sum_nil, List.map_map]
    have : (List.sum ∘ fun (_ : Int) => keys.map (fun _ => (0 : Nat))) = fun _ => 0 := by
      funext a; simp [h1]
    rw [this, h1]
  have := gen cs [] hk
  rw [hz] at this
  simpa using this

end FF
