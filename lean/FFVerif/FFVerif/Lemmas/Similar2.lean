/- Order-based counters (repeating history, Rychlik, Johannesson, level crossing, peak) under
increasing similarities; tables under range scaling.  Core Lean only. -/
import FFVerif.Lemmas.Similar
import FFVerif.Lemmas.Repeat
namespace FF

theorem Inc.le_iff {f} (h : Inc f) (a b : Int) : f a ≤ f b ↔ a ≤ b := by
  have := h.lt_iff b a; omega

theorem Inc.min_map {f} (h : Inc f) (a b : Int) : min (f a) (f b) = f (min a b) := by
  by_cases hab : a ≤ b
  · rw [Int.min_eq_left hab, Int.min_eq_left ((h.le_iff a b).mpr hab)]
  · have hba : b ≤ a := by omega
    rw [Int.min_eq_right hba, Int.min_eq_right ((h.le_iff b a).mpr hba)]

theorem Inc.max_map {f} (h : Inc f) (a b : Int) : max (f a) (f b) = f (max a b) := by
  by_cases hab : a ≤ b
  · rw [Int.max_eq_right hab, Int.max_eq_right ((h.le_iff a b).mpr hab)]
  · have hba : b ≤ a := by omega
    rw [Int.max_eq_left hba, Int.max_eq_left ((h.le_iff b a).mpr hba)]

theorem foldl_min_map {f} (h : Inc f) (l : List Int) (x : Int) : (l.map f).foldl min (f x) = f (l.foldl min x) := by
  induction l generalizing x with
  | nil => rfl
  | cons y l ih => simp only [List.map_cons, List.foldl_cons, h.min_map, ih]

theorem takeWhile_lt_map {f} (h : Inc f) (m : Int) (l : List Int) :
    (l.map f).takeWhile (· < f m) = (l.takeWhile (· < m)).map f := by
  induction l with
  | nil => rfl
  | cons y l ih =>
    have : decide (f y < f m) = decide (y < m) := by simp only [decide_eq_decide]; exact h.lt_iff y m
    simp only [List.map_cons, List.takeWhile_cons, this, ih]
    split <;> rfl

theorem takeWhile_le_map {f} (h : Inc f) (m : Int) (l : List Int) :
    (l.map f).takeWhile (· ≤ f m) = (l.takeWhile (· ≤ m)).map f := by
  induction l with
  | nil => rfl
  | cons y l ih =>
    have : decide (f y ≤ f m) = decide (y ≤ m) := by simp only [decide_eq_decide]; exact h.le_iff y m
    simp only [List.map_cons, List.takeWhile_cons, this, ih]
    split <;> rfl

theorem scanMin_map {f} (h : Inc f) (m : Int) : ∀ side : List Int, scanMin (f m) (side.map f) = f (scanMin m side)
  | [] => rfl
  | [x] => by simp [scanMin, h.min_map]
  | x :: y :: rest => by
    have := takeWhile_lt_map h m (y :: rest)
    simp only [List.map_cons] at this
    simp only [List.map_cons, scanMin, this, foldl_min_map h]

theorem scanMinLe_map {f} (h : Inc f) (m : Int) : ∀ side : List Int, scanMinLe (f m) (side.map f) = f (scanMinLe m side)
  | [] => rfl
  | [x] => by simp [scanMinLe, h.min_map]
  | x :: y :: rest => by
    have := takeWhile_le_map h m (y :: rest)
    simp only [List.map_cons] at this
    simp only [List.map_cons, scanMinLe, this, foldl_min_map h]

theorem peaksGo_map {f} (h : Inc f) (g : List Int → Int → List Int → Option Cyc)
    (hg : ∀ l m r, g (l.map f) (f m) (r.map f) = (g l m r).map (Cyc.map f)) (left right : List Int) :
    peaksGo g (left.map f) (right.map f) = (peaksGo g left right).map (Cyc.map f) := by
  fun_induction peaksGo g left right with
  | case1 cur next rest ih =>
    simp only [List.map_cons, List.map_nil] at ih ⊢
    rw [peaksGo]; exact ih
  | case2 cur next rest x rest1 hp c hc ih =>
    simp only [List.map_cons] at ih ⊢
    have hp' : f cur > f x ∧ f cur > f next := ⟨h x cur hp.1, h next cur hp.2⟩
    have hgc := hg (x :: rest1) cur (next :: rest)
    simp only [List.map_cons, hc, Option.map_some] at hgc
    rw [peaksGo, if_pos hp', hgc]
    simp only [hc, List.map_cons, ih]
  | case3 cur next rest x rest1 hp hc ih =>
    simp only [List.map_cons] at ih ⊢
    have hp' : f cur > f x ∧ f cur > f next := ⟨h x cur hp.1, h next cur hp.2⟩
    have hgc := hg (x :: rest1) cur (next :: rest)
    simp only [List.map_cons, hc, Option.map_none] at hgc
    rw [peaksGo, if_pos hp', hgc]
    simp only [hc, ih]
  | case4 cur next rest x rest1 hp ih =>
    simp only [List.map_cons] at ih ⊢
    have hp' : ¬ (f cur > f x ∧ f cur > f next) := by
      intro hh; exact hp ⟨(h.lt_iff x cur).mp hh.1, (h.lt_iff next cur).mp hh.2⟩
    rw [peaksGo, if_neg hp', ih]
  | case5 t x hne =>
    match t, hne with
    | [], _ => simp [peaksGo]
    | [_], _ => simp [peaksGo]
    | a :: b :: r, hne => exact (hne a b r rfl).elim

theorem rychlik_map {f} (h : Inc f) (hist : List Int) :
    rychlik (hist.map f) = (rychlik hist).map (Cyc.map f) := by
  unfold rychlik
  rw [pv_map true f (Or.inl h)]
  have := peaksGo_map h (fun l m r => some ⟨max (scanMin m l) (scanMinLe m r), m, false⟩)
    (by intro l m r; simp [Cyc.map, scanMin_map h, scanMinLe_map h, h.max_map]) [] (pv true hist)
  simpa using this

theorem johannesson_map {f} (h : Inc f) (hist : List Int) :
    johannesson (hist.map f) = (johannesson hist).map (Cyc.map f) := by
  unfold johannesson
  rw [pv_map true f (Or.inl h)]
  have := peaksGo_map h (fun l m _ => some ⟨scanMin m l, m, false⟩)
    (by intro l m r; simp [Cyc.map, scanMin_map h]) [] (pv true hist)
  simpa using this

theorem argmaxGo_map {f} (h : Inc f) (xs : List Int) (i : Nat) (m : Int) (best : Nat) :
    argmaxGo (xs.map f) i (f m) best = argmaxGo xs i m best := by
  fun_induction argmaxGo xs i m best with
  | case1 i m best => rfl
  | case2 x xs i m best hx ih =>
    simp only [List.map_cons]
    rw [argmaxGo, if_pos (h m x hx), ih]
  | case3 x xs i m best hx ih =>
    simp only [List.map_cons]
    rw [argmaxGo, if_neg (fun hh => hx ((h.lt_iff m x).mp hh)), ih]

theorem argmax_map {f} (h : Inc f) (R : List Int) : argmax (R.map f) = argmax R := by
  cases R with
  | nil => rfl
  | cons x xs => simp [argmax, argmaxGo_map h]

theorem rainflowRepeat_map {k f} (s : Sim k f) (h : Inc f) (hist : List Int) :
    rainflowRepeat (hist.map f) = (rainflowRepeat hist).map (Cyc.map f) := by
  unfold rainflowRepeat rotateToMax
  rw [pv_map true f (Or.inl h), argmax_map h]
  have e : List.drop (argmax (pv true hist)) ((pv true hist).map f) ++
      List.drop 1 (List.take (argmax (pv true hist) + 1) ((pv true hist).map f))
      = (List.drop (argmax (pv true hist)) (pv true hist) ++
          List.drop 1 (List.take (argmax (pv true hist) + 1) (pv true hist))).map f := by
    simp [List.map_drop, List.map_take]
  simp only [e, pv_map true f (Or.inl h)]
  have := rpForward_map s [] (pv true (List.drop (argmax (pv true hist)) (pv true hist) ++
          List.drop 1 (List.take (argmax (pv true hist) + 1) (pv true hist)))) []
  simp only [List.map_nil] at this
  rw [this]

/-! ### level crossing and peak counting -/

theorem insertLevel_map {f} (h : Inc f) (x : Int) (l : List Int) :
    insertLevel (f x) (l.map f) = (insertLevel x l).map f := by
  induction l with
  | nil => rfl
  | cons y t ih =>
    simp only [List.map_cons, insertLevel]
    by_cases h1 : x < y
    · rw [if_pos h1, if_pos (h x y h1)]; rfl
    · rw [if_neg h1, if_neg (fun hh => h1 ((h.lt_iff x y).mp hh))]
      by_cases h2 : x = y
      · subst h2; simp
      · have : f x ≠ f y := by
          intro e
          rcases Int.lt_or_gt_of_ne h2 with hl | hl
          · have := h x y hl; omega
          · have := h y x hl; omega
        rw [if_neg h2, if_neg this, ih]; rfl

theorem sortLevels_map {f} (h : Inc f) (l : List Int) : sortLevels (l.map f) = (sortLevels l).map f := by
  unfold sortLevels
  have : ∀ (l acc : List Int), (l.map f).foldl (fun acc x => insertLevel x acc) (acc.map f)
      = (l.foldl (fun acc x => insertLevel x acc) acc).map f := by
    intro l
    induction l with
    | nil => intro acc; rfl
    | cons x l ih => intro acc; simp only [List.map_cons, List.foldl_cons, insertLevel_map h, ih]
  simpa using this l []

theorem lcSegment_map {f} (h : Inc f) (first : Bool) (ref : Int) (L : List Int) (a b : Int) :
    lcSegment first (f ref) (L.map f) (f a) (f b) = (lcSegment first ref L a b).map f := by
  unfold lcSegment
  simp only [h.min_map, h.max_map, List.filter_map]
  congr 1
  apply List.filter_congr
  intro l _
  have e1 := h.le_iff (min a b) l
  have e2 := h.lt_iff (min a b) l
  have e3 := h.le_iff l (max a b)
  have e4 := h.le_iff a b
  have e5 := h.le_iff ref l
  have e6 := h.lt_iff l ref
  simp only [Function.comp]
  cases first <;> by_cases hab : a ≤ b <;>
    simp only [hab, e4.mpr, if_true, if_false, decide_eq_decide.mpr e1, decide_eq_decide.mpr e2,
      decide_eq_decide.mpr e3, ge_iff_le, decide_eq_decide.mpr e5, decide_eq_decide.mpr e6, not_false_eq_true] <;>
    simp [e4, hab]

theorem lcGo_map {f} (h : Inc f) (ref : Int) (L : List Int) : ∀ (first : Bool) (R : List Int),
    lcGo (f ref) (L.map f) first (R.map f) = (lcGo ref L first R).map f
  | _, [] => by simp [lcGo]
  | _, [_] => by simp [lcGo]
  | first, a :: b :: rest => by
    have ih := lcGo_map h ref L false (b :: rest)
    simp only [List.map_cons] at ih ⊢
    simp only [lcGo, lcSegment_map h, ih, List.map_append]

theorem levelCrossingSeq_map {f} (h : Inc f) (hist : List Int) (ref : Int) (levels : List Int) :
    levelCrossingSeq (hist.map f) (f ref) (levels.map f) = (levelCrossingSeq hist ref levels).map f := by
  unfold levelCrossingSeq
  rw [pv_map true f (Or.inl h), sortLevels_map h, lcGo_map h]

theorem peakGo_map {f} (h : Inc f) (ref : Int) : ∀ l : List Int, peakGo (f ref) (l.map f) = (peakGo ref l).map f
  | [] => rfl
  | [_] => rfl
  | [_, _] => rfl
  | p :: c :: n :: rest => by
    have ih := peakGo_map h ref (c :: n :: rest)
    simp only [List.map_cons] at ih ⊢
    simp only [peakGo, ih]
    have hc : ((f p < f c ∧ f c > f n ∧ f c ≥ f ref) ∨ (f p > f c ∧ f c < f n ∧ f c < f ref)) ↔
        ((p < c ∧ c > n ∧ c ≥ ref) ∨ (p > c ∧ c < n ∧ c < ref)) := by
      have := h.lt_iff p c; have := h.lt_iff n c; have := h.le_iff ref c
      have := h.lt_iff c p; have := h.lt_iff c n; have := h.lt_iff c ref
      constructor <;> intro hh <;> omega
    by_cases hk : (p < c ∧ c > n ∧ c ≥ ref) ∨ (p > c ∧ c < n ∧ c < ref)
    · rw [if_pos hk, if_pos (hc.mpr hk)]; rfl
    · rw [if_neg hk, if_neg (fun hh => hk (hc.mp hh))]

theorem peakSeq_map {f} (h : Inc f) (hist : List Int) (ref : Int) :
    peakSeq (hist.map f) (f ref) = (peakSeq hist ref).map f := by
  unfold peakSeq; rw [pv_map true f (Or.inl h), peakGo_map h]

/-! ### tables under range scaling -/

theorem tblAdd_scale (k : Nat) (hk : 0 < k) (key u : Nat) (t : List (Nat × Nat)) :
    tblAdd (k * key) u (t.map (fun p => (k * p.1, p.2))) = (tblAdd key u t).map (fun p => (k * p.1, p.2)) := by
  induction t with
  | nil => rfl
  | cons a t ih =>
    obtain ⟨k', u'⟩ := a
    simp only [List.map_cons, tblAdd]
    by_cases h1 : key < k'
    · rw [if_pos h1, if_pos (Nat.mul_lt_mul_of_pos_left h1 hk)]; rfl
    · have h1' : ¬ k * key < k * k' := fun hh => h1 (Nat.lt_of_mul_lt_mul_left hh)
      rw [if_neg h1, if_neg h1']
      by_cases h2 : key = k'
      · subst h2; simp
      · have h2' : k * key ≠ k * k' := fun e => h2 (Nat.eq_of_mul_eq_mul_left hk e)
        rw [if_neg h2, if_neg h2', ih]; rfl

theorem table_map {k f} (s : Sim k f) (cs : List Cyc) :
    table (cs.map (Cyc.map f)) = (table cs).map (fun p => (k * p.1, p.2)) := by
  unfold table
  have : ∀ (cs : List Cyc) (t : List (Nat × Nat)),
      (cs.map (Cyc.map f)).foldl (fun t c => tblAdd c.range c.units t) (t.map (fun p => (k * p.1, p.2)))
        = (cs.foldl (fun t c => tblAdd c.range c.units t) t).map (fun p => (k * p.1, p.2)) := by
    intro cs
    induction cs with
    | nil => intro t; rfl
    | cons c cs ih =>
      intro t
      simp only [List.map_cons, List.foldl_cons]
      have e : (Cyc.map f c).range = k * c.range := by simp [Cyc.map, Cyc.range, s.rng_eq]
      have e2 : (Cyc.map f c).units = c.units := rfl
      rw [e, e2, tblAdd_scale k s.kpos, ih]
  simpa using this cs []

end FF
