/- Conservation: the three-point procedure counts R-1 half-units.  Core Lean only. -/
import FFVerif.Lemmas.Rainflow
import FFVerif.Props.Spec
namespace FF

theorem totalUnits_append (a b : List Cyc) : totalUnits (a ++ b) = totalUnits a + totalUnits b := by
  simp [totalUnits]

theorem totalUnits_halves : ∀ l : List Int, totalUnits (halves l) = l.length - 1
  | [] => rfl
  | [_] => rfl
  | a :: b :: rest => by
    have := totalUnits_halves (b :: rest)
    simp only [halves, totalUnits, List.map_cons, List.sum_cons, List.length_cons] at this ⊢
    simp [Cyc.units]; omega

/-- `reduce` conserves  (half-units counted) + (points on the stack) -/
theorem reduce_phi (st : List Int) (out : List Cyc) :
    totalUnits (reduce st out).2 + (reduce st out).1.length = totalUnits out + st.length := by
  fun_induction reduce st out with
  | case1 c b a out h => rfl
  | case2 c b a out h ih =>
    rw [ih, totalUnits_append]; simp [totalUnits, Cyc.units]
  | case3 c b a r rest out h => rfl
  | case4 c b a r rest out h ih =>
    rw [ih, totalUnits_append]; simp [totalUnits, Cyc.units]; omega
  | case5 st out h1 h2 => rfl

theorem reduce_nonempty (st : List Int) (out : List Cyc) (h : 1 ≤ st.length) :
    1 ≤ (reduce st out).1.length := by
  fun_induction reduce st out with
  | case1 c b a out h => simp
  | case2 c b a out h ih => exact ih (by simp)
  | case3 c b a r rest out h => simp
  | case4 c b a r rest out h ih => exact ih (by simp)
  | case5 st out h1 h2 => exact h

theorem astmGo_total (st ps : List Int) (out : List Cyc) :
    totalUnits (astmGo st ps out) = totalUnits out + (st.length + ps.length - 1) := by
  induction ps generalizing st out with
  | nil => rw [astmGo, totalUnits_append, totalUnits_halves]; simp
  | cons p ps ih =>
    rw [astmGo_cons, ih]
    have h1 := reduce_phi (p :: st) out
    have h2 := reduce_nonempty (p :: st) out (by simp)
    simp only [List.length_cons] at h1 ⊢
    omega

theorem astm_total (R : List Int) : totalUnits (astm R) = R.length - 1 := by
  unfold astm; rw [astmGo_total]; simp [totalUnits]

theorem implGo_nil_eq_astm : ∀ R : List Int, implGo [] R true [] = astm R
  | [] => by unfold implGo; simp [astm, astmGo]
  | [x] => by
    unfold implGo; simp only [astm, List.nil_append]
    rw [astmGo_cons, reduce_one]; simp [astmGo]
  | a :: b :: rest => by
    have := implGo_eq_astmGo [] a b rest [] (by simp [Dec])
    simp only [List.isEmpty_nil, List.reverse_nil] at this
    rw [this]
    simp only [astm]
    rw [astmGo_cons, reduce_one, astmGo_cons, reduce_two]

end FF
