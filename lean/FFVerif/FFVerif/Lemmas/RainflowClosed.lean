/- Rainflow: whole cycles are only ever closed hysteresis loops.  Core Lean only.

An instrumented copy of the three-point stack machine records, for each whole cycle `a–b` it
extracts, the two neighbours at extraction time: `r` (before `a`) and `c` (after `b`); the stack
is then `c :: b :: a :: r :: rest`.  Erasing the witnesses gives exactly `astm R`, and every
recorded quadruple satisfies `rng a b ≤ rng b c ∧ rng a b < rng r a`. -/
import FFVerif.Lemmas.Census
import FFVerif.Lemmas.PeakValley
namespace FF

/-- a counted cycle together with the neighbours `(r, c)` at extraction time (whole cycles only) -/
structure WCyc where
  cyc : Cyc
  nb : Option (Int × Int)

/-- `reduce`, recording the neighbours of every whole cycle -/
def reduceW : List Int → List WCyc → List Int × List WCyc
  | [c, b, a], out =>
    if rng b c < rng a b then ([c, b, a], out)
    else reduceW [c, b] (out ++ [⟨⟨a, b, true⟩, none⟩])
  | c :: b :: a :: r :: rest, out =>
    if rng b c < rng a b then (c :: b :: a :: r :: rest, out)
    else reduceW (c :: r :: rest) (out ++ [⟨⟨a, b, false⟩, some (r, c)⟩])
  | st, out => (st, out)
termination_by st _ => st.length

def astmGoW : List Int → List Int → List WCyc → List WCyc
  | st, [], out => out ++ (halves st.reverse).map (fun cy => ⟨cy, none⟩)
  | st, p :: ps, out =>
    let r := reduceW (p :: st) out
    astmGoW r.1 ps r.2

/-- the instrumented three-point procedure -/
def astmW (R : List Int) : List WCyc := astmGoW [] R []

/-- forget the witnesses -/
def erase (ws : List WCyc) : List Cyc := ws.map WCyc.cyc

theorem erase_append (a b : List WCyc) : erase (a ++ b) = erase a ++ erase b := by
  simp [erase]

/-! ### erasing the witnesses gives the uninstrumented machine -/

theorem reduceW_erase (st : List Int) (out : List WCyc) :
    (reduceW st out).1 = (reduce st (erase out)).1 ∧
    erase (reduceW st out).2 = (reduce st (erase out)).2 := by
  fun_induction reduceW st out with
  | case1 c b a out h => rw [reduce]; simp [h]
  | case2 c b a out h ih =>
    rw [reduce]; simp only [h, if_false]
    simpa [erase] using ih
  | case3 c b a r rest out h => rw [reduce]; simp [h]
  | case4 c b a r rest out h ih =>
    rw [reduce]; simp only [h, if_false]
    simpa [erase] using ih
  | case5 st out h1 h2 =>
    rw [reduce]
    · exact ⟨rfl, rfl⟩
    · exact h1
    · exact h2

theorem astmGoW_erase (st ps : List Int) (out : List WCyc) :
    erase (astmGoW st ps out) = astmGo st ps (erase out) := by
  induction ps generalizing st out with
  | nil =>
    rw [astmGoW, astmGo, erase_append]
    simp [erase, Function.comp_def]
  | cons p ps ih =>
    rw [astmGoW, astmGo_cons]
    rw [ih, (reduceW_erase (p :: st) out).1, (reduceW_erase (p :: st) out).2]

theorem astmW_erase (R : List Int) : erase (astmW R) = astm R := by
  unfold astmW astm; rw [astmGoW_erase]; rfl

/-! ### every recorded quadruple is a closed loop -/

/-- half cycles carry no witness; a whole cycle `a–b` carries neighbours `(r, c)` with the range
`a–b` not larger than the following range `b–c` and strictly smaller than the preceding `r–a` -/
def WCyc.closed (w : WCyc) : Prop :=
  (w.cyc.half = true ∧ w.nb = none) ∨
  (w.cyc.half = false ∧ ∃ r c, w.nb = some (r, c) ∧
    rng w.cyc.a w.cyc.b ≤ rng w.cyc.b c ∧ rng w.cyc.a w.cyc.b < rng r w.cyc.a)

/-- on a stack whose part below the newest point has strictly increasing ranges (towards the
older end), `reduceW` records closed loops only and leaves such a stack -/
theorem reduceW_closed (st : List Int) (out : List WCyc) (hd : DecR st.tail)
    (ho : ∀ w ∈ out, w.closed) :
    DecR (reduceW st out).1 ∧ ∀ w ∈ (reduceW st out).2, w.closed := by
  fun_induction reduceW st out with
  | case1 c b a out h => exact ⟨⟨h, by simp [DecR]⟩, ho⟩
  | case2 c b a out h ih =>
    refine ih (by simp [DecR]) ?_
    intro w hw
    rcases List.mem_append.mp hw with hw | hw
    · exact ho w hw
    · simp only [List.mem_singleton] at hw; subst hw
      exact Or.inl ⟨rfl, rfl⟩
  | case3 c b a r rest out h => exact ⟨⟨h, by simpa using hd⟩, ho⟩
  | case4 c b a r rest out h ih =>
    have hd' : DecR (b :: a :: r :: rest) := by simpa using hd
    refine ih (by simpa using DecR_tail (DecR_tail hd')) ?_
    intro w hw
    rcases List.mem_append.mp hw with hw | hw
    · exact ho w hw
    · simp only [List.mem_singleton] at hw; subst hw
      exact Or.inr ⟨rfl, r, c, rfl, by show rng a b ≤ rng b c; omega, hd'.1⟩
  | case5 st out h1 h2 =>
    refine ⟨?_, ho⟩
    match st, h1, h2 with
    | [], _, _ => simp [DecR]
    | [_], _, _ => simp [DecR]
    | [_, _], _, _ => simp [DecR]
    | [c, b, a], h1, _ => exact (h1 c b a rfl).elim
    | c :: b :: a :: r :: rest, _, h2 => exact (h2 c b a r rest rfl).elim

theorem astmGoW_closed (st ps : List Int) (out : List WCyc) (hd : DecR st)
    (ho : ∀ w ∈ out, w.closed) : ∀ w ∈ astmGoW st ps out, w.closed := by
  induction ps generalizing st out with
  | nil =>
    rw [astmGoW]
    intro w hw
    rcases List.mem_append.mp hw with hw | hw
    · exact ho w hw
    · obtain ⟨cy, hcy, rfl⟩ := List.mem_map.mp hw
      refine Or.inl ⟨?_, rfl⟩
      -- every element of `halves` is a half cycle
      have : ∀ (l : List Int) (cy : Cyc), cy ∈ halves l → cy.half = true := by
        intro l
        induction l with
        | nil => intro cy h; simp [halves] at h
        | cons x l ih =>
          cases l with
          | nil => intro cy h; simp [halves] at h
          | cons y l =>
            intro cy h
            simp only [halves, List.mem_cons] at h
            rcases h with rfl | h
            · rfl
            · exact ih cy h
      exact this _ cy hcy
  | cons p ps ih =>
    rw [astmGoW]
    have := reduceW_closed (p :: st) out (by simpa using hd) ho
    exact ih _ _ this.1 this.2

/-- the instrumented three-point procedure counts the same cycles as `astm`, and every whole
cycle it extracts is a closed loop: nested in both neighbouring ranges -/
theorem astmW_closed (R : List Int) :
    erase (astmW R) = astm R ∧ ∀ w ∈ astmW R, w.closed :=
  ⟨astmW_erase R, astmGoW_closed [] R [] (by simp [DecR]) (by simp)⟩

/-- C01, closed-loop clause, for every history: the rainflow count of `h` is the instrumented
three-point count of its reversal sequence with the witnesses erased, and every whole cycle
`a–b` of that count was extracted between neighbours `r` (before `a`) and `c` (after `b`) with
`rng a b ≤ rng b c` and `rng a b < rng r a` -/
theorem C01_whole_closed (h : List Int) :
    erase (astmW (reversals h)) = rainflow h ∧
    ∀ w ∈ astmW (reversals h),
      (w.cyc.half = true ∧ w.nb = none) ∨
      (w.cyc.half = false ∧ ∃ r c, w.nb = some (r, c) ∧
        rng w.cyc.a w.cyc.b ≤ rng w.cyc.b c ∧ rng w.cyc.a w.cyc.b < rng r w.cyc.a) := by
  refine ⟨?_, (astmW_closed (reversals h)).2⟩
  rw [astmW_erase]
  unfold rainflow; rw [implGo_nil_eq_astm, pv_true_eq_reversals]

-- non-vacuity: the ASTM figure-6 history has one closed loop, -1..3 inside 5..-1 and 3..-4
example : (astmW (reversals [-2, 1, -3, 5, -1, 3, -4, 4, -2])).filterMap
    (fun w => w.nb.map (fun n => (n.1, w.cyc.a, w.cyc.b, n.2))) = [(5, -1, 3, -4)] := by
  simp [astmW, astmGoW, reduceW, reversals, dedup, turning, lastD, rng, halves]

end FF
