/- Shape of four-point residues: converging once the ranges start to shrink; a sequence that starts
and ends at its minimum has the residue `[m, M, m]`.  Core Lean only. -/
import FFVerif.Lemmas.ConflRF
import FFVerif.Lemmas.RainflowMax
namespace FF

theorem Normal.tail {x : Int} {L : List Int} (h : Normal (x :: L)) : Normal L :=
  fun _ _ s => h _ _ (Step.there x s)

/-- in a residue, once a range is smaller than its predecessor all later ranges keep shrinking -/
theorem normal_dec : ∀ (T : List Int) (a b c : Int), Normal (a :: b :: c :: T) → Zig (a :: b :: c :: T) →
    rng b c < rng a b → Dec (a :: b :: c :: T)
  | [], a, b, c, _, _, h => ⟨h, by simp [Dec]⟩
  | d :: T, a, b, c, hn, hz, h => by
    have hcd : rng c d < rng b c := by
      refine Classical.byContradiction fun hge => ?_
      exact hn _ _ (Step.here a b c d T hz.alt4 (by omega) (by omega))
    exact ⟨h, normal_dec T b c d hn.tail (Zig_tail hz) hcd⟩

theorem Step.getLast {L c L'} (s : Step L c L') : L'.getLast? = L.getLast? := by
  induction s with
  | here a b c d S _ _ _ => cases S <;> simp [List.getLast?_cons_cons]
  | there x s ih =>
    rename_i L c L'
    have l := s.length
    match L, L', ih, l with
    | y :: t, y' :: t', ih, _ => simp [List.getLast?_cons_cons, ih]
    | [], _, _, l => simp at l
    | _ :: _, [], _, l =>
      obtain ⟨t', e⟩ := s.head _ _ rfl
      cases e

theorem Step.mem {L c L'} (s : Step L c L') : ∀ y ∈ L', y ∈ L := by
  induction s with
  | here a b c d S _ _ _ => intro y hy; simp at hy ⊢; grind
  | there x s ih =>
    intro y hy
    rcases List.mem_cons.mp hy with rfl | hy
    · simp
    · exact List.mem_cons_of_mem _ (ih y hy)

theorem Steps.getLast {L cs M} (s : Steps L cs M) : M.getLast? = L.getLast? := by
  induction s with
  | refl L => rfl
  | step s _ ih => rw [ih, s.getLast]

theorem Steps.mem {L cs M} (s : Steps L cs M) : ∀ y ∈ M, y ∈ L := by
  induction s with
  | refl L => exact fun y hy => hy
  | step s _ ih => exact fun y hy => s.mem y (ih y hy)

theorem Step.head? {L c L'} (s : Step L c L') : L'.head? = L.head? := by
  cases s <;> rfl

theorem Step.length_ge {L c L'} (s : Step L c L') : 2 ≤ L'.length := by
  induction s with
  | here a b c d S _ _ _ => simp
  | there x s ih => simp only [List.length_cons]; omega

theorem Steps.head {L cs M} (s : Steps L cs M) : M.head? = L.head? := by
  induction s with
  | refl L => rfl
  | step s _ ih => rw [ih, s.head?]

theorem Steps.length_ge {L cs M} (s : Steps L cs M) (h : 2 ≤ L.length) : 2 ≤ M.length := by
  induction s with
  | refl L => exact h
  | step s _ ih => exact ih s.length_ge

/-- a residue that starts and ends at a lower bound of its points is `[m, x, m]` -/
theorem normal_closed (N : List Int) (m : Int) (hn : Normal N) (hz : Zig N) (hl : 2 ≤ N.length)
    (hh : N.head? = some m) (ht : N.getLast? = some m) (hb : ∀ y ∈ N, m ≤ y) :
    ∃ x, m < x ∧ N = [m, x, m] := by
  match N, hl with
  | [a, b], _ =>
    simp at hh ht; subst hh; subst ht
    exact absurd rfl (Zig_adj_ne [] _ _ [] hz)
  | [a, x, y], _ =>
    simp at hh ht; subst hh; subst ht
    have := hb x (by simp)
    have := Zig_adj_ne [] _ _ _ hz
    exact ⟨x, by omega, rfl⟩
  | a :: x :: y :: z :: rest, _ =>
    exfalso
    simp at hh; subst hh
    have bx := hb x (by simp)
    have by' := hb y (by simp)
    have hax := Zig_adj_ne [] _ _ _ hz
    have alt := hz.alt4
    have h1 : rng y z < rng x y := by
      refine Classical.byContradiction fun hge => ?_
      refine hn _ _ (Step.here a x y z rest alt ?_ (by omega))
      unfold Alt4 rng at *; omega
    have hd := normal_dec rest x y z hn.tail (Zig_tail hz) h1
    have hyz : y < z := by unfold Alt4 at alt; omega
    match rest, ht, hd, hz with
    | [], ht, _, _ =>
      simp [List.getLast?_cons_cons] at ht; omega
    | w :: rest', ht, hd, hz =>
      have hz2 : Zig (z :: w :: rest') := Zig_suffix [a, x, y] hz
      have alt2 : Alt4 x y z w := (Zig_tail hz).alt4
      have hw : y < w := by
        have := hd.2.1
        unfold Alt4 rng at *; omega
      have hbt : ∀ v ∈ rest', min z w ≤ v ∧ v ≤ max z w := by
        rcases hz2 with h | h
        · exact DecZig_between rest' _ z w h hd.2.2
        · exact DecZig_between rest' _ z w h hd.2.2
      have hmem : a ∈ w :: rest' := by
        have : (w :: rest').getLast? = some a := by
          simpa [List.getLast?_cons_cons] using ht
        exact List.mem_of_getLast? this
      rcases List.mem_cons.mp hmem with e | hm
      · omega
      · have := hbt a hm; omega

end FF
