/- Rychlik's per-peak count is invariant under a four-point extraction, up to the range histogram:
extracting the inner pair `(b, c)` of `a, b, c, d` removes exactly one whole cycle of range
`rng b c` from the Rychlik count of the sequence.  Core Lean only. -/
import FFVerif.Lemmas.ConflFP
import FFVerif.Lemmas.RyBottom
namespace FF

/-! ### the right-hand scan in recursive form -/

/-- minimum of the maximal initial run of values `≤ M`, capped by `M` (recursive form of the
right-hand scan `scanMinLe`) -/
def smLe (M : Int) : List Int → Int
  | [] => M
  | x :: L => if x ≤ M then min x (smLe M L) else M

theorem foldl_takeWhile_le_eq_smLe (M : Int) : ∀ (L : List Int) (n : Int), n ≤ M →
    (L.takeWhile (· ≤ M)).foldl min n = min n (smLe M L)
  | [], n, h => by simp only [List.takeWhile_nil, List.foldl_nil, smLe]; omega
  | y :: L, n, h => by
    by_cases hy : y ≤ M
    · simp only [List.takeWhile_cons, hy, decide_true, if_true, List.foldl_cons, smLe]
      rw [foldl_takeWhile_le_eq_smLe M L (min n y) (by omega)]
      omega
    · simp only [List.takeWhile_cons, hy, decide_false, smLe, if_false]
      simp only [Bool.false_eq_true, if_false, List.foldl_nil]
      omega

theorem scanMinLe_eq_smLe (M n : Int) (r : List Int) (hn : n < M) :
    scanMinLe M (n :: r) = smLe M (n :: r) := by
  have hle : n ≤ M := by omega
  cases r with
  | nil => simp only [scanMinLe, smLe, if_pos hle]
  | cons y r =>
    simp only [scanMinLe]
    rw [foldl_takeWhile_le_eq_smLe M (y :: r) n hle]
    simp only [smLe, if_pos hle]

theorem smLe_cons_le (M x : Int) (L : List Int) (h : x ≤ M) : smLe M (x :: L) = min x (smLe M L) := by
  simp [smLe, h]
theorem smLe_cons_gt (M x : Int) (L : List Int) (h : ¬ x ≤ M) : smLe M (x :: L) = M := by
  simp [smLe, h]
theorem smLe_le (M : Int) : ∀ L : List Int, smLe M L ≤ M
  | [] => by simp [smLe]
  | x :: L => by
    have := smLe_le M L
    simp only [smLe]; split <;> omega
theorem sm_le (M : Int) : ∀ L : List Int, sm M L ≤ M
  | [] => by simp [sm]
  | x :: L => by
    have := sm_le M L
    simp only [sm]; split <;> omega

/-! ### histogram of an append -/

theorem unitsAt_nil (k : Nat) : unitsAt [] k = 0 := by simp [unitsAt]

theorem unitsAt_append (x y : List Cyc) (k : Nat) :
    unitsAt (x ++ y) k = unitsAt x k + unitsAt y k := by
  induction x with
  | nil => simp [unitsAt_nil]
  | cons c x ih => rw [List.cons_append, unitsAt_cons, unitsAt_cons, ih]; omega

theorem unitsAt_swap (x y : Int) (k : Nat) :
    unitsAt [(⟨x, y, false⟩ : Cyc)] k = unitsAt [(⟨y, x, false⟩ : Cyc)] k :=
  unitsAt_single_whole _ _ rfl rfl (by simp only [Cyc.range, rng]; omega) k

/-! ### uniform unfolding of the peak walk -/

/-- what the Rychlik walk emits at the point `cur` -/
def ryEmit : List Int → Int → List Int → List Cyc
  | p :: l, cur, n :: r =>
    if cur > p ∧ cur > n then [⟨max (sm cur (p :: l)) (smLe cur (n :: r)), cur, false⟩] else []
  | _, _, _ => []

theorem ryEmit_nil_left (cur : Int) (R : List Int) : ryEmit [] cur R = [] := by
  simp [ryEmit]
theorem ryEmit_nil_right (left : List Int) (cur : Int) : ryEmit left cur [] = [] := by
  cases left <;> simp [ryEmit]
theorem ryEmit_pos (p : Int) (l : List Int) (cur n : Int) (r : List Int) (h1 : cur > p) (h2 : cur > n) :
    ryEmit (p :: l) cur (n :: r) = [⟨max (sm cur (p :: l)) (smLe cur (n :: r)), cur, false⟩] := by
  simp [ryEmit, h1, h2]
theorem ryEmit_left_ge (p : Int) (l : List Int) (cur : Int) (R : List Int) (h : ¬ cur > p) :
    ryEmit (p :: l) cur R = [] := by
  cases R <;> simp [ryEmit, h]
theorem ryEmit_right_ge (left : List Int) (cur n : Int) (r : List Int) (h : ¬ cur > n) :
    ryEmit left cur (n :: r) = [] := by
  cases left <;> simp [ryEmit, h]

theorem peaksGo_cons (left : List Int) (cur : Int) (R : List Int) :
    peaksGo ryF left (cur :: R) = ryEmit left cur R ++ peaksGo ryF (cur :: left) R := by
  cases R with
  | nil => rw [ryEmit_nil_right]; simp [peaksGo]
  | cons n r =>
    cases left with
    | nil => rw [ryEmit_nil_left]; simp [peaksGo]
    | cons p l =>
      rw [peaksGo]
      by_cases h : cur > p ∧ cur > n
      · rw [if_pos h, ryEmit_pos p l cur n r h.1 h.2]
        simp only [ryF, List.singleton_append]
        rw [scanMin_eq_sm cur p l h.1, scanMinLe_eq_smLe cur n r h.2]
      · rw [if_neg h]
        simp [ryEmit, h]

/-! ### congruences -/

theorem here_cases {a b c d : Int} (hA : Alt4 a b c d) (h1 : rng b c ≤ rng a b)
    (h2 : rng b c ≤ rng c d) :
    (a < b ∧ c < b ∧ c < d ∧ a ≤ c ∧ b ≤ d) ∨ (b < a ∧ b < c ∧ d < c ∧ c ≤ a ∧ d ≤ b) := by
  unfold Alt4 at hA; unfold rng at h1 h2; omega

/-- an extraction to the right of a peak does not change its right-hand scan -/
theorem step_smLe {L : List Int} {c : Cyc} {L' : List Int} (s : Step L c L') :
    ∀ M, smLe M L = smLe M L' := by
  induction s with
  | here a b c d S hA h1 h2 =>
    intro M
    have hc := here_cases hA h1 h2
    simp only [smLe]
    generalize smLe M S = t
    repeat' split
    all_goals omega
  | there x s ih =>
    intro M
    simp only [smLe, ih M]

/-- an extracted pair to the left of a peak does not change its left-hand scan -/
theorem here_sm {a b c d : Int} (hc : (a < b ∧ c < b ∧ c < d ∧ a ≤ c ∧ b ≤ d) ∨
    (b < a ∧ b < c ∧ d < c ∧ c ≤ a ∧ d ≤ b)) (left : List Int) (M : Int) :
    sm M (d :: c :: b :: a :: left) = sm M (d :: a :: left) := by
  simp only [sm]
  generalize sm M left = t
  repeat' split
  all_goals omega

theorem ryEmit_congr_left {l1 l2 : List Int} (h : ∀ M, sm M l1 = sm M l2)
    (hh : l1.head? = l2.head?) (cur : Int) (R : List Int) : ryEmit l1 cur R = ryEmit l2 cur R := by
  cases R with
  | nil => rw [ryEmit_nil_right, ryEmit_nil_right]
  | cons n r =>
    cases l1 with
    | nil =>
      cases l2 with
      | nil => rfl
      | cons q l2 => simp at hh
    | cons p l1 =>
      cases l2 with
      | nil => simp at hh
      | cons q l2 =>
        simp only [List.head?_cons, Option.some.injEq] at hh
        subst hh
        simp only [ryEmit, h cur]

theorem peaksGo_congr_left : ∀ (R : List Int) (l1 l2 : List Int), (∀ M, sm M l1 = sm M l2) →
    l1.head? = l2.head? → peaksGo ryF l1 R = peaksGo ryF l2 R
  | [], l1, l2, _, _ => by simp [peaksGo]
  | cur :: R, l1, l2, h, hh => by
    rw [peaksGo_cons, peaksGo_cons, ryEmit_congr_left h hh]
    rw [peaksGo_congr_left R (cur :: l1) (cur :: l2) (by intro M; simp only [sm, h M]) rfl]

theorem ryEmit_step_right {L : List Int} {c : Cyc} {L' : List Int} (s : Step L c L')
    (left : List Int) (x : Int) : ryEmit left x L = ryEmit left x L' := by
  have hs := step_smLe s x
  cases left with
  | nil => rw [ryEmit_nil_left, ryEmit_nil_left]
  | cons p l =>
    cases s with
    | here a b c d S hA h1 h2 => simp only [ryEmit, hs]
    | there y s' => simp only [ryEmit, hs]

/-! ### the extraction at the head -/

/-- the first point of the quadruple emits the same cycle before and after -/
theorem emit_a {a b c d : Int} (hc : (a < b ∧ c < b ∧ c < d ∧ a ≤ c ∧ b ≤ d) ∨
    (b < a ∧ b < c ∧ d < c ∧ c ≤ a ∧ d ≤ b)) (left S : List Int) :
    ryEmit left a (b :: c :: d :: S) = ryEmit left a (d :: S) := by
  cases left with
  | nil => rw [ryEmit_nil_left, ryEmit_nil_left]
  | cons p l =>
    rcases hc with hc | hc
    · rw [ryEmit_right_ge _ a b _ (by omega), ryEmit_right_ge _ a d _ (by omega)]
    · have e : smLe a (b :: c :: d :: S) = smLe a (d :: S) := by
        simp only [smLe]
        generalize smLe a S = t
        repeat' split
        all_goals omega
      simp only [ryEmit, e]
      have : (a > p ∧ a > b) ↔ (a > p ∧ a > d) := by omega
      simp only [this]

/-- down case `a > b < c > d`: the inner peak `c` closes exactly the extracted cycle -/
theorem emit_c_down {a b c d : Int} (hc : b < a ∧ b < c ∧ d < c ∧ c ≤ a ∧ d ≤ b)
    (left S : List Int) : ryEmit (b :: a :: left) c (d :: S) = [⟨b, c, false⟩] := by
  rw [ryEmit_pos b _ c d S (by omega) (by omega)]
  have e1 : sm c (b :: a :: left) = b := by
    rw [sm_cons_lt c b _ (by omega), sm_cons_ge c a _ (by omega)]; omega
  have e2 : smLe c (d :: S) ≤ d := by
    rw [smLe_cons_le c d _ (by omega)]; omega
  rw [e1]
  have : max b (smLe c (d :: S)) = b := by omega
  rw [this]

/-- up case with `b < d`: the last point emits the same cycle before and after -/
theorem emit_d_up_lt {a b c d : Int} (hc : a < b ∧ c < b ∧ c < d ∧ a ≤ c ∧ b ≤ d) (hbd : b < d)
    (left S : List Int) : ryEmit (c :: b :: a :: left) d S = ryEmit (a :: left) d S := by
  cases S with
  | nil => rw [ryEmit_nil_right, ryEmit_nil_right]
  | cons e S' =>
    have e1 : sm d (c :: b :: a :: left) = sm d (a :: left) := by
      simp only [sm]
      generalize sm d left = t
      repeat' split
      all_goals omega
    simp only [ryEmit, e1]
    have : (d > c ∧ d > e) ↔ (d > a ∧ d > e) := by omega
    simp only [this]

theorem sm_head_le (M a : Int) (left : List Int) (h : a < M) : sm M (a :: left) ≤ a := by
  rw [sm_cons_lt M a _ h]; omega

/-- up case: the inner peak `b` closes the extracted cycle when its right scan stops at `d` -/
theorem emit_b_up {a b c d : Int} (hc : a < b ∧ c < b ∧ c < d ∧ a ≤ c ∧ b ≤ d)
    (left S : List Int) (hr : smLe b (c :: d :: S) = c) :
    ryEmit (a :: left) b (c :: d :: S) = [⟨c, b, false⟩] := by
  rw [ryEmit_pos a _ b c _ (by omega) (by omega), hr]
  have := sm_head_le b a left (by omega)
  have : max (sm b (a :: left)) c = c := by omega
  rw [this]

theorem unitsAt_tie (l c r b : Int) (k : Nat) (h1 : l ≤ c) :
    unitsAt [(⟨max l (min c r), b, false⟩ : Cyc)] k + unitsAt [(⟨max c r, b, false⟩ : Cyc)] k =
      unitsAt [(⟨b, c, false⟩ : Cyc)] k + unitsAt [(⟨max l r, b, false⟩ : Cyc)] k := by
  rw [unitsAt_swap b c]
  by_cases h : r ≤ c
  · have e1 : max l (min c r) = max l r := by omega
    have e2 : max c r = c := by omega
    rw [e1, e2]; omega
  · have e1 : max l (min c r) = c := by omega
    have e2 : max c r = r := by omega
    have e3 : max l r = r := by omega
    rw [e1, e2, e3]

theorem ry_here (a b c d : Int) (S : List Int) (hA : Alt4 a b c d) (h1 : rng b c ≤ rng a b)
    (h2 : rng b c ≤ rng c d) (left : List Int) (hz : Zig (a :: b :: c :: d :: S)) (k : Nat) :
    unitsAt (peaksGo ryF left (a :: b :: c :: d :: S)) k =
      unitsAt [(⟨b, c, false⟩ : Cyc)] k + unitsAt (peaksGo ryF left (a :: d :: S)) k := by
  have hc := here_cases hA h1 h2
  have htail : peaksGo ryF (d :: c :: b :: a :: left) S = peaksGo ryF (d :: a :: left) S :=
    peaksGo_congr_left S _ _ (here_sm hc left) rfl
  rw [peaksGo_cons left a, peaksGo_cons _ b, peaksGo_cons _ c, peaksGo_cons _ d,
    peaksGo_cons left a, peaksGo_cons _ d, htail, emit_a hc left S]
  simp only [unitsAt_append]
  generalize unitsAt (peaksGo ryF (d :: a :: left) S) k = T
  generalize unitsAt (ryEmit left a (d :: S)) k = Ea
  rcases hc with hc | hc
  · -- up case a < b > c < d
    rw [ryEmit_left_ge b _ c _ (by omega)]
    by_cases hbd : b < d
    · rw [emit_d_up_lt hc hbd, emit_b_up hc left S (by
        rw [smLe_cons_le b c _ (by omega), smLe_cons_gt b d _ (by omega)]; omega)]
      rw [unitsAt_swap c b]
      simp only [unitsAt_nil]; omega
    · have hbd : b = d := by omega
      subst hbd
      cases S with
      | nil =>
        rw [ryEmit_nil_right, ryEmit_nil_right, emit_b_up hc left [] (by
          simp only [smLe]; repeat' split
          all_goals omega)]
        rw [unitsAt_swap c b]
        simp only [unitsAt_nil]; omega
      | cons e S' =>
        have hne : b ≠ e := Zig_adj_ne [a, b, c] b e S' hz
        by_cases he : e < b
        · -- the tie: both equal peaks emit
          have hrho : smLe b (e :: S') ≤ e := by
            rw [smLe_cons_le b e _ (by omega)]; omega
          have hlam := sm_head_le b a left (by omega)
          have e1 : smLe b (c :: b :: e :: S') = min c (smLe b (e :: S')) := by
            rw [smLe_cons_le b c _ (by omega), smLe_cons_le b b _ (by omega)]; omega
          have e2 : sm b (c :: b :: a :: left) = c := by
            rw [sm_cons_lt b c _ (by omega), sm_cons_ge b b _ (by omega)]; omega
          rw [ryEmit_pos a _ b c _ (by omega) (by omega), ryEmit_pos c _ b e _ (by omega) he,
            ryEmit_pos a _ b e _ (by omega) he, e1, e2]
          have := unitsAt_tie (sm b (a :: left)) c (smLe b (e :: S')) b k (by omega)
          simp only [unitsAt_nil]; omega
        · rw [ryEmit_right_ge _ b e _ he, ryEmit_right_ge _ b e _ he, emit_b_up hc left (e :: S') (by
            rw [smLe_cons_le b c _ (by omega), smLe_cons_le b b _ (by omega),
              smLe_cons_gt b e _ (by omega)]; omega)]
          rw [unitsAt_swap c b]
          simp only [unitsAt_nil]; omega
  · -- down case a > b < c > d
    rw [ryEmit_left_ge a _ b _ (by omega), emit_c_down hc left S,
      ryEmit_left_ge c _ d _ (by omega), ryEmit_left_ge a _ d _ (by omega)]
    simp only [unitsAt_nil]; omega

/-! ### the main theorems -/

/-- one four-point extraction removes exactly the extracted cycle from the Rychlik histogram -/
theorem ry_step {L : List Int} {c : Cyc} {L' : List Int} (s : Step L c L') :
    ∀ left : List Int, Zig L → ∀ k,
      unitsAt (peaksGo ryF left L) k = unitsAt [c] k + unitsAt (peaksGo ryF left L') k := by
  induction s with
  | here a b c d S hA h1 h2 =>
    intro left hz k
    exact ry_here a b c d S hA h1 h2 left hz k
  | there x s ih =>
    intro left hz k
    rw [peaksGo_cons, peaksGo_cons, unitsAt_append, unitsAt_append, ryEmit_step_right s left x,
      ih (x :: left) (Zig_tail hz) k]
    omega

/-- along a maximal extraction sequence: the Rychlik histogram of a strictly alternating sequence
is the histogram of the extracted cycles plus the Rychlik histogram of the residue -/
theorem ry_red {L : List Int} {cs : List Cyc} {N : List Int} (r : Red L cs N) (hz : Zig L) :
    ∀ k, unitsAt (peaksGo ryF [] L) k = unitsAt cs k + unitsAt (peaksGo ryF [] N) k := by
  induction r with
  | done hn => intro k; rw [unitsAt_nil]; omega
  | @step L c L' cs N s r ih =>
    intro k
    rw [ry_step s [] hz k, ih (s.zig hz) k, unitsAt_cons' c cs]
    omega

end FF
