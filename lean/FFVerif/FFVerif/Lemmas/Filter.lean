/- Peak-valley filter: idempotence, extremes, the keepEnds=false form.  Core Lean only. -/
import FFVerif.Lemmas.Zig
namespace FF

/-- both modes at once: the kept interior points are the turning points of the de-plateaued record -/
theorem pvGo_char' (k : Bool) : ∀ (l : List Int) (p : Int), l ≠ [] →
    pvGo k p l = turning (dedup (p :: l)) ++ (if k then [lastD l p] else [])
  | [], _, h => absurd rfl h
  | [last], p, _ => by
    by_cases h : p = last
    · subst h; cases k <;> simp [pvGo, dedup, turning, lastD]
    · cases k <;> simp [pvGo, dedup, turning, lastD, h]
  | cur :: next :: rest, p, _ => by
    have ih := fun q => pvGo_char' k (next :: rest) q (by simp)
    obtain ⟨t, ht⟩ := dedup_head next rest
    have hl : lastD (cur :: next :: rest) p = lastD (next :: rest) cur := rfl
    have hl2 : ∀ q r, lastD (next :: rest) q = lastD (next :: rest) r := fun _ _ => rfl
    rw [pvGo]
    by_cases hk : (p < cur ∧ cur > next) ∨ (p > cur ∧ cur < next)
    · rw [if_pos hk, ih cur]
      have hpc : p ≠ cur := by omega
      have hcn : cur ≠ next := by omega
      rw [dedup_cons_ne p cur _ hpc, dedup_cons_ne cur next _ hcn, ht, turning, if_pos hk]
      simp [hl]
    · rw [if_neg hk, ih p]
      by_cases hpc : p = cur
      · subst hpc
        rw [dedup_cons_eq]; simp [hl]
      · rw [dedup_cons_ne p cur _ hpc]
        by_cases hcn : cur = next
        · subst hcn
          rw [dedup_cons_eq, dedup_cons_ne p cur _ hpc]
          simp [hl, hl2 p cur]
        · rw [dedup_cons_ne cur next _ hcn, ht, turning, if_neg hk]
          have hpn : p ≠ next := by omega
          rw [dedup_cons_ne p next _ hpn, ht]
          rw [turning_congr p cur next t (by omega) (by omega)]
          simp [hl, hl2 p cur]

/-- `sequencePeakValleyFilter( data, keepEnds=False )` is the list of strict turning points -/
theorem pv_false_eq_turning : ∀ h : List Int, pv false h = turning (dedup h)
  | [] => rfl
  | [x] => by simp [pv, pvGo, dedup, turning]
  | x :: y :: rest => by
    have := pvGo_char' false (y :: rest) x (by simp)
    simp [pv, this]

/-- with both ends kept the output is the ends around the interior turning points -/
theorem pv_true_eq_ends_false (x y : Int) (rest : List Int) :
    pv true (x :: y :: rest) = x :: pv false (x :: y :: rest) ++ [lastD (y :: rest) x] := by
  rw [pv_false_eq_turning, pv_true_eq_reversals]; simp [reversals]

/-! ### idempotence -/

theorem pvGo_head_down (p cur : Int) (rest : List Int) (h : p > cur) :
    ∃ n t, pvGo true p (cur :: rest) = n :: t ∧ n < p := by
  have := pvGo_down _ p cur rest rfl h
  match hh : pvGo true p (cur :: rest) with
  | [] =>
    exfalso
    have : (pvGo true p (cur :: rest)).length ≥ 1 := by
      rw [pvGo_char' true _ _ (by simp)]; simp
    rw [hh] at this; simp at this
  | n :: t =>
    rw [hh] at this
    exact ⟨n, t, rfl, by simpa [ZigD, rel] using this.1⟩

theorem pvGo_head_up (p cur : Int) (rest : List Int) (h : p < cur) :
    ∃ n t, pvGo true p (cur :: rest) = n :: t ∧ n > p := by
  have := pvGo_up _ p cur rest rfl h
  match hh : pvGo true p (cur :: rest) with
  | [] =>
    exfalso
    have : (pvGo true p (cur :: rest)).length ≥ 1 := by
      rw [pvGo_char' true _ _ (by simp)]; simp
    rw [hh] at this; simp at this
  | n :: t =>
    rw [hh] at this
    exact ⟨n, t, rfl, by simpa [ZigD, rel] using this.1⟩

theorem pvGo_idem : ∀ (l : List Int) (p : Int), pvGo true p (pvGo true p l) = pvGo true p l
  | [], _ => by simp [pvGo]
  | [last], _ => by simp [pvGo]
  | cur :: next :: rest, p => by
    rw [pvGo]
    by_cases hk : (p < cur ∧ cur > next) ∨ (p > cur ∧ cur < next)
    · rw [if_pos hk]
      have ih := pvGo_idem (next :: rest) cur
      rcases hk with ⟨h1, h2⟩ | ⟨h1, h2⟩
      · obtain ⟨n, t, e, hn⟩ := pvGo_head_down cur next rest h2
        rw [e] at ih ⊢
        rw [pvGo, if_pos (Or.inl ⟨h1, by omega⟩), ih]
      · obtain ⟨n, t, e, hn⟩ := pvGo_head_up cur next rest h2
        rw [e] at ih ⊢
        rw [pvGo, if_pos (Or.inr ⟨h1, by omega⟩), ih]
    · rw [if_neg hk]; exact pvGo_idem (next :: rest) p

/-- the filter (ends kept) is idempotent -/
theorem pv_true_idem : ∀ h : List Int, pv true (pv true h) = pv true h
  | [] => rfl
  | x :: rest => by simp [pv, pvGo_idem]

/-- for `keepEnds=False` idempotence holds modulo the ends -/
theorem pv_false_of_pv_true (h : List Int) : pv false (pv true h) = pv false h := by
  match h with
  | [] => rfl
  | [x] => simp [pv, pvGo]
  | x :: y :: rest =>
    -- both sides are the interior of `pv true`
    have e1 := pv_true_eq_ends_false x y rest
    have idem := pv_true_idem (x :: y :: rest)
    obtain ⟨z, w, r2, hz⟩ : ∃ z w r2, pv true (x :: y :: rest) = z :: w :: r2 := by
      rw [e1]
      cases pv false (x :: y :: rest) with
      | nil => exact ⟨x, _, [], rfl⟩
      | cons a t => exact ⟨x, a, t ++ [lastD (y :: rest) x], rfl⟩
    have e2 := pv_true_eq_ends_false z w r2
    have e3 : x :: pv false (x :: y :: rest) ++ [lastD (y :: rest) x]
        = z :: pv false (z :: w :: r2) ++ [lastD (w :: r2) z] := by
      rw [← e1, ← e2, ← hz, idem]
    rw [hz]
    have e4 := congrArg List.tail e3
    simp only [List.cons_append, List.tail_cons] at e4
    have h3 := congrArg List.dropLast e4
    rw [List.dropLast_concat, List.dropLast_concat] at h3
    exact h3.symm

/-! ### global extremes are kept -/

theorem pvGo_cover_max : ∀ (l : List Int) (p : Int), ∀ e ∈ l, ∃ k ∈ p :: pvGo true p l, e ≤ k
  | [], _, e, he => by cases he
  | [last], p, e, he => by
    simp only [List.mem_singleton] at he; subst he
    exact ⟨e, by simp [pvGo], Int.le_refl _⟩
  | cur :: next :: rest, p, e, he => by
    rw [pvGo]
    by_cases hk : (p < cur ∧ cur > next) ∨ (p > cur ∧ cur < next)
    · rw [if_pos hk]
      rcases List.mem_cons.mp he with rfl | he
      · exact ⟨e, by simp, Int.le_refl _⟩
      · obtain ⟨k, hk', hle⟩ := pvGo_cover_max (next :: rest) cur e he
        exact ⟨k, List.mem_cons_of_mem _ hk', hle⟩
    · rw [if_neg hk]
      rcases List.mem_cons.mp he with rfl | he
      · by_cases hle : e ≤ p
        · exact ⟨p, by simp, hle⟩
        · obtain ⟨k, hk', hle'⟩ := pvGo_cover_max (next :: rest) p next (by simp)
          exact ⟨k, hk', by omega⟩
      · exact pvGo_cover_max (next :: rest) p e he

theorem pvGo_cover_min : ∀ (l : List Int) (p : Int), ∀ e ∈ l, ∃ k ∈ p :: pvGo true p l, k ≤ e
  | [], _, e, he => by cases he
  | [last], p, e, he => by
    simp only [List.mem_singleton] at he; subst he
    exact ⟨e, by simp [pvGo], Int.le_refl _⟩
  | cur :: next :: rest, p, e, he => by
    rw [pvGo]
    by_cases hk : (p < cur ∧ cur > next) ∨ (p > cur ∧ cur < next)
    · rw [if_pos hk]
      rcases List.mem_cons.mp he with rfl | he
      · exact ⟨e, by simp, Int.le_refl _⟩
      · obtain ⟨k, hk', hle⟩ := pvGo_cover_min (next :: rest) cur e he
        exact ⟨k, List.mem_cons_of_mem _ hk', hle⟩
    · rw [if_neg hk]
      rcases List.mem_cons.mp he with rfl | he
      · by_cases hle : p ≤ e
        · exact ⟨p, by simp, hle⟩
        · obtain ⟨k, hk', hle'⟩ := pvGo_cover_min (next :: rest) p next (by simp)
          exact ⟨k, hk', by omega⟩
      · exact pvGo_cover_min (next :: rest) p e he

theorem listMax_mem : ∀ h : List Int, h ≠ [] → listMax h ∈ h
  | [], hne => absurd rfl hne
  | x :: l, _ => by
    have : ∀ (l : List Int) (m : Int), l.foldl max m = m ∨ l.foldl max m ∈ l := by
      intro l
      induction l with
      | nil => intro m; left; rfl
      | cons y l ih =>
        intro m
        simp only [List.foldl_cons]
        rcases ih (max m y) with h | h
        · rw [h]
          by_cases hmy : m ≤ y
          · right; rw [Int.max_eq_right hmy]; simp
          · left; rw [Int.max_eq_left (by omega)]
        · right; exact List.mem_cons_of_mem _ h
    rcases this l x with h | h
    · simp [listMax, h]
    · simp only [listMax]; exact List.mem_cons_of_mem _ h

theorem listMin_mem : ∀ h : List Int, h ≠ [] → listMin h ∈ h
  | [], hne => absurd rfl hne
  | x :: l, _ => by
    have : ∀ (l : List Int) (m : Int), l.foldl min m = m ∨ l.foldl min m ∈ l := by
      intro l
      induction l with
      | nil => intro m; left; rfl
      | cons y l ih =>
        intro m
        simp only [List.foldl_cons]
        rcases ih (min m y) with h | h
        · rw [h]
          by_cases hmy : m ≤ y
          · left; rw [Int.min_eq_left hmy]
          · right; rw [Int.min_eq_right (by omega)]; simp
        · right; exact List.mem_cons_of_mem _ h
    rcases this l x with h | h
    · simp [listMin, h]
    · simp only [listMin]; exact List.mem_cons_of_mem _ h

/-- the filter keeps the global maximum and minimum of the record -/
theorem pv_true_extremes (h : List Int) :
    listMax (pv true h) = listMax h ∧ listMin (pv true h) = listMin h := by
  match h with
  | [] => exact ⟨rfl, rfl⟩
  | x :: rest =>
    have hne : pv true (x :: rest) ≠ [] := by simp [pv]
    have sub := (pv_sublist true (x :: rest)).subset
    constructor
    · have h1 : listMax (pv true (x :: rest)) ≤ listMax (x :: rest) := le_listMax (sub (listMax_mem _ hne))
      have hm := listMax_mem (x :: rest) (by simp)
      have h2 : listMax (x :: rest) ≤ listMax (pv true (x :: rest)) := by
        rcases List.mem_cons.mp hm with e | e
        · rw [e]; exact le_listMax (by simp [pv])
        · obtain ⟨k, hk, hle⟩ := pvGo_cover_max rest x _ e
          have : k ∈ pv true (x :: rest) := by simpa [pv] using hk
          have := le_listMax this
          omega
      omega
    · have h1 : listMin (x :: rest) ≤ listMin (pv true (x :: rest)) := listMin_le (sub (listMin_mem _ hne))
      have hm := listMin_mem (x :: rest) (by simp)
      have h2 : listMin (pv true (x :: rest)) ≤ listMin (x :: rest) := by
        rcases List.mem_cons.mp hm with e | e
        · rw [e]; exact listMin_le (by simp [pv])
        · obtain ⟨k, hk, hle⟩ := pvGo_cover_min rest x _ e
          have : k ∈ pv true (x :: rest) := by simpa [pv] using hk
          have := listMin_le this
          omega
      omega

end FF
