/- The four-point extraction as a rewriting system on alternating sequences, and its confluence:
every maximal sequence of extractions ends in the same residue and counts the same ranges.
Core Lean only. -/
import FFVerif.Lemmas.Census2
import FFVerif.Lemmas.Table
namespace FF

/-- four consecutive points alternate strictly -/
def Alt4 (a b c d : Int) : Prop := (a < b ∧ b > c ∧ c < d) ∨ (a > b ∧ b < c ∧ c > d)

/-- one four-point extraction anywhere in the sequence: the inner pair `(b, c)` of `a, b, c, d` is
removed when its range is not larger than either neighbouring range -/
inductive Step : List Int → Cyc → List Int → Prop
  | here (a b c d : Int) (S : List Int) : Alt4 a b c d → rng b c ≤ rng a b → rng b c ≤ rng c d →
      Step (a :: b :: c :: d :: S) ⟨b, c, false⟩ (a :: d :: S)
  | there (x : Int) {L : List Int} {c : Cyc} {L' : List Int} : Step L c L' → Step (x :: L) c (x :: L')

/-- nothing can be extracted -/
def Normal (L : List Int) : Prop := ∀ c L', ¬ Step L c L'

/-- a maximal extraction sequence: `L` reduces to the residue `N`, extracting `cs` in this order -/
inductive Red : List Int → List Cyc → List Int → Prop
  | done {L : List Int} : Normal L → Red L [] L
  | step {L : List Int} {c : Cyc} {L' : List Int} {cs : List Cyc} {N : List Int} :
      Step L c L' → Red L' cs N → Red L (c :: cs) N

theorem Step.length {L c L'} (s : Step L c L') : L'.length + 2 = L.length := by
  induction s with
  | here a b c d S _ _ _ => simp
  | there x s ih => simp only [List.length_cons]; omega

theorem Step.head {L c L'} (s : Step L c L') : ∀ x t, L = x :: t → ∃ t', L' = x :: t' := by
  induction s with
  | here a b c d S _ _ _ => intro x t e; cases e; exact ⟨_, rfl⟩
  | there y s ih => intro x t e; cases e; exact ⟨_, rfl⟩

theorem Step.whole {L c L'} (s : Step L c L') : c.half = false := by
  induction s with
  | here a b c d S _ _ _ => rfl
  | there x s ih => exact ih

theorem Step.append {L c L'} (s : Step L c L') (T : List Int) : Step (L ++ T) c (L' ++ T) := by
  induction s with
  | here a b c d S h1 h2 h3 => exact Step.here a b c d (S ++ T) h1 h2 h3
  | there x s ih => exact Step.there x ih

theorem Step.prepend {L c L'} (s : Step L c L') (P : List Int) : Step (P ++ L) c (P ++ L') := by
  induction P with
  | nil => exact s
  | cons x P ih => exact Step.there x ih

/-! ### the diamond property -/

/-- an extraction at the head against any other extraction -/
theorem diamond_here (a b c d : Int) (S : List Int) (h1 : Alt4 a b c d) (h2 : rng b c ≤ rng a b)
    (h3 : rng b c ≤ rng c d) {c2 : Cyc} {L2 : List Int} (s2 : Step (a :: b :: c :: d :: S) c2 L2) :
    (a :: d :: S = L2 ∧ rng b c = c2.range) ∨
    ∃ L3, Step (a :: d :: S) c2 L3 ∧ Step L2 ⟨b, c, false⟩ L3 := by
  cases s2 with
  | here _ _ _ _ _ _ _ _ => exact Or.inl ⟨rfl, rfl⟩
  | there _ s2 =>
    cases s2 with
    | here _ _ _ e S' g1 g2 g3 =>
      -- overlap by three points: the two ranges are equal and `b = d`
      left
      have hbd : b = d := by
        unfold Alt4 rng at *; omega
      subst hbd
      refine ⟨rfl, ?_⟩
      show rng b c = rng c b
      unfold rng; omega
    | there _ s2 =>
      cases s2 with
      | here _ _ e f S' g1 g2 g3 =>
        right
        refine ⟨a :: f :: S', ?_, ?_⟩
        · refine Step.here a d e f S' ?_ ?_ g3
          · unfold Alt4 rng at *; omega
          · unfold rng Alt4 at *; omega
        · refine Step.here a b c f S' ?_ h2 ?_
          · unfold Alt4 rng at *; omega
          · unfold rng Alt4 at *; omega
      | there _ s2 =>
        right
        obtain ⟨S', e⟩ := s2.head d S rfl
        subst e
        exact ⟨a :: d :: S', Step.there a s2, Step.here a b c d S' h1 h2 h3⟩

theorem diamond {L c1 L1 c2 L2} (s1 : Step L c1 L1) (s2 : Step L c2 L2) :
    (L1 = L2 ∧ c1.range = c2.range) ∨ ∃ L3, Step L1 c2 L3 ∧ Step L2 c1 L3 := by
  induction s1 generalizing c2 L2 with
  | here a b c d S h1 h2 h3 => exact diamond_here a b c d S h1 h2 h3 s2
  | there x s1 ih =>
    cases s2 with
    | here _ b c d S h1 h2 h3 =>
      rcases diamond_here x b c d S h1 h2 h3 (Step.there x s1) with ⟨e, r⟩ | ⟨L3, t1, t2⟩
      · exact Or.inl ⟨e.symm, r.symm⟩
      · exact Or.inr ⟨L3, t2, t1⟩
    | there _ s2 =>
      rcases ih s2 with ⟨e, r⟩ | ⟨L3, t1, t2⟩
      · exact Or.inl ⟨by rw [e], r⟩
      · exact Or.inr ⟨x :: L3, Step.there x t1, Step.there x t2⟩

/-! ### termination and confluence -/

theorem red_exists : ∀ (n : Nat) (L : List Int), L.length ≤ n → ∃ cs N, Red L cs N
  | 0, L, h => by
    refine ⟨[], L, Red.done ?_⟩
    intro c L' s
    have := s.length; omega
  | n + 1, L, h => by
    by_cases hs : ∃ c L', Step L c L'
    · obtain ⟨c, L', s⟩ := hs
      obtain ⟨cs, N, r⟩ := red_exists n L' (by have := s.length; omega)
      exact ⟨c :: cs, N, Red.step s r⟩
    · exact ⟨[], L, Red.done (fun c L' s => hs ⟨c, L', s⟩)⟩

theorem unitsAt_cons' (c : Cyc) (cs : List Cyc) (k : Nat) :
    unitsAt (c :: cs) k = unitsAt [c] k + unitsAt cs k := by
  rw [unitsAt_cons, unitsAt_cons]; simp [unitsAt]

theorem unitsAt_single_whole (c c' : Cyc) (hc : c.half = false) (hc' : c'.half = false)
    (hr : c.range = c'.range) (k : Nat) : unitsAt [c] k = unitsAt [c'] k := by
  rw [unitsAt_cons, unitsAt_cons]; simp [Cyc.units, hc, hc', hr]

/-- any two maximal extraction sequences from the same sequence end in the same residue and count
the same number of cycles at every range -/
theorem red_confluent : ∀ (n : Nat) (L : List Int), L.length ≤ n →
    ∀ cs N cs' N', Red L cs N → Red L cs' N' → N = N' ∧ ∀ k, unitsAt cs k = unitsAt cs' k
  | 0, L, h, cs, N, cs', N', r1, r2 => by
    cases r1 with
    | done _ =>
      cases r2 with
      | done _ => exact ⟨rfl, fun _ => rfl⟩
      | step s _ => have := s.length; omega
    | step s _ => have := s.length; omega
  | n + 1, L, h, cs, N, cs', N', r1, r2 => by
    cases r1 with
    | done hn =>
      cases r2 with
      | done _ => exact ⟨rfl, fun _ => rfl⟩
      | step s _ => exact absurd s (hn _ _)
    | step s1 r1 =>
      cases r2 with
      | done hn => exact absurd s1 (hn _ _)
      | step s2 r2 =>
        rename_i c1 L1 cs1 c2 L2 cs2
        have l1 := s1.length
        have l2 := s2.length
        rcases diamond s1 s2 with ⟨e, hr⟩ | ⟨L3, t1, t2⟩
        · subst e
          obtain ⟨eN, eU⟩ := red_confluent n L1 (by omega) _ _ _ _ r1 r2
          refine ⟨eN, fun k => ?_⟩
          rw [unitsAt_cons' c1, unitsAt_cons' c2, eU k,
            unitsAt_single_whole c1 c2 s1.whole s2.whole hr k]
        · obtain ⟨cs3, N3, r3⟩ := red_exists L3.length L3 (Nat.le_refl _)
          obtain ⟨eN1, eU1⟩ := red_confluent n L1 (by omega) _ _ _ _ r1 (Red.step t1 r3)
          obtain ⟨eN2, eU2⟩ := red_confluent n L2 (by omega) _ _ _ _ r2 (Red.step t2 r3)
          refine ⟨by rw [eN1, eN2], fun k => ?_⟩
          rw [unitsAt_cons' c1, unitsAt_cons' c2, eU1 k, eU2 k, unitsAt_cons' c2 cs3,
            unitsAt_cons' c1 cs3]
          omega

theorem Red.confluent {L cs N cs' N'} (r1 : Red L cs N) (r2 : Red L cs' N') :
    N = N' ∧ ∀ k, unitsAt cs k = unitsAt cs' k :=
  red_confluent L.length L (Nat.le_refl _) _ _ _ _ r1 r2

theorem Red.exists (L : List Int) : ∃ cs N, Red L cs N := red_exists L.length L (Nat.le_refl _)

theorem Red.normal {L cs N} (r : Red L cs N) : Normal N := by
  induction r with
  | done h => exact h
  | step _ _ ih => exact ih

end FF
