/-
C03 — counts depend only on the reversals and respect the load symmetries.
Executable relations between the outputs on a history and on its transformed copy.
-/
import FFVerif.Props.Spec
namespace FF.C03

/-- the second table is the first with every range multiplied by `c` (c = 1: unchanged) -/
def tableScaledOK (c : Nat) (t t' : List (Nat × Nat)) : Bool := t' == t.map (fun p => (c * p.1, p.2))

/-- event tables (level crossing, peak counting): levels mapped by `x ↦ c*x + d` -/
def eventsMappedOK (c d : Int) (t t' : List (Int × Nat)) : Bool := t' == t.map (fun p => (c * p.1 + d, p.2))

end FF.C03
