/-
C02 — every counter returns a consistent, bounded, conserved census.  Executable predicates.
-/
import FFVerif.Props.Spec
namespace FF.C02

inductive Counter | simple | rainflow | rangepair | repeating | fourpoint | rychlik | johannesson
deriving DecidableEq, Repr

def Counter.ofString? : String → Option Counter
  | "simple" => some .simple | "rainflow" => some .rainflow | "rangepair" => some .rangepair
  | "repeat" => some .repeating | "fourpoint" => some .fourpoint | "rychlik" => some .rychlik
  | "johannesson" => some .johannesson | _ => none

/-- the model of each counter -/
def Counter.run : Counter → List Int → List Cyc
  | .simple => simpleRange | .rainflow => FF.rainflow | .rangepair => rangePair
  | .repeating => rainflowRepeat | .fourpoint => fourPoint | .rychlik => FF.rychlik
  | .johannesson => FF.johannesson

/-- counters whose total is exactly (R-1)/2 -/
def Counter.exact : Counter → Bool
  | .simple | .rainflow => true
  | _ => false

def histogramOK (cs : List Cyc) (t : List (Nat × Nat)) : Bool := isHistogram cs t

/-- every counted range lies in (0, max - min] -/
def rangesOK (h : List Int) (cs : List Cyc) : Bool :=
  cs.all (fun c => 0 < c.range && c.range ≤ span h)

/-- every cycle's end points are reversal values of the input -/
def endpointsOK (h : List Int) (cs : List Cyc) : Bool :=
  cs.all (fun c => (reversals h).contains c.a && (reversals h).contains c.b)

/-- total count ≤ (R-1)/2, with equality for simple-range and rainflow -/
def totalOK (k : Counter) (h : List Int) (cs : List Cyc) : Bool :=
  if k.exact then totalUnits cs + 1 == (reversals h).length
  else totalUnits cs + 1 ≤ (reversals h).length

/-- whole cycles only for the other five -/
def wholesOK (k : Counter) (cs : List Cyc) : Bool :=
  k.exact || cs.all (fun c => !c.half)

/-- range-pair leaves at most one uncounted range -/
def leftoverOK (k : Counter) (h : List Int) (cs : List Cyc) : Bool :=
  k != .rangepair || (reversals h).length ≤ totalUnits cs + 2

def failing (k : Counter) (h : List Int) (cs : List Cyc) (t : List (Nat × Nat)) : List String :=
  (if histogramOK cs t then [] else ["histogram"]) ++
  (if rangesOK h cs then [] else ["ranges"]) ++
  (if endpointsOK h cs then [] else ["endpoints"]) ++
  (if totalOK k h cs then [] else ["total"]) ++
  (if wholesOK k cs then [] else ["wholes"]) ++
  (if leftoverOK k h cs then [] else ["leftover"])

end FF.C02
