/-
C01 — executable property predicates.  Used (a) in the theorems of Proofs/C01.lean, about the model,
for every history; (b) by the driver, evaluated on what the *implementation* returned.
-/
import FFVerif.Props.Spec
namespace FF.C01

/-- the cycle list is, as a multiset, the three-point procedure on the reversal sequence -/
def multisetOK (h : List Int) (cs : List Cyc) : Bool := cs.isPerm (astm (reversals h))

/-- the aggregated table is the histogram of the cycle list -/
def tableOK (cs : List Cyc) (t : List (Nat × Nat)) : Bool := isHistogram cs t

/-- counts total (R-1)/2, i.e. R-1 half-units -/
def totalOK (h : List Int) (cs : List Cyc) : Bool := totalUnits cs + 1 == (reversals h).length

/-- the largest counted range is the overall range of the history -/
def maxRangeOK (h : List Int) (t : List (Nat × Nat)) : Bool :=
  match t.getLast? with
  | some p => p.1 == span h
  | none => false

/-- a from-to matrix (non-zero entries) encodes the three-point count of the history -/
def matrixOK (h : List Int) (m : List (Int × Int × Nat)) : Bool := isFromTo (astm (reversals h)) m

/-- names of the clauses that fail on this input/output pair (empty = property holds here) -/
def failing (h : List Int) (cs : List Cyc) (t : List (Nat × Nat)) : List String :=
  (if multisetOK h cs then [] else ["multiset"]) ++
  (if tableOK cs t then [] else ["table"]) ++
  (if totalOK h cs then [] else ["total"]) ++
  (if maxRangeOK h t then [] else ["maxrange"])

end FF.C01
