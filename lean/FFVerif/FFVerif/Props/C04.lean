/-
C04 — counting methods agree on closed histories; the repeating count ignores the cut.
Executable predicates, evaluated on the implementation's outputs.
-/
import FFVerif.Props.Spec
namespace FF.C04

/-- first = last = a global extreme -/
def closedAtExtreme (h : List Int) : Bool :=
  match h with
  | [] => false
  | x :: _ => h.getLast? == some x && (x == listMax h || x == listMin h)

def wholes (cs : List Cyc) : List Cyc := cs.filter (fun c => !c.half)

/-- (a) rainflow, range-pair and repeating-history tables coincide -/
def agreeOK (tRF tRP tRep : List (Nat × Nat)) : Bool := tRF == tRP && tRF == tRep

/-- (b) four-point = that table minus the single max-min closing cycle -/
def fourPointMinusOK (h : List Int) (tRF t4 : List (Nat × Nat)) : Bool := tblAdd (span h) 2 t4 == tRF

/-- (d) four-point cycles plus half cycles for the leftover ranges reproduce the rainflow table;
the leftover is taken from the model, whose cycle list must coincide with the implementation's -/
def residueOK (h : List Int) (cs4 : List Cyc) (tRF : List (Nat × Nat)) : Bool :=
  let full := fourPointFull h
  cs4 == full.2 && table (cs4 ++ halves full.1) == tRF

/-- does any comparison made by the three-point loop tie (`X = Y`)? -/
def rfTie (A B : List Int) (flag : Bool) : Bool :=
  match B with
  | a :: b :: c :: rest =>
    if rng b c = rng a b then true
    else if rng b c > rng a b then
      (if flag then rfTie [] (b :: c :: rest) true else rfTie [] (A ++ c :: rest) true)
    else rfTie (A ++ [a]) (b :: c :: rest) false
  | _ => false
termination_by (A.length + B.length, B.length)
decreasing_by
  all_goals simp_wf
  all_goals simp only [Prod.lex_def]
  all_goals simp
  all_goals omega

/-- does any comparison made by the four-point rule tie on the way? (conservative: any two
adjacent ranges of any intermediate sequence that are compared) -/
def fpTieRound : List Int → Bool
  | a :: b :: c :: d :: rest =>
    rng c d == rng b c || rng a b == rng b c ||
      (if rng c d ≥ rng b c ∧ rng a b ≥ rng b c then false else fpTieRound (b :: c :: d :: rest))
  | _ => false

def fpTie (l : List Int) : Bool :=
  fpTieRound l || (match h : fpRound l with
    | some (_, l') => fpTie l'
    | none => false)
termination_by l.length
decreasing_by have := fpRound_length l _ _ h; omega

def noTies (h : List Int) : Bool := !rfTie [] (reversals h) true && !fpTie (reversals h)

/-- (e) four-point = rainflow whole cycles when no compared ranges tie -/
def noTieOK (h : List Int) (csRF cs4 : List Cyc) : Bool := !noTies h || table cs4 == table (wholes csRF)

/-- (f) range-pair contains the rainflow whole cycles -/
def containsOK (csRF csRP : List Cyc) : Bool :=
  (wholes csRF).all (fun c => unitsAt (wholes csRF) c.range ≤ unitsAt csRP c.range)

end FF.C04
