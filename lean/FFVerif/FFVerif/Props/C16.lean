/-
C16 — generated ARMA-family and random-walk sequences obey their model equations.
Executable predicates: the documented recurrences as conditions on an output sequence.
-/
import FFVerif.Model.Arma
namespace FF.C16
open FF.Arma

/-- `Σ_{k < coef.length, k < avail} coef[k] * term k` : lags that would reach before the start read as 0 -/
def lags (coef : List Int) (avail : Nat) (term : Nat → Int) : Int :=
  ((List.range coef.length).filter (· < avail)).foldl (fun acc k => acc + at' coef k * term k) 0

def allIdx (N : Nat) (P : Nat → Bool) : Bool := (List.range N).all P

/-- AR: begins with the observations, then x_t = e_t + Σ φ_k x_{t-1-k} -/
def arOK (N : Nat) (obs phis eps out : List Int) : Bool :=
  out.length == N && allIdx N (fun t =>
    at' out t == (if t < obs.length then at' obs t
      else at' eps t + lags phis t (fun k => at' out (t - 1 - k))))

/-- MA: x_t = c + e_t + Σ_{k<q, k<t} θ_k e_{t-1-k} -/
def maOK (N : Nat) (c : Int) (thetas eps out : List Int) : Bool :=
  out.length == N && allIdx N (fun t =>
    at' out t == c + at' eps t + lags thetas t (fun k => at' eps (t - 1 - k)))

/-- ARMA: both sums, missing lags read as 0 -/
def armaOK (N : Nat) (obs phis thetas eps out : List Int) : Bool :=
  out.length == N && allIdx N (fun t =>
    at' out t == (if t < obs.length then at' obs t
      else at' eps t + lags phis t (fun k => at' out (t - 1 - k)) + lags thetas t (fun k => at' eps (t - 1 - k))))

/-- ARIMA: the AR sum acts on first differences d_s = x_s - x_{s-1} (s ≥ 1) -/
def arimaOK (N : Nat) (c : Int) (phis thetas eps out : List Int) : Bool :=
  out.length == N && allIdx N (fun t =>
    at' out t == c + at' eps t + lags phis (t - 1) (fun k => at' out (t - 1 - k) - at' out (t - 2 - k))
      + lags thetas t (fun k => at' eps (t - 1 - k)))

/-- walk: origin first, numSteps+1 points of dimension dim, each step changes exactly one coordinate by ±1 -/
def stepOK (a b : List Int) : Bool :=
  a.length == b.length &&
    ((a.zip b).filter (fun p => p.1 != p.2)).length == 1 &&
    (a.zip b).all (fun p => p.1 == p.2 || p.2 - p.1 == 1 || p.2 - p.1 == -1)

def pathOK : List (List Int) → Bool
  | a :: b :: rest => stepOK a b && pathOK (b :: rest)
  | _ => true

def walkOK (numSteps dim : Nat) (path : List (List Int)) : Bool :=
  path.length == numSteps + 1 && path.head? == some (List.replicate dim 0) && pathOK path

end FF.C16
