/-
C09 — mean-stress corrections satisfy their defining equations.  Generic-scalar residuals: evaluated
at Float on the implementation's result, proved to vanish at the reals for the translated functions.
-/
import FFVerif.Model.Scalar
namespace FF.C09
section
variable {α : Type} [Transc α]

def two : α := Transc.lit 2 0
def one : α := Transc.lit 1 0

/-- Goodman / Soderberg: `sa/s + sm/strength - 1/n` -/
def linearResidual (lo hi strength n s : α) : α :=
  ((hi - lo) / two) / s + ((lo + hi) / two) / strength - one / n

/-- Gerber: `n*sa/s + (n*sm/su)^2 - 1` -/
def gerberResidual (lo hi su n s : α) : α :=
  n * ((hi - lo) / two) / s + Transc.npow (n * ((lo + hi) / two) / su) 2 - one

end
end FF.C09
