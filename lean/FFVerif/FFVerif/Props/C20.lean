/-
C20 — central-difference weights: the moment conditions, and an exact rational solver whose
answer is checked against them (used to validate `centralDiffWeights`).  Core Lean only.
-/
namespace FF.C20

def fact : Nat → Nat
  | 0 => 1
  | n + 1 => (n + 1) * fact n

/-- stencil node of position `k` in an `m`-point central stencil -/
def node (m k : Nat) : Int := (k : Int) - ((m / 2 : Nat) : Int)

/-- `Σ_k w_k * node_k ^ j` -/
def moment (m : Nat) (num : List Int) (j : Nat) : Int :=
  ((List.range num.length).zip num).foldl (fun acc p => acc + p.2 * (node m p.1) ^ j) 0

/-- `Σ_k (num_k/den) k^j = n! [j = n]` for all `j < m` -/
def momentOK (n m : Nat) (num : List Int) (den : Int) : Bool :=
  num.length == m && (List.range m).all (fun j => moment m num j == (if j = n then den * (fact n : Int) else 0))

/-! ### exact solve over the rationals -/

def momentRat (m : Nat) (w : Array Rat) (j : Nat) : Rat :=
  (List.range w.size).foldl (fun acc k => acc + w[k]! * ((node m k : Int) : Rat) ^ j) 0

def momentOKRat (n m : Nat) (w : Array Rat) : Bool :=
  w.size == m && (List.range m).all (fun j => momentRat m w j == (if j = n then ((fact n : Nat) : Rat) else 0))

/-- Gauss–Jordan elimination on the augmented matrix; `none` if singular -/
def gaussJordan (A : Array (Array Rat)) : Option (Array (Array Rat)) := Id.run do
  let m := A.size
  let mut M := A
  for c in [0:m] do
    -- find a pivot row
    let mut piv := m
    for r in [c:m] do
      if piv == m && M[r]![c]! != 0 then piv := r
    if piv == m then return none
    let rowP := M[piv]!
    M := M.set! piv M[c]!
    M := M.set! c rowP
    let p := M[c]![c]!
    M := M.set! c (M[c]!.map (· / p))
    for r in [0:m] do
      if r != c then
        let f := M[r]![c]!
        if f != 0 then
          let rc := M[c]!
          M := M.set! r ((M[r]!.zip rc).map (fun x => x.1 - f * x.2))
  return some M

/-- weights of the `m`-point central formula for the `n`-th derivative: the solution of the
moment system, computed exactly -/
def exactWeights (m n : Nat) : Option (Array Rat) :=
  let A : Array (Array Rat) := (Array.range m).map (fun j =>
    ((Array.range m).map (fun k => ((node m k : Int) : Rat) ^ j)).push (if j = n then ((fact n : Nat) : Rat) else 0))
  (gaussJordan A).map (fun M => M.map (fun row => row[m]!))

end FF.C20
