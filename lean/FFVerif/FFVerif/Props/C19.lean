/-
C19 — signal-conditioning utilities never invent data and bound their distortion.
Executable predicates (evaluated on the implementation's outputs and proved of the models).
-/
import FFVerif.Props.Spec
import FFVerif.Model.Signal
namespace FF.C19

def isSublist : List Int → List Int → Bool
  | [], _ => true
  | _ :: _, [] => false
  | a :: as, b :: bs => if a == b then isSublist as bs else isSublist (a :: as) bs

/-! ### peak-valley filter -/

/-- the output is the sequence of strictly alternating turning points (plus both ends when asked) -/
def pvSpecOK (keepEnds : Bool) (h out : List Int) : Bool :=
  out == (if keepEnds then reversals h else turning (dedup h))

def pvSubOK (h out : List Int) : Bool := isSublist out h

/-- global extremes survive (ends kept) -/
def pvExtremesOK (h out : List Int) : Bool := listMax out == listMax h && listMin out == listMin h

def failingPv (keepEnds : Bool) (h out again : List Int) : List String :=
  (if pvSpecOK keepEnds h out then [] else ["turning-points"]) ++
  (if pvSubOK h out then [] else ["subsequence"]) ++
  (if !keepEnds || pvExtremesOK h out then [] else ["extremes"]) ++
  (if again == out then [] else ["idempotent"])

/-! ### hysteresis filter -/

def natAbsDiff (a b : Int) : Nat := (a - b).natAbs

/-- forward reachability: after reading a prefix of `h`, the set of `j` such that the prefix can be
matched to `out[0..j)` with every dropped point strictly inside the gate of the last kept point -/
def embedStep (gate : Int) (out : Array Int) (x : Int) (S : List Nat) : List Nat :=
  let keep := S.filterMap (fun j => if out[j]? == some x then some (j + 1) else none)
  let drop := S.filter (fun j => j ≥ 1 && (match out[j - 1]? with
    | some l => decide ((natAbsDiff x l : Int) < gate)
    | none => false))
  (keep ++ drop).eraseDups

def embedOK (gate : Int) (h out : List Int) : Bool :=
  (h.foldl (fun S x => embedStep gate out.toArray x S) [0]).contains out.length

def failingHyst (h : List Int) (gate : Int) (out : List Int) : List String :=
  (if isSublist out h then [] else ["subsequence"]) ++
  (if out.head? == h.head? then [] else ["first-point"]) ++
  (if out.getLast? == h.getLast? then [] else ["last-value"]) ++
  (if embedOK gate h out then [] else ["gate"])

/-! ### digitisation -/

def digitOneOK (r k o : Int) : Bool :=
  o % r == 0 && decide (2 * natAbsDiff k o ≤ r.natAbs) &&
    (2 * natAbsDiff k o != r.natAbs || (o / r) % 2 == 0)

def pairsMonotone : List (Int × Int) → Bool
  | [] => true
  | p :: rest => rest.all (fun q => (!(decide (p.1 ≤ q.1)) || decide (p.2 ≤ q.2)) && (!(decide (q.1 ≤ p.1)) || decide (q.2 ≤ p.2)))
      && pairsMonotone rest

def failingDigit (r : Int) (d out again : List Int) : List String :=
  (if out.length == d.length then [] else ["length"]) ++
  (if (d.zip out).all (fun p => digitOneOK r p.1 p.2) then [] else ["nearest-multiple"]) ++
  (if again == out then [] else ["idempotent"]) ++
  (if pairsMonotone (d.zip out) then [] else ["monotone"])

/-! ### aggregation -/

def aggKeysAscending : List (Int × Nat) → Bool
  | a :: b :: rest => a.1 < b.1 && aggKeysAscending (b :: rest)
  | _ => true

def sumUnits (t : List (Int × Nat)) : Nat := (t.map (·.2)).sum

/-- nearest multiple of `b` for a non-negative value that is not an exact tie -/
def nearestKey (b v : Int) : Int := roundHalfEven v b * b

def isTie (b v : Int) : Bool := (2 * v) % b == 0 && (2 * v / b) % 2 != 0

def failingAgg (b : Int) (rows out : List (Int × Nat)) : List String :=
  (if sumUnits out == sumUnits rows then [] else ["total"]) ++
  (if aggKeysAscending out then [] else ["keys-sorted-distinct"]) ++
  (if out.all (fun p => p.1 % b == 0) then [] else ["keys-multiples"]) ++
  (if rows.all (fun p => p.1 < 0 || out.any (fun q => 2 * natAbsDiff p.1 q.1 ≤ b.natAbs)) then [] else ["half-bin"]) ++
  (if rows.any (fun p => p.1 < 0 || isTie b p.1) ||
      out == rows.foldl (fun t p => aggAdd (nearestKey b p.1) p.2 t) [] then [] else ["histogram"])

end FF.C19
