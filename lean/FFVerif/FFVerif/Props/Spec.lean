/-
Specification-level notions shared by the property predicates.  Core Lean only.
Nothing here is shaped like the Python code: these are the definitions the properties talk about.
-/
import FFVerif.Model.Cycle
namespace FF

/-- remove consecutive repeats -/
def dedup : List Int → List Int
  | a :: b :: rest => if a = b then dedup (b :: rest) else a :: dedup (b :: rest)
  | l => l

/-- interior strict turning points -/
def turning : List Int → List Int
  | a :: b :: c :: rest =>
    if (a < b ∧ b > c) ∨ (a > b ∧ b < c) then b :: turning (b :: c :: rest)
    else turning (b :: c :: rest)
  | _ => []

def lastD : List Int → Int → Int
  | [], d => d
  | x :: xs, _ => lastD xs x

/-- the reversal sequence of a history: first point, the strict turning points of the
de-plateaued history, last point -/
def reversals : List Int → List Int
  | [] => []
  | [x] => [x]
  | x :: y :: rest => x :: turning (dedup (x :: y :: rest)) ++ [lastD (y :: rest) x]

def listMax : List Int → Int
  | [] => 0
  | x :: xs => xs.foldl max x
def listMin : List Int → Int
  | [] => 0
  | x :: xs => xs.foldl min x

/-- overall range `max - min` of a history -/
def span (h : List Int) : Nat := (listMax h - listMin h).toNat

def isConstant : List Int → Bool
  | [] => true
  | x :: xs => xs.all (· == x)

def totalUnits (cs : List Cyc) : Nat := (cs.map Cyc.units).sum

/-- keys strictly ascending -/
def keysAscending : List (Nat × Nat) → Bool
  | a :: b :: rest => a.1 < b.1 && keysAscending (b :: rest)
  | _ => true

/-- histogram of a cycle list by range, as a function -/
def unitsAt (cs : List Cyc) (k : Nat) : Nat :=
  ((cs.filter (fun c => c.range == k)).map Cyc.units).sum

/-- `t` is exactly the histogram of `cs`: ascending distinct keys, positive counts, each count the
total of the cycles of that range, and every cycle's range is a key -/
def isHistogram (cs : List Cyc) (t : List (Nat × Nat)) : Bool :=
  keysAscending t && t.all (fun p => p.2 > 0 && p.2 == unitsAt cs p.1) &&
    cs.all (fun c => t.any (fun p => p.1 == c.range))

/-- total half-units of the cycles going from `a` to `b` -/
def fromTo (cs : List Cyc) (a b : Int) : Nat :=
  ((cs.filter (fun c => c.a == a && c.b == b)).map Cyc.units).sum

/-- `m` (entries `(from, to, half-units)`, zero entries omitted, no duplicate positions) is the
from-to encoding of `cs` -/
def isFromTo (cs : List Cyc) (m : List (Int × Int × Nat)) : Bool :=
  m.all (fun e => e.2.2 > 0 && fromTo cs e.1 e.2.1 == e.2.2) &&
  cs.all (fun c => m.any (fun e => e.1 == c.a && e.2.1 == c.b)) &&
  (m.map (fun e => (e.1, e.2.1))).Nodup

end FF
