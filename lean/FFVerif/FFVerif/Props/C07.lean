/-
C07 — counting matrices are a lossless from-to encoding of the digitised count.
-/
import FFVerif.Props.C02
import FFVerif.Model.Matrix
namespace FF.C07

def keysOK (keys : List Int) : Bool :=
  match keys with
  | [] => true
  | _ :: t => (keys.zip t).all (fun p => p.1 < p.2)

def squareOK (M : List (List Nat)) (keys : List Int) : Bool :=
  M.length == keys.length && M.all (fun row => row.length == keys.length)

/-- entry (i, j) is the total count of the cycles `cs` going from key i to key j -/
def entriesOK (cs : List Cyc) (M : List (List Nat)) (keys : List Int) : Bool :=
  (M.zip keys).all (fun ra => (ra.1.zip keys).all (fun vb => vb.1 == fromTo cs ra.2 vb.2)) &&
  cs.all (fun c => keys.contains c.a && keys.contains c.b)

def sumOK (cs : List Cyc) (M : List (List Nat)) : Bool := (M.map List.sum).sum == totalUnits cs

/-- collapse by |key_j - key_i| -/
def collapse (M : List (List Nat)) (keys : List Int) : List (Nat × Nat) :=
  ((M.zip keys).flatMap (fun ra => (ra.1.zip keys).map (fun vb => (rng ra.2 vb.2, vb.1)))).foldl
    (fun t p => if p.2 = 0 then t else tblAdd p.1 p.2 t) []

def collapseOK (t : List (Nat × Nat)) (M : List (List Nat)) (keys : List Int) : Bool := collapse M keys == t

/-- `cs`, `t`: the counter's own un-aggregated and aggregated output on the digitised history -/
def failing (cs : List Cyc) (t : List (Nat × Nat)) (M : List (List Nat)) (keys : List Int) : List String :=
  (if keysOK keys then [] else ["keys"]) ++
  (if squareOK M keys then [] else ["square"]) ++
  (if entriesOK cs M keys then [] else ["entries"]) ++
  (if sumOK cs M then [] else ["sum"]) ++
  (if collapseOK t M keys then [] else ["collapse"])

end FF.C07
