/-
C06 — Rychlik and Johannesson cycles follow their per-peak top-level definition.
Executable predicates; the specification works on the raw history `h`, not on the reversal list.
-/
import FFVerif.Props.Spec
namespace FF.C06

/-- interior strict local maxima of the de-plateaued history, each with the samples before it
(nearest first) and after it -/
def peaksCtx : List Int → List Int → List (List Int × Int × List Int)
  | left, cur :: next :: rest =>
    match left with
    | [] => peaksCtx [cur] (next :: rest)
    | p :: _ =>
      (if cur > p ∧ cur > next then [(left, cur, next :: rest)] else []) ++ peaksCtx (cur :: left) (next :: rest)
  | _, _ => []

def peaksOf (h : List Int) : List (List Int × Int × List Int) := peaksCtx [] (dedup h)

/-- lowest value reached on one side before the history is at or above `M` again (nearest first) -/
def sideMin (M : Int) (side : List Int) : Int :=
  match side.takeWhile (· < M) with
  | [] => M
  | x :: rest => rest.foldl min x

/-- no other sample of the (de-plateaued) history equals `M` -/
def uniqueTop (h : List Int) (M : Int) : Bool := (dedup h).count M == 1

/-- one cycle per interior local maximum, whose top is that maximum, all whole cycles -/
def topsOK (h : List Int) (cs : List Cyc) : Bool :=
  cs.map (·.b) == (peaksOf h).map (·.2.1) && cs.all (fun c => !c.half)

/-- Johannesson: bottom = lowest value since the history was last above `M` (unique tops) -/
def joBottomsOK (h : List Int) (cs : List Cyc) : Bool :=
  ((peaksOf h).zip cs).all (fun pc => !uniqueTop h pc.1.2.1 || pc.2.a == sideMin pc.1.2.1 pc.1.1)

/-- Rychlik: bottom = the higher of the Johannesson bottom and its mirror image after `M` -/
def ryBottomsOK (h : List Int) (cs : List Cyc) : Bool :=
  ((peaksOf h).zip cs).all (fun pc => !uniqueTop h pc.1.2.1 ||
    pc.2.a == max (sideMin pc.1.2.1 pc.1.1) (sideMin pc.1.2.1 pc.1.2.2))

/-- closed at its global minimum -/
def closedAtMin (h : List Int) : Bool :=
  match h with
  | [] => false
  | x :: _ => h.getLast? == some x && x == listMin h

def failingJo (h : List Int) (cs : List Cyc) : List String :=
  (if topsOK h cs then [] else ["tops"]) ++ (if joBottomsOK h cs then [] else ["bottom"])

/-- `rf` is the rainflow table of the same history -/
def failingRy (h : List Int) (cs : List Cyc) (t rf : List (Nat × Nat)) : List String :=
  (if topsOK h cs then [] else ["tops"]) ++ (if ryBottomsOK h cs then [] else ["bottom"]) ++
  (if !closedAtMin h || t == rf then [] else ["rainflow-table"])

end FF.C06
