/-
C05 — level-crossing and peak counts equal the true crossings and extrema.  Executable predicates.
-/
import FFVerif.Props.Spec
import FFVerif.Model.Level
namespace FF.C05

/-- number of upward crossings of level `l` by the polyline through `R` (strictly below → strictly above) -/
def up : List Int → Int → Nat
  | a :: b :: rest, l => (if a < l ∧ l < b then 1 else 0) + up (b :: rest) l
  | _, _ => 0

def down : List Int → Int → Nat
  | a :: b :: rest, l => (if b < l ∧ l < a then 1 else 0) + down (b :: rest) l
  | _, _ => 0

def lookup (t : List (Int × Nat)) (k : Int) : Nat :=
  match t.find? (fun p => p.1 == k) with
  | some p => p.2
  | none => 0

def ikeysAscending : List (Int × Nat) → Bool
  | a :: b :: rest => a.1 < b.1 && ikeysAscending (b :: rest)
  | _ => true

/-- sorted distinct keys, positive counts -/
def tableShapeOK (t : List (Int × Nat)) : Bool := ikeysAscending t && t.all (fun p => p.2 > 0)

/-- the table is the histogram of the event list -/
def histOK (seq : List Int) (t : List (Int × Nat)) : Bool := t == itable seq

/-- at every level no reversal touches, the count is the number of crossings in the counted direction -/
def countOK (h : List Int) (ref : Int) (levels : List Int) (t : List (Int × Nat)) : Bool :=
  let R := reversals h
  (sortLevels levels).all (fun l => R.contains l ||
    lookup t l == (if ref ≤ l then up R l else down R l))

/-- only requested levels are reported -/
def keysOK (levels : List Int) (t : List (Int × Nat)) : Bool :=
  t.all (fun p => (sortLevels levels).contains p.1)

/-- events of one segment among the untouched levels; `timeOrder` lists a falling segment downwards -/
def segEvents (timeOrder : Bool) (ref : Int) (lv : List Int) (a b : Int) : List Int :=
  if a < b then lv.filter (fun l => a < l && l < b && decide (l ≥ ref))
  else
    let e := lv.filter (fun l => b < l && l < a && decide (l < ref))
    if timeOrder then e.reverse else e

def eventsSpec (timeOrder : Bool) (ref : Int) (lv : List Int) : List Int → List Int
  | a :: b :: rest => segEvents timeOrder ref lv a b ++ eventsSpec timeOrder ref lv (b :: rest)
  | _ => []

/-- the un-aggregated output, restricted to untouched levels, lists the crossings segment by segment
(`timeOrder = false`: ascending inside a segment, the order the repository documents and pins;
`timeOrder = true`: strict time order) -/
def seqOK (timeOrder : Bool) (h : List Int) (ref : Int) (levels seq : List Int) : Bool :=
  let R := reversals h
  let lv := (sortLevels levels).filter (fun l => !R.contains l)
  seq.filter (fun l => !R.contains l) == eventsSpec timeOrder ref lv R

def failingLevel (h : List Int) (ref : Int) (levels seq : List Int) (t : List (Int × Nat)) : List String :=
  (if tableShapeOK t then [] else ["shape"]) ++
  (if histOK seq t then [] else ["hist"]) ++
  (if countOK h ref levels t then [] else ["count"]) ++
  (if keysOK levels t then [] else ["keys"]) ++
  (if seqOK false h ref levels seq then [] else ["segorder"]) ++
  (if seqOK true h ref levels seq then [] else ["timeorder"])

/-! ### peak counting -/

/-- local extrema of the de-plateaued history that are counted: maxima at or above the reference,
minima below it — in time order -/
def extremaSpec (ref : Int) : List Int → List Int
  | a :: b :: c :: rest =>
    (if (a < b ∧ b > c ∧ b ≥ ref) ∨ (a > b ∧ b < c ∧ b < ref) then [b] else []) ++ extremaSpec ref (b :: c :: rest)
  | _ => []

def peakSeqOK (h : List Int) (ref : Int) (seq : List Int) : Bool := seq == extremaSpec ref (dedup h)

def failingPeak (h : List Int) (ref : Int) (seq : List Int) (t : List (Int × Nat)) : List String :=
  (if tableShapeOK t then [] else ["shape"]) ++
  (if histOK seq t then [] else ["hist"]) ++
  (if peakSeqOK h ref seq then [] else ["extrema"])

end FF.C05
