/-
Model driver: one request per line on stdin, one answer per line on stdout.
Imports only the core-Lean model and property-predicate files (no Mathlib), so it is compiled.
-/
import FFVerif.Model.Proto
import FFVerif.Props.C01
import FFVerif.Props.C02
import FFVerif.Props.C03
import FFVerif.Props.C04
import FFVerif.Props.C05
import FFVerif.Props.C06
import FFVerif.Props.C07
import FFVerif.Props.C09
import FFVerif.Props.C16
import FFVerif.Model.Sampler
import FFVerif.Model.Seed
import FFVerif.Model.Subset
import FFVerif.Model.Sorm
import FFVerif.Model.Spectral
import FFVerif.Model.Miner
import FFVerif.Model.Form
import FFVerif.Model.Chol
import FFVerif.Model.Gram
import FFVerif.Model.Deriv
import FFVerif.Model.SormPipe
import FFVerif.Model.NormalFloat
import FFVerif.Props.C19
import FFVerif.Props.C20
import FFVerif.Gen.DiffTables
import FFVerif.Gen.MeanStress
import FFVerif.Gen.Wave
import FFVerif.Gen.Wind
import FFVerif.Gen.VecFormulas
open FF FF.Proto

def counterByName (n : String) : Option (List Int → List Cyc) :=
  match n with
  | "simple" => some simpleRange
  | "rainflow" => some rainflow
  | "rangepair" => some rangePair
  | "repeat" => some rainflowRepeat
  | "fourpoint" => some fourPoint
  | "rychlik" => some rychlik
  | "johannesson" => some johannesson
  | _ => none

def showFail (l : List String) : String := if l.isEmpty then "ok" else "fail:" ++ ",".intercalate l

def parseFloats (l : List String) : Option (Array Float) :=
  (l.mapM (fun (s : String) => s.toNat?.map (fun n => Float.ofBits n.toUInt64))).map List.toArray

def showGen (r : Option (Float × Bool)) : Option String :=
  r.map (fun p => s!"{p.1.toBits.toNat} {if p.2 then 1 else 0}")

/-- comma-separated float bit patterns -/
def parseFloatCsv (s : String) : Option (Array Float) :=
  if s == "-" then some #[] else parseFloats ((s.splitOn ",").filter (· ≠ ""))

def showFloats (l : List Float) : String :=
  if l.isEmpty then "-" else ",".intercalate (l.map (fun v => toString v.toBits.toNat))

def vecOf (a : Array Float) (off : Nat) : Nat → Float := fun i => a.getD (off + i) 0
def matOf (a : Array Float) (off n : Nat) : Nat → Nat → Float := fun i j => a.getD (off + i * n + j) 0
def vecList (n : Nat) (v : Nat → Float) : List Float := (List.range n).map v
def matList (n : Nat) (m : Nat → Nat → Float) : List Float :=
  (List.range n).flatMap (fun i => (List.range n).map (fun j => m i j))

/-- a marginal family given by cdf-free closed forms: `ofZ`, `toZ`, pdf and `(ln f)'`; the slope and curvature follow -/
def generalMarg (ofZ toZ pdf dlogpdf : Float → Float) : Nataf.Marg Float :=
  let dxdz : Float → Float := fun x => NormalFloat.phi (toZ x) / pdf x
  .general ofZ toZ dxdz (fun x => dxdz x * (-(toZ x) - dlogpdf x * dxdz x))

/-- marginals: kinds `n` (normal: p1 = mu, p2 = sigma), `l` (lognormal: p1 = m, p2 = s), `e` (exponential: p2 = scale),
`u` (uniform: p1 = loc, p2 = width), `g` (Gumbel, right-skewed: p1 = loc, p2 = scale), `w` (Weibull: p1 = shape, p2 = scale),
`,`-separated -/
def parseMargs (kinds : String) (p1 p2 : Array Float) : Option (Nat → Nataf.Marg Float) := do
  let ks := (kinds.splitOn ",").toArray
  if ks.any (fun k => !(["n", "l", "e", "u", "g", "w"].contains k)) then none else
  some (fun i =>
    let a := p1.getD i 0
    let b := p2.getD i 1
    match ks.getD i "n" with
    | "l" => .lognormal a b
    | "e" => generalMarg (fun z => b * NormalFloat.survNegLog z) (fun x => NormalFloat.quantOfOneMinusExpNeg (x / b))
               (fun x => Float.exp (-x / b) / b) (fun _ => -1.0 / b)
    | "u" => generalMarg (fun z => if z > 0 then a + b - b * NormalFloat.Phi (-z) else a + b * NormalFloat.Phi z)
               (fun x => if (x - a) / b > 0.5 then -(NormalFloat.PhiInv ((a + b - x) / b)) else NormalFloat.PhiInv ((x - a) / b))
               (fun _ => 1.0 / b) (fun _ => 0.0)
    | "g" => generalMarg (fun z => a - b * Float.log (NormalFloat.cdfNegLog z))
               (fun x => NormalFloat.quantOfExpNeg (Float.exp (-(x - a) / b)))
               (fun x => let y := (x - a) / b; Float.exp (-(y + Float.exp (-y))) / b)
               (fun x => let y := (x - a) / b; (-1.0 + Float.exp (-y)) / b)
    | "w" => generalMarg (fun z => b * Float.pow (NormalFloat.survNegLog z) (1.0 / a))
               (fun x => NormalFloat.quantOfOneMinusExpNeg (Float.pow (x / b) a))
               (fun x => a / b * Float.pow (x / b) (a - 1.0) * Float.exp (-(Float.pow (x / b) a)))
               (fun x => (a - 1.0) / x - a / b * Float.pow (x / b) (a - 1.0))
    | _ => .normal a b)

/-- quadratic limit state `c0 + b·x + xᵀ Q x` and its gradient `b + (Q + Qᵀ) x` -/
def quadG (n : Nat) (c0 : Float) (b : Nat → Float) (Q : Nat → Nat → Float) : (Nat → Float) → Float :=
  fun x => c0 + Linalg.dot n b x + Linalg.dot n x (Linalg.mulVec n Q x)
def quadDG (n : Nat) (b : Nat → Float) (Q : Nat → Nat → Float) : (Nat → Float) → Nat → Float :=
  fun x i => b i + Linalg.fsum n (fun j => (Q i j + Q j i) * x j)

def natafModel (n : Nat) (margs : Nat → Nataf.Marg Float) (rhoZ : Nat → Nat → Float) : Nataf.Model Float :=
  Nataf.build n margs rhoZ

def showIterates (T : Nataf.Model Float) (l : List (Form.Iterate Float)) : String :=
  if l.isEmpty then "-" else ";".intercalate (l.map (fun it =>
    showFloats (it.beta :: vecList T.dim it.u ++ vecList T.dim (Nataf.getX T it.u))))

def handle (toks : List String) : Option String :=
  match toks with
  | ["nataf", n, kinds, p1, p2, corr, rhoZ, xs, us] => do
    let n ← n.toNat?
    let p1 ← parseFloatCsv p1
    let p2 ← parseFloatCsv p2
    let margs ← parseMargs kinds p1 p2
    let corr ← parseFloatCsv corr
    let rz ← parseFloatCsv rhoZ
    let xs ← parseFloatCsv xs
    let us ← parseFloatCsv us
    let lat : Nat → Nat → Float := fun i j => if i = j then 1 else Nataf.latent (margs i) (margs j) (matOf corr 0 n i j)
    let T := natafModel n margs (matOf rz 0 n)
    let x := vecOf xs 0
    let u := vecOf us 0
    some (" ".intercalate [showFloats (matList n lat), if Chol.pivotsOK n (matOf rz 0 n) then "pd" else "notpd",
      showFloats (matList n T.L), showFloats (matList n T.Linv),
      showFloats (vecList n (Nataf.getU T x)), showFloats (matList n (Nataf.jacGetU T x)),
      showFloats (vecList n (Nataf.getX T u)), showFloats (matList n (Nataf.jacGetX T u))])
  | ["hlrf", n, kinds, p1, p2, rhoZ, tol, iter, c0, b, Q] => do
    let n ← n.toNat?
    let p1 ← parseFloatCsv p1
    let p2 ← parseFloatCsv p2
    let margs ← parseMargs kinds p1 p2
    let rz ← parseFloatCsv rhoZ
    let tol ← parseFloatCsv tol
    let iter ← iter.toNat?
    let c0 ← parseFloatCsv c0
    let b ← parseFloatCsv b
    let Q ← parseFloatCsv Q
    let T := natafModel n margs (matOf rz 0 n)
    let g := quadG n (c0.getD 0 0) (vecOf b 0) (matOf Q 0 n)
    let dg := quadDG n (vecOf b 0) (matOf Q 0 n)
    let tr := Form.trace T g dg (tol.getD 0 0) iter (fun _ => 1)
    match Form.hlrf T g dg (tol.getD 0 0) iter with
    | some (beta, u, x) => some s!"ok {showFloats (beta :: vecList n u)} {showFloats (vecList n x)} {showIterates T tr}"
    | none => some s!"noconv - - {showIterates T tr}"
  | ["hlrfnum", n, kinds, p1, p2, rhoZ, tol, iter, c0, b, Q, dx] => do
    -- `dg = None`: the gradient is the three-point stencil of the regenerated table applied to g (Deriv.partialD), step dx
    let n ← n.toNat?
    let p1 ← parseFloatCsv p1
    let p2 ← parseFloatCsv p2
    let margs ← parseMargs kinds p1 p2
    let rz ← parseFloatCsv rhoZ
    let tol ← parseFloatCsv tol
    let iter ← iter.toNat?
    let c0 ← parseFloatCsv c0
    let b ← parseFloatCsv b
    let Q ← parseFloatCsv Q
    let dx ← parseFloatCsv dx
    let t ← Gen.diffTables.find? (fun t => t.1 == 1 && t.2.1 == 3)
    let T := natafModel n margs (matOf rz 0 n)
    let g := quadG n (c0.getD 0 0) (vecOf b 0) (matOf Q 0 n)
    let dg : (Nat → Float) → Nat → Float := fun x =>
      let xa := Linalg.mkArr n x
      let xs := Linalg.ofArr xa x
      let ga := Linalg.mkArr n (fun i => Deriv.partialD t g i xs (dx.getD 0 0))
      Linalg.ofArr ga (fun _ => 0)
    match Form.hlrf T g dg (tol.getD 0 0) iter with
    | some (beta, u, x) => some s!"ok {showFloats (beta :: vecList n u)} {showFloats (vecList n x)}"
    | none => some "noconv - -"
  | ["gram", n, cols, al] => do
    -- cols: the matrix column by column (n*n floats); al: the alignment vector or `-`
    let n ← n.toNat?
    let c ← parseFloatCsv cols
    let a ← parseFloatCsv al
    let colList : List (Nat → Float) := (List.range n).map (fun j => fun i => c.getD (j * n + i) 0)
    let B := Gram.orth n colList (if a.isEmpty then none else some (vecOf a 0))
    some (showFloats (B.flatMap (fun col => vecList n col)))
  | ["fosm", n, mus, sigmas, c0, b, Q] => do
    let n ← n.toNat?
    let mus ← parseFloatCsv mus
    let sg ← parseFloatCsv sigmas
    let c0 ← parseFloatCsv c0
    let b ← parseFloatCsv b
    let Q ← parseFloatCsv Q
    some (showFloats [Form.fosm n (quadG n (c0.getD 0 0) (vecOf b 0) (matOf Q 0 n)) (quadDG n (vecOf b 0) (matOf Q 0 n)) (vecOf mus 0) (vecOf sg 0)])
  | "gen" :: "MeanStress" :: name :: args => do showGen (Gen.evalMeanStress name (← parseFloats args))
  | "gen" :: "Wave" :: name :: args => do showGen (Gen.evalWave name (← parseFloats args))
  | "gen" :: "Wind" :: name :: args => do showGen (Gen.evalWind name (← parseFloats args))
  | ["miner", "classic", lim, sn, rows] => do
    let lim ← parseFloats [lim]
    let sn ← parseFloats ((sn.splitOn ",").filter (· ≠ ""))
    let rows ← parseFloats ((rows.splitOn ",").filter (· ≠ ""))
    let pairs := fun (a : Array Float) => (List.range (a.size / 2)).map (fun i => (a[2 * i]!, a[2 * i + 1]!))
    some s!"{(Miner.classic (pairs rows) (pairs sn) lim[0]!).toBits.toNat}"
  | ["miner", "naive", rows] => do
    let rows ← parseFloats ((rows.splitOn ",").filter (· ≠ ""))
    let pairs := fun (a : Array Float) => (List.range (a.size / 2)).map (fun i => (a[2 * i]!, a[2 * i + 1]!))
    some s!"{(Miner.naive (pairs rows)).toBits.toNat}"
  | ["miner", "logN", lim, sn, S] => do
    let lim ← parseFloats [lim]
    let S ← parseFloats [S]
    let sn ← parseFloats ((sn.splitOn ",").filter (· ≠ ""))
    let pairs := fun (a : Array Float) => (List.range (a.size / 2)).map (fun i => (a[2 * i]!, a[2 * i + 1]!))
    match Miner.getN (pairs sn) lim[0]! S[0]! with
    | some v => some s!"{(Float.log10 v).toBits.toNat}"
    | none => some "sentinel"
  | ["c20weights", m, n] => do
    let m ← m.toNat?
    let n ← n.toNat?
    match C20.exactWeights m n with
    | some w => some ((if C20.momentOKRat n m w then "ok " else "bad ") ++
        " ".intercalate (w.toList.map (fun q => s!"{q.num}/{q.den}")))
    | none => some "singular"
  | ["c20tables"] =>
    some (" ".intercalate (Gen.diffTables.map (fun t =>
      s!"{t.1}:{t.2.1}:{if C20.momentOK t.1 t.2.1 t.2.2.1 t.2.2.2 then 1 else 0}")))
  | ["ar", n, obs, phis, eps] => do
    some (showList (Arma.ar (← n.toNat?) (← parseList obs) (← parseList phis) (← parseList eps)))
  | ["ma", n, c, thetas, eps] => do
    some (showList (Arma.ma (← n.toNat?) (← parseInt? c) (← parseList thetas) (← parseList eps)))
  | ["arma", n, obs, phis, thetas, eps] => do
    some (showList (Arma.arma (← n.toNat?) (← parseList obs) (← parseList phis) (← parseList thetas) (← parseList eps)))
  | ["arima", n, c, phis, thetas, eps] => do
    some (showList (Arma.arima (← n.toNat?) (← parseInt? c) (← parseList phis) (← parseList thetas) (← parseList eps)))
  | ["walk", dim, rs] => do
    let path := Arma.walk (← dim.toNat?) (← parseNatList rs)
    some (";".intercalate (path.map showList))
  | ["c16ar", n, obs, phis, eps, out] => do
    some (if C16.arOK (← n.toNat?) (← parseList obs) (← parseList phis) (← parseList eps) (← parseList out) then "ok" else "fail:recurrence")
  | ["c16ma", n, c, thetas, eps, out] => do
    some (if C16.maOK (← n.toNat?) (← parseInt? c) (← parseList thetas) (← parseList eps) (← parseList out) then "ok" else "fail:recurrence")
  | ["c16arma", n, obs, phis, thetas, eps, out] => do
    some (if C16.armaOK (← n.toNat?) (← parseList obs) (← parseList phis) (← parseList thetas) (← parseList eps) (← parseList out) then "ok" else "fail:recurrence")
  | ["c16arima", n, c, phis, thetas, eps, out] => do
    some (if C16.arimaOK (← n.toNat?) (← parseInt? c) (← parseList phis) (← parseList thetas) (← parseList eps) (← parseList out) then "ok" else "fail:recurrence")
  | ["c16walk", n, dim, path] => do
    let rows ← (if path == "-" then some [] else (path.splitOn ";").mapM parseList)
    some (if C16.walkOK (← n.toNat?) (← dim.toNat?) rows then "ok" else "fail:walk")
  | ["mh", fcur, fcand, un, ud, domCand, domCur] => do
    let fcur ← parseInt? fcur
    let fcand ← parseInt? fcand
    let r := Sampler.mhStep (σ := Bool) (fun b => if b then fcand else fcur)
      (fun _ nxt => if nxt then domCand == "1" else domCur == "1") false true (← un.toNat?) (← ud.toNat?)
    match r with
    | .ok b => some (if b then "cand" else "cur")
    | .error _ => some "error"
  | ["auflags", fcur, fcand, uns, uds] => do
    let fcur ← parseList fcur
    let fcand ← parseList fcand
    let uns ← parseNatList uns
    let uds ← parseNatList uds
    -- coordinate i: state 0 = current value, state 1 = proposed value
    let fs : List (Int → Int) := (fcur.zip fcand).map (fun p => fun x => if x == 1 then p.2 else p.1)
    match Sampler.auAssemble fs (fcur.map (fun _ => 0)) (fcur.map (fun _ => 1)) (uns.zip uds) with
    | .ok flags => some (showList flags)
    | .error e => some ("error:" ++ e)
  | ["c15", ops, trace] => do
    -- ops: `set:5` `set:none` `api:int:5:12` `api:none:7` `api:other:7` `con:int:3` `con:none` `con:other`, `;`-separated
    -- trace: per op a `,`-separated list of events `s5` `sN` `d` (or `-`), `;`-separated
    let parseOp : String → Option Seed.Op := fun t =>
      match t.splitOn ":" with
      | ["set", "none"] => some (.setSeed none)
      | ["set", n] => n.toNat?.map (fun k => .setSeed (some k))
      | ["api", "int", n, k] => do some (.api (.int (← n.toNat?)) (← k.toNat?))
      | ["api", "none", k] => k.toNat?.map (fun k => .api .none k)
      | ["api", "other", k] => k.toNat?.map (fun k => .api .other k)
      | ["con", "int", n] => n.toNat?.map (fun k => .construct (.int k))
      | ["con", "none"] => some (.construct .none)
      | ["con", "other"] => some (.construct .other)
      | _ => none
    let parseEv : String → Option Seed.Event := fun t =>
      if t == "d" then some .draw else if t == "sN" then some (.seed none)
      else if t.startsWith "s" then (t.drop 1).toNat?.map (fun k => .seed (some k)) else none
    let ops ← (ops.splitOn ";").mapM parseOp
    let trace ← (trace.splitOn ";").mapM (fun t => if t == "-" then some [] else (t.splitOn ",").mapM parseEv)
    some (if Seed.conforms ops trace then "ok" else "fail:protocol")
  | ["subset", nc, maxSub, g0, oracle] => do
    let nc ← nc.toNat?
    let ms ← maxSub.toNat?
    let g0 ← parseList g0
    let orc ← (if oracle == "-" then some [] else
      (oracle.splitOn "|").mapM (fun lv => (lv.splitOn ";").mapM parseList))
    let lv := Subset.run nc ms (ms + 1) g0 orc
    some ("|".intercalate (lv.map (fun l =>
      showList l.values ++ ":" ++ toString l.threshold ++ ":" ++ (match l.prob with | some k => toString k | none => "p0"))))
  | ["subsetpf", a, b, N, nc, maxSub, g0, oracle] => do
    let a ← a.toNat?
    let b ← b.toNat?
    let N ← N.toNat?
    let nc ← nc.toNat?
    let ms ← maxSub.toNat?
    let g0 ← parseList g0
    let orc ← (if oracle == "-" then some [] else
      (oracle.splitOn "|").mapM (fun lv => (lv.splitOn ";").mapM parseList))
    let r := Subset.pf a b N (Subset.run nc ms (ms + 1) g0 orc)
    some s!"{r.1} {r.2}"
  | ["normalfloat", zs] => do
    -- Phi(z), phi(z), PhiInv(Phi(z)) of the driver's double-precision normal functions (validated against scipy by the harness)
    let zs ← parseFloatCsv zs
    some (showFloats (zs.toList.flatMap (fun z => [NormalFloat.Phi z, NormalFloat.phi z, NormalFloat.PhiInv (NormalFloat.Phi z)])))
  | ["gradhess", m, d, c0, b, Q, xs, dx] => do
    -- gradient and Hessian of the quadratic c0 + b.x + x'Qx by the regenerated first-derivative table with m points
    let m ← m.toNat?
    let d ← d.toNat?
    let c0 ← parseFloatCsv c0
    let b ← parseFloatCsv b
    let Q ← parseFloatCsv Q
    let xs ← parseFloatCsv xs
    let dx ← parseFloatCsv dx
    let t ← Gen.diffTables.find? (fun t => t.1 == 1 && t.2.1 == m)
    let f := quadG d (c0.getD 0 0) (vecOf b 0) (matOf Q 0 d)
    let x := vecOf xs 0
    let h := dx.getD 0 1
    let g := (List.range d).map (fun i => Deriv.partialD t f i x h)
    let H := (List.range d).flatMap (fun i => (List.range d).map (fun j => Deriv.hessD t f i j x h))
    some s!"{showFloats g} {showFloats H}"
  | ["sormpipe", n, kinds, p1, p2, rhoZ, xs, as, hx] => do
    -- the matrix whose eigenvalues are the main curvatures, from the design point x, the gradient a and the Hessian Hx of g there
    let n ← n.toNat?
    let p1 ← parseFloatCsv p1
    let p2 ← parseFloatCsv p2
    let margs ← parseMargs kinds p1 p2
    let rz ← parseFloatCsv rhoZ
    let xs ← parseFloatCsv xs
    let as ← parseFloatCsv as
    let hx ← parseFloatCsv hx
    let T := natafModel n margs (matOf rz 0 n)
    let r := SormPipe.curvatureBlock T (vecOf xs 0) (vecOf as 0) (matOf hx 0 n)
    some s!"{showFloats [r.gradNorm]} {showFloats r.block.flatten}"
  | ["deriv", n, m, coeffs, x0, dx] => do
    -- the hard-coded stencil (n, m) of the regenerated tables on the polynomial with the given coefficients (constant term first)
    let n ← n.toNat?
    let m ← m.toNat?
    let c ← parseFloatCsv coeffs
    let x0 ← parseFloatCsv x0
    let dx ← parseFloatCsv dx
    let t ← Gen.diffTables.find? (fun t => t.1 == n && t.2.1 == m)
    let poly : Float → Float := fun x => c.foldr (fun a acc => a + x * acc) 0
    some (showFloats [Deriv.derivative t poly (x0.getD 0 0) (dx.getD 0 1)])
  | "c12gen" :: args => do
    -- the regenerated closing formulas at Float: beta, Phi(-beta), phi(beta), Phi(beta), then the curvatures
    let a ← parseFloats args
    if a.size < 4 then none else
    let beta := a[0]!
    let cdf : Float → Float := fun x => if x == beta then a[3]! else a[1]!
    let pdf : Float → Float := fun _ => a[2]!
    let ks := (a.toList.drop 4)
    some s!"{(Gen.breitungPf cdf pdf beta ks).toBits.toNat} {(Gen.tvedtPf cdf pdf beta ks).toBits.toNat} {(Gen.hrackPf cdf pdf beta ks).toBits.toNat}"
  | "c12" :: args => do
    let a ← parseFloats args
    if a.size < 4 then none else
    let ks := (a.toList.drop 4)
    some s!"{(Sorm.breitung a[0]! a[1]! ks).toBits.toNat} {(Sorm.hrack a[1]! a[2]! a[3]! ks).toBits.toNat}"
  | ["synth", fs, bw, next, n, comps] => do
    -- comps: freq,psd,phase triples as float bits, `,`-separated
    let fs ← parseFloats [fs]
    let bw ← parseFloats [bw]
    let next ← next.toNat?
    let n ← n.toNat?
    let c ← parseFloats ((comps.splitOn ",").filter (· ≠ ""))
    let triples := (List.range (c.size / 3)).map (fun i => (c[3 * i]!, c[3 * i + 1]!, c[3 * i + 2]!))
    let out := Spectral.synth fs[0]! bw[0]! next triples ((List.range n).map (fun (j : Nat) => j.toFloat))
    some (",".intercalate (out.map (fun v => toString v.toBits.toNat)))
  | ["synthfull", fs, time, bw, comps] => do
    -- the whole function after validation: raw freqBandwidth (`none` or float bits) and raw normal draws; comps: freq,psd,randn triples
    let a ← parseFloats [fs, time]
    let req ← if bw == "none" then some none else (do let b ← parseFloats [bw]; some (some b[0]!))
    let c ← parseFloats ((comps.splitOn ",").filter (· ≠ ""))
    let idx := List.range (c.size / 3)
    let out := Spectral.synthFull Spectral.pyRound a[0]! a[1]! req (idx.map (fun i => c[3 * i]!)) (idx.map (fun i => c[3 * i + 1]!))
      (idx.map (fun i => c[3 * i + 2]!))
    some (",".intercalate (out.map (fun v => toString v.toBits.toNat)))
  | "c09lin" :: args => do
    let a ← parseFloats args
    if a.size = 5 then some s!"{(C09.linearResidual a[0]! a[1]! a[2]! a[3]! a[4]!).toBits.toNat}" else none
  | "c09ger" :: args => do
    let a ← parseFloats args
    if a.size = 5 then some s!"{(C09.gerberResidual a[0]! a[1]! a[2]! a[3]! a[4]!).toBits.toNat}" else none
  | ["pv", k, h] => do
    let h ← parseList h
    some (showList (pv (k == "1") h))
  | ["reversals", h] => do
    let h ← parseList h
    some (showList (reversals h))
  | ["astm", h] => do
    let h ← parseList h
    some (showCycs (astm (reversals h)))
  | ["count", name, h] => do
    let f ← counterByName name
    let h ← parseList h
    let cs := f h
    some (showCycs cs ++ " " ++ showTable (table cs))
  | ["c01", h, cs, t] => do
    let h ← parseList h
    let cs ← parseCycs cs
    let t ← parseTable t
    some (showFail (C01.failing h cs t))
  | ["c02", name, h, cs, t] => do
    let k ← C02.Counter.ofString? name
    let h ← parseList h
    let cs ← parseCycs cs
    let t ← parseTable t
    some (showFail (C02.failing k h cs t))
  | ["levels", unit, h] => do
    let h ← parseList h
    let u ← unit.toNat?
    some (showList (defaultLevels u h))
  | ["lc", h, ref, lv] => do
    let h ← parseList h
    let ref ← parseInt? ref
    let lv ← parseList lv
    let seq := levelCrossingSeq h ref lv
    some (showList seq ++ " " ++ showIntTable (itable seq))
  | ["peak", h, ref] => do
    let h ← parseList h
    let ref ← parseInt? ref
    let seq := peakSeq h ref
    some (showList seq ++ " " ++ showIntTable (itable seq))
  | ["c05lc", h, ref, lv, seq, t] => do
    let h ← parseList h
    let ref ← parseInt? ref
    let lv ← parseList lv
    let seq ← parseList seq
    let t ← parseIntTable t
    some (showFail (C05.failingLevel h ref lv seq t))
  | ["c05pk", h, ref, seq, t] => do
    let h ← parseList h
    let ref ← parseInt? ref
    let seq ← parseList seq
    let t ← parseIntTable t
    some (showFail (C05.failingPeak h ref seq t))
  | ["hyst", h, gate] => do
    let h ← parseList h
    let g ← parseInt? gate
    some (showList (hysteresis h g))
  | ["digit", r, d] => do
    let r ← parseInt? r
    let d ← parseList d
    some (showList (digitize r d))
  | ["agg", b, rows] => do
    let b ← parseInt? b
    let rows ← parseIntTable rows
    some (showIntTable (aggregate b rows))
  | ["c19pv", k, h, out, again] => do
    let h ← parseList h
    let out ← parseList out
    let again ← parseList again
    some (showFail (C19.failingPv (k == "1") h out again))
  | ["c19hy", h, gate, out] => do
    let h ← parseList h
    let g ← parseInt? gate
    let out ← parseList out
    some (showFail (C19.failingHyst h g out))
  | ["c19dg", r, d, out, again] => do
    let r ← parseInt? r
    let d ← parseList d
    let out ← parseList out
    let again ← parseList again
    some (showFail (C19.failingDigit r d out again))
  | ["c19ag", b, rows, out] => do
    let b ← parseInt? b
    let rows ← parseIntTable rows
    let out ← parseIntTable out
    some (showFail (C19.failingAgg b rows out))
  | ["c06jo", h, cs] => do
    let h ← parseList h
    let cs ← parseCycs cs
    some (showFail (C06.failingJo h cs))
  | ["c06ry", h, cs, t, rf] => do
    let h ← parseList h
    let cs ← parseCycs cs
    let t ← parseTable t
    let rf ← parseTable rf
    some (showFail (C06.failingRy h cs t rf))
  | ["matrix", name, r, h] => do
    let f ← counterByName name
    let r ← parseInt? r
    let h ← parseList h
    let (M, keys) := toMatrix (f (digitize r h))
    some (showMatrix M ++ " " ++ showList keys)
  | ["c07", cs, t, M, keys] => do
    let cs ← parseCycs cs
    let t ← parseTable t
    let M ← parseMatrix M
    let keys ← parseList keys
    some (showFail (C07.failing cs t M keys))
  | ["c03t", c, t, t'] => do
    let c ← c.toNat?
    let t ← parseTable t
    let t' ← parseTable t'
    some (if C03.tableScaledOK c t t' then "ok" else "fail:table")
  | ["c03e", c, d, t, t'] => do
    let c ← parseInt? c
    let d ← parseInt? d
    let t ← parseIntTable t
    let t' ← parseIntTable t'
    some (if C03.eventsMappedOK c d t t' then "ok" else "fail:events")
  | ["c04closed", h, tRF, tRP, tRep, t4] => do
    let h ← parseList h
    let tRF ← parseTable tRF
    let tRP ← parseTable tRP
    let tRep ← parseTable tRep
    let t4 ← parseTable t4
    some (showFail ((if C04.closedAtExtreme h then [] else ["not-closed"]) ++
      (if C04.agreeOK tRF tRP tRep then [] else ["agree"]) ++
      (if t4 == [(0, 0)] || C04.fourPointMinusOK h tRF t4 then [] else ["fourpoint-minus-closing"])))
  | ["c04any", h, csRF, tRF, csRP, cs4] => do
    let h ← parseList h
    let csRF ← parseCycs csRF
    let tRF ← parseTable tRF
    let csRP ← parseCycs csRP
    let cs4 ← parseCycs cs4
    some (showFail ((if C04.residueOK h cs4 tRF then [] else ["residue"]) ++
      (if C04.noTieOK h csRF cs4 then [] else ["no-tie"]) ++
      (if C04.containsOK csRF csRP then [] else ["contains"])))
  | ["c04notie", h] => do
    let h ← parseList h
    some (if C04.noTies h then "1" else "0")
  | ["c01mat", h, m] => do
    let h ← parseList h
    let m ← parseTriples m
    some (if C01.matrixOK h m then "ok" else "fail:matrix")
  | _ => none

partial def loop (hin : IO.FS.Stream) (hout : IO.FS.Stream) : IO Unit := do
  let line ← hin.getLine
  if line.isEmpty then return ()
  let toks := (line.trimAscii.toString.splitOn " ").filter (· ≠ "")
  match handle toks with
  | some out => hout.putStrLn out
  | none => hout.putStrLn "bad-request"
  hout.flush
  loop hin hout

def main : IO Unit := do loop (← IO.getStdin) (← IO.getStdout)
