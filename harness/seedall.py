"""Run every seeded change under /verif/seeded through harness/seedtest.py and write seeded/<id>/meta.json and
seeded/RESULTS.md (self-test of the machinery; not part of any registered command).

    python3-vt harness/seedall.py [id ...]
"""
import json
import os
import subprocess
import sys

VERIF = os.path.dirname(os.path.dirname(os.path.abspath(__file__)))
SEEDED = os.path.join(VERIF, 'seeded')


def main():
    table_only = '--table-only' in sys.argv
    ids = [a for a in sys.argv[1:] if not a.startswith('--')] or sorted(d for d in os.listdir(SEEDED) if os.path.isdir(os.path.join(SEEDED, d)))
    from concurrent.futures import ThreadPoolExecutor

    def one(sid):
        d = os.path.join(SEEDED, sid)
        pid = sid.split('-')[0]
        p = subprocess.run(['python3-vt', os.path.join(VERIF, 'harness', 'seedtest.py'), d, pid], stdout=subprocess.PIPE,
                           stderr=subprocess.STDOUT, text=True, cwd=VERIF)
        return sid, json.loads(p.stdout.strip().split('\n')[-1])
    jobs = int(os.environ.get('SEEDALL_JOBS', '6'))
    with ThreadPoolExecutor(max_workers=jobs) as ex:
        results = list(ex.map(one, [] if table_only else ids))
    for sid, out in results:
        d = os.path.join(SEEDED, sid)
        pid = sid.split('-')[0]
        am = json.load(open(os.path.join(d, 'agent_meta.json'))) if os.path.exists(os.path.join(d, 'agent_meta.json')) else {}
        chk = out['checks'].get(pid, {})
        meta = {
            'id': sid, 'property': pid,
            'origin': 'written by a fresh sub-agent that saw only the property text and a scratch worktree of /repo (nothing from /verif)',
            'files_changed': __import__('re').findall(r'^\+\+\+ b/(\S+)', open(os.path.join(d, 'patch.diff')).read(), __import__('re').M),
            'what_changes': am.get('what_changes') or am.get('summary') or am.get('description') or am.get('change'),
            'needs_to_manifest': am.get('needs_to_manifest') or am.get('needs') or am.get('trigger'),
            'why_tests_pass': am.get('why_tests_pass') or am.get('why_suite_passes'),
            'confirmed_by_me': {
                'how': 'harness/seedtest.py: patch applied to a scratch copy of /repo (never to /repo); demo.py run on the clean and on the '
                       'patched copy; full repository suite (pytest, 586 tests) run on the patched copy; ./check %s --tier quick run with '
                       'VERIF_REPO pointing at the patched copy' % pid,
                'demo_exit_clean': out['demo_clean_rc'], 'demo_exit_patched': out['demo_mutant_rc'],
                'repo_suite_on_patched': out.get('suite_tail'), 'patch_applies': out['patch_applies'],
            },
            'check_result': {'exit': chk.get('rc'), 'lines': chk.get('lines'), 'detail': chk.get('detail')},
            'caught_by': out['caught_by'],
        }
        json.dump(meta, open(os.path.join(d, 'meta.json'), 'w'), indent=1)
        print(sid, 'demo', out['demo_clean_rc'], out['demo_mutant_rc'], 'suite', out.get('suite_tail'), 'caught', out['caught_by'],
              (chk.get('detail') or {}).get('clause'))
    # summary table
    rows = []
    for sid in sorted(d for d in os.listdir(SEEDED) if os.path.isdir(os.path.join(SEEDED, d))):
        mp = os.path.join(SEEDED, sid, 'meta.json')
        if not os.path.exists(mp):
            continue
        m = json.load(open(mp))
        det = (m['check_result'].get('detail') or {})
        rows.append('| %s | %s | %s | %s | %s |' % (sid, ', '.join(os.path.basename(x) for x in (m.get('files_changed') or [])), 'yes' if m['caught_by'] else '**NO**',
                                                   (det.get('kind') or '-'), str(det.get('clause') or det.get('no_longer_checks') or '-')[:110]))
    with open(os.path.join(SEEDED, 'RESULTS.md'), 'w') as f:
        f.write('# Seeded changes and which check reports them\n\nEvery change compiles, passes the repository test suite (586 tests) and breaks '
                'the named property on a specific input (demo.py exits 0 on the clean tree and 1 on the changed tree).  Produced by '
                '`python3-vt harness/seedall.py`; details per change in `<id>/meta.json`.\n\n'
                '| id | file | reported by ./check <property> (quick) | kind | clause / obligation |\n|---|---|---|---|---|\n' + '\n'.join(rows) + '\n')


if __name__ == '__main__':
    main()
