"""formula engine: translation + translation validation of the generated (generic-scalar) Lean
definitions against the Python functions (DESIGN §2.1 (T))"""
import math
import struct
import core
import translate


def bits(x):
    return struct.unpack('<Q', struct.pack('<d', float(x)))[0]


def unbits(n):
    return struct.unpack('<d', struct.pack('<Q', int(n)))[0]


def regenerate(res, modules):
    """re-translate; a translator failure is a broken tie"""
    st = translate.write_all(modules)
    for m, (changed, err) in st.items():
        if err:
            res.disagreements.append({'what': f'translator cannot translate Gen/{m}.lean from the current source', 'detail': err})
        if changed:
            res.notes.append(f'Gen/{m}.lean regenerated (source text changed)')
    return st


def close(a, b, rtol=1e-11, atol=1e-300):
    if a != a or b != b:
        return (a != a) and (b != b)
    if math.isinf(a) or math.isinf(b):
        return a == b
    return abs(a - b) <= atol + rtol * max(abs(a), abs(b))


def validate(res, module, cases, rtol=1e-11):
    """cases: list of (lean_name, args, python_thunk).  python_thunk() -> float or raises ValueError.
    Compares value (and the ok / ValueError outcome) with the Float instance of the generated text."""
    reqs = [f'gen {module} {nm} ' + ' '.join(str(bits(a)) for a in args) for nm, args, _ in cases]
    answers = core.driver_batch(reqs)
    for (nm, args, thunk), ans in zip(cases, answers):
        res.traces += 1
        try:
            py = float(thunk())
            pyok = True
        except ValueError:
            py, pyok = None, False
        except ZeroDivisionError:
            py, pyok = float('nan'), True
        except Exception as e:  # noqa
            res.disagreements.append({'what': f'{nm} raised {type(e).__name__}', 'input': list(args)})
            continue
        if ans == 'bad-request':
            res.disagreements.append({'what': f'generated {nm} missing in driver', 'input': list(args)})
            continue
        v, ok = ans.split()
        v, ok = unbits(v), ok == '1'
        res.stat('tv_ok' if pyok else 'tv_rejected')
        if ok != pyok:
            res.disagreements.append({'what': f'{nm}: guard outcome differs', 'input': list(args),
                                      'impl': 'ok' if pyok else 'ValueError', 'model': 'ok' if ok else 'ValueError'})
        elif pyok and not close(py, v, rtol):
            res.disagreements.append({'what': f'{nm}: value differs (translation validation)', 'input': list(args),
                                      'impl': repr(py), 'model': repr(v)})
