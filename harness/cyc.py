"""list engine: running the real cycle counters on dyadic-grid histories and comparing them with
the Lean model (exact) — shared by C01..C07"""
import core
from core import enc_list, enc_cycs, enc_table, to_grid, units, OffGrid

NAMES = ['simple', 'rainflow', 'rangepair', 'repeat', 'fourpoint', 'rychlik', 'johannesson']
API = {'simple': 'astmSimpleRangeCounting', 'rainflow': 'astmRainflowCounting',
       'rangepair': 'astmRangePairCounting', 'repeat': 'astmRainflowRepeatHistoryCounting',
       'fourpoint': 'fourPointRainflowCounting', 'rychlik': 'rychlikRainflowCounting',
       'johannesson': 'johannessonMinMaxCounting'}
MATRIX_API = {'simple': 'astmSimpleRangeCountingMatrix', 'rainflow': 'astmRainflowCountingMatrix',
              'rangepair': 'astmRangePairCountingMatrix',
              'repeat': 'astmRainflowRepeatHistoryCountingMatrix',
              'fourpoint': 'fourPointCountingMatrix', 'rychlik': 'rychlikRainflowCountingMatrix',
              'johannesson': 'johannessonMinMaxCountingMatrix'}


def valid_for(name, h):
    """the documented input guard of the implementation"""
    if name == 'fourpoint':
        return len(h) >= 4
    if name == 'repeat':
        return len(h) >= 2 and h[0] == h[-1]
    return len(h) >= 2


def floats(h, s):
    if s < 0:
        return [k / 10 ** (-s) for k in h]       # decimal grid: nearest binary64 to k * 10^s
    return [k * 2.0 ** -s for k in h]


def run_impl(name, h, s):
    """-> {'seq': [(a,b,u)], 'table': [(k,u)]} on the integer grid, or {'error': kind}"""
    core.import_impl()
    from ffpack import lcc
    f = getattr(lcc, API[name])
    data = floats(h, s)
    try:
        seq = f(list(data), aggregate=False)
        agg = f(list(data), aggregate=True)
    except ValueError:
        return {'error': 'ValueError'}
    except Exception as e:  # noqa
        return {'error': 'other:' + type(e).__name__}
    try:
        if seq == [[]]:
            seq = []
        cs = [(to_grid(a, s), to_grid(b, s), units(c)) for a, b, c in seq]
        if agg == [[]]:
            agg = []
        t = [(to_grid(k, s), units(c)) for k, c in agg]
        if any(k < 0 for k, _ in t):
            raise OffGrid('negative range key')
    except (OffGrid, TypeError, ValueError) as e:
        return {'error': 'offgrid:' + str(e), 'raw': repr((seq, agg))[:300]}
    return {'seq': cs, 'table': t}


def model_line(name, h):
    return f'count {name} {enc_list(h)}'


def impl_line(out):
    if 'error' in out:
        return 'error:' + out['error']
    return enc_cycs(out['seq']) + ' ' + enc_table(out['table'])


def nontrivial_key(h):
    """a history is non-trivial when it has at least 3 reversals; distinct by its value tuple"""
    d = [h[0]]
    for v in h[1:]:
        if v != d[-1]:
            d.append(v)
    turns = sum(1 for i in range(1, len(d) - 1) if (d[i] - d[i - 1]) * (d[i + 1] - d[i]) < 0)
    return turns >= 1


def hist_stats(res, h):
    res.stat('len_%s' % ('2-4' if len(h) <= 4 else '5-9' if len(h) <= 9 else '10-19' if len(h) <= 19 else '20+'))
    res.stat('alphabet_%s' % ('2-3' if len(set(h)) <= 3 else '4-6' if len(set(h)) <= 6 else '7+'))
    if any(a == b for a, b in zip(h, h[1:])):
        res.stat('with_plateau')
    if h[0] == h[-1]:
        res.stat('closed')
    ranges = [abs(a - b) for a, b in zip(h, h[1:])]
    if len(set(ranges)) < len(ranges):
        res.stat('with_tied_ranges')


def correspondence(res, names, cases, pred=None, also_invalid=True):
    """cases: list of (h, s).  For every counter in `names` valid on the case: compare the
    implementation with the model (exact), and evaluate predicate `pred(name,h,out) -> request
    line or None` on the implementation's output.  Returns the list of (name,h,s,out)."""
    reqs, meta = [], []
    for h, s in cases:
        for name in names:
            if not valid_for(name, h):
                continue
            out = run_impl(name, h, s)
            res.evaluations += 1
            if nontrivial_key(h):
                res.nontrivial.add((name, tuple(h)))
            if s >= 0:
                # exact comparison with the model only on binary grids; on a decimal grid (s < 0) differences of
                # samples carry rounding error, ties are decided by that error, and only the predicates are evaluated
                reqs.append(model_line(name, h))
                meta.append(('corr', name, h, s, out))
            else:
                res.stat('decimal_grid_predicate_only')
                if 'error' in out:
                    res.failures.append({'signature': f'{res.pid}:{name}:decimal-grid:{out["error"]}:{enc_list(h)}:{s}',
                                         'clause': 'valid decimal history: ' + out['error'], 'api': API[name], 'input': h,
                                         'scale': s, 'impl_output': out.get('raw')})
            if pred is not None and 'error' not in out:
                line = pred(name, h, out)
                if line:
                    reqs.append(line)
                    meta.append(('pred', name, h, s, out))
    answers = core.driver_batch(reqs)
    runs = []
    for (kind, name, h, s, out), ans in zip(meta, answers):
        if kind == 'corr':
            runs.append((name, h, s, out))
            res.traces += 1
            if impl_line(out) != ans:
                res.disagreements.append({'what': f'{API[name]} vs model', 'input': h, 'scale': s,
                                          'impl': impl_line(out), 'model': ans})
        else:
            if ans != 'ok':
                res.failures.append({'signature': f'{res.pid}:{name}:{ans}:{enc_list(h)}',
                                     'clause': ans, 'api': API[name], 'input': h, 'scale': s,
                                     'impl_output': impl_line(out)})
    return runs
