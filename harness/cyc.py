"""list engine: running the real cycle counters on dyadic-grid histories and comparing them with
the Lean model (exact) — shared by C01..C07"""
import core
from core import enc_list, enc_cycs, enc_table, to_grid, units, OffGrid

NAMES = ['simple', 'rainflow', 'rangepair', 'repeat', 'fourpoint', 'rychlik', 'johannesson']
API = {'simple': 'astmSimpleRangeCounting', 'rainflow': 'astmRainflowCounting',
       'rangepair': 'astmRangePairCounting', 'repeat': 'astmRainflowRepeatHistoryCounting',
       'fourpoint': 'fourPointRainflowCounting', 'rychlik': 'rychlikRainflowCounting',
       'johannesson': 'johannessonMinMaxCounting'}
MATRIX_API = {'simple': 'astmSimpleRangeCountingMatrix', 'rainflow': 'astmRainflowCountingMatrix',
              'rangepair': 'astmRangePairCountingMatrix',
              'repeat': 'astmRainflowRepeatHistoryCountingMatrix',
              'fourpoint': 'fourPointCountingMatrix', 'rychlik': 'rychlikRainflowCountingMatrix',
              'johannesson': 'johannessonMinMaxCountingMatrix'}


def valid_for(name, h):
    """the documented input guard of the implementation"""
    if name == 'fourpoint':
        return len(h) >= 4
    if name == 'repeat':
        return len(h) >= 2 and h[0] == h[-1]
    return len(h) >= 2


def floats(h, s):
    if s < 0:
        return [k / 10 ** (-s) for k in h]       # decimal grid: nearest binary64 to k * 10^s
    return [k * 2.0 ** -s for k in h]


def as_container(data, h, s):
    """the same history as a list of floats, a tuple, a float array, or (on the unit grid) Python ints / an int64 array:
    the input conversion of the implementation is part of what is compared (deterministic choice per history)"""
    import numpy as np
    k = (sum(h) * 31 + len(h) * 7 + (h[0] if h else 0)) % 8
    if k == 1:
        return tuple(data)
    if k == 2:
        return np.array(data, dtype=float)
    if s == 0 and k == 3:
        return [int(v) for v in h]
    if s == 0 and k == 4:
        # the narrowest integer dtype that holds the VALUES (their differences need not fit)
        lo, hi = min(h), max(h)
        for dt, a, b in ((np.uint8, 0, 255), (np.int8, -128, 127), (np.int16, -32768, 32767), (np.int32, -2 ** 31, 2 ** 31 - 1)):
            if a <= lo and hi <= b and (sum(h) + len(h)) % 3 != 0:
                return np.array(h, dtype=dt)
        return np.array(h, dtype=np.int64)
    return list(data)


class with_atol:
    """temporarily change ffpack.config.globalConfig.atol (the documented number of digits aggregated ranges are rounded to)"""

    def __init__(self, digits):
        self.digits = digits

    def __enter__(self):
        core.import_impl()
        from ffpack.config import globalConfig
        self.cfg, self.old = globalConfig, globalConfig.atol
        globalConfig.atol = self.digits

    def __exit__(self, *a):
        self.cfg.atol = self.old


def config_stream(res, names, cases, digits_choices=(0, 1, 2, 3)):
    """cases: (h, s) with s < 0 (decimal grid).  With globalConfig.atol changed at run time, the aggregated table of every
    counter is the histogram of its own cycle list with ranges rounded to THAT many digits (ascending distinct keys)."""
    core.import_impl()
    from ffpack import lcc
    for idx, (h, s) in enumerate(cases):
        digits = digits_choices[(sum(h) + idx) % len(digits_choices)]
        for name in names:
            if not valid_for(name, h) or len(set(h)) < 2:
                continue
            f = getattr(lcc, API[name])
            data = floats(h, s)
            res.evaluations += 1
            res.stat('config_atol_%d' % digits)
            try:
                with with_atol(digits):
                    seq = f(list(data), aggregate=False)
                    agg = f(list(data), aggregate=True)
            except Exception as e:  # noqa
                res.failures.append({'signature': f'{res.pid}:{name}:config-atol:{type(e).__name__}:{enc_list(h)}:{s}:{digits}',
                                     'clause': 'valid history raised under a changed globalConfig.atol: ' + repr(e)[:120],
                                     'api': API[name], 'input': h, 'scale': s, 'atol_digits': digits})
                continue
            seq = [] if seq == [[]] else seq
            agg = [] if agg == [[]] else agg
            want = {}
            for a, b, c in seq:
                k = float(round(abs(b - a), digits))      # same number type (np.float64) and rounding as the implementation
                want[k] = want.get(k, 0) + float(c)
            want = sorted(want.items())
            got = [(float(k), float(c)) for k, c in agg]
            if len(got) != len(want) or any(abs(g[0] - w[0]) > 1e-12 or g[1] != w[1] for g, w in zip(got, want)):
                res.failures.append({'signature': f'{res.pid}:{name}:config-atol:histogram:{enc_list(h)}:{s}:{digits}',
                                     'clause': 'aggregated table is not the histogram of the cycle list at globalConfig.atol = %d digits' % digits,
                                     'api': API[name], 'input': h, 'scale': s, 'atol_digits': digits,
                                     'impl_output': {'table': got[:8], 'histogram_of_own_cycles': want[:8]}})


def exact_table(cs):
    """histogram of a cycle list on the integer grid"""
    t = {}
    for a, b, u in cs:
        t[abs(b - a)] = t.get(abs(b - a), 0) + u
    return sorted(t.items())


def caller_array_stream(res, names, rng, k):
    """one float64 array handed to several counters in turn stays the caller's: every call returns what it returns for a fresh list of
    the same values, and the array is unchanged afterwards (a counter that shifts or rotates its input in place corrupts the next call)"""
    core.import_impl()
    import numpy as np
    from ffpack import lcc
    for _ in range(k):
        h, s = core.gen_history(rng, maxlen=16, closed=(rng.random() < 0.6))
        if max(abs(v) for v in h) >= 4096 or len(set(h)) < 2:
            continue
        if h[0] == h[-1] and h[0] == max(h) and len(h) > 3 and rng.random() < 0.7:
            # a closed period cut somewhere else than at its maximum
            cut = rng.randrange(1, len(h) - 1)
            h = h[cut:-1] + h[:cut] + [h[cut]]
        vals = floats(h, 1)
        arr = np.array(vals, dtype=float)
        order = [nm for nm in names if valid_for(nm, h)]
        rng.shuffle(order)
        for name in order + order[:1]:
            f = getattr(lcc, API[name])
            res.evaluations += 1
            res.stat('caller_array_shared_between_counters')
            case = {'history': vals, 'sequence_of_calls': order, 'call': name}
            try:
                got = f(arr)
                want = f(list(vals))
            except Exception as e:  # noqa
                res.failures.append({'signature': f'{res.pid}:{name}:caller-array:raises:{enc_list(h)}',
                                     'clause': 'valid history raised when the same float64 array is handed to several counters in turn: ' + repr(e)[:100],
                                     'api': API[name], 'input': case})
                arr = np.array(vals, dtype=float)
                continue
            if repr(got) != repr(want) or arr.tolist() != vals:
                res.failures.append({'signature': f'{res.pid}:{name}:caller-array-modified:{enc_list(h)}',
                                     'clause': "the caller's history array was modified / a count on the shared array differs from the count of a fresh copy",
                                     'api': API[name], 'input': case, 'impl_output': {'array_after': arr.tolist(), 'shared': repr(got)[:200], 'fresh': repr(want)[:200]}})
                arr = np.array(vals, dtype=float)


def mutate_in_place(r):
    """what a caller may do with a result it owns: extend the outer list, extend / clear inner lists"""
    try:
        if isinstance(r, tuple):
            for part in r:
                mutate_in_place(part)
            return
        if isinstance(r, list):
            if r and all(isinstance(v, (int, float)) for v in r):
                # a flat list of numbers (filter / digitisation output): normalised in place and extended by the caller
                top = max(abs(float(v)) for v in r) or 1.0
                r[:] = [float(v) / top - 0.25 for v in r]
                r.append(-12345.0)
                return
            for inner in r:
                if isinstance(inner, list):
                    inner.append(-12345.0)
            r.append([777.0, 888.0])
    except Exception:  # noqa
        pass


def fresh_results(res, calls):
    """every call returns a result of its own: `calls` is a list of (api, thunk, description); each thunk is called, its result copied, then
    modified in place by the 'caller', and after ALL of them the thunks are called again: each must return what it returned the first time
    (a shared module-level default list would by then carry the caller's modifications)"""
    import copy
    first = []
    for api, thunk, desc in calls:
        try:
            r = thunk()
        except Exception as e:  # noqa
            first.append(None)
            if not desc.startswith('(may raise)'):
                res.failures.append({'signature': f'{res.pid}:{api}:fresh-result:first-call-raises:{desc}',
                                     'clause': 'a valid call raised after the caller modified (in place) results returned by earlier calls: ' + repr(e)[:80],
                                     'api': api, 'input': desc})
            continue
        first.append(copy.deepcopy(r))
        mutate_in_place(r)
    for (api, thunk, desc), want in zip(calls, first):
        if want is None:
            continue
        res.evaluations += 1
        res.stat('result_owned_by_the_caller')
        try:
            again = thunk()
        except Exception as e:  # noqa
            res.failures.append({'signature': f'{res.pid}:{api}:fresh-result:raises:{desc}', 'clause': 'a repeated call raised after the caller modified the first result: ' + repr(e)[:80],
                                 'api': api, 'input': desc})
            continue
        if repr(again) != repr(want):
            res.failures.append({'signature': f'{res.pid}:{api}:fresh-result:{desc}', 'clause': 'the result of a call changed after the caller modified (in place) a result returned earlier',
                                 'api': api, 'input': desc, 'impl_output': {'first': repr(want)[:200], 'again': repr(again)[:200]}})


def micro_stream(res, names, rng, k, pred=None):
    """micro ties: the shape of a tie-rich history of small integers with every point moved by 0, 1, 2 or 3 units of 2^-40 (all
    values and differences still exact in binary64).  Ranges that tie in the integer shape now differ by ~1e-12, far below the
    8 decimals to which aggregated ranges are rounded: a comparison carried out on rounded ranges, or with a tolerance derived from
    globalConfig.atol, changes which cycles are extracted, exact arithmetic does not.  The cycle-by-cycle list (not rounded by the
    implementation) is compared exactly with the model; the aggregated table must be the histogram of the own list at 8 digits."""
    core.import_impl()
    from ffpack import lcc
    S = 40
    reqs, meta = [], []
    for _ in range(k):
        while True:
            b, _s = core.gen_history(rng, maxlen=16, closed=(rng.random() < 0.4))
            if max(abs(v) for v in b) < 2048 and len(set(b)) >= 2:
                break
        h = [v * (1 << S) + rng.choice([0, 0, 1, -1, 2, 3]) for v in b]
        if b[0] == b[-1] and rng.random() < 0.8:
            h[-1] = h[0]
        for name in names:
            if not valid_for(name, h):
                continue
            f = getattr(lcc, API[name])
            data = floats(h, S)
            res.evaluations += 1
            res.stat('micro_tie_history')
            try:
                seq = f(list(data), aggregate=False)
                agg = f(list(data), aggregate=True)
                seq = [] if seq == [[]] else seq
                agg = [] if agg == [[]] else agg
                cs = [(to_grid(a, S), to_grid(b2, S), units(c)) for a, b2, c in seq]
            except Exception as e:  # noqa
                res.failures.append({'signature': f'{res.pid}:{name}:micro-tie:{type(e).__name__}:{enc_list(h)}',
                                     'clause': 'valid history (values k * 2^-40) raised or returned off-grid end points: ' + repr(e)[:120],
                                     'api': API[name], 'input': h, 'scale': S})
                continue
            want = {}
            for a, b2, c in seq:
                key = float(round(abs(b2 - a), 8))
                want[key] = want.get(key, 0) + float(c)
            want = sorted(want.items())
            got = [(float(x), float(c)) for x, c in agg]
            if len(got) != len(want) or any(abs(g[0] - w[0]) > 1e-12 or g[1] != w[1] for g, w in zip(got, want)):
                res.failures.append({'signature': f'{res.pid}:{name}:micro-tie:histogram:{enc_list(h)}',
                                     'clause': 'aggregated table is not the histogram of the cycle list at 8 digits (values k * 2^-40)',
                                     'api': API[name], 'input': h, 'scale': S, 'impl_output': {'table': got[:8], 'histogram_of_own_cycles': want[:8]}})
            reqs.append(model_line(name, h))
            meta.append(('corr', name, h, cs))
            if pred is not None:
                # the property predicates on the implementation's own cycle list (with its exact histogram as the table)
                line = pred(name, h, {'seq': cs, 'table': exact_table(cs)})
                if line:
                    reqs.append(line)
                    meta.append(('pred', name, h, cs))
    for (kind, name, h, cs), ans in zip(meta, core.driver_batch(reqs)):
        if kind == 'pred':
            if ans != 'ok':
                res.failures.append({'signature': f'{res.pid}:{name}:micro-tie:{ans}:{enc_list(h)}', 'clause': ans + ' (values k * 2^-40)',
                                     'api': API[name], 'input': h, 'scale': S, 'impl_output': enc_cycs(cs)})
            continue
        res.traces += 1
        if enc_cycs(cs) != ans.split(' ')[0]:
            res.disagreements.append({'what': f'{API[name]} vs model (cycle list, micro ties on the 2^-40 grid)', 'input': h, 'scale': S,
                                      'impl': enc_cycs(cs), 'model': ans.split(' ')[0]})


def extreme_scale_stream(res, names, rng, k):
    """histories of extreme magnitude: small integers times an exact power of two, 2^-1000 … 2^900 (strains in units of 1e-300 or
    loads of 1e270 are absurd, but the counting rules compare values and never multiply them: a product of two slopes, or a squared
    range, under- or overflows here).  The cycle-by-cycle list (which the implementation does not round) must be the model's list
    of the integer history, scaled — exactly."""
    import math
    core.import_impl()
    from ffpack import lcc
    reqs, meta = [], []
    for _ in range(k):
        while True:
            b, _s = core.gen_history(rng, maxlen=14, closed=(rng.random() < 0.4))
            if max(abs(v) for v in b) < 2048 and len(set(b)) >= 2:
                break
        e = rng.choice([-1000, -700, -560, 480, 900, 37, 44, 100])
        data = [math.ldexp(float(v), e) for v in b]
        for name in names:
            if not valid_for(name, b):
                continue
            f = getattr(lcc, API[name])
            res.evaluations += 1
            res.stat('extreme_magnitude_2^%d' % e)
            try:
                seq = f(list(data), aggregate=False)
                seq = [] if seq == [[]] else seq
                cs = []
                for a, b2, c in seq:
                    xa, xb = math.ldexp(float(a), -e), math.ldexp(float(b2), -e)
                    if xa != int(xa) or xb != int(xb):
                        raise OffGrid(repr((a, b2)))
                    cs.append((int(xa), int(xb), units(c)))
            except Exception as ex:  # noqa
                res.failures.append({'signature': f'{res.pid}:{name}:extreme-scale:{type(ex).__name__}:{enc_list(b)}:{e}',
                                     'clause': 'valid history (small integers times 2^%d) raised or returned points that are not its samples: %s' % (e, repr(ex)[:100]),
                                     'api': API[name], 'input': b, 'power_of_two': e})
                continue
            if e > 0:
                # large magnitudes (1e11 … 1e270): every range is an integer times 2^e, rounding to 8 decimals changes nothing, so the aggregated
                # table must be exactly the histogram of the cycle list (binning through a 64-bit integer of range * 1e8 overflows from 9.2e10 on)
                try:
                    agg = f(list(data), aggregate=True)
                    agg = [] if agg == [[]] else agg
                    got = [(float(r), float(c)) for r, c in agg]
                except Exception as ex:  # noqa
                    got = 'raised ' + type(ex).__name__ + ': ' + str(ex)[:80]
                want = {}
                for a, b2, c in seq:
                    want[abs(float(b2) - float(a))] = want.get(abs(float(b2) - float(a)), 0.0) + float(c)
                want = sorted(want.items())
                if got != want:
                    res.failures.append({'signature': f'{res.pid}:{name}:extreme-scale:table:{enc_list(b)}:{e}',
                                         'clause': 'aggregated table of the history times 2^%d is not the histogram of its cycle list' % e,
                                         'api': API[name], 'input': b, 'power_of_two': e, 'impl_output': {'table': got if isinstance(got, str) else got[:6], 'histogram': want[:6]}})
            reqs.append(model_line(name, b))
            meta.append((name, b, e, cs))
    for (name, b, e, cs), ans in zip(meta, core.driver_batch(reqs)):
        res.traces += 1
        if enc_cycs(cs) != ans.split(' ')[0]:
            res.failures.append({'signature': f'{res.pid}:{name}:extreme-scale:cycles:{enc_list(b)}:{e}',
                                 'clause': 'the cycle list of the history times 2^%d is not the scaled cycle list of the history' % e,
                                 'api': API[name], 'input': b, 'power_of_two': e, 'impl_output': enc_cycs(cs), 'model': ans.split(' ')[0]})


def config_cycles_stream(res, names, rng, k):
    """the configured digits round the REPORTED ranges of the aggregated table; which cycles are extracted is decided on the values
    themselves.  Histories on the 1/32 grid whose neighbouring ranges differ by 1/32 or 2/32, counted under globalConfig.atol = 1 and 0:
    the cycle-by-cycle list is the model's, exactly"""
    core.import_impl()
    from ffpack import lcc
    S = 5
    reqs, meta = [], []
    for _ in range(k):
        while True:
            b, _s = core.gen_history(rng, maxlen=12, closed=(rng.random() < 0.4))
            if max(abs(v) for v in b) < 64 and len(set(b)) >= 2:
                break
        h = [v * 32 + rng.choice([0, 0, 1, -1, 2]) for v in b]
        if b[0] == b[-1] and rng.random() < 0.7:
            h[-1] = h[0]
        digits = rng.choice([1, 0, 1, 2])
        for name in names:
            if not valid_for(name, h):
                continue
            f = getattr(lcc, API[name])
            res.evaluations += 1
            res.stat('cycles_under_globalConfig_atol_%d' % digits)
            try:
                with with_atol(digits):
                    seq = f(floats(h, S), aggregate=False)
                seq = [] if seq == [[]] else seq
                cs = [(to_grid(a, S), to_grid(b2, S), units(c)) for a, b2, c in seq]
            except Exception as e:  # noqa
                res.failures.append({'signature': f'{res.pid}:{name}:config-cycles:{type(e).__name__}:{enc_list(h)}:{digits}',
                                     'clause': 'valid history (values k / 32) raised under globalConfig.atol = %d: %s' % (digits, repr(e)[:80]),
                                     'api': API[name], 'input': h, 'scale': S, 'globalConfig.atol': digits})
                continue
            reqs.append(model_line(name, h))
            meta.append((name, h, digits, cs))
    for (name, h, digits, cs), ans in zip(meta, core.driver_batch(reqs)):
        res.traces += 1
        if enc_cycs(cs) != ans.split(' ')[0]:
            res.failures.append({'signature': f'{res.pid}:{name}:config-cycles:{enc_list(h)}:{digits}',
                                 'clause': 'the cycles extracted under globalConfig.atol = %d are not those of the history (near-tie ranges on the 1/32 grid)' % digits,
                                 'api': API[name], 'input': h, 'scale': S, 'globalConfig.atol': digits, 'impl_output': enc_cycs(cs), 'model': ans.split(' ')[0]})


def narrow_dtype_stream(res, names, rng, k):
    """histories that fill a narrow integer dtype (raw ADC counts: int8 in -120..120, uint8 in 0..250, int16 in -30000..30000) given as
    arrays of that dtype: the values fit, their differences do not.  Cycle list and table must be those of the same numbers as floats,
    and the cycle list the model's."""
    import numpy as np
    core.import_impl()
    from ffpack import lcc
    reqs, meta = [], []
    for _ in range(k):
        dt, lo, hi = rng.choice([(np.int8, -120, 120), (np.uint8, 0, 250), (np.int16, -30000, 30000), (np.uint16, 0, 60000)])
        n = rng.choice([4, 5, 7, 9, 12])
        grid = rng.choice([1, (hi - lo) // 6, (hi - lo) // 3])
        h = [lo + (rng.randrange(0, (hi - lo) // grid + 1) * grid) for _ in range(n)]
        if rng.random() < 0.5:
            h[rng.randrange(n)] = hi
            h[rng.randrange(n)] = lo
        if rng.random() < 0.3:
            h[-1] = h[0]
        if len(set(h)) < 2:
            continue
        for name in names:
            if not valid_for(name, h):
                continue
            f = getattr(lcc, API[name])
            res.evaluations += 1
            res.stat('narrow_dtype_' + dt.__name__)
            outs = {}
            for label, data in (('float', [float(v) for v in h]), (dt.__name__, np.array(h, dtype=dt))):
                try:
                    seq = f(data, aggregate=False)
                    agg = f(data if label == 'float' else np.array(h, dtype=dt), aggregate=True)
                    seq = [] if seq == [[]] else seq
                    agg = [] if agg == [[]] else agg
                    outs[label] = ([(float(a), float(b), float(c)) for a, b, c in seq], [(float(r), float(c)) for r, c in agg])
                except Exception as e:  # noqa
                    outs[label] = 'raised ' + type(e).__name__ + ': ' + str(e)[:80]
            if outs['float'] != outs[dt.__name__]:
                res.failures.append({'signature': f'{res.pid}:{name}:narrow-dtype:{dt.__name__}:{enc_list(h)}',
                                     'clause': 'cycle list / table of a %s array differ from those of the same numbers as floats' % dt.__name__,
                                     'api': API[name], 'input': h, 'dtype': dt.__name__,
                                     'impl_output': {k2: (v if isinstance(v, str) else {'cycles': v[0][:6], 'table': v[1][:6]}) for k2, v in outs.items()}})
                continue
            if isinstance(outs['float'], str):
                continue
            try:
                cs = [(to_grid(a, 0), to_grid(b, 0), units(c)) for a, b, c in outs['float'][0]]
            except OffGrid:
                continue
            reqs.append(model_line(name, h))
            meta.append((name, h, cs))
    for (name, h, cs), ans in zip(meta, core.driver_batch(reqs)):
        res.traces += 1
        if enc_cycs(cs) != ans.split(' ')[0]:
            res.disagreements.append({'what': f'{API[name]} vs model (cycle list, wide integer history)', 'input': h, 'impl': enc_cycs(cs), 'model': ans.split(' ')[0]})


def run_impl(name, h, s):
    """-> {'seq': [(a,b,u)], 'table': [(k,u)]} on the integer grid, or {'error': kind}"""
    core.import_impl()
    from ffpack import lcc
    f = getattr(lcc, API[name])
    data = as_container(floats(h, s), h, s)
    try:
        seq = f(data, aggregate=False)
        agg = f(as_container(floats(h, s), h, s), aggregate=True)
    except ValueError:
        return {'error': 'ValueError'}
    except Exception as e:  # noqa
        return {'error': 'other:' + type(e).__name__}
    try:
        if seq == [[]]:
            seq = []
        cs = [(to_grid(a, s), to_grid(b, s), units(c)) for a, b, c in seq]
        if agg == [[]]:
            agg = []
        t = [(to_grid(k, s), units(c)) for k, c in agg]
        if any(k < 0 for k, _ in t):
            raise OffGrid('negative range key')
    except (OffGrid, TypeError, ValueError) as e:
        return {'error': 'offgrid:' + str(e), 'raw': repr((seq, agg))[:300]}
    return {'seq': cs, 'table': t}


def model_line(name, h):
    return f'count {name} {enc_list(h)}'


def impl_line(out):
    if 'error' in out:
        return 'error:' + out['error']
    return enc_cycs(out['seq']) + ' ' + enc_table(out['table'])


def nontrivial_key(h):
    """a history is non-trivial when it has at least 3 reversals; distinct by its value tuple"""
    d = [h[0]]
    for v in h[1:]:
        if v != d[-1]:
            d.append(v)
    turns = sum(1 for i in range(1, len(d) - 1) if (d[i] - d[i - 1]) * (d[i + 1] - d[i]) < 0)
    return turns >= 1


def hist_stats(res, h):
    res.stat('len_%s' % ('2-4' if len(h) <= 4 else '5-9' if len(h) <= 9 else '10-19' if len(h) <= 19 else '20+'))
    res.stat('alphabet_%s' % ('2-3' if len(set(h)) <= 3 else '4-6' if len(set(h)) <= 6 else '7+'))
    if any(a == b for a, b in zip(h, h[1:])):
        res.stat('with_plateau')
    if h[0] == h[-1]:
        res.stat('closed')
    ranges = [abs(a - b) for a, b in zip(h, h[1:])]
    if len(set(ranges)) < len(ranges):
        res.stat('with_tied_ranges')


def correspondence(res, names, cases, pred=None, also_invalid=True):
    """cases: list of (h, s).  For every counter in `names` valid on the case: compare the
    implementation with the model (exact), and evaluate predicate `pred(name,h,out) -> request
    line or None` on the implementation's output.  Returns the list of (name,h,s,out)."""
    reqs, meta = [], []
    for h, s in cases:
        for name in names:
            if not valid_for(name, h):
                continue
            out = run_impl(name, h, s)
            res.evaluations += 1
            if nontrivial_key(h):
                res.nontrivial.add((name, tuple(h)))
            if s >= 0:
                # exact comparison with the model only on binary grids; on a decimal grid (s < 0) differences of
                # samples carry rounding error, ties are decided by that error, and only the predicates are evaluated
                reqs.append(model_line(name, h))
                meta.append(('corr', name, h, s, out))
            else:
                res.stat('decimal_grid_predicate_only')
                if 'error' in out:
                    res.failures.append({'signature': f'{res.pid}:{name}:decimal-grid:{out["error"]}:{enc_list(h)}:{s}',
                                         'clause': 'valid decimal history: ' + out['error'], 'api': API[name], 'input': h,
                                         'scale': s, 'impl_output': out.get('raw')})
            if pred is not None and 'error' not in out:
                line = pred(name, h, out)
                if line:
                    reqs.append(line)
                    meta.append(('pred', name, h, s, out))
    answers = core.driver_batch(reqs)
    runs = []
    for (kind, name, h, s, out), ans in zip(meta, answers):
        if kind == 'corr':
            runs.append((name, h, s, out))
            res.traces += 1
            if impl_line(out) != ans:
                res.disagreements.append({'what': f'{API[name]} vs model', 'input': h, 'scale': s,
                                          'impl': impl_line(out), 'model': ans})
        else:
            if ans != 'ok':
                res.failures.append({'signature': f'{res.pid}:{name}:{ans}:{enc_list(h)}',
                                     'clause': ans, 'api': API[name], 'input': h, 'scale': s,
                                     'impl_output': impl_line(out)})
    return runs
