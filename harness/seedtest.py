"""Self-test of the machinery against seeded changes (not part of any registered command).

Needs numpy + scipy for /venv (to run the repository's 586 tests on the changed copy); create them once, offline, with
    /venv/bin/pip install --no-index --find-links /opt/veriftools/wheels --target /tmp/pydeps numpy scipy
(about 200 MB; scratch, removed after use).

    python3-vt harness/seedtest.py <mutation-dir> <Cxx> [other Cyy ...]

<mutation-dir> holds patch.diff, demo.py (exit 0 = property holds on its input, 1 = violated; reads the
source path from $FFSRC) and meta.json.  The patch is applied to a scratch COPY of /repo/src (never to
/repo itself), the full repository test suite is run on the patched copy (expect pass); the demo is run on the clean copy (expect 0) and on the patched copy (expect 1); then
the named checks are run with VERIF_REPO pointing at the patched copy (expect exit 1 + a VIOLATION
line) and the result is printed as one JSON line.  The scratch copy is removed afterwards and the
generated Lean files are restored from the clean tree.
"""
import json
import os
import shutil
import subprocess
import sys
import tempfile

VERIF = os.path.dirname(os.path.dirname(os.path.abspath(__file__)))


def sh(cmd, **kw):
    p = subprocess.run(cmd, shell=isinstance(cmd, str), stdout=subprocess.PIPE, stderr=subprocess.STDOUT, text=True, **kw)
    return p.returncode, p.stdout


def main():
    mdir = os.path.abspath(sys.argv[1])
    pids = sys.argv[2:]
    scratch = tempfile.mkdtemp(prefix='seedrun_', dir='/tmp')
    out = {'mutation': mdir, 'checks': {}}
    try:
        sh(['rsync', '-a', '--exclude', '.git', '--exclude', '__pycache__', '/repo/', scratch + '/'])
        env = dict(os.environ, FFSRC=os.path.join(scratch, 'src'))
        rc0, o0 = sh(['python3-vt', os.path.join(mdir, 'demo.py')], env=env)
        out['demo_clean_rc'] = rc0
        rc, o = sh(['patch', '-p1', '-d', scratch, '-i', os.path.join(mdir, 'patch.diff')])
        out['patch_applies'] = rc == 0
        if rc != 0:
            out['patch_output'] = o[-500:]
        rc1, o1 = sh(['python3-vt', os.path.join(mdir, 'demo.py')], env=env)
        out['demo_mutant_rc'] = rc1
        out['demo_mutant_tail'] = o1[-300:]
        # the existing test suite must still pass on the changed tree
        envt = dict(os.environ, PYTHONPATH='/tmp/pydeps:' + os.path.join(scratch, 'src'))
        rct, ot = sh(['/venv/bin/python', '-m', 'pytest', '-q', '-p', 'no:cacheprovider', '-x'], env=envt, cwd=scratch)
        out['suite_rc'] = rct
        out['suite_tail'] = ot.strip().split('\n')[-1][-120:]
        # a private copy of the lake project (with its build products): the checks regenerate Gen/*.lean from the changed source, and
        # several self-tests may run side by side
        leandir = os.path.join(scratch, '_lean')
        sh(['cp', '-r', os.path.join(VERIF, 'lean', 'FFVerif'), leandir])
        for pid in pids:
            env2 = dict(os.environ, VERIF_REPO=scratch, VERIF_LEAN_DIR=leandir, VERIF_REPLAY_DIR=os.path.join(scratch, '_replays'),
                        VERIF_EVIDENCE_DIR=os.path.join(scratch, '_evidence'))
            rc, o = sh([os.path.join(VERIF, 'check'), pid, '--tier', 'quick'], env=env2, cwd=VERIF)
            lines = [l for l in o.split('\n') if l.startswith('VIOLATION') or l.startswith('PASS') or l.startswith('FAIL')]
            detail = None
            rp = os.path.join(scratch, '_replays', f'{pid}_quick_{os.environ.get("VERIF_SEED", "0")}.json')
            if rc == 1 and os.path.exists(rp):
                d = json.load(open(rp))
                f = d.get('failure') or {}
                detail = {'kind': d.get('kind'), 'clause': f.get('clause'), 'input': str(f.get('input'))[:200],
                          'no_longer_checks': str(d.get('no_longer_checks'))[:200] if not f else None}
            out['checks'][pid] = {'rc': rc, 'lines': lines, 'detail': detail}
    finally:
        shutil.rmtree(scratch, ignore_errors=True)
    out['caught_by'] = [p for p, v in out['checks'].items() if v['rc'] == 1]
    print(json.dumps(out))


if __name__ == '__main__':
    main()
