"""Shared machinery of the ffpack verification checks (see /verif/DESIGN.md §2).

Everything here is run by `python3-vt` (CPython 3.11 + numpy + scipy); the implementation under
test is imported in-process from $VERIF_REPO/src (default /repo/src), i.e. from the current
working tree, never from the installed wheel.
"""
import fcntl
import json
import os
import random
import re
import subprocess
import sys
import time
import warnings

VERIF = os.path.dirname(os.path.dirname(os.path.abspath(__file__)))
REPO = os.environ.get('VERIF_REPO', '/repo')
LEAN = os.environ.get('VERIF_LEAN_DIR') or os.path.join(VERIF, 'lean', 'FFVerif')      # (the self-test harness points this at a scratch copy)
DRIVER = os.path.join(LEAN, '.lake', 'build', 'bin', 'ffdriver')
REPLAYS = os.environ.get('VERIF_REPLAY_DIR') or os.path.join(VERIF, 'replays')
ALLOWED_AXIOMS = {'propext', 'Classical.choice', 'Quot.sound'}
TRUSTED_BASE_COMMON = [
    'Lean 4.33 kernel (lake build); axioms audited per theorem: subset of {propext, Classical.choice, Quot.sound}',
    'no sorry/admit/native_decide/bv_decide/implemented_by/unsafe/axiom in the project (grep on every run)',
    'harness (python3-vt): generators, canonicalisation, line protocol, the correspondence differ',
    'binary64 rounding outside the exact dyadic grid is modelled, not verified',
]


class Infra(Exception):
    """infrastructure failure -> exit 2"""


def import_impl():
    """import ffpack from the working tree and make sure that is what we got"""
    src = os.path.join(REPO, 'src')
    if src not in sys.path:
        sys.path.insert(0, src)
    warnings.filterwarnings('ignore')
    import ffpack  # noqa
    got = os.path.realpath(os.path.dirname(ffpack.__file__))
    want = os.path.realpath(os.path.join(src, 'ffpack'))
    if got != want:
        raise Infra(f'ffpack imported from {got}, expected {want}')
    return ffpack


# --------------------------------------------------------------------------------------------
# Lean side: build, audit, forbidden-token scan, driver
# --------------------------------------------------------------------------------------------

class LeanLock:
    def __enter__(self):
        os.makedirs(os.path.join(LEAN, '.lake'), exist_ok=True)
        self.f = open(os.path.join(LEAN, '.lake', 'verif.lock'), 'w')
        fcntl.flock(self.f, fcntl.LOCK_EX)
        return self

    def __exit__(self, *a):
        fcntl.flock(self.f, fcntl.LOCK_UN)
        self.f.close()


def run(cmd, cwd=None, timeout=3600, env=None):
    p = subprocess.run(cmd, cwd=cwd, stdout=subprocess.PIPE, stderr=subprocess.STDOUT, text=True,
                       timeout=timeout, env=env)
    return p.returncode, p.stdout


def lake_build(targets, clean_modules=()):
    """build the given lake targets; returns (ok, log).  `clean_modules`: module names whose
    build products are deleted first (thorough tier: force a re-check of the proofs)."""
    with LeanLock():
        for m in clean_modules:
            base = os.path.join(LEAN, '.lake', 'build', 'lib', 'lean', *m.split('.'))
            for ext in ('.olean', '.ilean', '.trace', '.olean.hash', '.ilean.hash', '.olean.server',
                        '.olean.private', '.c', '.c.hash'):
                try:
                    os.remove(base + ext)
                except OSError:
                    pass
        rc, out = run(['lake', 'build'] + list(targets), cwd=LEAN, timeout=7200)
    return rc == 0, out


def load_obligations(pid):
    with open(os.path.join(VERIF, 'harness', 'obligations.json')) as f:
        ob = json.load(f)
    return ob[pid]


def _olean_digest(modules, theorems):
    """digest of the compiled files the audit reads: the same .olean files give the same answer"""
    import hashlib
    h = hashlib.sha256()
    root = os.path.join(LEAN, '.lake', 'build', 'lib', 'lean')
    for dirpath, _dirs, files in sorted(os.walk(root)):
        for fn in sorted(files):
            if fn.endswith('.olean'):
                p = os.path.join(dirpath, fn)
                h.update(os.path.relpath(p, root).encode())
                with open(p, 'rb') as f:
                    h.update(hashlib.sha256(f.read()).digest())
    h.update(json.dumps([sorted(modules), list(theorems)]).encode())
    return h.hexdigest()


def audit(pid, modules, theorems):
    """`#print axioms` on every named theorem.  Returns dict name -> ('ok'|'missing'|'axioms', detail).
    The answer is remembered per digest of ALL compiled .olean files of the project (plus module and theorem lists): identical
    compiled files cannot give a different answer, anything rebuilt gives a new digest."""
    os.makedirs(os.path.join(LEAN, '.lake', 'audit'), exist_ok=True)
    cache_path = os.path.join(LEAN, '.lake', 'audit', 'cache.json')
    digest = None
    if os.environ.get('VERIF_AUDIT_CACHE', '1') != '0':
        try:
            digest = _olean_digest(modules, theorems)
            cache = json.load(open(cache_path)) if os.path.exists(cache_path) else {}
            if digest in cache and set(cache[digest]) == set(theorems):
                return {t: tuple(v) for t, v in cache[digest].items()}
        except Exception:  # noqa
            digest = None
    path = os.path.join(LEAN, '.lake', 'audit', f'Audit_{pid}_{os.getpid()}.lean')
    with open(path, 'w') as f:
        for m in modules:
            f.write(f'import {m}\n')
        for t in theorems:
            f.write(f'#print axioms {t}\n')
    with LeanLock():
        rc, out = run(['lake', 'env', 'lean', path], cwd=LEAN, timeout=3600)
    os.remove(path)
    res = {}
    # output:  'name' depends on axioms: [a, b]   |   'name' does not depend on any axioms  | error
    text = out.replace('\n  ', ' ').replace('\n ', ' ')
    for t in theorems:
        m = re.search(r"'" + re.escape(t) + r"' depends on axioms: \[([^\]]*)\]", text)
        if m:
            ax = {a.strip() for a in m.group(1).split(',') if a.strip()}
            bad = ax - ALLOWED_AXIOMS
            res[t] = ('ok', sorted(ax)) if not bad else ('axioms', sorted(bad))
        elif re.search(r"'" + re.escape(t) + r"' does not depend on any axioms", text):
            res[t] = ('ok', [])
        else:
            res[t] = ('missing', out[-2000:])
    if digest is not None and all(v[0] == 'ok' for v in res.values()):
        try:
            with LeanLock():
                cache = json.load(open(cache_path)) if os.path.exists(cache_path) else {}
                cache = dict(list(cache.items())[-40:])
                cache[digest] = {t: list(v) for t, v in res.items()}
                json.dump(cache, open(cache_path, 'w'))
        except Exception:  # noqa
            pass
    return res


FORBIDDEN = re.compile(r'\b(sorry|admit|native_decide|bv_decide|implemented_by|unsafe)\b|^\s*axiom\s|maxHeartbeats\s+0\b')


def strip_comments(text):
    # remove /- ... -/ (nested) and -- line comments
    out = []
    i, depth, n = 0, 0, len(text)
    while i < n:
        if text.startswith('/-', i):
            depth += 1
            i += 2
        elif depth and text.startswith('-/', i):
            depth -= 1
            i += 2
        elif depth:
            if text[i] == '\n':
                out.append('\n')
            i += 1
        elif text.startswith('--', i):
            while i < n and text[i] != '\n':
                i += 1
        else:
            out.append(text[i])
            i += 1
    return ''.join(out)


def forbidden_scan():
    hits = []
    for root, dirs, files in os.walk(LEAN):
        dirs[:] = [d for d in dirs if d != '.lake']
        for fn in files:
            if fn.endswith('.lean'):
                p = os.path.join(root, fn)
                body = strip_comments(open(p).read())
                # string literals may legitimately contain words; drop them
                body = re.sub(r'"(\\.|[^"\\])*"', '""', body)
                for ln, line in enumerate(body.split('\n'), 1):
                    if FORBIDDEN.search(line):
                        hits.append(f'{os.path.relpath(p, LEAN)}:{ln}: {line.strip()[:100]}')
    return hits


def driver_batch(lines, timeout=3600):
    """send request lines to the compiled model driver, return the answer lines"""
    if not os.path.exists(DRIVER):
        raise Infra('model driver not built: ' + DRIVER)
    if not lines:
        return []
    p = subprocess.run([DRIVER], input='\n'.join(lines) + '\n', stdout=subprocess.PIPE,
                       stderr=subprocess.PIPE, text=True, timeout=timeout)
    if p.returncode != 0:
        raise Infra(f'model driver failed rc={p.returncode}: {p.stderr[-500:]}')
    out = p.stdout.split('\n')
    if out and out[-1] == '':
        out.pop()
    if len(out) != len(lines):
        raise Infra(f'model driver answered {len(out)} lines for {len(lines)} requests')
    return out


# --------------------------------------------------------------------------------------------
# encoding of list-engine values
# --------------------------------------------------------------------------------------------

def enc_list(xs):
    return ','.join(str(int(x)) for x in xs) if len(xs) else '-'


def enc_cycs(cs):
    return ','.join(f'{a}:{b}:{u}' for a, b, u in cs) if len(cs) else '-'


def enc_table(t):
    return ','.join(f'{k}:{u}' for k, u in t) if len(t) else '-'


class OffGrid(Exception):
    pass


def to_grid(v, s):
    """float output -> integer on the 2^-s grid; anything else is an off-grid result.
    s < 0 denotes the decimal grid 10^s, whose points are not binary64 numbers: outputs are accepted within 1e-6
    of a grid point (the implementation itself rounds aggregated ranges to 8 decimals)."""
    if s < 0:
        x = float(v) * 10 ** (-s)
        r = round(x)
        if x != x or abs(x - r) > 1e-6:
            raise OffGrid(repr(v))
        return int(r)
    x = float(v) * (1 << s)
    if x != x or abs(x) > 2 ** 52 or x != int(x):
        raise OffGrid(repr(v))
    return int(x)


def digitise_ref(d, res):
    """rint(d / resolution) * resolution in IEEE binary64, computed independently of numpy: the quotient of the two doubles is
    formed exactly (Fraction) and rounded once to binary64 (Fraction -> float is correctly rounded), Python's round() is
    round-half-even on that double, and the product with the resolution is one binary64 multiplication"""
    from fractions import Fraction
    q = float(Fraction(float(d)) / Fraction(float(res)))
    return float(round(q)) * float(res)


def units(c):
    """count 0.5 / 1 -> half-units"""
    x = float(c) * 2
    if x != int(x):
        raise OffGrid('count ' + repr(c))
    return int(x)


# --------------------------------------------------------------------------------------------
# history generators (DESIGN §5 C01: tie-rich alphabets, plateaus, monotone stretches, closed)
# --------------------------------------------------------------------------------------------

def gen_history(rng, maxlen=40, closed=None):
    """returns (ints, s): the history is ints * 2^-s"""
    kind = rng.random()
    n = rng.choice([2, 3, 3, 4, 4, 5, 5, 6, 6, 7, 8, 9, 10, 12, 15, 20, 30, maxlen])
    n = min(n, maxlen)
    asize = rng.choice([2, 3, 3, 4, 4, 5, 6, 8, 12, 20])
    if kind < 0.5:
        alpha = list(range(asize))
    elif kind < 0.8:
        alpha = sorted(rng.sample(range(-60, 61), asize))
    else:
        alpha = sorted(rng.sample(range(-(1 << 19), 1 << 19), asize))
    style = rng.random()
    if style < 0.45:
        h = [rng.choice(alpha) for _ in range(n)]
    elif style < 0.7:
        # walk on the alphabet indices
        i = rng.randrange(asize)
        h = []
        for _ in range(n):
            h.append(alpha[i])
            i = max(0, min(asize - 1, i + rng.choice([-2, -1, -1, 0, 1, 1, 2])))
    else:
        # zigzag with growing / shrinking amplitudes (nested loops)
        h = []
        sign = rng.choice([-1, 1])
        for k in range(n):
            amp = rng.choice(alpha) if rng.random() < 0.5 else alpha[(k * 7) % asize]
            h.append(sign * abs(amp))
            sign = -sign
    # plateau / monotone stretch injection
    if rng.random() < 0.35 and len(h) >= 2:
        out = []
        for a in h:
            out.append(a)
            r = rng.random()
            if r < 0.2:
                out.append(a)
            if r < 0.05:
                out.append(a)
        h = out[:maxlen]
    if closed is None:
        closed = rng.random() < 0.25
    if closed and len(h) >= 2:
        mode = rng.random()
        if mode < 0.4:
            h[-1] = h[0]
        elif mode < 0.7:
            m = max(h)
            h = [m] + h + [m]
        else:
            m = min(h)
            h = [m] + h + [m]
    s = rng.choice([0, 0, 0, 1, 2, 3, 8])
    if rng.random() < 0.12 and max(abs(v) for v in h) < 4096:
        # near ties: the same shape blown up by 2^20 with points moved by one or two grid steps, so that ranges
        # which tie exactly in the small history differ by ~1e-6 relative (a tolerance such as np.isclose in a
        # comparison of the implementation changes the answer, exact arithmetic does not); still exact in binary64
        h = [v * (1 << 20) + rng.choice([0, 0, 0, 1, -1, 2]) for v in h]
        if closed and len(h) >= 2 and rng.random() < 0.7:
            h[-1] = h[0]
    return h, s


def small_histories(maxlen, nvals, minlen=2):
    import itertools
    for n in range(minlen, maxlen + 1):
        for t in itertools.product(range(nvals), repeat=n):
            yield list(t)


def shrink_history(h, fails):
    """greedy shrink: delete points, then lower values; `fails(h)` -> bool"""
    h = list(h)
    changed = True
    while changed:
        changed = False
        for i in range(len(h)):
            c = h[:i] + h[i + 1:]
            if len(c) >= 2 and fails(c):
                h = c
                changed = True
                break
    # normalise values to ranks when still failing
    ranks = {v: i for i, v in enumerate(sorted(set(h)))}
    c = [ranks[v] for v in h]
    if fails(c):
        h = c
    return h


# --------------------------------------------------------------------------------------------
# verdicts, known findings, evidence
# --------------------------------------------------------------------------------------------

def load_known():
    p = os.path.join(VERIF, 'known_findings.json')
    if not os.path.exists(p):
        return []
    with open(p) as f:
        return json.load(f).get('findings', [])


class Result:
    """collects what one check run did"""

    def __init__(self, pid, tier, seed):
        self.pid, self.tier, self.seed = pid, tier, seed
        self.t0 = time.time()
        self.obligations = []       # theorem names
        self.discharged = []
        self.proof_problems = []    # strings
        self.disagreements = []     # dicts {what, input, impl, model}
        self.failures = []          # dicts {signature, clause, input, detail}
        self.evaluations = 0
        self.nontrivial = set()
        self.samples = []
        self.stats = {}
        self.traces = 0
        self.disagreements_checked = 0
        self.notes = []
        self.trusted = list(TRUSTED_BASE_COMMON)
        self.assumptions = []
        self.exhaustive = False
        self.rule = ''
        self.checker_cmd = ''
        self.extra = {}

    def stat(self, key, n=1):
        self.stats[key] = self.stats.get(key, 0) + n


def prove(res, pid, modules, extra_targets=(), clean=False):
    """build proof modules + audit the obligations of `pid`"""
    theorems = load_obligations(pid)
    res.obligations = list(theorems)
    targets = list(modules) + ['ffdriver'] + list(extra_targets)
    ok, log = lake_build(targets, clean_modules=modules if clean else ())
    res.checker_cmd = (f'cd {os.path.relpath(LEAN, VERIF)} && lake build ' + ' '.join(targets) +
                       ' && lake env lean <#print axioms for each obligation>')
    if not ok:
        errs = [l for l in log.split('\n') if 'error' in l.lower()][:20]
        res.proof_problems.append({'kind': 'build', 'detail': errs or log[-1500:].split('\n')})
        res.extra['build_log_tail'] = log[-3000:]
        # which modules still build?  try the audit anyway on whatever is there
        return False
    hits = forbidden_scan()
    if hits:
        res.proof_problems.append({'kind': 'forbidden-token', 'detail': hits})
    if clean:
        os.environ['VERIF_AUDIT_CACHE'] = '0'          # thorough tier: the axiom audit is re-run, never remembered
    a = audit(pid, modules, theorems)
    for t in theorems:
        st, detail = a[t]
        if st == 'ok':
            res.discharged.append(t)
        else:
            res.proof_problems.append({'kind': st, 'theorem': t, 'detail': detail})
    if clean:
        with LeanLock():
            rc, out = run(['lake', 'env', 'leanchecker'] + list(modules), cwd=LEAN, timeout=7200)
        res.extra['leanchecker'] = {'rc': rc, 'tail': out[-500:]}
        if rc != 0:
            res.proof_problems.append({'kind': 'leanchecker', 'detail': out[-1500:]})
    return not res.proof_problems


def finish(res, level='proof'):
    """decide the verdict, print VIOLATION / KNOWN-FINDING lines, write evidence, return exit code"""
    pid = res.pid
    want = os.environ.get('VERIF_REPLAY_SIG')
    if want is not None:
        # replay mode: the same deterministic exploration is re-run against the current code; report whether
        # the recorded failure (by signature) still occurs.  No evidence is written.
        hit = [f for f in res.failures if f['signature'] == want]
        if hit:
            print('REPLAY: reproduced', json.dumps(hit[0], default=str)[:1500])
            return 1
        if want == '' and (res.proof_problems or res.disagreements):
            print('REPLAY: obligation / tie still broken', json.dumps(res.proof_problems, default=str)[:800],
                  json.dumps(res.disagreements[:2], default=str)[:800])
            return 1
        print('REPLAY: not reproduced on the current code')
        return 0
    known = [k for k in load_known() if k.get('property') == pid and k.get('status') == 'known']
    known_sigs = {k['signature']: k for k in known}
    new_fail, known_hit = [], {}
    for f in res.failures:
        if f['signature'] in known_sigs:
            known_hit.setdefault(f['signature'], f)
        else:
            new_fail.append(f)
    def _size(f):
        i = f.get('input')
        return len(i) if isinstance(i, (list, str)) else 0
    new_fail.sort(key=_size)
    for sig, f in known_hit.items():
        print(f"KNOWN-FINDING: property={pid} {known_sigs[sig]['what']}")
    os.makedirs(REPLAYS, exist_ok=True)
    code = 0
    broken = bool(res.proof_problems or res.disagreements)
    if new_fail:
        f = new_fail[0]
        rp = os.path.join(REPLAYS, f'{pid}_{res.tier}_{res.seed}.json')
        with open(rp, 'w') as fh:
            json.dump({'property': pid, 'kind': 'failing-input', 'tier': res.tier, 'seed': res.seed, 'failure': f,
                       'other_failures': new_fail[1:10], 'n_failures': len(new_fail),
                       'proof_problems': res.proof_problems, 'disagreements': res.disagreements[:5],
                       'replay_cmd': f'./check {pid} --replay {os.path.relpath(rp, VERIF)}'}, fh, indent=1, default=str)
        print(f'VIOLATION property={pid} replay={rp}')
        code = 1
    elif broken:
        rp = os.path.join(REPLAYS, f'{pid}_{res.tier}_{res.seed}.json')
        with open(rp, 'w') as fh:
            json.dump({'property': pid, 'kind': 'broken-obligation-or-tie', 'tier': res.tier, 'seed': res.seed,
                       'no_longer_checks': res.proof_problems,
                       'correspondence_disagreements': res.disagreements[:10],
                       'searched': res.evaluations,
                       'replay_cmd': f'./check {pid} --replay {os.path.relpath(rp, VERIF)}'}, fh, indent=1, default=str)
        print(f'VIOLATION property={pid} replay={rp} no-failing-input-found')
        code = 1
    ev = {
        'property_id': pid, 'tier': res.tier, 'seed': res.seed, 'level': level,
        'coverage': {
            'obligations': len(res.obligations), 'discharged': len(res.discharged),
            'obligation_names': res.obligations,
            'checker_cmd': res.checker_cmd, 'trusted_base': res.trusted,
            'evaluations': res.evaluations, 'distinct_nontrivial': len(res.nontrivial),
            'rule': res.rule, 'samples': res.samples[:8],
            'traces_validated_against_impl': res.traces,
            'disagreements_checked': res.disagreements_checked,
            'correspondence_disagreements': len(res.disagreements),
            'input_distribution': res.stats, 'exhaustive': res.exhaustive,
            'known_findings_hit': sorted(known_hit), 'notes': res.notes, **res.extra,
        },
        'assumptions': res.assumptions,
        'wall_s': round(time.time() - res.t0, 2),
        'violations': len(new_fail) + (1 if (broken and not new_fail) else 0),
    }
    evdir = os.environ.get('VERIF_EVIDENCE_DIR') or os.path.join(VERIF, 'evidence')      # (the self-test harness writes elsewhere)
    os.makedirs(evdir, exist_ok=True)
    with open(os.path.join(evdir, f'{pid}.json'), 'w') as fh:
        json.dump(ev, fh, indent=1, default=str)
    status = 'PASS' if code == 0 else 'FAIL'
    print(f'{status} {pid} tier={res.tier} seed={res.seed} obligations={len(res.discharged)}/{len(res.obligations)} '
          f'evaluations={res.evaluations} disagreements={len(res.disagreements)} failures={len(res.failures)} '
          f'wall={ev["wall_s"]}s')
    return code
