"""Correspondence between the executable Lean models `Model/{Linalg,Chol,Nataf,Form}.lean` (evaluated at Float by the
driver) and the implementation: `rpm.NatafTransformation` (L, rhoZ, getU, getX and the two returned matrices),
`rrm.hlrfFORM` (iterate by iterate: the limit-state callback is wrapped, so the points at which the loop evaluates g are
observed from outside), `rrm.mvalFOSM`.  Marginal families: normal and lognormal (the two whose composition with the
standard normal cdf is elementary, DESIGN §5).  Used by props/c10.py and props/c11.py.

Every disagreement is recorded with its input (`res.disagreements`); the theorems about these models are in
Proofs/C10Loop.lean and Proofs/C11Model.lean.
"""
import json
import math
import os
import struct
import core


def fbits(x):
    return str(struct.unpack('<Q', struct.pack('<d', float(x)))[0])


def fcsv(xs):
    xs = list(xs)
    return ','.join(fbits(x) for x in xs) if xs else '-'


def unbits(tok):
    if tok == '-':
        return []
    return [struct.unpack('<d', struct.pack('<Q', int(t)))[0] for t in tok.split(',')]


def zs_of(dists, X):
    """latent coordinates z_i = Phi^-1( F_i( x_i ) ) of a point, any family (nan where undefined)"""
    from scipy import stats
    out = []
    for ds, x in zip(dists, X):
        try:
            c = float(ds.cdf(float(x)))
            # the tail that is better resolved
            z = float(stats.norm.ppf(c)) if c < 0.5 else -float(stats.norm.ppf(float(ds.sf(float(x)))))
        except Exception:  # noqa
            z = float('nan')
        out.append(z)
    return out


def close(a, b, rtol, atol):
    if len(a) != len(b):
        return False
    for x, y in zip(a, b):
        if x != x or y != y:
            if not (x != x and y != y):
                return False
            continue
        if abs(x - y) > atol + rtol * max(abs(x), abs(y)):
            return False
    return True


def gen_problem(rng, np, stats, dmax=5, lognormal=True):
    """marginals (kinds, p1, p2, frozen scipy objects) and a positive-definite correlation matrix"""
    from props.c11 import random_corr
    d = rng.choice([1, 2, 2, 3, 3, 4, dmax])
    kinds, p1, p2, dists = [], [], [], []
    for _ in range(d):
        r = rng.random()
        if lognormal and r < 0.3:
            m = rng.choice([0.0, 0.5, -0.3, 1.2, 3.0])
            s = rng.choice([0.1, 0.25, 0.5, 0.8])
            kinds.append('l'); p1.append(m); p2.append(s)
            dists.append(stats.lognorm(s, scale=math.exp(m)))
        elif lognormal and r < 0.55 and os.environ.get('VERIF_MODEL_FAMILIES', 'all') == 'all':
            # the other closed-form families: the model gets their composed maps from the driver's double-precision Phi / Phi^-1
            fam = rng.choice(['e', 'u', 'g', 'w'])
            if fam == 'e':
                a, b = 0.0, rng.choice([0.5, 1.0, 2.0, 30.0])
                dists.append(stats.expon(scale=b))
            elif fam == 'u':
                a, b = rng.choice([0.0, -1.0, 10.0]), rng.choice([1.0, 3.0, 0.5])
                dists.append(stats.uniform(a, b))
            elif fam == 'g':
                a, b = rng.choice([0.0, 1.0, 20.0]), rng.choice([1.0, 2.0, 0.5])
                dists.append(stats.gumbel_r(a, b))
            else:
                a, b = rng.choice([1.5, 2.0, 3.0]), rng.choice([1.0, 2.0, 10.0])
                dists.append(stats.weibull_min(a, scale=b))
            kinds.append(fam); p1.append(a); p2.append(b)
        else:
            mu = float(rng.choice([-3, 0, 1, 2, 5, 40, 500]))
            sg = float(rng.choice([0.5, 1, 2, 3, 25]))
            kinds.append('n'); p1.append(mu); p2.append(sg)
            dists.append(stats.norm(mu, sg))
    if d > 1 and rng.random() < 0.75:
        R = np.array(random_corr(rng, d), dtype=float)
        # keep |rho| moderate: the closed forms for lognormal pairs need 1 + rho d1 d2 > 0 and the implementation's quadrature is
        # accurate to ~1e-8 only away from |rho| -> 1 (recorded finding C11 / C10 for |rho| >= 0.98)
        off = R - np.eye(d)
        m = np.max(np.abs(off))
        if m > 0.7:
            R = np.eye(d) + off * (0.7 / m)
        if rng.random() < 0.3:
            i, j = rng.sample(range(d), 2)
            R[i, j] = R[j, i] = 0.0
        if d >= 3 and rng.random() < 0.3:
            # only entries away from the first off-diagonal: e.g. variables 0 and 2 correlated, 0-1 and 1-2 not
            R = np.eye(d)
            for _ in range(rng.choice([1, 1, 2])):
                i = rng.randrange(0, d - 2)
                j = rng.randrange(i + 2, d)
                R[i, j] = R[j, i] = rng.choice([0.6, -0.5, 0.3])
        if np.min(np.linalg.eigvalsh(R)) < 0.05:
            R = np.eye(d)
    else:
        R = np.eye(d)
    return d, kinds, p1, p2, dists, R


def normal_functions(res):
    """the driver's double-precision Phi, phi, Phi^-1 (used to build the composed maps of the exponential / uniform / Gumbel / Weibull
    marginals of the model) against scipy, on a grid of z in [-8.5, 5]"""
    from scipy import stats
    zs = [-8.5, -8.0, -7.0, -6.0, -5.0, -4.0, -3.0, -2.0, -1.5, -1.0, -0.99, -0.5, -0.3, 0.0, 0.2, 0.7, 0.999, 1.0, 1.4, 2.0, 2.5, 3.0, 4.0, 5.0]
    out = unbits(core.driver_batch(['normalfloat ' + fcsv(zs)])[0])
    res.evaluations += 1
    for i, z in enumerate(zs):
        P, p, zi = out[3 * i:3 * i + 3]
        if abs(P - stats.norm.cdf(z)) > 1e-13 * stats.norm.cdf(z) or abs(p - stats.norm.pdf(z)) > 1e-13 * stats.norm.pdf(z) or abs(zi - z) > 1e-10:
            res.disagreements.append({'what': "driver's normal cdf / pdf / quantile vs scipy", 'input': z, 'model': [P, p, zi],
                                      'impl': [float(stats.norm.cdf(z)), float(stats.norm.pdf(z)), z]})


_GH = {}


def pair_latent(np, d1, d2, r):
    """the latent correlation of one pair of marginals by an INDEPENDENT route (Gauss-Hermite product rule in a rotated frame + bracketing
    root search), or None when no latent correlation in (-0.999, 0.999) reproduces r: the pair is then not admissible for the Nataf model
    (e.g. an exponential and a lognormal( 0.8 ) variable cannot be correlated -0.5)"""
    from scipy import stats, optimize
    if 'gh' not in _GH:
        xs, ws = np.polynomial.hermite_e.hermegauss(64)
        _GH['gh'] = (xs, ws / ws.sum())
    xs, ws = _GH['gh']
    A, B = np.meshgrid(xs, xs, indexing='ij')
    W = np.outer(ws, ws)
    m1, s1, m2, s2 = float(d1.mean()), float(d1.std()), float(d2.mean()), float(d2.std())
    cdf = lambda z: np.clip(stats.norm.cdf(z), 1e-300, 1.0 - 2e-16)        # (the outermost nodes carry weights below 1e-20)
    x1 = (d1.ppf(cdf(A)) - m1) / s1

    def f(rz):
        z2 = rz * A + math.sqrt(1 - rz * rz) * B
        x2 = (d2.ppf(cdf(z2)) - m2) / s2
        return float(np.sum(W * x1 * x2))
    lo, hi = f(-0.999), f(0.999)
    if not (lo == lo and hi == hi) or not (lo + 1e-6 < r < hi - 1e-6):
        return None
    return float(optimize.brentq(lambda rz: f(rz) - r, -0.999, 0.999, xtol=1e-10))


def latent_admissible(np, kinds, p2, R, dists=None):
    """does the prescribed correlation matrix lead to a positive-definite latent matrix?  Closed forms for normal / lognormal pairs; for the
    other families the latent entry is computed by `pair_latent` when the frozen distributions are given (else taken as 1.25 times the
    prescribed one).  Margin 0.02 on the smallest eigenvalue."""
    d = len(kinds)

    def lat(i1, i2):
        r = float(R[i1][i2])
        k1, k2 = kinds[i1], kinds[i2]
        if r == 0.0:
            return 0.0
        if k1 == 'n' and k2 == 'n':
            return r
        if {k1, k2} <= {'n', 'l'}:
            s1 = p2[i1] if k1 == 'l' else None
            s2 = p2[i2] if k2 == 'l' else None
            if s1 is not None and s2 is not None:
                v = 1.0 + r * math.sqrt(math.exp(s1 * s1) - 1) * math.sqrt(math.exp(s2 * s2) - 1)
                return math.log(v) / (s1 * s2) if v > 0 else float('nan')
            sl = s1 if s1 is not None else s2
            return r * math.sqrt(math.exp(sl * sl) - 1) / sl
        if dists is not None:
            v = pair_latent(np, dists[i1], dists[i2], r)
            return float('nan') if v is None else v
        return 1.25 * r
    Zm = np.array([[1.0 if a == b2 else lat(min(a, b2), max(a, b2)) for b2 in range(d)] for a in range(d)], dtype=float)
    if np.isnan(Zm).any() or (d > 1 and np.max(np.abs(Zm - np.eye(d))) >= 1.0):
        return False
    return bool(np.min(np.linalg.eigvalsh((Zm + Zm.T) / 2)) >= 0.02)


def nataf_stream(res, rng, n):
    """L, L^-1, latent correlation, getU / getX and their matrices: model vs implementation"""
    core.import_impl()
    import numpy as np
    from scipy import stats
    from ffpack import rpm
    normal_functions(res)
    reqs, meta = [], []
    for i in range(n):
        d, kinds, p1, p2, dists, R = gen_problem(rng, np, stats)
        case = {'kinds': kinds, 'p1': p1, 'p2': p2, 'corr': R.tolist()}
        if i % 7 == 0 and d > 1:
            # objects built with other quadrature settings in between: the documented parameters quadDeg / quadRange belong to the object
            # that was given them; a transformation built with the defaults afterwards must not depend on them (their own, deliberately
            # coarse, result is not looked at)
            try:
                rpm.NatafTransformation(dists, R.tolist(), quadDeg=rng.choice([99, 99, 31]), quadRange=rng.choice([2.5, 4.0, 8]))
                res.stat('nataf_other_quadrature_object_in_between')
            except Exception:  # noqa
                pass
        try:
            nat = rpm.NatafTransformation(dists, R.tolist())
            z = np.array([rng.uniform(-3, 3) for _ in range(d)])
            x = np.array([ds.ppf(stats.norm.cdf(zz)) for ds, zz in zip(dists, z)], dtype=float)
            u = np.array([rng.uniform(-2.5, 2.5) for _ in range(d)])
            U, JU = nat.getU(x.tolist())
            X, JX = nat.getX(u.tolist())
        except Exception as e:  # noqa
            # "admissible correlation matrix": the prescribed matrix must lead to a positive-definite LATENT matrix (for a lognormal variable
            # correlated 0.6 with two mutually uncorrelated normal ones it does not: 0.6 becomes 0.71 and 1 - 0.71 sqrt 2 < 0) - the
            # implementation is right to refuse such a problem.  Closed forms for normal / lognormal pairs; for the other families the
            # latent entry is at most about 1.25 times the prescribed one
            if not latent_admissible(np, kinds, p2, R, dists):
                res.stat('nataf_prescribed_correlation_not_admissible_for_these_marginals')
                continue
            res.failures.append({'signature': 'nataf-model:raised:' + json.dumps(case), 'clause': 'NatafTransformation raised on marginals and a correlation matrix '
                                 'whose latent correlation matrix is positive definite', 'input': case, 'impl_output': repr(e)[:200]})
            continue
        case.update({'x': x.tolist(), 'u': u.tolist()})
        # in the latent normal space z_i = Phi^-1( F_i( x_i ) ) the map getX is linear, z = L u: its matrix M is read off from d + 1 evaluations,
        # and a standard normal U gives Z with covariance M M^T, which must be the latent correlation matrix rhoZ of the object (whose entries are
        # compared with the closed forms below) - the correlation clause itself, evaluated on the implementation
        try:
            zof = lambda xx: np.array([stats.norm.ppf(ds.cdf(v)) for ds, v in zip(dists, xx)], dtype=float)
            z0 = zof(nat.getX([0.0] * d)[0])
            M = np.column_stack([zof(nat.getX([1.0 if kk == jj else 0.0 for kk in range(d)])[0]) - z0 for jj in range(d)])
            if not np.allclose(M @ M.T, np.array(nat.rhoZ, dtype=float), rtol=1e-7, atol=1e-8) or not np.allclose(z0, 0.0, atol=1e-9):
                res.failures.append({'signature': 'nataf-model:latent-covariance:' + json.dumps(case), 'clause': 'the variables produced from a standard normal U do not have '
                                     'the latent correlation rhoZ of the object (getX is not z = L u with L L^T = rhoZ)', 'input': case,
                                     'impl_output': {'covariance_of_Z': (M @ M.T).tolist(), 'rhoZ': np.array(nat.rhoZ).tolist()}})
        except Exception as e:  # noqa
            res.failures.append({'signature': 'nataf-model:getX-raised:' + json.dumps(case), 'clause': 'getX raised on a valid point', 'input': case, 'impl_output': repr(e)[:200]})
        reqs.append(' '.join(['nataf', str(d), ','.join(kinds), fcsv(p1), fcsv(p2), fcsv(R.flatten()), fcsv(np.array(nat.rhoZ).flatten()),
                              fcsv(x), fcsv(u)]))
        meta.append((case, nat, U, JU, X, JX, d))
        res.stat('nataf_dim_%d' % d)
        for kd in kinds:
            res.stat('nataf_family_' + kd)
        res.stat('nataf_' + ('lognormal' if 'l' in kinds else 'normal') + ('_corr' if not np.allclose(R, np.eye(d)) else '_indep'))
    outs = core.driver_batch(reqs)
    for line, (case, nat, U, JU, X, JX, d) in zip(outs, meta):
        res.evaluations += 1
        import numpy as np
        toks = line.split(' ')
        if len(toks) != 8:
            res.disagreements.append({'what': 'nataf model: bad answer', 'input': case, 'model': line[:200]})
            continue
        lat, pd, L, Linv, mU, mJU, mX, mJX = toks
        kds = case['kinds']
        nl_pair = lambda k_: kds[k_ // d] in 'nl' and kds[k_ % d] in 'nl'       # closed forms exist for normal / lognormal pairs only
        checks = [
            ('latent correlation (closed form) vs rhoZ', [v for k_, v in enumerate(unbits(lat)) if nl_pair(k_)],
             [v for k_, v in enumerate(np.array(nat.rhoZ).flatten().tolist()) if nl_pair(k_)], 0.0, 2e-6),
            ('Cholesky factor L', unbits(L), np.array(nat.L).flatten().tolist(), 1e-11, 1e-12),
            ('L^-1 (triangular solve)', unbits(Linv), np.linalg.inv(np.array(nat.L)).flatten().tolist(), 1e-9, 1e-10),
            ('getU value', unbits(mU), np.array(U).tolist(), 1e-8, 1e-8),
            ('getU matrix', unbits(mJU), np.array(JU).flatten().tolist(), 1e-7, 1e-9),
            ('getX value', unbits(mX), np.array(X).tolist(), 1e-8, 1e-8),
            ('getX matrix', unbits(mJX), np.array(JX).flatten().tolist(), 1e-7, 1e-9),
        ]
        if pd != 'pd':
            res.disagreements.append({'what': 'model Cholesky: non-positive pivot on a matrix the implementation factorised', 'input': case})
        for what, mv, iv, rt, at in checks:
            if not close(mv, iv, rt, at):
                res.disagreements.append({'what': 'nataf model vs implementation: ' + what, 'input': case, 'impl': iv, 'model': mv})
                break


def gen_limit_state(rng, np, d, mean, sd):
    """quadratic limit state c0 + b.x + x'Qx in physical units with mild curvature, reliability index of a few units"""
    b = np.array([rng.choice([-3.0, -2.0, -1.0, 1.0, 2.0, 0.5]) for _ in range(d)])
    Q = np.zeros((d, d))
    kind = rng.random()
    if kind < 0.45:
        shape = 'linear'
    else:
        shape = 'quadratic'
        for _ in range(rng.choice([1, 1, 2])):
            i, j = rng.randrange(d), rng.randrange(d)
            Q[i, j] += rng.choice([-1, 1]) * rng.choice([0.02, 0.05, 0.1]) * abs(b[i]) / max(sd[i], sd[j]) / max(1.0, abs(mean[i]) / sd[i])
    gsd = math.sqrt(float(np.sum((b * sd) ** 2)))
    target = rng.choice([-1.0, 0.8, 1.5, 2.5, 3.5])
    c0 = target * gsd - float(b @ mean) - float(mean @ Q @ mean)
    return shape, float(c0), b, Q


def form_stream(res, rng, n):
    """hlrfFORM iterate by iterate and mvalFOSM: model vs implementation"""
    core.import_impl()
    import numpy as np
    from scipy import stats
    from ffpack import rrm, rpm
    reqs, meta = [], []
    for i in range(n):
        d, kinds, p1, p2, dists, R = gen_problem(rng, np, stats, dmax=4)
        mean = np.array([float(ds.mean()) for ds in dists])
        sd = np.array([float(ds.std()) for ds in dists])
        shape, c0, b, Q = gen_limit_state(rng, np, d, mean, sd)
        tol = rng.choice([1e-6, 1e-6, 1e-3, 1e-9])
        iters = rng.choice([1000, 1000, 1, 2, 3, 50])
        calls = []

        def g(X, c0=c0, b=b, Q=Q):
            X = np.array(X, dtype=float)
            if not calls or not np.array_equal(calls[-1], X):      # (an implementation may evaluate g more than once at a point)
                calls.append(X.copy())
            return c0 + float(b @ X) + float(X @ Q @ X)
        dg = [(lambda X, k=k, b=b, Q=Q: float(b[k] + ((Q + Q.T) @ np.array(X, dtype=float))[k])) for k in range(d)]
        case = {'kinds': kinds, 'p1': p1, 'p2': p2, 'corr': R.tolist(), 'c0': c0, 'b': b.tolist(), 'Q': Q.tolist(), 'tol': tol, 'iter': iters}
        try:
            nat = rpm.NatafTransformation(dists, R.tolist())
        except Exception as e:  # noqa
            continue
        try:
            out = rrm.hlrfFORM(d, g, dg, dists, R.tolist(), tol=tol, iter=iters)
            status = 'ok'
        except ValueError as e:
            out, status = None, ('noconv' if 'converge' in str(e) else 'raised:' + repr(e)[:100])
        except Exception as e:  # noqa
            out, status = None, 'raised:' + repr(e)[:100]
        reqs.append(' '.join(['hlrf', str(d), ','.join(kinds), fcsv(p1), fcsv(p2), fcsv(np.array(nat.rhoZ).flatten()), fbits(tol), str(iters),
                              fbits(c0), fcsv(b), fcsv(Q.flatten())]))
        meta.append(('hlrf', case, status, out, [c.tolist() for c in calls], d, nat, dists))
        # `dg = None`: the gradient is the three-point stencil of `gradient` (order 3) with step dx; model: Deriv.partialD inside Form.hlrf
        if i % 3 == 0 and status == 'ok':
            dxv = rng.choice([1e-6, 1e-6, 1e-5, 1e-4])
            gq0 = lambda X, c0=c0, b=b, Q=Q: c0 + float(b @ np.array(X, dtype=float)) + float(np.array(X, dtype=float) @ Q @ np.array(X, dtype=float))
            try:
                out2, st2 = rrm.hlrfFORM(d, gq0, None, dists, R.tolist(), tol=tol, iter=iters, dx=dxv), 'ok'
            except ValueError as e:
                out2, st2 = None, ('noconv' if 'converge' in str(e) else 'raised:' + repr(e)[:100])
            except Exception as e:  # noqa
                out2, st2 = None, 'raised:' + repr(e)[:100]
            reqs.append(' '.join(['hlrfnum', str(d), ','.join(kinds), fcsv(p1), fcsv(p2), fcsv(np.array(nat.rhoZ).flatten()), fbits(tol), str(iters),
                                  fbits(c0), fcsv(b), fcsv(Q.flatten()), fbits(dxv)]))
            meta.append(('hlrfnum', dict(case, dg=None, dx=dxv), st2, out2, out, d, nat, dists))
            res.stat('form_numerical_gradient')
        res.stat('form_' + shape)
        for kd in kinds:
            res.stat('form_family_' + kd)
        res.stat('form_iter_%s' % ('default' if iters == 1000 else iters))
        if all(k == 'n' for k in kinds) and np.allclose(R, np.eye(d)):
            gq = lambda X, c0=c0, b=b, Q=Q: c0 + float(b @ np.array(X, dtype=float)) + float(np.array(X, dtype=float) @ Q @ np.array(X, dtype=float))
            try:
                bf = rrm.mvalFOSM(d, gq, dg, list(p1), list(p2))[0]
            except Exception as e:  # noqa
                res.failures.append({'signature': 'form-model:fosm-raised:' + json.dumps(case), 'clause': 'mvalFOSM raised on a valid problem', 'input': case,
                                     'impl_output': repr(e)[:200]})
                continue
            reqs.append(' '.join(['fosm', str(d), fcsv(p1), fcsv(p2), fbits(c0), fcsv(b), fcsv(Q.flatten())]))
            meta.append(('fosm', case, None, bf, None, d, None, None))
            res.stat('fosm')
    outs = core.driver_batch(reqs)
    for line, (what, case, status, out, calls, d, nat, dists) in zip(outs, meta):
        res.evaluations += 1
        import numpy as np
        if what == 'fosm':
            mv = unbits(line)
            if len(mv) != 1 or not close(mv, [float(out)], 1e-11, 1e-13):
                res.disagreements.append({'what': 'mvalFOSM: model vs implementation', 'input': case, 'impl': float(out), 'model': mv})
            continue
        toks = line.split(' ')
        if what == 'hlrfnum':
            # outcome only (the evaluation points of g now include the stencil points).  `calls` holds the result of the analytic-gradient
            # run of the implementation: a loop that is not contractive amplifies the 1e-10 noise of the difference quotient, so the
            # comparison is made where the two runs of the IMPLEMENTATION agree to 1e-6 (else: counted, not compared)
            if len(toks) != 3:
                res.disagreements.append({'what': 'hlrfnum model: bad answer', 'input': case, 'model': line[:200]})
                continue
            if status != 'ok' or toks[0] != 'ok':
                res.stat('form_numgrad_outcome_%s_model_%s' % (status.split(':')[0], toks[0]))
                continue
            beta, pf, u, x = out
            ab, _, au, ax = calls
            if not all(abs(z) <= 6.0 for z in zs_of(dists, list(ax)) if z == z):
                res.stat('form_numgrad_design_point_in_the_far_tail')
                continue
            def rel(a, b):
                return max(abs(float(p) - float(q)) / (1.0 + abs(float(q))) for p, q in zip(a, b))
            if rel([beta] + list(u) + list(x), [ab] + list(au) + list(ax)) > 1e-6:
                res.stat('form_numgrad_run_sensitive_to_gradient_noise')
                continue
            mf, mxv = unbits(toks[1]), unbits(toks[2])
            res.traces += 1
            if rel([mf[0]] + mf[1:] + mxv, [beta] + list(u) + list(x)) > 2e-6:
                res.disagreements.append({'what': 'hlrfFORM( dg = None ): returned beta / uCoord / xCoord', 'input': case,
                                          'impl': [float(beta), list(map(float, u)), list(map(float, x))], 'model': [mf, mxv]})
            continue
        if len(toks) != 4:
            res.disagreements.append({'what': 'hlrf model: bad answer', 'input': case, 'model': line[:200]})
            continue
        mstatus, mfinal, mx, mtrace = toks
        its = [unbits(t) for t in mtrace.split(';')] if mtrace != '-' else []
        # an exception other than the non-convergence ValueError (a LinAlgError once an iterate is NaN / the gradient vanishes) is an
        # admissible way of not returning: the property speaks about the cases in which the method returns.  It is a disagreement only
        # if the model, on a trajectory that stays inside the numeric range, does return.
        raised = status.startswith('raised')
        # iterate by iterate on the common prefix: the k-th evaluation point of g is T( u_{k-1} ), u_0 = ones; the model prints
        # T( u_k ) after each iterate ( beta, u (d), x (d) ).  A fixed-point iteration that is not contractive amplifies rounding
        # differences (the implementation goes through ppf( cdf( z ) ), the model through the closed form), so the admissible
        # difference at iterate k is max( 1e-8, 1e4 * difference at iterate k-1 ); a wrong formula shows at the first iterate it
        # affects, where the previous difference is at rounding level.
        def err(a, b):
            if len(a) != len(b):
                return float('inf')
            e = 0.0
            for x, y in zip(a, b):
                if x != x or y != y:
                    if not (x != x and y != y):
                        return float('inf')
                    continue
                e = max(e, abs(x - y) / (1.0 + abs(x)))
            return e
        def tail_floor(X):
            # the implementation maps z -> ppf( cdf( z ) ): in the upper tail cdf( z ) = 1 - q is rounded to 1.1e-16, i.e. z is only
            # known to 1.1e-16 / phi( z ) (DESIGN 7, numerical limits (1)); 1e-8 up to z = 5.4, 3e-6 at z = 6.8
            zs = zs_of(dists, X)
            zmax = min(max([0.0] + [z for z in zs if z == z]), 30.0)
            return max(1e-8, 4e-16 / (math.exp(-0.5 * zmax * zmax) / math.sqrt(2 * math.pi)))
        def in_range(X):
            # outside |z| <= 8 the implementation's route through cdf / ppf saturates or underflows (DESIGN 7); non-finite iterates likewise
            if any(x != x or abs(x) == float('inf') for x in X):
                return False
            return all(z == z and abs(z) <= 8.0 for z in zs_of(dists, X))
        prev, bad, diverged = 0.0, False, False
        for k, X in enumerate(calls[:min(len(calls), len(its) + 1, 40)]):
            Xm = [float(v) for v in nat.getX([1.0] * d)[0]] if k == 0 else its[k - 1][1 + d:1 + 2 * d]
            if not in_range(Xm):
                diverged = True
                break
            e = err(list(X), list(Xm))
            if e > max(tail_floor(Xm), 1e4 * prev):
                res.disagreements.append({'what': 'hlrfFORM: evaluation point of iteration %d' % (k + 1), 'input': case, 'impl': list(X), 'model': list(Xm),
                                          'difference': e, 'difference_at_previous_iterate': prev})
                bad = True
                break
            if e > 1e-4:
                diverged = True
                break
            prev = e
        if bad:
            continue
        if diverged or not all(in_range(t[1 + d:1 + 2 * d]) for t in its[:40]):
            res.stat('form_left_numeric_range_or_rounding_amplified')
            continue
        if raised:
            if mstatus == 'ok':
                res.disagreements.append({'what': 'hlrfFORM raised where the model returns', 'input': case, 'impl': status, 'model': [mstatus, len(its)]})
            else:
                res.stat('form_raised_other_than_nonconvergence')
            continue
        # the decision `norm( Us[idx] - Us[idx-1] ) < tol` may legitimately differ when the norm is within rounding of tol
        def borderline():
            us = [np.ones(d)] + [np.array(t[1:1 + d]) for t in its]
            return any(abs(float(np.linalg.norm(us[k + 1] - us[k])) - case['tol']) <= (1e-6 + 1e4 * prev) * max(case['tol'], 1e-3) for k in range(len(us) - 1))
        if mstatus != status or len(its) != len(calls):
            if borderline() or prev > 1e-7:
                res.stat('form_borderline_tolerance')
                continue
            res.disagreements.append({'what': 'hlrfFORM: outcome / number of iterations', 'input': case, 'impl': [status, len(calls)], 'model': [mstatus, len(its)]})
            continue
        res.traces += 1
        res.stat('form_outcome_' + status)
        res.stat('form_iterations_' + ('1' if len(calls) == 1 else '2' if len(calls) == 2 else '3-9' if len(calls) < 10 else '10+'))
        if status == 'ok':
            beta, pf, u, x = out
            mf = unbits(mfinal)
            lim = max(tail_floor(unbits(mx)), 1e4 * prev)
            if max(err([mf[0]], [float(beta)]), err(mf[1:], list(u)), err(unbits(mx), list(x))) > lim:
                res.disagreements.append({'what': 'hlrfFORM: returned beta / uCoord / xCoord', 'input': case, 'impl': [float(beta), list(u), list(x)],
                                          'model': [mf, unbits(mx)]})
