"""entry point: ./check Cxx [--tier quick|thorough] [--replay file]"""
import argparse
import importlib
import os
import sys
import traceback

sys.path.insert(0, os.path.dirname(os.path.abspath(__file__)))
import core  # noqa: E402


def main():
    ap = argparse.ArgumentParser()
    ap.add_argument('pid')
    ap.add_argument('--tier', default=os.environ.get('VERIF_TIER', 'quick'), choices=['quick', 'thorough'])
    ap.add_argument('--replay', default=None)
    a = ap.parse_args()
    seed = int(os.environ.get('VERIF_SEED', '0') or 0)
    try:
        mod = importlib.import_module('props.' + a.pid.lower())
        if a.replay:
            import json
            d = json.load(open(a.replay))
            f = d.get('failure') or {}
            print('replaying', a.replay, '-> signature', f.get('signature', '(broken obligation / tie)'))
            os.environ['VERIF_REPLAY_SIG'] = f.get('signature', '')
            return mod.run(d.get('tier', 'quick'), int(d.get('seed', 0)))
        return mod.run(a.tier, seed)
    except core.Infra as e:
        print('INFRA-ERROR', e)
        return 2
    except Exception as e:
        # The harness could not interpret what the implementation did (an output of an unexpected shape, type or
        # value raised inside the harness).  On the unchanged tree this never happens; when it does, the tie between
        # model and code no longer checks, which is reported as such: a violation without a failing input.
        tb = traceback.format_exc()
        print(tb)
        import json
        os.makedirs(core.REPLAYS, exist_ok=True)
        rp = os.path.join(core.REPLAYS, f'{a.pid}_{a.tier}_{seed}.json')
        json.dump({'property': a.pid, 'kind': 'broken-tie', 'tier': a.tier, 'seed': seed,
                   'no_longer_checks': ['correspondence harness harness/props/%s.py raised %s: %s' % (a.pid.lower(), type(e).__name__, str(e)[:300])],
                   'traceback': tb[-3000:]}, open(rp, 'w'), indent=1)
        print(f'VIOLATION property={a.pid} replay={rp} no-failing-input-found')
        return 1


if __name__ == '__main__':
    sys.stdout.reconfigure(line_buffering=True)
    sys.exit(main())
