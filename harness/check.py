"""entry point: ./check Cxx [--tier quick|thorough] [--replay file]"""
import argparse
import importlib
import os
import sys
import traceback

sys.path.insert(0, os.path.dirname(os.path.abspath(__file__)))
import core  # noqa: E402


def main():
    ap = argparse.ArgumentParser()
    ap.add_argument('pid')
    ap.add_argument('--tier', default=os.environ.get('VERIF_TIER', 'quick'), choices=['quick', 'thorough'])
    ap.add_argument('--replay', default=None)
    a = ap.parse_args()
    seed = int(os.environ.get('VERIF_SEED', '0') or 0)
    try:
        mod = importlib.import_module('props.' + a.pid.lower())
        if a.replay:
            import json
            d = json.load(open(a.replay))
            f = d.get('failure') or {}
            print('replaying', a.replay, '-> signature', f.get('signature', '(broken obligation / tie)'))
            os.environ['VERIF_REPLAY_SIG'] = f.get('signature', '')
            return mod.run(d.get('tier', 'quick'), int(d.get('seed', 0)))
        return mod.run(a.tier, seed)
    except core.Infra as e:
        print('INFRA-ERROR', e)
        return 2
    except Exception:
        traceback.print_exc()
        return 2


if __name__ == '__main__':
    sys.stdout.reconfigure(line_buffering=True)
    sys.exit(main())
